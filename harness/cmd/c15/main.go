// Harness of property C15: targeters hand out each target exactly once under concurrent use
// (stream targeters: exactly-once + exhaustion for every caller; static targeter: strict
// rotation), on all cores, and the same rounds once more in a binary built with the race detector.
package main

import (
	"bytes"
	"context"
	"encoding/json"
	"errors"
	"fmt"
	"io"
	"net/http"
	"net/http/httptest"
	"net/url"
	"os"
	"os/exec"
	"path/filepath"
	"sort"
	"strconv"
	"strings"
	"sync"
	"time"

	vegeta "github.com/tsenart/vegeta/v12/lib"
	"vharness/kit"
	"vharness/run"
)

func main() { run.Main("C15", runC15) }

// ---------------------------------------------------------------- canonical forms (as in cmd/c14)

func showHeader(h map[string][]string) string {
	ks := make([]string, 0, len(h))
	for k := range h {
		ks = append(ks, k)
	}
	sort.Strings(ks)
	var sb strings.Builder
	sb.WriteString(strconv.Itoa(len(ks)))
	for _, k := range ks {
		sb.WriteString(" " + kit.HexS(k) + " " + strconv.Itoa(len(h[k])))
		for _, v := range h[k] {
			sb.WriteString(" " + kit.HexS(v))
		}
	}
	return sb.String()
}

func showTarget(t *vegeta.Target) string {
	return kit.HexS(t.Method) + " " + kit.HexS(t.URL) + " " + kit.Hex(t.Body) + " " + showHeader(t.Header)
}

// ---------------------------------------------------------------- cases

type streamCase struct {
	Format      string              `json:"format"` // "json" | "http"
	Src         string              `json:"src"`
	DefaultBody []byte              `json:"default_body"`
	Defaults    map[string][]string `json:"defaults"`
	Files       map[string][]byte   `json:"files"`
	Work        string              `json:"work"`
	Expected    []string            `json:"expected"` // canonical targets, in input order
	Callers     int                 `json:"callers"`
	SpareCap    map[string]int      `json:"spare_cap,omitempty"` // spare capacity of the default value slices
	LongLine    bool                `json:"long_line,omitempty"`
	Fat         bool                `json:"fat,omitempty"`
	Big         bool                `json:"big,omitempty"`
	Ending      bool                `json:"ending,omitempty"`               // blank / white-space lines after the last target
	Faults      []string            `json:"faulty_request_lines,omitempty"` // http: request lines that are no target (one error each)
	Sched       []int               `json:"-"`
	panicked    bool                // a direct call panicked in runStream
}

var keys = []string{"X-Account-ID", "x-account-id", "Content-Type", "Authorization", "X", "k1", "ETag"}
var vals = []string{"8675309", "Token DEADBEEF", "text/plain; charset=utf-8", "a:b", "1", "2"}

func genDefaults(r *kit.Rng) (map[string][]string, map[string]int) {
	m, spare := map[string][]string{}, map[string]int{}
	for i := 0; i < r.Pick(4); i++ {
		k := r.PickStr(keys)
		m[k] = []string{"d" + strconv.Itoa(i)}
		switch r.Pick(4) {
		case 0:
			m[k] = append(m[k], "e")
		case 1:
			m[k] = append(m[k], "e", "f") // three values given one after the other: cap 4
			spare[k] = 1
		}
		if r.Chance(0.5) {
			spare[k] = 1 + r.Pick(4)
		}
	}
	if len(m) == 0 && r.Chance(0.6) {
		m = nil // nil default header map
	}
	return m, spare
}

// mkHeader builds the default header map; spare[k] > 0 gives k's value slice that much spare
// capacity — what repeated -header flags produce (three values: len 3, cap 4)
func mkHeader(m map[string][]string, spare map[string]int) http.Header {
	if m == nil {
		return nil // the library accepts a nil default header
	}
	h := http.Header{}
	for k, vs := range m {
		s := make([]string, len(vs), len(vs)+spare[k])
		copy(s, vs)
		h[k] = s
	}
	return h
}

func expectedTarget(method, url string, body []byte, own [][2]string, sc *streamCase) string {
	h := map[string][]string{}
	for k, vs := range sc.Defaults {
		h[k] = append([]string{}, vs...)
	}
	for _, kv := range own {
		h[kv[0]] = append(h[kv[0]], kv[1])
	}
	if len(body) == 0 {
		body = sc.DefaultBody
	}
	t := vegeta.Target{Method: method, URL: url, Body: body, Header: h}
	return showTarget(&t)
}

func genStreamCase(r *kit.Rng, format, work string, id int) streamCase {
	sc := streamCase{Format: format, Work: work, Files: map[string][]byte{}}
	sc.Defaults, sc.SpareCap = genDefaults(r)
	if r.Chance(0.5) {
		sc.DefaultBody = []byte("default")
	}
	n := r.Pick(200)
	if r.Chance(0.5) {
		n = r.Pick(20)
	}
	var sb strings.Builder
	var jbuf bytes.Buffer
	jenc := vegeta.NewJSONTargetEncoder(&jbuf) // one encoder for the whole file
	longAt := -1
	if n > 0 && r.Chance(0.15) {
		longAt = r.Pick(n) // one line longer than bufio's 4096-byte buffer
		sc.LongLine = true
	}
	// "fat" rounds: many lines of 1-2 KiB, so that the reader's buffer is refilled every few
	// lines while other callers are still decoding theirs
	fat := id%10 == 4 || id%10 == 5
	if fat {
		n = 100 + r.Pick(60)
		sc.Fat = true
	}
	// big compact rounds: hundreds to thousands of one-line targets without blank lines (5 KiB …
	// 200 KiB), lines of varying length so that buffer boundaries fall anywhere in a line
	big := id%10 == 6 || id%10 == 7
	if big {
		n = []int{150, 400, 900, 1500, 3000}[r.Pick(5)] + r.Pick(100)
		sc.Big = true
	}
	// faulty request lines in the middle of an http input: a bad URL, a lower-case method, a lone
	// word. Each is a line of its own that is no target (the format describes a request line as
	// "METHOD URL"); the targets around it are the input's targets all the same. Half of these
	// inputs are compact (no blank line after the faulty line, nor between the targets).
	faultAt := map[int]string{}
	compact := big
	if format == "http" && (id%10 == 3 || id%10 == 9 || (big && r.Chance(0.5))) {
		if n < 4 {
			n = 4 + r.Pick(60)
		}
		if id%10 == 9 {
			compact = true
		}
		for k := 0; k < 1+r.Pick(3); k++ {
			faultAt[1+r.Pick(n-1)] = r.PickStr([]string{"GET http://[::1", "POST http://[fe80::1%en0]:80/x y", "get http://lower-" + strconv.Itoa(id) + "/m", "Get http://mixed-" + strconv.Itoa(id) + "/m", "bogus", "GET"})
		}
	}
	for i := 0; i < n; i++ {
		if f, ok := faultAt[i]; ok && format == "http" {
			// a line that does not start with a method would be read as a header line of the
			// target before it: such a faulty line stands after a blank line
			if !strings.HasPrefix(f, "GET ") && !strings.HasPrefix(f, "POST ") {
				sb.WriteString("\n")
			}
			sb.WriteString(f + "\n")
			if !compact && r.Chance(0.5) {
				sb.WriteString("\n")
			}
			sc.Faults = append(sc.Faults, f)
		}
		method := r.PickStr([]string{"GET", "POST", "PUT", "DELETE"})
		url := "http://host-" + strconv.Itoa(id) + ":8080/t/" + strconv.Itoa(i)
		if big {
			url += "/" + strings.Repeat("p", r.Pick(40))
		}
		if r.Chance(0.05) && i > 0 {
			url = "http://host-" + strconv.Itoa(id) + ":8080/t/" + strconv.Itoa(r.Pick(i)) // a duplicate target: multiset matters
		}
		var own [][2]string
		nown := r.Pick(4)
		if compact && !r.Chance(0.1) {
			nown = 0 // mostly bare one-line targets
		}
		for j := 0; j < nown; j++ {
			own = append(own, [2]string{r.PickStr(keys), r.PickStr(vals)})
		}
		if i == longAt {
			own = append(own, [2]string{"X-Long", "L" + strings.Repeat("x", 4090+r.Pick(3000)) + "l"})
		}
		if fat {
			own = append(own, [2]string{"X-Fat", strconv.Itoa(i) + strings.Repeat(string(rune('a'+i%26)), 1000+r.Pick(1000))})
		}
		var body []byte
		if r.Chance(0.3) && (!compact || r.Chance(0.15)) {
			body = []byte("body-" + strconv.Itoa(i))
		}
		if format == "json" {
			t := vegeta.Target{Method: method, URL: url, Body: body}
			if len(own) > 0 {
				t.Header = http.Header{}
				for _, kv := range own {
					t.Header[kv[0]] = append(t.Header[kv[0]], kv[1])
				}
			}
			before := jbuf.Len()
			if err := jenc.Encode(&t); err != nil {
				panic(err)
			}
			if r.Chance(0.1) {
				sb.WriteString(" \n\n")
			}
			sb.WriteString(string(jbuf.Bytes()[before:]))
			// own values grouped per key (the JSON object groups them)
			var grouped [][2]string
			ks := make([]string, 0, len(t.Header))
			for k := range t.Header {
				ks = append(ks, k)
			}
			sort.Strings(ks)
			for _, k := range ks {
				for _, v := range t.Header[k] {
					grouped = append(grouped, [2]string{k, v})
				}
			}
			sc.Expected = append(sc.Expected, expectedTarget(method, url, body, grouped, &sc))
		} else {
			if r.Chance(0.2) {
				if r.Chance(0.5) {
					sb.WriteString("\n")
				}
				sb.WriteString("# target " + strconv.Itoa(i) + "\n")
			}
			sb.WriteString(method + " " + url + "\n")
			for _, kv := range own {
				sb.WriteString(kv[0] + ": " + kv[1] + "\n")
			}
			if body != nil {
				p := filepath.Join(work, fmt.Sprintf("c15_%d_%d.bin", id, i))
				sc.Files[p] = body
				sb.WriteString("@" + p + "\n")
			}
			if len(own) > 0 && body == nil || (!compact && r.Chance(0.3)) {
				sb.WriteString("\n")
			}
			sc.Expected = append(sc.Expected, expectedTarget(method, url, body, own, &sc))
		}
	}
	sc.Src = sb.String()
	if format == "http" && r.Chance(0.3) {
		sc.Src = strings.TrimSuffix(sc.Src, "\n") // the http format delivers an unterminated last line
	} else if r.Chance(0.5) {
		// the end of the stream: blank lines, CRLF blank lines, a last line of spaces or tabs (with
		// and without a newline of its own) after the last target
		sc.Src += r.PickStr([]string{"\n", "\n\n\n", "\r\n", "\r\n\r\n", "   ", "\t", " \t \n", "\n  \t", "\n \n\t\n", "\r\n \r\n"})
		sc.Ending = true
	}
	sc.Callers = 1 + r.Pick(64)
	if id%8 < 2 {
		sc.Callers = 1
	}
	if fat {
		sc.Callers = 32 + r.Pick(33)
	}
	return sc
}

type callerLog struct {
	results   []string
	held      []*vegeta.Target // nil for an error result; rendered when the round is over
	exhausted int
	late      int // results received after this caller was told ErrNoTargets
	panicMsg  string
	panics    int
	gaveUp    bool // more calls than the input has lines (times three) without exhaustion
}

// drawConcurrently: `callers` goroutines draw from one targeter until each has been told
// ErrNoTargets three times.
func drawConcurrently(tr vegeta.Targeter, callers, maxCalls int) []callerLog {
	logs := make([]callerLog, callers)
	start := make(chan struct{})
	var wg sync.WaitGroup
	for g := 0; g < callers; g++ {
		wg.Add(1)
		go func(g int) {
			defer wg.Done()
			defer func() {
				if r := recover(); r != nil {
					logs[g].panicMsg = fmt.Sprint(r)
				}
			}()
			<-start
			l := &logs[g]
			for calls := 0; l.exhausted < 3; calls++ {
				if calls > maxCalls {
					l.gaveUp = true
					return
				}
				var t vegeta.Target
				var err error
				// a panic in one call is recorded for that call; the caller goes on drawing
				if p, msg := kit.Recover(func() { err = tr(&t) }); p {
					l.panicMsg = msg
					l.panics++
					l.results = append(l.results, "panic "+msg)
					l.held = append(l.held, nil)
					if l.panics > 10000 {
						return
					}
					continue
				}
				switch {
				case errors.Is(err, vegeta.ErrNoTargets):
					l.exhausted++
				case err != nil:
					l.results = append(l.results, "err "+err.Error())
					l.held = append(l.held, nil)
					if l.exhausted > 0 {
						l.late++
					}
				default:
					// the caller keeps the target; it is looked at when the round is over, after every
					// other caller's draws (a delivered target must not be mixed with a later one)
					l.results = append(l.results, "")
					tc := t
					l.held = append(l.held, &tc)
					if l.exhausted > 0 {
						l.late++
					}
				}
			}
		}(g)
	}
	close(start)
	if !waitTimeout(&wg, hangLimit) {
		return nil // some caller never got an answer; the goroutines are abandoned
	}
	for g := range logs {
		for i, t := range logs[g].held {
			if t != nil {
				logs[g].results[i] = "ok " + showTarget(t)
			}
		}
	}
	return logs
}

// a round of a few thousand in-memory calls takes milliseconds; a caller that has no answer after
// this long never gets one (lower bound only: nothing is concluded from a fast round)
const hangLimit = 60 * time.Second

// set once a targeter call did not return: no further rounds are started
var hung bool

func waitTimeout(wg *sync.WaitGroup, d time.Duration) bool {
	done := make(chan struct{})
	go func() { wg.Wait(); close(done) }()
	select {
	case <-done:
		return true
	case <-time.After(d):
		hung = true
		return false
	}
}

func runStream(s *kit.Summary, sc *streamCase) (implLine string) {
	for p, b := range sc.Files {
		if err := os.WriteFile(p, b, 0o644); err != nil {
			panic(err)
		}
	}
	defer func() {
		for p := range sc.Files {
			os.Remove(p)
		}
	}()
	var tr vegeta.Targeter
	hdr := mkHeader(sc.Defaults, sc.SpareCap)
	if sc.Format == "json" {
		tr = vegeta.NewJSONTargeter(strings.NewReader(sc.Src), sc.DefaultBody, hdr)
	} else {
		tr = vegeta.NewHTTPTargeter(strings.NewReader(sc.Src), sc.DefaultBody, hdr)
	}
	// every call consumes at least one line or reports exhaustion: a caller needs no more calls
	// than that, whatever the other callers do
	logs := drawConcurrently(tr, sc.Callers, 3*(strings.Count(sc.Src, "\n")+1)+10)
	if logs == nil {
		s.Violate(kit.Violation{Kind: "targeter_call_never_returns", What: "concurrent callers drew from one targeter and at least one call did not return (no target, no ErrNoTargets)",
			Input: sc, Expected: "every call returns", Observed: fmt.Sprintf("still running after %s", hangLimit),
			Key: map[string]interface{}{"format": sc.Format, "callers": sc.Callers}})
		return "hang"
	}
	var got []string
	ex := make([]uint64, sc.Callers)
	late := 0
	panicReported := false
	gaveUpReported := false
	for g, l := range logs {
		if l.panicMsg != "" {
			sc.panicked = true
		}
		if l.panicMsg != "" && !panicReported {
			panicReported = true
			s.Violate(kit.Violation{Kind: "targeter_panic_concurrent", What: "a targeter call panicked: " + l.panicMsg, Input: sc,
				Expected: "every call returns a target or an error", Observed: fmt.Sprintf("caller %d: %d call(s) panicked: %s", g, l.panics, l.panicMsg),
				Key: map[string]interface{}{"format": sc.Format, "callers": sc.Callers, "nil_default_map": sc.Defaults == nil}})
		}
		if l.gaveUp && !gaveUpReported {
			gaveUpReported = true
			s.Violate(kit.Violation{Kind: "stream_never_exhausted", What: "a caller made three times as many calls as the input has lines and was not told ErrNoTargets three times", Input: sc,
				Key: map[string]interface{}{"format": sc.Format, "callers": sc.Callers}})
		}
		got = append(got, l.results...)
		ex[g] = uint64(l.exhausted)
		late += l.late
	}
	// (that a single caller receives the targets in input order is C14's clause, not C15's:
	// it is counted here, not judged)
	if sc.Callers == 1 && len(logs) == 1 {
		inOrder := len(logs[0].results) == len(sc.Expected)
		for i, e := range sc.Expected {
			if i >= len(logs[0].results) || logs[0].results[i] != "ok "+e {
				inOrder = false
				break
			}
		}
		s.Count(fmt.Sprintf("%s:single_caller_in_input_order=%v", sc.Format, inOrder))
	}
	if sc.LongLine {
		s.Count(sc.Format + ":line>4096")
	}
	if sc.Ending {
		s.Count(sc.Format + ":blank_or_space_lines_after_last_target")
	}
	if sc.Fat {
		s.Count(sc.Format + ":fat_round")
	}
	if sc.Big {
		s.Count(fmt.Sprintf("%s:big_compact_round<=%dKiB", sc.Format, 1+len(sc.Src)/1024/25*25+24))
	}
	if len(sc.SpareCap) > 0 {
		s.Count(sc.Format + ":default_with_spare_capacity")
	}
	if sc.Defaults == nil {
		s.Count(sc.Format + ":nil_default_map")
	}
	if sc.DefaultBody == nil {
		s.Count(sc.Format + ":nil_default_body")
	}
	for i, g := range got {
		if strings.HasPrefix(g, "err ") {
			got[i] = "err " + errClass(g[4:])
		}
	}
	sort.Strings(got)
	delivered := got
	if len(sc.Faults) > 0 {
		// the faulty request lines are no targets: what is judged is the targets delivered (the
		// errors reported for the faulty lines are compared with the model only)
		s.Count(fmt.Sprintf("http:faulty_request_lines=%d", len(sc.Faults)))
		if len(sc.Src) > 4096 {
			s.Count("http:faulty_request_lines_in_input>4KiB")
		}
		delivered = nil
		for _, g := range got {
			if !strings.HasPrefix(g, "err ") {
				delivered = append(delivered, g)
			}
		}
	}
	exp := make([]string, len(sc.Expected))
	for i, e := range sc.Expected {
		exp[i] = "ok " + e
	}
	sort.Strings(exp)
	// oracle: multiset exactly once
	if strings.Join(delivered, "\n") != strings.Join(exp, "\n") {
		lost, dup := diffMultiset(exp, delivered)
		s.Violate(kit.Violation{Kind: "stream_not_exactly_once", What: "multiset of targets returned to the concurrent callers differs from the input's targets",
			Input: sc, Expected: fmt.Sprintf("%d targets", len(exp)), Observed: fmt.Sprintf("%d results; missing %v; unexpected %v", len(delivered), clip(lost), clip(dup)),
			Key: map[string]interface{}{"format": sc.Format, "callers": sc.Callers}})
	}
	// oracle: exhaustion reported to every caller afterwards
	if late > 0 {
		s.Violate(kit.Violation{Kind: "result_after_exhaustion", What: "a caller received a target after it had been told ErrNoTargets", Input: sc,
			Key: map[string]interface{}{"format": sc.Format}})
	}
	for i := 0; i < 3; i++ {
		var t vegeta.Target
		if err := tr(&t); !errors.Is(err, vegeta.ErrNoTargets) {
			s.Violate(kit.Violation{Kind: "exhaustion_not_stable", What: "a call after exhaustion did not report ErrNoTargets", Input: sc, Observed: fmt.Sprint(err)})
		}
	}
	implLine = "ok " + strconv.Itoa(len(got)) + " ; " + strings.Join(got, " ; ") + " ; ex " + kit.Uints(ex) + " ; late " + strconv.Itoa(late)
	return
}

// errClass: the class of a targeter error as the model numbers them (the text after the class
// word repeats the input line)
func errClass(msg string) string {
	for i, p := range []string{"bad target:", "bad method:", "bad URL:", "bad body:", "bad header:"} {
		if strings.HasPrefix(msg, p) {
			return strconv.Itoa(i + 2)
		}
	}
	return msg
}

func clip(xs []string) []string {
	if len(xs) > 3 {
		return xs[:3]
	}
	return xs
}

func diffMultiset(exp, got []string) (lost, extra []string) {
	m := map[string]int{}
	for _, e := range exp {
		m[e]++
	}
	for _, g := range got {
		m[g]--
	}
	for k, c := range m {
		for ; c > 0; c-- {
			lost = append(lost, k)
		}
		for ; c < 0; c++ {
			extra = append(extra, k)
		}
	}
	return
}

func validURI(u string) bool { _, err := url.ParseRequestURI(u); return err == nil }

func streamOp(sc *streamCase, sched []int) string {
	var sb strings.Builder
	if sc.Format == "json" {
		sb.WriteString("c15.json " + kit.Hex(sc.DefaultBody) + " " + showHeader(sc.Defaults) + " " + kit.HexS(sc.Src))
	} else {
		// the layout of cmd/c14's http case: body, defaults with capacities, src, valid URIs, files
		sb.WriteString("c15.http " + kit.Hex(sc.DefaultBody) + " ")
		ks := make([]string, 0, len(sc.Defaults))
		for k := range sc.Defaults {
			ks = append(ks, k)
		}
		sort.Strings(ks)
		sb.WriteString(strconv.Itoa(len(ks)))
		for _, k := range ks {
			vs := sc.Defaults[k]
			sb.WriteString(" " + kit.HexS(k) + " " + strconv.Itoa(len(vs)+sc.SpareCap[k]) + " " + strconv.Itoa(len(vs)))
			for _, v := range vs {
				sb.WriteString(" " + kit.HexS(v))
			}
		}
		sb.WriteString(" " + kit.HexS(sc.Src))
		// all generated URLs are valid request URIs; tokens[1] of a request line is the URL
		seen := map[string]bool{}
		var us []string
		for _, l := range strings.Split(sc.Src, "\n") {
			if tok := strings.SplitN(l, " ", 2); len(tok) == 2 && strings.HasPrefix(tok[1], "http://") && !seen[tok[1]] && validURI(tok[1]) {
				seen[tok[1]] = true
				us = append(us, kit.HexS(tok[1]))
			}
		}
		sb.WriteString(" " + strconv.Itoa(len(us)))
		for _, u := range us {
			sb.WriteString(" " + u)
		}
		ps := make([]string, 0, len(sc.Files))
		for p := range sc.Files {
			ps = append(ps, p)
		}
		sort.Strings(ps)
		sb.WriteString(" " + strconv.Itoa(len(ps)))
		for _, p := range ps {
			sb.WriteString(" " + kit.HexS(p) + " " + kit.Hex(sc.Files[p]))
		}
	}
	sb.WriteString(" " + strconv.Itoa(sc.Callers) + " " + strconv.Itoa(len(sched)))
	for _, c := range sched {
		sb.WriteString(" " + strconv.Itoa(c))
	}
	return sb.String()
}

type staticCase struct {
	K       int `json:"k"`
	Callers int `json:"callers"`
	Draws   int `json:"draws_per_caller"`
}

func runStatic(s *kit.Summary, sc staticCase) string {
	tgts := make([]vegeta.Target, sc.K)
	for i := range tgts {
		tgts[i] = vegeta.Target{Method: "GET", URL: "http://static/" + strconv.Itoa(i)}
		if i%2 == 1 {
			tgts[i].Method = "POST"
			tgts[i].Body = []byte("body-" + strconv.Itoa(i))
		}
		if i%3 != 0 {
			tgts[i].Header = http.Header{"X-I": {strconv.Itoa(i)}}
		}
	}
	tr := vegeta.NewStaticTargeter(tgts...)
	per := make([][]string, sc.Callers)
	start := make(chan struct{})
	var wg sync.WaitGroup
	var pmu sync.Mutex
	panicked := ""
	for g := 0; g < sc.Callers; g++ {
		wg.Add(1)
		go func(g int) {
			defer wg.Done()
			defer func() {
				if r := recover(); r != nil {
					pmu.Lock()
					panicked = fmt.Sprint(r)
					pmu.Unlock()
				}
			}()
			<-start
			for i := 0; i < sc.Draws; i++ {
				var t vegeta.Target
				if err := tr(&t); err != nil {
					per[g] = append(per[g], "err "+err.Error())
				} else {
					// the whole target must be one of the given ones, not a mixture
					if j, e := strconv.Atoi(strings.TrimPrefix(t.URL, "http://static/")); e == nil && j >= 0 && j < len(tgts) && showTarget(&t) != showTarget(&tgts[j]) {
						per[g] = append(per[g], "mixed "+showTarget(&t))
					} else {
						per[g] = append(per[g], t.URL)
					}
				}
			}
		}(g)
	}
	close(start)
	if !waitTimeout(&wg, hangLimit) {
		s.Violate(kit.Violation{Kind: "targeter_call_never_returns", What: "a call of the static targeter did not return", Input: sc})
		return "hang"
	}
	if panicked != "" {
		s.Violate(kit.Violation{Kind: "static_targeter_panic", What: "static targeter panicked: " + panicked, Input: sc})
		return "panic"
	}
	n := sc.Callers * sc.Draws
	counts := make([]uint64, sc.K)
	other := 0
	for _, rs := range per {
		for _, u := range rs {
			i, err := strconv.Atoi(strings.TrimPrefix(u, "http://static/"))
			if err != nil || i < 0 || i >= sc.K {
				other++
				continue
			}
			counts[i]++
		}
	}
	bad := other > 0
	for _, cnt := range counts {
		if cnt != uint64(n/sc.K) && cnt != uint64((n+sc.K-1)/sc.K) {
			bad = true
		}
	}
	// one caller alone sees the rotation itself: every draw is the successor of the one before
	if sc.Callers == 1 && !bad {
		s.Count("static:single_caller_order_checked")
		prev := -1
		for d, u := range per[0] {
			i, _ := strconv.Atoi(strings.TrimPrefix(u, "http://static/"))
			if prev >= 0 && i != (prev+1)%sc.K {
				s.Violate(kit.Violation{Kind: "static_rotation_order", What: "a single caller did not receive the targets in rotation",
					Input: sc, Expected: fmt.Sprintf("draw %d: target %d", d, (prev+1)%sc.K), Observed: fmt.Sprintf("target %d", i)})
				break
			}
			prev = i
		}
	}
	if bad {
		s.Violate(kit.Violation{Kind: "static_rotation", What: "after n draws some target was not used floor(n/k) or ceil(n/k) times (strict rotation)",
			Input: sc, Expected: fmt.Sprintf("n=%d k=%d", n, sc.K), Observed: fmt.Sprint(counts, " other=", other)})
	}
	return "ok " + strconv.Itoa(n) + " " + kit.Uints(counts)
}

// ---------------------------------------------------------------- the attack's workers as the concurrent callers

// recorder is the transport of the attacker under test: it keeps the canonical form of every
// request it is asked to send (method, URL, body, all header values except the attack's own
// sequence header) and answers 200 with an empty body.
type recorder struct {
	mu   sync.Mutex
	seen []string
}

func (rc *recorder) RoundTrip(req *http.Request) (resp *http.Response, err error) {
	defer func() {
		if r := recover(); r != nil { // runs on the attack's goroutine: never let the harness die here
			resp, err = nil, fmt.Errorf("recorder: %v", r)
		}
	}()
	var body []byte
	if req.Body != nil {
		body, _ = io.ReadAll(req.Body)
		req.Body.Close()
	}
	h := map[string][]string{}
	for k, vs := range req.Header {
		if k == "X-Vegeta-Seq" || k == "X-Vegeta-Attack" {
			continue
		}
		h[k] = append([]string{}, vs...)
	}
	t := vegeta.Target{Method: req.Method, URL: req.URL.String(), Body: body, Header: h}
	line := "ok " + showTarget(&t)
	rc.mu.Lock()
	rc.seen = append(rc.seen, line)
	rc.mu.Unlock()
	return &http.Response{Status: "200 OK", StatusCode: 200, Proto: "HTTP/1.1", ProtoMajor: 1, ProtoMinor: 1,
		Header: http.Header{}, Body: http.NoBody, Request: req}, nil
}

// stopAfter paces at unlimited rate and ends the attack after n hits.
type stopAfter struct{ n uint64 }

func (p stopAfter) Pace(_ time.Duration, hits uint64) (time.Duration, bool) { return 0, hits >= p.n }
func (p stopAfter) Rate(time.Duration) float64                              { return 0 }

// attackAndRecord runs Attacker.Attack with `workers` workers over tr until the attack ends
// (stream targeters: the first error of the targeter stops it) and returns what the transport
// saw, sorted; nil when the attack did not end.
//
// The attack calls the targeter on goroutines of its own, where a panic would end the whole
// harness: the targeter is handed over inside a function that recovers (same Target pointer, same
// result); the first panic message is returned and the attack ends on the error it is given.
func attackAndRecord(inner vegeta.Targeter, workers int, p vegeta.Pacer) (seen []string, errs map[string]int, ended bool, panicked string) {
	var pmu sync.Mutex
	tr := func(t *vegeta.Target) (err error) {
		defer func() {
			if r := recover(); r != nil {
				pmu.Lock()
				if panicked == "" {
					panicked = fmt.Sprint(r)
				}
				pmu.Unlock()
				err = fmt.Errorf("targeter panicked: %v", r)
			}
		}()
		return inner(t)
	}
	rc := &recorder{}
	atk := vegeta.NewAttacker(vegeta.Client(&http.Client{Transport: rc}), vegeta.Workers(uint64(workers)), vegeta.MaxWorkers(uint64(workers)))
	errs = map[string]int{}
	var wg sync.WaitGroup
	wg.Add(1)
	go func() {
		defer wg.Done()
		for res := range atk.Attack(tr, p, 0, "") {
			if res.Error != "" {
				errs[res.Error]++
			}
		}
	}()
	if !waitTimeout(&wg, hangLimit) {
		return nil, nil, false, ""
	}
	rc.mu.Lock()
	seen = append([]string{}, rc.seen...)
	rc.mu.Unlock()
	sort.Strings(seen)
	pmu.Lock()
	defer pmu.Unlock()
	return seen, errs, true, panicked
}

type attackStreamCase struct {
	Case    streamCase `json:"case"`
	Workers int        `json:"workers"`
}

// runAttackStream: the workers of a real Attacker.Attack draw from one stream targeter; the
// requests that reach the transport must be the input's targets, each exactly once and each with
// exactly its own header values and body.
func runAttackStream(s *kit.Summary, sc *streamCase) {
	for p, b := range sc.Files {
		if err := os.WriteFile(p, b, 0o644); err != nil {
			panic(err)
		}
	}
	defer func() {
		for p := range sc.Files {
			os.Remove(p)
		}
	}()
	var tr vegeta.Targeter
	hdr := mkHeader(sc.Defaults, sc.SpareCap)
	if sc.Format == "json" {
		tr = vegeta.NewJSONTargeter(strings.NewReader(sc.Src), sc.DefaultBody, hdr)
	} else {
		tr = vegeta.NewHTTPTargeter(strings.NewReader(sc.Src), sc.DefaultBody, hdr)
	}
	in := attackStreamCase{Case: *sc, Workers: sc.Callers}
	key := map[string]interface{}{"format": sc.Format, "workers": sc.Callers}
	var seen []string
	var errs map[string]int
	ended := false
	pmsg := ""
	if p, msg := kit.Recover(func() { seen, errs, ended, pmsg = attackAndRecord(tr, sc.Callers, vegeta.ConstantPacer{}) }); p {
		pmsg = msg
	}
	if pmsg != "" {
		s.Violate(kit.Violation{Kind: "attack_workers_panic", What: "a targeter call by an attack's worker panicked: " + pmsg, Input: in,
			Expected: "every call returns a target or an error", Observed: "panic: " + pmsg,
			Key: map[string]interface{}{"format": sc.Format, "workers": sc.Callers, "nil_default_map": sc.Defaults == nil}})
		return
	}
	if !ended {
		s.Violate(kit.Violation{Kind: "attack_workers_never_end", What: "an attack over a finite stream of targets did not end", Input: in,
			Expected: "the attack stops when the targets are exhausted", Observed: fmt.Sprintf("still running after %s", hangLimit), Key: key})
		return
	}
	s.Count(sc.Format + ":attack_rounds")
	exp := make([]string, len(sc.Expected))
	for i, e := range sc.Expected {
		exp[i] = "ok " + e
	}
	sort.Strings(exp)
	if strings.Join(seen, "\n") != strings.Join(exp, "\n") {
		lost, extra := diffMultiset(exp, seen)
		s.Violate(kit.Violation{Kind: "attack_workers_not_exactly_once",
			What:     "the requests sent by the attack's concurrent workers are not the input's targets, each exactly once and unmixed",
			Input:    in,
			Expected: fmt.Sprintf("%d requests, one per target, each with exactly that target's method, URL, body and header values", len(exp)),
			Observed: fmt.Sprintf("%d requests; targets not sent as described %v; requests that are no target of the input %v", len(seen), clip(lost), clip(extra)),
			Key:      key})
		return
	}
	for e := range errs {
		if e != vegeta.ErrNoTargets.Error() {
			s.Violate(kit.Violation{Kind: "attack_workers_error", What: "a worker's hit failed although every target is legal and the transport answers 200", Input: in,
				Expected: "only the exhaustion error", Observed: e, Key: key})
			return
		}
	}
}

type attackStaticCase struct {
	K       int `json:"k"`
	Workers int `json:"workers"`
	Hits    int `json:"hits"`
}

// runAttackStatic: n hits by the workers of a real Attacker.Attack over the static targeter:
// the requests are the targets in rotation (hit i sends target i mod k), whole and unmixed.
func runAttackStatic(s *kit.Summary, sc attackStaticCase) {
	tgts := make([]vegeta.Target, sc.K)
	for i := range tgts {
		tgts[i] = vegeta.Target{Method: "GET", URL: "http://static/" + strconv.Itoa(i)}
		if i%2 == 1 {
			tgts[i].Method = "POST"
			tgts[i].Body = []byte("body-" + strconv.Itoa(i))
		}
		if i%3 != 0 {
			tgts[i].Header = http.Header{"X-I": {strconv.Itoa(i)}, "X-K" + strconv.Itoa(i%4): {"a", strconv.Itoa(i)}}
		}
	}
	var exp []string
	for i := 0; i < sc.Hits; i++ {
		t := tgts[i%sc.K]
		if t.Header == nil {
			t.Header = http.Header{}
		}
		exp = append(exp, "ok "+showTarget(&t))
	}
	sort.Strings(exp)
	var seen []string
	ended := false
	pmsg := ""
	if p, msg := kit.Recover(func() {
		seen, _, ended, pmsg = attackAndRecord(vegeta.NewStaticTargeter(tgts...), sc.Workers, stopAfter{uint64(sc.Hits)})
	}); p {
		pmsg = msg
	}
	if pmsg != "" {
		s.Violate(kit.Violation{Kind: "attack_static_workers_panic", What: "a call of the static targeter by an attack's worker panicked: " + pmsg, Input: sc})
		return
	}
	if !ended {
		s.Violate(kit.Violation{Kind: "attack_static_workers_never_end", What: "an attack whose pacer ends it after n hits did not end", Input: sc})
		return
	}
	s.Count("static:attack_rounds")
	if strings.Join(seen, "\n") != strings.Join(exp, "\n") {
		lost, extra := diffMultiset(exp, seen)
		s.Violate(kit.Violation{Kind: "attack_static_workers_rotation",
			What:     "the requests sent by the attack's concurrent workers over the static targeter are not the targets in rotation, whole and unmixed",
			Input:    sc,
			Expected: fmt.Sprintf("%d requests: hit i sends target i mod %d", len(exp), sc.K),
			Observed: fmt.Sprintf("%d requests; missing %v; unexpected %v", len(seen), clip(lost), clip(extra))})
	}
}

func shuffledSchedule(r *kit.Rng, callers, perCaller int) []int {
	var xs []int
	for c := 0; c < callers; c++ {
		for i := 0; i < perCaller; i++ {
			xs = append(xs, c)
		}
	}
	r.Shuffle(len(xs), func(i, j int) { xs[i], xs[j] = xs[j], xs[i] })
	return xs
}

func randomSchedule(r *kit.Rng, callers, n int) []int {
	xs := make([]int, n)
	for i := range xs {
		xs[i] = r.Pick(callers)
	}
	return xs
}

func rounds(c *run.Ctx, s *kit.Summary, r *kit.Rng, nStatic, nStream int, withDriver bool) {
	work := filepath.Join(c.Work, "c15")
	if err := os.MkdirAll(work, 0o755); err != nil {
		panic(err)
	}
	// The direct-call rounds (every call under recover) come first; the rounds in which a real
	// attack's workers are the callers come afterwards, and only for inputs whose direct round saw
	// no panic and no hang. A stream case is generated from a seed of its own, so that the second
	// pass generates the same case again instead of keeping thousands of them.
	var atkStatic []attackStaticCase
	caseRng := func(i int) *kit.Rng { return kit.NewRng(c.Seed*1000003 + int64(i)*7919 + 17) }
	attackable := make([]bool, nStream)
	st := &kit.Stream{Name: "c15.static"}
	for i := 0; i < nStatic && !hung; i++ {
		sc := staticCase{K: 1 + r.Pick(20), Callers: 1 + r.Pick(64), Draws: 1 + r.Pick(60)}
		if i%8 == 0 {
			sc.Callers = 1
		}
		line := runStatic(s, sc)
		if line != "hang" && line != "panic" {
			atkStatic = append(atkStatic, attackStaticCase{K: sc.K, Workers: sc.Callers, Hits: sc.Callers*sc.Draws/2 + r.Pick(40)})
		}
		s.Case(fmt.Sprint("s:", sc), sc.Callers > 1 && sc.K > 1)
		s.Count("static:rounds")
		if withDriver {
			sched := shuffledSchedule(r, sc.Callers, 2*sc.Draws)
			op := "c15.static " + strconv.Itoa(sc.K) + " " + strconv.Itoa(sc.Callers) + " " + strconv.Itoa(len(sched))
			for _, x := range sched {
				op += " " + strconv.Itoa(x)
			}
			st.Add(op, line)
		}
		if i < 1 {
			s.Sample(map[string]interface{}{"op": "c15.static", "case": sc, "impl": line})
		}
	}
	js := &kit.Stream{Name: "c15.json"}
	hs := &kit.Stream{Name: "c15.http"}
	for i := 0; i < nStream && !hung; i++ {
		format := "json"
		if i%2 == 1 {
			format = "http"
		}
		sc := genStreamCase(caseRng(i), format, work, i)
		line := runStream(s, &sc)
		// (an attack ends at the first error: inputs with faulty lines are not attacked)
		attackable[i] = line != "hang" && !sc.panicked && len(sc.Faults) == 0
		s.Case("t:"+sc.Src+strconv.Itoa(sc.Callers), sc.Callers > 1 && len(sc.Expected) > 1)
		s.Count(format + ":rounds")
		s.CountN(format+":targets", len(sc.Expected))
		s.CountN(format+":callers", sc.Callers)
		if withDriver && !(sc.Big && len(sc.Expected) > 1000) {
			sched := randomSchedule(r, sc.Callers, 2*len(sc.Expected)+r.Pick(50))
			if format == "json" {
				js.Add(streamOp(&sc, sched), line)
			} else {
				hs.Add(streamOp(&sc, sched), line)
			}
		}
		if i < 2 {
			s.Sample(map[string]interface{}{"op": "c15." + format, "callers": sc.Callers, "targets": len(sc.Expected)})
		}
	}
	if withDriver {
		st.Diff(c.Driver, s)
		js.Diff(c.Driver, s)
		hs.Diff(c.Driver, s)
	}
	for _, ac := range atkStatic {
		if hung {
			break
		}
		runAttackStatic(s, ac)
	}
	for i := 0; i < nStream && !hung; i++ {
		if !attackable[i] {
			s.Count("attack_round_skipped:direct_round_panicked_hung_or_faulty_input")
			continue
		}
		format := "json"
		if i%2 == 1 {
			format = "http"
		}
		sc := genStreamCase(caseRng(i), format, work, i)
		runAttackStream(s, &sc)
	}
}

// ---------------------------------------------------------------- the real command, lazily, many times

type cliCase struct {
	Format string `json:"format"`
	Runs   int    `json:"runs"` // how many runs a replay repeats
}

// cliLazyRuns: many short runs of the real `vegeta attack -lazy` with 16 workers at unlimited
// rate over a fresh 3-target file, against one long-lived local server that counts the requests
// per path: within each run every target must be requested exactly once (the lazily read stream
// is handed out exactly once under concurrent workers).
func cliLazyRuns(c *run.Ctx, s *kit.Summary, format string, runs, parallel int) {
	if _, err := os.Stat(c.Vegeta); err != nil {
		s.Skipped["cli:no_vegeta_binary"]++
		return
	}
	var mu sync.Mutex
	counts := map[string]int{}
	mixed := map[string]string{} // path -> header values that are not exactly that target's
	srv := httptest.NewServer(http.HandlerFunc(func(w http.ResponseWriter, rq *http.Request) {
		id, dflt := rq.Header["X-Target-Id"], rq.Header["X-Dflt"]
		mu.Lock()
		counts[rq.URL.Path]++
		if len(id) != 1 || id[0] != rq.URL.Path || len(dflt) != 1 || dflt[0] != "d" {
			mixed[rq.URL.Path] = fmt.Sprintf("X-Target-Id %q X-Dflt %q", id, dflt)
		}
		mu.Unlock()
	}))
	defer srv.Close()
	dir := filepath.Join(c.Work, "cli_"+format)
	os.MkdirAll(dir, 0o755)
	var vmu sync.Mutex
	reported := false
	var wg sync.WaitGroup
	next := make(chan int)
	for w := 0; w < parallel; w++ {
		wg.Add(1)
		go func(w int) {
			defer wg.Done()
			for id := range next {
				prefix := fmt.Sprintf("/%s/r%d", format, id)
				// mostly 3 targets (fewer targets than workers); every eighth run 40, so that workers
				// come back for a second and third target
				paths := []string{prefix + "/t0", prefix + "/t1", prefix + "/t2"}
				if id%8 == 7 {
					for j := 3; j < 40; j++ {
						paths = append(paths, prefix+"/t"+strconv.Itoa(j))
					}
				}
				var src bytes.Buffer
				if format == "http" {
					for _, p := range paths {
						src.WriteString("GET " + srv.URL + p + "\nX-Target-Id: " + p + "\n\n")
					}
				} else {
					enc := vegeta.NewJSONTargetEncoder(&src)
					for _, p := range paths {
						enc.Encode(&vegeta.Target{Method: "GET", URL: srv.URL + p, Header: http.Header{"X-Target-Id": {p}}})
					}
				}
				tf := filepath.Join(dir, fmt.Sprintf("targets_%d", w))
				os.WriteFile(tf, src.Bytes(), 0o644)
				ctx, cancel := context.WithTimeout(context.Background(), 30*time.Second)
				cmd := exec.CommandContext(ctx, c.Vegeta, "attack", "-lazy", "-rate=0", "-workers=16", "-max-workers=16",
					"-keepalive=false", "-dns-ttl=-1", "-duration=0", "-header", "X-Dflt: d", "-targets", tf, "-format", format, "-output", os.DevNull)
				cmd.Env = append(os.Environ(), "VEGETA_VERIF_DRIVER=")
				out, err := cmd.CombinedOutput()
				cancel()
				mu.Lock()
				got := make([]int, len(paths))
				once := true
				wrong := ""
				for j, p := range paths {
					got[j] = counts[p]
					once = once && got[j] == 1
					delete(counts, p)
					if m, ok := mixed[p]; ok {
						wrong += p + ": " + m + "; "
						delete(mixed, p)
					}
				}
				mu.Unlock()
				vmu.Lock()
				s.Count("cli:lazy_runs_" + format)
				if !once && !reported {
					reported = true
					s.Violate(kit.Violation{Kind: "cli_lazy_not_exactly_once",
						What:     "vegeta attack -lazy with 16 workers did not request every target of the file exactly once",
						Input:    cliCase{Format: format, Runs: 3000},
						Expected: "one request per target", Observed: fmt.Sprintf("run %d: requests per target %v (exit error %v; output %s)", id, got, err, tail(string(out), 200)),
						Key: map[string]interface{}{"format": format}})
				}
				if wrong != "" && !reported {
					reported = true
					s.Violate(kit.Violation{Kind: "cli_lazy_target_mixed",
						What:     "vegeta attack -lazy with 16 workers sent a request whose header values are not exactly its target's own value and the one default value",
						Input:    cliCase{Format: format, Runs: 3000},
						Expected: "each request: X-Target-Id [its own path], X-Dflt [\"d\"]", Observed: fmt.Sprintf("run %d: %s", id, tail(wrong, 600)),
						Key: map[string]interface{}{"format": format}})
				}
				vmu.Unlock()
			}
		}(w)
	}
	for id := 0; id < runs; id++ {
		vmu.Lock()
		stop := reported
		vmu.Unlock()
		if stop {
			break
		}
		next <- id
	}
	close(next)
	wg.Wait()
	s.Case("cli:"+format, true)
}

func harnessDir() string {
	if exe, err := os.Executable(); err == nil {
		d := filepath.Join(filepath.Dir(exe), "..", "harness")
		if _, err := os.Stat(filepath.Join(d, "go.mod")); err == nil {
			return d
		}
	}
	return "/verif/harness"
}

// raceRun builds this harness with -race and runs the concurrency rounds in it; a race report
// is a violation with the report text as Observed. When the race build is impossible on this
// image that is recorded in s.Skipped / s.Extra instead of failing.
func raceRun(c *run.Ctx, s *kit.Summary) {
	bin := filepath.Join(c.Work, "vh_c15_race")
	cmd := exec.Command("go", "build", "-race", "-tags", "verif", "-o", bin, "./cmd/c15")
	cmd.Dir = harnessDir()
	cmd.Env = append(os.Environ(), "GOFLAGS=-mod=mod", "GOPROXY=off", "GOSUMDB=off", "GOTOOLCHAIN=local", "CGO_ENABLED=1")
	if out, err := cmd.CombinedOutput(); err != nil {
		s.Skipped["race_detector_build_failed"]++
		msg := string(out)
		if len(msg) > 600 {
			msg = msg[len(msg)-600:]
		}
		s.Extra["race_detector"] = "not run: go build -race failed: " + err.Error() + ": " + msg
		return
	}
	out := filepath.Join(c.Work, "race_summary.json")
	logp := filepath.Join(c.Work, "race_report")
	ctx, cancel := context.WithTimeout(context.Background(), 20*time.Minute)
	defer cancel()
	child := exec.CommandContext(ctx, bin, "-seed", strconv.FormatInt(c.Seed, 10), "-tier", c.Tier, "-work", filepath.Join(c.Work, "racework"),
		"-out", out, "-scale", strconv.FormatFloat(c.Scale, 'g', -1, 64))
	os.MkdirAll(filepath.Join(c.Work, "racework"), 0o755)
	child.Env = append(os.Environ(), "VH_C15_CHILD=race", "GORACE=halt_on_error=0 exitcode=0 log_path="+logp)
	cout, err := child.CombinedOutput()
	if err != nil {
		s.Violate(kit.Violation{Kind: "race_child_failed", What: "the race-detector build of the harness did not complete", Observed: err.Error() + ": " + tail(string(cout), 800)})
		return
	}
	var cs kit.Summary
	if b, err := os.ReadFile(out); err == nil {
		json.Unmarshal(b, &cs)
	}
	for k, v := range cs.Dist {
		s.CountN("race_build:"+k, v)
	}
	for _, v := range cs.Violations {
		v.What = "(race build) " + v.What
		s.Violate(v)
	}
	s.Evaluations += cs.Evaluations
	reports, _ := filepath.Glob(logp + ".*")
	nrep := 0
	for _, p := range reports {
		b, _ := os.ReadFile(p)
		for _, rep := range strings.Split(string(b), "==================") {
			if strings.Contains(rep, "WARNING: DATA RACE") {
				nrep++
				s.Violate(kit.Violation{Kind: "data_race", What: "the race detector reported a data race while goroutines drew from one targeter",
					Observed: tail(rep, 3000)})
			}
		}
	}
	s.Extra["race_detector"] = fmt.Sprintf("ran: %d rounds in the -race build, %d race reports", cs.Dist["static:rounds"]+cs.Dist["json:rounds"]+cs.Dist["http:rounds"], nrep)
}

func tail(s string, n int) string {
	if len(s) > n {
		return s[len(s)-n:]
	}
	return s
}

func replayC15(c *run.Ctx, s *kit.Summary) {
	b, err := os.ReadFile(c.Replay)
	if err != nil {
		panic(err)
	}
	var rec struct {
		Kind  string          `json:"kind"`
		Input json.RawMessage `json:"input"`
	}
	if err := json.Unmarshal(b, &rec); err != nil {
		panic(err)
	}
	if strings.HasPrefix(rec.Kind, "cli_") {
		var cc cliCase
		json.Unmarshal(rec.Input, &cc)
		if cc.Runs <= 0 {
			cc.Runs = 3000
		}
		cliLazyRuns(c, s, cc.Format, cc.Runs, 8)
		return
	}
	if strings.HasPrefix(rec.Kind, "attack_static") {
		var sc attackStaticCase
		json.Unmarshal(rec.Input, &sc)
		for i := 0; i < 50; i++ {
			runAttackStatic(s, sc)
			s.Case("replay", true)
		}
		return
	}
	if strings.HasPrefix(rec.Kind, "static") {
		var sc staticCase
		json.Unmarshal(rec.Input, &sc)
		for i := 0; i < 50; i++ {
			runStatic(s, sc)
			s.Case("replay", true)
		}
		return
	}
	var sc streamCase
	viaAttack := strings.HasPrefix(rec.Kind, "attack_")
	if viaAttack {
		var ac attackStreamCase
		json.Unmarshal(rec.Input, &ac)
		sc = ac.Case
		sc.Callers = ac.Workers
	} else if err := json.Unmarshal(rec.Input, &sc); err != nil {
		return
	}
	if sc.Format == "" {
		return
	}
	nf := map[string][]byte{}
	for p, b := range sc.Files {
		nf[strings.Replace(p, sc.Work, c.Work, 1)] = b
	}
	sc.Src = strings.Replace(sc.Src, sc.Work, c.Work, -1)
	sc.Files, sc.Work = nf, c.Work
	for i := 0; i < 50; i++ { // schedules differ from run to run: repeat
		if viaAttack {
			runAttackStream(s, &sc)
		} else {
			runStream(s, &sc)
		}
		s.Case("replay", true)
	}
}

func runC15(c *run.Ctx, s *kit.Summary) {
	s.Rule = "rounds of 1..64 goroutines drawing concurrently (start barrier, all cores) from one targeter: static (1..20 targets, 1..60 draws each), JSON stream and http stream (0..200 targets written by the encoder / rendered, duplicates included, each caller draws until told ErrNoTargets three times); every static and stream round is run once more with the workers of a real Attacker.Attack as the callers (recording transport: the requests sent must be the targets, exactly once / in rotation, each with exactly its own header values and body); the real `vegeta attack -lazy` is run repeatedly against a counting server (per-target and default header checked per request); the model LTS is run under a random schedule and must produce the same multiset / counts; non-trivial = distinct round with >= 2 callers and >= 2 targets"
	if c.Replay != "" {
		replayC15(c, s)
		return
	}
	r := kit.NewRng(c.Seed)
	if os.Getenv("VH_C15_CHILD") == "race" {
		// inside the -race build: concurrency rounds only, no Lean driver
		rounds(c, s, r, c.N(60, 1500), c.N(60, 1500), false)
		return
	}
	rounds(c, s, r, c.N(150, 5000), c.N(150, 5000), true)
	// the real command: -lazy, 16 workers, unlimited rate, many short runs
	cliLazyRuns(c, s, "http", c.N(1200, 6000), 8)
	cliLazyRuns(c, s, "json", c.N(1200, 6000), 8)
	if !hung {
		raceRun(c, s)
	}
}
