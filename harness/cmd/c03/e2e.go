package main

import (
	"fmt"
	"net/http"
	"net/http/httptest"
	"os"
	"os/exec"
	"path/filepath"
	"strings"
	"sync"
	"time"

	"vharness/kit"
	"vharness/run"
)

// e2e: the real `vegeta attack -workers W -max-workers M -rate=0` against a local server that holds every
// request. The number of requests held at the same time must never exceed M ("at most the configured maximum
// number of workers", here read at the server, a lower bound of the in-flight count) and must reach M
// ("workers are added on demand") whatever W is — the command line has to carry both values to the attacker.
func e2eCap(c *run.Ctx, s *kit.Summary, r *kit.Rng) {
	if _, err := os.Stat(c.Vegeta); err != nil {
		s.Skipped["e2e: no vegeta binary"]++
		return
	}
	cfgs := [][2]int{{1, 3}, {5, 2}, {0, 4}, {10, 1}, {2, 2}, {7, 9}}
	n := c.N(3, 6)
	off := r.Pick(len(cfgs))
	for i := 0; i < n; i++ {
		w, m := cfgs[(off+i)%len(cfgs)][0], cfgs[(off+i)%len(cfgs)][1]
		var mu sync.Mutex
		cur, peak := 0, 0
		release := make(chan struct{})
		srv := httptest.NewServer(http.HandlerFunc(func(rw http.ResponseWriter, _ *http.Request) {
			mu.Lock()
			cur++
			if cur > peak {
				peak = cur
			}
			mu.Unlock()
			<-release
			mu.Lock()
			cur--
			mu.Unlock()
			fmt.Fprint(rw, "ok")
		}))
		out := filepath.Join(c.Work, fmt.Sprintf("c03-e2e-%d.bin", i))
		flags := []string{"attack", "-rate=0", "-duration=30s", "-output", out}
		// either order of the two flags on the command line
		wf, mf := fmt.Sprintf("-workers=%d", w), fmt.Sprintf("-max-workers=%d", m)
		if i%2 == 0 {
			flags = append(flags, wf, mf)
		} else {
			flags = append(flags, mf, wf)
		}
		cmd := exec.Command(c.Vegeta, flags...)
		cmd.Env = append(os.Environ(), "VEGETA_VERIF_DRIVER=")
		cmd.Stdin = strings.NewReader("GET " + srv.URL + "/\n")
		if err := cmd.Start(); err != nil {
			s.Skipped["e2e: cannot start vegeta"]++
			srv.Close()
			continue
		}
		// wait until the peak has been stable for a while (at most 10 s); all requests are held, so the peak is
		// the number of workers the attack was able to start
		deadline := time.Now().Add(10 * time.Second)
		last, since := -1, time.Now()
		for time.Now().Before(deadline) {
			mu.Lock()
			p := peak
			mu.Unlock()
			if p != last {
				last, since = p, time.Now()
			} else if p > 0 && time.Since(since) > 700*time.Millisecond {
				break
			}
			time.Sleep(20 * time.Millisecond)
		}
		mu.Lock()
		p := peak
		mu.Unlock()
		cmd.Process.Kill()
		cmd.Wait()
		close(release)
		srv.Close()
		os.Remove(out)
		s.Case(fmt.Sprint("e2e:", w, m), true)
		s.Count("e2e:attack_command_runs")
		in := map[string]interface{}{"command": "vegeta " + strings.Join(flags, " "), "workers": w, "max_workers": m}
		if p == 0 {
			s.Skipped["e2e: local server not reached"]++
			continue
		}
		if p > m {
			s.Violate(kit.Violation{Kind: "inflight_exceeds_max", What: "attack command: more requests in flight at the server than -max-workers", Input: in,
				Expected: fmt.Sprint("<= ", m), Observed: fmt.Sprint(p)})
		}
		if p < m {
			s.Violate(kit.Violation{Kind: "free_capacity_not_used", What: "attack command at unlimited rate with every request held: the number of requests in flight stays below -max-workers", Input: in,
				Expected: fmt.Sprint(m), Observed: fmt.Sprint(p)})
		}
	}
}
