// C02/C03 harness: controlled schedules of the real Attack checked against the Lean
// transition system (trace acceptor), stress runs, the Stop race, and the CLI result pump.
package main

import (
	"bufio"
	"encoding/json"
	"fmt"
	"os"
	"os/exec"
	"strconv"
	"strings"
	"sync"
	"time"

	"vharness/attackctl"
	"vharness/kit"
	"vharness/run"
)

func main() {
	if os.Getenv("VH_CHILD") != "" {
		attackctl.ChildMain()
		return
	}
	run.Main("C03", runC02)
}

func runChildren(jobs []attackctl.Job, par int) []attackctl.Outcome {
	var (
		mu   sync.Mutex
		outs []attackctl.Outcome
		wg   sync.WaitGroup
	)
	chunks := make([][]attackctl.Job, par)
	for i, j := range jobs {
		chunks[i%par] = append(chunks[i%par], j)
	}
	for _, ch := range chunks {
		if len(ch) == 0 {
			continue
		}
		wg.Add(1)
		go func(ch []attackctl.Job) {
			defer wg.Done()
			rest := ch
			for len(rest) > 0 {
				cmd := exec.Command(os.Args[0])
				cmd.Env = append(os.Environ(), "VH_CHILD=1", "GOMAXPROCS=2")
				in, _ := json.Marshal(rest)
				cmd.Stdin = strings.NewReader(string(in))
				var errb strings.Builder
				cmd.Stderr = &errb
				stdout, _ := cmd.StdoutPipe()
				if err := cmd.Start(); err != nil {
					panic(err)
				}
				sc := bufio.NewScanner(stdout)
				sc.Buffer(make([]byte, 1<<20), 1<<28)
				done := 0
				// watchdog: a child that produces no outcome for five minutes is stuck (every job is bounded by far
				// less); it is killed and the job it was running is recorded as not ending
				watchdog := time.AfterFunc(5*time.Minute, func() { cmd.Process.Kill() })
				for sc.Scan() {
					watchdog.Reset(5 * time.Minute)
					var o attackctl.Outcome
					if json.Unmarshal(sc.Bytes(), &o) == nil {
						mu.Lock()
						outs = append(outs, o)
						mu.Unlock()
						done++
					}
				}
				err := cmd.Wait()
				if !watchdog.Stop() {
					errb.WriteString("\nwatchdog: the child produced no outcome for five minutes and was killed while running this job")
				}
				if ee, ok := err.(*exec.ExitError); ok && ee.ExitCode() == attackctl.ExitDirty {
					// the child refused to start the next job in a process that still had goroutines of an
					// earlier (inconclusive) run: continue with a fresh process
					if done == 0 {
						mu.Lock()
						outs = append(outs, attackctl.Outcome{Job: rest[0], Unquiet: true})
						mu.Unlock()
						done = 1
					}
					rest = rest[done:]
					continue
				}
				if err != nil && done < len(rest) {
					// the child died while running job `done`: a crash of the real code (e.g. send on closed channel)
					j := rest[done]
					msg := errb.String()
					if len(msg) > 3000 {
						msg = msg[:3000]
					}
					mu.Lock()
					outs = append(outs, attackctl.Outcome{Job: j, Crashed: true, CrashMsg: msg})
					mu.Unlock()
					done++
				}
				rest = rest[done:]
			}
		}(ch)
	}
	wg.Wait()
	return outs
}

func runC02(c *run.Ctx, s *kit.Summary) {
	attackctl.RunCommon("C03", c, s, runChildren)
	if c.Replay == "" {
		e2eCap(c, s, kit.NewRng(c.Seed+11))
		drainScenario(c, s, kit.NewRng(c.Seed+13))
		idleScenario(c, s, kit.NewRng(c.Seed+14))
		attackctl.MaxConnsRuns(c, s, kit.NewRng(c.Seed+12))
	}
}

var _ = fmt.Sprint
var _ = strconv.Itoa
