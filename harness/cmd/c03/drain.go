package main

import (
	"fmt"
	"io"
	"net/http"
	"strings"
	"sync"
	"sync/atomic"
	"time"

	vegeta "github.com/tsenart/vegeta/v12/lib"

	"vharness/attackctl"
	"vharness/kit"
	"vharness/run"
)

// gatedBody hands out `head` at once and the rest only after the gate is opened.
type gatedBody struct {
	head, tail []byte
	gate       chan struct{}
}

func (b *gatedBody) Read(p []byte) (int, error) {
	if len(b.head) > 0 {
		n := copy(p, b.head)
		b.head = b.head[n:]
		return n, nil
	}
	<-b.gate
	if len(b.tail) == 0 {
		return 0, io.EOF
	}
	n := copy(p, b.tail)
	b.tail = b.tail[n:]
	return n, nil
}
func (b *gatedBody) Close() error { return nil }

type gatedRT struct {
	calls *int64
	mu    *sync.Mutex
	gates *[]chan struct{}
}

func (t gatedRT) RoundTrip(req *http.Request) (*http.Response, error) {
	atomic.AddInt64(t.calls, 1)
	g := make(chan struct{})
	t.mu.Lock()
	*t.gates = append(*t.gates, g)
	t.mu.Unlock()
	return &http.Response{StatusCode: 200, Status: "200 OK", Header: http.Header{}, Request: req, ContentLength: -1,
		Body: &gatedBody{head: []byte("0123456789abcdef"), tail: []byte("the rest of the body"), gate: g}}, nil
}

type unlimitedPacer struct{ n uint64 }

func (p unlimitedPacer) Pace(_ time.Duration, hits uint64) (time.Duration, bool) {
	return 0, hits >= p.n
}
func (p unlimitedPacer) Rate(time.Duration) float64 { return 0 }

// drainScenario: the pool is at its cap, every response body is longer than -max-body and its rest arrives only when
// the harness lets it. Whatever the worker does with that rest, the property's clock is the CONSUMER: "when all are
// busy [the released hit] starts as soon as one result has been consumed". So: while the rest of body k is withheld,
// either no result k is delivered (the unchanged code: the worker is still busy with hit k — nothing to check), or it
// is delivered and taken — then a released hit must reach the transport although the rest of body k is still
// withheld. Only positive progress is awaited (generously), no upper bound on any duration of the unchanged code.
func drainScenario(c *run.Ctx, s *kit.Summary, r *kit.Rng) {
	for i := 0; i < c.N(3, 30); i++ {
		w := uint64(1 + r.Pick(3))
		maxBody := []int64{1, 4, 16, 0}[r.Pick(4)]
		var calls int64
		var mu sync.Mutex
		var gates []chan struct{}
		client := &http.Client{Transport: gatedRT{&calls, &mu, &gates}}
		atk := vegeta.NewAttacker(vegeta.Workers(w), vegeta.MaxWorkers(w), vegeta.MaxBody(maxBody), vegeta.Client(client))
		tr := vegeta.NewStaticTargeter(vegeta.Target{Method: "GET", URL: "http://verif.invalid/"})
		res := atk.Attack(tr, unlimitedPacer{w + 3}, 0, "drain")
		in := map[string]interface{}{"workers": w, "max_workers": w, "max_body": maxBody, "scenario": "every response body is longer than max-body; its rest is withheld by the harness"}
		waitCalls := func(n int64, d time.Duration) bool {
			dl := time.Now().Add(d)
			for time.Now().Before(dl) {
				if atomic.LoadInt64(&calls) >= n {
					return true
				}
				time.Sleep(time.Millisecond)
			}
			return atomic.LoadInt64(&calls) >= n
		}
		openAll := func() {
			mu.Lock()
			for _, g := range gates {
				select {
				case <-g:
				default:
					close(g)
				}
			}
			mu.Unlock()
		}
		s.Case(fmt.Sprint("drain:", i), true)
		if !waitCalls(int64(w), 10*time.Second) {
			s.Skipped["drain: pool did not fill"]++
			atk.Stop()
			openAll()
			for range res {
			}
			continue
		}
		// all w workers are inside the transport's response; every rest is withheld
		select {
		case _, ok := <-res:
			if ok {
				// a result was delivered and is now consumed although the rest of its body is withheld: one worker counts
				// as free — a released hit (the pacer never waits) must start
				s.Count("drain:result_delivered_before_rest_of_body")
				if !waitCalls(int64(w)+1, 5*time.Second) {
					s.Violate(kit.Violation{Kind: "free_capacity_not_used", What: "all workers were busy, one result has been consumed, yet the next released hit does not start: it waits for the rest of an earlier response's body",
						Input: in, Expected: fmt.Sprintf("request %d reaches the transport", w+1), Observed: fmt.Sprintf("%d requests after 5 s", atomic.LoadInt64(&calls))})
				}
			}
		case <-time.After(300 * time.Millisecond):
			s.Count("drain:no_result_while_rest_of_body_withheld")
		}
		// let everything go and drain
		stop := make(chan struct{})
		go func() {
			for {
				select {
				case <-stop:
					return
				default:
					openAll()
					time.Sleep(time.Millisecond)
				}
			}
		}()
		done := time.After(30 * time.Second)
	drain:
		for {
			select {
			case _, ok := <-res:
				if !ok {
					break drain
				}
			case <-done:
				atk.Stop()
				s.Skipped["drain: attack did not end (C02/C04's subject)"]++
				break drain
			}
		}
		close(stop)
	}
}

// idleScenario: the pool grows on demand to exactly max-workers, everything finishes and is consumed, then nothing
// happens for a few seconds (a quiet spell of the pacer). Afterwards the pool must still offer its whole capacity:
// with one hit in flight a second released hit starts without waiting for the first ("workers are added on demand up
// to the maximum" — at any time of the attack, not only in its first seconds).
func idleScenario(c *run.Ctx, s *kit.Summary, r *kit.Rng) {
	for i := 0; i < c.N(1, 6); i++ {
		w := uint64(r.Pick(2))
		m := uint64(2 + r.Pick(2))
		quiet := time.Duration(3200+r.Pick(1500)) * time.Millisecond
		ctl := attackctl.New(w, m, i%2 == 1)
		in := map[string]interface{}{"workers": w, "max_workers": m, "quiet_spell": quiet.String(),
			"scenario": "grow to max-workers, finish and consume everything, stay quiet, then release two hits"}
		ok := true
		step := func(f func() bool) {
			if ok && !f() {
				ok = false
			}
			if _, q := ctl.Quiesce(); !q {
				ok = false
			}
		}
		if _, q := ctl.Quiesce(); !q {
			s.Skipped["idle: quiescence not established"]++
			continue
		}
		for k := uint64(0); k < m; k++ {
			step(func() bool { return ctl.ReleasePace(false) })
		}
		o, _ := ctl.Quiesce()
		if !ok || uint64(len(o.InTransport)) != m {
			s.Skipped["idle: pool did not grow to max (judged elsewhere)"]++
		} else {
			for _, q := range append([]uint64{}, o.InTransport...) {
				step(func() bool { return ctl.ReleaseTransport(q) })
			}
			for k := uint64(0); k < m; k++ {
				step(func() bool { return strings.HasPrefix(ctl.Receive(), "g") })
			}
			time.Sleep(quiet)
			step(func() bool { return ctl.ReleasePace(false) })
			o1, _ := ctl.Quiesce()
			step(func() bool { return ctl.ReleasePace(false) })
			o2, _ := ctl.Quiesce()
			s.Case(fmt.Sprint("idle:", i), true)
			s.Count("idle:quiet_spell_runs")
			if ok && len(o1.InTransport) == 1 && len(o2.InTransport) < 2 {
				s.Violate(kit.Violation{Kind: "free_capacity_not_used", What: "after a quiet spell the pacer released a hit while only one of max-workers was busy, but it did not start without the first one finishing",
					Input: in, Expected: "2 requests in the transport", Observed: fmt.Sprint(len(o2.InTransport))})
			}
		}
		// drain
		ctl.Stop()
		for guard := 0; guard < 1000; guard++ {
			oo, _ := ctl.Quiesce()
			switch {
			case oo.PaceBlocked:
				ctl.ReleasePace(true)
			case len(oo.InTransport) > 0:
				ctl.ReleaseTransport(oo.InTransport[0])
			default:
				if ctl.Receive() == "c" {
					guard = 1000
				}
			}
		}
	}
}
