package main

// Scenarios beyond the recorded-dial histories:
//   * real TCP dials through the attacker's own dialer (no dial function pre-installed: the
//     `dial == nil` branches of ConnectTo / DNSCaching, and the default transport),
//   * DNSCaching with a positive ttl: a changed DNS answer takes effect,
//   * end-to-end runs of the real `vegeta attack` command with -resolvers, -dns-ttl,
//     -connect-to and -keepalive=false against local listeners (the glue in attack.go).

import (
	"context"
	"fmt"
	"net"
	"net/http"
	"os"
	"os/exec"
	"path/filepath"
	"sort"
	"strconv"
	"strings"
	"sync"
	"time"

	vegeta "github.com/tsenart/vegeta/v12/lib"
	"vharness/kit"
	"vharness/run"
)

// countingListener accepts connections and counts them by the local address they arrived at.
type countingListener struct {
	ln    net.Listener
	mu    sync.Mutex
	order []string // local IP of every accepted connection, in order
}

func listenCounting(network, addr string) (*countingListener, error) {
	ln, err := net.Listen(network, addr)
	if err != nil {
		return nil, err
	}
	cl := &countingListener{ln: ln}
	go func() {
		for {
			c, err := ln.Accept()
			if err != nil {
				return
			}
			host, _, _ := net.SplitHostPort(c.LocalAddr().String())
			cl.mu.Lock()
			cl.order = append(cl.order, canonIP(host))
			cl.mu.Unlock()
			c.Close()
		}
	}()
	return cl, nil
}

func (cl *countingListener) count() int {
	cl.mu.Lock()
	defer cl.mu.Unlock()
	return len(cl.order)
}

func (cl *countingListener) port() string {
	_, p, _ := net.SplitHostPort(cl.ln.Addr().String())
	return p
}

func waitCount(f func() int, want int) int {
	deadline := time.Now().Add(3 * time.Second)
	for f() < want && time.Now().Before(deadline) {
		time.Sleep(2 * time.Millisecond)
	}
	return f()
}

// realDialScenarios: the options wrap the attacker's own dialer when no dial function is installed.
func realDialScenarios(s *kit.Summary, table *dnsTable, tag string) {
	l1, err1 := listenCounting("tcp4", "127.0.0.1:0")
	l2, err2 := listenCounting("tcp4", "127.0.0.1:0")
	if err1 != nil || err2 != nil {
		s.Skipped["loopback_listen_unavailable"]++
		return
	}
	defer l1.ln.Close()
	defer l2.ln.Close()
	a1, a2 := "127.0.0.1:"+l1.port(), "127.0.0.1:"+l2.port()
	host := "real-" + tag + ".c18.test"
	table.set(host, []string{"127.0.0.1"})
	type scenario struct {
		name  string
		opts  []func(*vegeta.Attacker)
		dials []string
		want1 int
		want2 int
	}
	custom := func() func(*vegeta.Attacker) { return vegeta.Client(&http.Client{Transport: &http.Transport{}}) }
	scs := []scenario{
		{"custom_transport+ConnectTo", []func(*vegeta.Attacker){custom(), vegeta.ConnectTo(map[string][]string{"svc.example:80": {a1, a2}})},
			[]string{"svc.example:80", "svc.example:80", "svc.example:80", "svc.example:80", "svc.example:80", "svc.example:80", a1}, 4, 3},
		{"custom_transport+DNSCaching", []func(*vegeta.Attacker){custom(), vegeta.DNSCaching(0)},
			[]string{host + ":" + l1.port(), host + ":" + l1.port(), host + ":" + l2.port()}, 2, 1},
		{"default_transport+DNSCaching+ConnectTo", []func(*vegeta.Attacker){vegeta.DNSCaching(0), vegeta.ConnectTo(map[string][]string{"svc.example:80": {host + ":" + l1.port(), host + ":" + l2.port()}})},
			[]string{"svc.example:80", "svc.example:80", "svc.example:80", "svc.example:80"}, 2, 2},
		{"default_transport+ConnectTo+DNSCaching", []func(*vegeta.Attacker){vegeta.ConnectTo(map[string][]string{a1: {a2}}), vegeta.DNSCaching(0)},
			[]string{host + ":" + l1.port(), host + ":" + l2.port()}, 0, 2},
		{"default_transport+DNSCaching(-1)+ConnectTo", []func(*vegeta.Attacker){vegeta.DNSCaching(-1), vegeta.ConnectTo(map[string][]string{"svc.example:80": {a2}})},
			[]string{"svc.example:80", a1}, 1, 1},
	}
	for _, sc := range scs {
		s.Count("real_dial:" + sc.name)
		s.Case("real:"+sc.name, true)
		b1, b2 := l1.count(), l2.count()
		atk := vegeta.NewAttacker(sc.opts...)
		dial := atk.VerifDialContext()
		var errs []string
		p, msg := kit.Recover(func() {
			for _, d := range sc.dials {
				ctx, cancel := context.WithTimeout(context.Background(), 5*time.Second)
				c, err := dial(ctx, "tcp", d)
				cancel()
				if err != nil {
					errs = append(errs, err.Error())
				}
				if c != nil {
					c.Close()
				}
			}
		})
		atk.Stop()
		g1 := waitCount(l1.count, b1+sc.want1) - b1
		g2 := waitCount(l2.count, b2+sc.want2) - b2
		if p || len(errs) > 0 || g1 != sc.want1 || g2 != sc.want2 {
			s.Violate(kit.Violation{Kind: "dial_default_dialer", What: "with no dial function pre-installed the options must dial the resolved / mapped addresses through the attacker's own dialer",
				Input:    map[string]interface{}{"scenario": sc.name, "dials": sc.dials},
				Expected: fmt.Sprintf("%d and %d connections accepted, no error", sc.want1, sc.want2),
				Observed: fmt.Sprintf("%d and %d accepted, errors %v, panic %v %s", g1, g2, errs, p, msg),
				Key:      map[string]interface{}{"scenario": sc.name}})
		}
	}
}

// refreshScenario: with a positive ttl a changed DNS answer must come into use ("an address
// currently resolved for it", "every resolved address keeps being used"): for several shapes of
// change — same length and same first address, same length only, same first address only, a
// permutation of the same set, shrinking, growing, a family appearing or disappearing — the
// host is dialled continuously; once the periodic refresh has demonstrably completed a full
// round after the change (the in-process DNS server has seen the questions of a later round),
// a few hundred dials must use exactly the NEW set: nothing withdrawn, every new address used,
// one per family. All waits are lower bounds on elapsed time or observations of the DNS server.
func refreshScenario(s *kit.Summary, table *dnsTable, tag string) {
	v4 := func(sub int, xs ...int) []string {
		var l []string
		for _, x := range xs {
			l = append(l, fmt.Sprintf("10.9.%d.%d", sub, x))
		}
		return l
	}
	v6 := func(sub int, xs ...int) []string {
		var l []string
		for _, x := range xs {
			l = append(l, fmt.Sprintf("2001:db8:9%x::%x", sub, x))
		}
		return l
	}
	cat := func(ls ...[]string) []string {
		var l []string
		for _, x := range ls {
			l = append(l, x...)
		}
		return l
	}
	type variant struct {
		name     string
		old, new []string
	}
	variants := []variant{
		{"same_len_same_first", v4(0, 1, 2, 3), v4(0, 1, 4, 5)},
		{"same_len_same_second", v4(1, 1, 2, 3), v4(1, 4, 2, 5)},
		{"same_len_same_third", v4(2, 1, 2, 3), v4(2, 4, 5, 3)},
		{"same_len_same_first_mixed", cat(v4(3, 1, 2), v6(3, 1, 2)), cat(v4(3, 1, 3), v6(3, 1, 3))},
		{"same_len_only", v4(4, 1, 2, 3), v4(4, 4, 5, 6)},
		{"same_first_shorter", v4(5, 1, 2, 3), v4(5, 1, 4)},
		{"same_first_longer", v4(6, 1, 2, 3), v4(6, 1, 4, 5, 6)},
		{"permutation", v4(7, 1, 2, 3), v4(7, 3, 1, 2)},
		{"shrink_to_one", v4(8, 1, 2, 3, 4), v4(8, 2)},
		{"grow_from_one", v4(9, 1), v4(9, 1, 2, 3, 4)},
		{"family_appears", v4(10, 1, 2), cat(v4(10, 1, 2), v6(10, 1, 2))},
		{"family_disappears", cat(v4(11, 1, 2), v6(11, 1, 2)), v6(11, 1, 3)},
		{"all_replaced_mixed", cat(v4(12, 1, 2), v6(12, 1)), cat(v4(12, 9), v6(12, 9))},
	}
	for _, v := range variants {
		if !refreshVariant(s, table, tag, v.name, v.old, v.new, false) {
			return // the refresh does not happen at all: reported once
		}
	}
	// the same after ONE refresh round that took several ttl (a slow DNS server): re-resolution must go on
	refreshVariant(s, table, tag, "after_slow_round", cat(v4(13, 1, 2), v6(13, 1)), cat(v4(13, 3, 4), v6(13, 2)), true)
	refreshVariant(s, table, tag, "after_slow_round_same_first", v4(14, 1, 2, 3), v4(14, 1, 4, 5), true)
}

func refreshVariant(s *kit.Summary, table *dnsTable, tag, name string, oldIPs, newIPs []string, slowRound bool) bool {
	const ttl = 20 * time.Millisecond
	host := "ttl-" + name + "-" + tag + ".c18.test"
	host = strings.ReplaceAll(host, "_", "-")
	table.set(host, oldIPs)
	questions := func() int {
		table.mu.Lock()
		defer table.mu.Unlock()
		return table.queries[strings.ToLower(host)+"."]
	}
	rec := newRecorder()
	atk := vegeta.NewAttacker(vegeta.VerifBaseDial(rec.dial), vegeta.DNSCaching(ttl))
	defer atk.Stop()
	dial := atk.VerifDialContext()
	s.Count("refresh:" + name)
	s.Case("refresh:"+name+":"+tag, true)
	var id int64
	one := func() []string {
		id++
		ctx := context.WithValue(context.Background(), dialIDKey{}, id)
		dial(ctx, "tcp", host+":80")
		rec.mu.Lock()
		defer rec.mu.Unlock()
		var l []string
		for _, a := range rec.byDial[id] {
			h, _, _ := net.SplitHostPort(a)
			l = append(l, canonIP(h))
		}
		delete(rec.byDial, id)
		sort.Strings(l)
		return l
	}
	bad := func(what, exp string, got interface{}) {
		s.Violate(kit.Violation{Kind: "dns_refresh", What: what,
			Input:    map[string]interface{}{"scenario": "refresh", "variant": name, "ttl_ms": 20, "old": oldIPs, "new": newIPs},
			Expected: exp, Observed: fmt.Sprint(got), Key: map[string]interface{}{"scenario": "refresh", "variant": name}})
	}
	// judge n dials against the set that is resolved now
	judge := func(n int, set []string, phase string) bool {
		famCount := map[int]int{}
		member := map[string]bool{}
		for _, ip := range set {
			member[canonIP(ip)] = true
			famCount[familyOf(ip)]++
		}
		used := map[string]int{}
		for i := 0; i < n; i++ {
			got := one()
			fams := map[int]int{}
			for _, a := range got {
				if !member[a] {
					bad(phase+": a connection attempt went to an address that is not (any longer) resolved for the host", fmt.Sprint(set), got)
					return false
				}
				used[a]++
				fams[familyOf(a)]++
			}
			if len(got) != len(famCount) || len(fams) != len(famCount) {
				bad(phase+": a dial did not go to exactly one address per resolved IP family", fmt.Sprint(len(famCount), " families"), got)
				return false
			}
		}
		for _, ip := range set {
			if n >= windowFor(famCount[familyOf(ip)]) && used[canonIP(ip)] == 0 {
				bad(fmt.Sprintf("%s: a resolved address was never used in %d dials", phase, n), canonIP(ip), used)
				return false
			}
		}
		return true
	}
	if !judge(30, oldIPs, "before the change") {
		return true
	}
	if slowRound {
		// wait for a first periodic round (the entry is in use), then hold back the answers of one
		// round for 4 ttl each — they still arrive, the lookup succeeds — and answer promptly again
		key := strings.ToLower(host) + "."
		q0 := questions()
		dl := time.Now().Add(15 * time.Second)
		for questions() == q0 && time.Now().Before(dl) {
			one()
			time.Sleep(ttl / 4)
		}
		table.mu.Lock()
		table.delay[key] = 4 * ttl
		table.mu.Unlock()
		held := func() int {
			table.mu.Lock()
			defer table.mu.Unlock()
			return table.delayed[key]
		}
		for held() < 2 && time.Now().Before(dl) {
			one()
			time.Sleep(ttl / 4)
		}
		table.mu.Lock()
		delete(table.delay, key)
		table.mu.Unlock()
		if held() < 2 {
			s.Skipped["slow_round_not_observed"]++
			return true
		}
		s.Count("refresh:slow_round_held_answers")
		// let the questions still being held back drain, so that the rounds counted below are new ones
		time.Sleep(6 * ttl)
	}
	table.set(host, newIPs)
	// keep the entry in use and wait for the questions of the THIRD refresh round after the change:
	// rounds are sequential, so the second one ran entirely after the change and has been stored
	q1 := questions()
	perRound := 2 // A and AAAA
	deadline := time.Now().Add(15 * time.Second)
	for questions() < q1+3*perRound && time.Now().Before(deadline) {
		one()
		time.Sleep(ttl / 4)
	}
	if questions() < q1+3*perRound {
		bad("the changed DNS answer never came into use although the cache ttl is 20ms: no periodic re-resolution within 15s", "periodic refresh", fmt.Sprintf("%d DNS questions since the change", questions()-q1))
		return false
	}
	judge(300, newIPs, "after the refresh")
	return true
}

// refreshIdleScenario: a host that sees no dial for several refresh intervals while its DNS
// answer changes: the next connection must go to the NEW answer (the entry was dropped as
// unused and is looked up again). All waits are lower bounds.
func refreshIdleScenario(s *kit.Summary, table *dnsTable, tag string) {
	const ttl = 25 * time.Millisecond
	host := "idle-" + tag + ".c18.test"
	oldIPs := []string{"10.4.0.1", "2001:db8:44::1"}
	newIPs := []string{"10.4.0.9", "2001:db8:44::9"}
	table.set(host, oldIPs)
	questions := func() int {
		table.mu.Lock()
		defer table.mu.Unlock()
		return table.queries[strings.ToLower(host)+"."]
	}
	rec := newRecorder()
	atk := vegeta.NewAttacker(vegeta.VerifBaseDial(rec.dial), vegeta.DNSCaching(ttl))
	defer atk.Stop()
	dial := atk.VerifDialContext()
	s.Count("refresh:idle_host")
	s.Case("refresh_idle:"+tag, true)
	var id int64
	one := func() []string {
		id++
		ctx := context.WithValue(context.Background(), dialIDKey{}, id)
		dial(ctx, "tcp", host+":80")
		rec.mu.Lock()
		defer rec.mu.Unlock()
		l := append([]string(nil), rec.byDial[id]...)
		sort.Strings(l)
		return l
	}
	want := func(set []string) string {
		var l []string
		for _, ip := range set {
			l = append(l, net.JoinHostPort(ip, "80"))
		}
		sort.Strings(l)
		return fmt.Sprint(l)
	}
	bad := func(what string, got []string) {
		s.Violate(kit.Violation{Kind: "dns_refresh", What: what,
			Input:    map[string]interface{}{"scenario": "refresh_idle", "ttl_ms": 25, "old": oldIPs, "new": newIPs, "idle_intervals": 20},
			Expected: want(newIPs), Observed: fmt.Sprint(got), Key: map[string]interface{}{"scenario": "refresh_idle"}})
	}
	if got := one(); fmt.Sprint(got) != want(oldIPs) {
		bad("the first dial did not go to the resolved addresses", got)
		return
	}
	// wait until the periodic refresh has re-resolved the entry once (it was used): from then on
	// it counts as unused
	q0 := questions()
	deadline := time.Now().Add(10 * time.Second)
	for questions() == q0 && time.Now().Before(deadline) {
		time.Sleep(ttl / 5)
	}
	if questions() == q0 {
		s.Skipped["idle_refresh_not_observed"]++ // judged by the other refresh scenario
		return
	}
	time.Sleep(2 * ttl) // let that refresh finish storing the (old) answer
	table.set(host, newIPs)
	time.Sleep(20 * ttl) // idle: no dial for many refresh intervals
	for i := 0; i < 3; i++ {
		if got := one(); fmt.Sprint(got) != want(newIPs) {
			bad(fmt.Sprintf("after %d idle refresh intervals connection #%d went to addresses that left the DNS long ago", 20, i+1), got)
			return
		}
	}
}

// e2eDial: the real command. -resolvers points the child at the in-process DNS server; the
// targets' host names resolve to several loopback addresses; -keepalive=false makes every hit
// dial; listeners record which local address each connection arrived at.
func e2eDial(c *run.Ctx, s *kit.Summary, table *dnsTable, dnsAddr string, tag string) {
	if _, err := os.Stat(c.Vegeta); err != nil {
		s.Skipped["vegeta_binary_unavailable"]++
		return
	}
	l4, err := listenCounting("tcp4", "0.0.0.0:0")
	if err != nil {
		s.Skipped["loopback_listen_unavailable"]++
		return
	}
	defer l4.ln.Close()
	port := l4.port()
	var l6 *countingListener
	if l, err := listenCounting("tcp6", "[::1]:"+port); err == nil {
		l6 = l
		defer l6.ln.Close()
	} else {
		s.Skipped["ipv6_loopback_unavailable"]++
	}
	other, err := listenCounting("tcp4", "127.0.0.1:0")
	if err != nil {
		return
	}
	defer other.ln.Close()
	host := "e2e-" + tag + ".c18.test"
	ips := []string{"127.0.0.1", "127.0.0.2", "127.0.0.3"}
	if l6 != nil {
		ips = append(ips, "::1")
	}
	table.set(host, ips)
	accepted := func() []string {
		var all []string
		l4.mu.Lock()
		all = append(all, l4.order...)
		l4.mu.Unlock()
		if l6 != nil {
			l6.mu.Lock()
			all = append(all, l6.order...)
			l6.mu.Unlock()
		}
		return all
	}
	hits := 0 // results of the last attack
	attack := func(name string, url string, extra ...string) bool {
		hits = 0
		tf := filepath.Join(c.Work, "e2e_"+name+".txt")
		os.WriteFile(tf, []byte("GET "+url+"\n"), 0o644)
		args := append([]string{"attack", "-targets", tf, "-output", filepath.Join(c.Work, "e2e_"+name+".bin"), "-resolvers", dnsAddr,
			"-keepalive=false", "-rate", "300/1s", "-duration", "1s", "-timeout", "2s", "-workers", "4"}, extra...)
		cmd := exec.Command(c.Vegeta, args...)
		cmd.Env = append(os.Environ(), "VEGETA_VERIF_DRIVER=")
		done := make(chan error, 1)
		var out []byte
		go func() { var err error; out, err = cmd.CombinedOutput(); done <- err }()
		select {
		case err := <-done:
			if err != nil {
				s.Skipped["e2e_attack_failed"]++
				s.Extra["e2e_error_"+name] = fmt.Sprintf("%v: %s", err, clipStr(string(out), 400))
				return false
			}
		case <-time.After(90 * time.Second):
			cmd.Process.Kill()
			<-done
			s.Skipped["e2e_attack_timeout"]++
			return false
		}
		if f, err := os.Open(filepath.Join(c.Work, "e2e_"+name+".bin")); err == nil {
			dec := vegeta.NewDecoder(f)
			for {
				var r vegeta.Result
				if dec.Decode(&r) != nil {
					break
				}
				hits++
			}
			f.Close()
		}
		s.CountN("e2e:hits", hits)
		if hits < 50 {
			s.Skipped["e2e_too_few_hits"]++
			return false
		}
		return true
	}
	viol := func(kind, what, exp, obs string, name string, args []string) {
		s.Violate(kit.Violation{Kind: kind, What: "vegeta attack " + strings.Join(args, " ") + ": " + what,
			Input: map[string]interface{}{"e2e": name, "args": args, "addresses": ips}, Expected: exp, Observed: obs, Key: map[string]interface{}{"e2e": name}})
	}

	// 1. DNS caching (default -dns-ttl 0): every resolved address keeps being used
	s.Count("e2e:dns_cache")
	s.Case("e2e:dns_cache", true)
	if attack("dns", "http://"+host+":"+port+"/") {
		time.Sleep(50 * time.Millisecond)
		l4.mu.Lock()
		o4 := append([]string(nil), l4.order...)
		l4.mu.Unlock()
		var o6 []string
		if l6 != nil {
			l6.mu.Lock()
			o6 = append([]string(nil), l6.order...)
			l6.mu.Unlock()
		}
		s.CountN("e2e:connections", len(o4)+len(o6))
		if len(o4) >= 240 {
			seen := map[string]int{}
			for _, a := range o4[len(o4)/2:] {
				seen[a]++
			}
			for _, a := range o6[len(o6)/2:] {
				seen[a]++
			}
			var keys []string
			for k, v := range seen {
				keys = append(keys, fmt.Sprintf("%s:%d", k, v))
			}
			sort.Strings(keys)
			for _, ip := range ips {
				if familyOf(ip) == 6 && len(o6) < 20 {
					continue // the IPv6 attempt is mostly cancelled by the winning IPv4 one: no statement
				}
				if seen[canonIP(ip)] == 0 {
					viol("cli_dns_cache_spread", "a resolved address is no longer connected to in the second half of the attack", "every one of "+fmt.Sprint(ips), fmt.Sprint(keys), "dns_cache", []string{"-resolvers", dnsAddr, "-keepalive=false"})
					break
				}
			}
			for a := range seen {
				ok := false
				for _, ip := range ips {
					ok = ok || canonIP(ip) == a
				}
				if !ok {
					viol("cli_dns_cache_spread", "a connection arrived at an address that was not resolved", fmt.Sprint(ips), a, "dns_cache", nil)
				}
			}
		} else {
			s.Skipped["e2e_too_few_connections"]++
		}
	}

	// 2. -connect-to: the mapped name is never resolved; connections rotate evenly over the replacements
	s.Count("e2e:connect_to")
	s.Case("e2e:connect_to", true)
	b4, bo := l4.count(), other.count()
	args := []string{"-connect-to", "svc-" + tag + ".example:80:127.0.0.1:" + port, "-connect-to", "svc-" + tag + ".example:80:127.0.0.1:" + other.port()}
	if attack("connect", "http://svc-"+tag+".example:80/", args...) {
		time.Sleep(50 * time.Millisecond)
		g4, go_ := l4.count()-b4, other.count()-bo
		if g4+go_ < hits/2 {
			viol("cli_connect_to_rotation", "hits to a mapped address did not connect to its replacements", fmt.Sprintf(">= %d connections for %d hits", hits/2, hits), fmt.Sprint(g4+go_), "connect_to", args)
		} else if d := g4 - go_; d > 1 || d < -1 {
			viol("cli_connect_to_rotation", "connections to a mapped address did not rotate evenly over its replacements", "equal counts (±1)", fmt.Sprintf("%d vs %d", g4, go_), "connect_to", args)
		}
	}

	// 3. -dns-ttl -1 (caching disabled) with -connect-to onto a NAME: still resolved (by the system path) and connected
	s.Count("e2e:connect_to_name_nocache")
	s.Case("e2e:connect_to_name_nocache", true)
	b := len(accepted())
	args = []string{"-dns-ttl", "-1", "-connect-to", "svc2-" + tag + ".example:80:" + host + ":" + port}
	if attack("connect_name", "http://svc2-"+tag+".example:80/", args...) {
		time.Sleep(50 * time.Millisecond)
		if got := len(accepted()) - b; got < hits/2 {
			viol("cli_connect_to_rotation", "hits to a name mapped onto a resolvable name did not connect", fmt.Sprintf(">= %d connections for %d hits", hits/2, hits), fmt.Sprint(got), "connect_to_name_nocache", args)
		}
	}

	// 4. the command's composition (DNSCaching, then ConnectTo): a mapped NAME is replaced first and the
	//    replacement name is what the cache resolves
	s.Count("e2e:connect_to_name_cached")
	s.Case("e2e:connect_to_name_cached", true)
	b = len(accepted())
	args = []string{"-connect-to", "svc3-" + tag + ".example:80:" + host + ":" + port}
	if attack("connect_name_cached", "http://svc3-"+tag+".example:80/", args...) {
		time.Sleep(50 * time.Millisecond)
		if got := len(accepted()) - b; got < hits/2 {
			viol("cli_connect_to_rotation", "with DNS caching, hits to a name mapped onto a resolvable name did not connect to that name's addresses", fmt.Sprintf(">= %d connections for %d hits", hits/2, hits), fmt.Sprint(got), "connect_to_name_cached", args)
		}
	}
}

// composeStream: random sequences of the attacker options that touch the dial function, applied to
// a fresh attacker; two probe dials through the resulting dial function tell which function sits at
// the bottom and which wrappers survived; compared with the model's option composition (c18.compose).
func composeStream(c *run.Ctx, s *kit.Summary, r *kit.Rng, table *dnsTable, tag string) {
	ipA, ipB := "127.0.0.2", "127.0.0.9"
	var la, lb *countingListener
	var port string
	for try := 0; try < 20 && lb == nil; try++ {
		a, err := listenCounting("tcp4", ipA+":0")
		if err != nil {
			break
		}
		if b, err := listenCounting("tcp4", ipB+":"+a.port()); err == nil {
			la, lb, port = a, b, a.port()
		} else {
			a.ln.Close()
		}
	}
	if lb == nil {
		s.Skipped["loopback_listen_unavailable"]++
		return
	}
	defer la.ln.Close()
	defer lb.ln.Close()
	sock := filepath.Join(c.Work, "compose.sock")
	lu, err := listenCounting("unix", sock)
	if err != nil {
		s.Skipped["unix_listen_unavailable"]++
		return
	}
	defer lu.ln.Close()
	svcHost, svcPort := "svc-"+tag+".compose", "80"
	hostC := "hostc-" + tag + ".c18.test"
	table.set(hostC, []string{ipA})
	cmap := map[string][]string{svcHost + ":" + svcPort: {hostC + ":" + port}, ipA + ":" + port: {ipB + ":" + port}}
	pool := []string{"L", "K0", "K1", "H0", "H1", "U0", "U1", "D0", "D1", "C0", "C1", "B", "O"}
	st := &kit.Stream{Name: "c18.compose"}
	n := c.N(150, 3000)
	for i := 0; i < n; i++ {
		var seq []string
		switch {
		case i == 0: // the command's order, keep-alive off
			seq = []string{"L", "K0", "H0", "U0", "D0", "C0"}
		case i == 1: // wrappers installed before KeepAlive(false)
			seq = []string{"L", "D0", "C0", "K0", "H0", "U0"}
		case i == 2:
			seq = []string{"B", "D0", "C0"}
		case i == 3:
			seq = []string{"B", "C0", "D0"}
		case i >= 4 && i <= 7: // H2C(true) applied LAST: the http2 transport must dial through what was installed
			seq = [][]string{{"B", "C0", "H1"}, {"B", "D0", "H1"}, {"B", "D0", "C0", "H1"}, {"B", "C0", "D0", "H1"}}[i-4]
		default:
			for k := 1 + r.Pick(7); k > 0; k-- {
				o := pool[r.Pick(len(pool))]
				if o == "H1" && r.Chance(0.6) {
					o = "H0"
				}
				seq = append(seq, o)
			}
		}
		rec := newRecorder()
		var opts []func(*vegeta.Attacker)
		for _, o := range seq {
			switch o {
			case "L":
				opts = append(opts, vegeta.LocalAddr(vegeta.DefaultLocalAddr))
			case "K0", "K1":
				opts = append(opts, vegeta.KeepAlive(o == "K1"))
			case "H0", "H1":
				opts = append(opts, vegeta.H2C(o == "H1"))
			case "U0":
				opts = append(opts, vegeta.UnixSocket(""))
			case "U1":
				opts = append(opts, vegeta.UnixSocket(sock))
			case "D0":
				opts = append(opts, vegeta.DNSCaching(0))
			case "D1":
				opts = append(opts, vegeta.DNSCaching(-1))
			case "C0":
				opts = append(opts, vegeta.ConnectTo(cmap))
			case "C1":
				opts = append(opts, vegeta.ConnectTo(map[string][]string{}))
			case "B":
				opts = append(opts, vegeta.VerifBaseDial(rec.dial))
			case "O":
				opts = append(opts, vegeta.Workers(3))
			}
		}
		opts = append(opts, vegeta.Timeout(3*time.Second)) // bounds the probe hits; does not touch the dial function
		op := "c18.compose " + strconv.Itoa(len(seq)) + " " + strings.Join(seq, " ") + " " + kit.HexS(svcHost) + " " + kit.HexS(svcPort) + " " +
			kit.HexS(hostC) + " " + kit.HexS(port) + " " + kit.HexS(ipA) + " " + kit.HexS(ipB)
		s.Case("compose:"+strings.Join(seq, ","), len(seq) >= 2)
		s.Count("compose:sequences")
		var atk *vegeta.Attacker
		if p, _ := kit.Recover(func() { atk = vegeta.NewAttacker(opts...) }); p {
			st.Add(op, "panic")
			s.Count("compose:panic")
			continue
		}
		dial := atk.VerifDialContext()
		swapped := dial == nil
		if swapped {
			s.Count("compose:transport_swapped")
		}
		va := vegeta.VerifNewAttack("compose", time.Now(), 0)
		var id int64
		base := ""
		probe := func(addr string) string {
			id++
			a0, b0, u0 := la.count(), lb.count(), lu.count()
			var seen []string
			if !swapped {
				ctx, cancel := context.WithTimeout(context.WithValue(context.Background(), dialIDKey{}, id), 3*time.Second)
				conn, _ := dial(ctx, "tcp", addr)
				cancel()
				if conn != nil {
					conn.Close()
					waitCount(func() int { return la.count() + lb.count() + lu.count() }, a0+b0+u0+1)
				}
				rec.mu.Lock()
				seen = append([]string(nil), rec.byDial[id]...)
				rec.mu.Unlock()
			} else {
				// no dial function to call: one hit of the h2c transport to that address makes it dial
				rec.mu.Lock()
				before := len(rec.byDial[0])
				rec.mu.Unlock()
				kit.Recover(func() {
					atk.VerifHit(func(t *vegeta.Target) error { t.Method, t.URL = "GET", "http://"+addr+"/"; return nil }, va)
				})
				time.Sleep(20 * time.Millisecond)
				rec.mu.Lock()
				uniq := map[string]bool{}
				for _, a := range rec.byDial[0][before:] {
					if !uniq[a] {
						uniq[a] = true
						seen = append(seen, a)
					}
				}
				rec.mu.Unlock()
			}
			var out []string
			switch {
			case len(seen) > 0:
				base = "custom"
				for _, a := range seen {
					h, p, _ := net.SplitHostPort(a)
					out = append(out, kit.HexS(h)+":"+kit.HexS(p))
				}
			case lu.count() > u0:
				base = "unix"
				out = append(out, "unix")
			case la.count() > a0:
				base = "dialer"
				out = append(out, "L"+kit.HexS(ipA))
			case lb.count() > b0:
				base = "dialer"
				out = append(out, "L"+kit.HexS(ipB))
			}
			if len(out) == 0 {
				return "-"
			}
			return strings.Join(out, ",")
		}
		ra := probe(svcHost + ":" + svcPort)
		rb := probe(hostC + ":" + port)
		atk.Stop()
		if base == "" {
			base = "?"
		}
		s.Count("compose:base=" + base)
		flag := "1 "
		if swapped {
			flag = "0 "
		}
		st.Add(op, "ok "+flag+base+" | A "+ra+" | B "+rb)
		// oracle, H2C(true) applied after ConnectTo / DNSCaching: the property's clauses hold for the dials
		// the h2c transport makes (nothing is demanded when H2C comes first)
		if i >= 4 && i <= 7 {
			hp := func(h string) string { return kit.HexS(h) + ":" + kit.HexS(port) }
			wantA, wantB := "", ""
			switch i {
			case 4: // ConnectTo
				wantA, wantB = hp(hostC), hp(hostC)
			case 5: // DNSCaching
				wantB = hp(ipA)
			case 6: // DNSCaching, then ConnectTo (the command's order)
				wantA, wantB = hp(ipA), hp(ipA)
			case 7: // ConnectTo, then DNSCaching
				wantB = hp(ipB)
			}
			s.Count("compose:h2c_last_judged")
			bad := func(kind, what, exp, obs string) {
				s.Violate(kit.Violation{Kind: kind, What: "H2C(true) applied after the dial options " + strings.Join(seq[:len(seq)-1], ",") + ": " + what,
					Input: map[string]interface{}{"scenario": "compose", "options": seq}, Expected: exp, Observed: obs, Key: map[string]interface{}{"scenario": "compose_h2c_last"}})
			}
			if wantA != "" && ra != wantA {
				bad("connect_to_target", "a dial to a mapped address did not go to its replacement", wantA, ra)
			}
			if rb != wantB {
				if i == 4 {
					bad("connect_to_passthrough", "an unmapped address did not pass through unchanged", wantB, rb)
				} else {
					bad("dial_target_not_resolved", "a dial did not go to one address resolved for the host (or its replacement)", wantB, rb)
				}
			}
		}
		// oracle (command's order): the mapped name must reach its replacement through the cache
		if i == 0 && !(ra == "L"+kit.HexS(ipA) && rb == "L"+kit.HexS(ipA)) {
			s.Violate(kit.Violation{Kind: "cli_connect_to_rotation", What: "options in the command's order with -keepalive=false: the mapped name did not reach its replacement through the cache, or an unmapped name did not reach its resolved address",
				Input: map[string]interface{}{"scenario": "compose", "options": seq}, Expected: "A and B at " + ipA, Observed: ra + " / " + rb,
				Key: map[string]interface{}{"scenario": "compose"}})
		}
	}
	st.Diff(c.Driver, s)
}
