// Harness of property C18: the real dial functions installed by DNSCaching / ConnectTo
// (obtained through the verif hooks) over an in-process DNS server and a recording base
// dialer; compared with the Lean model (Vegeta.Model.Dial) and judged by an oracle written
// from the property text.  A copy of this program built with -race runs the concurrent
// scenarios under the race detector (see race.go).
package main

import (
	"context"
	"encoding/json"
	"errors"
	"fmt"
	"net"
	"os"
	"sort"
	"strconv"
	"strings"
	"sync"
	"sync/atomic"
	"time"

	"github.com/miekg/dns"
	vegeta "github.com/tsenart/vegeta/v12/lib"
	"vharness/kit"
	"vharness/run"
)

func main() {
	if os.Getenv("C18_RACE_CHILD") != "" {
		raceChild()
		return
	}
	run.Main("C18", runC18)
}

// ---------- in-process DNS ----------

type dnsTable struct {
	addr    string // UDP address the server listens on
	mu      sync.Mutex
	recs    map[string][]net.IP
	queries map[string]int
	delay   map[string]time.Duration // answers to questions about this name are held back that long
	delayed map[string]int           // answers that were held back and then sent
}

func (t *dnsTable) set(name string, ips []string) {
	t.mu.Lock()
	defer t.mu.Unlock()
	var l []net.IP
	for _, s := range ips {
		l = append(l, net.ParseIP(s))
	}
	t.recs[strings.ToLower(name)+"."] = l
}

func (t *dnsTable) handle(w dns.ResponseWriter, r *dns.Msg) {
	m := &dns.Msg{}
	m.SetReply(r)
	m.Compress = true
	if len(r.Question) == 0 {
		m.SetRcode(r, dns.RcodeRefused)
		w.WriteMsg(m)
		return
	}
	q := r.Question[0]
	t.mu.Lock()
	ips, ok := t.recs[strings.ToLower(q.Name)]
	t.queries[strings.ToLower(q.Name)]++
	hold := t.delay[strings.ToLower(q.Name)]
	t.mu.Unlock()
	if hold > 0 {
		time.Sleep(hold) // a slow DNS server: the answer still arrives
		defer func() {
			t.mu.Lock()
			t.delayed[strings.ToLower(q.Name)]++
			t.mu.Unlock()
		}()
	}
	if !ok {
		m.SetRcode(r, dns.RcodeNameError)
		w.WriteMsg(m)
		return
	}
	for _, ip := range ips {
		h := dns.RR_Header{Name: q.Name, Class: dns.ClassINET, Ttl: 60}
		if v4 := ip.To4(); v4 != nil {
			if q.Qtype == dns.TypeA {
				h.Rrtype = dns.TypeA
				m.Answer = append(m.Answer, &dns.A{Hdr: h, A: v4})
			}
		} else if q.Qtype == dns.TypeAAAA {
			h.Rrtype = dns.TypeAAAA
			m.Answer = append(m.Answer, &dns.AAAA{Hdr: h, AAAA: ip})
		}
	}
	w.WriteMsg(m)
}

// startDNS serves the table on a loopback UDP socket and points net.DefaultResolver
// (which dnscache.Resolver{} uses) at it.
func startDNS() (*dnsTable, error) {
	t := &dnsTable{recs: map[string][]net.IP{}, queries: map[string]int{}, delay: map[string]time.Duration{}, delayed: map[string]int{}}
	pc, err := net.ListenPacket("udp", "127.0.0.1:0")
	if err != nil {
		return nil, err
	}
	started := make(chan struct{})
	srv := &dns.Server{PacketConn: pc, Handler: dns.HandlerFunc(t.handle), NotifyStartedFunc: func() { close(started) }}
	go srv.ActivateAndServe()
	<-started
	addr := pc.LocalAddr().String()
	t.addr = addr
	net.DefaultResolver = &net.Resolver{PreferGo: true, Dial: func(ctx context.Context, _, _ string) (net.Conn, error) {
		var d net.Dialer
		return d.DialContext(ctx, "udp", addr)
	}}
	return t, nil
}

// ---------- recording base dialer ----------

type dialIDKey struct{}

var errRefused = errors.New("c18: base dialer refuses")

type recorder struct {
	mu      sync.Mutex
	byDial  map[int64][]string
	okDial  map[int64]int // base dials of that outer dial that returned a connection
	succeed func(addr string) bool
	conns   []net.Conn
}

func newRecorder() *recorder {
	return &recorder{byDial: map[int64][]string{}, okDial: map[int64]int{}}
}

func (r *recorder) dial(ctx context.Context, network, addr string) (net.Conn, error) {
	id, _ := ctx.Value(dialIDKey{}).(int64)
	r.mu.Lock()
	r.byDial[id] = append(r.byDial[id], addr)
	ok := r.succeed != nil && r.succeed(addr)
	var c1 net.Conn
	if ok {
		var c2 net.Conn
		c1, c2 = net.Pipe()
		r.conns = append(r.conns, c1, c2)
		r.okDial[id]++
	}
	r.mu.Unlock()
	if ok {
		return c1, nil
	}
	return nil, errRefused
}

func (r *recorder) closeAll() {
	r.mu.Lock()
	defer r.mu.Unlock()
	for _, c := range r.conns {
		c.Close()
	}
	r.conns = nil
}

// ---------- histories ----------

type hostSpec struct {
	Name string   `json:"name"`
	IPs  []string `json:"ips"`
}

type mapEntry struct {
	Key  string   `json:"key"`
	Repl []string `json:"repl"`
}

// history is one attacker configuration with a sequence of dials (the replay input).
type history struct {
	Config  string     `json:"config"` // "none" | "D" | "C" | "DC" (DNSCaching then ConnectTo: the command's order) | "CD"; "N" = DNSCaching(-1) (disabled), also "NC", "CN"
	Hosts   []hostSpec `json:"hosts"`
	Map     []mapEntry `json:"map"`
	Dials   []string   `json:"dials"`
	Workers int        `json:"workers"`
	Succeed string     `json:"succeed"` // "none" | "all" | "v6"
	Tag     string     `json:"tag"`     // unique suffix of the host names
}

func (h *history) options(rec *recorder) []func(*vegeta.Attacker) {
	opts := []func(*vegeta.Attacker){vegeta.VerifBaseDial(rec.dial)}
	m := map[string][]string{}
	for _, e := range h.Map {
		m[e.Key] = e.Repl
	}
	for _, c := range h.Config {
		switch c {
		case 'D':
			opts = append(opts, vegeta.DNSCaching(0))
		case 'N':
			opts = append(opts, vegeta.DNSCaching(-1)) // negative ttl: no caching, the dial function is left alone
		case 'C':
			opts = append(opts, vegeta.ConnectTo(m))
		}
	}
	return opts
}

type histResult struct {
	base     [][]string     // per dial: addresses that reached the base dialer (sorted)
	gotConn  []bool         // per dial: the dial function returned a connection
	baseOK   []int          // per dial: base dials that returned a connection
	queries  map[string]int // DNS questions asked per host name during the history
	panicked bool
	panicMsg string
}

func familyOf(s string) int {
	ip := net.ParseIP(s)
	switch {
	case ip == nil:
		return 0
	case ip.To4() != nil:
		return 4
	}
	return 6
}

func runHistory(h *history, table *dnsTable) *histResult {
	for _, hs := range h.Hosts {
		table.set(hs.Name, hs.IPs)
	}
	rec := newRecorder()
	switch h.Succeed {
	case "all":
		rec.succeed = func(string) bool { return true }
	case "v6":
		rec.succeed = func(a string) bool { host, _, _ := net.SplitHostPort(a); return familyOf(host) == 6 }
	}
	defer rec.closeAll()
	atk := vegeta.NewAttacker(h.options(rec)...)
	dial := atk.VerifDialContext()
	res := &histResult{base: make([][]string, len(h.Dials)), gotConn: make([]bool, len(h.Dials)), baseOK: make([]int, len(h.Dials)), queries: map[string]int{}}
	one := func(i int) {
		ctx := context.WithValue(context.Background(), dialIDKey{}, int64(i+1))
		conn, err := dial(ctx, "tcp", h.Dials[i])
		res.gotConn[i] = conn != nil && err == nil
		if conn != nil {
			conn.Close()
		}
	}
	if h.Workers <= 1 {
		res.panicked, res.panicMsg = kit.Recover(func() {
			for i := range h.Dials {
				one(i)
			}
		})
	} else {
		var next int64 = -1
		var wg sync.WaitGroup
		var pm sync.Mutex
		for w := 0; w < h.Workers; w++ {
			wg.Add(1)
			go func() {
				defer wg.Done()
				p, msg := kit.Recover(func() {
					for {
						i := int(atomic.AddInt64(&next, 1))
						if i >= len(h.Dials) {
							return
						}
						one(i)
					}
				})
				if p {
					pm.Lock()
					res.panicked, res.panicMsg = true, msg
					pm.Unlock()
				}
			}()
		}
		wg.Wait()
	}
	atk.Stop()
	rec.mu.Lock()
	for i := range h.Dials {
		l := append([]string(nil), rec.byDial[int64(i+1)]...)
		sort.Strings(l)
		res.base[i] = l
		res.baseOK[i] = rec.okDial[int64(i+1)]
	}
	rec.mu.Unlock()
	table.mu.Lock()
	for _, hs := range h.Hosts {
		res.queries[hs.Name] = table.queries[strings.ToLower(hs.Name)+"."]
	}
	table.mu.Unlock()
	return res
}

// ---------- analysis of a history (oracle + model ops) ----------

func canonIP(s string) string {
	if ip := net.ParseIP(s); ip != nil {
		return ip.String()
	}
	return s
}

// windowFor: number of consecutive dials after which an implementation that picks one of f
// addresses of a family uniformly at random has used each of them with probability > 1 - 1e-21.
func windowFor(f int) int {
	switch f {
	case 1:
		return 1
	case 2:
		return 70
	case 3:
		return 120
	case 4:
		return 170
	case 5:
		return 220
	case 6:
		return 270
	case 7:
		return 315
	default:
		return 365
	}
}

type hostTrace struct {
	spec   *hostSpec
	ids    map[string]int
	dials  [][]int // per dial that resolved this host: ids of the DNS-layer targets
	dialNo []int
}

func famLabel(ips []string) string {
	v4, v6 := 0, 0
	for _, ip := range ips {
		if familyOf(ip) == 4 {
			v4++
		} else {
			v6++
		}
	}
	switch {
	case v4 > 0 && v6 > 0:
		return "mixed"
	case v4 > 0:
		return "v4"
	}
	return "v6"
}

func analyse(s *kit.Summary, r *kit.Rng, h *history, res *histResult, longrun, path, rr *kit.Stream) {
	viol := func(kind, what, exp, obs string, key map[string]interface{}) {
		if key == nil {
			key = map[string]interface{}{}
		}
		key["config"] = h.Config
		key["workers"] = h.Workers
		if h.Workers > 1 && kind != "dial_path_data_race" && kind != "dns_cache_entry_mutated" {
			// with concurrent diallers every logical failure is (also) a symptom of the
			// unsynchronised dial path: torn strings, lost updates, half-done swaps
			if _, ok := key["symptom"]; !ok {
				key["symptom"] = kind
			}
			kind = "dial_path_data_race"
			what = "under concurrent dialling: " + what
		}
		s.Violate(kit.Violation{Kind: kind, What: what, Input: h, Expected: exp, Observed: obs, Key: key})
	}
	conc := h.Workers > 1
	if res.panicked {
		viol("dial_panic", "the dial function panicked", "", res.panicMsg, nil)
		return
	}
	cfg := strings.ReplaceAll(h.Config, "N", "") // DNSCaching(-1) leaves the dial function alone
	if cfg == "" {
		cfg = "none"
	}
	hasD := strings.Contains(cfg, "D")
	hasC := strings.Contains(cfg, "C")
	hostByName := map[string]*hostTrace{}
	hostByIP := map[string]*hostTrace{}
	for i := range h.Hosts {
		ht := &hostTrace{spec: &h.Hosts[i], ids: map[string]int{}}
		for j, ip := range h.Hosts[i].IPs {
			ht.ids[canonIP(ip)] = j
			hostByIP[canonIP(ip)] = ht
		}
		hostByName[h.Hosts[i].Name] = ht
	}
	mapByKey := map[string]*mapEntry{}
	replOwner := map[string]*mapEntry{}
	replIndex := map[string]int{}
	for i := range h.Map {
		e := &h.Map[i]
		mapByKey[e.Key] = e
		for j, r := range e.Repl {
			replOwner[r] = e
			replIndex[r] = j
		}
	}
	used := map[string][]int{} // key -> sequence of replacement indices used
	garbled := func(i int, addr string) {
		if conc {
			viol("dial_path_data_race", "concurrent dialling produced an address that was never resolved or mapped", "", addr,
				map[string]interface{}{"component": "dns_cache_array", "symptom": "garbled_address", "dial": i})
		} else {
			viol("dial_target_not_resolved", "a connection attempt went to an address not resolved for the host", strings.Join(h.Dials[i:i+1], ""), addr,
				map[string]interface{}{"dial": i})
		}
	}
	for i, d := range h.Dials {
		got := res.base[i]
		// undo the layers from the inside out: what did each layer hand down?
		var dnsTargets []string // ips chosen by the DNS layer for this dial
		var dnsHost *hostTrace
		// the connection a dial returns: one iff some attempt of it produced one
		// (what the dial function RETURNS is not in the property text: noted only)
		if res.baseOK[i] > 0 && !res.gotConn[i] {
			s.Count("note:attempt_succeeded_but_no_connection_returned")
		} else if res.baseOK[i] == 0 && res.gotConn[i] {
			s.Count("note:connection_returned_without_successful_attempt")
		}
		switch cfg {
		case "none":
			if h.Config != "none" {
				// DNSCaching with a negative ttl: that this means "disabled" is the option's documentation,
				// not this property's text — noted only
				if len(got) != 1 || got[0] != d {
					s.Count("note:negative_ttl_did_not_pass_through")
				}
			} else if len(got) != 1 || got[0] != d {
				viol("dial_passthrough", "without options the address must reach the dialer unchanged", d, fmt.Sprint(got), nil)
			}
		case "C":
			if _, ok := mapByKey[d]; ok && d != strings.ToLower(d) {
				s.Count("connect_to:mixed_case_key_dialled_as_written")
			}
			if e, ok := mapByKey[d]; ok {
				if len(got) != 1 || replOwner[got[0]] != e {
					viol("connect_to_target", "dial to a mapped address did not go to one of its replacements", fmt.Sprint(e.Repl), fmt.Sprint(got), nil)
				} else {
					used[d] = append(used[d], replIndex[got[0]])
				}
			} else {
				foldMatch := false
				for k := range mapByKey {
					foldMatch = foldMatch || strings.EqualFold(k, d)
				}
				if foldMatch {
					// the same address in a different spelling than the key: whether that counts as
					// "mapped" is not in the property text — left to the model comparison (exact match)
					s.Count("connect_to:dial_differs_from_key_in_case_only")
				} else if len(got) != 1 || got[0] != d {
					viol("connect_to_passthrough", "unmapped address did not pass through unchanged", d, fmt.Sprint(got), nil)
				}
			}
		case "D", "DC":
			target := d
			if e, ok := mapByKey[d]; ok && cfg == "DC" {
				// the replacement used is identified by the host its addresses belong to
				target = ""
				for _, g := range got {
					ip, port, _ := net.SplitHostPort(g)
					if ht := hostByIP[canonIP(ip)]; ht != nil {
						for j, r := range e.Repl {
							if r == net.JoinHostPort(ht.spec.Name, port) {
								target = r
								used[d] = append(used[d], j)
							}
						}
					}
					if target != "" {
						break
					}
				}
				if target == "" {
					viol("connect_to_target", "dial to a mapped address did not go to one of its replacements", fmt.Sprint(e.Repl), fmt.Sprint(got), nil)
					continue
				}
			}
			hn, port, serr := net.SplitHostPort(target)
			dnsHost = hostByName[hn]
			if serr != nil || dnsHost == nil {
				// no port, or a name the DNS does not know: nothing is resolved, nothing may be dialled
				s.Count("dial:unresolvable_address")
				for _, g := range got {
					garbled(i, g)
				}
				continue
			}
			for _, g := range got {
				ip, p, err := net.SplitHostPort(g)
				if err != nil || p != port {
					garbled(i, g)
					continue
				}
				dnsTargets = append(dnsTargets, canonIP(ip))
			}
		case "CD":
			hn, port, serr := net.SplitHostPort(d)
			dnsHost = hostByName[hn]
			if serr != nil || dnsHost == nil {
				s.Count("dial:unresolvable_address")
				for _, g := range got {
					garbled(i, g)
				}
				continue
			}
			for _, g := range got {
				if e := replOwner[g]; e != nil {
					ip, p, _ := net.SplitHostPort(e.Key)
					if p != port {
						garbled(i, g)
						continue
					}
					dnsTargets = append(dnsTargets, canonIP(ip))
					used[e.Key] = append(used[e.Key], replIndex[g])
					continue
				}
				ip, p, err := net.SplitHostPort(g)
				if err != nil || p != port {
					garbled(i, g)
					continue
				}
				if _, mapped := mapByKey[g]; mapped {
					viol("connect_to_target", "a mapped address reached the dialer unreplaced", "", g, nil)
				}
				dnsTargets = append(dnsTargets, canonIP(ip))
			}
		}
		if !hasD || dnsHost == nil {
			continue
		}
		// every attempt goes to a currently resolved address, one per family
		var ids []int
		fams := map[int]int{}
		bad := false
		for _, ip := range dnsTargets {
			id, ok := dnsHost.ids[ip]
			if !ok {
				garbled(i, ip)
				bad = true
				continue
			}
			ids = append(ids, id)
			fams[familyOf(ip)]++
		}
		if bad {
			continue
		}
		present := map[int]bool{}
		for _, ip := range dnsHost.spec.IPs {
			present[familyOf(ip)] = true
		}
		okFam := len(fams) == len(present)
		for _, n := range fams {
			okFam = okFam && n == 1
		}
		if !okFam && conc {
			viol("dial_path_data_race", "under concurrent dialling a dial did not go to exactly one address per resolved IP family", fmt.Sprint(len(present), " families"), fmt.Sprint(dnsTargets),
				map[string]interface{}{"dial": i, "families": famLabel(dnsHost.spec.IPs), "component": "dns_cache_array", "symptom": "family_missing"})
		} else if !okFam {
			viol("dial_not_one_per_family", "a dial did not go to exactly one address per resolved IP family", fmt.Sprint(len(present), " families"), fmt.Sprint(dnsTargets),
				map[string]interface{}{"dial": i, "families": famLabel(dnsHost.spec.IPs)})
		}
		sort.Ints(ids)
		dnsHost.dials = append(dnsHost.dials, ids)
		dnsHost.dialNo = append(dnsHost.dialNo, i)
	}
	// "DNS caching … ttl zero: never expire": one lookup (A and AAAA, allowing resolver retries) per host
	if hasD {
		for _, ht := range hostByName {
			// (how often the name is looked up is not in the property text, only where the dials go: noted)
			if q := res.queries[ht.spec.Name]; len(ht.dials) >= 20 && q > 8 {
				s.Count("note:host_looked_up_repeatedly_despite_ttl_0")
			}
		}
	}
	// every resolved address keeps being used: window rule per host and family
	if hasD {
		for _, ht := range hostByName {
			n := len(ht.spec.IPs)
			famCount := map[int]int{}
			for _, ip := range ht.spec.IPs {
				famCount[familyOf(ip)]++
			}
			reported := false
			for id, ip := range ht.spec.IPs {
				w := windowFor(famCount[familyOf(ip)])
				last := -1 // index (in ht.dials) of the last use
				check := func(upto int) bool { return upto-last-1 >= w }
				missingAt := -1
				for k, ids := range ht.dials {
					for _, x := range ids {
						if x == id {
							if check(k) && missingAt < 0 {
								missingAt = last + 1
							}
							last = k
						}
					}
				}
				if missingAt < 0 && check(len(ht.dials)) {
					missingAt = last + 1
				}
				if missingAt >= 0 && !reported {
					reported = true
					label := famLabel(ht.spec.IPs)
					key := map[string]interface{}{"families": label, "addresses": n, "concurrent": conc, "host_dials": len(ht.dials)}
					if n >= 3 {
						key["addresses_ge"] = 3
					}
					kind := "dns_cache_entry_mutated"
					what := "a resolved address stopped being used: the cached address set was altered by dialling"
					if conc && !(label == "mixed" && n >= 3) {
						kind = "dial_path_data_race"
						key["component"] = "dns_cache_array"
						key["symptom"] = "address_lost"
						what = "concurrent dialling lost a resolved address from the cached set"
					}
					viol(kind, what, fmt.Sprintf("address %s used at least once in every %d consecutive dials", ip, w),
						fmt.Sprintf("unused for >= %d dials from the host's dial #%d on (of %d)", w, missingAt, len(ht.dials)), key)
				}
			}
			// model: run the model's dial function as many times with its own random choices; the
			// addresses still in use in the long run must agree (both sides are deterministic up
			// to an event of probability < 1e-20: see windowFor and the collapse of the cached array)
			if !conc && len(ht.dials) >= 2000 && r != nil {
				var sb strings.Builder
				sb.WriteString("c18.longrun " + strconv.Itoa(n))
				for _, ip := range ht.spec.IPs {
					sb.WriteString(" " + strconv.Itoa(familyOf(ip)))
				}
				sb.WriteString(" " + strconv.Itoa(len(ht.dials)))
				for range ht.dials {
					sb.WriteString(" " + strconv.Itoa(n-1))
					for i := n - 1; i > 0; i-- {
						sb.WriteString(" " + strconv.Itoa(r.Pick(i+1)))
					}
				}
				seen := map[int]bool{}
				for _, ids := range ht.dials[len(ht.dials)-365:] {
					for _, x := range ids {
						seen[x] = true
					}
				}
				v4, v6 := 0, 0
				for id := range seen {
					if familyOf(ht.spec.IPs[id]) == 4 {
						v4++
					} else {
						v6++
					}
				}
				longrun.Add(sb.String(), fmt.Sprintf("ok %d %d", v4, v6))
				s.Count("longrun:" + famLabel(ht.spec.IPs))
			}
		}
	}
	// ConnectTo: even rotation
	if hasC {
		for key, seq := range used {
			e := mapByKey[key]
			k := len(e.Repl)
			counts := make([]int, k)
			for _, j := range seq {
				counts[j]++
			}
			lo, hi := len(seq)/k, (len(seq)+k-1)/k
			even := true
			for _, c := range counts {
				even = even && c >= lo && c <= hi
			}
			if !even {
				if conc {
					viol("dial_path_data_race", "concurrent dials to a mapped address did not rotate evenly (lost updates of the unsynchronised counter)",
						fmt.Sprintf("each of %d replacements used %d..%d times", k, lo, hi), fmt.Sprint(counts),
						map[string]interface{}{"component": "connect_to_counter", "symptom": "uneven_rotation"})
				} else {
					viol("connect_to_uneven", "dials to a mapped address did not rotate evenly over its replacements",
						fmt.Sprintf("each of %d replacements used %d..%d times", k, lo, hi), fmt.Sprint(counts), nil)
				}
			}
			if !conc {
				xs := make([]uint64, len(seq))
				for i, j := range seq {
					xs[i] = uint64(j)
				}
				rr.Add(fmt.Sprintf("c18.rr %d %d", k, len(seq)), "ok "+kit.Uints(xs))
			}
		}
	}
	// exact model comparison for DNS-free configurations
	if !hasD && !conc {
		path.Add(pathOp(h), pathLine(res))
	}
}

func hpTokens(addr string) string {
	host, port, err := net.SplitHostPort(addr)
	if err != nil {
		host, port = addr, ""
	}
	return kit.HexS(host) + " " + kit.HexS(port)
}

func pathOp(h *history) string {
	var sb strings.Builder
	sb.WriteString("c18.path 0 0 ")
	n := 0
	for _, c := range h.Config {
		if c == 'C' || c == 'D' {
			n++
		}
	}
	sb.WriteString(strconv.Itoa(n))
	// layers outermost first = options in reverse order of application
	for i := len(h.Config) - 1; i >= 0; i-- {
		switch h.Config[i] {
		case 'D':
			sb.WriteString(" d")
		case 'C':
			sb.WriteString(" c " + strconv.Itoa(len(h.Map)))
			for _, e := range h.Map {
				sb.WriteString(" " + hpTokens(e.Key) + " " + strconv.Itoa(len(e.Repl)))
				for _, r := range e.Repl {
					sb.WriteString(" " + hpTokens(r))
				}
			}
		}
	}
	sb.WriteString(" " + strconv.Itoa(len(h.Dials)))
	for _, d := range h.Dials {
		sb.WriteString(" " + hpTokens(d))
	}
	return sb.String()
}

func pathLine(res *histResult) string {
	parts := make([]string, len(res.base))
	for i, l := range res.base {
		p := strconv.Itoa(len(l))
		for _, a := range l {
			p += " " + hpTokens(a)
		}
		parts[i] = p
	}
	return "ok " + strings.Join(parts, " ; ")
}

// ---------- generators ----------

var histSeq int64

func genIPs(r *kit.Rng, hostNo int) []string {
	n := 1 + r.Pick(8)
	mode := r.Pick(5) // 0 v4, 1 v6, else mixed
	var ips []string
	for i := 0; i < n; i++ {
		v4 := mode == 0 || (mode >= 2 && r.Chance(0.5))
		if mode >= 2 && i == 0 {
			v4 = true
		}
		if mode >= 2 && i == 1 {
			v4 = false
		}
		if v4 {
			ips = append(ips, fmt.Sprintf("10.%d.%d.%d", hostNo, r.Pick(3), i+1))
		} else {
			ips = append(ips, fmt.Sprintf("2001:db8:%x::%x", hostNo+1, i+1))
		}
	}
	return ips
}

func genDialCount(r *kit.Rng, tier string) int {
	switch r.Pick(10) {
	case 0:
		return 1 + r.Pick(3)
	case 1, 2:
		return 2000 + r.Pick(1000)
	case 3:
		if tier == "thorough" {
			return 10000
		}
		return 3000
	default:
		return 20 + r.Pick(900)
	}
}

func genHistory(r *kit.Rng, cfg string, tier string, workers int) *history {
	id := atomic.AddInt64(&histSeq, 1)
	h := &history{Config: cfg, Workers: workers, Tag: fmt.Sprintf("s%dx%d", id, r.Pick(1<<30)), Succeed: []string{"none", "none", "none", "all", "v6"}[r.Pick(5)]}
	nh := 1 + r.Pick(3)
	hasD := strings.Contains(cfg, "D")
	for i := 0; i < nh; i++ {
		h.Hosts = append(h.Hosts, hostSpec{Name: fmt.Sprintf("h%d-%s.c18.test", i, h.Tag), IPs: genIPs(r, i)})
	}
	port := func() string { return strconv.Itoa(80 + r.Pick(3)) }
	n := genDialCount(r, tier)
	var pool []string
	kind := strings.ReplaceAll(cfg, "N", "")
	if kind == "" {
		kind = "none"
	}
	switch kind {
	case "none", "D":
		for _, hs := range h.Hosts {
			pool = append(pool, hs.Name+":"+port())
		}
		if !hasD {
			pool = append(pool, "10.9.9.9:80", "[2001:db8::9]:443", "plain.example:8080")
		}
	case "C":
		for i := 0; i < 1+r.Pick(3); i++ {
			e := mapEntry{Key: fmt.Sprintf("svc%d.example:%s", i, port())}
			for j := 0; j < 1+r.Pick(5); j++ {
				e.Repl = append(e.Repl, fmt.Sprintf("10.7.%d.%d:%d", i, j+1, 9000+j))
			}
			h.Map = append(h.Map, e)
			pool = append(pool, e.Key)
		}
		// keys spelled with capital letters / upper-case hex, dialled with the SAME spelling (the transport
		// hands the URL's host to the dial function as written)
		for i, k := range []string{"Sapo.PT:80", "SVC.Example.COM:8080", "[2001:DB8::A]:443"} {
			if r.Chance(0.5) {
				e := mapEntry{Key: k}
				for j := 0; j < 1+r.Pick(3); j++ {
					e.Repl = append(e.Repl, fmt.Sprintf("10.6.%d.%d:%d", i, j+1, 9200+j))
				}
				h.Map = append(h.Map, e)
				pool = append(pool, k, k)
			}
		}
		// …and a differently spelled variant of a key: the code matches the string exactly
		if r.Chance(0.3) {
			pool = append(pool, strings.ToUpper(h.Map[0].Key))
		}
		pool = append(pool, "unmapped.example:80", "10.9.9.9:80", "[2001:db8::9]:443")
	case "DC":
		// mapped service names whose replacements are host names resolved through the cache
		e := mapEntry{Key: []string{"svc.example:", "Svc.Example:", "SVC.EXAMPLE:"}[r.Pick(3)] + port()}
		for i, hs := range h.Hosts {
			e.Repl = append(e.Repl, hs.Name+":"+strconv.Itoa(8000+i))
		}
		h.Map = append(h.Map, e)
		pool = append(pool, e.Key, e.Key, h.Hosts[0].Name+":"+port())
	case "CD":
		// some resolved ip:port pairs are mapped to replacement addresses
		p := port()
		for i, hs := range h.Hosts {
			pool = append(pool, hs.Name+":"+p)
			for j, ip := range hs.IPs {
				if r.Chance(0.4) {
					e := mapEntry{Key: net.JoinHostPort(canonIP(ip), p)}
					for k := 0; k < 1+r.Pick(3); k++ {
						e.Repl = append(e.Repl, fmt.Sprintf("10.8.%d.%d:%d", i*10+j, k+1, 9100+k))
					}
					h.Map = append(h.Map, e)
				}
			}
		}
	}
	// addresses for which nothing can be resolved: an unknown name, an address without port
	bad := []string{"missing-" + h.Tag + ".c18.test:80", h.Hosts[0].Name, "[" + h.Hosts[0].Name}
	for i := 0; i < n; i++ {
		if hasD && r.Chance(0.03) {
			h.Dials = append(h.Dials, bad[r.Pick(len(bad))])
			continue
		}
		h.Dials = append(h.Dials, pool[r.Pick(len(pool))])
	}
	return h
}

// ---------- firstOfEachIPFamily, rotation ----------

var foePool = []string{"10.0.0.1", "10.0.0.2", "192.0.2.128", "2001:db8::1", "2001:db8::2", "::1", "::ffff:c000:280", "::ffff:10.0.0.9",
	"not-an-ip", "", "300.1.1.1", "fe80::1%eth0", "1.2.3", "0.0.0.0", "::", "[::1]", "10.0.0.1:80"}

func foeCase(r *kit.Rng, s *kit.Summary, st *kit.Stream) {
	n := r.Pick(10)
	if r.Chance(0.05) {
		n = 0
	}
	ids := make([]int, n)
	in := make([]string, n)
	valid := r.Chance(0.5)
	for i := range ids {
		for {
			ids[i] = r.Pick(len(foePool))
			if !valid || familyOf(foePool[ids[i]]) != 0 {
				break
			}
		}
		in[i] = foePool[ids[i]]
	}
	arr := append([]string(nil), in...)
	var out []string
	p, msg := kit.Recover(func() { out = vegeta.VerifFirstOfEachIPFamily(arr) })
	op := "c18.foe " + strconv.Itoa(len(foePool))
	for _, a := range foePool {
		op += " " + strconv.Itoa(familyOf(a))
	}
	op += " " + strconv.Itoa(n)
	for _, id := range ids {
		op += " " + strconv.Itoa(id)
	}
	idOf := func(a string) uint64 {
		for i, x := range foePool {
			if x == a {
				return uint64(i)
			}
		}
		return 999
	}
	line := "panic"
	if !p {
		xs := make([]uint64, len(arr))
		for i, a := range arr {
			xs[i] = idOf(a)
		}
		line = "ok " + strconv.Itoa(len(out)) + " " + kit.Uints(xs)
	}
	st.Add(op, line)
	s.Case(op, n >= 2)
	s.Count("foe:n=" + strconv.Itoa(n))
	if p {
		s.Violate(kit.Violation{Kind: "foe_panic", What: "firstOfEachIPFamily panicked", Input: in, Observed: msg})
		return
	}
	// oracle ("one per IP family"): every returned address is one of the input's parsable addresses, no
	// two of the same family, and every family present in the input is represented. WHICH address of a
	// family is returned, and in which order, is left to the model comparison.
	present := map[int]bool{}
	member := map[string]bool{}
	for _, a := range in {
		if f := familyOf(a); f != 0 {
			present[f] = true
			member[a] = true
		}
	}
	got := map[int]int{}
	okAll := true
	for _, a := range out {
		okAll = okAll && member[a]
		got[familyOf(a)]++
	}
	for f := range present {
		okAll = okAll && got[f] == 1
	}
	if !okAll || len(out) != len(present) {
		s.Violate(kit.Violation{Kind: "foe_spec", What: "firstOfEachIPFamily did not return exactly one parsable address of each family present", Input: in,
			Expected: fmt.Sprint(len(present), " families"), Observed: fmt.Sprint(out)})
	}
}

// ---------- main ----------

func runC18(c *run.Ctx, s *kit.Summary) {
	s.Rule = "histories: attacker built with VerifBaseDial(recorder) then a subset of {DNSCaching(0), ConnectTo(map)} in both orders (none, D, C, DC = the command's order, CD; N = DNSCaching(-1), NC, CN); 3% of the dials in caching configurations go to unresolvable addresses (unknown name, no port); 1..3 host names with 1..8 addresses (IPv4 only, IPv6 only, mixed) answered by an in-process DNS server; 1..10^4 dials per history (quick: up to 3000), 1..64 concurrent diallers; firstOfEachIPFamily on lists of 0..9 strings incl. invalid and IPv4-mapped; plus real-TCP dial scenarios through the attacker's own dialer, a 20ms-ttl refresh scenario and 4 end-to-end runs of the vegeta command (-resolvers, -connect-to, -dns-ttl, -keepalive=false); non-trivial = history with >= 2 dials, or an address list with >= 2 entries"
	table, err := startDNS()
	if err != nil {
		s.Skipped["dns_server_unavailable"]++
		s.Extra["dns_error"] = err.Error()
		return
	}
	longrun := &kit.Stream{Name: "c18.longrun"}
	var r *kit.Rng
	path := &kit.Stream{Name: "c18.path"}
	rr := &kit.Stream{Name: "c18.rr"}
	do := func(h *history) {
		res := runHistory(h, table)
		analyse(s, r, h, res, longrun, path, rr)
		s.Case("h:"+h.Tag, len(h.Dials) >= 2)
		s.Count("config:" + h.Config)
		s.CountN("dials", len(h.Dials))
		if h.Workers > 1 {
			s.Count("concurrent_histories")
		}
		for _, hs := range h.Hosts {
			if strings.Contains(h.Config, "D") {
				s.Count(fmt.Sprintf("addresses:%s:%d", famLabel(hs.IPs), len(hs.IPs)))
			}
		}
	}
	if c.Replay != "" {
		raw, err := os.ReadFile(c.Replay)
		if err != nil {
			panic(err)
		}
		var rec struct {
			Kind  string          `json:"kind"`
			Input json.RawMessage `json:"input"`
		}
		if err := json.Unmarshal(raw, &rec); err != nil {
			panic(err)
		}
		if strings.Contains(string(rec.Input), `"scenario"`) || strings.Contains(string(rec.Input), `"e2e"`) {
			realDialScenarios(s, table, "replay")
			refreshScenario(s, table, "replay")
			refreshIdleScenario(s, table, "replay")
			e2eDial(c, s, table, table.addr, "replay")
			return
		}
		var h history
		r = kit.NewRng(c.Seed)
		if err := json.Unmarshal(rec.Input, &h); err == nil && h.Config != "" {
			do(&h)
			if rec.Kind == "dial_path_data_race" {
				raceRuns(c, s, []string{h.Config})
			}
		}
		longrun.Diff(c.Driver, s)
		path.Diff(c.Driver, s)
		rr.Diff(c.Driver, s)
		return
	}
	r = kit.NewRng(c.Seed)

	tStart := time.Now()
	// the concurrent scenarios under the race detector (first, so that a detector report is the
	// first record of its kind)
	raceRuns(c, s, []string{"D", "C", "DC", "CD"})

	// former defect witness (DESIGN §8 #12, fixed by da2a0f6) replayed first as a regression guard: a dual-stack name with two addresses per family
	{
		h := &history{Config: "D", Workers: 1, Succeed: "none", Tag: "witness",
			Hosts: []hostSpec{{Name: "dual.witness.c18.test", IPs: []string{"10.0.0.1", "10.0.0.2", "2001:db8::1", "2001:db8::2"}}}}
		for i := 0; i < 600; i++ {
			h.Dials = append(h.Dials, "dual.witness.c18.test:80")
		}
		do(h)
	}

	// firstOfEachIPFamily
	foe := &kit.Stream{Name: "c18.foe"}
	for i := 0; i < c.N(5000, 200000); i++ {
		foeCase(r, s, foe)
	}
	foe.Diff(c.Driver, s)

	// sequential histories
	configs := []string{"none", "D", "D", "D", "C", "C", "DC", "DC", "CD", "CD", "N", "NC", "CN"}
	nh := c.N(300, 10000)
	for i := 0; i < nh; i++ {
		h := genHistory(r, configs[r.Pick(len(configs))], c.Tier, 1)
		do(h)
		if i < 2 {
			hs := *h
			if len(hs.Dials) > 5 {
				hs.Dials = hs.Dials[:5]
			}
			s.Sample(map[string]interface{}{"op": "history", "history": hs})
		}
	}
	s.Extra["sequential_histories_s"] = time.Since(tStart).Seconds()
	// long single-host histories: every address set shape, 2200 dials
	for i := 0; i < c.N(40, 600); i++ {
		h := genHistory(r, []string{"D", "D", "DC", "CD"}[r.Pick(4)], c.Tier, 1)
		h.Hosts = h.Hosts[:1]
		var pool []string
		for _, d := range h.Dials {
			if strings.HasPrefix(d, h.Hosts[0].Name+":") {
				pool = append(pool, d)
				break
			}
		}
		if h.Config == "DC" {
			h.Map[0].Repl = h.Map[0].Repl[:1]
			pool = []string{h.Map[0].Key}
		}
		if len(pool) == 0 {
			pool = []string{h.Hosts[0].Name + ":80"}
		}
		h.Dials = nil
		for k := 0; k < 2200; k++ {
			h.Dials = append(h.Dials, pool[0])
		}
		if h.Config == "CD" {
			var m []mapEntry
			for _, e := range h.Map {
				ip, p, _ := net.SplitHostPort(e.Key)
				_, dp, _ := net.SplitHostPort(pool[0])
				for _, x := range h.Hosts[0].IPs {
					if canonIP(x) == ip && p == dp {
						m = append(m, e)
					}
				}
			}
			h.Map = m
		}
		do(h)
	}
	// concurrent histories (logic only; the race detector runs in the -race child)
	for i := 0; i < c.N(40, 600); i++ {
		w := []int{2, 4, 8, 16, 32, 64}[r.Pick(6)]
		do(genHistory(r, []string{"D", "C", "DC", "CD"}[r.Pick(4)], c.Tier, w))
	}
	s.Extra["all_histories_s"] = time.Since(tStart).Seconds()
	if d := os.Getenv("C18_DUMP"); d != "" {
		for _, st := range []*kit.Stream{longrun, path, rr} {
			os.WriteFile(d+"/"+st.Name+".ops", []byte(strings.Join(st.Ops, "\n")+"\n"), 0o644)
		}
	}
	longrun.Diff(c.Driver, s)
	path.Diff(c.Driver, s)
	rr.Diff(c.Driver, s)
	s.Extra["histories_and_diff_s"] = time.Since(tStart).Seconds()

	// ConnectTo with k replacements, m sequential dials: the rotation itself
	rot := &kit.Stream{Name: "c18.rr"}
	for k := 0; k <= 9; k++ {
		for _, m := range []int{0, 1, 2, 3, 7, 10, 100, 1001} {
			h := &history{Config: "C", Workers: 1, Succeed: "none", Tag: fmt.Sprintf("rot%d-%d", k, m)}
			e := mapEntry{Key: "svc.example:80"}
			for j := 0; j < k; j++ {
				e.Repl = append(e.Repl, fmt.Sprintf("10.7.0.%d:%d", j+1, 9000+j))
			}
			h.Map = []mapEntry{e}
			for i := 0; i < m; i++ {
				h.Dials = append(h.Dials, e.Key)
			}
			res := runHistory(h, table)
			line := "panic"
			if !res.panicked {
				xs := []uint64{}
				for _, b := range res.base {
					for j, rp := range e.Repl {
						if len(b) == 1 && b[0] == rp {
							xs = append(xs, uint64(j))
						}
					}
				}
				line = "ok " + kit.Uints(xs)
			} else if k == 0 && m > 0 {
				s.Count("connect_to:empty_replacement_list_panics")
			}
			rot.Add(fmt.Sprintf("c18.rr %d %d", k, m), line)
			s.Case(fmt.Sprintf("rot:%d:%d", k, m), m >= 2)
		}
	}
	rot.Diff(c.Driver, s)

	// real dials through the attacker's own dialer, a positive cache ttl, and the command itself
	tag := fmt.Sprintf("x%d", r.Pick(1<<30))
	realDialScenarios(s, table, tag)
	refreshScenario(s, table, tag)
	refreshIdleScenario(s, table, tag)
	composeStream(c, s, r, table, tag)
	e2eDial(c, s, table, table.addr, tag)

	// custom resolver rotation (package internal/resolver, reached through the vegeta binary)
	resv := &kit.Stream{Name: "c18.resolver"}
	var vops []string
	var lens [][2]int
	for k := 1; k <= 8; k++ {
		for _, m := range []int{1, 2, 5, 17, 100} {
			op := "resolver.rotation " + strconv.Itoa(m)
			for j := 0; j < k; j++ {
				op += " " + kit.HexS(fmt.Sprintf("10.5.0.%d:53", j+1))
			}
			vops = append(vops, op)
			lens = append(lens, [2]int{k, m})
		}
	}
	outs, verr := kit.RunVegeta(c.Vegeta, vops)
	if verr != nil {
		s.Skipped["vegeta_binary_unavailable"]++
		s.Extra["vegeta_error"] = verr.Error()
	} else {
		for i, o := range outs {
			k, m := lens[i][0], lens[i][1]
			f := strings.Fields(o)
			xs := []uint64{}
			for _, t := range f[1:] {
				a := string(kit.UnHex(t))
				for j := 0; j < k; j++ {
					if a == fmt.Sprintf("10.5.0.%d:53", j+1) {
						xs = append(xs, uint64(j))
					}
				}
			}
			resv.Add(fmt.Sprintf("c18.resolver %d %d", k, m), "ok "+kit.Uints(xs))
			s.Case(fmt.Sprintf("resolver:%d:%d", k, m), m >= 2)
			// oracle: the calls spread evenly over the addresses (where the rotation starts is not prescribed)
			counts := make([]int, k)
			for _, x := range xs {
				counts[x]++
			}
			lo, hi := len(xs)/k, (len(xs)+k-1)/k
			for _, cnt := range counts {
				if len(xs) == m && (cnt < lo || cnt > hi) {
					s.Violate(kit.Violation{Kind: "resolver_rotation", What: "custom resolver does not spread its lookups evenly over its addresses", Input: vops[i],
						Expected: fmt.Sprintf("each address %d..%d times", lo, hi), Observed: fmt.Sprint(counts)})
					break
				}
			}
		}
		resv.Diff(c.Driver, s)
	}

}
