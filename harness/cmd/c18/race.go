package main

import (
	"fmt"
	"os"
	"os/exec"
	"path/filepath"
	"strconv"
	"strings"
	"sync"
	"time"

	"vharness/kit"
	"vharness/run"
)

// raceChild is the body of the -race build of this program: one concurrent history of the
// given configuration; the race detector writes its reports to GORACE's log_path.
func raceChild() {
	cfg := os.Getenv("C18_RACE_CHILD")
	workers, _ := strconv.Atoi(os.Getenv("C18_RACE_WORKERS"))
	dials, _ := strconv.Atoi(os.Getenv("C18_RACE_DIALS"))
	seed, _ := strconv.ParseInt(os.Getenv("C18_RACE_SEED"), 10, 64)
	table, err := startDNS()
	if err != nil {
		fmt.Println("dns-unavailable", err)
		os.Exit(3)
	}
	r := kit.NewRng(seed)
	for round := 0; round < 2; round++ {
		h := genHistory(r, cfg, "quick", workers)
		for len(h.Dials) < dials {
			h.Dials = append(h.Dials, h.Dials...)
		}
		h.Dials = h.Dials[:dials]
		h.Succeed = []string{"none", "all", "v6"}[round%3]
		res := runHistory(h, table)
		if res.panicked {
			fmt.Println("panic", res.panicMsg)
		}
	}
	fmt.Println("done")
}

func harnessDir() string {
	if d := os.Getenv("VERIF_HARNESS_DIR"); d != "" {
		return d
	}
	if exe, err := os.Executable(); err == nil {
		d := filepath.Join(filepath.Dir(exe), "..", "harness")
		if _, err := os.Stat(filepath.Join(d, "go.mod")); err == nil {
			return d
		}
	}
	return "/verif/harness"
}

// splitReports cuts the race detector's log into single reports.
func splitReports(text string) []string {
	var out []string
	for _, blk := range strings.Split(text, "==================") {
		if strings.Contains(blk, "WARNING: DATA RACE") {
			out = append(out, strings.TrimSpace(blk))
		}
	}
	return out
}

func raceComponent(rep string) string {
	// (inlining attributes the closures of lib/attack.go to the caller's package, so the
	// option's name and the source position identify the code, not the package path)
	first := rep
	if i := strings.Index(rep, "Previous "); i > 0 {
		first = rep[:i]
	}
	switch {
	case strings.Contains(first, "math/rand"):
		return "shuffle_rng"
	case strings.Contains(first, "ConnectTo"):
		return "connect_to_counter"
	case strings.Contains(first, "firstOfEachIPFamily") || strings.Contains(first, "DNSCaching"):
		return "dns_cache_array"
	}
	return "other"
}

// raceRuns builds this program with -race and runs the concurrent scenarios of every
// configuration with 1..64 diallers; every report that involves the dial path of
// lib/attack.go is a violation (the report is the observation).
func raceRuns(c *run.Ctx, s *kit.Summary, configs []string) {
	dir := harnessDir()
	bin := filepath.Join(c.Work, "c18race")
	if exe, err := os.Executable(); err == nil {
		bin = filepath.Join(filepath.Dir(exe), "vh_c18_race")
	}
	t0 := time.Now()
	cmd := exec.Command("go", "build", "-race", "-tags", "verif", "-o", bin, "./cmd/c18")
	cmd.Dir = dir
	cmd.Env = append(os.Environ(), "GOFLAGS=-mod=mod", "GOPROXY=off", "GOSUMDB=off", "GOTOOLCHAIN=local", "CGO_ENABLED=1")
	if out, err := cmd.CombinedOutput(); err != nil {
		s.Skipped["race_detector_build_failed"]++
		s.Extra["race_build_error"] = fmt.Sprintf("%v: %s", err, clipStr(string(out), 1500))
		return
	}
	s.Extra["race_build_s"] = time.Since(t0).Seconds()
	workerSets := []int{1, 2, 8, 64}
	if c.Tier == "thorough" {
		workerSets = []int{1, 2, 3, 4, 8, 16, 32, 64}
	}
	dials := c.N(600, 4000)
	type job struct {
		cfg string
		w   int
	}
	var jobs []job
	for i, cfg := range configs {
		for j, w := range workerSets {
			if c.Tier != "thorough" && len(configs) > 1 && (i+j+int(c.Seed))%2 == 1 {
				continue // quick tier: every configuration with half of the worker counts
			}
			jobs = append(jobs, job{cfg, w})
		}
	}
	type result struct {
		job
		err  error
		out  string
		reps []string
	}
	results := make([]result, len(jobs))
	sem := make(chan struct{}, 4)
	var wg sync.WaitGroup
	for i, jb := range jobs {
		wg.Add(1)
		go func(i int, jb job) {
			defer wg.Done()
			sem <- struct{}{}
			defer func() { <-sem }()
			logBase := filepath.Join(c.Work, fmt.Sprintf("race_%s_%d", jb.cfg, jb.w))
			ch := exec.Command(bin)
			ch.Env = append(os.Environ(),
				"C18_RACE_CHILD="+jb.cfg, "C18_RACE_WORKERS="+strconv.Itoa(jb.w), "C18_RACE_DIALS="+strconv.Itoa(dials),
				"C18_RACE_SEED="+strconv.FormatInt(c.Seed*1000+int64(jb.w), 10),
				"GORACE=log_path="+logBase+" halt_on_error=0 exitcode=0 history_size=2")
			done := make(chan error, 1)
			var out []byte
			go func() {
				var err error
				out, err = ch.CombinedOutput()
				done <- err
			}()
			var err error
			select {
			case err = <-done:
			case <-time.After(5 * time.Minute):
				ch.Process.Kill()
				err = fmt.Errorf("timeout")
				<-done
			}
			res := result{job: jb, err: err, out: string(out)}
			logs, _ := filepath.Glob(logBase + ".*")
			for _, lf := range logs {
				raw, _ := os.ReadFile(lf)
				res.reps = append(res.reps, splitReports(string(raw))...)
			}
			results[i] = res
		}(i, jb)
	}
	wg.Wait()
	seenKinds := map[string]bool{}
	for _, res := range results {
		cfg, w := res.cfg, res.w
		s.Count("race_runs")
		s.Count(fmt.Sprintf("race_workers:%d", w))
		s.Case(fmt.Sprintf("race:%s:%d", cfg, w), true)
		if res.err != nil || !strings.Contains(res.out, "done") {
			s.Skipped["race_child_failed"]++
			s.Extra["race_child_error_"+cfg] = fmt.Sprintf("%v: %s", res.err, clipStr(res.out, 1500))
			continue
		}
		for _, rep := range res.reps {
			if !strings.Contains(rep, "/lib/attack.go:") {
				s.Count("race_reports_outside_dial_path")
				if _, ok := s.Extra["race_report_outside_dial_path"]; !ok {
					s.Extra["race_report_outside_dial_path"] = clipStr(rep, 2500)
				}
				continue
			}
			s.Count("race_reports:" + cfg)
			comp := raceComponent(rep)
			k := cfg + "/" + comp
			if seenKinds[k] {
				continue
			}
			seenKinds[k] = true
			h := &history{Config: cfg, Workers: w, Tag: "race"}
			s.Violate(kit.Violation{Kind: "dial_path_data_race",
				What:     "the race detector reports a data race in the dial path under concurrent dialling",
				Input:    h,
				Expected: "no report",
				Observed: clipStr(rep, 3500),
				Key:      map[string]interface{}{"config": cfg, "workers": w, "component": comp, "symptom": "race_report"}})
		}
	}
	s.Extra["race_runs_s"] = time.Since(t0).Seconds()
}

func clipStr(s string, n int) string {
	if len(s) > n {
		return s[:n] + "…"
	}
	return s
}
