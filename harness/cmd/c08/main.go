package main

// C08 — format auto-detection and transcoding never lose, duplicate or alter results.
//
// Oracles on the real code:
//   detect     vegeta.DecoderFor on gob/CSV/JSON streams of 1…N heterogeneous records (bodies larger
//              than 4096 and 65536 bytes, first record different from the rest) through readers that
//              return 1, 7, 4096, random-sized or full chunks: a decoder is returned and yields exactly
//              the encoded sequence, then io.EOF
//   garbage    random bytes, text, mutated and truncated streams: a non-nil decoder is a violation only
//              if no format's own decoder accepts a first record from these bytes; whatever is returned
//              must behave like the first accepting format's decoder on the bytes from offset 0
//   chains     the in-process `encode` command along every chain over {gob,csv,json} up to length 4
// Correspondence with the Lean reader-algebra model (c08.sniff):
//   the DecoderFor loop rebuilt from the same io primitives (io.MultiReader, bytes.NewReader,
//   io.TeeReader, bytes.Buffer) with a recording layer around `rd` and around the final reader, run
//   with the real decoder factories and with scripted ones (arbitrary read sizes, over-reading);
//   every Read's size and bytes, the chosen index and the buffer/underlying split are compared with
//   the model.  The rebuilt loop is tied to the real DecoderFor by running both on identical
//   deterministic chunk readers and comparing the logs of reads on the underlying reader.

import (
	"bytes"
	"encoding/json"
	"errors"
	"fmt"
	"io"
	"math/rand"
	"os"
	"os/exec"
	"path/filepath"
	"strconv"
	"strings"
	"time"

	vegeta "github.com/tsenart/vegeta/v12/lib"
	"vharness/gen"
	"vharness/kit"
	"vharness/run"
)

func main() {
	if len(os.Args) > 1 && os.Args[1] == "garbage-child" {
		garbageChild(os.Args[2:])
		return
	}
	run.Main("C08", runC08)
}

var encodings = []string{"gob", "csv", "json"}

/* ---------- readers ---------- */

type chunkSpec struct {
	Mode string `json:"mode"` // "fixed", "random", "full"
	Size int    `json:"size"`
	Seed int64  `json:"seed"`
	// io.Reader allows both: the last bytes together with io.EOF; and an occasional (0, nil)
	EOFWithData bool `json:"eof_with_data,omitempty"`
	ZeroReads   bool `json:"zero_reads,omitempty"`
}

type readLog struct{ N, K int }

// chunkReader returns data in chunks chosen by the spec (deterministic) and logs every Read.
type chunkReader struct {
	data []byte
	pos  int
	spec chunkSpec
	rng  *rand.Rand
	log  []readLog
	zero bool // the previous Read returned (0, nil)
}

func newChunkReader(data []byte, spec chunkSpec) *chunkReader {
	return &chunkReader{data: data, spec: spec, rng: rand.New(rand.NewSource(spec.Seed))}
}

func (c *chunkReader) Read(p []byte) (int, error) {
	if len(p) == 0 {
		c.log = append(c.log, readLog{0, 0})
		return 0, nil
	}
	if c.pos >= len(c.data) {
		c.log = append(c.log, readLog{len(p), 0})
		return 0, io.EOF
	}
	if c.spec.ZeroReads && !c.zero && c.rng.Intn(5) == 0 {
		c.zero = true
		c.log = append(c.log, readLog{len(p), 0})
		return 0, nil
	}
	c.zero = false
	k := len(p)
	switch c.spec.Mode {
	case "fixed":
		k = c.spec.Size
	case "random":
		k = 1 + c.rng.Intn(len(p))
		if c.rng.Intn(4) == 0 {
			k = 1 + c.rng.Intn(8)
		}
	}
	if k > len(p) {
		k = len(p)
	}
	if k > len(c.data)-c.pos {
		k = len(c.data) - c.pos
	}
	copy(p, c.data[c.pos:c.pos+k])
	c.pos += k
	c.log = append(c.log, readLog{len(p), k})
	if c.spec.EOFWithData && c.pos == len(c.data) {
		return k, io.EOF
	}
	return k, nil
}

func genChunk(r *kit.Rng) chunkSpec {
	cs := genChunkSize(r)
	cs.EOFWithData = r.Chance(0.25)
	return cs
}

func genChunkSize(r *kit.Rng) chunkSpec {
	switch r.Pick(6) {
	case 0:
		return chunkSpec{Mode: "fixed", Size: 1}
	case 1:
		return chunkSpec{Mode: "fixed", Size: 7}
	case 2:
		return chunkSpec{Mode: "fixed", Size: 4096}
	case 3:
		return chunkSpec{Mode: "full"}
	case 4:
		return chunkSpec{Mode: "fixed", Size: int(r.PickI64([]int64{2, 3, 13, 64, 511, 512, 4095, 4097, 65536}))}
	}
	return chunkSpec{Mode: "random", Seed: r.Int63()}
}

// recReader records every Read on the reader it wraps.
type recReader struct {
	r    io.Reader
	lens []readLog
	data []byte
}

func (rr *recReader) Read(p []byte) (int, error) {
	n, err := rr.r.Read(p)
	rr.lens = append(rr.lens, readLog{len(p), n})
	rr.data = append(rr.data, p[:n]...)
	return n, err
}

/* ---------- codecs ---------- */

func encoderOf(enc string, w io.Writer) vegeta.Encoder {
	switch enc {
	case "gob":
		return vegeta.NewEncoder(w)
	case "csv":
		return vegeta.NewCSVEncoder(w)
	}
	return vegeta.NewJSONEncoder(w)
}

func encodeAll(enc string, rs []vegeta.Result) []byte {
	var buf bytes.Buffer
	e := encoderOf(enc, &buf)
	for i := range rs {
		r := rs[i]
		if err := e.Encode(&r); err != nil {
			panic("encode: " + err.Error())
		}
	}
	return buf.Bytes()
}

func factoryOf(enc string) vegeta.DecoderFactory {
	switch enc {
	case "gob":
		return vegeta.NewDecoder
	case "csv":
		return vegeta.NewCSVDecoder
	}
	return vegeta.NewJSONDecoder
}

var realFactories = []vegeta.DecoderFactory{vegeta.NewDecoder, vegeta.NewJSONDecoder, vegeta.NewCSVDecoder}
var realOrder = []string{"gob", "json", "csv"}

func toResults(specs []gen.ResultSpec) []vegeta.Result {
	rs := make([]vegeta.Result, len(specs))
	for i, sp := range specs {
		rs[i] = sp.ToResult()
	}
	return rs
}

/* ---------- detect oracle ---------- */

type streamCase struct {
	Enc     string           `json:"enc"`
	Records []gen.ResultSpec `json:"records"`
	Chunk   chunkSpec        `json:"chunk"`
}

func bigSize(r *kit.Rng) int {
	switch r.Pick(5) {
	case 0:
		return 4097 + r.Pick(3000)
	case 1:
		return 65537 + r.Pick(5000)
	case 2:
		return int(r.PickI64([]int64{4096, 3000, 8192, 65536, 49000, 131072}))
	case 3:
		return 70000 + r.Pick(100000)
	}
	return 5000 + r.Pick(20000)
}

// genRecords: 1…N heterogeneous records; profile picks where the big ones sit.
func genRecords(r *kit.Rng, allowBig bool) ([]gen.ResultSpec, string) {
	var n int
	switch r.Pick(6) {
	case 0:
		n = 1
	case 1:
		n = 2
	case 2:
		n = 10 + r.Pick(40)
	default:
		n = 1 + r.Pick(9)
	}
	profile := "small"
	if allowBig {
		profile = r.PickStr([]string{"small", "small", "small", "big-first", "big-later", "big-all", "plain-first"})
	}
	if profile == "big-all" && n > 6 {
		n = 1 + r.Pick(6)
	}
	rs := make([]gen.ResultSpec, n)
	for i := range rs {
		size := -1
		switch {
		case profile == "big-first" && i == 0, profile == "big-all":
			size = bigSize(r)
		case profile == "big-later" && i > 0 && (i == n-1 || r.Chance(0.3)):
			size = bigSize(r)
		}
		rs[i] = gen.InterResult(r, uint64(i)*3+uint64(r.Pick(3)), size)
		if profile == "plain-first" && i == 0 {
			rs[i].Headers, rs[i].Body, rs[i].Error, rs[i].Attack, rs[i].Method, rs[i].URL = nil, nil, "", "", "", ""
			rs[i].Code, rs[i].BytesIn, rs[i].BytesOut, rs[i].Seq = 0, 0, 0, 0
		}
	}
	return rs, profile
}

var boundaryTargets = []int{4095, 4096, 4097, 8191, 8192, 8193, 12288, 65535, 65536, 65537, 131072}

// fitBoundary pads the attack name of record `pos` so that the encoded stream up to and including that
// record — or, for a later record, half of the time the record's own line / message — is exactly `target`
// bytes long (4096·k and 65536 and their neighbours: buffer edges of bufio readers and scanners).
// Returns false if no fit was found.
func fitBoundary(rs []gen.ResultSpec, pos int, enc string, r *kit.Rng) (int, bool) {
	rs[pos].Attack = "a"
	before := 0
	if pos > 0 && r.Chance(0.5) {
		// fit the record's own encoded length (line / message) instead of the end offset in the stream
		before = len(encodeAll(enc, toResults(rs[:pos])))
	}
	prefixLen := func() int { return len(encodeAll(enc, toResults(rs[:pos+1]))) - before }
	l0 := prefixLen()
	var cands []int
	for _, t := range boundaryTargets {
		if t > l0+4 {
			cands = append(cands, t)
		}
	}
	if len(cands) == 0 {
		return 0, false
	}
	target := cands[r.Pick(len(cands))]
	if r.Chance(0.5) { // the nearest edge: its three neighbours equally often
		target = cands[r.Pick(min(3, len(cands)))]
	}
	for iter := 0; iter < 8; iter++ {
		l := prefixLen()
		switch {
		case l == target:
			return target, true
		case l < target:
			rs[pos].Attack += strings.Repeat("a", target-l)
		default:
			if over := l - target; over < len(rs[pos].Attack) {
				rs[pos].Attack = rs[pos].Attack[:len(rs[pos].Attack)-over]
			} else {
				return 0, false
			}
		}
	}
	return 0, false
}

// drainCompare decodes len(want)+2 times and checks the sequence, then io.EOF twice.
func drainCompare(dec vegeta.Decoder, want []vegeta.Result) (kind, obs string) {
	for i := 0; i < len(want)+2; i++ {
		var r vegeta.Result
		var err error
		if p, msg := kit.Recover(func() { err = dec.Decode(&r) }); p {
			return "detect_panic", msg
		}
		if i < len(want) {
			if err != nil {
				return "detect_lost_record", fmt.Sprintf("record %d of %d: error %v", i, len(want), err)
			}
			if !want[i].Equal(r) {
				return "detect_altered_record", fmt.Sprintf("record %d of %d: got seq=%d attack=%q body=%d bytes, want seq=%d attack=%q body=%d bytes",
					i, len(want), r.Seq, r.Attack, len(r.Body), want[i].Seq, want[i].Attack, len(want[i].Body))
			}
		} else if err != io.EOF {
			if err == nil {
				return "detect_extra_record", fmt.Sprintf("call %d after %d records returned a record (seq=%d)", i, len(want), r.Seq)
			}
			if i == len(want) { // the end of the sequence itself must be a clean io.EOF; what later calls answer is not the property's subject
				return "detect_no_eof", fmt.Sprintf("call %d after %d records: %v", i, len(want), err)
			}
		}
	}
	return "", ""
}

func runDetect(sc streamCase, s *kit.Summary) {
	want := toResults(sc.Records)
	data := encodeAll(sc.Enc, want)
	cr := newChunkReader(data, sc.Chunk)
	var dec vegeta.Decoder
	if p, msg := kit.Recover(func() { dec = vegeta.DecoderFor(cr) }); p {
		s.Violate(kit.Violation{Kind: "detect_panic", What: "DecoderFor panicked", Input: sc, Observed: msg})
		return
	}
	key := map[string]interface{}{"enc": sc.Enc, "chunk": sc.Chunk.Mode, "size": sc.Chunk.Size, "bytes": len(data)}
	if dec == nil {
		s.Violate(kit.Violation{Kind: "detect_nil_for_valid", What: "DecoderFor returned no decoder for a well-formed " + sc.Enc + " stream", Input: sc, Key: key})
		return
	}
	if kind, obs := drainCompare(dec, want); kind != "" {
		s.Violate(kit.Violation{Kind: kind, What: "decoder chosen by DecoderFor does not yield the encoded sequence followed by io.EOF", Input: sc, Observed: obs, Key: key})
		return
	}
	if cr.pos != len(data) {
		s.Count("detect:underlying reader not read to its end (not a violation)")
	}
}

/* ---------- garbage oracle ---------- */

type garbageCase struct {
	Data  []byte    `json:"data"`
	Chunk chunkSpec `json:"chunk"`
	Kind  string    `json:"how"`
}

// firstAccepting: the first format (in DecoderFor's order) whose own decoder accepts a first record.
func firstAccepting(data []byte) int {
	for i, f := range realFactories {
		var err error
		p, _ := kit.Recover(func() { err = f(bytes.NewReader(data)).Decode(&vegeta.Result{}) })
		if !p && err == nil {
			return i
		}
	}
	return -1
}

type decoded struct {
	r   vegeta.Result
	err bool
}

func decodeSome(dec vegeta.Decoder, max int) (out []decoded, panicked bool) {
	for i := 0; i < max; i++ {
		var r vegeta.Result
		var err error
		if p, _ := kit.Recover(func() { err = dec.Decode(&r) }); p {
			return out, true
		}
		out = append(out, decoded{r, err != nil})
		if err != nil {
			break
		}
	}
	return out, false
}

func runGarbage(gc garbageCase, s *kit.Summary) {
	cr := newChunkReader(gc.Data, gc.Chunk)
	var dec vegeta.Decoder
	if p, msg := kit.Recover(func() { dec = vegeta.DecoderFor(cr) }); p {
		s.Violate(kit.Violation{Kind: "detect_panic", What: "DecoderFor panicked", Input: gc, Observed: msg})
		return
	}
	acc := firstAccepting(gc.Data)
	s.Count(fmt.Sprintf("garbage:%s:accepted_by=%d", gc.Kind, acc))
	switch {
	case dec != nil && acc < 0 && len(gc.Data) == 0:
		// the zero-byte input is outside the quantified domain (it is the zero-record stream of every format):
		// nil is fine, and so is a decoder that ends the stream at once; only a fabricated record is wrong
		first, _ := decodeSome(dec, 1)
		if len(first) == 1 && !first[0].err {
			s.Violate(kit.Violation{Kind: "detect_wrong_decoder", What: "DecoderFor returned a decoder that yields a record from a zero-byte input", Input: gc})
		} else {
			s.Count("garbage:decoder_without_records_for_zero_byte_input(not a violation)")
		}
	case dec != nil && acc < 0:
		s.Violate(kit.Violation{Kind: "detect_wrong_decoder", What: "DecoderFor returned a decoder for input whose first record no format's decoder accepts", Input: gc})
	case dec == nil && acc >= 0:
		// only a WHOLE stream of one of the encodings must be detected; for a valid first record followed by
		// damage the text demands nothing
		whole, _ := decodeSome(realFactories[acc](bytes.NewReader(gc.Data)), 100000)
		if n := len(whole); n >= 2 && whole[n-1].err && isCleanEnd(realFactories[acc], gc.Data, n-1) {
			s.Violate(kit.Violation{Kind: "detect_nil_but_accepted", What: "DecoderFor returned nil although the input is a whole " + realOrder[acc] + " stream (every record decodes, then io.EOF)", Input: gc})
		} else {
			s.Count("garbage:nil_for_valid_first_record_then_damage(not a violation)")
		}
	case dec != nil:
		// must behave like one of the accepting formats' decoders on the bytes from offset 0 (which of several
		// accepting formats is chosen is not the property's subject)
		got, p1 := decodeSome(dec, 200)
		same := false
		for f := range realFactories {
			var ferr error
			if p, _ := kit.Recover(func() { ferr = realFactories[f](bytes.NewReader(gc.Data)).Decode(&vegeta.Result{}) }); p || ferr != nil {
				continue
			}
			ref, p2 := decodeSome(realFactories[f](bytes.NewReader(gc.Data)), 200)
			ok := p1 == p2 && len(got) == len(ref)
			for i := 0; ok && i < len(got); i++ {
				ok = got[i].err == ref[i].err && (got[i].err || got[i].r.Equal(ref[i].r))
			}
			same = same || ok
		}
		if !same {
			s.Violate(kit.Violation{Kind: "detect_replay_differs", What: "the decoder returned by DecoderFor does not behave like any accepting format's decoder on the same bytes from offset 0", Input: gc,
				Observed: fmt.Sprintf("%d records/errors", len(got))})
		}
	}
}

// isCleanEnd: the format's decoder yields n records from data and then exactly io.EOF
func isCleanEnd(f vegeta.DecoderFactory, data []byte, n int) bool {
	dec := f(bytes.NewReader(data))
	for i := 0; i < n; i++ {
		if dec.Decode(&vegeta.Result{}) != nil {
			return false
		}
	}
	return dec.Decode(&vegeta.Result{}) == io.EOF
}

// gobHugeMap: a gob stream of two records in which five bytes of one record are damaged so that
// its header map announces 0xdb162a0c entries.  encoding/gob allocates a map of that size before
// reading any entry (decodeMap → reflect.MakeMapWithSize), which ends the process with
// "fatal error: runtime: out of memory".  Evaluated in every run to exercise the child-process
// isolation; the outcome is recorded under `skipped`, it is not a C08 violation.
func gobHugeMap(inFirst bool, chunk chunkSpec) garbageCase {
	r := gen.ResultSpec{Seq: 1, TsNano: 1000000000, Headers: map[string][]string{"A": {"b"}}}.ToResult()
	var buf bytes.Buffer
	enc := vegeta.NewEncoder(&buf)
	enc.Encode(&r)
	n1 := buf.Len()
	enc.Encode(&r)
	d := buf.Bytes()
	second := append([]byte{}, d[n1:]...) // a value message without type definitions
	pat := []byte{1, 1, 'A', 1, 1, 'b'}
	i := bytes.Index(second, pat)
	if i < 0 || second[0] >= 120 {
		return garbageCase{Kind: "gob-huge-map(not built)", Chunk: chunk}
	}
	mut := append([]byte{}, second[:i]...)
	mut = append(mut, 0xFC, 0xDB, 0x16, 0x2A, 0x0C)
	mut = append(mut, second[i+1:]...)
	mut[0] += 4
	var data []byte
	if inFirst {
		data = append(append([]byte{}, d[:n1-len(second)]...), mut...)
	} else {
		data = append(append([]byte{}, d[:n1]...), mut...)
	}
	return garbageCase{Kind: "gob-huge-map", Data: data, Chunk: chunk}
}

func genGarbage(r *kit.Rng) garbageCase {
	gc := garbageCase{Chunk: genChunk(r)}
	switch r.Pick(7) {
	case 0:
		gc.Kind = "random"
		gc.Data = make([]byte, r.Pick(300))
		r.Read(gc.Data)
	case 1:
		gc.Kind = "text"
		gc.Data = []byte(r.PickStr([]string{"", "\n", "hello world\n", "GET http://localhost/\n", "1,2,3\n", "{}\n", "{\"attack\":1}\n", "[]\n", "null\n",
			"1,2,3,4,5,6,,8,9,10,11,\n", "x,2,3,4,5,6,,8,9,10,11,\n", "1,2,3,4,5,6,,8,9,10,11\n", " {}\n", "{\"seq\":\"x\"}\n", "{}", "0\n", "-\n"}))
	case 2, 3, 4:
		gc.Kind = "mutated"
		rs, _ := genRecords(r, false)
		if len(rs) > 4 {
			rs = rs[:4]
		}
		gc.Data = []byte(gen.Mutate(r, string(encodeAll(encodings[r.Pick(3)], toResults(rs)))))
	case 5:
		gc.Kind = "truncated"
		rs, _ := genRecords(r, false)
		if len(rs) > 4 {
			rs = rs[:4]
		}
		d := encodeAll(encodings[r.Pick(3)], toResults(rs))
		gc.Data = d[:r.Pick(len(d))]
	default:
		gc.Kind = "spliced"
		a, _ := genRecords(r, false)
		b, _ := genRecords(r, false)
		gc.Data = append(encodeAll(encodings[r.Pick(3)], toResults(a[:1])), encodeAll(encodings[r.Pick(3)], toResults(b[:1]))...)
	}
	return gc
}

// The garbage oracle runs in child processes of this binary, `vh_c08 garbage-child <seed> <start> <count>`:
// the child regenerates the batch from the seed, evaluates cases start…count-1 and prints one JSON line
// per case.  If the child dies (fatal error inside a decoder), the case after the last reported one is
// recorded as skipped and a new child continues behind it.
type childLine struct {
	I          int             `json:"i"`
	Nontrivial bool            `json:"nontrivial"`
	Dist       map[string]int  `json:"dist"`
	Violations []kit.Violation `json:"violations"`
}

func garbageChild(args []string) {
	seed, _ := strconv.ParseInt(args[0], 10, 64)
	start, _ := strconv.Atoi(args[1])
	count, _ := strconv.Atoi(args[2])
	r := kit.NewRng(seed)
	out := json.NewEncoder(os.Stdout)
	for i := 0; i < count; i++ {
		gc := genGarbage(r)
		if i == 7 || i == 11 {
			gc = gobHugeMap(i == 11, gc.Chunk)
		}
		if i < start {
			continue
		}
		s := kit.NewSummary("C08", seed, "child")
		runGarbage(gc, s)
		out.Encode(childLine{I: i, Nontrivial: len(gc.Data) > 0, Dist: s.Dist, Violations: s.Violations})
	}
}

func runGarbageBatches(c *run.Ctx, s *kit.Summary, total int) {
	self, err := os.Executable()
	if err != nil {
		panic(err)
	}
	const batch = 2000
	for b := 0; b*batch < total; b++ {
		seed := c.Seed*1000003 + int64(b)
		count := batch
		if total-b*batch < count {
			count = total - b*batch
		}
		start := 0
		for start < count {
			cmd := exec.Command(self, "garbage-child", strconv.FormatInt(seed, 10), strconv.Itoa(start), strconv.Itoa(count))
			var stdout bytes.Buffer
			cmd.Stdout = &stdout
			runErr := cmd.Run()
			next := start
			dec := json.NewDecoder(&stdout)
			for {
				var ln childLine
				if err := dec.Decode(&ln); err != nil {
					break
				}
				for k, n := range ln.Dist {
					s.CountN(k, n)
				}
				for _, v := range ln.Violations {
					s.Violate(v)
				}
				s.Case(fmt.Sprintf("garbage:%d:%d", b, ln.I), ln.Nontrivial)
				next = ln.I + 1
			}
			if runErr == nil && next >= count {
				break
			}
			// the child died while evaluating case `next`
			s.Skipped["garbage:fatal_error_inside_a_decoder"]++
			if len(s.Extra) < 4 {
				s.Extra[fmt.Sprintf("garbage_fatal_%d_%d", seed, next)] = fmt.Sprintf("vh_c08 garbage-child %d %d %d died: %v", seed, next, next+1, runErr)
			}
			start = next + 1
		}
	}
}

/* ---------- the loop of DecoderFor rebuilt from the same primitives, with recording ---------- */

type sniffRun struct {
	idx      int
	trials   []*recReader
	fin      *recReader
	dec      vegeta.Decoder
	bufLen   int
	underLen int
}

func sniffReplica(cr *chunkReader, factories []vegeta.DecoderFactory) sniffRun {
	var r io.Reader = cr
	var buf bytes.Buffer
	out := sniffRun{idx: -1}
	for i, dec := range factories {
		rd := &recReader{r: io.MultiReader(bytes.NewReader(buf.Bytes()), io.TeeReader(r, &buf))}
		out.trials = append(out.trials, rd)
		if err := dec(rd).Decode(&vegeta.Result{}); err == nil {
			out.idx, out.bufLen, out.underLen = i, buf.Len(), len(cr.data)-cr.pos
			out.fin = &recReader{r: io.MultiReader(&buf, r)}
			out.dec = dec(out.fin)
			return out
		}
	}
	return out
}

func readsTokens(lens []readLog) string {
	var sb strings.Builder
	sb.WriteString(strconv.Itoa(len(lens)))
	for _, l := range lens {
		sb.WriteString(" " + strconv.Itoa(l.N) + " " + strconv.Itoa(l.K))
	}
	return sb.String()
}

func showReads(tag string, rr *recReader) string {
	var sb strings.Builder
	sb.WriteString(tag + " " + strconv.Itoa(len(rr.lens)))
	for _, l := range rr.lens {
		sb.WriteString(" " + strconv.Itoa(l.K))
	}
	sb.WriteString(" " + kit.Hex(rr.data))
	return sb.String()
}

// sniffLines: the model operation and the implementation's answer for one recorded run.
func sniffLines(data []byte, sr sniffRun) (op, impl string) {
	var sb, ib strings.Builder
	sb.WriteString("c08.sniff " + kit.Hex(data) + " " + strconv.Itoa(len(sr.trials)))
	for i, t := range sr.trials {
		sb.WriteString(" " + readsTokens(t.lens) + " " + kit.B(i == sr.idx))
	}
	if sr.idx < 0 {
		ib.WriteString("ok nil")
	} else {
		ib.WriteString(fmt.Sprintf("ok %d buf=%d under=%d", sr.idx, sr.bufLen, sr.underLen))
	}
	for _, t := range sr.trials {
		ib.WriteString(" | " + showReads("t", t))
	}
	if sr.idx >= 0 {
		sb.WriteString(" " + readsTokens(sr.fin.lens))
		ib.WriteString(" | " + showReads("f", sr.fin))
	} else {
		sb.WriteString(" 0")
	}
	return sb.String(), ib.String()
}

func sameLog(a, b []readLog) bool {
	if len(a) != len(b) {
		return false
	}
	for i := range a {
		if a[i] != b[i] {
			return false
		}
	}
	return true
}

// runModelReal: real factories in the rebuilt loop vs the model, and the rebuilt loop vs DecoderFor.
func runModelReal(sc streamCase, data []byte, st *kit.Stream, s *kit.Summary) {
	cr := newChunkReader(data, sc.Chunk)
	var sr sniffRun
	if p, msg := kit.Recover(func() { sr = sniffReplica(cr, realFactories) }); p {
		s.Diverge("c08.replica", "rebuilt loop panicked", msg, "")
		return
	}
	logAtReturn := len(cr.log)
	var seq []decoded
	if sr.dec != nil {
		seq, _ = decodeSome(sr.dec, 100000)
	}
	op, impl := sniffLines(data, sr)
	st.Add(op, impl)
	// the same run through the real DecoderFor on an identical reader
	cr2 := newChunkReader(data, sc.Chunk)
	var dec vegeta.Decoder
	if p, msg := kit.Recover(func() { dec = vegeta.DecoderFor(cr2) }); p {
		s.Diverge("c08.replica", "DecoderFor panicked", msg, "")
		return
	}
	if (dec == nil) != (sr.dec == nil) || !sameLog(cr.log[:logAtReturn], cr2.log) {
		s.Diverge("c08.replica", fmt.Sprintf("enc=%s chunk=%+v bytes=%d", sc.Enc, sc.Chunk, len(data)),
			fmt.Sprintf("DecoderFor: nil=%v, %d reads on r", dec == nil, len(cr2.log)), fmt.Sprintf("rebuilt loop: nil=%v, %d reads on r", sr.dec == nil, logAtReturn))
		return
	}
	if dec != nil {
		seq2, _ := decodeSome(dec, 100000)
		same := len(seq) == len(seq2) && sameLog(cr.log, cr2.log)
		for i := 0; same && i < len(seq); i++ {
			same = seq[i].err == seq2[i].err && (seq[i].err || seq[i].r.Equal(seq2[i].r))
		}
		if !same {
			s.Diverge("c08.replica", fmt.Sprintf("enc=%s chunk=%+v bytes=%d (after draining)", sc.Enc, sc.Chunk, len(data)),
				fmt.Sprintf("DecoderFor: %d results, %d reads on r", len(seq2), len(cr2.log)), fmt.Sprintf("rebuilt loop: %d results, %d reads on r", len(seq), len(cr.log)))
		}
	}
	// the final reader must have yielded the stream from byte 0 (as far as the decoder read)
	if sr.fin != nil && !bytes.HasPrefix(data, sr.fin.data) {
		s.Violate(kit.Violation{Kind: "sniff_stream_altered", What: "bytes yielded by the final reader are not a prefix of the original stream", Input: sc})
	}
}

type scriptedCase struct {
	Data   []byte    `json:"data"`
	Chunk  chunkSpec `json:"chunk"`
	Trials [][]int   `json:"trials"` // read sizes of each trial decoder
	Accept int       `json:"accept"` // index of the accepting trial, -1 none
	Final  []int     `json:"final"`  // read sizes on the final reader
}

var errReject = errors.New("reject")

// runModelScripted: arbitrary read scripts as trial decoders in the rebuilt loop vs the model.
func runModelScripted(sc scriptedCase, st *kit.Stream, s *kit.Summary) {
	cr := newChunkReader(sc.Data, sc.Chunk)
	factories := make([]vegeta.DecoderFactory, len(sc.Trials))
	for i := range sc.Trials {
		i := i
		used := false
		factories[i] = func(rd io.Reader) vegeta.Decoder {
			script, accept := sc.Trials[i], i == sc.Accept
			if used { // second construction: the final decoder
				script, accept = sc.Final, true
			}
			used = true
			return func(*vegeta.Result) error {
				for _, n := range script {
					rd.Read(make([]byte, n))
				}
				if accept {
					return nil
				}
				return errReject
			}
		}
	}
	sr := sniffReplica(cr, factories)
	if sr.dec != nil {
		sr.dec.Decode(&vegeta.Result{})
	}
	op, impl := sniffLines(sc.Data, sr)
	st.Add(op, impl)
	if sr.fin != nil && !bytes.HasPrefix(sc.Data, sr.fin.data) {
		s.Violate(kit.Violation{Kind: "sniff_stream_altered", What: "bytes yielded by the final reader are not a prefix of the original stream", Input: sc})
	}
	for _, t := range sr.trials {
		if !bytes.HasPrefix(sc.Data, t.data) {
			s.Violate(kit.Violation{Kind: "sniff_trial_stream_altered", What: "bytes seen by a trial decoder are not a prefix of the original stream", Input: sc})
		}
	}
}

func genScripted(r *kit.Rng) scriptedCase {
	sc := scriptedCase{Chunk: genChunk(r), Accept: -1}
	sc.Data = make([]byte, r.Pick(400))
	if r.Chance(0.1) {
		sc.Data = make([]byte, 3000+r.Pick(6000))
	}
	r.Read(sc.Data)
	size := func() int {
		switch r.Pick(6) {
		case 0:
			return 1
		case 1:
			return 4096
		case 2:
			return r.Pick(3) // 0-length reads too
		case 3:
			return 1 + r.Pick(len(sc.Data)+10)
		}
		return 1 + r.Pick(64)
	}
	nt := 1 + r.Pick(4)
	if r.Chance(0.7) {
		nt = 3
	}
	for i := 0; i < nt; i++ {
		n := r.Pick(8)
		sc.Trials = append(sc.Trials, nil)
		for j := 0; j < n; j++ {
			sc.Trials[i] = append(sc.Trials[i], size())
		}
	}
	if r.Chance(0.8) {
		sc.Accept = r.Pick(nt)
	}
	for j := r.Pick(12); j > 0; j-- {
		sc.Final = append(sc.Final, size())
	}
	if r.Chance(0.3) { // drain to the end
		for j := 0; j < 6; j++ {
			sc.Final = append(sc.Final, len(sc.Data)+1)
		}
	}
	return sc
}

/* ---------- transcoding chains through the encode command ---------- */

type chainCase struct {
	Records []gen.ResultSpec `json:"records"`
	Start   string           `json:"start"`
	Chain   []string         `json:"chain"`
	// a record that the JSON encoder refuses (year > 9999, gob carries it): a step to JSON may fail —
	// but if the command reports success, its output must still decode to the original sequence
	MayFail bool `json:"may_fail,omitempty"`
	// what the output paths of the chain hold before the chain runs: "" nothing, "junk" random bytes,
	// "valid-gob|csv|json" a longer well-formed result file in that encoding; every output must replace it entirely
	Prefill string `json:"prefill,omitempty"`
	// the same chain over the same paths run first with this longer input (then with Records)
	First []gen.ResultSpec `json:"first,omitempty"`
	// the last step writes to a named pipe that is drained slowly (a consumer that falls behind)
	SlowLast bool `json:"slow_last,omitempty"`
	// a large input described by its generator (`Records` is then filled from it and left out of replay files)
	Synth *synthSpec `json:"synth,omitempty"`
	// the vegeta process starts with SIGINT ignored (background job of a non-interactive shell, nohup, supervisors)
	IgnoreSIGINT bool `json:"ignore_sigint,omitempty"`
}

type synthSpec struct {
	Seed int64 `json:"seed"`
	N    int   `json:"n"`
}

// synthRecords: N small heterogeneous records, deterministic in the seed
func synthRecords(sp synthSpec) []gen.ResultSpec {
	r := kit.NewRng(sp.Seed)
	rs := make([]gen.ResultSpec, sp.N)
	for i := range rs {
		rs[i] = gen.InterResult(r, uint64(i), -1)
		if len(rs[i].Body) > 16 {
			rs[i].Body = rs[i].Body[:16]
		}
	}
	return rs
}

// inputOf: the case as it goes into a violation record
func inputOf(cc chainCase) chainCase {
	if cc.Synth != nil {
		cc.Records = nil
	}
	return cc
}

func allChains(maxLen int) [][]string {
	var out [][]string
	level := [][]string{{}}
	for l := 1; l <= maxLen; l++ {
		var next [][]string
		for _, c := range level {
			for _, e := range encodings {
				next = append(next, append(append([]string{}, c...), e))
			}
		}
		out = append(out, next...)
		level = next
	}
	return out
}

func runChains(c *run.Ctx, s *kit.Summary, cases []chainCase) {
	ignoreInt := false
	for i := range cases {
		if cases[i].Synth != nil && len(cases[i].Records) == 0 {
			cases[i].Records = synthRecords(*cases[i].Synth)
		}
		ignoreInt = ignoreInt || cases[i].IgnoreSIGINT // one process per batch: callers do not mix
	}
	dir := filepath.Join(c.Work, "chains")
	if err := os.MkdirAll(dir, 0o755); err != nil {
		panic(err)
	}
	defer os.RemoveAll(dir)
	var ops []string
	type step struct {
		ci   int
		k    int
		file string
	}
	var steps []step
	sinks := map[string]<-chan []byte{}
	sinkCancel := make(chan struct{})
	for ci, cc := range cases {
		prev := filepath.Join(dir, fmt.Sprintf("c%d_0.%s", ci, cc.Start))
		if err := os.WriteFile(prev, encodeAll(cc.Start, toResults(cc.Records)), 0o644); err != nil {
			panic(err)
		}
		if cc.Prefill != "" {
			// longer than anything the chain writes
			longest := 0
			for _, e := range encodings {
				if l := len(encodeAll(e, toResults(cc.Records))); l > longest {
					longest = l
				}
			}
			var stale []byte
			if cc.Prefill == "junk" {
				stale = bytes.Repeat([]byte("stale junk \x00\xff{\",1\n"), longest/16+64)
			} else {
				old := append(append([]gen.ResultSpec{}, cc.Records...), cc.Records...)
				pad := gen.InterResult(kit.NewRng(int64(ci)), 999999, longest+100)
				old = append(old, pad, pad)
				stale = encodeAll(strings.TrimPrefix(cc.Prefill, "valid-"), toResults(old))
			}
			for k, to := range cc.Chain {
				os.WriteFile(filepath.Join(dir, fmt.Sprintf("c%d_%d.%s", ci, k+1, to)), stale, 0o644)
			}
		}
		if len(cc.First) > 0 {
			// first pass over the same output paths with the longer input; its answers are not evaluated
			p0 := filepath.Join(dir, fmt.Sprintf("c%d_0first.%s", ci, cc.Start))
			os.WriteFile(p0, encodeAll(cc.Start, toResults(cc.First)), 0o644)
			for k, to := range cc.Chain {
				out := filepath.Join(dir, fmt.Sprintf("c%d_%d.%s", ci, k+1, to))
				ops = append(ops, "encode "+kit.HexS(to)+" "+kit.HexS(out)+" "+kit.HexS(p0))
				steps = append(steps, step{-1, k, out})
				p0 = out
			}
		}
		for k, to := range cc.Chain {
			out := filepath.Join(dir, fmt.Sprintf("c%d_%d.%s", ci, k+1, to))
			if cc.SlowLast && k == len(cc.Chain)-1 {
				os.Remove(out)
				if ch, err := gen.SlowSink(out, 4096, 300*time.Microsecond, sinkCancel); err == nil {
					sinks[out] = ch
					s.Count("chain:last_step_to_slow_consumer")
				}
			}
			ops = append(ops, "encode "+kit.HexS(to)+" "+kit.HexS(out)+" "+kit.HexS(prev))
			steps = append(steps, step{ci, k, out})
			prev = out
		}
	}
	outs, hungAt, err := gen.RunVegetaGuardedEnv(c.Vegeta, ops, 90*time.Second, ignoreInt)
	if err != nil {
		s.Diverge("chains", "(vegeta-verif failure)", "", err.Error())
		return
	}
	close(sinkCancel)
	for path, ch := range sinks {
		data := <-ch
		os.Remove(path)
		os.WriteFile(path, data, 0o644)
	}
	if hungAt >= 0 {
		if ci := steps[hungAt].ci; ci >= 0 {
			s.Violate(kit.Violation{Kind: "chain_encode_hung", What: "encode command did not return within 90 s", Input: cases[ci]})
		}
		for len(outs) < len(steps) {
			outs = append(outs, "not-run")
		}
	}
	failed := map[int]bool{}
	for i, st := range steps {
		if st.ci < 0 { // first pass of a chain that is run twice
			continue
		}
		cc := cases[st.ci]
		if failed[st.ci] || outs[i] == "not-run" {
			continue
		}
		key := map[string]interface{}{"chain": strings.Join(cc.Chain, ">"), "start": cc.Start, "step": st.k + 1}
		if outs[i] != "ok" && cc.MayFail && cc.Chain[st.k] == "json" {
			s.Count("chain:unencodable_record_rejected")
			failed[st.ci] = true
			continue
		}
		if outs[i] != "ok" {
			msg := outs[i]
			if f := strings.Fields(msg); len(f) == 2 {
				msg = f[0] + " " + string(kit.UnHex(f[1]))
			}
			s.Violate(kit.Violation{Kind: "chain_encode_failed", What: "encode command failed inside a transcoding chain", Input: inputOf(cc), Observed: msg, Key: key})
			failed[st.ci] = true
			continue
		}
		raw, err := os.ReadFile(st.file)
		if err != nil {
			s.Violate(kit.Violation{Kind: "chain_no_output", What: "encode wrote no output", Input: inputOf(cc), Observed: err.Error(), Key: key})
			failed[st.ci] = true
			continue
		}
		if kind, obs := drainCompare(factoryOf(cc.Chain[st.k])(bytes.NewReader(raw)), toResults(cc.Records)); kind != "" {
			s.Violate(kit.Violation{Kind: "chain_" + strings.TrimPrefix(kind, "detect_"), What: "output of a transcoding chain does not decode to the original sequence", Input: inputOf(cc),
				Observed: fmt.Sprintf("after step %d (%s): %s", st.k+1, cc.Chain[st.k], obs), Key: key})
			failed[st.ci] = true
		}
	}
	for ci, cc := range cases {
		s.Case(fmt.Sprintf("chain:%d:%s:%s:%d", ci, cc.Start, strings.Join(cc.Chain, ">"), len(cc.Records)), true)
		s.Count(fmt.Sprintf("chain:len=%d", len(cc.Chain)))
	}
}

/* ---------- first bytes ---------- */

func runFirstBytes(c *run.Ctx, s *kit.Summary, r *kit.Rng) {
	st := &kit.Stream{Name: "c08.first"}
	for i := 0; i < c.N(300, 5000); i++ {
		sp := gen.InterResult(r, uint64(i), -1)
		if r.Chance(0.3) {
			sp.TsNano = r.Int64Edge() // also before 1970: leading '-'
		}
		res := sp.ToResult()
		csv := encodeAll("csv", []vegeta.Result{res})
		js := encodeAll("json", []vegeta.Result{res})
		st.Add("c08.first csv "+strconv.FormatInt(sp.TsNano, 10), "ok "+strconv.Itoa(int(csv[0])))
		st.Add("c08.first json", "ok "+strconv.Itoa(int(js[0])))
		// (which first bytes the encoders emit is a fact of the model, compared above; the property does not fix it)
		s.Case(fmt.Sprint("first:", sp.TsNano), true)
	}
	st.Diff(c.Driver, s)
}

/* ---------- main ---------- */

func runC08(c *run.Ctx, s *kit.Summary) {
	r := kit.NewRng(c.Seed)
	s.Rule = "detect: gob/CSV/JSON streams of 1…50 heterogeneous intersection-domain records (texts with quotes, commas, LF, lone CR also at the start/end and after LF, NUL, tab, form feed, U+2028/2029/0085; plus, where the encodings on the path carry them, CR LF (not CSV) and invalid UTF-8 (not JSON); profiles small, big-first, big-later, big-all with bodies 3000…170000 bytes, plain-first) through readers with chunk sizes 1, 7, 4096, other fixed sizes, random, full, with the last bytes delivered together with io.EOF and with occasional (0, nil) reads, and with one record ending exactly on / next to a 4096·k or 65536 edge of the stream or having exactly that encoded length; garbage (in child processes): random bytes, texts, mutated/truncated/spliced streams, two gob streams announcing a huge map (fatal inside encoding/gob, counted as skipped); model: the DecoderFor loop rebuilt from the io primitives with real and with scripted decoders, every read compared with the Lean reader algebra; chains: every chain over {gob,csv,json} of length 1…4 through the in-process encode command, plus chains carrying a record the JSON encoder refuses (year > 9999: the step may fail, but a reported success must still decode to the original); command level: encode/report over argument lists containing a file in none of the formats must not report success (nor hang); non-trivial = stream with ≥ 2 records or a chain or a scripted run with ≥ 2 trials"
	if c.Replay != "" {
		replay(c, s)
		return
	}
	t0 := time.Now()
	phase := func(name string) {
		s.Extra["wall_s:"+name] = int(time.Since(t0).Seconds())
		t0 = time.Now()
	}
	// detect oracle
	for i := 0; i < c.N(2000, 50000); i++ {
		rs, profile := genRecords(r, true)
		sc := streamCase{Enc: encodings[r.Pick(3)], Records: rs, Chunk: genChunk(r)}
		if profile == "big-all" && len(rs) > 2 && sc.Chunk.Mode == "fixed" && sc.Chunk.Size <= 3 && !r.Chance(0.25) {
			sc.Chunk.Size = 7 // byte-wise reading of several big records only now and then (run time)
		}
		if (profile == "small" || profile == "plain-first") && r.Chance(0.35) {
			// the end of one record exactly on / next to a buffer edge of the stream
			pos := 0
			if len(rs) > 1 && r.Chance(0.5) {
				pos = 1 + r.Pick(len(rs)-1)
			}
			if t, ok := fitBoundary(rs, pos, sc.Enc, r); ok {
				profile = "boundary"
				s.Count(fmt.Sprintf("detect:boundary=%d", t))
				s.Count(fmt.Sprintf("detect:boundary_first_record=%v", pos == 0))
			}
		}
		if r.Chance(0.3) {
			// texts only this encoding carries: CR LF (not CSV), invalid UTF-8 (not JSON)
			if how := gen.SpiceText(r, &rs[r.Pick(len(rs))], sc.Enc != "csv", sc.Enc != "json"); how != "" {
				s.Count("detect:text_with_" + how)
			}
		}
		if sc.Chunk.Mode != "full" && r.Chance(0.15) {
			sc.Chunk.ZeroReads = true
		}
		if sc.Chunk.EOFWithData {
			s.Count("detect:reader_eof_with_data")
		}
		if sc.Chunk.ZeroReads {
			s.Count("detect:reader_zero_reads")
		}
		runDetect(sc, s)
		s.Case(fmt.Sprintf("detect:%d", i), len(rs) >= 2)
		s.Count("detect:enc=" + sc.Enc)
		s.Count("detect:profile=" + profile)
		s.Count(fmt.Sprintf("detect:chunk=%s/%d", sc.Chunk.Mode, sc.Chunk.Size))
		if i < 1 {
			s.Sample(map[string]interface{}{"what": "detect", "enc": sc.Enc, "records": len(rs), "profile": profile, "chunk": sc.Chunk})
		}
	}
	phase("detect")
	// garbage oracle (in child processes: encoding/gob allocates whatever length a damaged stream
	// announces — e.g. a header map of 0xdb162a0c entries — and the resulting out-of-memory is fatal)
	runGarbageBatches(c, s, c.N(3000, 100000))
	phase("garbage")
	// model correspondence, real decoders
	st := &kit.Stream{Name: "c08.sniff(real decoders)"}
	for i := 0; i < c.N(400, 6000); i++ {
		big := r.Chance(0.06)
		rs, profile := genRecords(r, big)
		if len(rs) > 8 {
			rs = rs[:8]
		}
		sc := streamCase{Enc: encodings[r.Pick(3)], Records: rs, Chunk: genChunk(r)}
		data := encodeAll(sc.Enc, toResults(rs))
		if r.Chance(0.15) && sc.Enc != "gob" { // not in any format, or damaged (gob-derived damage only in child processes, see runGarbageBatches)
			data = []byte(gen.Mutate(r, string(data)))
			profile = "mutated"
		}
		if len(data) > 4000 && (sc.Chunk.Mode == "random" || sc.Chunk.Mode == "fixed" && sc.Chunk.Size < 512) {
			sc.Chunk = chunkSpec{Mode: "fixed", Size: int(r.PickI64([]int64{4096, 4095, 65536, 512}))} // keeps the list-based model fast
		}
		runModelReal(sc, data, st, s)
		s.Case(fmt.Sprintf("model-real:%d", i), len(rs) >= 2)
		s.Count("model.real:profile=" + profile)
		if i < 1 {
			s.Sample(map[string]interface{}{"what": "c08.sniff (real decoders)", "enc": sc.Enc, "bytes": len(data), "chunk": sc.Chunk, "impl": clip(st.Impl[len(st.Impl)-1])})
		}
	}
	st.Diff(c.Driver, s)
	phase("model-real")
	// model correspondence, scripted decoders
	ss := &kit.Stream{Name: "c08.sniff(scripted)"}
	for i := 0; i < c.N(3000, 100000); i++ {
		sc := genScripted(r)
		runModelScripted(sc, ss, s)
		s.Case(fmt.Sprintf("model-scripted:%d", i), len(sc.Trials) >= 2)
		s.Count(fmt.Sprintf("model.scripted:accept=%d", sc.Accept))
		if i < 1 {
			s.Sample(map[string]interface{}{"what": "c08.sniff (scripted)", "case": sc, "impl": clip(ss.Impl[len(ss.Impl)-1])})
		}
	}
	ss.Diff(c.Driver, s)
	phase("model-scripted")
	runFirstBytes(c, s, r)
	// chains
	chains := allChains(4)
	inputs := c.N(2, 50)
	batch := []chainCase{}
	for k := 0; k < inputs; k++ {
		for _, ch := range chains {
			rs, _ := genRecords(r, r.Chance(0.1))
			if len(rs) > 12 {
				rs = rs[:12]
			}
			cc := chainCase{Records: rs, Start: encodings[r.Pick(3)], Chain: ch}
			if r.Chance(0.4) {
				// texts that every encoding on this chain's path carries, although not all three do
				path := cc.Start + ">" + strings.Join(ch, ">")
				if how := gen.SpiceText(r, &cc.Records[r.Pick(len(rs))], !strings.Contains(path, "csv"), !strings.Contains(path, "json")); how != "" {
					s.Count("chain:text_with_" + how)
				}
			}
			switch r.Pick(6) {
			case 0:
				cc.Prefill = "junk"
			case 1:
				cc.Prefill = "valid-" + encodings[r.Pick(3)]
			case 2:
				cc.Prefill = "valid-" + ch[len(ch)-1]
			case 3:
				cc.First = append(append([]gen.ResultSpec{}, rs...), rs...)
				cc.First = append(cc.First, gen.InterResult(r, 888888, 3000+r.Pick(3000)))
			}
			if cc.Prefill != "" {
				s.Count("chain:output_exists=" + strings.Split(cc.Prefill, "-")[0])
			}
			if len(cc.First) > 0 {
				s.Count("chain:run_twice_shorter_second")
			}
			batch = append(batch, cc)
		}
		if len(batch) >= 600 || k == inputs-1 {
			runChains(c, s, batch)
			batch = batch[:0]
		}
	}
	// records the JSON encoder refuses, carried by gob
	var far []chainCase
	for _, ch := range [][]string{{"json"}, {"gob"}, {"gob", "json"}, {"gob", "gob", "json", "gob"}, {"json", "csv"}} {
		rs, _ := genRecords(r, false)
		for len(rs) < 3 {
			rs = append(rs, gen.InterResult(r, uint64(100+len(rs)), -1))
		}
		rs = rs[:3+r.Pick(len(rs)-2)]
		rs[1+r.Pick(len(rs)-1)].FarYear = 10000 + r.Pick(5000)
		far = append(far, chainCase{Records: rs, Start: "gob", Chain: ch, MayFail: true})
		s.Count("chain:with_unencodable_record")
	}
	runChains(c, s, far)
	// every result with the same header keys, 2–3 values each, first values from a tiny pool and later values
	// unique (consecutive responses of one server): through every chain that contains a CSV or JSON hop
	var srv []chainCase
	for _, ch := range [][]string{{"csv"}, {"csv", "json"}, {"json", "csv"}, {"gob", "csv", "json"}, {"csv", "gob", "csv"}, {"json"}, {"csv", "csv"}} {
		rs := make([]gen.ResultSpec, 6+r.Pick(10))
		for i := range rs {
			rs[i] = gen.InterResult(r, uint64(i), -1)
			rs[i].Headers = gen.ServerHeaders(r, uint64(i))
		}
		srv = append(srv, chainCase{Records: rs, Start: encodings[r.Pick(3)], Chain: ch})
		s.Count("chain:repeating_first_header_values")
	}
	runChains(c, s, srv)
	// long inputs (hundreds to thousands of small records, far beyond any batch of 64/128 results), every
	// target, the last step also into a consumer that falls behind
	var long []chainCase
	for k, ch := range [][]string{{"gob"}, {"csv"}, {"json"}, {"json", "gob"}, {"gob", "csv"}, {"csv", "json"}} {
		n := c.N(400, 1000) + r.Pick(300)
		if k%3 == 0 {
			n = c.N(1500, 5000) + r.Pick(500)
		}
		rs := make([]gen.ResultSpec, n)
		for i := range rs {
			rs[i] = gen.InterResult(r, uint64(i), -1)
			if len(rs[i].Body) > 40 {
				rs[i].Body = rs[i].Body[:40]
			}
		}
		long = append(long, chainCase{Records: rs, Start: encodings[(k+1)%3], Chain: ch, SlowLast: k%2 == 0})
		s.Count(fmt.Sprintf("chain:long_input_records>=%d", n/100*100))
	}
	runChains(c, s, long)
	// a LARGE input (tens of thousands of small records, generated once; the conversion runs for well over the
	// runtime's 10 ms preemption interval), converted by a process started normally and by one started with
	// SIGINT ignored
	big := synthSpec{Seed: c.Seed*7919 + 13, N: c.N(60000, 250000)}
	bigRecords := synthRecords(big)
	mk := func(start string, ch []string, ign bool) chainCase {
		s.Count(fmt.Sprintf("chain:large_input_records>=%d,sigint_ignored=%v", big.N/10000*10000, ign))
		return chainCase{Records: bigRecords, Synth: &big, Start: start, Chain: ch, IgnoreSIGINT: ign}
	}
	runChains(c, s, []chainCase{mk("gob", []string{"json"}, false)})
	ign := []chainCase{mk("gob", []string{"csv"}, true), mk("csv", []string{"gob"}, true)}
	if c.Tier == "thorough" {
		ign = append(ign, mk("json", []string{"gob", "json"}, true), mk("gob", []string{"gob"}, true))
	}
	runChains(c, s, ign)
	phase("chains")
	runCLIGarbage(c, s, r)
	phase("cli-garbage")
}

/* ---------- command level: a file in none of the formats among the inputs ---------- */

type cliGarbageCase struct {
	Good    [][]gen.ResultSpec `json:"good"`     // well-formed files (their encodings in GoodEnc)
	GoodEnc []string           `json:"good_enc"`
	Bad     []byte             `json:"bad"`      // contents of the file that is in none of the formats
	BadAt   int                `json:"bad_at"`   // its position among the arguments
	Command string             `json:"command"`  // "encode" or "report"
}

// runCLIGarbage: `decoder(files)` must refuse a file whose encoding cannot be detected ("nil means
// unknown encoding"): a command that reports success has used a wrong decoder or dropped the file silently.
func runCLIGarbage(c *run.Ctx, s *kit.Summary, r *kit.Rng) {
	var cases []cliGarbageCase
	for i := 0; i < c.N(40, 600); i++ {
		var bad []byte
		how := ""
		switch r.Pick(4) {
		case 0:
			how = "text"
			bad = []byte(r.PickStr([]string{"hello world\n", "GET http://localhost/\n", "1,2,3\n", "[]\n", "x,2,3,4,5,6,,8,9,10,11,\n",
				"{\"seq\":\"x\"}\n", "-\n", "\n\n", "not a result file", "{\"attack\":", "1700000000000000000,200,1"}))
		case 1:
			how = "printable"
			bad = make([]byte, 1+r.Pick(200))
			for j := range bad {
				bad[j] = byte(32 + r.Pick(95))
			}
		default:
			how = "truncated-first-record"
			rs, _ := genRecords(r, false)
			d := encodeAll(encodings[r.Pick(3)], toResults(rs[:1]))
			bad = d[:1+r.Pick(len(d)-2)]
		}
		if firstAccepting(bad) >= 0 {
			s.Count("cli-garbage:skipped_parses_by_chance")
			continue
		}
		cc := cliGarbageCase{Bad: bad, Command: r.PickStr([]string{"encode", "report"})}
		ngood := r.Pick(4)
		for g := 0; g < ngood; g++ {
			rs, _ := genRecords(r, false)
			if len(rs) > 5 {
				rs = rs[:5]
			}
			cc.Good = append(cc.Good, rs)
			cc.GoodEnc = append(cc.GoodEnc, encodings[r.Pick(3)])
		}
		cc.BadAt = r.Pick(ngood + 1)
		cases = append(cases, cc)
		s.Count("cli-garbage:" + how)
		s.Count(fmt.Sprintf("cli-garbage:good_files=%d", ngood))
	}
	execCLIGarbage(c, s, cases, r)
}

func execCLIGarbage(c *run.Ctx, s *kit.Summary, cases []cliGarbageCase, r *kit.Rng) {
	dir := filepath.Join(c.Work, "cligarbage")
	if err := os.MkdirAll(dir, 0o755); err != nil {
		panic(err)
	}
	defer os.RemoveAll(dir)
	var ops []string
	tos := make([]string, len(cases))
	for i, cc := range cases {
		var files []string
		for g := 0; g <= len(cc.Good); g++ {
			if g == cc.BadAt {
				f := filepath.Join(dir, fmt.Sprintf("g%d_bad", i))
				os.WriteFile(f, cc.Bad, 0o644)
				files = append(files, kit.HexS(f))
			}
			if g < len(cc.Good) {
				f := filepath.Join(dir, fmt.Sprintf("g%d_%d.%s", i, g, cc.GoodEnc[g]))
				os.WriteFile(f, encodeAll(cc.GoodEnc[g], toResults(cc.Good[g])), 0o644)
				files = append(files, kit.HexS(f))
			}
		}
		out := filepath.Join(dir, fmt.Sprintf("g%d_out", i))
		if cc.Command == "encode" {
			tos[i] = encodings[r.Pick(3)]
			ops = append(ops, "encode "+kit.HexS(tos[i])+" "+kit.HexS(out)+" "+strings.Join(files, " "))
		} else {
			ops = append(ops, "report "+kit.HexS("json")+" 0 - "+kit.HexS(out)+" "+strings.Join(files, " "))
		}
	}
	outs, hungAt, err := gen.RunVegetaGuarded(c.Vegeta, ops, 60*time.Second)
	if err != nil {
		s.Diverge("cli-garbage", "(vegeta-verif failure)", "", err.Error())
		return
	}
	if hungAt >= 0 {
		if len(cases[hungAt].Good) > 0 {
			s.Violate(kit.Violation{Kind: "cli_undetectable_file_hung", What: cases[hungAt].Command + " over well-formed files and one file in none of the formats did not return within 60 s", Input: cases[hungAt]})
		} else {
			s.Skipped["cli-garbage:command over a single undetectable file never returned (outside the quantified domain)"]++
		}
	}
	for i := range outs {
		s.Case(fmt.Sprintf("cli-garbage:%d", i), true)
		if outs[i] != "ok" {
			continue
		}
		// The command went on without the file: that is its own business. A violation is only the use of a
		// WRONG decoder: records in the output that are in none of the well-formed files.
		cc := cases[i]
		var want []vegeta.Result
		for _, g := range cc.Good {
			want = append(want, toResults(g)...)
		}
		raw, _ := os.ReadFile(filepath.Join(dir, fmt.Sprintf("g%d_out", i)))
		wrong := ""
		if cc.Command == "report" {
			var doc struct {
				Requests *uint64 `json:"requests"`
			}
			if json.Unmarshal(raw, &doc) == nil && doc.Requests != nil && *doc.Requests > uint64(len(want)) {
				wrong = fmt.Sprintf("report counts %d requests, the well-formed files hold %d", *doc.Requests, len(want))
			}
		} else {
			got, _ := decodeSome(factoryOf(tos[i])(bytes.NewReader(raw)), 100000)
			for _, g := range got {
				if g.err {
					break
				}
				found := false
				for _, w := range want {
					found = found || w.Equal(g.r)
				}
				if !found {
					wrong = fmt.Sprintf("output holds a record (seq=%d) that is in none of the well-formed files", g.r.Seq)
					break
				}
			}
		}
		if wrong != "" {
			s.Violate(kit.Violation{Kind: "cli_undetectable_file_accepted", What: cc.Command + " produced results out of a file that is in none of the formats (a wrong decoder was used)",
				Input: cc, Observed: wrong})
		} else {
			s.Count("cli-garbage:command_succeeded_without_the_undetectable_file(not a violation)")
		}
	}
}

func clip(x string) string {
	if len(x) > 300 {
		return x[:300] + "…"
	}
	return x
}

/* ---------- replay ---------- */

func replay(c *run.Ctx, s *kit.Summary) {
	raw, err := os.ReadFile(c.Replay)
	if err != nil {
		panic(err)
	}
	var rec struct {
		Kind  string          `json:"kind"`
		Input json.RawMessage `json:"input"`
	}
	if err := json.Unmarshal(raw, &rec); err != nil {
		panic(err)
	}
	var probe map[string]json.RawMessage
	_ = json.Unmarshal(rec.Input, &probe)
	s.Case("replay", true)
	switch {
	case probe["bad"] != nil:
		var cc cliGarbageCase
		if err := json.Unmarshal(rec.Input, &cc); err != nil {
			panic(err)
		}
		execCLIGarbage(c, s, []cliGarbageCase{cc}, kit.NewRng(c.Seed))
	case probe["chain"] != nil:
		var cc chainCase
		if err := json.Unmarshal(rec.Input, &cc); err != nil {
			panic(err)
		}
		runChains(c, s, []chainCase{cc})
	case probe["trials"] != nil:
		var sc scriptedCase
		if err := json.Unmarshal(rec.Input, &sc); err != nil {
			panic(err)
		}
		st := &kit.Stream{Name: "c08.sniff(replay)"}
		runModelScripted(sc, st, s)
		st.Diff(c.Driver, s)
	case probe["data"] != nil:
		var gc garbageCase
		if err := json.Unmarshal(rec.Input, &gc); err != nil {
			panic(err)
		}
		runGarbage(gc, s)
	case probe["records"] != nil:
		var sc streamCase
		if err := json.Unmarshal(rec.Input, &sc); err != nil {
			panic(err)
		}
		runDetect(sc, s)
		st := &kit.Stream{Name: "c08.sniff(replay)"}
		data := encodeAll(sc.Enc, toResults(sc.Records))
		if len(data) <= 300000 {
			runModelReal(sc, data, st, s)
			st.Diff(c.Driver, s)
		}
	default:
		// a bare timestamp spec of the first-byte check
		panic("replay: unknown input shape")
	}
}
