// C04 harness: the attack loop obeys its pacer and its duration.
// A recording wrapper around adversarial pacers observes every consultation of the real Attack
// under real scheduling; only lower bounds on time are asserted, so a late wake-up can never
// raise an alarm. Every recorded consultation log is replayed against the Lean transition system.
package main

import (
	"encoding/json"
	"fmt"
	"math"
	"sort"
	"strconv"
	"strings"
	"sync"
	"sync/atomic"
	"time"

	vegeta "github.com/tsenart/vegeta/v12/lib"
	"vharness/attackctl"
	"vharness/kit"
	"vharness/run"
)

func main() { run.Main("C04", runC04) }

type consult struct {
	Elapsed int64  `json:"elapsed"`
	Hits    uint64 `json:"hits"`
	Wait    int64  `json:"wait"`
	Stop    bool   `json:"stop"`
	RetAt   int64  `json:"ret_at"` // harness clock (ns since t0) just before Pace returned
}

type answer struct {
	wait time.Duration
	stop bool
}

type recPacer struct {
	mu      sync.Mutex
	t0      time.Time
	answers []answer
	log     []consult
	n       int
}

func (p *recPacer) Pace(elapsed time.Duration, hits uint64) (time.Duration, bool) {
	p.mu.Lock()
	defer p.mu.Unlock()
	i := p.n
	p.n++
	a := answer{0, true}
	if i < len(p.answers) {
		a = p.answers[i]
	}
	// a loop that keeps consulting after the script has said stop is told stop again and again; the log is
	// capped (the oracle needs only the first consultation after a stop) and from then on the answer comes
	// with a positive wait, so that even a loop that mishandles (wait <= 0, stop) cannot spin for ever
	if i > len(p.answers)+64 {
		a = answer{time.Millisecond, true}
	}
	if len(p.log) < 4096 {
		p.log = append(p.log, consult{Elapsed: int64(elapsed), Hits: hits, Wait: int64(a.wait), Stop: a.stop, RetAt: int64(time.Since(p.t0))})
	}
	return a.wait, a.stop
}
func (p *recPacer) Rate(time.Duration) float64 { return 0 }

type caseC04 struct {
	Workers uint64  `json:"workers"`
	Max     uint64  `json:"max"`
	Du      int64   `json:"duration_ns"`
	Waits   []int64 `json:"waits_ns"`
	StopAt  int     `json:"stop_at"` // index of the answer that says stop (len = never within the script)
	Latency int64   `json:"latency_ns"`
	// StopAfter > 0: Stop() is called that long after the start (typically in the middle of a pacer wait)
	StopAfter int64 `json:"stop_after_ns,omitempty"`
}

func runCase(cs caseC04) (log []consult, entries []int64, nres int, closed bool) {
	p := &recPacer{}
	for i, w := range cs.Waits {
		p.answers = append(p.answers, answer{time.Duration(w), i == cs.StopAt})
	}
	var emu sync.Mutex
	client := attackctl.NewFakeClient(func(seq uint64) {
		t := int64(time.Since(p.t0))
		emu.Lock()
		entries = append(entries, t)
		emu.Unlock()
		if cs.Latency > 0 {
			time.Sleep(time.Duration(cs.Latency))
		}
	})
	atk := vegeta.NewAttacker(vegeta.Workers(cs.Workers), vegeta.MaxWorkers(cs.Max), vegeta.Client(client))
	tr := vegeta.NewStaticTargeter(vegeta.Target{Method: "GET", URL: "http://verif.invalid/"})
	p.t0 = time.Now()
	res := atk.Attack(tr, p, time.Duration(cs.Du), "c04")
	if cs.StopAfter > 0 {
		go func() {
			time.Sleep(time.Duration(cs.StopAfter))
			atk.Stop()
		}()
	}
	timeout := time.After(30 * time.Second) // only reached when the attack really does not end
	for {
		select {
		case _, ok := <-res:
			if !ok {
				return p.log, entries, nres, true
			}
			nres++
		case <-timeout:
			atk.Stop()
			return p.log, entries, nres, false
		}
	}
}

// blockedHandoff: the hand-off of a released hit is blocked (all workers busy, max reached) for a
// known stretch of real time; the elapsed time handed to the NEXT consultation must include that
// stretch (a lower bound: the clock is read after the tick was handed over), and when the stretch
// crosses the deadline the pacer must not be consulted again at all.
type handoffCase struct {
	BlockNs int64 `json:"block_ns"`
	DuNs    int64 `json:"duration_ns"`
}

func blockedHandoff(hc handoffCase, s *kit.Summary, st *kit.Stream) {
	viol := func(kind, what, exp, obs string) {
		s.Violate(kit.Violation{Kind: kind, What: what, Input: hc, Expected: exp, Observed: obs})
	}
	c := attackctl.NewWithDuration(1, 1, false, time.Duration(hc.DuNs))
	t1 := time.Now() // the attack has begun: began <= t1, so time.Since(t1) is a lower bound of elapsed
	if _, ok := c.Quiesce(); !ok {
		s.Skipped["quiescence_not_established"]++
		return
	}
	c.ReleasePace(false) // consult 0 -> hit 0 enters the transport
	c.Quiesce()
	c.ReleasePace(false) // consult 1 -> the send blocks: the only worker is busy
	o, ok := c.Quiesce()
	if !ok || o.PaceBlocked || len(o.InTransport) != 1 {
		s.Skipped["handoff_scenario_not_reached"]++
		// the unchanged code always gets here with the loop blocked in the hand-off; code that does not is
		// different from the model (which has no room for a released hit other than a worker's hands)
		jb, _ := json.Marshal(hc)
		s.Diverge("c04.handoff_blocks", string(jb), fmt.Sprintf("after two releases with the only worker busy: pace_blocked=%v in_transport=%v quiescent=%v", o.PaceBlocked, o.InTransport, ok),
			"the loop is blocked handing the second hit to a worker (pace_blocked=false, one hit in the transport)")
		drainCtl(c)
		return
	}
	time.Sleep(time.Duration(hc.BlockNs))
	c.ReleaseTransport(0)
	c.Quiesce()
	lower := time.Since(t1) // the tick cannot have been handed over before the result is consumed
	c.Receive()             // worker 0 becomes free, takes the tick, the loop moves on
	o, _ = c.Quiesce()
	el := c.PaceElapsed()
	pastDeadline := hc.DuNs > 0 && lower > time.Duration(hc.DuNs)
	if pastDeadline {
		if len(el) > 2 {
			viol("pace_consulted_after_deadline_real_time", "the pacer was consulted although more than the duration had elapsed before the loop came round",
				"no third consultation (at least "+lower.String()+" had elapsed, duration "+time.Duration(hc.DuNs).String()+")", fmt.Sprint(len(el), " consultations, elapsed arguments ", el))
		}
	} else if len(el) > 2 && el[2] < lower {
		viol("pace_elapsed_stale", "the elapsed time handed to the pacer does not include the time the loop spent blocked handing over the previous hit",
			">= "+lower.String(), el[2].String())
	}
	// replay through the model: a consultation's elapsed can never precede the previous release
	if len(el) > 2 && !pastDeadline {
		st.Add(fmt.Sprintf("c04.lb %d %d %d", int64(el[1]), int64(lower), int64(el[2])), "ok")
	}
	s.Case(fmt.Sprint("handoff:", hc), true)
	s.Count("handoff:past_deadline=" + fmt.Sprint(pastDeadline))
	drainCtl(c)
}

// drainCtl stops a controlled attack and lets everything that is blocked go, whatever shape it is in.
func drainCtl(c *attackctl.Ctl) {
	c.Stop()
	for guard := 0; guard < 1000; guard++ {
		oo, _ := c.Quiesce()
		switch {
		case oo.PaceBlocked:
			c.ReleasePace(true)
		case len(oo.InTransport) > 0:
			c.ReleaseTransport(oo.InTransport[0])
		default:
			if c.Receive() == "c" {
				return
			}
		}
	}
}

func runC04(c *run.Ctx, s *kit.Summary) {
	r := kit.NewRng(c.Seed)
	lb := &kit.Stream{Name: "c04.lb"}
	for i := 0; i < c.N(12, 200); i++ {
		hc := handoffCase{BlockNs: r.Range(5, 30) * 1000000}
		if r.Chance(0.5) {
			hc.DuNs = r.Range(2, 60) * 1000000
		}
		blockedHandoff(hc, s, lb)
	}
	lb.Diff(c.Driver, s)
	s.Rule = "short real attacks with a scripted adversarial pacer (waits 0, negative, sub-millisecond to 10ms; optional stop), durations 0 or 2..40ms, 0..4 initial and 1..4 max workers, transport latencies 0..2ms; non-trivial = distinct case with >= 3 consultations"
	st := &kit.Stream{Name: "c04.log"}
	n := c.N(250, 5000)
	var wg sync.WaitGroup
	var mu sync.Mutex
	sem := make(chan struct{}, 6)
	var hung int64
	for i := 0; i < n; i++ {
		cs := caseC04{Workers: uint64(r.Pick(5)), Max: uint64(1 + r.Pick(4)), Latency: r.PickI64([]int64{0, 0, 50000, 500000, 2000000})}
		k := 1 + r.Pick(25)
		for j := 0; j < k; j++ {
			cs.Waits = append(cs.Waits, r.PickI64([]int64{0, 0, 0, -5, -1000000, 1000, 50000, 200000, 1000000, 3000000, 10000000}))
		}
		cs.StopAt = k
		if r.Chance(0.6) {
			cs.StopAt = r.Pick(k + 1)
		}
		if r.Chance(0.5) {
			cs.Du = r.Range(2, 40) * 1000000
		}
		if r.Chance(0.15) { // Stop arrives in the middle of a pacer wait, with idle workers around
			cs.Du, cs.StopAt, cs.Latency = 0, k, 0
			cs.Workers = uint64(1 + r.Pick(4))
			cs.Max = cs.Workers + uint64(r.Pick(2))
			var total int64
			for j := range cs.Waits {
				cs.Waits[j] = r.PickI64([]int64{3000000, 8000000, 15000000, 30000000})
				total += cs.Waits[j]
			}
			cs.StopAfter = 1000000 + r.Range(0, total)
		}
		if cs.StopAfter == 0 && i%40 == 7 { // the pool stays saturated at its cap for a long time (> 100 ms per hit)
			cs.Workers = uint64(1 + r.Pick(2))
			cs.Max = cs.Workers
			cs.Latency = r.PickI64([]int64{150000000, 250000000, 400000000})
			cs.Du, cs.StopAt = 0, 4+r.Pick(3)
			cs.Waits = cs.Waits[:0]
			for j := 0; j <= cs.StopAt; j++ {
				cs.Waits = append(cs.Waits, r.PickI64([]int64{0, 0, 1000000}))
			}
		}
		if cs.StopAfter == 0 && r.Chance(0.12) { // a duration that is over before (or just as) the loop first looks at the clock
			cs.Du = r.PickI64([]int64{1, 100, 1000, 10000, 30000, 100000})
		}
		wg.Add(1)
		sem <- struct{}{}
		go func(i int, cs caseC04) {
			defer wg.Done()
			defer func() { <-sem }()
			if atomic.LoadInt64(&hung) >= 2 { // two attacks did not end: do not wait for hundreds more
				mu.Lock()
				s.Skipped["cases skipped after two attacks that did not end"]++
				mu.Unlock()
				return
			}
			log, entries, nres, closed := runCase(cs)
			if !closed {
				atomic.AddInt64(&hung, 1)
			}
			mu.Lock()
			defer mu.Unlock()
			s.Case(fmt.Sprint(cs), len(log) >= 3)
			s.Count(fmt.Sprintf("du=%v", cs.Du > 0))
			if cs.Latency >= 100000000 {
				s.Count("saturated_at_cap_for_long")
			}
			if cs.Du > 0 && cs.Du <= 100000 {
				s.Count("du=tiny(<=100us)")
			}
			s.Count(fmt.Sprintf("consults=%d", min(len(log)/5*5, 25)))
			if i < 3 {
				s.Sample(map[string]interface{}{"case": cs, "consultations": log, "results": nres})
			}
			viol := func(kind, what, exp, obs string) {
				s.Violate(kit.Violation{Kind: kind, What: what, Input: cs, Expected: exp, Observed: obs})
			}
			if !closed {
				viol("attack_does_not_end", "the results channel was not closed within 30s after the pacer script ended (the script's last answer says stop)", "", "")
				return
			}
			// (a) hits argument is 0,1,2,…  (b) elapsed non-decreasing  (c) never consulted after the deadline
			nonStop := 0
			stopped := false
			for j, cl := range log {
				if cl.Hits != uint64(j) {
					viol("pace_hits_argument", "the pacer was not consulted with the true number of hits released so far", fmt.Sprint(j), fmt.Sprint(cl.Hits))
					break
				}
				if j > 0 && cl.Elapsed < log[j-1].Elapsed {
					viol("pace_elapsed_decreased", "elapsed time went backwards between consultations", "", fmt.Sprint(log[j-1].Elapsed, cl.Elapsed))
				}
				if cs.Du > 0 && cl.Elapsed > cs.Du {
					viol("pace_consulted_after_deadline", "the pacer was consulted after the duration had elapsed", "<= "+fmt.Sprint(cs.Du), fmt.Sprint(cl.Elapsed))
				}
				if stopped {
					viol("pace_consulted_after_stop", "the pacer was consulted again after it had said stop", "", fmt.Sprint(j))
				}
				if cl.Stop {
					stopped = true
				} else {
					nonStop++
				}
			}
			// (d) exactly one hit per non-stop answer: nothing released without the pacer, nothing after stop
			if cs.StopAfter > 0 {
				s.Count("stop_during_pacer_wait")
				// the hand-off of the last released hit may lose against the stop signal
				if nres > nonStop || nres < nonStop-1 {
					viol("hits_not_one_per_pacer_release", "with a Stop call: the number of hits is neither the number of non-stop pacer answers nor one less", fmt.Sprint(nonStop-1, "..", nonStop), fmt.Sprint(nres))
				}
			} else if nres > nonStop || (cs.Du == 0 && nres != nonStop) || nres < nonStop-1 {
				// every hit needs its own consultation; with a duration the hit of the last consultation may be
				// withheld (the property allows AT MOST one release after the deadline — none is fine too);
				// the hits argument 0,1,2,… (checked above) already rules out two consultations for one hit
				viol("hits_not_one_per_pacer_release", "the number of hits differs from the number of non-stop pacer answers (with a duration: may be one less)", fmt.Sprint(nonStop), fmt.Sprint(nres))
			}
			// (e) no early start: the k-th request to reach the transport cannot precede the instant the
			//     k-th wait was over (lower bound only)
			sort.Slice(entries, func(a, b int) bool { return entries[a] < entries[b] })
			k := 0
			for _, cl := range log {
				if cl.Stop || k >= len(entries) {
					break
				}
				w := cl.Wait
				if w < 0 {
					w = 0
				}
				if entries[k] < cl.RetAt+w {
					viol("hit_started_before_wait_elapsed", "a request reached the transport before the wait its pacer answer asked for had elapsed",
						">= "+fmt.Sprint(cl.RetAt+w), fmt.Sprint(entries[k]))
					break
				}
				k++
			}
			// model replay of the consultation log
			var sb strings.Builder
			fmt.Fprintf(&sb, "c04.log %d %d", cs.Du, len(log))
			for _, cl := range log {
				a := strconv.FormatInt(cl.Wait, 10)
				if cl.Stop {
					a = "stop"
				}
				fmt.Fprintf(&sb, " %d %d %s", cl.Elapsed, cl.Hits, a)
			}
			st.Add(sb.String(), "ok")
		}(i, cs)
	}
	wg.Wait()
	st.Diff(c.Driver, s)
	for i := 0; i < c.N(3, 40); i++ {
		twoAttacks(s, r)
	}
	deadlineRace(c, s, r)
	rateZeroDeadline(c, s, r)
	// last: these attacks cannot be ended (the loop sleeps for the wait it was given), so their goroutines stay
	for i := 0; i < c.N(10, 120); i++ {
		pk := parkCase{Workers: uint64(r.Pick(4)), Max: uint64(1 + r.Pick(4))}
		for j := r.Pick(4); j > 0; j-- {
			pk.Before = append(pk.Before, r.PickI64([]int64{0, 0, 1000, 200000, 1000000}))
		}
		pk.Park = r.PickI64([]int64{math.MaxInt64, math.MaxInt64, math.MaxInt64 - 1, math.MaxInt64 - r.Range(0, 3000000), math.MaxInt64 - r.Range(0, 200000000),
			1 << 62, int64(100 * 365 * 24 * time.Hour)})
		if r.Chance(0.4) {
			pk.Du = r.Range(5, 40) * 1000000
		}
		parked(pk, s)
	}
}

type parkCase struct {
	Workers uint64  `json:"workers"`
	Max     uint64  `json:"max"`
	Du      int64   `json:"duration_ns"`
	Before  []int64 `json:"waits_before_ns"`
	Park    int64   `json:"parking_wait_ns"`
}

// parked: an adversarial pacer that, after a few ordinary answers, asks for a wait of (nearly) the largest
// representable duration ("never"). For as long as anybody can observe, no further hit may start and the
// pacer may not be consulted again — whatever arithmetic the loop does with that wait.
func parked(pk parkCase, s *kit.Summary) {
	p := &recPacer{}
	for _, w := range pk.Before {
		p.answers = append(p.answers, answer{time.Duration(w), false})
	}
	p.answers = append(p.answers, answer{time.Duration(pk.Park), false})
	for i := 0; i < 100000; i++ { // what a loop that does not honour the parking wait would be told next
		p.answers = append(p.answers, answer{0, false})
	}
	var started int64
	client := attackctl.NewFakeClient(func(seq uint64) { atomic.AddInt64(&started, 1) })
	atk := vegeta.NewAttacker(vegeta.Workers(pk.Workers), vegeta.MaxWorkers(pk.Max), vegeta.Client(client))
	tr := vegeta.NewStaticTargeter(vegeta.Target{Method: "GET", URL: "http://verif.invalid/"})
	p.t0 = time.Now()
	res := atk.Attack(tr, p, time.Duration(pk.Du), "c04park")
	go func() {
		for range res {
		}
	}()
	// wait until the parking answer has been given, then watch for a while
	deadline := time.Now().Add(20 * time.Second)
	for {
		p.mu.Lock()
		n := len(p.log)
		p.mu.Unlock()
		if n > len(pk.Before) || time.Now().After(deadline) {
			break
		}
		time.Sleep(time.Millisecond)
	}
	time.Sleep(150 * time.Millisecond)
	p.mu.Lock()
	consults := len(p.log)
	p.mu.Unlock()
	hits := atomic.LoadInt64(&started)
	atk.Stop()
	s.Case(fmt.Sprint("park:", pk), true)
	s.Count(fmt.Sprintf("parked:du=%v", pk.Du > 0))
	if pk.Du > 0 && consults <= len(pk.Before) {
		return // the deadline came before the parking answer: nothing to judge
	}
	if consults > len(pk.Before)+1 {
		s.Violate(kit.Violation{Kind: "pace_consulted_before_wait_elapsed", What: "the pacer asked for a (practically) endless wait and was consulted again within 150ms",
			Input: pk, Expected: fmt.Sprint(len(pk.Before)+1, " consultations"), Observed: fmt.Sprint(consults)})
	}
	if hits > int64(len(pk.Before)) {
		s.Violate(kit.Violation{Kind: "hit_started_before_wait_elapsed", What: "a hit started although the wait its pacer answer asked for (practically endless) cannot have elapsed",
			Input: pk, Expected: fmt.Sprint("<= ", len(pk.Before), " hits"), Observed: fmt.Sprint(hits)})
	}
}

// twoAttacks: one Attacker carries out two attacks side by side (Attack called again while the first is still
// running), each with its own recording pacer. For EACH attack the elapsed time handed to its pacer must be
// non-decreasing and measured from THAT attack's start: the start lies between the call of Attack and its
// return, so at a consultation at harness time t:  t − returned ≤ elapsed ≤ t − called  (with slack for the
// time between the clock read inside the loop and the recording).
func twoAttacks(s *kit.Summary, r *kit.Rng) {
	client := attackctl.NewFakeClient(func(seq uint64) {})
	atk := vegeta.NewAttacker(vegeta.Workers(2), vegeta.MaxWorkers(4), vegeta.Client(client))
	tr := vegeta.NewStaticTargeter(vegeta.Target{Method: "GET", URL: "http://verif.invalid/"})
	mk := func(n int) *recPacer {
		p := &recPacer{}
		for j := 0; j < n; j++ {
			p.answers = append(p.answers, answer{time.Duration(r.PickI64([]int64{1000000, 2000000, 3000000})), false})
		}
		p.answers = append(p.answers, answer{0, true})
		return p
	}
	gap := time.Duration(20+r.Pick(40)) * time.Millisecond
	p1, p2 := mk(40+r.Pick(30)), mk(10+r.Pick(20))
	t0 := time.Now()
	p1.t0, p2.t0 = t0, t0
	called1 := time.Since(t0)
	res1 := atk.Attack(tr, p1, 0, "first")
	returned1 := time.Since(t0)
	done := make(chan struct{}, 2)
	go func() {
		for range res1 {
		}
		done <- struct{}{}
	}()
	time.Sleep(gap)
	called2 := time.Since(t0)
	res2 := atk.Attack(tr, p2, 0, "second")
	returned2 := time.Since(t0)
	go func() {
		for range res2 {
		}
		done <- struct{}{}
	}()
	for k := 0; k < 2; k++ {
		select {
		case <-done:
		case <-time.After(60 * time.Second):
			s.Violate(kit.Violation{Kind: "attack_does_not_end", What: "one of two attacks run by one Attacker did not end within 60 s after its pacer said stop"})
			return
		}
	}
	s.Case(fmt.Sprint("two-attacks:", gap), true)
	s.Count("two_attacks_on_one_attacker")
	in := map[string]interface{}{"scenario": "Attack called twice on one Attacker, the second while the first is running", "gap_ns": int64(gap)}
	check := func(name string, p *recPacer, called, returned time.Duration) {
		p.mu.Lock()
		log := append([]consult{}, p.log...)
		p.mu.Unlock()
		const slack = int64(time.Second) // scheduling noise between the loop's clock read and the recording
		for j, cl := range log {
			if j > 0 && cl.Elapsed < log[j-1].Elapsed {
				s.Violate(kit.Violation{Kind: "pace_elapsed_decreased", What: "elapsed time went backwards between consultations of the " + name + " attack's pacer", Input: in,
					Observed: fmt.Sprint(log[j-1].Elapsed, " then ", cl.Elapsed)})
				return
			}
			// measured from this attack's start: not smaller than (time of the consultation − time Attack returned) − slack
			if lb := cl.RetAt - int64(returned) - slack; cl.Elapsed < lb {
				s.Violate(kit.Violation{Kind: "pace_elapsed_not_from_attack_start", What: "the elapsed time handed to the " + name + " attack's pacer is not measured from that attack's start", Input: in,
					Expected: fmt.Sprint(">= ", lb, " (consultation at ", cl.RetAt, ", Attack returned at ", int64(returned), ")"), Observed: fmt.Sprint(cl.Elapsed)})
				return
			}
			if ub := cl.RetAt - int64(called); cl.Elapsed > ub {
				s.Violate(kit.Violation{Kind: "pace_elapsed_not_from_attack_start", What: "the elapsed time handed to the " + name + " attack's pacer exceeds the time since Attack was called", Input: in,
					Expected: fmt.Sprint("<= ", ub), Observed: fmt.Sprint(cl.Elapsed)})
				return
			}
			if cl.Hits != uint64(j) {
				s.Violate(kit.Violation{Kind: "pace_hits_argument", What: "the " + name + " attack's pacer was not consulted with its own count of released hits", Input: in,
					Expected: fmt.Sprint(j), Observed: fmt.Sprint(cl.Hits)})
				return
			}
		}
	}
	check("first", p1, called1, returned1)
	check("second", p2, called2, returned2)
}

// deadlineRace: thousands of very short unpaced attacks (the loop iterates back to back, so the deadline falls
// between two iterations — or between two clock readings of one iteration — all the time). The pacer only looks at
// what it is handed: it must never be consulted with an elapsed time beyond the duration ("when a duration is set,
// the pacer is never consulted once more than that duration has elapsed"). No timing is measured by the harness.
type zeroWaitPacer struct {
	du   time.Duration
	late int64
	n    int64
	max  time.Duration
	mu   sync.Mutex
}

func (p *zeroWaitPacer) Pace(elapsed time.Duration, hits uint64) (time.Duration, bool) {
	p.mu.Lock()
	p.n++
	if elapsed > p.du {
		p.late++
		if elapsed > p.max {
			p.max = elapsed
		}
	}
	p.mu.Unlock()
	return 0, false
}
func (p *zeroWaitPacer) Rate(time.Duration) float64 { return 0 }

func deadlineRace(c *run.Ctx, s *kit.Summary, r *kit.Rng) {
	n := c.N(3000, 40000)
	du := time.Duration(100+r.Pick(100)) * time.Microsecond
	p := &zeroWaitPacer{du: du}
	client := attackctl.NewFakeClient(func(uint64) {})
	hung := 0
	for i := 0; i < n && hung < 2; i++ {
		atk := vegeta.NewAttacker(vegeta.Workers(2), vegeta.MaxWorkers(2), vegeta.Client(client))
		res := atk.Attack(vegeta.NewStaticTargeter(vegeta.Target{Method: "GET", URL: "http://verif.invalid/"}), p, du, "c04race")
		timeout := time.After(20 * time.Second)
	drain:
		for {
			select {
			case _, ok := <-res:
				if !ok {
					break drain
				}
			case <-timeout:
				atk.Stop()
				hung++
				break drain
			}
		}
	}
	s.Case("deadline-race", true)
	s.CountN("deadline_race:attacks", n)
	p.mu.Lock()
	late, total, worst := p.late, p.n, p.max
	p.mu.Unlock()
	s.CountN("deadline_race:consultations", int(total))
	if hung > 0 {
		s.Skipped["deadline race: attack did not end"] += hung
	}
	if late > 0 {
		s.Violate(kit.Violation{Kind: "pace_consulted_after_deadline", What: "the pacer was consulted with an elapsed time beyond the attack's duration",
			Input:    map[string]interface{}{"scenario": fmt.Sprintf("%d unpaced attacks of %s each, 2 workers, instant transport", n, du), "duration_ns": int64(du)},
			Expected: fmt.Sprintf("every elapsed argument <= %s", du), Observed: fmt.Sprintf("%d of %d consultations beyond the duration, worst %s", late, total, worst)})
	}
}

// rateZeroDeadline: the library's own infinite-rate pacer (`-rate=0`: a ConstantPacer whose Freq or Per is zero) with a
// duration, a worker cap and a transport that takes at least L per exchange. Every hit occupies a worker for at
// least L, so before the deadline a worker can start at most floor(D/L)+1 hits; after the deadline at most the one hit
// whose wait had been requested is released. Hence — from lower bounds on time only — the attack makes at most
// workers·(floor(D/L)+1)+1 hits, whatever the scheduler does.
func rateZeroDeadline(c *run.Ctx, s *kit.Summary, r *kit.Rng) {
	for i := 0; i < c.N(3, 24); i++ {
		w := uint64(1 + r.Pick(3))
		L := time.Duration(30+r.Pick(40)) * time.Millisecond
		D := time.Duration(150+r.Pick(150)) * time.Millisecond
		var started int64
		client := attackctl.NewFakeClient(func(uint64) {
			atomic.AddInt64(&started, 1)
			time.Sleep(L)
		})
		var p vegeta.Pacer
		switch i % 3 {
		case 0:
			p = vegeta.Rate{}
		case 1:
			p = vegeta.Rate{Freq: 0, Per: time.Second}
		default:
			p = &vegeta.ConstantPacer{Freq: 7, Per: 0}
		}
		atk := vegeta.NewAttacker(vegeta.Workers(w), vegeta.MaxWorkers(w), vegeta.Client(client))
		res := atk.Attack(vegeta.NewStaticTargeter(vegeta.Target{Method: "GET", URL: "http://verif.invalid/"}), p, D, "c04rate0")
		n := 0
		timeout := time.After(60 * time.Second)
		closed := false
	drain:
		for {
			select {
			case _, ok := <-res:
				if !ok {
					closed = true
					break drain
				}
				n++
			case <-timeout:
				atk.Stop()
				break drain
			}
		}
		s.Case(fmt.Sprint("rate0:", i), true)
		s.Count("rate_zero_with_duration:runs")
		in := map[string]interface{}{"pacer": fmt.Sprintf("%#v", p), "duration": D.String(), "workers": w, "max_workers": w, "transport_latency_at_least": L.String()}
		bound := int(w)*(int(D/L)+1) + 1
		if !closed {
			s.Violate(kit.Violation{Kind: "attack_does_not_end", What: "infinite-rate pacer with a duration: the results channel was not closed within 60 s", Input: in})
			continue
		}
		if n > bound {
			s.Violate(kit.Violation{Kind: "hits_released_after_deadline", What: "infinite-rate pacer with a duration: more hits than the workers can have started before the deadline plus the one allowed after it",
				Input: in, Expected: fmt.Sprintf("<= %d hits (= workers·(floor(D/L)+1)+1)", bound), Observed: fmt.Sprint(n)})
		}
	}
}
