package main

import (
	"bufio"
	"bytes"
	"fmt"
	"net"
	"net/http"
	"net/http/httptest"
	"sort"
	"strconv"
	"sync"
	"time"

	vegeta "github.com/tsenart/vegeta/v12/lib"

	"vharness/kit"
	"vharness/run"
)

// flakyRuns: real attacks (real transport, keep-alive on, several workers, a paced rate so that hits overlap) against a
// raw TCP server that answers the first request on every connection and hangs up when a second one arrives on it.
// Requests net/http does not replay by itself (POST, PUT, …) fail there. Whatever the attack does about such a
// failure, the results of the attack are held to the property: sorted by sequence number the timestamps do not
// decrease, timestamps are at or after the start, latencies are non-negative, End = Timestamp + Latency.
func flakyRuns(c *run.Ctx, s *kit.Summary, r *kit.Rng) {
	for i := 0; i < c.N(3, 30); i++ {
		ln, err := net.Listen("tcp", "127.0.0.1:0")
		if err != nil {
			s.Skipped["flaky: cannot listen"]++
			return
		}
		hold := time.Duration(20+r.Pick(40)) * time.Millisecond
		go func() {
			for {
				conn, err := ln.Accept()
				if err != nil {
					return
				}
				go func(conn net.Conn) {
					defer conn.Close()
					br := bufio.NewReader(conn)
					req, err := http.ReadRequest(br)
					if err != nil {
						return
					}
					if req.Body != nil {
						buf := make([]byte, 4096)
						for {
							if _, e := req.Body.Read(buf); e != nil {
								break
							}
						}
					}
					fmt.Fprint(conn, "HTTP/1.1 200 OK\r\nContent-Length: 2\r\n\r\nok")
					conn.SetReadDeadline(time.Now().Add(20 * time.Second))
					if _, err := br.Peek(1); err == nil {
						time.Sleep(hold) // the second request is on its way in: let other hits be stamped, then hang up
					}
				}(conn)
			}
		}()
		base := "http://" + ln.Addr().String()
		method := []string{"POST", "PUT", "PATCH", "DELETE"}[i%4]
		workers := uint64(2 + r.Pick(4))
		targets := []vegeta.Target{{Method: method, URL: base + "/submit", Body: []byte("payload")}, {Method: "GET", URL: base + "/ping"}, {Method: "GET", URL: base + "/ping2"}}
		atk := vegeta.NewAttacker(vegeta.Workers(workers), vegeta.MaxWorkers(workers), vegeta.KeepAlive(true), vegeta.Timeout(10*time.Second))
		t0 := time.Now()
		var results []*vegeta.Result
		for res := range atk.Attack(vegeta.NewStaticTargeter(targets...), vegeta.Rate{Freq: 100 + r.Pick(200), Per: time.Second}, 300*time.Millisecond, "c05flaky") {
			results = append(results, res)
		}
		ln.Close()
		failed := 0
		for _, res := range results {
			if res.Error != "" {
				failed++
			}
		}
		s.Count(fmt.Sprintf("flaky:some_hits_failed=%v", failed > 0))
		in := map[string]interface{}{"scenario": "server answers the first request on each connection and hangs up on the second (after " + hold.String() + ")", "method": method, "workers": workers, "results": len(results)}
		sort.SliceStable(results, func(a, b int) bool {
			if results[a].Seq != results[b].Seq {
				return results[a].Seq < results[b].Seq
			}
			return results[a].Timestamp.Before(results[b].Timestamp)
		})
		for j, res := range results {
			s.Case(fmt.Sprint("flaky:", i, ":", res.Seq), true)
			bad := func(kind, what, exp, got string) {
				s.Violate(kit.Violation{Kind: kind, What: "flaky keep-alive: " + what, Input: in, Expected: exp, Observed: got})
			}
			if j > 0 && res.Seq != results[j-1].Seq && res.Timestamp.Before(results[j-1].Timestamp) {
				bad("seq_order_disagrees_with_timestamp_order", "a result with a larger sequence number has an earlier timestamp",
					fmt.Sprintf("seq %d (%s): >= %s (seq %d, %s)", res.Seq, res.Method, results[j-1].Timestamp.Sub(t0), results[j-1].Seq, results[j-1].Method), fmt.Sprint(res.Timestamp.Sub(t0)))
				break
			}
			if res.Timestamp.Before(t0) {
				bad("timestamp_before_attack_start", "a result's timestamp precedes the start of the attack", ">= 0", fmt.Sprint(res.Timestamp.Sub(t0)))
				break
			}
			if res.Latency < 0 {
				bad("negative_latency", "negative latency", ">= 0", fmt.Sprint(res.Latency))
				break
			}
			if !res.End().Equal(res.Timestamp.Add(res.Latency)) {
				bad("end_not_timestamp_plus_latency", "End() differs from Timestamp+Latency", "", "")
				break
			}
		}
	}
}

// slowTailRuns: real attacks (real transport) with a -max-body limit against a server that sends the first bytes of
// each response at once and the rest after a pause. The exchange — and with it "the time the transport took" — lasts
// until the server has sent the whole response: the server's own clock (arrival of the request → handler returned,
// same machine) is a LOWER bound of it, and every latency must be at least that long, whatever part of the body the
// attack keeps.
func slowTailRuns(c *run.Ctx, s *kit.Summary, r *kit.Rng) {
	for i := 0; i < c.N(3, 30); i++ {
		pause := time.Duration(80+r.Pick(120)) * time.Millisecond
		var mu sync.Mutex
		took := map[uint64]time.Duration{}
		srv := httptest.NewServer(http.HandlerFunc(func(rw http.ResponseWriter, rq *http.Request) {
			t := time.Now()
			seq, err := strconv.ParseUint(rq.Header.Get("X-Vegeta-Seq"), 10, 64)
			rw.Header().Set("Content-Length", "72")
			rw.Write([]byte("12345678"))
			if f, ok := rw.(http.Flusher); ok {
				f.Flush()
			}
			time.Sleep(pause)
			rw.Write(bytes.Repeat([]byte("x"), 64))
			if err == nil {
				mu.Lock()
				took[seq] = time.Since(t)
				mu.Unlock()
			}
		}))
		maxBody := []int64{4, 0, 8, -1, 7, 72, 100}[i%7]
		workers := uint64(1 + r.Pick(4))
		atk := vegeta.NewAttacker(vegeta.Workers(workers), vegeta.MaxWorkers(workers), vegeta.MaxBody(maxBody), vegeta.KeepAlive(i%2 == 0), vegeta.Timeout(20*time.Second))
		var results []*vegeta.Result
		hits := uint64(4 + r.Pick(6))
		for res := range atk.Attack(vegeta.NewStaticTargeter(vegeta.Target{Method: "GET", URL: srv.URL + "/"}), limitPacer{hits}, 0, "c05tail") {
			results = append(results, res)
		}
		// the handlers of responses whose rest nobody waited for may still be running
		time.Sleep(pause + 50*time.Millisecond)
		srv.Close()
		s.Count(fmt.Sprintf("slowtail:max_body=%d", maxBody))
		in := map[string]interface{}{"scenario": "72-byte responses: 8 bytes at once, the rest after " + pause.String(), "max_body": maxBody, "workers": workers, "hits": hits}
		for _, res := range results {
			s.Case(fmt.Sprint("slowtail:", i, ":", res.Seq), true)
			mu.Lock()
			d, ok := took[res.Seq]
			mu.Unlock()
			if !ok || res.Code != 200 || res.Error != "" {
				continue
			}
			if res.Latency < d {
				s.Violate(kit.Violation{Kind: "latency_below_transport_time", What: "slow response tail: latency smaller than the time the exchange took at the server (request arrived → whole response sent)",
					Input: in, Expected: ">= " + d.String(), Observed: fmt.Sprintf("seq %d: %s", res.Seq, res.Latency)})
				break
			}
			if !res.End().Equal(res.Timestamp.Add(res.Latency)) {
				s.Violate(kit.Violation{Kind: "end_not_timestamp_plus_latency", What: "slow response tail: End() differs from Timestamp+Latency", Input: in})
				break
			}
		}
	}
}
