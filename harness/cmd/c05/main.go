// C05 harness: sequence order and timestamp order of results agree; timestamps, transport
// instants and latencies are consistent. Stress on all cores with 1..256 workers at unlimited
// rate; every run's per-hit instants are also checked against the Lean model's clock invariants.
package main

import (
	"bytes"
	"encoding/json"
	"fmt"
	"io"
	"net/http"
	"os"
	"os/exec"
	"path/filepath"
	"sort"
	"strconv"
	"strings"
	"sync"
	"sync/atomic"
	"time"

	vegeta "github.com/tsenart/vegeta/v12/lib"
	"vharness/attackctl"
	"vharness/kit"
	"vharness/run"
)

func main() { run.Main("C05", runC05) }

type hitObs struct{ entry, exit time.Time }

type caseC05 struct {
	Workers uint64 `json:"workers"`
	Max     uint64 `json:"max"`
	Hits    uint64 `json:"hits"`
	Spin    int    `json:"spin"`
	// failure mix: every FailEvery-th hit fails inside the transport (0 = never) in the given way
	FailEvery uint64 `json:"fail_every"`
	FailKind  string `json:"fail_kind"`  // "error" | "timeout_error" | "client_timeout"
	TimeoutNs int64  `json:"timeout_ns"` // http.Client.Timeout (0 = none)
	BadEvery  uint64 `json:"bad_every"`  // every n-th target cannot be built into a request (0 = never)
	DryAfter  uint64 `json:"dry_after"`  // the targeter reports ErrNoTargets after this many draws (0 = never)
	// targets that already carry the two correlation headers (replayed from captured vegeta traffic): numbers in
	// DEScending order of use — the attack numbers its hits itself, whatever the targets say
	PresetSeq bool `json:"targets_carry_x_vegeta_seq"`
}

// timeoutErr is a transport error whose Timeout() is true (dial / TLS / header timeouts look like this).
type timeoutErr struct{}

func (timeoutErr) Error() string   { return "verif: i/o timeout" }
func (timeoutErr) Timeout() bool   { return true }
func (timeoutErr) Temporary() bool { return true }

type failRT struct {
	cs  *caseC05
	rec func(seq uint64, entry, exit time.Time)
}

func (t failRT) RoundTrip(req *http.Request) (*http.Response, error) {
	seq, _ := strconv.ParseUint(req.Header.Get("X-Vegeta-Seq"), 10, 64)
	entry := time.Now()
	var err error
	if t.cs.FailEvery > 0 && seq%t.cs.FailEvery == 0 {
		switch t.cs.FailKind {
		case "error":
			time.Sleep(time.Duration(200+seq%7*100) * time.Microsecond)
			err = fmt.Errorf("verif: connection reset")
		case "timeout_error":
			time.Sleep(time.Duration(300+seq%5*200) * time.Microsecond)
			err = timeoutErr{}
		case "client_timeout":
			<-req.Context().Done() // the client's overall timeout fires
			err = req.Context().Err()
		}
	} else {
		for k := 0; k < t.cs.Spin*100; k++ {
			_ = k * k
		}
	}
	exit := time.Now()
	t.rec(seq, entry, exit)
	if err != nil {
		return nil, err
	}
	return &http.Response{StatusCode: 200, Status: "200 OK", Proto: "HTTP/1.1", ProtoMajor: 1, ProtoMinor: 1,
		Header: http.Header{}, Body: io.NopCloser(bytes.NewReader(nil)), Request: req}, nil
}

type limitPacer struct{ n uint64 }

func (p limitPacer) Pace(_ time.Duration, hits uint64) (time.Duration, bool) { return 0, hits >= p.n }
func (p limitPacer) Rate(time.Duration) float64                              { return 0 }

func runC05(c *run.Ctx, s *kit.Summary) {
	r := kit.NewRng(c.Seed)
	s.Rule = "attacks at unlimited rate with 1..256 workers and 200..5000 hits through a fake transport that records monotonic entry/exit instants; every result is a case; non-trivial = result of a run with >= 2 workers"
	st := &kit.Stream{Name: "c05.hits"}
	runs := c.N(60, 1500)
	raceChild := os.Getenv("VH_C05_CHILD") == "race"
	if raceChild {
		runs = c.N(10, 200)
	}
	total := 0
	for i := 0; i < runs; i++ {
		cs := caseC05{Workers: uint64(1 << uint(r.Pick(9))), Hits: uint64(200 + r.Pick(c.N(3000, 5000))), Spin: r.Pick(3)}
		cs.Max = cs.Workers
		if r.Chance(0.3) {
			cs.Max = cs.Workers + uint64(r.Pick(64))
		}
		if r.Chance(0.5) {
			cs.FailEvery = uint64(2 + r.Pick(9))
			cs.FailKind = r.PickStr([]string{"error", "timeout_error", "client_timeout"})
			if cs.FailKind == "client_timeout" {
				cs.TimeoutNs = r.Range(1, 4) * 1000000
				cs.Hits = uint64(200 + r.Pick(400)) // each failing hit costs a timeout
			} else if r.Chance(0.5) {
				cs.TimeoutNs = 50000000
			}
		}
		var mu sync.Mutex
		obs := map[uint64]*hitObs{}
		client := &http.Client{Transport: failRT{&cs, func(seq uint64, entry, exit time.Time) {
			mu.Lock()
			obs[seq] = &hitObs{entry, exit}
			mu.Unlock()
		}}}
		// vegeta.Timeout after vegeta.Client sets the overall timeout of the supplied client
		atk := vegeta.NewAttacker(vegeta.Workers(cs.Workers), vegeta.MaxWorkers(cs.Max), vegeta.Client(client),
			vegeta.Timeout(time.Duration(cs.TimeoutNs)))
		s.Count("fail_kind=" + cs.FailKind)
		// some hits return before the transport: every BadEvery-th target cannot be turned into a request
		// (bad method / URL), and the targeter may run dry near the end (which also stops the attack)
		if r.Chance(0.5) {
			cs.BadEvery = uint64(2 + r.Pick(7))
		}
		cs.PresetSeq = i%4 == 3
		if r.Chance(0.3) {
			cs.DryAfter = cs.Hits - uint64(r.Pick(50))
		}
		var drawn uint64
		tr := vegeta.Targeter(func(t *vegeta.Target) error {
			n := atomic.AddUint64(&drawn, 1)
			if cs.DryAfter > 0 && n > cs.DryAfter {
				return vegeta.ErrNoTargets
			}
			t.Method, t.URL = "GET", "http://verif.invalid/"
			if cs.PresetSeq {
				t.Header = http.Header{"X-Vegeta-Seq": []string{strconv.FormatUint(1000000-n%1000, 10)}, "X-Vegeta-Attack": []string{"captured"}}
			}
			if cs.BadEvery > 0 && n%cs.BadEvery == 0 {
				if n%2 == 0 {
					t.URL = "http://[::1" // url.Parse fails
				} else {
					t.Method = "BAD METHOD" // http.NewRequest rejects it
				}
			}
			return nil
		})
		s.Count(fmt.Sprintf("early_return:bad_every=%v,dry=%v", cs.BadEvery > 0, cs.DryAfter > 0))
		s.Count(fmt.Sprintf("targets_carry_x_vegeta_seq=%v", cs.PresetSeq))
		t0 := time.Now()
		var results []*vegeta.Result
		for res := range atk.Attack(tr, limitPacer{cs.Hits}, 0, "c05") {
			results = append(results, res)
		}
		sort.Slice(results, func(a, b int) bool { return results[a].Seq < results[b].Seq })
		s.Count(fmt.Sprintf("workers=%d", cs.Workers))
		viol := func(kind, what, exp, got string) {
			s.Violate(kit.Violation{Kind: kind, What: what, Input: cs, Expected: exp, Observed: got})
		}
		var sb strings.Builder
		fmt.Fprintf(&sb, "c05.hits %d", len(results))
		seqOdd := false
		for j, res := range results {
			total++
			s.Case(fmt.Sprint(i, ":", res.Seq), cs.Workers >= 2)
			h := obs[res.Seq]
			ts := res.Timestamp.Sub(t0)
			if res.Seq != uint64(j) && !seqOdd {
				// "exactly 0..n-1" is C02's clause; this property compares results pairwise by sequence number. The run
				// is still judged below (pairs with different sequence numbers); the oddity itself is a broken tie.
				seqOdd = true
				s.Diverge("sibling-property:seq_gap_or_duplicate", fmt.Sprint(cs), fmt.Sprint("position ", j, " has sequence number ", res.Seq), "sequence numbers 0..n-1 (C02)")
			}
			if j > 0 && res.Seq == results[j-1].Seq {
				continue // two results with the same number: no smaller one, nothing to compare
			}
			if j > 0 && res.Timestamp.Before(results[j-1].Timestamp) {
				viol("seq_order_disagrees_with_timestamp_order", "a result with a larger sequence number has an earlier timestamp",
					fmt.Sprint(">= ", results[j-1].Timestamp.Sub(t0)), fmt.Sprint(ts))
			}
			if ts < 0 {
				viol("timestamp_before_attack_start", "a result's timestamp precedes the start of the attack", ">= 0", fmt.Sprint(ts))
			}
			if res.Latency < 0 {
				viol("negative_latency", "negative latency", ">= 0", fmt.Sprint(res.Latency))
			}
			if !res.End().Equal(res.Timestamp.Add(res.Latency)) {
				viol("end_not_timestamp_plus_latency", "End() differs from Timestamp+Latency", "", "")
			}
			e, l := "-", "-"
			if h != nil {
				if h.entry.Before(res.Timestamp) {
					viol("timestamp_after_transport_entry", "the timestamp is later than the instant the request reached the transport",
						"<= "+fmt.Sprint(h.entry.Sub(t0)), fmt.Sprint(ts))
				}
				if res.Latency < h.exit.Sub(h.entry) {
					viol("latency_below_transport_time", "latency smaller than the time the transport took", ">= "+fmt.Sprint(h.exit.Sub(h.entry)), fmt.Sprint(res.Latency))
				}
				e = strconv.FormatInt(int64(h.entry.Sub(t0)), 10)
				l = strconv.FormatInt(int64(h.exit.Sub(t0)), 10)
			}
			if ts >= 0 && res.Latency >= 0 {
				fmt.Fprintf(&sb, " %d %d %s %s %d", res.Seq, int64(ts), e, l, int64(ts+res.Latency))
			}
		}
		if i < 2 && len(results) > 2 {
			s.Sample(map[string]interface{}{"case": cs, "first_results": []string{fmt.Sprint(results[0].Seq, results[0].Timestamp.Sub(t0), results[0].Latency),
				fmt.Sprint(results[1].Seq, results[1].Timestamp.Sub(t0), results[1].Latency)}})
		}
		st.Add(sb.String(), "ok")
	}
	s.Extra["results_checked"] = total
	st.Diff(c.Driver, s)
	if c.Replay == "" {
		realTransportRuns(c, s, r)
		cliRuns(c, s, r)
		cliRepeatedRun(c, s, r)
		flakyRuns(c, s, r)
		slowTailRuns(c, s, r)
	}
	if !raceChild && c.Replay == "" {
		raceRun(c, s)
	}
}

// raceRun repeats a part of the stress in a build of this harness with the race detector (the property
// quantifies over runs "with and without the race detector"): the same predicate is evaluated there; a
// race report itself breaks the tie to the model (whose critical section presupposes race freedom).
func raceRun(c *run.Ctx, s *kit.Summary) {
	bin := filepath.Join(c.Work, "vh_c05_race")
	cmd := exec.Command("go", "build", "-race", "-tags", "verif", "-o", bin, "./cmd/c05")
	cmd.Dir = attackctl.HarnessDir()
	cmd.Env = append(os.Environ(), "GOFLAGS=-mod=mod", "GOPROXY=off", "GOSUMDB=off", "GOTOOLCHAIN=local", "CGO_ENABLED=1")
	if out, err := cmd.CombinedOutput(); err != nil {
		s.Skipped["race_detector_build_failed"]++
		s.Extra["race_detector"] = "not run: go build -race failed: " + err.Error() + ": " + tail(string(out), 600)
		return
	}
	out := filepath.Join(c.Work, "race_summary.json")
	logp := filepath.Join(c.Work, "race_report")
	os.MkdirAll(filepath.Join(c.Work, "racework"), 0o755)
	child := exec.Command(bin, "-seed", strconv.FormatInt(c.Seed+7, 10), "-tier", c.Tier, "-work", filepath.Join(c.Work, "racework"),
		"-out", out, "-scale", strconv.FormatFloat(c.Scale, 'g', -1, 64), "-driver", c.Driver)
	child.Env = append(os.Environ(), "VH_C05_CHILD=race", "GORACE=halt_on_error=0 exitcode=0 log_path="+logp)
	if cout, err := child.CombinedOutput(); err != nil {
		s.Diverge("c05.race_build", "stress in the -race build", err.Error()+": "+tail(string(cout), 800), "completes")
		return
	}
	var cs kit.Summary
	if b, err := os.ReadFile(out); err == nil {
		json.Unmarshal(b, &cs)
	}
	for k, v := range cs.Dist {
		s.CountN("race_build:"+k, v)
	}
	for _, v := range cs.Violations {
		v.What = "(race build) " + v.What
		s.Violate(v)
	}
	for _, d := range cs.Divergences {
		s.Diverge("race_build:"+d.Stream, d.Op, d.Impl, d.Model)
	}
	s.Evaluations += cs.Evaluations
	reports, _ := filepath.Glob(logp + ".*")
	nrep, nown := 0, 0
	for _, p := range reports {
		b, _ := os.ReadFile(p)
		for _, rep := range strings.Split(string(b), "==================") {
			if !strings.Contains(rep, "WARNING: DATA RACE") {
				continue
			}
			tops := attackctl.AccessFrames(rep)
			own := len(tops) >= 2
			for _, t := range tops {
				if !strings.HasPrefix(t, "vharness/") && !strings.HasPrefix(t, "main.") {
					own = false
				}
			}
			if own {
				nown++
				continue
			}
			nrep++
			s.Diverge("attack.race_free", "stress under the race detector; conflicting accesses: "+strings.Join(tops, " | "), tail(rep, 3000),
				"no data race (the model's critical section presupposes a data-race-free hit path)")
		}
	}
	s.Extra["race_detector"] = fmt.Sprintf("ran: %d results checked in the -race build, %d race reports (%d inside the harness itself, ignored)", cs.Evaluations, nrep, nown)
}

func tail(s string, n int) string {
	if len(s) > n {
		return s[len(s)-n:]
	}
	return s
}
