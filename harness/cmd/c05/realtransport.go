package main

import (
	"fmt"
	"net/http"
	"net/http/httptest"
	"net/url"
	"sort"
	"strconv"
	"sync"
	"time"

	vegeta "github.com/tsenart/vegeta/v12/lib"
	"vharness/kit"
	"vharness/run"
)

// realTransportRuns: the same predicate on attacks that go through the attacker's OWN http.Transport against a
// loopback server, with and without a per-host connection limit (so that hits queue inside the transport).
// The instant a request reaches the transport is observed through the transport's Proxy callback (called at
// the start of every round trip), keyed by the X-Vegeta-Seq header.
func realTransportRuns(c *run.Ctx, s *kit.Summary, r *kit.Rng) {
	srv := httptest.NewServer(http.HandlerFunc(func(w http.ResponseWriter, _ *http.Request) {
		time.Sleep(3 * time.Millisecond)
		fmt.Fprint(w, "ok")
	}))
	defer srv.Close()
	n := c.N(4, 40)
	for i := 0; i < n; i++ {
		maxConns := []int{0, 1, 2, 4}[i%4]
		workers := uint64(2 + r.Pick(10))
		hits := uint64(30 + r.Pick(60))
		var mu sync.Mutex
		entry := map[uint64]time.Time{}
		proxy := func(req *http.Request) (*url.URL, error) {
			if q, err := strconv.ParseUint(req.Header.Get("X-Vegeta-Seq"), 10, 64); err == nil {
				now := time.Now()
				mu.Lock()
				if _, seen := entry[q]; !seen {
					entry[q] = now
				}
				mu.Unlock()
			}
			return nil, nil
		}
		opts := []func(*vegeta.Attacker){vegeta.Workers(workers), vegeta.MaxWorkers(workers), vegeta.Proxy(proxy), vegeta.HTTP2(false), vegeta.KeepAlive(i%8 < 4)}
		if maxConns > 0 {
			opts = append(opts, vegeta.MaxConnections(maxConns))
		}
		atk := vegeta.NewAttacker(opts...)
		tr := vegeta.NewStaticTargeter(vegeta.Target{Method: "GET", URL: srv.URL + "/"})
		t0 := time.Now()
		var results []*vegeta.Result
		for res := range atk.Attack(tr, limitPacer{hits}, 0, "c05real") {
			results = append(results, res)
		}
		sort.Slice(results, func(a, b int) bool { return results[a].Seq < results[b].Seq })
		in := map[string]interface{}{"scenario": "attacker's own http.Transport against a loopback server", "max_connections_per_host": maxConns, "workers": workers, "hits": hits}
		s.Count(fmt.Sprintf("real_transport:max_connections=%d", maxConns))
		viol := func(kind, what, exp, got string) {
			s.Violate(kit.Violation{Kind: kind, What: "(real transport) " + what, Input: in, Expected: exp, Observed: got})
		}
		for j, res := range results {
			s.Case(fmt.Sprint("real:", i, ":", res.Seq), true)
			ts := res.Timestamp.Sub(t0)
			if j > 0 && res.Seq == results[j-1].Seq {
				continue // same number twice is C02's business; nothing to compare here
			}
			if j > 0 && res.Timestamp.Before(results[j-1].Timestamp) {
				viol("seq_order_disagrees_with_timestamp_order", "a result with a larger sequence number has an earlier timestamp",
					fmt.Sprint(">= ", results[j-1].Timestamp.Sub(t0)), fmt.Sprint(ts))
			}
			if ts < 0 {
				viol("timestamp_before_attack_start", "a result's timestamp precedes the start of the attack", ">= 0", fmt.Sprint(ts))
			}
			if res.Latency < 0 {
				viol("negative_latency", "negative latency", ">= 0", fmt.Sprint(res.Latency))
			}
			mu.Lock()
			e, ok := entry[res.Seq]
			mu.Unlock()
			if ok && e.Before(res.Timestamp) {
				viol("timestamp_after_transport_entry", "the timestamp is later than the instant the request reached the transport",
					"<= "+fmt.Sprint(e.Sub(t0)), fmt.Sprint(ts))
			}
			if ok && res.Error == "" && res.End().Before(e) {
				viol("latency_below_transport_time", "the result ends before its request reached the transport", ">= "+fmt.Sprint(e.Sub(t0)), fmt.Sprint(res.End().Sub(t0)))
			}
		}
	}
}
