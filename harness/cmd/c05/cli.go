package main

import (
	"bytes"
	"fmt"
	"io"
	"net/http"
	"net/http/httptest"
	"os"
	"os/exec"
	"path/filepath"
	"sort"
	"strconv"
	"strings"
	"sync"
	"time"

	vegeta "github.com/tsenart/vegeta/v12/lib"

	"vharness/kit"
	"vharness/run"
)

// cliRuns: the property as a user of the command line meets it. The real `vegeta attack` runs against a local
// server that holds back the FIRST hit (and a few others), so results are written in completion order, not in
// sequence order; the results file — and what `vegeta encode` makes of it in every format, one and two hops — is
// then held to the same clauses: sorted by sequence number the timestamps do not decrease, every timestamp is at or
// after the start and not later than the arrival of its request at the server (the same machine's clock, and the
// request reaches the server after it reached the transport), latency is at least the time the server held the
// request, end = timestamp + latency.
func cliRuns(c *run.Ctx, s *kit.Summary, r *kit.Rng) {
	if _, err := os.Stat(c.Vegeta); err != nil {
		s.Skipped["cli: no vegeta binary"]++
		return
	}
	for i := 0; i < c.N(2, 12); i++ {
		type seen struct{ arrive, leave time.Time }
		var mu sync.Mutex
		at := map[uint64]seen{}
		slowEvery := uint64(r.Range(5, 9))
		srv := httptest.NewServer(http.HandlerFunc(func(rw http.ResponseWriter, rq *http.Request) {
			t := time.Now()
			seq, err := strconv.ParseUint(rq.Header.Get("X-Vegeta-Seq"), 10, 64)
			hold := time.Duration(0)
			if err == nil && seq == 0 {
				hold = 250 * time.Millisecond // hit 0 completes after many later ones
			} else if err == nil && seq%slowEvery == 0 {
				hold = 40 * time.Millisecond
			}
			time.Sleep(hold)
			if seq%3 == 0 {
				fmt.Fprint(rw, "body-", seq) // some results with a body, some without; codes 200 and 0-length
			}
			if err == nil {
				mu.Lock()
				at[seq] = seen{t, time.Now()}
				mu.Unlock()
			}
		}))
		workers := []int{2, 4, 8, 16}[r.Pick(4)]
		rate := []string{"80/s", "150/s", "0"}[r.Pick(3)]
		base := filepath.Join(c.Work, fmt.Sprintf("c05-cli-%d", i))
		gob := base + ".gob"
		flags := []string{"attack", "-name", "c05cli", "-rate=" + rate, "-duration=400ms", fmt.Sprintf("-workers=%d", workers), "-output", gob}
		if rate == "0" {
			flags = append(flags, fmt.Sprintf("-max-workers=%d", workers))
		}
		cmd := exec.Command(c.Vegeta, flags...)
		cmd.Env = append(os.Environ(), "VEGETA_VERIF_DRIVER=")
		cmd.Stdin = strings.NewReader("GET " + srv.URL + "/\n")
		var errb bytes.Buffer
		cmd.Stderr = &errb
		t0 := time.Now()
		done := make(chan error, 1)
		if err := cmd.Start(); err != nil {
			s.Skipped["cli: cannot start vegeta"]++
			srv.Close()
			continue
		}
		go func() { done <- cmd.Wait() }()
		select {
		case err := <-done:
			if err != nil {
				s.Skipped["cli: attack command failed"]++
				srv.Close()
				continue
			}
		case <-time.After(60 * time.Second):
			cmd.Process.Kill()
			<-done
			s.Skipped["cli: attack command did not end (C04's subject)"]++
			srv.Close()
			continue
		}
		srv.Close()
		in := map[string]interface{}{"command": "vegeta " + strings.Join(flags, " "), "server": "holds hit 0 for 250ms and every " + fmt.Sprint(slowEvery) + "th for 40ms"}
		files := map[string]string{"attack output (gob)": gob}
		// what `vegeta encode` makes of it: one hop to every format, and a second hop back
		hop := func(label, from, to, ext string) {
			out := base + "." + ext
			e := exec.Command(c.Vegeta, "encode", "-to", to, "-output", out, from)
			e.Env = append(os.Environ(), "VEGETA_VERIF_DRIVER=")
			if b, err := e.CombinedOutput(); err != nil {
				s.Skipped["cli: encode command failed (C07's subject)"]++
				_ = b
				return
			}
			files[label] = out
		}
		hop("encode -to json", gob, "json", "json")
		hop("encode -to csv", gob, "csv", "csv")
		hop("encode -to gob", gob, "gob", "2.gob")
		if _, ok := files["encode -to json"]; ok {
			hop("encode -to json | encode -to csv", base+".json", "csv", "2.csv")
		}
		s.Count("cli:attack_and_encode_runs")
		labels := make([]string, 0, len(files))
		for k := range files {
			labels = append(labels, k)
		}
		sort.Strings(labels)
		for _, label := range labels {
			f, err := os.Open(files[label])
			if err != nil {
				s.Skipped["cli: output not readable"]++
				continue
			}
			dec := vegeta.DecoderFor(f)
			var results []*vegeta.Result
			for dec != nil {
				var res vegeta.Result
				if err := dec.Decode(&res); err != nil {
					if err != io.EOF {
						s.Count("cli:decode_error(C07's subject)")
					}
					break
				}
				results = append(results, &res)
			}
			f.Close()
			if len(results) < 3 {
				s.Skipped["cli: fewer than three results"]++
				continue
			}
			outOfOrder := false
			for j := 1; j < len(results); j++ {
				if results[j].Seq < results[j-1].Seq {
					outOfOrder = true
				}
			}
			s.Count(fmt.Sprintf("cli:%s:file_in_completion_order_not_seq_order=%v", strings.SplitN(label, " ", 2)[0], outOfOrder))
			sort.SliceStable(results, func(a, b int) bool {
				if results[a].Seq != results[b].Seq {
					return results[a].Seq < results[b].Seq
				}
				return results[a].Timestamp.Before(results[b].Timestamp)
			})
			viol := func(kind, what, exp, got string) {
				inn := map[string]interface{}{"run": in, "read_from": label, "results": len(results)}
				s.Violate(kit.Violation{Kind: kind, What: "command line: " + what, Input: inn, Expected: exp, Observed: got})
			}
			for j, res := range results {
				s.Case(fmt.Sprint("cli:", i, ":", label, ":", res.Seq), workers >= 2)
				if j > 0 && res.Seq != results[j-1].Seq && res.Timestamp.Before(results[j-1].Timestamp) {
					viol("seq_order_disagrees_with_timestamp_order", "a result with a larger sequence number has an earlier timestamp",
						fmt.Sprintf("seq %d: >= %s (seq %d)", res.Seq, results[j-1].Timestamp.Format(time.RFC3339Nano), results[j-1].Seq), res.Timestamp.Format(time.RFC3339Nano))
					break
				}
				if res.Timestamp.Before(t0) {
					viol("timestamp_before_attack_start", "a result's timestamp precedes the start of the attack command", ">= "+t0.Format(time.RFC3339Nano), res.Timestamp.Format(time.RFC3339Nano))
					break
				}
				if res.Latency < 0 {
					viol("negative_latency", "negative latency", ">= 0", fmt.Sprint(res.Latency))
					break
				}
				if !res.End().Equal(res.Timestamp.Add(res.Latency)) {
					viol("end_not_timestamp_plus_latency", "End() differs from Timestamp+Latency", "", "")
					break
				}
				mu.Lock()
				h, ok := at[res.Seq]
				mu.Unlock()
				if !ok || (j > 0 && res.Seq == results[j-1].Seq) || (j+1 < len(results) && res.Seq == results[j+1].Seq) {
					continue // a number the server never saw, or seen twice: which record is which cannot be told (C02's subject)
				}
				if res.Code == 200 && h.arrive.Before(res.Timestamp) {
					viol("timestamp_after_transport_entry", "the timestamp is later than the instant the request arrived at the server (it reached the transport before that)",
						"<= "+h.arrive.Format(time.RFC3339Nano), res.Timestamp.Format(time.RFC3339Nano))
					break
				}
				if res.Code == 200 && res.Latency < h.leave.Sub(h.arrive) {
					viol("latency_below_transport_time", "latency smaller than the time the server held the request", ">= "+fmt.Sprint(h.leave.Sub(h.arrive)), fmt.Sprint(res.Latency))
					break
				}
			}
		}
		for _, p := range files {
			os.Remove(p)
		}
	}
}

// cliRepeatedRun: the same attack command run twice with the same -output file, the second run shorter. What the
// file holds afterwards are the results of the second attack: every timestamp at or after ITS start, sequence and
// timestamp order in agreement. (Records of equal sequence number have equal size in both runs — one server, one
// URL, latencies of one magnitude, no bodies — so a tail left over from the first run would decode cleanly.)
func cliRepeatedRun(c *run.Ctx, s *kit.Summary, r *kit.Rng) {
	if _, err := os.Stat(c.Vegeta); err != nil {
		s.Skipped["cli: no vegeta binary"]++
		return
	}
	for i := 0; i < c.N(1, 6); i++ {
		srv := httptest.NewServer(http.HandlerFunc(func(rw http.ResponseWriter, rq *http.Request) {
			time.Sleep(30 * time.Millisecond)
		}))
		out := filepath.Join(c.Work, fmt.Sprintf("c05-repeat-%d.gob", i))
		workers := []int{2, 4, 8}[r.Pick(3)]
		runOnce := func(du string) (time.Time, bool) {
			t0 := time.Now()
			cmd := exec.Command(c.Vegeta, "attack", "-name", "c05repeat", "-rate=100/s", "-duration="+du, fmt.Sprintf("-workers=%d", workers), "-output", out)
			cmd.Env = append(os.Environ(), "VEGETA_VERIF_DRIVER=")
			cmd.Stdin = strings.NewReader("GET " + srv.URL + "/\n")
			done := make(chan error, 1)
			if err := cmd.Start(); err != nil {
				return t0, false
			}
			go func() { done <- cmd.Wait() }()
			select {
			case err := <-done:
				return t0, err == nil
			case <-time.After(60 * time.Second):
				cmd.Process.Kill()
				<-done
				return t0, false
			}
		}
		if _, ok := runOnce("700ms"); !ok {
			s.Skipped["cli: attack command failed"]++
			srv.Close()
			continue
		}
		st1, _ := os.Stat(out)
		t0, ok := runOnce("250ms")
		srv.Close()
		if !ok {
			s.Skipped["cli: attack command failed"]++
			continue
		}
		s.Count("cli:attack_repeated_onto_the_same_output_file")
		f, err := os.Open(out)
		if err != nil {
			s.Skipped["cli: output not readable"]++
			continue
		}
		var results []*vegeta.Result
		dec := vegeta.NewDecoder(f)
		for {
			var res vegeta.Result
			if err := dec.Decode(&res); err != nil {
				if err != io.EOF {
					s.Count("cli:decode_error(C07's subject)")
				}
				break
			}
			results = append(results, &res)
		}
		f.Close()
		os.Remove(out)
		in := map[string]interface{}{"command": fmt.Sprintf("vegeta attack -name c05repeat -rate=100/s -duration=700ms -workers=%d -output F; then the same with -duration=250ms and the same F", workers),
			"size_of_F_after_first_run": st1.Size(), "results_read_from_F": len(results)}
		sort.SliceStable(results, func(a, b int) bool {
			if results[a].Seq != results[b].Seq {
				return results[a].Seq < results[b].Seq
			}
			return results[a].Timestamp.Before(results[b].Timestamp)
		})
		for j, res := range results {
			s.Case(fmt.Sprint("cli-repeat:", i, ":", res.Seq), true)
			if res.Timestamp.Before(t0) {
				s.Violate(kit.Violation{Kind: "timestamp_before_attack_start", What: "command line: the output of an attack holds a result whose timestamp precedes the start of that attack", Input: in,
					Expected: ">= " + t0.Format(time.RFC3339Nano), Observed: fmt.Sprintf("seq %d: %s", res.Seq, res.Timestamp.Format(time.RFC3339Nano))})
				break
			}
			if j > 0 && res.Seq != results[j-1].Seq && res.Timestamp.Before(results[j-1].Timestamp) {
				s.Violate(kit.Violation{Kind: "seq_order_disagrees_with_timestamp_order", What: "command line: a result with a larger sequence number has an earlier timestamp", Input: in,
					Expected: ">= " + results[j-1].Timestamp.Format(time.RFC3339Nano), Observed: fmt.Sprintf("seq %d: %s", res.Seq, res.Timestamp.Format(time.RFC3339Nano))})
				break
			}
		}
	}
}
