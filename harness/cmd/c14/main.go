// Harness of property C14: target files decode to exactly the targets they describe,
// independently (http and JSON format, default merge, aliasing, encoder round trip, ReadAllTargets).
package main

import (
	"bufio"
	"bytes"
	"encoding/json"
	"errors"
	"fmt"
	"io"
	"net/http"
	"net/http/httptest"
	"net/url"
	"os"
	"os/exec"
	"path/filepath"
	"regexp"
	"sort"
	"strconv"
	"strings"
	"sync"
	"time"
	"unicode/utf8"

	vegeta "github.com/tsenart/vegeta/v12/lib"
	"vharness/gen"
	"vharness/kit"
	"vharness/run"
)

func main() { run.Main("C14", runC14) }

// ---------------------------------------------------------------- canonical forms

type tview struct {
	Method, URL string
	Body        []byte
	Header      map[string][]string
}

func snapshot(t *vegeta.Target) tview {
	v := tview{Method: t.Method, URL: t.URL, Body: append([]byte(nil), t.Body...), Header: map[string][]string{}}
	for k, vs := range t.Header {
		v.Header[k] = append([]string{}, vs...)
	}
	return v
}

func copyHeader(h http.Header) map[string][]string {
	m := map[string][]string{}
	for k, vs := range h {
		m[k] = append([]string{}, vs...)
	}
	return m
}

func eqStrs(a, b []string) bool {
	if len(a) != len(b) {
		return false
	}
	for i := range a {
		if a[i] != b[i] {
			return false
		}
	}
	return true
}

func eqHeader(a, b map[string][]string) bool {
	if len(a) != len(b) {
		return false
	}
	for k, vs := range a {
		ws, ok := b[k]
		if !ok || !eqStrs(vs, ws) {
			return false
		}
	}
	return true
}

func eqView(a, b tview) bool {
	return a.Method == b.Method && a.URL == b.URL && bytes.Equal(a.Body, b.Body) && eqHeader(a.Header, b.Header)
}

func showHeader(h map[string][]string) string {
	ks := make([]string, 0, len(h))
	for k := range h {
		ks = append(ks, k)
	}
	sort.Strings(ks)
	var sb strings.Builder
	sb.WriteString(strconv.Itoa(len(ks)))
	for _, k := range ks {
		sb.WriteString(" " + kit.HexS(k) + " " + strconv.Itoa(len(h[k])))
		for _, v := range h[k] {
			sb.WriteString(" " + kit.HexS(v))
		}
	}
	return sb.String()
}

func showView(v tview) string {
	return kit.HexS(v.Method) + " " + kit.HexS(v.URL) + " " + kit.Hex(v.Body) + " " + showHeader(v.Header)
}

func httpErrCode(err error) int {
	if errors.Is(err, vegeta.ErrNoTargets) {
		return 1
	}
	m := err.Error()
	switch {
	case strings.HasPrefix(m, "bad target"):
		return 2
	case strings.HasPrefix(m, "bad method"):
		return 3
	case strings.HasPrefix(m, "bad URL"):
		return 4
	case strings.HasPrefix(m, "bad body"):
		return 5
	case strings.HasPrefix(m, "bad header"):
		return 6
	}
	return 99
}

func jsonErrCode(err error) int {
	switch {
	case errors.Is(err, vegeta.ErrNoTargets):
		return 1
	case errors.Is(err, vegeta.ErrNoMethod):
		return 8
	case errors.Is(err, vegeta.ErrNoURL):
		return 9
	}
	return 7
}

// ---------------------------------------------------------------- cases

type dflt struct {
	Key  string   `json:"key"`
	Vals []string `json:"vals"`
	Cap  int      `json:"cap"`
}

type hdrLine struct {
	Key string `json:"key"`
	Val string `json:"val"`
}

type specTarget struct {
	Method   string    `json:"method"`
	URL      string    `json:"url"`
	Headers  []hdrLine `json:"headers"`
	BodyFile string    `json:"body_file,omitempty"`
	Body     []byte    `json:"body,omitempty"`
	HasBody  bool      `json:"has_body"`
}

type httpCase struct {
	Work        string            `json:"work"` // sandbox directory the paths in Src refer to
	Src         string            `json:"src"`
	DefaultBody []byte            `json:"default_body"`
	Defaults    []dflt            `json:"defaults"`
	Files       map[string][]byte `json:"files"` // path -> content
	Targets     []specTarget      `json:"targets"`
	Legal       bool              `json:"legal"`        // produced by the grammar (not mutated)
	CommentTrap bool              `json:"comment_trap"` // a comment run directly between two bare request lines
	LongLine    int               `json:"long_line,omitempty"`
	NilDefaults bool              `json:"nil_defaults,omitempty"` // the default header map is nil
	Ending      bool              `json:"ending,omitempty"`       // blank / white-space lines after the last target
}

var pads = []string{"", "", "", " ", "  ", "\t", " \t", "\r", "\v", "\f "}

func pad(r *kit.Rng) string { return r.PickStr(pads) }

var methods = []string{"GET", "POST", "PUT", "HEAD", "DELETE", "PATCH", "OPTIONS", "PURGE", "X", "MKCOL"}

func genMethod(r *kit.Rng) string {
	if r.Chance(0.8) {
		return r.PickStr(methods)
	}
	n := 1 + r.Pick(8)
	b := make([]byte, n)
	for i := range b {
		b[i] = byte('A' + r.Pick(26))
	}
	return string(b)
}

func genURL(r *kit.Rng, i int) string {
	for {
		var sb strings.Builder
		sb.WriteString(r.PickStr([]string{"http://", "https://", "http://user:password@", "unix+http://"}))
		sb.WriteString(r.PickStr([]string{"goku", "a", "example.com", "127.0.0.1", "[::1]", "h-" + strconv.Itoa(i)}))
		if r.Chance(0.5) {
			sb.WriteString(":" + strconv.Itoa(1+r.Pick(65535)))
		}
		sb.WriteString("/" + strconv.Itoa(i))
		if r.Chance(0.5) {
			sb.WriteString(r.PickStr([]string{"/path/to/dragon?item=ball", "/x:y", "?q=%20&r=#frag", "/a@b", "/#", "/%7E"}))
		}
		u := sb.String()
		if _, err := url.ParseRequestURI(u); err == nil {
			return u
		}
	}
}

var keyPool = []string{"X-Account-ID", "x-account-id", "Content-Type", "content-type", "CONTENT-TYPE", "Authorization",
	"X", "x", "HOST", "Host", "Confirmation-Token", "a.b_c~d", "X-Tr!ck$", "GET", "K1", "k1", "ETag"}

func genKey(r *kit.Rng) string {
	if r.Chance(0.85) {
		return r.PickStr(keyPool)
	}
	const alpha = "abcdefghijklmnopqrstuvwxyzABCDEFGHIJKLMNOPQRSTUVWXYZ0123456789-_.!$%&'*+^`|~"
	n := 1 + r.Pick(10)
	b := make([]byte, n)
	for i := range b {
		b[i] = alpha[r.Pick(len(alpha))]
	}
	return string(b)
}

var valPool = []string{"8675309", "Token DEADBEEF", "text/plain; charset=utf-8", "a:b:c", "http://x/y", "#notcomment", "@notfile",
	"v w  x", "é ü", "99", "1", "2", "GET http://inside/", "a\tb"}

func genVal(r *kit.Rng) string {
	if r.Chance(0.85) {
		return r.PickStr(valPool)
	}
	return "v" + strconv.Itoa(r.Pick(1000))
}

// sizes straddling bufio's default buffer (4096) and bufio.Scanner's token limit (64 KiB)
var longSizes = []int{4095, 4096, 4097, 8193, 20000, 65400}
var longSizesJSON = []int{4095, 4096, 4097, 8200, 65536, 70000, 140000}

// wantLong > 0: the next generated file carries one line of about that length
var wantLong int

func longText(r *kit.Rng, n int) string {
	const alpha = "abcdefghijklmnopqrstuvwxyz0123456789 :/-"
	b := make([]byte, n)
	for i := range b {
		b[i] = alpha[r.Pick(len(alpha))]
	}
	b[0], b[n-1] = 'L', 'l'
	return string(b)
}

func genComment(r *kit.Rng) string {
	return pad(r) + "#" + r.PickStr([]string{"", " a comment", "GET http://commented/", " X: 1", "@file", "#", " trailing  ", "\tté"}) + pad(r)
}

func genBlank(r *kit.Rng) string {
	return r.PickStr([]string{"", "", "", " ", "\t", "  \t ", "\r", "\v"})
}

func genDefaults(r *kit.Rng) []dflt {
	n := r.Pick(4)
	if r.Chance(0.3) {
		n = 0
	}
	seen := map[string]bool{}
	var ds []dflt
	for i := 0; i < n; i++ {
		k := genKey(r)
		if seen[k] {
			continue
		}
		seen[k] = true
		nv := 1 + r.Pick(3)
		if r.Chance(0.1) {
			nv = 0
		}
		vs := make([]string, nv)
		for j := range vs {
			vs[j] = "d" + strconv.Itoa(j) + genVal(r)
		}
		c := nv
		switch r.Pick(4) {
		case 0:
			c = nv + 3 // make([]string, 1, 4)
		case 1:
			c = nv + 1 + r.Pick(8)
		}
		ds = append(ds, dflt{Key: k, Vals: vs, Cap: c})
	}
	return ds
}

func genBody(r *kit.Rng) []byte {
	switch r.Pick(4) {
	case 0:
		return nil
	case 1:
		return []byte("default body")
	case 2:
		return []byte{0, 1, 2, 0xff, '\n'}
	}
	return []byte("{\"k\": \"v\"}\n")
}

// genHTTPCase renders a targets file from the documented grammar (README "http format"):
// blocks = request line, header lines, optional @file line; a block with header lines and no
// body line ends at a blank line (or EOF); a bare request line may be followed directly by the
// next one; `#` lines may appear anywhere.
func genHTTPCase(r *kit.Rng, work string, id int) httpCase {
	hc := httpCase{Work: work, Files: map[string][]byte{}, Legal: true}
	hc.Defaults = genDefaults(r)
	if len(hc.Defaults) == 0 && r.Chance(0.5) {
		hc.Defaults = []dflt{} // empty but non-nil map (nil otherwise)
	}
	hc.DefaultBody = genBody(r)
	n := 1 + r.Pick(50)
	if r.Chance(0.6) {
		n = 1 + r.Pick(6)
	}
	allowTrap := r.Chance(0.5)
	longAt := -1 // one target of some files carries a header line near a buffer boundary
	if wantLong > 0 {
		if n > 4 {
			n = 1 + r.Pick(4)
		}
		longAt = r.Pick(n)
	}
	var lines []string
	filler := func(max int, blanks bool) (out []string, hasBlank bool) {
		k := r.Pick(max + 1)
		for i := 0; i < k; i++ {
			if blanks && r.Chance(0.5) {
				out = append(out, genBlank(r))
				hasBlank = true
			} else {
				out = append(out, genComment(r))
			}
		}
		return
	}
	prevBare := false // previous block was a bare request line and nothing was emitted after it yet
	for i := 0; i < n; i++ {
		var t specTarget
		t.Method, t.URL = genMethod(r), genURL(r, i)
		// lead: blank and comment lines before the request line
		lead, hasBlank := filler(3, true)
		if prevBare && len(lead) > 0 && !hasBlank {
			// comment run directly between two bare request lines
			if allowTrap {
				hc.CommentTrap = true
			} else if r.Chance(0.5) {
				lead = append([]string{genBlank(r)}, lead...)
			} else {
				lead = nil
			}
		}
		lines = append(lines, lead...)
		lines = append(lines, pad(r)+t.Method+" "+t.URL+pad(r))
		nh := r.Pick(9)
		if r.Chance(0.35) {
			nh = 0
		}
		if i == longAt && nh == 0 {
			nh = 1
		}
		tail := 0 // comment lines after the request line of a block without headers/body
		for j := 0; j < nh; j++ {
			if r.Chance(0.15) {
				lines = append(lines, genComment(r))
			}
			k := genKey(r)
			if len(hc.Defaults) > 0 && r.Chance(0.4) {
				k = hc.Defaults[r.Pick(len(hc.Defaults))].Key
			} else if len(t.Headers) > 0 && r.Chance(0.3) {
				k = t.Headers[r.Pick(len(t.Headers))].Key
			}
			v := genVal(r)
			if i == longAt && j == 0 {
				// the whole line (key, colon, value) lands on or next to the boundary
				sz := wantLong
				v = longText(r, sz-len(k)-2+r.Pick(3))
				hc.LongLine = sz
			}
			t.Headers = append(t.Headers, hdrLine{k, v})
			lines = append(lines, pad(r)+k+":"+r.PickStr([]string{"", " ", " ", "  ", "\t"})+v+pad(r))
		}
		if r.Chance(0.3) {
			// names come from a small pool: the same path carries different payloads in different
			// files of one run (and may be referenced by several targets of one file)
			name := fmt.Sprintf("body_%d.bin", r.Pick(6))
			if r.Chance(0.2) {
				name = fmt.Sprintf("body %d .bin", r.Pick(3)) // spaces inside the path
			}
			p := filepath.Join(work, name)
			content := []byte(fmt.Sprintf("body %d of file %d\n", i, id))
			if r.Chance(0.2) {
				content = []byte{}
			}
			if old, ok := hc.Files[p]; ok {
				content = old
			}
			hc.Files[p] = content
			t.BodyFile, t.Body, t.HasBody = p, content, true
			if nh > 0 && r.Chance(0.3) {
				lines = append(lines, genComment(r))
			}
			lines = append(lines, pad(r)+"@"+p+pad(r))
		}
		last := i == n-1
		switch {
		case t.HasBody:
			prevBare = false
		case nh > 0:
			// must end at a blank line unless last
			cs, _ := filler(2, false)
			lines = append(lines, cs...)
			if !last || r.Chance(0.5) {
				lines = append(lines, genBlank(r))
			}
			prevBare = false
		default:
			prevBare = true
			_ = tail
		}
		hc.Targets = append(hc.Targets, t)
	}
	trail, _ := filler(2, true)
	lines = append(lines, trail...)
	hc.Src = strings.Join(lines, "\n")
	if r.Chance(0.8) {
		hc.Src += "\n"
	}
	if r.Chance(0.3) {
		if !strings.HasSuffix(hc.Src, "\n") {
			hc.Src += "\n"
		}
		hc.Src += r.PickStr(streamEndings)
		hc.Ending = true
	}
	return hc
}

// expected view of target i per the documentation: defaults first, the target's own values
// added; the default body only when the target has none.
func expectedView(hc *httpCase, t specTarget) tview {
	v := tview{Method: t.Method, URL: t.URL, Header: map[string][]string{}}
	for _, d := range hc.Defaults {
		v.Header[d.Key] = append([]string{}, d.Vals...)
	}
	for _, h := range t.Headers {
		v.Header[h.Key] = append(v.Header[h.Key], h.Val)
	}
	if t.HasBody {
		v.Body = t.Body
	} else {
		v.Body = hc.DefaultBody
	}
	return v
}

func mkDefaults(ds []dflt) http.Header {
	if ds == nil {
		return nil
	}
	h := http.Header{}
	for _, d := range ds {
		c := d.Cap
		if c < len(d.Vals) {
			c = len(d.Vals)
		}
		s := make([]string, len(d.Vals), c)
		copy(s, d.Vals)
		h[d.Key] = s
	}
	return h
}

func defaultsOp(ds []dflt) string {
	var sb strings.Builder
	sb.WriteString(strconv.Itoa(len(ds)))
	for _, d := range ds {
		sb.WriteString(" " + kit.HexS(d.Key) + " " + strconv.Itoa(d.Cap) + " " + strconv.Itoa(len(d.Vals)))
		for _, v := range d.Vals {
			sb.WriteString(" " + kit.HexS(v))
		}
	}
	return sb.String()
}

// tables of the external calls, evaluated on every candidate argument the parser can form
func httpTables(src string) (valid string, files string) {
	seenU, seenF := map[string]bool{}, map[string]bool{}
	var us, fs []string
	sc := bufio.NewScanner(strings.NewReader(src))
	sc.Buffer(make([]byte, 1<<16), 1<<26)
	for sc.Scan() {
		line := strings.TrimSpace(sc.Text())
		if tok := strings.SplitN(line, " ", 2); len(tok) == 2 && !seenU[tok[1]] {
			seenU[tok[1]] = true
			if _, err := url.ParseRequestURI(tok[1]); err == nil {
				us = append(us, kit.HexS(tok[1]))
			}
		}
		if strings.HasPrefix(line, "@") && !seenF[line[1:]] {
			seenF[line[1:]] = true
			if safePath(line[1:]) {
				if b, err := os.ReadFile(line[1:]); err == nil {
					fs = append(fs, kit.HexS(line[1:])+" "+kit.Hex(b))
				}
			}
		}
	}
	valid = strconv.Itoa(len(us))
	if len(us) > 0 {
		valid += " " + strings.Join(us, " ")
	}
	files = strconv.Itoa(len(fs))
	if len(fs) > 0 {
		files += " " + strings.Join(fs, " ")
	}
	return
}

// a path the real code may be allowed to open: no device or proc files
func safePath(p string) bool {
	return !strings.HasPrefix(p, "/dev") && !strings.HasPrefix(p, "/proc") && !strings.HasPrefix(p, "/sys")
}

func srcSafe(src string) bool {
	for _, l := range strings.Split(src, "\n") {
		l = strings.TrimSpace(l)
		if strings.HasPrefix(l, "@") && !safePath(l[1:]) {
			return false
		}
	}
	return true
}

type httpRunResult struct {
	line     string
	returned []tview // view at return time of each ok call
	okIdx    []int   // call index of each ok result
	codes    []int   // per call: 0 ok, else error code
	panicked bool
}

// runHTTP drives the real targeter; after EVERY call all earlier targets and the default
// header map are re-inspected (deep copies taken at return time).
func runHTTP(s *kit.Summary, hc *httpCase, ncalls int) httpRunResult {
	var res httpRunResult
	hdr := mkDefaults(hc.Defaults)
	dflt0 := copyHeader(hdr)
	var body []byte
	if hc.DefaultBody != nil {
		body = append([]byte{}, hc.DefaultBody...)
	}
	body0 := append([]byte{}, body...)
	tr := vegeta.NewHTTPTargeter(strings.NewReader(hc.Src), body, hdr)
	var live []*vegeta.Target
	var atReturn, prev []tview
	reported := map[int]bool{}
	var parts []string
	// the property quantifies over well-formed files: on a byte-mutated file nothing is a violation
	// of C14 (crashes on malformed input are C16's subject); the model comparison still runs
	real := s
	if !hc.Legal {
		s = kit.NewSummary("C14", 0, "")
		defer func() { real.CountN("http:outside_domain_not_judged", s.NViol) }()
	}
	for c := 0; c < ncalls; c++ {
		t := &vegeta.Target{}
		var err error
		p, msg := kit.Recover(func() { err = tr(t) })
		if p {
			res.panicked = true
			parts = append(parts, "panic")
			s.Violate(kit.Violation{Kind: "http_targeter_panic", What: "NewHTTPTargeter panicked: " + msg, Input: hc})
			break
		}
		// re-inspect
		var chg []string
		for j, lt := range live {
			now := snapshot(lt)
			if !eqView(now, prev[j]) {
				chg = append(chg, strconv.Itoa(j)+" "+showView(now))
				prev[j] = now
			}
			if !eqView(now, atReturn[j]) && !reported[j] {
				reported[j] = true
				key, spare, rep := aliasKey(hc, atReturn[j], now, t)
				s.Violate(kit.Violation{Kind: "http_default_header_aliasing",
					What:     fmt.Sprintf("target %d changed after call %d (header %q)", j, c, key),
					Input:    hc,
					Expected: showViewText(atReturn[j]), Observed: showViewText(now),
					Key: map[string]interface{}{"spare_capacity": spare, "repeated_default_key": rep}})
			}
		}
		d := "d 0"
		if !eqHeader(copyHeader(hdr), dflt0) || !bytes.Equal(body, body0) {
			d = "d 1"
			s.Violate(kit.Violation{Kind: "http_defaults_changed", What: fmt.Sprintf("default header map or body changed after call %d", c),
				Input: hc, Expected: fmt.Sprint(dflt0), Observed: fmt.Sprint(hdr)})
		}
		cs := "chg " + strconv.Itoa(len(chg))
		if len(chg) > 0 {
			cs += " " + strings.Join(chg, " ")
		}
		if err != nil {
			code := httpErrCode(err)
			res.codes = append(res.codes, code)
			parts = append(parts, "err "+strconv.Itoa(code)+" "+cs+" "+d)
			continue
		}
		res.codes = append(res.codes, 0)
		v := snapshot(t)
		live = append(live, t)
		atReturn = append(atReturn, v)
		prev = append(prev, v)
		res.returned = append(res.returned, v)
		res.okIdx = append(res.okIdx, c)
		parts = append(parts, "ok "+showView(v)+" "+cs+" "+d)
	}
	res.line = strings.Join(parts, " | ")
	crossCheck(s, "http_target_changed_by_later_targeter", hc)
	remember(live, hc)
	if !hc.Legal {
		live = nil
		remember(nil, hc) // targets of a malformed file are not watched any further
	}
	return res
}

func showViewText(v tview) string {
	ks := make([]string, 0, len(v.Header))
	for k := range v.Header {
		ks = append(ks, k)
	}
	sort.Strings(ks)
	var sb strings.Builder
	fmt.Fprintf(&sb, "%s %s body=%q", v.Method, v.URL, v.Body)
	for _, k := range ks {
		fmt.Fprintf(&sb, " %q:%q", k, v.Header[k])
	}
	return sb.String()
}

// aliasKey describes the input feature behind an observed change of an earlier target.
func aliasKey(hc *httpCase, before, now tview, latest *vegeta.Target) (key string, spare, repeated bool) {
	for k, vs := range before.Header {
		if !eqStrs(vs, now.Header[k]) {
			key = k
			break
		}
	}
	for _, d := range hc.Defaults {
		if d.Key == key {
			spare = d.Cap > len(d.Vals)
			repeated = len(before.Header[key]) > len(d.Vals) && len(latest.Header[key]) > len(d.Vals)
		}
	}
	return
}

func httpOp(hc *httpCase, op string, ncalls int) string {
	valid, files := httpTables(hc.Src)
	s := op + " " + kit.Hex(hc.DefaultBody) + " " + defaultsOp(hc.Defaults) + " " + kit.HexS(hc.Src) + " " + valid + " " + files
	if ncalls >= 0 {
		s += " " + strconv.Itoa(ncalls)
	}
	return s
}

func writeFiles(hc *httpCase) {
	for p, b := range hc.Files {
		if err := os.WriteFile(p, b, 0o644); err != nil {
			panic(err)
		}
	}
}

// oracleHTTP: the statement of C14 evaluated on the implementation's outputs.
func oracleHTTP(s *kit.Summary, hc *httpCase, res httpRunResult) {
	if !hc.Legal || res.panicked {
		return
	}
	n := len(hc.Targets)
	bad := ""
	for i := 0; i < n && bad == ""; i++ {
		if i >= len(res.codes) || res.codes[i] != 0 {
			bad = fmt.Sprintf("call %d: expected target %d, got error/none (codes %v)", i, i, res.codes)
			break
		}
	}
	if bad == "" {
		for i := 0; i < n; i++ {
			exp := expectedView(hc, hc.Targets[i])
			if !eqView(exp, res.returned[i]) {
				bad = fmt.Sprintf("target %d: expected %s, got %s", i, showViewText(exp), showViewText(res.returned[i]))
				break
			}
		}
	}
	if bad == "" {
		for c := n; c < len(res.codes); c++ {
			if res.codes[c] != 1 {
				bad = fmt.Sprintf("call %d after the last target: expected ErrNoTargets, got code %d", c, res.codes[c])
				break
			}
		}
	}
	if bad != "" {
		kind := "http_parse_mismatch"
		if hc.CommentTrap {
			kind = "http_comment_after_bare_request_line"
		}
		s.Violate(kit.Violation{Kind: kind, What: "http targets file does not decode to the targets it describes", Input: hc,
			Expected: fmt.Sprintf("%d targets then ErrNoTargets", n), Observed: bad,
			Key: map[string]interface{}{"comment_between_bare_request_lines": hc.CommentTrap}})
	}
}

// ---------------------------------------------------------------- JSON

type jsonCase struct {
	Src         string              `json:"src"`
	DefaultBody []byte              `json:"default_body"`
	Defaults    map[string][]string `json:"defaults"`
	Targets     []tview             `json:"targets"` // expected decoded (own) values, in order
	Legal       bool                `json:"legal"`
	Encoded     bool                `json:"encoded"` // every line was written by NewJSONTargetEncoder
	LongLine    int                 `json:"long_line,omitempty"`
	SpareCap    map[string]int      `json:"spare_cap,omitempty"` // spare capacity of the default value slices
	Mutated     bool                `json:"mutated,omitempty"`   // byte-mutated: outside the property's domain
	Ending      bool                `json:"ending,omitempty"`    // blank / white-space lines after the last target
}

func genJSONTarget(r *kit.Rng, i int, broken bool) vegeta.Target {
	t := vegeta.Target{Method: genMethod(r), URL: genURL(r, i)}
	if r.Chance(0.4) {
		t.Body = []byte(r.PickStr([]string{"Punch!", "{\"a\":1}", "\x00\x01\xfe\xff", "a", "ab", "abc", "abcd", "line\nbreak"}))
	}
	nh := r.Pick(9)
	if r.Chance(0.3) {
		nh = 0
	}
	if nh > 0 {
		t.Header = http.Header{}
		for j := 0; j < nh; j++ {
			k := genKey(r)
			if r.Chance(0.1) {
				k = r.PickStr([]string{"with space", "quo\"te", "back\\slash", "<html>&", "tab\there", "uni sep", "é", "\x01ctl", "bad\xffutf", ""})
			}
			v := genVal(r)
			if r.Chance(0.1) {
				v = r.PickStr([]string{"", "\"", "\\", "\\\\", "\\\"", "</script>", " ", "\xc3", "\xe2\x80", "a\x7fb", "\r\n", "𝄞"})
			}
			if !broken {
				// broken UTF-8 is replaced by the encoder (outside the round-trip claim): only in some files
				k, v = strings.ToValidUTF8(k, "?"), strings.ToValidUTF8(v, "?")
			}
			t.Header[k] = append(t.Header[k], v)
		}
		// a key whose value slice is nil or empty (the encoder writes null / [])
		if r.Chance(0.08) {
			t.Header["Nil-Values"] = nil
		}
		if r.Chance(0.08) {
			t.Header["Empty-Values"] = []string{}
		}
	} else if r.Chance(0.2) {
		t.Header = http.Header{} // empty but not nil
	}
	if t.Body == nil && r.Chance(0.1) {
		t.Body = []byte{} // empty but not nil
	}
	return t
}

// encodeTargets writes all targets through ONE encoder into one buffer (as a producer of a
// targets file does) and returns the line written for each.
func encodeTargets(ts []vegeta.Target) ([]string, error) {
	var lines []string
	var buf bytes.Buffer
	enc := vegeta.NewJSONTargetEncoder(&buf)
	for i := range ts {
		before := buf.Len()
		if err := enc.Encode(&ts[i]); err != nil {
			return nil, err
		}
		lines = append(lines, string(buf.Bytes()[before:]))
	}
	return lines, nil
}

func ownView(t *vegeta.Target) tview {
	v := snapshot(t)
	return v
}

// alternative spelling of a target as a JSON line (other member order, white space, escapes)
func altJSONLine(r *kit.Rng, t *vegeta.Target) string {
	m := map[string]interface{}{"method": t.Method, "url": t.URL}
	if len(t.Body) > 0 {
		m["body"] = t.Body // encoding/json writes base64
	}
	if len(t.Header) > 0 {
		m["header"] = t.Header
	}
	if r.Chance(0.3) {
		m["extra"] = map[string]interface{}{"ignored": []int{1, 2, 3}}
	}
	// explicit nulls for absent members
	if _, ok := m["body"]; !ok && r.Chance(0.3) {
		m["body"] = nil
	}
	if _, ok := m["header"]; !ok && r.Chance(0.3) {
		m["header"] = nil
	}
	var b []byte
	if r.Chance(0.5) {
		b, _ = json.Marshal(m)
	} else {
		var buf bytes.Buffer
		enc := json.NewEncoder(&buf)
		enc.SetEscapeHTML(false)
		enc.Encode(m)
		b = bytes.TrimSpace(buf.Bytes())
	}
	if r.Chance(0.3) {
		b = bytes.Replace(b, []byte(`":`), []byte(`" : `), -1)
	}
	return string(b) + "\n"
}

func validUTF8Target(t *vegeta.Target) bool {
	ok := func(s string) bool { return strings.ToValidUTF8(s, "�") == s }
	if !ok(t.Method) || !ok(t.URL) {
		return false
	}
	for k, vs := range t.Header {
		if !ok(k) {
			return false
		}
		for _, v := range vs {
			if !ok(v) {
				return false
			}
		}
	}
	return true
}

func genJSONCase(r *kit.Rng) (jsonCase, []vegeta.Target, []string) {
	jc := jsonCase{Legal: true, Encoded: true, Defaults: map[string][]string{}}
	jc.DefaultBody = genBody(r)
	jc.SpareCap = map[string]int{}
	ds := genDefaults(r)
	if len(ds) == 0 && r.Chance(0.5) {
		jc.Defaults = nil // nil default header map
	}
	for _, d := range ds {
		jc.Defaults[d.Key] = d.Vals
		if d.Cap > len(d.Vals) {
			jc.SpareCap[d.Key] = d.Cap - len(d.Vals)
		}
	}
	n := 1 + r.Pick(50)
	if r.Chance(0.6) {
		n = 1 + r.Pick(6)
	}
	if wantLong > 0 && n > 4 {
		n = 1 + r.Pick(4)
	}
	ts := make([]vegeta.Target, n)
	broken := r.Chance(0.15)
	for i := range ts {
		ts[i] = genJSONTarget(r, i, broken)
	}
	if wantLong > 0 {
		// one line beyond bufio.Reader's buffer (4096) or beyond 64 KiB: a long header value or body
		k := r.Pick(n)
		sz := wantLong
		if r.Chance(0.5) {
			if ts[k].Header == nil {
				ts[k].Header = http.Header{}
			}
			ts[k].Header["X-Long"] = append(ts[k].Header["X-Long"], longText(r, sz))
		} else {
			ts[k].Body = []byte(longText(r, sz))
		}
		jc.LongLine = sz
	}
	lines, err := encodeTargets(ts)
	if err != nil {
		panic(err)
	}
	var sb strings.Builder
	for i := range ts {
		for r.Chance(0.15) {
			sb.WriteString(r.PickStr([]string{"\n", " \n", "\t\r\n", "  \t \n"}))
		}
		l := lines[i]
		if r.Chance(0.2) {
			l = altJSONLine(r, &ts[i])
			jc.Encoded = false
		}
		if r.Chance(0.2) {
			l = pad(r) + strings.TrimSuffix(l, "\n") + pad(r) + "\n"
		}
		sb.WriteString(l)
		v := ownView(&ts[i])
		if !validUTF8Target(&ts[i]) {
			jc.Legal = false // broken UTF-8 is replaced by the encoder: outside the claim
		}
		jc.Targets = append(jc.Targets, v)
	}
	jc.Src = sb.String()
	if r.Chance(0.1) {
		// last line without newline: that target is lost by design (TestJSONTargeter/no_new_line)
		jc.Src = strings.TrimSuffix(jc.Src, "\n")
		if !strings.HasSuffix(jc.Src, "\n") {
			jc.Targets = jc.Targets[:len(jc.Targets)-1]
		}
	} else if r.Chance(0.5) {
		// the end of the stream: blank lines, CRLF blank lines, a last line of spaces or tabs (with
		// and without a newline of its own) after the last target
		jc.Src += r.PickStr(streamEndings)
		jc.Ending = true
	}
	return jc, ts, lines
}

// what may follow the last target of a stream without adding a target
var streamEndings = []string{"\n", "\n\n\n", "\r\n", "\r\n\r\n", "   ", "\t", " \t \n", "\n  \t", "\n \n\t\n", "\r\n \r\n"}

func mutatedCase(hc *httpCase) bool { return !hc.Legal }

func expectedJSON(jc *jsonCase, own tview) tview {
	v := tview{Method: own.Method, URL: own.URL, Header: map[string][]string{}}
	for k, vs := range jc.Defaults {
		v.Header[k] = append([]string{}, vs...)
	}
	for k, vs := range own.Header {
		v.Header[k] = append(v.Header[k], vs...)
	}
	if len(own.Body) > 0 {
		v.Body = own.Body
	} else {
		v.Body = jc.DefaultBody
	}
	return v
}

// mkJSONDefaults builds the default header map; spare[k] > 0 gives the value slice of k that
// much spare capacity (as repeated -header flags do: three values end up in a slice of capacity 4)
func mkJSONDefaults(m map[string][]string, spare map[string]int) http.Header {
	if m == nil {
		return nil // the library accepts a nil default header
	}
	h := http.Header{}
	for k, vs := range m {
		s := make([]string, len(vs), len(vs)+spare[k])
		copy(s, vs)
		h[k] = s
	}
	return h
}

func vmapOp(m map[string][]string) string { return showHeader(m) }

// decode one trimmed line in isolation with the real decoder: the `dec` parameter of the model
func isolatedDecode(line string) string {
	tr := vegeta.NewJSONTargeter(strings.NewReader(line+"\n"), nil, nil)
	var t vegeta.Target
	var err error
	if p, _ := kit.Recover(func() { err = tr(&t) }); p {
		return "P"
	}
	switch {
	case err == vegeta.ErrNoMethod:
		return "1 - 3f - 0"
	case err == vegeta.ErrNoURL:
		return "1 3f - - 0"
	case err != nil:
		return "0"
	}
	return "1 " + showView(snapshot(&t))
}

func jsonTable(src string) string {
	seen := map[string]bool{}
	var rows []string
	for _, piece := range strings.Split(src, "\n") {
		l := string(bytes.TrimSpace([]byte(piece)))
		if l == "" || seen[l] {
			continue
		}
		seen[l] = true
		rows = append(rows, kit.HexS(l)+" "+isolatedDecode(l))
	}
	out := strconv.Itoa(len(rows))
	if len(rows) > 0 {
		out += " " + strings.Join(rows, " ")
	}
	return out
}

func jsonOp(jc *jsonCase, op string, ncalls int) string {
	s := op + " " + kit.Hex(jc.DefaultBody) + " " + vmapOp(jc.Defaults) + " " + kit.HexS(jc.Src) + " " + jsonTable(jc.Src)
	if ncalls >= 0 {
		s += " " + strconv.Itoa(ncalls)
	}
	return s
}

type jsonRunResult struct {
	line     string
	returned []tview
	codes    []int
}

func runJSON(s *kit.Summary, jc *jsonCase, ncalls int, r *kit.Rng) jsonRunResult {
	var res jsonRunResult
	hdr := mkJSONDefaults(jc.Defaults, jc.SpareCap)
	dflt0 := copyHeader(hdr)
	var body []byte
	if jc.DefaultBody != nil {
		body = append([]byte{}, jc.DefaultBody...)
	}
	body0 := append([]byte{}, body...)
	tr := vegeta.NewJSONTargeter(strings.NewReader(jc.Src), body, hdr)
	var live []*vegeta.Target
	var atReturn []tview
	reported := false
	var parts []string
	// outside the domain (byte-mutated file) nothing is judged; the model comparison still runs
	real := s
	if jc.Mutated {
		s = kit.NewSummary("C14", 0, "")
		defer func() { real.CountN("json:outside_domain_not_judged", s.NViol) }()
	}
	for c := 0; c < ncalls; c++ {
		t := &vegeta.Target{}
		var err error
		p, msg := kit.Recover(func() { err = tr(t) })
		if p {
			parts = append(parts, "panic")
			s.Violate(kit.Violation{Kind: "json_targeter_panic", What: "NewJSONTargeter panicked: " + msg, Input: jc})
			break
		}
		for j, lt := range live {
			if now := snapshot(lt); !eqView(now, atReturn[j]) && !reported {
				reported = true
				s.Violate(kit.Violation{Kind: "json_target_changed_later", What: fmt.Sprintf("target %d changed after call %d", j, c),
					Input: jc, Expected: showViewText(atReturn[j]), Observed: showViewText(now)})
			}
		}
		if !eqHeader(copyHeader(hdr), dflt0) || !bytes.Equal(body, body0) {
			s.Violate(kit.Violation{Kind: "json_defaults_changed", What: fmt.Sprintf("defaults changed after call %d", c), Input: jc})
		}
		if err != nil {
			code := jsonErrCode(err)
			res.codes = append(res.codes, code)
			parts = append(parts, "err "+strconv.Itoa(code))
			continue
		}
		res.codes = append(res.codes, 0)
		v := snapshot(t)
		live = append(live, t)
		atReturn = append(atReturn, v)
		res.returned = append(res.returned, v)
		parts = append(parts, "ok "+showView(v))
	}
	res.line = strings.Join(parts, " | ")
	crossCheck(s, "json_target_changed_by_later_targeter", jc)
	remember(live, jc)
	if jc.Mutated {
		remember(nil, jc)
	}
	return res
}

func oracleJSON(s *kit.Summary, jc *jsonCase, res jsonRunResult) {
	if !jc.Legal {
		return
	}
	n := len(jc.Targets)
	bad := ""
	for i := 0; i < n; i++ {
		if i >= len(res.codes) || res.codes[i] != 0 {
			bad = fmt.Sprintf("call %d: expected target %d, got codes %v", i, i, res.codes)
			break
		}
		exp := expectedJSON(jc, jc.Targets[i])
		if !eqView(exp, res.returned[i]) {
			bad = fmt.Sprintf("target %d: expected %s, got %s", i, showViewText(exp), showViewText(res.returned[i]))
			break
		}
	}
	if bad == "" {
		for c := n; c < len(res.codes); c++ {
			if res.codes[c] != 1 {
				bad = fmt.Sprintf("call %d after the last target: expected ErrNoTargets, got code %d", c, res.codes[c])
				break
			}
		}
	}
	if bad != "" {
		s.Violate(kit.Violation{Kind: "json_parse_mismatch", What: "JSON targets file does not decode to the targets it describes",
			Input: jc, Expected: fmt.Sprintf("%d targets then ErrNoTargets", n), Observed: bad})
	}
}

// member order of the "header" object in one encoded line (a raw `,"header":{` cannot occur
// inside a JSON string: quotes are escaped there)
func headerOrder(line string) []string {
	const mark = `,"header":{`
	i := strings.Index(line, mark)
	if i < 0 {
		return nil
	}
	dec := json.NewDecoder(strings.NewReader(line[i+len(mark)-1:]))
	if _, err := dec.Token(); err != nil {
		return nil
	}
	var order []string
	for dec.More() {
		k, err := dec.Token()
		if err != nil {
			return order
		}
		ks, ok := k.(string)
		if !ok {
			return order
		}
		var raw json.RawMessage
		if err := dec.Decode(&raw); err != nil {
			return order
		}
		order = append(order, ks)
	}
	return order
}

// sanitize replaces every invalid UTF-8 byte by U+FFFD (what encoding/json shows for a key)
func sanitize(k string) string {
	var sb strings.Builder
	for i := 0; i < len(k); {
		r, w := utf8.DecodeRuneInString(k[i:])
		if r == utf8.RuneError && w == 1 {
			sb.WriteString("\xef\xbf\xbd")
		} else {
			sb.WriteString(k[i : i+w])
		}
		i += w
	}
	return sb.String()
}

func encOp(t *vegeta.Target, order []string) string {
	// the keys read back from the line may have lost broken UTF-8: map them to the original keys
	used := map[string]bool{}
	for i, k := range order {
		if _, ok := t.Header[k]; ok && !used[k] {
			used[k] = true
			continue
		}
		for ok := range t.Header {
			if !used[ok] && sanitize(ok) == k {
				order[i] = ok
				used[ok] = true
				break
			}
		}
	}
	var sb strings.Builder
	sb.WriteString("c14.jsonenc " + kit.HexS(t.Method) + " " + kit.HexS(t.URL) + " " + kit.Hex(t.Body) + " " + strconv.Itoa(len(order)))
	for _, k := range order {
		vs := t.Header[k]
		sb.WriteString(" " + kit.HexS(k))
		if vs == nil {
			sb.WriteString(" 1")
			continue
		}
		sb.WriteString(" 0 " + strconv.Itoa(len(vs)))
		for _, v := range vs {
			sb.WriteString(" " + kit.HexS(v))
		}
	}
	return sb.String()
}

// ---------------------------------------------------------------- main

var methodRe = regexp.MustCompile(`^[A-Z]+\s`)

func diffLenient(name string, ops, impl []string, c *run.Ctx, s *kit.Summary, skipWord string) {
	s.Streams[name] += len(ops)
	outs, err := kit.RunDriver(c.Driver, ops)
	if err != nil {
		s.Diverge(name, "(driver failure)", "", err.Error())
		return
	}
	for i := range ops {
		if outs[i] == skipWord && skipWord != "" && !strings.HasPrefix(impl[i], "!") {
			s.Skipped[name+":"+skipWord]++
			continue
		}
		if outs[i] != strings.TrimPrefix(impl[i], "!") {
			s.Diverge(name, ops[i], impl[i], outs[i])
		}
	}
}

func replayC14(c *run.Ctx, s *kit.Summary) {
	b, err := os.ReadFile(c.Replay)
	if err != nil {
		panic(err)
	}
	var rec struct {
		Kind  string          `json:"kind"`
		Input json.RawMessage `json:"input"`
	}
	if err := json.Unmarshal(b, &rec); err != nil {
		panic(err)
	}
	st := &kit.Stream{Name: "replay"}
	if rec.Kind == "http_body_file_read_at_decode_time" {
		var rc rewriteCase
		if err := json.Unmarshal(rec.Input, &rc); err != nil {
			panic(err)
		}
		if rc.Work != "" {
			rc.Path = strings.Replace(rc.Path, rc.Work, c.Work, 1)
			rc.Work = c.Work
		}
		os.MkdirAll(filepath.Dir(rc.Path), 0o755)
		runRewrite(s, &rc)
		return
	}
	if strings.HasPrefix(rec.Kind, "attack_") {
		var gc glueCase
		if err := json.Unmarshal(rec.Input, &gc); err != nil {
			panic(err)
		}
		runGlue(c, s, gc, 0)
		return
	}
	if strings.HasPrefix(rec.Kind, "http") {
		var hc httpCase
		if err := json.Unmarshal(rec.Input, &hc); err != nil {
			panic(err)
		}
		// move the sandbox
		if hc.Work != "" {
			nf := map[string][]byte{}
			for p, b := range hc.Files {
				nf[strings.Replace(p, hc.Work, c.Work, 1)] = b
			}
			hc.Src = strings.Replace(hc.Src, hc.Work, c.Work, -1)
			for i := range hc.Targets {
				hc.Targets[i].BodyFile = strings.Replace(hc.Targets[i].BodyFile, hc.Work, c.Work, 1)
			}
			hc.Files, hc.Work = nf, c.Work
		}
		writeFiles(&hc)
		n := len(hc.Targets) + 2
		res := runHTTP(s, &hc, n)
		oracleHTTP(s, &hc, res)
		s.Case("replay", true)
		st.Add(httpOp(&hc, "c14.http", n), res.line)
	} else {
		var jc jsonCase
		if err := json.Unmarshal(rec.Input, &jc); err != nil {
			panic(err)
		}
		n := len(jc.Targets) + 2
		res := runJSON(s, &jc, n, nil)
		oracleJSON(s, &jc, res)
		s.Case("replay", true)
		st.Add(jsonOp(&jc, "c14.json", n), res.line)
	}
	st.Diff(c.Driver, s)
}

func runC14(c *run.Ctx, s *kit.Summary) {
	s.Rule = "http files rendered from the documented grammar (1..50 targets, upper-case methods, absolute URLs, 0..8 headers with arbitrary key case / repeated keys / keys shared with the defaults, @file bodies in a sandbox, comment and blank lines in every legal position, default slices with and without spare capacity, default bodies) plus byte-mutated files; JSON files written by NewJSONTargetEncoder plus re-spelled lines; after every targeter call all earlier targets and the defaults are re-inspected; non-trivial = distinct file with >= 2 targets or >= 1 header"
	if c.Replay != "" {
		replayC14(c, s)
		return
	}
	r := kit.NewRng(c.Seed)
	work := filepath.Join(c.Work, "bodies")
	if err := os.MkdirAll(work, 0o755); err != nil {
		panic(err)
	}

	// 0. corpus/C14: the witnesses of the two former defects (DESIGN §8 #10, #11; fixed by
	// 84aa239 and c9e79da) are replayed first, through the oracle and the model
	{
		st := &kit.Stream{Name: "c14.http"}
		files, _ := filepath.Glob(filepath.Join(corpusDir(), "*.json"))
		sort.Strings(files)
		for _, f := range files {
			b, err := os.ReadFile(f)
			if err != nil {
				panic(err)
			}
			var rec struct {
				Kind  string          `json:"kind"`
				Input json.RawMessage `json:"input"`
			}
			if err := json.Unmarshal(b, &rec); err != nil || !strings.HasPrefix(rec.Kind, "http") {
				continue
			}
			var w httpCase
			if err := json.Unmarshal(rec.Input, &w); err != nil {
				panic(fmt.Sprint(f, ": ", err))
			}
			if w.Files == nil {
				w.Files = map[string][]byte{}
			}
			n := len(w.Targets) + 2
			res := runHTTP(s, &w, n)
			oracleHTTP(s, &w, res)
			s.Case("corpus:"+filepath.Base(f), true)
			s.Count("corpus:replayed")
			st.Add(httpOp(&w, "c14.http", n), res.line)
		}
		if s.Dist["corpus:replayed"] < 2 {
			s.Violate(kit.Violation{Kind: "corpus_missing", What: "the regression witnesses in corpus/C14 were not found", Observed: corpusDir()})
		}
		st.Diff(c.Driver, s)
	}

	// 0a. one body path, two payloads, one process
	for i := 0; i < c.N(12, 200); i++ {
		rc := rewriteCase{Work: work, Mode: []string{"two_targeters", "mid_stream"}[i%2],
			Path: filepath.Join(work, fmt.Sprintf("rewritten_%d.bin", i%3)),
			A:    []byte(fmt.Sprintf("payload A %d", i)), B: []byte(fmt.Sprintf("payload B %d, longer than A", i))}
		if i%5 == 4 {
			rc.A, rc.B = rc.B, []byte{}
		}
		runRewrite(s, &rc)
	}

	// 0b. the attack command's glue (format switch, -header/-body defaults, eager/lazy selection)
	{
		var wg sync.WaitGroup
		var sums []*kit.Summary
		id := 0
		for rep := 0; rep < c.N(1, 3); rep++ {
			for _, gc := range []glueCase{{"http", false}, {"http", true}, {"json", false}, {"json", true}} {
				sub := kit.NewSummary("C14", c.Seed, c.Tier)
				sums = append(sums, sub)
				wg.Add(1)
				go func(gc glueCase, id int, sub *kit.Summary) {
					defer wg.Done()
					runGlue(c, sub, gc, id)
				}(gc, id, sub)
				id++
			}
		}
		wg.Wait()
		for _, sub := range sums {
			mergeSummary(s, sub)
		}
	}

	// 1. scanner and method regexp
	{
		ls := &kit.Stream{Name: "c14.lines"}
		ms := &kit.Stream{Name: "c14.method"}
		for i := 0; i < c.N(3000, 100000); i++ {
			hc := genHTTPCase(r, work, 0)
			src := hc.Src
			if len(src) > 400 {
				src = src[:400]
			}
			if r.Chance(0.5) {
				src = gen.Mutate(r, src)
			}
			sc := bufio.NewScanner(strings.NewReader(src))
			var toks []string
			for sc.Scan() {
				toks = append(toks, kit.HexS(sc.Text()))
			}
			out := "ok " + strconv.Itoa(len(toks))
			if len(toks) > 0 {
				out += " " + strings.Join(toks, " ")
			}
			ls.Add("c14.lines "+kit.HexS(src), out)
			s.Case("l:"+src, len(toks) > 1)
			for _, l := range strings.Split(src, "\n") {
				if r.Chance(0.3) {
					l = strings.TrimSpace(l)
					ms.Add("c14.method "+kit.HexS(l), "ok "+kit.B(methodRe.MatchString(l)))
				}
			}
		}
		ls.Diff(c.Driver, s)
		ms.Diff(c.Driver, s)
	}

	// 2. http targets files
	{
		st := &kit.Stream{Name: "c14.http"}
		ra := &kit.Stream{Name: "c14.http.readall"}
		sel := &kit.Stream{Name: "c14.select.http"}
		// streams without any target: exhaustion at once, ReadAllTargets reports ErrNoTargets
		var special []httpCase
		for _, src := range []string{"", "\n", "  \n\t\n", "# only a comment\n", "# c", "\n# c\n\n#d\n", "\r\n"} {
			special = append(special, httpCase{Work: "", Src: src, Files: map[string][]byte{}, Legal: true, Defaults: []dflt{{"X", []string{"d"}, 4}}})
		}
		for i := 0; i < c.N(2500, 120000)+len(special); i++ {
			var hc httpCase
			if i < len(special) {
				hc = special[i]
				s.Count("http:empty_stream")
			} else {
				wantLong = 0
				if k := i - len(special); k < len(longSizes)*c.N(1, 8) {
					wantLong = longSizes[k%len(longSizes)]
				}
				hc = genHTTPCase(r, work, i)
				wantLong = 0
			}
			writeFiles(&hc)
			mutated := i >= len(special) && hc.LongLine == 0 && r.Chance(0.2)
			if mutated {
				hc.Src = gen.Mutate(r, hc.Src)
				hc.Legal = false
				if !srcSafe(hc.Src) {
					continue
				}
			}
			n := len(hc.Targets) + 2
			res := runHTTP(s, &hc, n)
			oracleHTTP(s, &hc, res)
			nh := 0
			for _, t := range hc.Targets {
				nh += len(t.Headers)
			}
			s.Case("h:"+hc.Src, len(hc.Targets) > 1 || nh > 0)
			s.Count(fmt.Sprintf("http:legal=%v", hc.Legal))
			s.Count(fmt.Sprintf("http:targets<=%d", bucket(len(hc.Targets))))
			if hc.CommentTrap {
				s.Count("http:comment_between_bare_request_lines")
			}
			if hc.Ending && !mutatedCase(&hc) {
				s.Count("http:blank_or_space_lines_after_last_target")
			}
			if hc.LongLine > 0 {
				s.Count(fmt.Sprintf("http:line_length~%d", hc.LongLine))
			}
			if hc.Defaults == nil {
				s.Count("http:nil_default_map")
			}
			if hc.DefaultBody == nil {
				s.Count("http:nil_default_body")
			}
			for _, d := range hc.Defaults {
				if d.Cap > len(d.Vals) {
					s.Count("http:default_with_spare_capacity")
					break
				}
			}
			for _, code := range res.codes {
				s.Count("http:result_code=" + strconv.Itoa(code))
			}
			st.Add(httpOp(&hc, "c14.http", n), res.line)
			if i < 2 {
				s.Sample(map[string]interface{}{"op": "c14.http", "src": hc.Src, "defaults": hc.Defaults, "impl": res.line})
			}
			// eager mode: ReadAllTargets over a fresh targeter
			if i%3 == 0 || i < len(special) {
				hdr := mkDefaults(hc.Defaults)
				tr := vegeta.NewHTTPTargeter(strings.NewReader(hc.Src), hc.DefaultBody, hdr)
				var tgts []vegeta.Target
				var err error
				if p, _ := kit.Recover(func() { tgts, err = vegeta.ReadAllTargets(tr) }); p {
					ra.Add(httpOp(&hc, "c14.http.readall", -1), "panic")
					continue
				}
				line := ""
				if err != nil {
					line = "err " + strconv.Itoa(httpErrCode(err))
				} else {
					line = "ok " + strconv.Itoa(len(tgts))
					for k := range tgts {
						line += " ; " + showView(snapshot(&tgts[k]))
					}
				}
				ra.Add(httpOp(&hc, "c14.http.readall", -1), line)
				// oracle: eager = the lazily produced stream (first error decides)
				oracleReadAll(s, "http", &hc, res.codes, res.returned, tgts, err, httpErrCode)
			}
			// the attack command's selection: lazy = the targeter, eager = static over ReadAllTargets
			if hc.Legal && i%5 == 2 {
				m := 2*len(hc.Targets) + 1
				var exp []tview
				for _, t := range hc.Targets {
					exp = append(exp, expectedView(&hc, t))
				}
				ll, lv, lc := selectAndDraw(vegeta.NewHTTPTargeter(strings.NewReader(hc.Src), hc.DefaultBody, mkDefaults(hc.Defaults)), true, m, httpErrCode)
				el, ev, ec := selectAndDraw(vegeta.NewHTTPTargeter(strings.NewReader(hc.Src), hc.DefaultBody, mkDefaults(hc.Defaults)), false, m, httpErrCode)
				oracleSelection(s, "http", &hc, exp, lv, ev, lc, ec, el)
				sel.Add(httpOp(&hc, "c14.select.http", -1)+" 1 "+strconv.Itoa(m), ll)
				sel.Add(httpOp(&hc, "c14.select.http", -1)+" 0 "+strconv.Itoa(m), el)
				s.Count("http:selection_eager_and_lazy")
			}
			// the same targets file once more in this process: the same paths now carry other
			// payloads, the defaults have other values
			if hc.Legal && i%6 == 1 {
				hc2 := hc
				hc2.Files = map[string][]byte{}
				for p, b := range hc.Files {
					hc2.Files[p] = append([]byte("rewritten: "), b...)
				}
				hc2.Targets = append([]specTarget{}, hc.Targets...)
				for k := range hc2.Targets {
					if hc2.Targets[k].HasBody {
						hc2.Targets[k].Body = hc2.Files[hc2.Targets[k].BodyFile]
					}
				}
				hc2.Defaults = nil
				for _, d := range hc.Defaults {
					vs := make([]string, len(d.Vals))
					for j := range vs {
						vs[j] = "second-run-" + d.Vals[j]
					}
					hc2.Defaults = append(hc2.Defaults, dflt{d.Key, vs, d.Cap})
				}
				hc2.DefaultBody = append([]byte("second run "), hc.DefaultBody...)
				writeFiles(&hc2)
				res2 := runHTTP(s, &hc2, n)
				oracleHTTP(s, &hc2, res2)
				s.Count("http:same_file_decoded_again_with_other_payloads")
				st.Add(httpOp(&hc2, "c14.http", n), res2.line)
				tgts, err := safeReadAll(vegeta.NewHTTPTargeter(strings.NewReader(hc2.Src), hc2.DefaultBody, mkDefaults(hc2.Defaults)))
				oracleReadAll(s, "http", &hc2, res2.codes, res2.returned, tgts, err, httpErrCode)
			}
			for p := range hc.Files {
				os.Remove(p)
			}
		}
		// big compact files: 5 KiB … 200 KiB
		for i := 0; i < c.N(10, 150); i++ {
			n := []int{150, 300, 600, 1200, 2500, 4000}[i%6] + r.Pick(100)
			hc := genBigHTTPCase(r, work, n)
			runBig(s, &hc)
			if n <= 700 { // the model on the smaller ones (eager read)
				writeFiles(&hc)
				tgts, err := safeReadAll(vegeta.NewHTTPTargeter(strings.NewReader(hc.Src), hc.DefaultBody, mkDefaults(hc.Defaults)))
				line := "err"
				if err == nil {
					line = "ok " + strconv.Itoa(len(tgts))
					for k := range tgts {
						line += " ; " + showView(snapshot(&tgts[k]))
					}
				}
				ra.Add(httpOp(&hc, "c14.http.readall", -1), line)
				for p := range hc.Files {
					os.Remove(p)
				}
			}
		}
		st.Diff(c.Driver, s)
		ra.Diff(c.Driver, s)
		sel.Diff(c.Driver, s)
	}

	// 3. JSON targets files, encoder, round trip
	{
		st := &kit.Stream{Name: "c14.json"}
		ra := &kit.Stream{Name: "c14.json.readall"}
		var encOps, encImpl, imgOps, imgImpl []string
		selJ := &kit.Stream{Name: "c14.select.json"}
		var specialJ []string = []string{"", "\n", " \n\t\r\n", "{\"method\":\"GET\",\"url\":\"http://unterminated/\"}"}
		for i := 0; i < c.N(2500, 120000)+len(specialJ); i++ {
			var jc jsonCase
			var ts []vegeta.Target
			var lines []string
			if i < len(specialJ) {
				jc = jsonCase{Src: specialJ[i], Legal: true, Defaults: map[string][]string{"X": {"d"}}, SpareCap: map[string]int{"X": 3}}
				s.Count("json:empty_stream")
			} else {
				wantLong = 0
				if k := i - len(specialJ); k < len(longSizesJSON)*c.N(1, 8) {
					wantLong = longSizesJSON[k%len(longSizesJSON)]
				}
				jc, ts, lines = genJSONCase(r)
				wantLong = 0
			}
			if i >= len(specialJ) && jc.LongLine == 0 && r.Chance(0.15) {
				jc.Src = gen.Mutate(r, jc.Src)
				jc.Legal = false
				jc.Mutated = true
			}
			if jc.Ending && !jc.Mutated {
				s.Count("json:blank_or_space_lines_after_last_target")
			}
			if jc.LongLine > 0 {
				s.Count(fmt.Sprintf("json:line_length~%d", jc.LongLine))
			}
			if len(jc.SpareCap) > 0 {
				s.Count("json:default_with_spare_capacity")
			}
			if jc.Defaults == nil {
				s.Count("json:nil_default_map")
			}
			if jc.DefaultBody == nil {
				s.Count("json:nil_default_body")
			}
			for k := range ts {
				for _, vs := range ts[k].Header {
					if vs == nil {
						s.Count("json:nil_value_slice")
					} else if len(vs) == 0 {
						s.Count("json:empty_value_slice")
					}
				}
			}
			n := len(ts) + 2
			res := runJSON(s, &jc, n, r)
			oracleJSON(s, &jc, res)
			s.Case("j:"+jc.Src, len(ts) > 1)
			s.Count(fmt.Sprintf("json:legal=%v", jc.Legal))
			for _, code := range res.codes {
				s.Count("json:result_code=" + strconv.Itoa(code))
			}
			st.Add(jsonOp(&jc, "c14.json", n), res.line)
			if i < 2 {
				s.Sample(map[string]interface{}{"op": "c14.json", "src": jc.Src, "impl": res.line})
			}
			if i%3 == 0 || i < len(specialJ) {
				tr := vegeta.NewJSONTargeter(strings.NewReader(jc.Src), jc.DefaultBody, mkJSONDefaults(jc.Defaults, jc.SpareCap))
				tgts, err := safeReadAll(tr)
				line := ""
				if err != nil {
					line = "err " + strconv.Itoa(jsonErrCode(err))
				} else {
					line = "ok " + strconv.Itoa(len(tgts))
					for k := range tgts {
						line += " ; " + showView(snapshot(&tgts[k]))
					}
				}
				ra.Add(jsonOp(&jc, "c14.json.readall", -1), line)
				if !jc.Mutated {
					oracleReadAll(s, "json", &jc, res.codes, res.returned, tgts, err, jsonErrCode)
				}
			}
			if jc.Legal && i%5 == 2 {
				m := 2*len(jc.Targets) + 1
				var exp []tview
				for _, own := range jc.Targets {
					exp = append(exp, expectedJSON(&jc, own))
				}
				ll, lv, lc := selectAndDraw(vegeta.NewJSONTargeter(strings.NewReader(jc.Src), jc.DefaultBody, mkJSONDefaults(jc.Defaults, jc.SpareCap)), true, m, jsonErrCode)
				el, ev, ec := selectAndDraw(vegeta.NewJSONTargeter(strings.NewReader(jc.Src), jc.DefaultBody, mkJSONDefaults(jc.Defaults, jc.SpareCap)), false, m, jsonErrCode)
				oracleSelection(s, "json", &jc, exp, lv, ev, lc, ec, el)
				selJ.Add(jsonOp(&jc, "c14.select.json", -1)+" 1 "+strconv.Itoa(m), ll)
				selJ.Add(jsonOp(&jc, "c14.select.json", -1)+" 0 "+strconv.Itoa(m), el)
				s.Count("json:selection_eager_and_lazy")
			}
			// the same lines once more in this process with other defaults
			if jc.Legal && i%6 == 1 {
				jc2 := jc
				jc2.Defaults = map[string][]string{}
				for k, vs := range jc.Defaults {
					for _, v := range vs {
						jc2.Defaults[k] = append(jc2.Defaults[k], "second-run-"+v)
					}
					if len(vs) == 0 {
						jc2.Defaults[k] = []string{}
					}
				}
				jc2.DefaultBody = append([]byte("second run "), jc.DefaultBody...)
				res2 := runJSON(s, &jc2, n, r)
				oracleJSON(s, &jc2, res2)
				s.Count("json:same_file_decoded_again_with_other_defaults")
				st.Add(jsonOp(&jc2, "c14.json", n), res2.line)
			}
			// encoder model and image decoder on what the real encoder wrote
			for k := range ts {
				if k > 3 {
					break
				}
				encOps = append(encOps, encOp(&ts[k], headerOrder(lines[k])))
				encImpl = append(encImpl, "ok "+kit.HexS(lines[k]))
				tl := string(bytes.TrimSpace([]byte(lines[k])))
				iso := isolatedDecode(tl)
				imgOps = append(imgOps, "c14.jsonimg "+kit.HexS(tl))
				if strings.HasPrefix(iso, "1 ") && ts[k].Method != "" && ts[k].URL != "" {
					imgImpl = append(imgImpl, "!ok "+iso[2:]) // must be modelled
				} else {
					imgImpl = append(imgImpl, "-") // required fields missing: skip when unmodelled
				}
				// round trip oracle: encoder -> decoder gives an equal target
				if validUTF8Target(&ts[k]) && ts[k].Method != "" {
					tr := vegeta.NewJSONTargeter(strings.NewReader(lines[k]), nil, nil)
					var back vegeta.Target
					err := safeCall(tr, &back)
					if err != nil || !equalTargets(&ts[k], &back) {
						s.Violate(kit.Violation{Kind: "json_roundtrip", What: "a target written by the JSON target encoder does not decode back to an equal target",
							Input: map[string]interface{}{"target": ownView(&ts[k]), "line": lines[k]}, Expected: showViewText(ownView(&ts[k])),
							Observed: fmt.Sprint(err, " ", showViewText(snapshot(&back)))})
					}
					s.Count("json:roundtrip_checked")
				}
			}
			// re-spelled lines through the image decoder (skipped when outside the modelled subset)
			if i%4 == 0 {
				for _, piece := range strings.Split(jc.Src, "\n") {
					tl := string(bytes.TrimSpace([]byte(piece)))
					if tl == "" {
						continue
					}
					iso := isolatedDecode(tl)
					imgOps = append(imgOps, "c14.jsonimg "+kit.HexS(tl))
					if strings.HasPrefix(iso, "1 ") && !strings.HasPrefix(iso, "1 - 3f") && !strings.HasPrefix(iso, "1 3f - -") {
						imgImpl = append(imgImpl, "ok "+iso[2:])
					} else {
						imgImpl = append(imgImpl, "-")
					}
				}
			}
		}
		st.Diff(c.Driver, s)
		ra.Diff(c.Driver, s)
		for i := 0; i < c.N(4, 60); i++ {
			runBigJSON(s, r, []int{800, 1500, 2500, 4000}[i%4]+r.Pick(100))
		}
		selJ.Diff(c.Driver, s)
		diffLenient("c14.jsonenc", encOps, encImpl, c, s, "")
		// image decoder: "unmodelled" is skipped unless the line came from the encoder ("!" prefix);
		// impl "-" (decode error / required field missing) only compares when the model claims a value
		var ops2, impl2 []string
		outs, err := kit.RunDriver(c.Driver, imgOps)
		s.Streams["c14.jsonimg"] += len(imgOps)
		if err != nil {
			s.Diverge("c14.jsonimg", "(driver failure)", "", err.Error())
		} else {
			for k := range imgOps {
				switch {
				case outs[k] == "unmodelled" && !strings.HasPrefix(imgImpl[k], "!"):
					s.Skipped["c14.jsonimg:unmodelled"]++
				case imgImpl[k] == "-":
					// the model decoded a line the real decoder rejects or that lacks required fields
					if outs[k] != "unmodelled" && isolatedDecode(string(kit.UnHex(strings.TrimPrefix(imgOps[k], "c14.jsonimg ")))) == "0" {
						s.Diverge("c14.jsonimg", imgOps[k], "err", outs[k])
					}
				case outs[k] != strings.TrimPrefix(imgImpl[k], "!"):
					s.Diverge("c14.jsonimg", imgOps[k], imgImpl[k], outs[k])
				}
			}
		}
		_, _ = ops2, impl2
	}
}

// ---------------------------------------------------------------- same keys, other contents

// rewriteCase: one body path whose payload is rewritten between two decodes in this process.
type rewriteCase struct {
	Work string `json:"work"`
	Mode string `json:"mode"` // "two_targeters" | "mid_stream"
	Path string `json:"path"`
	A    []byte `json:"a"`
	B    []byte `json:"b"`
}

// runRewrite: the targeter reads a body file when it decodes the target that names it — a
// decode after the file was rewritten describes (and must return) the new payload, and a target
// returned before keeps the old one.
func runRewrite(s *kit.Summary, rc *rewriteCase) {
	fail := func(what, exp, obs string) {
		s.Violate(kit.Violation{Kind: "http_body_file_read_at_decode_time", What: what, Input: rc, Expected: exp, Observed: obs,
			Key: map[string]interface{}{"mode": rc.Mode}})
	}
	write := func(b []byte) {
		if err := os.WriteFile(rc.Path, b, 0o644); err != nil {
			panic(err)
		}
	}
	defer os.Remove(rc.Path)
	s.Count("rewrite:" + rc.Mode)
	s.Case(fmt.Sprint("rw:", rc.Mode, rc.Path, string(rc.A), string(rc.B)), true)
	switch rc.Mode {
	case "two_targeters":
		src := "POST http://rw/0\n@" + rc.Path + "\n"
		write(rc.A)
		var t1 vegeta.Target
		if err := safeCall(vegeta.NewHTTPTargeter(strings.NewReader(src), nil, nil), &t1); err != nil || !bytes.Equal(t1.Body, rc.A) {
			fail("first decode", fmt.Sprintf("%q", rc.A), fmt.Sprintf("%q err %v", t1.Body, err))
			return
		}
		write(rc.B)
		var t2 vegeta.Target
		if err := safeCall(vegeta.NewHTTPTargeter(strings.NewReader(src), nil, nil), &t2); err != nil || !bytes.Equal(t2.Body, rc.B) {
			fail("a second targeter over the same targets file after the body file was rewritten", fmt.Sprintf("%q", rc.B), fmt.Sprintf("%q err %v", t2.Body, err))
			return
		}
		write(rc.A)
		ts, err := safeReadAll(vegeta.NewHTTPTargeter(strings.NewReader(src+src), nil, nil))
		if err != nil || len(ts) != 2 || !bytes.Equal(ts[0].Body, rc.A) || !bytes.Equal(ts[1].Body, rc.A) {
			fail("ReadAllTargets after the body file was rewritten again", fmt.Sprintf("2 x %q", rc.A), fmt.Sprint(len(ts), " targets, err ", err))
			return
		}
		if !bytes.Equal(t1.Body, rc.A) || !bytes.Equal(t2.Body, rc.B) {
			fail("targets returned earlier changed", fmt.Sprintf("%q %q", rc.A, rc.B), fmt.Sprintf("%q %q", t1.Body, t2.Body))
		}
	case "mid_stream":
		src := "POST http://rw/0\n@" + rc.Path + "\nGET http://rw/1\nPOST http://rw/2\n@" + rc.Path + "\n"
		tr := vegeta.NewHTTPTargeter(strings.NewReader(src), []byte("dflt"), nil)
		write(rc.A)
		var t0, t1, t2 vegeta.Target
		if err := safeCall(tr, &t0); err != nil || !bytes.Equal(t0.Body, rc.A) {
			fail("first target", fmt.Sprintf("%q", rc.A), fmt.Sprintf("%q err %v", t0.Body, err))
			return
		}
		write(rc.B)
		e1, e2 := safeCall(tr, &t1), safeCall(tr, &t2)
		if e1 != nil || e2 != nil || string(t1.Body) != "dflt" || !bytes.Equal(t2.Body, rc.B) {
			fail("third target names the same body file, rewritten after the first target was decoded", fmt.Sprintf("%q", rc.B), fmt.Sprintf("%q (errs %v %v)", t2.Body, e1, e2))
			return
		}
		if !bytes.Equal(t0.Body, rc.A) {
			fail("the first target changed when the third was decoded", fmt.Sprintf("%q", rc.A), fmt.Sprintf("%q", t0.Body))
		}
	}
}

// targets returned by the previous targeter of this process: a later targeter (pooled maps,
// buffers, caches) must not change them either
var prevLive []*vegeta.Target
var prevSnap []tview
var prevInput interface{}

func crossCheck(s *kit.Summary, kind string, input interface{}) {
	for j, lt := range prevLive {
		if now := snapshot(lt); !eqView(now, prevSnap[j]) {
			s.Violate(kit.Violation{Kind: kind, What: fmt.Sprintf("target %d of the previous targets file changed while this one was decoded", j),
				Input: map[string]interface{}{"previous": prevInput, "this": input}, Expected: showViewText(prevSnap[j]), Observed: showViewText(now)})
			break
		}
	}
}

func remember(live []*vegeta.Target, input interface{}) {
	prevLive, prevSnap, prevInput = live, nil, input
	for _, t := range live {
		prevSnap = append(prevSnap, snapshot(t))
	}
}

// ---------------------------------------------------------------- the attack command's glue

type glueCase struct {
	Format string `json:"format"`
	Lazy   bool   `json:"lazy"`
}

type glueReq struct {
	Method, Path string
	Header       http.Header
	Body         string
}

// runGlue runs the real `vegeta attack` (one worker) against a recording server: the format
// switch, the default header and body given on the command line, and the eager/lazy selection
// (attack.go) must hand the described targets to the attacker — lazily each exactly once and in
// order, then the attack ends; eagerly the same list in rotation.
func runGlue(c *run.Ctx, s *kit.Summary, gc glueCase, id int) {
	if _, err := os.Stat(c.Vegeta); err != nil {
		s.Skipped["glue:no_vegeta_binary"]++
		return
	}
	var mu sync.Mutex
	var reqs []glueReq
	srv := httptest.NewServer(http.HandlerFunc(func(w http.ResponseWriter, rq *http.Request) {
		b, _ := io.ReadAll(rq.Body)
		mu.Lock()
		reqs = append(reqs, glueReq{rq.Method, rq.URL.Path, rq.Header.Clone(), string(b)})
		mu.Unlock()
	}))
	defer srv.Close()
	dir := filepath.Join(c.Work, fmt.Sprintf("glue%d", id))
	os.MkdirAll(dir, 0o755)
	bodyFile, dfltFile, tf := filepath.Join(dir, "t1.body"), filepath.Join(dir, "default.body"), filepath.Join(dir, "targets")
	os.WriteFile(bodyFile, []byte("file-body-1"), 0o644)
	os.WriteFile(dfltFile, []byte("default-body"), 0o644)
	want := []glueReq{
		{"GET", "/t0", http.Header{"X-Dflt": {"dv"}, "X-Both": {"dflt", "own0"}, "X-Own": {"o0"}}, "default-body"},
		{"POST", "/t1", http.Header{"X-Dflt": {"dv"}, "X-Both": {"dflt"}}, "file-body-1"},
		{"PUT", "/t2", http.Header{"X-Dflt": {"dv"}, "X-Both": {"dflt"}}, "default-body"},
	}
	var src string
	if gc.Format == "http" {
		src = "# targets\nGET " + srv.URL + "/t0\nX-Own: o0\nX-Both: own0\n\nPOST " + srv.URL + "/t1\n@" + bodyFile + "\nPUT " + srv.URL + "/t2\n"
	} else {
		var buf bytes.Buffer
		enc := vegeta.NewJSONTargetEncoder(&buf)
		enc.Encode(&vegeta.Target{Method: "GET", URL: srv.URL + "/t0", Header: http.Header{"X-Own": {"o0"}, "X-Both": {"own0"}}})
		enc.Encode(&vegeta.Target{Method: "POST", URL: srv.URL + "/t1", Body: []byte("file-body-1")})
		enc.Encode(&vegeta.Target{Method: "PUT", URL: srv.URL + "/t2"})
		src = buf.String()
	}
	os.WriteFile(tf, []byte(src), 0o644)
	args := []string{"attack", "-targets", tf, "-format", gc.Format, "-rate", "100/1s", "-workers", "1", "-max-workers", "1",
		"-header", "X-Dflt: dv", "-header", "X-Both: dflt", "-body", dfltFile, "-output", os.DevNull}
	if gc.Lazy {
		args = append(args, "-lazy", "-duration", "0")
	} else {
		args = append(args, "-duration", "300ms")
	}
	cmd := exec.Command(c.Vegeta, args...)
	cmd.Env = append(os.Environ(), "VEGETA_VERIF_DRIVER=")
	var stderr bytes.Buffer
	cmd.Stderr = &stderr
	if err := cmd.Start(); err != nil {
		s.Skipped["glue:cannot_start_vegeta"]++
		return
	}
	done := make(chan error, 1)
	go func() { done <- cmd.Wait() }()
	timedOut := false
	select {
	case <-done:
	case <-time.After(20 * time.Second):
		timedOut = true
		cmd.Process.Kill()
		<-done
	}
	mu.Lock()
	got := append([]glueReq{}, reqs...)
	mu.Unlock()
	s.Case(fmt.Sprint("glue:", gc), true)
	s.Count(fmt.Sprintf("glue:format=%s,lazy=%v", gc.Format, gc.Lazy))
	bad := ""
	match := func(g, w glueReq) string {
		if g.Method != w.Method || g.Path != w.Path || g.Body != w.Body {
			return fmt.Sprintf("got %s %s body %q, want %s %s body %q", g.Method, g.Path, g.Body, w.Method, w.Path, w.Body)
		}
		for _, k := range []string{"X-Dflt", "X-Both", "X-Own"} {
			if !eqStrs(g.Header[k], w.Header[k]) {
				return fmt.Sprintf("%s %s: header %s got %q want %q", g.Method, g.Path, k, g.Header[k], w.Header[k])
			}
		}
		return ""
	}
	// lazily the file's order; eagerly a rotation over the same list (its start is not prescribed)
	off := 0
	if !gc.Lazy && len(got) > 0 {
		for o := range want {
			if match(got[0], want[o]) == "" {
				off = o
			}
		}
	}
	for i, g := range got {
		if gc.Lazy && i >= len(want) {
			bad = fmt.Sprintf("lazy mode: %d requests for %d targets (a stream target was delivered again)", len(got), len(want))
			break
		}
		if m := match(g, want[(i+off)%len(want)]); m != "" {
			bad = fmt.Sprintf("request %d: %s", i, m)
			break
		}
	}
	if bad == "" {
		switch {
		case gc.Lazy && len(got) != len(want):
			bad = fmt.Sprintf("lazy mode: %d requests for %d targets", len(got), len(want))
		case gc.Lazy && timedOut:
			s.Skipped["glue:lazy_run_timed_out"]++ // no verdict from a run that had to be killed
		case !gc.Lazy && len(got) <= len(want):
			bad = fmt.Sprintf("eager mode: only %d requests in 300ms at 100/s over %d targets (no rotation); stderr: %s", len(got), len(want), tail(stderr.String(), 300))
		}
	}
	if bad != "" {
		s.Violate(kit.Violation{Kind: "attack_target_selection", What: "the attack command does not hand the described targets (with the command-line defaults) to the attacker",
			Input: gc, Expected: "t0,t1,t2 (lazy: once each, in order; eager: in rotation) with -header/-body merged", Observed: bad,
			Key: map[string]interface{}{"format": gc.Format, "lazy": gc.Lazy}})
	}
}

func tail(s string, n int) string {
	if len(s) > n {
		return s[len(s)-n:]
	}
	return s
}

// genBigHTTPCase: a compact targets file of n targets — one-line targets directly after one
// another (no blank line), lines of varying length so that buffer boundaries (4096, 65536) fall
// at every position of a line, now and then header lines (+ the blank line they need), a body
// file or a comment.
func genBigHTTPCase(r *kit.Rng, work string, n int) httpCase {
	hc := httpCase{Work: work, Files: map[string][]byte{}, Legal: true}
	hc.Defaults = []dflt{{"X-Dflt", []string{"dv"}, 1 + r.Pick(3)}}
	if r.Chance(0.5) {
		hc.DefaultBody = []byte("default body")
	}
	bp := filepath.Join(work, "big_body.bin")
	hc.Files[bp] = []byte("big body payload")
	var sb strings.Builder
	for i := 0; i < n; i++ {
		t := specTarget{Method: r.PickStr([]string{"GET", "POST", "DELETE", "PUT", "HEAD", "OPTIONS"}),
			URL: "http://h" + strconv.Itoa(r.Pick(100)) + "/" + strconv.Itoa(i) + "/" + strings.Repeat("p", r.Pick(40))}
		if r.Chance(0.03) {
			sb.WriteString("# c" + strconv.Itoa(i) + "\n")
		}
		sb.WriteString(t.Method + " " + t.URL + "\n")
		switch r.Pick(20) {
		case 0, 1:
			for j := 0; j <= r.Pick(2); j++ {
				h := hdrLine{r.PickStr([]string{"X-Dflt", "X-Own", "k"}), "v" + strconv.Itoa(r.Pick(1000))}
				t.Headers = append(t.Headers, h)
				sb.WriteString(h.Key + ": " + h.Val + "\n")
			}
			sb.WriteString("\n")
		case 2:
			t.BodyFile, t.Body, t.HasBody = bp, hc.Files[bp], true
			sb.WriteString("@" + bp + "\n")
		}
		hc.Targets = append(hc.Targets, t)
	}
	hc.Src = sb.String()
	return hc
}

// runBig: a big file read lazily (every call) and eagerly (ReadAllTargets): exactly the described
// targets in order, then exhaustion. (No re-inspection after every call here: quadratic.)
func runBig(s *kit.Summary, hc *httpCase) {
	writeFiles(hc)
	defer func() {
		for p := range hc.Files {
			os.Remove(p)
		}
	}()
	s.Count(fmt.Sprintf("http:big_file<=%dKiB", 1+len(hc.Src)/1024/25*25+24))
	s.Case("big:"+strconv.Itoa(len(hc.Src))+":"+strconv.Itoa(len(hc.Targets)), true)
	fail := func(mode, obs string) {
		s.Violate(kit.Violation{Kind: "http_parse_mismatch", What: "a big compact http targets file does not decode (" + mode + ") to the targets it describes",
			Input: hc, Expected: fmt.Sprintf("%d targets then ErrNoTargets", len(hc.Targets)), Observed: obs,
			Key: map[string]interface{}{"comment_between_bare_request_lines": false, "bytes": len(hc.Src)}})
	}
	tr := vegeta.NewHTTPTargeter(strings.NewReader(hc.Src), hc.DefaultBody, mkDefaults(hc.Defaults))
	var got []*vegeta.Target
	for i := 0; i <= len(hc.Targets)+1; i++ {
		t := &vegeta.Target{}
		err := safeCall(tr, t)
		if i < len(hc.Targets) {
			if err != nil {
				fail("lazily", fmt.Sprintf("call %d: %v", i, err))
				return
			}
			got = append(got, t)
		} else if !errors.Is(err, vegeta.ErrNoTargets) {
			fail("lazily", fmt.Sprintf("call %d after the last target: %v", i, err))
			return
		}
	}
	for i, t := range hc.Targets {
		if exp := expectedView(hc, t); !eqView(exp, snapshot(got[i])) {
			fail("lazily", fmt.Sprintf("target %d: expected %s, got %s", i, showViewText(exp), showViewText(snapshot(got[i]))))
			return
		}
	}
	tgts, err := safeReadAll(vegeta.NewHTTPTargeter(strings.NewReader(hc.Src), hc.DefaultBody, mkDefaults(hc.Defaults)))
	if err != nil || len(tgts) != len(hc.Targets) {
		fail("eagerly", fmt.Sprintf("%d targets, err %v", len(tgts), err))
		return
	}
	for i, t := range hc.Targets {
		if exp := expectedView(hc, t); !eqView(exp, snapshot(&tgts[i])) {
			fail("eagerly", fmt.Sprintf("target %d: expected %s, got %s", i, showViewText(exp), showViewText(snapshot(&tgts[i]))))
			return
		}
	}
}

// runBigJSON: a JSON targets file of many small lines (well above 64 KiB in total), lazily and eagerly
func runBigJSON(s *kit.Summary, r *kit.Rng, n int) {
	jc := jsonCase{Legal: true, Defaults: map[string][]string{"X-Dflt": {"dv"}}, SpareCap: map[string]int{"X-Dflt": r.Pick(3)}}
	var buf bytes.Buffer
	enc := vegeta.NewJSONTargetEncoder(&buf)
	for i := 0; i < n; i++ {
		t := vegeta.Target{Method: r.PickStr([]string{"GET", "POST", "PUT"}), URL: "http://h/" + strconv.Itoa(i) + "/" + strings.Repeat("q", r.Pick(50))}
		if r.Chance(0.1) {
			t.Header = http.Header{r.PickStr([]string{"X-Dflt", "X-Own"}): {"v" + strconv.Itoa(i)}}
		}
		if r.Chance(0.05) {
			t.Body = []byte("b" + strconv.Itoa(i))
		}
		if err := enc.Encode(&t); err != nil {
			panic(err)
		}
		jc.Targets = append(jc.Targets, ownView(&t))
	}
	jc.Src = buf.String()
	s.Count(fmt.Sprintf("json:big_file<=%dKiB", 1+len(jc.Src)/1024/25*25+24))
	s.Case("bigj:"+strconv.Itoa(len(jc.Src)), true)
	check := func(mode string, get func(i int) (*vegeta.Target, error)) bool {
		for i := 0; i <= n; i++ {
			t, err := get(i)
			if i == n {
				if !errors.Is(err, vegeta.ErrNoTargets) {
					s.Violate(kit.Violation{Kind: "json_parse_mismatch", What: "big JSON file (" + mode + "): no exhaustion after the last target", Input: map[string]int{"targets": n, "bytes": len(jc.Src)}, Observed: fmt.Sprint(err)})
					return false
				}
				continue
			}
			if err != nil || !eqView(expectedJSON(&jc, jc.Targets[i]), snapshot(t)) {
				s.Violate(kit.Violation{Kind: "json_parse_mismatch", What: "big JSON file (" + mode + ") does not decode to the targets it describes", Input: &jc,
					Expected: showViewText(expectedJSON(&jc, jc.Targets[i])), Observed: fmt.Sprintf("target %d: err %v", i, err)})
				return false
			}
		}
		return true
	}
	tr := vegeta.NewJSONTargeter(strings.NewReader(jc.Src), nil, mkJSONDefaults(jc.Defaults, jc.SpareCap))
	if !check("lazily", func(i int) (*vegeta.Target, error) { t := &vegeta.Target{}; return t, safeCall(tr, t) }) {
		return
	}
	tgts, err := safeReadAll(vegeta.NewJSONTargeter(strings.NewReader(jc.Src), nil, mkJSONDefaults(jc.Defaults, jc.SpareCap)))
	check("eagerly", func(i int) (*vegeta.Target, error) {
		if err != nil {
			return nil, err
		}
		if i >= len(tgts) {
			return nil, vegeta.ErrNoTargets
		}
		return &tgts[i], nil
	})
}

// safeReadAll: ReadAllTargets with a panic turned into an error value (a panic in the real code
// must become a violation with the case as input, never kill the harness)
type panicError struct{ msg string }

func (p panicError) Error() string { return "panic: " + p.msg }

func safeReadAll(tr vegeta.Targeter) (tgts []vegeta.Target, err error) {
	if p, msg := kit.Recover(func() { tgts, err = vegeta.ReadAllTargets(tr) }); p {
		return nil, panicError{msg}
	}
	return
}

func safeCall(tr vegeta.Targeter, t *vegeta.Target) (err error) {
	if p, msg := kit.Recover(func() { err = tr(t) }); p {
		return panicError{msg}
	}
	return
}

func isPanic(err error) bool { _, ok := err.(panicError); return ok }

// selectAndDraw composes what attack.go composes: the stream targeter itself (lazy) or
// NewStaticTargeter(ReadAllTargets(tr)...), then m draws; the targets are looked at afterwards.
func selectAndDraw(tr vegeta.Targeter, lazy bool, m int, code func(error) int) (line string, views []tview, codes []int) {
	if !lazy {
		tgts, err := safeReadAll(tr)
		if isPanic(err) {
			return "panic", nil, nil
		}
		if err != nil {
			return "sel-err " + strconv.Itoa(code(err)), nil, nil
		}
		tr = vegeta.NewStaticTargeter(tgts...)
	}
	var held []*vegeta.Target
	for i := 0; i < m; i++ {
		t := &vegeta.Target{}
		if err := safeCall(tr, t); err != nil {
			if isPanic(err) {
				return "panic", nil, nil
			}
			codes = append(codes, code(err))
			held = append(held, nil)
		} else {
			codes = append(codes, 0)
			held = append(held, t)
		}
	}
	line = "ok"
	for i, t := range held {
		if t == nil {
			line += " | err " + strconv.Itoa(codes[i])
			views = append(views, tview{})
		} else {
			v := snapshot(t)
			views = append(views, v)
			line += " | ok " + showView(v)
		}
	}
	return
}

// oracleSelection: eager and lazy selection hand out the same targets — lazily each once, in
// order, then ErrNoTargets; eagerly the same list in rotation.
func oracleSelection(s *kit.Summary, format string, input interface{}, exp []tview, lazyV, eagerV []tview, lazyC, eagerC []int, eagerLine string) {
	n := len(exp)
	bad := ""
	if eagerLine == "panic" || (lazyC == nil && n > 0) {
		bad = "the selected targeter panicked"
	} else if n == 0 {
		if eagerLine != "sel-err 1" {
			bad = "no target: eager selection should fail with ErrNoTargets, got " + eagerLine
		}
	} else {
		for j := 0; j < len(lazyC) && bad == ""; j++ {
			switch {
			case j < n && (lazyC[j] != 0 || !eqView(lazyV[j], exp[j])):
				bad = fmt.Sprintf("lazy draw %d is not target %d", j, j)
			case j >= n && lazyC[j] != 1:
				bad = fmt.Sprintf("lazy draw %d after the last target: code %d", j, lazyC[j])
			}
		}
		if bad == "" && len(eagerC) == 0 {
			bad = "eager selection failed: " + eagerLine
		}
		// eagerly: the same list in rotation; where the rotation starts is not prescribed
		off := -1
		for o := 0; o < n && off < 0 && len(eagerC) > 0; o++ {
			if eagerC[0] == 0 && eqView(eagerV[0], exp[o]) {
				off = o
			}
		}
		if bad == "" && len(eagerC) > 0 && off < 0 {
			bad = "eager draw 0 is none of the described targets"
		}
		for j := 0; j < len(eagerC) && bad == ""; j++ {
			if eagerC[j] != 0 || !eqView(eagerV[j], exp[(j+off)%n]) {
				bad = fmt.Sprintf("eager draw %d is not the successor of draw %d in the rotation over the %d targets", j, j-1, n)
			}
		}
	}
	if bad != "" {
		s.Violate(kit.Violation{Kind: format + "_attack_selection", What: "eager and lazy target selection do not hand out the described targets", Input: input, Observed: bad})
	}
}

func corpusDir() string {
	if exe, err := os.Executable(); err == nil {
		d := filepath.Join(filepath.Dir(exe), "..", "corpus", "C14")
		if _, err := os.Stat(d); err == nil {
			return d
		}
	}
	return "/verif/corpus/C14"
}

func mergeSummary(s, sub *kit.Summary) {
	s.Evaluations += sub.Evaluations
	for k, v := range sub.Dist {
		s.CountN(k, v)
	}
	for k, v := range sub.Skipped {
		s.Skipped[k] += v
	}
	for _, v := range sub.Violations {
		s.Violate(v)
	}
}

func bucket(n int) int {
	for _, b := range []int{1, 2, 5, 10, 25, 50} {
		if n <= b {
			return b
		}
	}
	return 50
}

func equalTargets(a, b *vegeta.Target) bool {
	if a.Method != b.Method || a.URL != b.URL || !bytes.Equal(a.Body, b.Body) {
		return false
	}
	ha, hb := map[string][]string{}, map[string][]string{}
	for k, vs := range a.Header {
		ha[k] = vs
	}
	for k, vs := range b.Header {
		hb[k] = vs
	}
	return eqHeader(ha, hb)
}

// oracleReadAll: eager mode returns exactly the stream's targets in order; ErrNoTargets only
// for an empty stream; any other error aborts.
func oracleReadAll(s *kit.Summary, format string, input interface{}, codes []int, lazy []tview, tgts []vegeta.Target, err error, code func(error) int) {
	got := len(tgts)
	// the lazily observed stream: codes until the first non-zero
	n := 0
	first := 0
	for _, c := range codes {
		if c != 0 {
			first = c
			break
		}
		n++
	}
	if first == 0 {
		return // the lazy run was cut before the stream ended
	}
	var bad string
	switch {
	case isPanic(err):
		bad = "ReadAllTargets panicked: " + err.Error()
	case first == 1 && n == 0:
		if !errors.Is(err, vegeta.ErrNoTargets) {
			bad = fmt.Sprintf("empty stream: expected ErrNoTargets, got %v", err)
		}
	case first == 1:
		if err != nil || got != n {
			bad = fmt.Sprintf("expected %d targets, got %d (err %v)", n, got, err)
		} else {
			// exactly the stream's targets, in order (looked at after the whole read)
			for k := 0; k < n && k < len(lazy); k++ {
				if v := snapshot(&tgts[k]); !eqView(v, lazy[k]) {
					bad = fmt.Sprintf("target %d: lazily %s, eagerly %s", k, showViewText(lazy[k]), showViewText(v))
					break
				}
			}
		}
	default:
		if err == nil || code(err) != first {
			bad = fmt.Sprintf("stream fails with code %d after %d targets: expected that error, got %d targets, err %v", first, n, got, err)
		}
	}
	if bad != "" {
		s.Violate(kit.Violation{Kind: format + "_read_all_targets", What: "ReadAllTargets differs from the lazily produced stream", Input: input, Observed: bad})
	}
}
