package main

// End-to-end runs of the real `vegeta attack` command (the binary built with -tags verif,
// run as the normal CLI) against a local HTTP server: the glue in attack.go that turns
// -max-body, -redirects, -chunked, -name and -header into attacker options and targets.
// The oracle is the property's own text evaluated on the decoded results and on the
// requests the server received.

import (
	"encoding/base64"
	"fmt"
	"io"
	"net/http"
	"net/http/httptest"
	"os"
	"os/exec"
	"path/filepath"
	"strconv"
	"strings"
	"sync"
	"time"

	vegeta "github.com/tsenart/vegeta/v12/lib"
	"vharness/kit"
	"vharness/run"
)

type e2eReq struct {
	method, path, host, attack string
	body                       []byte
	te                         []string
	custom                     []string
	cookie                     []string
}

type e2eServer struct {
	mu     sync.Mutex
	reqs   map[string][]e2eReq      // by X-Vegeta-Seq
	byPath map[string][]http.Header // request headers by URL path
	srv    *httptest.Server
}

func e2eBody(n int) []byte {
	b := make([]byte, n)
	for i := range b {
		b[i] = byte('a' + i%23)
	}
	return b
}

func newE2EServer() *e2eServer {
	es := &e2eServer{reqs: map[string][]e2eReq{}, byPath: map[string][]http.Header{}}
	es.srv = httptest.NewServer(http.HandlerFunc(func(w http.ResponseWriter, r *http.Request) {
		body, _ := io.ReadAll(r.Body)
		es.mu.Lock()
		seq := r.Header.Get("X-Vegeta-Seq")
		es.byPath[r.URL.Path] = append(es.byPath[r.URL.Path], r.Header.Clone())
		es.reqs[seq] = append(es.reqs[seq], e2eReq{method: r.Method, path: r.URL.Path, host: r.Host, attack: strings.Join(r.Header["X-Vegeta-Attack"], ","),
			body: body, te: append([]string(nil), r.TransferEncoding...), custom: r.Header["X-E2e"], cookie: append([]string(nil), r.Header["Cookie"]...)})
		es.mu.Unlock()
		// headers a stateful client would act upon (hit must not: every exchange stands for itself)
		w.Header().Add("Set-Cookie", "sid=31337; Path=/")
		w.Header().Add("Set-Cookie", "theme=dark; Path=/; Max-Age=3600")
		w.Header().Set("Set-Cookie2", "sid2=7; Version=1; Path=/")
		w.Header().Set("Alt-Svc", `h2=":443"; ma=3600`)
		parts := strings.Split(strings.Trim(r.URL.Path, "/"), "/")
		n := 0
		if len(parts) == 2 {
			n, _ = strconv.Atoi(parts[1])
		}
		switch parts[0] {
		case "b":
			// unknown length: flushed in two parts, so net/http sends it chunked
			w.Header().Set("X-Served", "body")
			w.WriteHeader(200)
			b := e2eBody(n)
			w.Write(b[:n/2])
			if f, ok := w.(http.Flusher); ok {
				f.Flush()
			}
			w.Write(b[n/2:])
		case "c":
			// declared length (a HEAD request gets the same headers and no body)
			w.Header().Set("X-Served", "body")
			w.Header().Set("Content-Length", strconv.Itoa(n))
			w.WriteHeader(200)
			w.Write(e2eBody(n))
		case "raw", "short":
			// written by hand: close-delimited body without any length ("raw"), or a declared
			// length that is 50 bytes more than what is delivered before the close ("short")
			hj, ok := w.(http.Hijacker)
			if !ok {
				w.WriteHeader(500)
				return
			}
			conn, buf, err := hj.Hijack()
			if err != nil {
				return
			}
			head := "HTTP/1.1 200 OK\r\nConnection: close\r\nX-Served: body\r\n"
			if parts[0] == "short" {
				head += "Content-Length: " + strconv.Itoa(n+50) + "\r\n"
			}
			buf.WriteString(head + "\r\n")
			if r.Method != "HEAD" {
				buf.Write(e2eBody(n))
			}
			buf.Flush()
			conn.Close()
		case "s":
			w.Header().Set("X-Served", "status")
			w.WriteHeader(n)
			w.Write([]byte("status body")) // refused by net/http for 204 and 304
		case "slow":
			// a few bytes, then nothing until the client gives up: the body fails midway
			w.Header().Set("Content-Length", "1000")
			w.WriteHeader(200)
			w.Write([]byte("hello"))
			if f, ok := w.(http.Flusher); ok {
				f.Flush()
			}
			select {
			case <-r.Context().Done():
			case <-time.After(3 * time.Second):
			}
		case "r":
			if n > 0 {
				http.Redirect(w, r, fmt.Sprintf("/r/%d", n-1), http.StatusFound)
				return
			}
			w.Write([]byte("landed"))
		default:
			w.WriteHeader(404)
		}
	}))
	return es
}

type e2eRun struct {
	name      string
	args      []string
	path      string
	method    string
	body      string
	maxBody   int // -1 unlimited
	attack    string
	chunked   bool
	redirects int  // as given to -redirects (10 = default)
	cookie    bool // the target has its own header `Cookie: lang=en`
}

func runE2E(c *run.Ctx, s *kit.Summary) {
	if _, err := os.Stat(c.Vegeta); err != nil {
		s.Skipped["vegeta_binary_unavailable"]++
		return
	}
	es := newE2EServer()
	defer es.srv.Close()
	runRealSession(s, es)
	runE2ELazy(c, s, es)
	es.mu.Lock()
	es.reqs, es.byPath = map[string][]e2eReq{}, map[string][]http.Header{}
	es.mu.Unlock()
	runs := []e2eRun{
		{name: "maxbody10_name_chunked", args: []string{"-max-body", "10", "-name", "e2e-a", "-chunked"}, path: "/b/1000", method: "POST", body: "payload", maxBody: 10, attack: "e2e-a", chunked: true, redirects: 10},
		{name: "defaults_follow3", args: nil, path: "/r/3", method: "GET", maxBody: -1, redirects: 10},
		{name: "default_limit_follows_10", args: nil, path: "/r/10", method: "GET", maxBody: -1, redirects: 10},
		{name: "default_limit_stops_at_11", args: nil, path: "/r/11", method: "GET", maxBody: -1, redirects: 10},
		{name: "redirects9_follows_9", args: []string{"-redirects", "9"}, path: "/r/9", method: "GET", maxBody: -1, redirects: 9},
		{name: "redirects11_follows_11", args: []string{"-redirects", "11"}, path: "/r/11", method: "GET", maxBody: -1, redirects: 11},
		{name: "redirects0_stops_at_1", args: []string{"-redirects", "0"}, path: "/r/1", method: "GET", maxBody: -1, redirects: 0},
		{name: "redirects2_stop", args: []string{"-redirects", "2", "-name", "e2e-c"}, path: "/r/3", method: "GET", maxBody: -1, attack: "e2e-c", redirects: 2},
		{name: "redirects3_follow", args: []string{"-redirects", "3"}, path: "/r/3", method: "GET", maxBody: -1, redirects: 3},
		{name: "nofollow", args: []string{"-redirects", "-1", "-max-body", "-1"}, path: "/r/3", method: "GET", maxBody: -1, redirects: -1},
		{name: "maxbody0_404", args: []string{"-max-body", "0"}, path: "/s/404", method: "PUT", body: "x", maxBody: 0, redirects: 10},
		{name: "timeout_midbody", args: []string{"-timeout", "300ms", "-name", "e2e-t"}, path: "/slow/1", method: "POST", body: "abc", maxBody: -1, attack: "e2e-t", redirects: 10},
		{name: "head_declared_length", args: nil, path: "/c/1000", method: "HEAD", maxBody: -1, redirects: 10},
		{name: "head_declared_length_maxbody", args: []string{"-max-body", "2000"}, path: "/c/1000", method: "HEAD", maxBody: 2000, redirects: 10},
		{name: "head_chunked", args: nil, path: "/b/100", method: "HEAD", maxBody: -1, redirects: 10},
		{name: "delete_body_declared", args: nil, path: "/c/50", method: "DELETE", body: "del", maxBody: -1, redirects: 10},
		{name: "options_chunked", args: nil, path: "/b/3000", method: "OPTIONS", maxBody: -1, redirects: 10},
		{name: "patch_close_delimited", args: []string{"-max-body", "300"}, path: "/raw/300", method: "PATCH", body: "p", maxBody: 300, redirects: 10},
		{name: "put_declared_maxbody_smaller", args: []string{"-max-body", "10"}, path: "/c/1000", method: "PUT", body: "put", maxBody: 10, redirects: 10},
		{name: "get_declared_longer_than_delivered", args: nil, path: "/short/100", method: "GET", maxBody: -1, redirects: 10},
		{name: "get_204", args: nil, path: "/s/204", method: "GET", maxBody: -1, redirects: 10},
		{name: "get_304", args: nil, path: "/s/304", method: "GET", maxBody: -1, redirects: 10},
		{name: "maxbody_exact", args: []string{"-max-body", "70000"}, path: "/b/70000", method: "GET", maxBody: 70000, redirects: 10},
	}
	for _, rn := range runs {
		s.Count("e2e:" + rn.name)
		s.Case("e2e:"+rn.name, true)
		viol := func(kind, what, exp, obs string) {
			s.Violate(kit.Violation{Kind: kind, What: "vegeta attack " + strings.Join(rn.args, " ") + ": " + what,
				Input:    map[string]interface{}{"e2e": rn.name, "args": rn.args, "path": rn.path, "method": rn.method, "body": rn.body},
				Expected: exp, Observed: obs, Key: map[string]interface{}{"e2e": rn.name}})
		}
		rn.cookie = rn.cookie || len(rn.name)%2 == 0 // about half of the runs: the target brings its own Cookie header
		hdr := `{"X-E2e":["yes","twice"]}`
		if rn.cookie {
			hdr = `{"X-E2e":["yes","twice"],"Cookie":["lang=en"]}`
		}
		if rn.cookie {
			s.Count("e2e:target_with_cookie_header")
		}
		tgt := fmt.Sprintf(`{"method":%q,"url":%q,"header":%s`, rn.method, es.srv.URL+rn.path, hdr)
		if rn.body != "" {
			tgt += fmt.Sprintf(`,"body":%q`, base64.StdEncoding.EncodeToString([]byte(rn.body)))
		}
		tgt += "}\n"
		tf := filepath.Join(c.Work, "e2e_"+rn.name+".json")
		of := filepath.Join(c.Work, "e2e_"+rn.name+".bin")
		os.WriteFile(tf, []byte(tgt), 0o644)
		args := append([]string{"attack", "-format", "json", "-targets", tf, "-output", of, "-rate", "25/1s", "-duration", "200ms", "-workers", "2", "-timeout", "10s"}, rn.args...)
		cmd := exec.Command(c.Vegeta, args...)
		cmd.Env = append(os.Environ(), "VEGETA_VERIF_DRIVER=")
		done := make(chan error, 1)
		var out []byte
		go func() { var err error; out, err = cmd.CombinedOutput(); done <- err }()
		select {
		case err := <-done:
			if err != nil {
				s.Skipped["e2e_attack_failed"]++
				s.Extra["e2e_error_"+rn.name] = fmt.Sprintf("%v: %s", err, clip(string(out), 500))
				continue
			}
		case <-time.After(60 * time.Second):
			cmd.Process.Kill()
			<-done
			s.Skipped["e2e_attack_timeout"]++
			continue
		}
		f, err := os.Open(of)
		if err != nil {
			s.Skipped["e2e_no_output"]++
			continue
		}
		dec := vegeta.NewDecoder(f)
		n := 0
		for {
			var r vegeta.Result
			if err := dec.Decode(&r); err != nil {
				break
			}
			n++
			// what the server would send for this path under the policy
			var sent []byte
			wantCode := 200
			wantErrEmpty := true
			policyStop := false
			failMid := false // the body ends with an error after some bytes
			num := func() int { k, _ := strconv.Atoi(rn.path[strings.LastIndex(rn.path, "/")+1:]); return k }
			switch {
			case strings.HasPrefix(rn.path, "/b/"), strings.HasPrefix(rn.path, "/c/"), strings.HasPrefix(rn.path, "/raw/"):
				sent = e2eBody(num())
			case strings.HasPrefix(rn.path, "/short/"):
				sent = e2eBody(num())
				failMid = rn.method != "HEAD"
			case strings.HasPrefix(rn.path, "/slow/"):
				sent = []byte("hello")
				failMid = true
			case strings.HasPrefix(rn.path, "/s/"):
				wantCode = num()
				sent = []byte("status body")
				if wantCode == 204 || wantCode == 304 {
					sent = nil
				}
				wantErrEmpty = wantCode >= 200 && wantCode < 400
			case strings.HasPrefix(rn.path, "/r/"):
				k, _ := strconv.Atoi(rn.path[3:])
				switch {
				case rn.redirects == -1:
					wantCode = 302
					sent = nil // body of the redirect response: not checked
				case rn.redirects < k:
					policyStop = true
				default:
					sent = []byte("landed")
				}
			}
			if rn.method == "HEAD" {
				sent = nil // the answer to HEAD has headers (and a declared length) but no body
			}
			if r.Attack != rn.attack {
				s.Count("note:e2e_result_attack_differs_from_name_flag") // what -name means is not this property's text
			}
			if r.Method != rn.method || r.URL != es.srv.URL+rn.path {
				viol("cli_method_url", "result does not carry the target's method and URL", rn.method+" "+rn.path, r.Method+" "+r.URL)
			}
			if failMid {
				// body read error midway (client timeout while reading, or the connection closed
				// before the declared length was delivered)
				if r.Error == "" || (r.Code >= 200 && r.Code < 400) {
					viol("cli_failed_exchange", "body failed midway but the result has no error / a success status", "error, no success code", fmt.Sprint(r.Code, " ", r.Error))
				}
				if !strings.HasPrefix(string(sent), string(r.Body)) {
					viol("cli_max_body", "captured body is not a prefix of what the server sent", fmt.Sprintf("prefix of %d bytes", len(sent)), fmt.Sprintf("%d bytes", len(r.Body)))
				}
				if r.BytesIn != uint64(len(r.Body)) || r.BytesOut != uint64(len(rn.body)) {
					viol("hit_body_read_error_byte_counts", "body read error: bytes-in differs from the captured length or bytes-out from the request body length",
						fmt.Sprint(len(r.Body), len(rn.body)), fmt.Sprint(r.BytesIn, r.BytesOut))
				}
				s.Count(fmt.Sprintf("e2e:%s_captured=%d", rn.name, len(r.Body)))
			} else if policyStop {
				if r.Error == "" || (r.Code >= 200 && r.Code < 400) {
					viol("cli_redirects", "redirect limit exceeded but the result has no error / a success status", "error, no success code", fmt.Sprint(r.Code, " ", r.Error))
				}
			} else {
				if int(r.Code) != wantCode {
					viol("cli_redirects_or_code", "result does not carry the final status code", fmt.Sprint(wantCode), fmt.Sprint(r.Code, " ", r.Error))
				}
				if (r.Error == "") != wantErrEmpty {
					viol("cli_error_iff", "error text empty/non-empty does not match the status", fmt.Sprint(wantErrEmpty), r.Error)
				}
				if !(rn.redirects == -1 && strings.HasPrefix(rn.path, "/r/")) {
					want := sent
					if rn.maxBody >= 0 && len(want) > rn.maxBody {
						want = want[:rn.maxBody]
					}
					if string(r.Body) != string(want) {
						viol("cli_max_body", "captured body is not the first max-body bytes of the response", fmt.Sprintf("%d bytes", len(want)), fmt.Sprintf("%d bytes", len(r.Body)))
					}
				}
				if r.BytesIn != uint64(len(r.Body)) || r.BytesOut != uint64(len(rn.body)) {
					viol("cli_byte_counts", "bytes-in / bytes-out differ from captured length / request body length", fmt.Sprint(len(r.Body), len(rn.body)), fmt.Sprint(r.BytesIn, r.BytesOut))
				}
				if wantCode == 200 && !strings.HasPrefix(rn.path, "/r/") && r.Headers.Get("X-Served") != "body" {
					viol("cli_headers", "result does not carry the response headers", "X-Served: body", fmt.Sprint(r.Headers))
				}
			}
			// the request(s) the server saw for this sequence number
			es.mu.Lock()
			seen := es.reqs[strconv.FormatUint(r.Seq, 10)]
			es.mu.Unlock()
			if len(seen) == 0 {
				viol("cli_seq_header", "no request with the result's sequence number reached the server", fmt.Sprint(r.Seq), "")
				continue
			}
			first := seen[0]
			if first.method != rn.method || first.path != rn.path || string(first.body) != rn.body {
				viol("cli_request", "request differs from the target", rn.method+" "+rn.path+" "+rn.body, first.method+" "+first.path+" "+string(first.body))
			}
			if first.attack != r.Attack {
				viol("cli_attack_header", "attack-name header does not match the result", r.Attack, first.attack)
			}
			if strings.Join(first.custom, ",") != "yes,twice" {
				viol("cli_target_header", "target header values did not reach the server", "yes,twice", strings.Join(first.custom, ","))
			}
			// the target's own Cookie header arrives as given, whatever earlier responses of this attack
			// asked a stateful client to remember; a Cookie header the target does not have is only noted
			// (the text does not say "nothing else")
			if rn.cookie && strings.Join(first.cookie, "|") != "lang=en" {
				viol("cli_target_header", "the target's Cookie header did not reach the server as given (a later hit of the same attack)", "lang=en", strings.Join(first.cookie, "|"))
			} else if !rn.cookie && len(first.cookie) > 0 {
				s.Count("note:e2e_cookie_header_beyond_target")
			}
			isChunked := len(first.te) == 1 && first.te[0] == "chunked"
			if rn.body != "" && isChunked != rn.chunked {
				s.Count("note:e2e_transfer_encoding_differs_from_chunked_flag") // the text says nothing about the encoding
			}
			// how many requests a hit makes is not prescribed by the text (the outcome is, above): noted only
			if strings.HasPrefix(rn.path, "/r/") {
				s.Count(fmt.Sprintf("note:e2e_requests_per_hit=%d", len(seen)))
			}
		}
		f.Close()
		es.mu.Lock()
		es.reqs = map[string][]e2eReq{}
		es.mu.Unlock()
		if n == 0 {
			s.Skipped["e2e_no_results"]++
		}
		s.CountN("e2e:results", n)
	}
}

// runRealSession: several hits of ONE attacker with its own http.Client (no Client option) against the
// real server, whose responses (final and redirect hops) carry Set-Cookie, Set-Cookie2 and Alt-Svc:
// every later request must still have the target's headers as given.
func runRealSession(s *kit.Summary, es *e2eServer) {
	atk := vegeta.NewAttacker(vegeta.Timeout(5*time.Second), vegeta.KeepAlive(false))
	va := vegeta.VerifNewAttack("session", time.Now(), 0)
	type tg struct {
		path   string
		cookie []string
	}
	tgs := []tg{{"/c/10", nil}, {"/c/10", []string{"lang=en"}}, {"/r/2", []string{"lang=en", "a=b"}}, {"/c/10", nil}, {"/r/1", nil}, {"/s/404", []string{"lang=en"}}, {"/c/10", []string{"sid=mine"}}}
	var sofar []string
	for i, t := range tgs {
		s.Count("session:hits_of_one_attacker_real_transport")
		s.Case(fmt.Sprint("session:", i), true)
		sofar = append(sofar, t.path)
		var res *vegeta.Result
		kit.Recover(func() {
			res = atk.VerifHit(func(x *vegeta.Target) error {
				x.Method, x.URL = "GET", es.srv.URL+t.path
				x.Header = http.Header{"X-E2e": {"yes", "twice"}}
				if t.cookie != nil {
					x.Header["Cookie"] = append([]string(nil), t.cookie...)
				}
				return nil
			}, va)
		})
		if res == nil {
			continue
		}
		es.mu.Lock()
		seen := es.reqs[strconv.FormatUint(res.Seq, 10)]
		es.mu.Unlock()
		if len(seen) == 0 {
			continue
		}
		first := seen[0]
		if t.cookie != nil && strings.Join(first.cookie, "|") != strings.Join(t.cookie, "|") {
			s.Violate(kit.Violation{Kind: "req_header_case", What: "a later hit of the same attacker: the target's Cookie header did not reach the transport with its original values",
				Input:    map[string]interface{}{"e2e": "session", "hits_so_far": sofar, "target_cookie": t.cookie},
				Expected: strings.Join(t.cookie, "|"), Observed: strings.Join(first.cookie, "|"), Key: map[string]interface{}{"e2e": "session", "hit": i}})
		} else if t.cookie == nil && len(first.cookie) > 0 {
			s.Count("note:session_cookie_header_beyond_target")
		}
		if strings.Join(first.custom, ",") != "yes,twice" {
			s.Violate(kit.Violation{Kind: "req_header_case", What: "a later hit of the same attacker: a target header did not reach the transport with its original values",
				Input: map[string]interface{}{"e2e": "session", "hits_so_far": sofar}, Expected: "yes,twice", Observed: strings.Join(first.custom, ","),
				Key: map[string]interface{}{"e2e": "session", "hit": i}})
		}
	}
	es.mu.Lock()
	es.reqs = map[string][]e2eReq{}
	es.mu.Unlock()
}

func clip(s string, n int) string {
	if len(s) > n {
		return s[:n]
	}
	return s
}
