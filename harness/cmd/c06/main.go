// Harness of property C06: the real (*Attacker).hit driven through a real http.Client
// whose Transport is a scripted fake (redirect handling is the real net/http code),
// response bodies that record every Read/Close, compared with the Lean model
// (Vegeta.Model.Hit) and judged by an oracle written from the property text.
package main

import (
	"encoding/json"
	"errors"
	"fmt"
	"io"
	"net/http"
	"net/url"
	"os"
	"sort"
	"strconv"
	"strings"
	"time"

	vegeta "github.com/tsenart/vegeta/v12/lib"
	"vharness/kit"
	"vharness/run"
)

func main() { run.Main("C06", runC06) }

// ---------- case description (JSON-serialisable: it is the replay input) ----------

type hdrEntry struct {
	Key  string   `json:"key"`
	Vals []string `json:"vals"`
}

type respSpec struct {
	Status      int        `json:"status"`
	StatusText  string     `json:"status_text"`
	Header      []hdrEntry `json:"header"`
	Body        []byte     `json:"body"`
	FailAfter   int        `json:"fail_after"` // -1: the body ends with EOF
	ReadErr     string     `json:"read_err"`
	EndWithData bool       `json:"end_with_data"`
	// Response.ContentLength as net/http would report it: "" / "unknown" = -1 (chunked or
	// close-delimited), "exact" = the body length, "head:<n>" = n although the body is empty
	// (the answer to a HEAD request carries the Content-Length of the entity it does not send)
	Length string `json:"length,omitempty"`
}

func (rs *respSpec) contentLength() int64 {
	switch {
	case rs.Length == "exact":
		return int64(len(rs.Body))
	case strings.HasPrefix(rs.Length, "head:"):
		n, _ := strconv.ParseInt(rs.Length[5:], 10, 64)
		return n
	}
	return -1
}

type hitCase struct {
	TargeterErr   string     `json:"targeter_err,omitempty"`   // non-empty: the targeter fails with this text
	TargeterFills bool       `json:"targeter_fills,omitempty"` // the failing targeter has already written the target
	Method        string     `json:"method"`
	URL           string     `json:"url"`
	Body          []byte     `json:"body"`
	Header        []hdrEntry `json:"header"`
	MaxBody       int64      `json:"max_body"`
	Chunked       bool       `json:"chunked"`
	RedirSet      bool       `json:"redirects_set"`
	Redirects     int        `json:"redirects"`
	Name          string     `json:"name"`
	Seq           uint64     `json:"seq"`
	Hops          []respSpec `json:"hops"`          // redirect responses (Location header included)
	TransportErr  string     `json:"transport_err"` // non-empty: the last RoundTrip fails with this text
	Final         *respSpec  `json:"final,omitempty"`
	Chunks        []int      `json:"chunks"`
}

// ---------- fakes ----------

type bodyEv struct {
	kind byte // 'r' read n, 'e' eof, 'x' error, 'c' close, 'a' read after close
	n    int
}

type fakeBody struct {
	data        []byte // bytes that will be delivered
	fails       bool
	errText     string
	endWithData bool
	chunks      []int
	pos         int
	closed      bool
	log         []bodyEv
}

func newFakeBody(rs *respSpec, chunks []int) *fakeBody {
	b := &fakeBody{data: rs.Body, errText: rs.ReadErr, endWithData: rs.EndWithData, chunks: append([]int(nil), chunks...)}
	if rs.FailAfter >= 0 {
		k := rs.FailAfter
		if k > len(rs.Body) {
			k = len(rs.Body)
		}
		b.data = rs.Body[:k]
		b.fails = true
	}
	return b
}

func (b *fakeBody) term() error {
	if b.fails {
		b.log = append(b.log, bodyEv{'x', 0})
		return errors.New(b.errText)
	}
	b.log = append(b.log, bodyEv{'e', 0})
	return io.EOF
}

func (b *fakeBody) Read(p []byte) (int, error) {
	if b.closed {
		b.log = append(b.log, bodyEv{'a', 0})
		return 0, errors.New("read after close")
	}
	rem := len(b.data) - b.pos
	if rem == 0 {
		return 0, b.term()
	}
	c := rem
	if len(b.chunks) > 0 {
		c = b.chunks[0]
		b.chunks = b.chunks[1:]
		if c == 0 {
			c = 1
		}
	}
	n := c
	if n > len(p) {
		n = len(p)
	}
	if n > rem {
		n = rem
	}
	if n == 0 { // zero-length buffer: nothing to report
		return 0, nil
	}
	copy(p, b.data[b.pos:b.pos+n])
	b.pos += n
	b.log = append(b.log, bodyEv{'r', n})
	if n == rem && b.endWithData {
		return n, b.term()
	}
	return n, nil
}

func (b *fakeBody) Close() error {
	b.closed = true
	b.log = append(b.log, bodyEv{'c', 0})
	return nil
}

// summary in the driver's format: total eofs errs closes shape
func (b *fakeBody) summary() (total, eofs, errs, closes int, shape bool) {
	i := 0
	for _, e := range b.log {
		switch e.kind {
		case 'r':
			total += e.n
		case 'e':
			eofs++
		case 'x':
			errs++
		case 'c':
			closes++
		}
	}
	for i < len(b.log) && b.log[i].kind == 'r' {
		i++
	}
	j := i
	for j < len(b.log) && (b.log[j].kind == 'e' || b.log[j].kind == 'x') {
		j++
	}
	shape = j > i && j == len(b.log)-1 && b.log[j].kind == 'c'
	return
}

type seenReq struct {
	method, url, host string
	body              []byte
	bodyNil           bool
	cl                int64
	te                []string
	header            http.Header
}

type fakeTransport struct {
	c      *hitCase
	calls  int
	first  *seenReq
	bodies []*fakeBody // body of the response of each call (nil when the call failed)
}

func mkHeader(es []hdrEntry) http.Header {
	h := http.Header{}
	for _, e := range es {
		h[e.Key] = append([]string{}, e.Vals...)
	}
	return h
}

func (ft *fakeTransport) RoundTrip(req *http.Request) (*http.Response, error) {
	i := ft.calls
	ft.calls++
	var rb []byte
	if req.Body != nil {
		rb, _ = io.ReadAll(req.Body)
		req.Body.Close()
	}
	if i == 0 {
		ft.first = &seenReq{method: req.Method, url: req.URL.String(), host: req.Host, body: rb, bodyNil: req.Body == nil,
			cl: req.ContentLength, te: append([]string(nil), req.TransferEncoding...), header: req.Header.Clone()}
	}
	var rs *respSpec
	switch {
	case i < len(ft.c.Hops):
		rs = &ft.c.Hops[i]
	case ft.c.TransportErr != "" || ft.c.Final == nil:
		ft.bodies = append(ft.bodies, nil)
		return nil, errors.New(ft.c.TransportErr)
	default:
		rs = ft.c.Final
	}
	fb := newFakeBody(rs, ft.c.Chunks)
	ft.bodies = append(ft.bodies, fb)
	return &http.Response{
		Status: rs.StatusText, StatusCode: rs.Status, Proto: "HTTP/1.1", ProtoMajor: 1, ProtoMinor: 1,
		Header: mkHeader(rs.Header), Body: fb, ContentLength: rs.contentLength(), Request: req,
	}, nil
}

// ---------- line protocol ----------

func hdrTokens(es []hdrEntry) string {
	var sb strings.Builder
	sb.WriteString(strconv.Itoa(len(es)))
	for _, e := range es {
		sb.WriteString(" " + kit.HexS(e.Key) + " " + strconv.Itoa(len(e.Vals)))
		for _, v := range e.Vals {
			sb.WriteString(" " + kit.HexS(v))
		}
	}
	return sb.String()
}

func sortedHeaderTokens(h http.Header) string {
	keys := make([]string, 0, len(h))
	for k := range h {
		keys = append(keys, k)
	}
	sort.Strings(keys)
	es := make([]hdrEntry, len(keys))
	for i, k := range keys {
		es[i] = hdrEntry{k, h[k]}
	}
	return hdrTokens(es)
}

func respTokens(rs *respSpec) string {
	return fmt.Sprintf("%d %s %s %s %d %s %s %d", rs.Status, kit.HexS(rs.StatusText), hdrTokens(rs.Header), kit.Hex(rs.Body),
		rs.FailAfter, kit.HexS(rs.ReadErr), kit.B(rs.EndWithData), rs.contentLength())
}

func urlErrorOp(method string) string {
	if method == "" {
		return "Get"
	}
	for i := 0; i < len(method); i++ {
		if method[i] < 0x20 || method[i] > 0x7e {
			return method
		}
	}
	return method[:1] + strings.ToLower(method[1:])
}

// urlErrPrefix is the text a *url.Error puts before the inner error.
func urlErrPrefix(method, u string) string {
	const marker = "\x00MARK"
	s := (&url.Error{Op: urlErrorOp(method), URL: u, Err: errors.New(marker)}).Error()
	return strings.TrimSuffix(s, marker)
}

// parseLikeNewRequest is what http.NewRequest does with the URL text: url.Parse, then an
// empty port ("host:") is removed from the host.
func parseLikeNewRequest(raw string) (*url.URL, error) {
	u, err := url.Parse(raw)
	if err != nil {
		return nil, err
	}
	if h := u.Host; strings.HasSuffix(h, ":") && (strings.HasSuffix(h, "]:") || strings.Count(h, ":") == 1) {
		u.Host = strings.TrimSuffix(h, ":")
	}
	return u, nil
}

func locationOf(rs *respSpec) string {
	return mkHeader(rs.Header).Get("Location")
}

// opLine renders the case for the Lean driver; the url/request-error parameters come
// from the standard library (url.Parse / http.NewRequest), not from the code under test.
func opLine(c *hitCase) string {
	var sb strings.Builder
	sb.WriteString("c06.hit ")
	if c.TargeterErr != "" {
		sb.WriteString("1 " + kit.HexS(c.TargeterErr) + " ")
	} else {
		sb.WriteString("0 ")
	}
	sb.WriteString(kit.HexS(c.Method) + " " + kit.HexS(c.URL) + " " + kit.Hex(c.Body) + " " + hdrTokens(c.Header) + " ")
	ustr, uhost, uerr, uok := "", "", "", false
	if u, err := parseLikeNewRequest(c.URL); err == nil {
		uok = true
		ustr = u.String()
		uhost = u.Host
	}
	if _, err := http.NewRequest(c.Method, c.URL, nil); err != nil {
		uerr = err.Error()
	}
	sb.WriteString(kit.B(uok) + " " + kit.HexS(ustr) + " " + kit.HexS(uhost) + " " + kit.HexS(uerr) + " ")
	sb.WriteString(fmt.Sprintf("%d %s %s %d %s %d ", c.MaxBody, kit.B(c.Chunked), kit.B(c.RedirSet), c.Redirects, kit.HexS(c.Name), c.Seq))
	sb.WriteString(strconv.Itoa(len(c.Hops)))
	for i := range c.Hops {
		sb.WriteString(" " + respTokens(&c.Hops[i]) + " " + kit.HexS(urlErrPrefix(c.Method, locationOf(&c.Hops[i]))))
	}
	if c.TransportErr != "" || c.Final == nil {
		// the failing request goes to the last Location (or to the target's URL)
		u := ustr
		if n := len(c.Hops); n > 0 {
			u = locationOf(&c.Hops[n-1])
		}
		sb.WriteString(" 0 " + kit.HexS(urlErrPrefix(c.Method, u)+c.TransportErr))
	} else {
		sb.WriteString(" 1 " + respTokens(c.Final))
	}
	sb.WriteString(" " + strconv.Itoa(len(c.Chunks)))
	for _, k := range c.Chunks {
		sb.WriteString(" " + strconv.Itoa(k))
	}
	return sb.String()
}

// ---------- running the real code ----------

type hitOut struct {
	res      *vegeta.Result
	ft       *fakeTransport
	stopped  bool
	panicked bool
	panicMsg string
	obtained *fakeBody // body of the response hit obtained from client.Do (nil: none)
	lastSpec *respSpec
}

// session: one attacker and one attack shared by a sequence of hits (state carried from hit
// to hit: the sequence counter, the client, a sticky stop flag).
type session struct {
	atk     *vegeta.Attacker
	va      *vegeta.VerifAttack
	ft      *fakeTransport
	stopped bool
}

func newSession(c *hitCase) *session {
	ft := &fakeTransport{c: c}
	opts := []func(*vegeta.Attacker){
		vegeta.Client(&http.Client{Transport: ft}),
		vegeta.MaxBody(c.MaxBody),
		vegeta.ChunkedBody(c.Chunked),
	}
	if c.RedirSet {
		opts = append(opts, vegeta.Redirects(c.Redirects))
	}
	return &session{atk: vegeta.NewAttacker(opts...), va: vegeta.VerifNewAttack(c.Name, time.Now(), c.Seq), ft: ft}
}

func runHit(c *hitCase) *hitOut { return newSession(c).hit(c) }

func (ss *session) hit(c *hitCase) *hitOut {
	ft := ss.ft
	ft.c, ft.calls, ft.first, ft.bodies = c, 0, nil, nil
	tr := func(t *vegeta.Target) error {
		if c.TargeterErr != "" && !c.TargeterFills {
			return errors.New(c.TargeterErr)
		}
		t.Method, t.URL = c.Method, c.URL
		t.Body = c.Body
		if c.Header != nil {
			t.Header = mkHeader(c.Header)
		}
		if c.TargeterErr != "" {
			return errors.New(c.TargeterErr)
		}
		return nil
	}
	o := &hitOut{}
	o.panicked, o.panicMsg = kit.Recover(func() { o.res = ss.atk.VerifHit(tr, ss.va) })
	snap := *ft
	o.ft = &snap
	after := ss.atk.VerifStopped()
	// the stop flag is sticky: report whether THIS hit stopped the attack
	o.stopped = after && (!ss.stopped || c.TargeterErr != "")
	ss.stopped = after
	if o.panicked || o.res == nil {
		return o
	}
	// which response did hit obtain? the last one the transport produced, unless the
	// client turned it into an error (redirect policy) or the last call failed.
	if n := len(snap.bodies); n > 0 && snap.bodies[n-1] != nil {
		last := snap.bodies[n-1]
		isHop := n-1 < len(c.Hops)
		// a redirect response that was the LAST thing the transport produced was either handed out
		// (NoFollow) or refused by the policy — had it been followed, another request would have come
		// (no reliance on the wording of the error)
		policyStop := isHop && !(c.RedirSet && c.Redirects == -1)
		if !policyStop {
			o.obtained = last
			if isHop {
				o.lastSpec = &c.Hops[n-1]
			} else {
				o.lastSpec = c.Final
			}
		}
	}
	return o
}

func implLine(c *hitCase, o *hitOut) string {
	if o.panicked {
		return "panic " + o.panicMsg
	}
	r := o.res
	hs := "nil"
	if r.Headers != nil {
		hs = sortedHeaderTokens(r.Headers)
	}
	var sb strings.Builder
	sb.WriteString(fmt.Sprintf("res %s %d %d %d %d %s %s %s %s %s", kit.HexS(r.Attack), r.Seq, r.Code, r.BytesOut, r.BytesIn,
		kit.HexS(r.Error), kit.Hex(r.Body), kit.HexS(r.Method), kit.HexS(r.URL), hs))
	sb.WriteString(" | req ")
	if f := o.ft.first; f == nil {
		sb.WriteString("none")
	} else {
		body := "nil"
		if !f.bodyNil {
			body = kit.Hex(f.body)
		}
		te := strconv.Itoa(len(f.te))
		for _, t := range f.te {
			te += " " + kit.HexS(t)
		}
		sb.WriteString(fmt.Sprintf("%s %s %s %s %d %s %s", kit.HexS(f.method), kit.HexS(f.url), kit.HexS(f.host), body, f.cl, te, sortedHeaderTokens(f.header)))
	}
	sb.WriteString(" | stop " + kit.B(o.stopped))
	if o.obtained == nil {
		sb.WriteString(" | body 0")
	} else {
		t, e, x, cl, sh := o.obtained.summary()
		sb.WriteString(fmt.Sprintf(" | body 1 %d %d %d %d %s", t, e, x, cl, kit.B(sh)))
	}
	return sb.String()
}

// ---------- oracle (from the property text) ----------

func inDomain(c *hitCase) bool {
	ok := func(rs *respSpec) bool { return rs.Status >= 100 && rs.Status <= 599 && rs.StatusText != "" }
	for i := range c.Hops {
		if !ok(&c.Hops[i]) {
			return false
		}
	}
	return c.Final == nil || ok(c.Final)
}

// seqInput is the replay input: the hits made so far on one attacker/attack, the last one failing.
type seqInput struct {
	Hits []*hitCase `json:"hits"`
}

func oracle(s *kit.Summary, c *hitCase, o *hitOut) { oracleSeq(s, []*hitCase{c}, c, o) }

func oracleSeq(s *kit.Summary, sofar []*hitCase, c *hitCase, o *hitOut) {
	viol := func(kind, what, exp, obs string, key map[string]interface{}) {
		if key == nil {
			key = map[string]interface{}{}
		}
		key["hit_in_sequence"] = len(sofar)
		s.Violate(kit.Violation{Kind: kind, What: what, Input: seqInput{sofar}, Expected: exp, Observed: obs, Key: key})
	}
	if o.panicked {
		viol("hit_panic", "hit panicked", "", o.panicMsg, nil)
		return
	}
	r := o.res
	// The text asks that the injected HEADERS match the result (checked below), not which name or
	// number the result carries (the numbering is C05's subject): a difference is only noted here and
	// left to the model comparison.
	if r.Attack != c.Name || r.Seq != c.Seq {
		s.Count("note:result_attack_or_seq_differs_from_configured")
	}
	if c.TargeterErr != "" {
		return // no target, no exchange: outside the property's quantifier
	}
	if r.Method != c.Method || r.URL != c.URL {
		viol("hit_method_url", "result does not carry the target's method and URL", c.Method+" "+c.URL, r.Method+" "+r.URL, nil)
	}
	if !inDomain(c) {
		return
	}
	_, reqErr := http.NewRequest(c.Method, c.URL, nil)
	if reqErr != nil {
		return // a target no request can be built from (invalid method / URL): outside the quantifier
	}
	// --- the request that reached the transport
	if f := o.ft.first; f != nil {
		if c.Method != "" && f.method != c.Method { // the empty method is not a method: no statement
			viol("req_method", "request method differs from the target's", c.Method, f.method, nil)
		}
		if u, err := parseLikeNewRequest(c.URL); err == nil && u.String() == c.URL && f.url != c.URL {
			viol("req_url", "request URL differs from the target's", c.URL, f.url, nil)
		}
		if string(f.body) != string(c.Body) {
			viol("req_body", "request body differs from the target's", kit.Hex(c.Body), kit.Hex(f.body), nil)
		}
		for _, e := range c.Header {
			if e.Key == "X-Vegeta-Seq" || (e.Key == "X-Vegeta-Attack" && c.Name != "") {
				continue // overwritten by the injected headers: the text does not say which wins
			}
			got, ok := f.header[e.Key]
			if !ok || strings.Join(got, "\x00") != strings.Join(e.Vals, "\x00") || len(got) != len(e.Vals) {
				viol("req_header_case", "target header did not reach the transport with its original case and values", fmt.Sprint(e), fmt.Sprint(got), nil)
			}
			if e.Key == "Host" && len(e.Vals) > 0 && e.Vals[0] != "" && f.host != e.Vals[0] {
				viol("req_host", "Host header did not set the request host", e.Vals[0], f.host, nil)
			}
		}
		// headers beyond the target's and the two injected ones are not forbidden by the text: noted only
		for k := range f.header {
			found := k == "X-Vegeta-Seq" || k == "X-Vegeta-Attack"
			for _, e := range c.Header {
				found = found || e.Key == k
			}
			if !found {
				s.Count("note:request_header_beyond_target")
			}
		}
		if got := f.header["X-Vegeta-Seq"]; len(got) != 1 || got[0] != strconv.FormatUint(r.Seq, 10) {
			viol("req_seq_header", "sequence-number header does not match the result", strconv.FormatUint(r.Seq, 10), fmt.Sprint(got), nil)
		}
		if c.Name != "" {
			if got := f.header["X-Vegeta-Attack"]; len(got) != 1 || got[0] != r.Attack {
				viol("req_attack_header", "attack-name header does not match the result", r.Attack, fmt.Sprint(got), nil)
			}
		}
	} else if reqErr == nil {
		viol("req_missing", "no request reached the transport", "", "", nil)
	}
	// --- the redirect policy: Redirects(n) follows up to n redirects, NoFollow returns the first
	// redirect response; only then is the exchange allowed to fail on the policy
	if o.ft.first != nil && c.RedirSet && c.Redirects >= -1 && len(c.Hops) > 0 {
		var want *respSpec // the response hit must obtain (nil: none)
		what := ""
		switch {
		case c.Redirects == -1:
			want, what = &c.Hops[0], "NoFollow must hand out the first redirect response"
		case len(c.Hops) <= c.Redirects:
			want, what = c.Final, fmt.Sprintf("a chain of %d redirects is within the limit %d: the exchange must end in the final response", len(c.Hops), c.Redirects)
		default:
			what = fmt.Sprintf("a chain of %d redirects exceeds the limit %d: the exchange must fail", len(c.Hops), c.Redirects)
		}
		s.Count("redirect_oracle:judged")
		if want != o.lastSpec {
			obs := "failed: " + r.Error
			if o.obtained != nil {
				obs = fmt.Sprintf("obtained a response with status %d", o.lastSpec.Status)
			}
			viol("redirect_policy", what, "", obs, map[string]interface{}{"limit": c.Redirects, "hops": len(c.Hops)})
		}
	}
	// --- the result
	success := func(code uint16) bool { return code >= 200 && code < 400 }
	if o.obtained == nil {
		// failed: request construction, transport error or redirect policy
		if r.Error == "" {
			viol("hit_failed_without_error", "failed exchange without an error text", "non-empty", "", nil)
		}
		if success(r.Code) {
			viol("hit_failed_with_success_code", "failed exchange with a success status", "", fmt.Sprint(r.Code), nil)
		}
		return
	}
	rs := o.lastSpec
	avail := rs.Body
	readFails := rs.FailAfter >= 0
	if readFails && rs.FailAfter < len(avail) {
		avail = avail[:rs.FailAfter]
	}
	want := avail
	if c.MaxBody >= 0 && int64(len(want)) > c.MaxBody {
		want = want[:c.MaxBody]
	}
	// body drained and closed on every path
	// "read to its end and closed": every byte the body has was read, its end (EOF, or the error)
	// was reached, and Close was called — how many Reads or Closes it took is not prescribed
	t, e, x, cl, sh := o.obtained.summary()
	_ = sh
	if !(t == len(avail) && cl >= 1 && ((readFails && x >= 1) || (!readFails && e >= 1))) {
		viol("body_not_drained_or_closed", "response body not read to its end and closed", fmt.Sprintf("%d bytes, terminal, one close", len(avail)),
			fmt.Sprintf("read=%d eof=%d err=%d close=%d shape=%v", t, e, x, cl, sh), nil)
	}
	if string(r.Body) != string(want) {
		viol("hit_body_prefix", "captured body is not the first max-body bytes", kit.Hex(want), kit.Hex(r.Body), nil)
	}
	if readFails {
		if r.Error == "" && rs.ReadErr != "" {
			viol("hit_failed_without_error", "body read error without an error text", "non-empty", "", nil)
		}
		if success(r.Code) {
			viol("hit_failed_with_success_code", "failed exchange with a success status", "", fmt.Sprint(r.Code), nil)
		}
		if r.BytesIn != uint64(len(r.Body)) || r.BytesOut != uint64(len(c.Body)) {
			viol("hit_body_read_error_byte_counts", "body read error: bytes-in differs from the captured length or bytes-out from the request body length",
				fmt.Sprintf("in=%d out=%d", len(r.Body), len(c.Body)), fmt.Sprintf("in=%d out=%d", r.BytesIn, r.BytesOut),
				map[string]interface{}{"read_error_after": rs.FailAfter, "captured": len(r.Body), "request_body": len(c.Body),
					"bytes_in_mismatch": r.BytesIn != uint64(len(r.Body)), "bytes_out_mismatch": r.BytesOut != uint64(len(c.Body))})
		}
		return
	}
	// completed exchange
	if r.Code != uint16(rs.Status) {
		viol("hit_code", "result does not carry the final status code", fmt.Sprint(rs.Status), fmt.Sprint(r.Code), nil)
	}
	if sortedHeaderTokens(r.Headers) != sortedHeaderTokens(mkHeader(rs.Header)) { // nil and empty are alike
		viol("hit_headers", "result does not carry the response headers", sortedHeaderTokens(mkHeader(rs.Header)), sortedHeaderTokens(r.Headers), nil)
	}
	if r.BytesIn != uint64(len(r.Body)) {
		viol("hit_bytes_in", "bytes-in differs from the captured length", fmt.Sprint(len(r.Body)), fmt.Sprint(r.BytesIn), nil)
	}
	if r.BytesOut != uint64(len(c.Body)) {
		viol("hit_bytes_out", "bytes-out differs from the request body length", fmt.Sprint(len(c.Body)), fmt.Sprint(r.BytesOut), nil)
	}
	if (r.Error == "") != success(uint16(rs.Status)) {
		viol("hit_error_iff", "error text empty although status outside [200,400), or non-empty although inside", fmt.Sprint(rs.Status), r.Error, nil)
	}
}

// ---------- generators ----------

var methods = []string{"GET", "GET", "POST", "PUT", "DELETE", "HEAD", "HEAD", "PATCH", "OPTIONS", "get", "M-SEARCH", "Post"}
var hosts = []string{"example.com", "a.b", "127.0.0.1", "[::1]", "h.test", "UPPER.example"}
var hdrKeys = []string{"Host", "host", "HOST", "Content-Type", "content-type", "X-Custom", "x-custom", "X-CUSTOM", "Accept",
	"X-Vegeta-Seq", "x-vegeta-seq", "X-Vegeta-Attack", "x-vegeta-attack", "User-Agent", "Cookie", "a", "X_Under", "Accept-Encoding"}
var respKeys = []string{"Content-Type", "content-length", "X-Resp", "Set-Cookie", "Server", "Date", "x-lower", "ETag", "Vary"}

const alnum = "abcdefghijklmnopqrstuvwxyz0123456789"

func randWord(r *kit.Rng, n int) string {
	b := make([]byte, n)
	for i := range b {
		b[i] = alnum[r.Pick(len(alnum))]
	}
	return string(b)
}

func randBytes(r *kit.Rng, n int) []byte {
	b := make([]byte, n)
	for i := range b {
		b[i] = byte(r.Pick(256))
	}
	return b
}

func randValue(r *kit.Rng) string {
	switch r.Pick(6) {
	case 0:
		return ""
	case 1:
		return "h" + randWord(r, 3) + ".test:8080"
	case 2:
		return "a, b;q=0.5"
	case 3:
		return "Üñí"
	default:
		return randWord(r, 1+r.Pick(12))
	}
}

func genHeader(r *kit.Rng, pool []string, max int) []hdrEntry {
	n := r.Pick(max + 1)
	seen := map[string]bool{}
	var es []hdrEntry
	for i := 0; i < n; i++ {
		k := pool[r.Pick(len(pool))]
		if r.Chance(0.1) {
			k = "X-" + randWord(r, 4)
		}
		if seen[k] {
			continue
		}
		seen[k] = true
		nv := 1
		switch r.Pick(6) {
		case 0:
			nv = 0
		case 1:
			nv = 2
		case 2:
			nv = 3
		}
		vs := make([]string, nv)
		for j := range vs {
			vs[j] = randValue(r)
		}
		es = append(es, hdrEntry{k, vs})
	}
	return es
}

func genSize(r *kit.Rng) int {
	switch r.Pick(14) {
	case 0:
		return 0
	case 1:
		return 1
	case 2:
		return 511 + r.Pick(3)
	case 3:
		return 600 + r.Pick(1500)
	case 4:
		if r.Chance(0.3) {
			return 8191 + r.Pick(3)
		}
		return 2047 + r.Pick(3)
	case 5:
		if r.Chance(0.15) {
			return 9000 + r.Pick(12000)
		}
		return 30 + r.Pick(100)
	default:
		return 2 + r.Pick(40)
	}
}

func statusText(code int) string { return fmt.Sprintf("%d %s", code, http.StatusText(code)) }

func genResp(r *kit.Rng, redirect bool, hop int) respSpec {
	var rs respSpec
	switch {
	case redirect:
		rs.Status = []int{301, 302, 303, 307, 308}[r.Pick(5)]
	case r.Chance(0.25):
		rs.Status = []int{100, 101, 199, 200, 201, 204, 299, 300, 304, 399, 400, 404, 499, 500, 503, 599}[r.Pick(16)]
	case r.Chance(0.03):
		rs.Status = []int{0, -1, 99, 600, 1000, 65736, 65536 + 404, 70000}[r.Pick(8)]
	default:
		rs.Status = 100 + r.Pick(500)
	}
	rs.StatusText = statusText(rs.Status)
	if r.Chance(0.05) {
		rs.StatusText = strconv.Itoa(rs.Status)
	}
	rs.Header = genHeader(r, respKeys, 4)
	if redirect {
		rs.Header = append(rs.Header, hdrEntry{"Location", []string{fmt.Sprintf("http://redir%d.test/%s", hop, randWord(r, 4))}})
	}
	rs.Body = randBytes(r, genSize(r))
	rs.FailAfter = -1
	rs.ReadErr = "read tcp: connection reset by peer " + randWord(r, 3)
	rs.EndWithData = r.Chance(0.3)
	if r.Chance(0.55) {
		rs.Length = "exact"
	}
	return rs
}

// headAnswer turns a response into what net/http hands out for a HEAD request: the declared
// Content-Length of the entity, and no body.
func headAnswer(r *kit.Rng, rs *respSpec, maxBody int64) {
	n := int64(1 + r.Pick(5000))
	switch r.Pick(8) {
	case 0:
		n = 1
	case 1:
		n = 8 << 20
	case 2:
		n = 8<<20 + 1
	case 3:
		if maxBody > 0 {
			n = maxBody + int64(r.Pick(3)) - 1
			if n < 1 {
				n = 1
			}
		}
	}
	rs.Body = nil
	rs.FailAfter = -1
	rs.Length = "head:" + strconv.FormatInt(n, 10)
}

func genCase(r *kit.Rng) *hitCase {
	c := &hitCase{}
	if r.Chance(0.02) {
		c.TargeterErr = "no targets to attack"
		c.TargeterFills = r.Chance(0.5)
	}
	c.Method = methods[r.Pick(len(methods))]
	if r.Chance(0.03) {
		c.Method = []string{"", "BAD METHOD", "GÉT", "GE\tT", "a(b)"}[r.Pick(5)]
	}
	c.URL = "http://" + hosts[r.Pick(len(hosts))]
	if r.Chance(0.3) {
		c.URL += ":" + strconv.Itoa(1+r.Pick(65535))
	}
	c.URL += "/" + randWord(r, r.Pick(6))
	if r.Chance(0.3) {
		c.URL += "/" + randWord(r, 1+r.Pick(5))
	}
	if r.Chance(0.3) {
		c.URL += "?" + randWord(r, 2) + "=" + randWord(r, 3)
	}
	if r.Chance(0.03) {
		c.URL = []string{"http://[::1", "%zz", ":foo", "http://a b/", "HTTP://Mixed.Example/Path", "http://h.test:/x", "/relative", ""}[r.Pick(8)]
	}
	if r.Chance(0.6) {
		c.Body = randBytes(r, genSize(r))
	}
	if r.Chance(0.1) {
		c.Body = []byte{}
	}
	c.Header = genHeader(r, hdrKeys, 5)
	c.Chunked = r.Chance(0.3)
	c.Name = []string{"", "", "attack-1", "Üñí", "x y", randWord(r, 5)}[r.Pick(6)]
	switch r.Pick(4) {
	case 0:
		c.Seq = uint64(r.Pick(3))
	case 1:
		c.Seq = r.Uint64()
	case 2:
		c.Seq = ^uint64(0) - uint64(r.Pick(2))
	default:
		c.Seq = uint64(r.Pick(100000))
	}
	// exchange
	nh := 0
	if r.Chance(0.25) {
		nh = 1 + r.Pick(3)
		if r.Chance(0.1) {
			nh = 9 + r.Pick(4)
		}
	}
	for i := 0; i < nh; i++ {
		c.Hops = append(c.Hops, genResp(r, true, i))
	}
	c.RedirSet = !r.Chance(0.15)
	c.Redirects = []int{-1, -1, 0, 1, 2, 3, 10, 10, -2}[r.Pick(9)]
	if r.Chance(0.1) {
		c.TransportErr = "dial tcp: connection refused " + randWord(r, 3)
	} else {
		f := genResp(r, false, 0)
		c.Final = &f
	}
	// fault: body read error after k bytes, on the final response and on the hops
	// (a hop is what hit obtains under NoFollow)
	fault := func(rs *respSpec) {
		if r.Chance(0.18) {
			switch r.Pick(4) {
			case 0:
				rs.FailAfter = 0
			case 1:
				rs.FailAfter = len(rs.Body)
			default:
				rs.FailAfter = r.Pick(len(rs.Body) + 1)
			}
		}
	}
	if c.Final != nil {
		fault(c.Final)
	}
	for i := range c.Hops {
		fault(&c.Hops[i])
	}
	// max-body relative to the body hit will see
	ref := 0
	if c.Final != nil {
		ref = len(c.Final.Body)
	}
	if len(c.Hops) > 0 && r.Chance(0.5) {
		ref = len(c.Hops[0].Body)
	}
	switch r.Pick(8) {
	case 0, 1:
		c.MaxBody = -1
	case 2:
		c.MaxBody = 0
	case 3:
		c.MaxBody = int64(ref) - 1
		if c.MaxBody < 0 {
			c.MaxBody = 0
		}
	case 4:
		c.MaxBody = int64(ref)
	case 5:
		c.MaxBody = int64(ref) + 1
	case 6:
		c.MaxBody = int64(r.Pick(ref + 2))
	default:
		c.MaxBody = []int64{-2, 1 << 40, 1<<63 - 1, 1}[r.Pick(4)]
	}
	if c.Method == "HEAD" && r.Chance(0.85) {
		// net/http: the answer to HEAD declares the entity's length and has no body
		if c.Final != nil {
			headAnswer(r, c.Final, c.MaxBody)
		}
		for i := range c.Hops {
			headAnswer(r, &c.Hops[i], c.MaxBody)
		}
	}
	for i := r.Pick(6); i > 0; i-- {
		c.Chunks = append(c.Chunks, []int{0, 1, 2, 7, 100, 512, 4096, 20000}[r.Pick(8)])
	}
	return c
}

// ---------- main ----------

func classify(s *kit.Summary, c *hitCase, o *hitOut) {
	switch {
	case c.TargeterErr != "":
		s.Count("branch:targeter_error")
	case o.ft.first == nil:
		s.Count("branch:request_construction_error")
	case o.obtained == nil && len(o.ft.bodies) > 0 && o.ft.bodies[len(o.ft.bodies)-1] == nil:
		s.Count("branch:transport_error")
	case o.obtained == nil:
		s.Count("branch:redirect_policy_error")
	case o.lastSpec.FailAfter >= 0:
		s.Count("branch:body_read_error")
		if c.MaxBody >= 0 && int64(o.lastSpec.FailAfter) >= c.MaxBody {
			s.Count("branch:body_read_error_in_drain")
		}
	default:
		s.Count("branch:completed")
		switch l := o.lastSpec.Length; {
		case strings.HasPrefix(l, "head:"):
			s.Count("length:head_declared_no_body")
		case l == "exact":
			s.Count("length:exact")
		default:
			s.Count("length:unknown")
		}
		if o.res != nil {
			s.Count(fmt.Sprintf("status:%dxx", o.res.Code/100))
		}
		if c.MaxBody >= 0 && int64(len(o.lastSpec.Body)) > c.MaxBody {
			s.Count("branch:truncated_by_max_body")
		}
	}
	if len(c.Hops) > 0 {
		s.Count("redirects:hops")
		if c.RedirSet && c.Redirects == -1 {
			s.Count("redirects:nofollow")
		}
	}
	for _, e := range c.Header {
		if strings.EqualFold(e.Key, "host") && e.Key != "Host" && len(e.Vals) > 0 && e.Vals[0] != "" && o.ft.first != nil && o.ft.first.host != e.Vals[0] {
			s.Count("note:non_canonical_host_key_not_applied")
		}
	}
}

func runC06(c *run.Ctx, s *kit.Summary) {
	s.Rule = "targets: methods (incl. lower-case, custom, rare invalid/empty), URLs (rare unparsable), header maps with keys in arbitrary case (Host/host/HOST, injected-header names) and 0..3 values, bodies 0..21000 bytes; config: max-body in {-1,0,len-1,len,len+1,random,huge,-2}, chunked, Redirects(n) in {-1,0,1,2,3,10,-2,unset}, name, seq up to 2^64-1; exchange: 0..3 (rarely 9..12) redirect hops, final response status 100..599 (rare out-of-range) with the transport's status text, or transport error; body read error after k bytes; chunk-size oracle and EOF-with-data variants; 30% of the hits in sequences of 2..6 on one attacker/attack (shared counter incl. wrap, sticky stop, empty after non-empty fields); fixed bodies of 65535..65537, 70000 and 2^20+3 bytes captured/drained/failing in the drain; 8 end-to-end runs of the vegeta command against a local server; non-trivial = distinct case whose request reached the transport"
	if c.Replay != "" {
		raw, err := os.ReadFile(c.Replay)
		if err != nil {
			panic(err)
		}
		var rec struct {
			Input json.RawMessage `json:"input"`
		}
		if err := json.Unmarshal(raw, &rec); err != nil {
			panic(err)
		}
		if strings.Contains(string(rec.Input), `"e2e"`) {
			runE2E(c, s)
			return
		}
		if strings.Contains(string(rec.Input), `"stream"`) {
			runAttackStreams(c, s, kit.NewRng(c.Seed))
			return
		}
		var in seqInput
		if err := json.Unmarshal(rec.Input, &in); err != nil || len(in.Hits) == 0 {
			var one hitCase
			if err := json.Unmarshal(rec.Input, &one); err != nil {
				panic(err)
			}
			in.Hits = []*hitCase{&one}
		}
		st := &kit.Stream{Name: "c06.hit"}
		ss := newSession(in.Hits[0])
		for i, hc := range in.Hits {
			o := ss.hit(hc)
			st.Add(opLine(hc), implLine(hc, o))
			s.Case(fmt.Sprint("replay", i), true)
			oracleSeq(s, in.Hits[:i+1], hc, o)
		}
		st.Diff(c.Driver, s)
		return
	}
	r := kit.NewRng(c.Seed)
	st := &kit.Stream{Name: "c06.hit"}
	n := c.N(20000, 1000000)
	flush := func() {
		st.Diff(c.Driver, s)
		st = &kit.Stream{Name: "c06.hit"}
	}
	one := func(ss *session, sofar []*hitCase, hc *hitCase, sample bool) {
		o := ss.hit(hc)
		op := opLine(hc)
		impl := implLine(hc, o)
		st.Add(op, impl)
		s.Case(op, o.ft.first != nil)
		classify(s, hc, o)
		if sample {
			s.Sample(map[string]interface{}{"op": "c06.hit", "case": hc, "impl": impl})
		}
		oracleSeq(s, sofar, hc, o)
	}
	// fixed cases first: the former defect witness (DESIGN §8 #7, fixed by bc20399: 11-byte body
	// failing after 5 bytes) and bodies that straddle 64 KiB / exceed 1 MiB, captured and drained
	big := func(n int, maxBody int64, failAfter int) *hitCase {
		return &hitCase{Method: "GET", URL: "http://big.test/", MaxBody: maxBody, RedirSet: true, Redirects: 10, Seq: 7,
			Final: &respSpec{Status: 200, StatusText: "200 OK", Body: randBytes(r, n), FailAfter: failAfter, ReadErr: "reset"}, Chunks: []int{20000, 4096}}
	}
	fixed := []*hitCase{
		{Method: "POST", URL: "http://witness.test/", Body: []byte("abc"), MaxBody: -1, RedirSet: true, Redirects: 10, Seq: 1,
			Final: &respSpec{Status: 200, StatusText: "200 OK", Body: []byte("hello world"), FailAfter: 5, ReadErr: "unexpected EOF"}},
		big(65535, -1, -1), big(65536, 65536, -1), big(65537, 65536, -1), big(70000, 10, -1), big(70000, 10, 69999),
		big(1<<20+3, -1, -1), big(1<<20+3, 5, -1), big(1<<20+3, 1<<20, 1<<20+2),
	}
	for _, hc := range fixed {
		one(newSession(hc), []*hitCase{hc}, hc, false)
		s.Count("fixed:witness_and_big_bodies")
	}
	for i := 0; i < n; {
		hc := genCase(r)
		k := 1
		if r.Chance(0.3) {
			k = 2 + r.Pick(5)
		}
		if r.Chance(0.1) {
			hc.Seq = ^uint64(0) - uint64(r.Pick(3)) // the sequence counter wraps within the sequence
		}
		ss := newSession(hc)
		var sofar []*hitCase
		for j := 0; j < k; j++ {
			h := hc
			if j > 0 {
				// same attacker and attack: configuration, name and the running sequence number are shared
				h = genCase(r)
				h.MaxBody, h.Chunked, h.RedirSet, h.Redirects, h.Name = hc.MaxBody, hc.Chunked, hc.RedirSet, hc.Redirects, hc.Name
				h.Seq = hc.Seq + uint64(j)
				if r.Chance(0.3) { // an empty field right after a non-empty one
					h.Body, h.Header = nil, nil
				}
				s.Count("sequence:later_hit")
			}
			sofar = append(sofar, h)
			one(ss, sofar, h, i < 3)
			i++
		}
		if k > 1 {
			s.Count(fmt.Sprintf("sequence:len=%d", k))
		}
		if len(st.Ops) >= 20000 {
			flush()
		}
	}
	flush()

	// the redirect policy on a grid: Redirects(n) (and the unset default) against h hops
	gr := &kit.Stream{Name: "c06.hit"}
	for _, n := range []int{-3, -2, -1, 0, 1, 2, 3, 9, 10, 11, 12, 100, 1 << 31, -(1 << 31)} {
		for h := 0; h <= 14; h++ {
			for _, set := range []bool{true, false} {
				if !set && n != 10 {
					continue
				}
				hc := &hitCase{Method: "POST", URL: "http://grid.test/", Body: []byte("b"), MaxBody: -1, RedirSet: set, Redirects: n, Name: "grid", Seq: uint64(h)}
				for i := 0; i < h; i++ {
					hc.Hops = append(hc.Hops, genResp(r, true, i))
				}
				f := genResp(r, false, 0)
				hc.Final = &f
				o := runHit(hc)
				op := opLine(hc)
				gr.Add(op, implLine(hc, o))
				s.Case(op, true)
				s.Count("grid:redirect_policy")
				classify(s, hc, o)
				oracle(s, hc, o)
			}
		}
	}
	gr.Diff(c.Driver, s)

	// hits driven through Attacker.Attack by the library's stream targeters
	runAttackStreams(c, s, r)

	// the command's glue: real `vegeta attack` runs against a local server
	runE2E(c, s)
}
