package main

// Hits driven through (*Attacker).Attack by the library's own stream targeters (JSON and http format
// over a reader, read lazily one target per hit) with a recording transport: targets alternate
// between "has headers" and "has none". Judged by the request-side clause of the property: the
// request that reaches the transport has the TARGET's headers — its own values exactly, and no header
// that belongs to another target of the same run.

import (
	"bytes"
	"fmt"
	"io"
	"net/http"
	"os"
	"os/exec"
	"path/filepath"
	"sort"
	"strings"
	"sync"
	"time"

	vegeta "github.com/tsenart/vegeta/v12/lib"
	"vharness/kit"
	"vharness/run"
)

type streamRT struct {
	mu   sync.Mutex
	seen map[string][]http.Header // by URL path
}

func (rt *streamRT) RoundTrip(req *http.Request) (*http.Response, error) {
	if req.Body != nil {
		io.Copy(io.Discard, req.Body)
		req.Body.Close()
	}
	rt.mu.Lock()
	rt.seen[req.URL.Path] = append(rt.seen[req.URL.Path], req.Header.Clone())
	rt.mu.Unlock()
	return &http.Response{Status: "200 OK", StatusCode: 200, Proto: "HTTP/1.1", ProtoMajor: 1, ProtoMinor: 1,
		Header: http.Header{"Set-Cookie": {"sid=1; Path=/"}}, Body: io.NopCloser(strings.NewReader("ok")), ContentLength: 2, Request: req}, nil
}

type streamTarget struct {
	Path   string              `json:"path"`
	Header map[string][]string `json:"header"`
}

// judgeStream compares what arrived per target with what the target has.
func judgeStream(s *kit.Summary, label string, input interface{}, tgs []streamTarget, defaults http.Header, arrived func(path string) []http.Header) {
	owner := map[string]bool{} // header keys (canonical) that belong to some target of the run
	for _, t := range tgs {
		for k := range t.Header {
			owner[http.CanonicalHeaderKey(k)] = true
		}
	}
	for i, t := range tgs {
		for _, h := range arrived(t.Path) {
			s.Count("stream:requests_judged")
			want := map[string][]string{}
			for k, vs := range defaults {
				want[http.CanonicalHeaderKey(k)] = append(want[http.CanonicalHeaderKey(k)], vs...)
			}
			for k, vs := range t.Header {
				want[http.CanonicalHeaderKey(k)] = append(want[http.CanonicalHeaderKey(k)], vs...)
			}
			got := map[string][]string{}
			for k, vs := range h {
				got[http.CanonicalHeaderKey(k)] = append(got[http.CanonicalHeaderKey(k)], vs...)
			}
			viol := func(kind, what, exp, obs string) {
				s.Violate(kit.Violation{Kind: kind, What: label + ": " + what, Input: input, Expected: exp, Observed: obs,
					Key: map[string]interface{}{"stream": label, "target": i}})
			}
			for k, vs := range want {
				if strings.Join(got[k], "\x00") != strings.Join(vs, "\x00") {
					viol("req_header_case", fmt.Sprintf("target #%d (%s): a header of the target did not reach the transport with its own values", i, t.Path), k+": "+fmt.Sprint(vs), k+": "+fmt.Sprint(got[k]))
				}
			}
			var foreign []string
			for k := range got {
				if _, mine := want[k]; !mine && owner[k] {
					foreign = append(foreign, k+": "+fmt.Sprint(got[k]))
				} else if !mine && k != "X-Vegeta-Seq" && k != "X-Vegeta-Attack" {
					s.Count("note:stream_header_beyond_targets")
				}
			}
			if len(foreign) > 0 {
				sort.Strings(foreign)
				viol("req_header_foreign_target", fmt.Sprintf("target #%d (%s) reached the transport with headers that belong to ANOTHER target of the run", i, t.Path),
					"only its own headers", strings.Join(foreign, "; "))
			}
		}
	}
}

func genStreamTargets(r *kit.Rng, n int, canonicalKeys bool) []streamTarget {
	var tgs []streamTarget
	for i := 0; i < n; i++ {
		t := streamTarget{Path: fmt.Sprintf("/t%d", i)}
		if i%2 == 0 || r.Chance(0.2) { // every other target has headers (sometimes two in a row)
			t.Header = map[string][]string{}
			keys := []string{"Authorization", "x-lower", "X-Token", "Accept"}
			if canonicalKeys {
				keys = []string{"Authorization", "X-Lower", "X-Token", "Accept"}
			}
			for k := 0; k < 1+r.Pick(3); k++ {
				key := keys[r.Pick(len(keys))]
				if _, dup := t.Header[key]; dup {
					continue
				}
				vals := []string{fmt.Sprintf("v%d-%d", i, k)}
				if r.Chance(0.3) {
					vals = append(vals, "second")
				}
				t.Header[key] = vals
			}
		}
		tgs = append(tgs, t)
	}
	return tgs
}

func runAttackStreams(c *run.Ctx, s *kit.Summary, r *kit.Rng) {
	for round := 0; round < c.N(12, 200); round++ {
		format := []string{"json", "http"}[round%2]
		workers := []uint64{1, 1, 4}[r.Pick(3)]
		var defaults http.Header
		if r.Chance(0.4) {
			defaults = http.Header{"X-Default": {"d"}}
		}
		tgs := genStreamTargets(r, 6+r.Pick(8), format == "http")
		var src bytes.Buffer
		for _, t := range tgs {
			if format == "json" {
				enc := vegeta.NewJSONTargetEncoder(&src)
				enc.Encode(&vegeta.Target{Method: "GET", URL: "http://stream.test" + t.Path, Header: http.Header(t.Header)})
			} else {
				src.WriteString("GET http://stream.test" + t.Path + "\n")
				keys := make([]string, 0, len(t.Header))
				for k := range t.Header {
					keys = append(keys, k)
				}
				sort.Strings(keys)
				for _, k := range keys {
					for _, v := range t.Header[k] {
						src.WriteString(k + ": " + v + "\n")
					}
				}
				src.WriteString("\n")
			}
		}
		var tr vegeta.Targeter
		if format == "json" {
			tr = vegeta.NewJSONTargeter(bytes.NewReader(src.Bytes()), nil, defaults)
		} else {
			tr = vegeta.NewHTTPTargeter(bytes.NewReader(src.Bytes()), nil, defaults)
		}
		rt := &streamRT{seen: map[string][]http.Header{}}
		atk := vegeta.NewAttacker(vegeta.Client(&http.Client{Transport: rt}), vegeta.Workers(workers), vegeta.MaxWorkers(workers))
		label := fmt.Sprintf("Attack with the %s stream targeter, %d worker(s)", format, workers)
		s.Count(fmt.Sprintf("stream:%s:workers=%d", format, workers))
		s.Case(fmt.Sprintf("stream:%d", round), true)
		done := make(chan struct{})
		go func() {
			defer close(done)
			kit.Recover(func() {
				for range atk.Attack(tr, vegeta.Rate{Freq: 1000, Per: time.Second}, 0, "stream") {
				}
			})
		}()
		select {
		case <-done:
		case <-time.After(20 * time.Second):
			atk.Stop()
			<-done
			s.Skipped["stream_attack_timeout"]++
		}
		input := map[string]interface{}{"stream": format, "workers": workers, "targets": tgs, "defaults": defaults}
		judgeStream(s, label, input, tgs, defaults, func(p string) []http.Header {
			rt.mu.Lock()
			defer rt.mu.Unlock()
			return rt.seen[p]
		})
	}
}

// runE2ELazy: `vegeta attack -lazy -format=json` over a file whose targets alternate between having
// headers and having none, against the real server.
func runE2ELazy(c *run.Ctx, s *kit.Summary, es *e2eServer) {
	tgs := []streamTarget{
		{Path: "/c/11", Header: map[string][]string{"Authorization": {"Bearer s3cr3t"}, "x-lower": {"v0"}}},
		{Path: "/c/12"},
		{Path: "/c/13", Header: map[string][]string{"X-Token": {"t2", "second"}}},
		{Path: "/c/14"},
		{Path: "/c/15", Header: map[string][]string{"Authorization": {"Bearer s3cr3t"}}},
		{Path: "/c/16"},
	}
	var src bytes.Buffer
	for _, t := range tgs {
		vegeta.NewJSONTargetEncoder(&src).Encode(&vegeta.Target{Method: "GET", URL: es.srv.URL + t.Path, Header: http.Header(t.Header)})
	}
	for _, variant := range [][]string{{"-lazy"}, {"-lazy", "-header", "X-Default: d"}, {}} {
		name := "lazy_json" + strings.ReplaceAll(strings.Join(variant, ""), " ", "")
		tf := filepath.Join(c.Work, "e2e_"+name+".json")
		of := filepath.Join(c.Work, "e2e_"+name+".bin")
		os.WriteFile(tf, src.Bytes(), 0o644)
		es.mu.Lock()
		es.reqs = map[string][]e2eReq{}
		es.byPath = map[string][]http.Header{}
		es.mu.Unlock()
		args := append([]string{"attack", "-format", "json", "-targets", tf, "-output", of, "-rate", "100/1s", "-workers", "1", "-max-workers", "1", "-timeout", "10s"}, variant...)
		if len(variant) == 0 {
			args = append(args, "-duration", "100ms") // eager reading: the file is cycled
		}
		cmd := exec.Command(c.Vegeta, args...)
		cmd.Env = append(os.Environ(), "VEGETA_VERIF_DRIVER=")
		done := make(chan error, 1)
		go func() { _, err := cmd.CombinedOutput(); done <- err }()
		select {
		case <-done:
		case <-time.After(60 * time.Second):
			cmd.Process.Kill()
			<-done
			s.Skipped["e2e_attack_timeout"]++
			continue
		}
		s.Count("e2e:" + name)
		s.Case("e2e:"+name, true)
		var defaults http.Header
		if len(variant) == 3 {
			defaults = http.Header{"X-Default": {"d"}}
		}
		judgeStream(s, "vegeta attack -format=json "+strings.Join(variant, " "), map[string]interface{}{"e2e": name, "args": args, "targets": tgs}, tgs, defaults,
			func(p string) []http.Header {
				es.mu.Lock()
				defer es.mu.Unlock()
				var out []http.Header
				for _, h := range es.byPath[p] {
					// the real transport adds its own headers on the wire: keep what belongs to targets / defaults
					f := http.Header{}
					for _, k := range []string{"Authorization", "X-Lower", "X-Token", "Accept", "X-Default"} {
						if vs, ok := h[k]; ok && !(k == "Accept" && false) {
							f[k] = vs
						}
					}
					out = append(out, f)
				}
				return out
			})
	}
}
