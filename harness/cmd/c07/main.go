// Harness of property C07: result codecs round-trip every result and follow the documented layout.
package main

import (
	"bufio"
	"bytes"
	"encoding/base64"
	"encoding/csv"
	"encoding/json"
	"fmt"
	"io"
	"math/big"
	"net/http"
	"net/textproto"
	"os"
	"path/filepath"
	"reflect"
	"sort"
	"strconv"
	"strings"
	"time"

	"github.com/mailru/easyjson/jlexer"
	"github.com/mailru/easyjson/jwriter"
	vegeta "github.com/tsenart/vegeta/v12/lib"
	"vharness/gen"
	"vharness/kit"
	"vharness/run"
)

func main() { run.Main("C07", runC07) }

// ---------------------------------------------------------------- real code wrappers

type codec struct {
	name string
	enc  func(io.Writer) vegeta.Encoder
	dec  func(io.Reader) vegeta.Decoder
}

var codecs = map[string]codec{
	"csv":  {"csv", vegeta.NewCSVEncoder, vegeta.NewCSVDecoder},
	"json": {"json", vegeta.NewJSONEncoder, vegeta.NewJSONDecoder},
	"gob":  {"gob", vegeta.NewEncoder, vegeta.NewDecoder},
}

func encodeAll(cd codec, rs []vegeta.Result) (out []byte, status string) {
	var buf bytes.Buffer
	status = "ok"
	p, msg := kit.Recover(func() {
		enc := cd.enc(&buf)
		for i := range rs {
			x := rs[i]
			if err := enc.Encode(&x); err != nil {
				status = "err: " + err.Error()
				return
			}
		}
	})
	if p {
		status = "panic: " + msg
	}
	return buf.Bytes(), status
}

func decodeAll(cd codec, b []byte) (rs []vegeta.Result, term string) {
	p, _ := kit.Recover(func() {
		dec := cd.dec(bytes.NewReader(b))
		for {
			var x vegeta.Result
			err := dec.Decode(&x)
			if err == io.EOF {
				term = "eof"
				return
			}
			if err != nil {
				term = "err"
				return
			}
			rs = append(rs, x)
		}
	})
	if p {
		term = "panic"
	}
	return
}

// ---------------------------------------------------------------- independent reference readers (documented layout only)

// refCSV reads a CSV stream by the documented twelve columns (README "encode command", encode.go usage).
// The documentation says only "Base64 encoded response headers" about column 12; the reference reader
// understands the usual wire form (Name: value lines, CRLF or LF, ended by an empty line). When the column
// is valid base64 but not of that form, hdrUnknown marks the record and its headers are not compared.
var hdrUnknown map[int]bool

func refCSV(b []byte) ([]vegeta.Result, error) {
	hdrUnknown = map[int]bool{}
	rd := csv.NewReader(bytes.NewReader(b))
	rd.FieldsPerRecord = -1
	recs, err := rd.ReadAll()
	if err != nil {
		return nil, err
	}
	var out []vegeta.Result
	for _, rec := range recs {
		if len(rec) != 12 {
			return nil, fmt.Errorf("%d columns, documented are 12", len(rec))
		}
		var x vegeta.Result
		ts, ok := new(big.Int).SetString(rec[0], 10) // 1. Unix timestamp in nanoseconds since epoch
		if !ok {
			return nil, fmt.Errorf("column 1 not an integer: %q", rec[0])
		}
		q, m := new(big.Int).DivMod(ts, big.NewInt(1000000000), new(big.Int))
		x.Timestamp = time.Unix(q.Int64(), m.Int64())
		code, err := strconv.ParseUint(rec[1], 10, 16) // 2. HTTP status code
		if err != nil {
			return nil, err
		}
		x.Code = uint16(code)
		lat, err := strconv.ParseInt(rec[2], 10, 64) // 3. Request latency in nanoseconds
		if err != nil {
			return nil, err
		}
		x.Latency = time.Duration(lat) * time.Nanosecond
		if x.BytesOut, err = strconv.ParseUint(rec[3], 10, 64); err != nil { // 4. Bytes out
			return nil, err
		}
		if x.BytesIn, err = strconv.ParseUint(rec[4], 10, 64); err != nil { // 5. Bytes in
			return nil, err
		}
		x.Error = rec[5]                                                       // 6. Error
		if x.Body, err = base64.StdEncoding.DecodeString(rec[6]); err != nil { // 7. Base64 encoded response body
			return nil, err
		}
		x.Attack = rec[7]                                               // 8. Attack name
		if x.Seq, err = strconv.ParseUint(rec[8], 10, 64); err != nil { // 9. Sequence number of request
			return nil, err
		}
		x.Method = rec[9]  // 10. Method
		x.URL = rec[10]    // 11. URL
		if rec[11] != "" { // 12. Base64 encoded response headers
			raw, err := base64.StdEncoding.DecodeString(rec[11])
			if err != nil {
				return nil, err
			}
			x.Headers = http.Header{}
			for _, ln := range strings.Split(string(raw), "\n") {
				ln = strings.TrimSuffix(ln, "\r")
				if ln == "" {
					break
				}
				k, v, ok := strings.Cut(ln, ":")
				if !ok || k == "" {
					hdrUnknown[len(out)] = true
					break
				}
				x.Headers[k] = append(x.Headers[k], strings.TrimLeft(v, " \t"))
			}
		}
		out = append(out, x)
	}
	return out, nil
}

var jsonNames = []string{"attack", "seq", "code", "timestamp", "latency", "bytes_out", "bytes_in", "error", "body", "method", "url", "headers"}

// refJSON reads a JSON stream by the documented member names and units with encoding/json.
func refJSON(b []byte) ([]vegeta.Result, error) {
	var out []vegeta.Result
	dec := json.NewDecoder(bytes.NewReader(b))
	dec.UseNumber()
	for {
		var m map[string]interface{}
		if err := dec.Decode(&m); err == io.EOF {
			return out, nil
		} else if err != nil {
			return nil, err
		}
		if len(m) != len(jsonNames) {
			return nil, fmt.Errorf("object has %d members, documented are %d", len(m), len(jsonNames))
		}
		for _, n := range jsonNames {
			if _, ok := m[n]; !ok {
				return nil, fmt.Errorf("member %q missing", n)
			}
		}
		var x vegeta.Result
		str := func(n string) string { s, _ := m[n].(string); return s }
		u64 := func(n string) (uint64, error) { return strconv.ParseUint(string(m[n].(json.Number)), 10, 64) }
		var err error
		x.Attack, x.Error, x.Method, x.URL = str("attack"), str("error"), str("method"), str("url")
		if x.Seq, err = u64("seq"); err != nil {
			return nil, err
		}
		code, err := u64("code")
		if err != nil || code > 65535 {
			return nil, fmt.Errorf("code: %v", m["code"])
		}
		x.Code = uint16(code)
		if x.BytesOut, err = u64("bytes_out"); err != nil {
			return nil, err
		}
		if x.BytesIn, err = u64("bytes_in"); err != nil {
			return nil, err
		}
		lat, err := strconv.ParseInt(string(m["latency"].(json.Number)), 10, 64) // nanoseconds
		if err != nil {
			return nil, err
		}
		x.Latency = time.Duration(lat) * time.Nanosecond
		if x.Timestamp, err = time.Parse(time.RFC3339Nano, str("timestamp")); err != nil { // RFC 3339
			return nil, err
		}
		if m["body"] != nil {
			if x.Body, err = base64.StdEncoding.DecodeString(str("body")); err != nil { // base64
				return nil, err
			}
		}
		if m["headers"] != nil {
			hm, ok := m["headers"].(map[string]interface{})
			if !ok {
				return nil, fmt.Errorf("headers not an object")
			}
			x.Headers = http.Header{}
			for k, v := range hm {
				vs, _ := v.([]interface{})
				x.Headers[k] = []string{}
				for _, e := range vs {
					es, ok := e.(string)
					if !ok {
						return nil, fmt.Errorf("header value not a string")
					}
					x.Headers[k] = append(x.Headers[k], es)
				}
			}
		}
		out = append(out, x)
	}
}

// ---------------------------------------------------------------- field enumeration

func checkFields(s *kit.Summary) {
	t := reflect.TypeOf(vegeta.Result{})
	var got []string
	for i := 0; i < t.NumField(); i++ {
		f := t.Field(i)
		got = append(got, f.Name+" "+f.Type.String()+" "+f.Tag.Get("json"))
	}
	if strings.Join(got, "|") != strings.Join(gen.ResultFields, "|") {
		// not a violation of the property by itself (the new field may well round-trip): the model, the
		// generators and the documentation check do not cover it — a broken tie
		s.Diverge("result-fields", "reflect.TypeOf(vegeta.Result{})", strings.Join(got, "|"), strings.Join(gen.ResultFields, "|"))
	}
	s.Extra["result_fields"] = got
}

// equalAll is the property's notion of equality lifted to sequences.
// eq is the property's notion of equality (Result.Equal) backed by a comparison written for the harness,
// so that a codec losing a field cannot hide behind an Equal that stopped looking at it.
func eq(a, b *vegeta.Result) bool { return a.Equal(*b) && b.Equal(*a) && gen.SameResult(a, b) }

func equalAll(a, b []vegeta.Result) (bool, int) {
	if len(a) != len(b) {
		n := len(a)
		if len(b) < n {
			n = len(b)
		}
		for i := 0; i < n; i++ {
			if !eq(&a[i], &b[i]) {
				return false, i
			}
		}
		return false, n
	}
	for i := range a {
		if !eq(&a[i], &b[i]) {
			return false, i
		}
	}
	return true, -1
}

type caseInput struct {
	Codec   string   `json:"codec"`
	Results []string `json:"results"` // driver token lines (gen.ResultLine), zone offsets separately
	ZoneMin []int    `json:"zone_min"`
}

func mkInput(codec string, rs []vegeta.Result) caseInput {
	in := caseInput{Codec: codec}
	for i := range rs {
		in.Results = append(in.Results, gen.ResultLine(&rs[i]))
		_, off := rs[i].Timestamp.Zone()
		in.ZoneMin = append(in.ZoneMin, off/60)
	}
	return in
}

func zoneMin(x *vegeta.Result) int {
	_, off := x.Timestamp.Zone()
	return off / 60
}

// oracle evaluates the statement of C07 on one result sequence and one codec, on the real code only.
func oracle(s *kit.Summary, cd codec, rs []vegeta.Result) (enc []byte, ok bool) {
	enc, st := encodeAll(cd, rs)
	in := mkInput(cd.name, rs)
	if st != "ok" {
		s.Violate(kit.Violation{Kind: cd.name + "_encode_failed", What: "encoder returned an error or panicked on a result of the representable domain", Input: in, Observed: st})
		return enc, false
	}
	out, term := decodeAll(cd, enc)
	eq, at := equalAll(rs, out)
	if !eq || term != "eof" {
		obs := fmt.Sprintf("decoded %d of %d, first difference at %d, end=%s", len(out), len(rs), at, term)
		if at >= 0 && at < len(out) && at < len(rs) {
			obs += " got " + gen.ResultLine(&out[at])
		}
		s.Violate(kit.Violation{Kind: cd.name + "_roundtrip", What: "decode(encode(results)) is not an equal sequence followed by end-of-stream",
			Input: in, Expected: fmt.Sprintf("%d equal results then eof", len(rs)), Observed: obs,
			Key: map[string]interface{}{"codec": cd.name}})
		ok = false
	} else {
		ok = true
	}
	// independent reader of the documented layout
	var ref []vegeta.Result
	var err error
	switch cd.name {
	case "csv":
		ref, err = refCSV(enc)
	case "json":
		ref, err = refJSON(enc)
	default:
		return enc, ok
	}
	if err != nil {
		s.Violate(kit.Violation{Kind: cd.name + "_layout", What: "an independent reader of the documented layout cannot read the encoder's output", Input: in, Observed: err.Error()})
		return enc, false
	}
	if cd.name == "csv" {
		for i := range ref {
			if hdrUnknown[i] && i < len(rs) { // header block not in the wire form this reader knows: not compared
				ref[i].Headers = rs[i].Headers
				s.Skipped["csv reference reader: header block form not recognised"]++
			}
		}
	}
	if eq, at := equalAll(rs, ref); !eq {
		obs := fmt.Sprintf("read %d of %d, first difference at %d", len(ref), len(rs), at)
		if at >= 0 && at < len(ref) {
			obs += " got " + gen.ResultLine(&ref[at])
		}
		s.Violate(kit.Violation{Kind: cd.name + "_layout", What: "an independent reader of the documented layout disagrees with the written results", Input: in, Observed: obs})
		return enc, false
	}
	return enc, ok
}

// ---------------------------------------------------------------- layers: stdlib / easyjson functions against their models

func outcome(p bool, err error, ok string) string {
	switch {
	case p:
		return "panic"
	case err != nil:
		return "err"
	}
	return "ok " + ok
}

func numText(r *kit.Rng) string {
	var t string
	switch r.Pick(8) {
	case 0:
		t = strconv.FormatUint(r.Uint64(), 10)
	case 1:
		t = strconv.FormatInt(r.Int64Edge(), 10)
	case 2:
		t = r.PickStr([]string{"18446744073709551615", "18446744073709551616", "9223372036854775807", "9223372036854775808", "-9223372036854775808", "-9223372036854775809",
			"65535", "65536", "0", "-0", "+0", "+", "-", "", "00", "007", "1_000", "0x10", "1e3", "1.0", " 1", "1 ", "99999999999999999999", "184467440737095516150", "١"})
	case 3:
		t = strconv.FormatUint(r.Uint64()>>uint(r.Pick(64)), 10)
	case 4:
		t = "+" + strconv.FormatUint(r.Uint64()>>uint(r.Pick(64)), 10)
	case 5:
		t = strconv.FormatUint(r.Uint64(), 10) + strconv.Itoa(r.Pick(10))
	default:
		t = strconv.FormatInt(r.Range(-70000, 70000), 10)
	}
	if r.Chance(0.2) {
		t = gen.Mutate(r, t)
	}
	return t
}

func layerDecimal(c *run.Ctx, r *kit.Rng, s *kit.Summary) {
	st := &kit.Stream{Name: "decimal"}
	for i := 0; i < c.N(20000, 400000); i++ {
		switch r.Pick(4) {
		case 0:
			v := r.Int64Edge()
			st.Add("c07.fmtint "+strconv.FormatInt(v, 10), "ok "+kit.HexS(strconv.FormatInt(v, 10)))
			s.Case("fi:"+strconv.FormatInt(v, 10), true)
		case 1:
			v := r.Uint64() >> uint(r.Pick(64))
			st.Add("c07.fmtuint "+strconv.FormatUint(v, 10), "ok "+kit.HexS(strconv.FormatUint(v, 10)))
			s.Case("fu:"+strconv.FormatUint(v, 10), true)
		case 2:
			t := numText(r)
			v, err := strconv.ParseInt(t, 10, 64)
			o := outcome(false, err, strconv.FormatInt(v, 10))
			s.Count("parseint:" + strings.Fields(o)[0])
			st.Add("c07.parseint 64 "+kit.HexS(t), o)
			s.Case("pi:"+t, len(t) > 1)
		default:
			t := numText(r)
			bits := 64
			if r.Chance(0.4) {
				bits = 16
			}
			v, err := strconv.ParseUint(t, 10, bits)
			o := outcome(false, err, strconv.FormatUint(v, 10))
			s.Count("parseuint:" + strings.Fields(o)[0])
			st.Add("c07.parseuint "+strconv.Itoa(bits)+" "+kit.HexS(t), o)
			s.Case("pu:"+t, len(t) > 1)
		}
	}
	st.Diff(c.Driver, s)
}

func layerBase64(c *run.Ctx, r *kit.Rng, s *kit.Summary) {
	st := &kit.Stream{Name: "base64"}
	for i := 0; i < c.N(10000, 200000); i++ {
		b := gen.Body(r, 100)
		e := base64.StdEncoding.EncodeToString(b)
		if r.Chance(0.5) {
			st.Add("c07.b64enc "+kit.Hex(b), "ok "+kit.HexS(e))
			s.Case("be:"+e, len(b) > 0)
			continue
		}
		t := e
		if r.Chance(0.5) {
			t = gen.Mutate(r, t)
		}
		if r.Chance(0.3) && len(t) > 0 { // CR/LF are ignored anywhere
			k := r.Pick(len(t) + 1)
			t = t[:k] + r.PickStr([]string{"\n", "\r\n", "\r"}) + t[k:]
		}
		d, err := base64.StdEncoding.DecodeString(t)
		o := outcome(false, err, kit.Hex(d))
		s.Count("b64dec:" + strings.Fields(o)[0])
		st.Add("c07.b64dec "+kit.HexS(t), o)
		s.Case("bd:"+t, len(t) > 3)
	}
	st.Diff(c.Driver, s)
}

func anyField(r *kit.Rng) string {
	switch r.Pick(6) {
	case 0:
		return gen.Text(r, gen.TextOpts{CR: true, CRLF: true})
	case 1:
		b := make([]byte, r.Pick(6))
		r.Read(b)
		return string(b)
	case 2:
		return r.PickStr([]string{"", "\\.", "\\.x", " ", "\r", "\r\n", "a\r", "\"", "\u00a0", "\xc2", "\xe2\x80", "\xe2\x80\xa8", "\u3000x", "\v", "\f", ",", "a\"b"})
	}
	return gen.Text(r, gen.TextOpts{})
}

func csvReadAllReal(b []byte) string {
	rd := csv.NewReader(bytes.NewReader(b))
	rd.FieldsPerRecord = -1
	rd.TrimLeadingSpace = true
	var sb strings.Builder
	n := 0
	term := ""
	p, _ := kit.Recover(func() {
		for {
			rec, err := rd.Read()
			if err == io.EOF {
				term = "eof"
				return
			}
			if err != nil {
				term = "err"
				return
			}
			n++
			sb.WriteString(" | " + strconv.Itoa(len(rec)))
			for _, f := range rec {
				sb.WriteString(" " + kit.HexS(f))
			}
		}
	})
	if p {
		term = "panic"
	}
	return strconv.Itoa(n) + sb.String() + " | " + term
}

func layerCSVText(c *run.Ctx, r *kit.Rng, s *kit.Summary) {
	st := &kit.Stream{Name: "csvtext"}
	for i := 0; i < c.N(6000, 150000); i++ {
		nrec := 1 + r.Pick(3)
		var all bytes.Buffer
		for k := 0; k < nrec; k++ {
			n := 1 + r.Pick(6)
			if r.Chance(0.3) {
				n = 12
			}
			fs := make([]string, n)
			toks := make([]string, n)
			for j := range fs {
				fs[j] = anyField(r)
				toks[j] = kit.HexS(fs[j])
			}
			var buf bytes.Buffer
			w := csv.NewWriter(&buf)
			w.Write(fs)
			w.Flush()
			st.Add("c07.csvwrite "+strconv.Itoa(n)+" "+strings.Join(toks, " "), "ok "+kit.Hex(buf.Bytes()))
			all.Write(buf.Bytes())
		}
		t := all.String()
		mut := r.Chance(0.4)
		if mut {
			t = gen.Mutate(r, t)
		}
		o := csvReadAllReal([]byte(t))
		s.Count(fmt.Sprintf("csvread:mutated=%v:%s", mut, o[strings.LastIndex(o, "|")+2:]))
		st.Add("c07.csvread "+kit.HexS(t), o)
		s.Case("cr:"+t, len(t) > 4)
	}
	st.Diff(c.Driver, s)
}

func headerBytesReal(h http.Header) []byte { // lib/results.go headerBytes, through the exported stdlib call it makes
	if h == nil {
		return nil
	}
	var buf bytes.Buffer
	_ = h.Write(&buf)
	return append(buf.Bytes(), '\r', '\n')
}

func optHex(b []byte) string {
	if b == nil {
		return "n"
	}
	return kit.Hex(b)
}

func wildHeaders(r *kit.Rng) http.Header {
	h := gen.Headers(r, 4)
	if h == nil || r.Chance(0.6) {
		return h
	}
	// outside the round-trip domain: odd keys, values with newlines / blanks / control bytes
	k := r.PickStr([]string{"x-lower", "", "Bad Key", "Ünï", "A:B", "X-Ok", "a", "CONTENT-TYPE"})
	h[k] = append(h[k], r.PickStr([]string{" lead", "trail ", "a\r\nb", "a\nb", "\ttab\t", "x\x00y", "", "  ", "a\rb"}))
	return h
}

func mimeReal(b []byte) string {
	var h textproto.MIMEHeader
	var err error
	p, _ := kit.Recover(func() { h, err = textproto.NewReader(bufio.NewReader(bytes.NewReader(b))).ReadMIMEHeader() })
	return outcome(p, err, gen.HeaderToken(http.Header(h)))
}

func layerMIME(c *run.Ctx, r *kit.Rng, s *kit.Summary) {
	st := &kit.Stream{Name: "mime"}
	for i := 0; i < c.N(6000, 150000); i++ {
		h := wildHeaders(r)
		hb := headerBytesReal(h)
		st.Add("c07.hdrwrite "+gen.HeaderToken(h), "ok "+optHex(hb))
		t := string(hb)
		mut := r.Chance(0.4)
		if mut {
			t = gen.Mutate(r, t)
			if r.Chance(0.3) {
				k := r.Pick(len(t) + 1)
				t = t[:k] + r.PickStr([]string{"\r\n ", "\r\n\t x", "\n", " :", "\r\n\r\n"}) + t[k:]
			}
		}
		o := mimeReal([]byte(t))
		s.Count(fmt.Sprintf("mimeread:mutated=%v:%s", mut, strings.Fields(o)[0]))
		st.Add("c07.mimeread "+kit.HexS(t), o)
		s.Case("mr:"+t, len(t) > 4)
	}
	st.Diff(c.Driver, s)
}

func jsonStringReal(t string) []byte {
	var w jwriter.Writer
	w.String(t)
	b, _ := w.BuildBytes()
	return b
}

func lexStringReal(b []byte) string {
	var v string
	var err error
	p, _ := kit.Recover(func() {
		l := jlexer.Lexer{Data: b}
		v = l.String()
		err = l.Error()
	})
	return outcome(p, err, kit.HexS(v))
}

func layerJSONString(c *run.Ctx, r *kit.Rng, s *kit.Summary) {
	st := &kit.Stream{Name: "jsonstring"}
	for i := 0; i < c.N(10000, 200000); i++ {
		t := anyField(r)
		e := jsonStringReal(t)
		st.Add("c07.jsonstr "+kit.HexS(t), "ok "+kit.Hex(e))
		u := string(e)
		mut := r.Chance(0.4)
		if mut {
			if r.Chance(0.5) {
				u = "\"" + r.PickStr([]string{"\\u00e9", "\\ud83d\\ude00", "\\ud83d", "\\ude00x", "\\ud83d\\u0041", "\\/", "\\b\\f", "\\x", "\\u12", "\\u12G4", "\\", "a\\\\", "a\\\\\\\"b", "\\uD800\\uDC00", "\\uDBFF\\uDFFF", "\\ufffe"}) + r.PickStr([]string{"\"", "\" ", "\"x", ""})
			} else {
				u = gen.Mutate(r, u)
			}
		}
		o := lexStringReal([]byte(u))
		s.Count(fmt.Sprintf("lexstr:mutated=%v:%s", mut, strings.Fields(o)[0]))
		st.Add("c07.lexstr "+kit.HexS(u), o)
		s.Case("js:"+t, len(t) > 1)
	}
	st.Diff(c.Driver, s)
}

func layerTime(c *run.Ctx, r *kit.Rng, s *kit.Summary) {
	st := &kit.Stream{Name: "rfc3339"}
	var lenientOps, lenientImpl []string
	for i := 0; i < c.N(10000, 300000); i++ {
		x := gen.Result(r, gen.ResultOpts{Zone: true})
		ts := x.Timestamp
		off := zoneMin(&x)
		b, err := ts.MarshalJSON()
		st.Add(fmt.Sprintf("c07.timefmt %s %d", gen.UnixNanoBig(ts), off), outcome(false, err, kit.Hex(b)))
		s.Case("tf:"+string(b), true)
		u := string(b)
		mut := r.Chance(0.3)
		if mut {
			u = gen.Mutate(r, u)
		}
		var back time.Time
		var uerr error
		p, _ := kit.Recover(func() { uerr = back.UnmarshalJSON([]byte(u)) })
		o := outcome(p, uerr, gen.UnixNanoBig(back))
		if u == "null" {
			continue
		}
		s.Count(fmt.Sprintf("timeparse:mutated=%v:%s", mut, strings.Fields(o)[0]))
		if !mut {
			st.Add("c07.timeparse "+kit.HexS(u), o)
		} else {
			lenientOps = append(lenientOps, "c07.timeparse "+kit.HexS(u))
			lenientImpl = append(lenientImpl, o)
		}
	}
	st.Diff(c.Driver, s)
	// mutated timestamps: the slow fall-back time.Parse(RFC3339) is not modelled; only "both accept, different instant" counts
	outs, err := kit.RunDriver(c.Driver, lenientOps)
	s.Streams["rfc3339-mutated"] += len(lenientOps)
	if err != nil {
		s.Diverge("rfc3339-mutated", "(driver failure)", "", err.Error())
		return
	}
	for i := range outs {
		switch {
		case outs[i] == lenientImpl[i]:
			s.Count("timeparse-mutated:agree")
		case strings.HasPrefix(outs[i], "ok") && strings.HasPrefix(lenientImpl[i], "ok"):
			s.Diverge("rfc3339-mutated", lenientOps[i], lenientImpl[i], outs[i])
		case strings.HasPrefix(lenientImpl[i], "ok"):
			s.Count("timeparse-mutated:real-accepts-by-fallback")
		default:
			s.Diverge("rfc3339-mutated", lenientOps[i], lenientImpl[i], outs[i])
		}
	}
}

// ---------------------------------------------------------------- whole codecs

func domainOpts(codecName string, r *kit.Rng) gen.ResultOpts {
	o := gen.ResultOpts{MaxBody: 300}
	switch codecName {
	case "csv":
		// CSV cannot represent "\r\n" inside a text (the reader normalises line ends): keep it out of the domain;
		// a lone '\r' is representable and generated now and then.
		o.Text = gen.TextOpts{CR: r.Chance(0.15)}
	case "json":
		o.Text = gen.TextOpts{CR: true, CRLF: true}
		o.Zone = true
	default:
		o.Text = gen.TextOpts{CR: true, CRLF: true}
		o.Zone = true
		o.NoZoneMinus1 = true // Go's Time.MarshalBinary cannot represent a zone of -00:01 (reserved marker for UTC)
		o.ZoneOddSeconds = true
	}
	if r.Chance(0.02) {
		o.MaxBody = 70000
	}
	return o
}

// fullResult has no zero field; sparse drops a random subset of a result's fields to their zero values.
func fullResult(r *kit.Rng, cn string) vegeta.Result {
	o := domainOpts(cn, r)
	x := gen.Result(r, o)
	if x.Attack == "" {
		x.Attack = "atk"
	}
	if x.Error == "" {
		x.Error = "some error"
	}
	if x.Method == "" {
		x.Method = "GET"
	}
	if x.URL == "" {
		x.URL = "http://h/p"
	}
	if len(x.Body) == 0 {
		x.Body = []byte("body")
	}
	if len(x.Headers) == 0 {
		x.Headers = http.Header{"Content-Type": {"text/plain"}, "X-A": {"1", "2"}}
	}
	if x.Seq == 0 {
		x.Seq = 7
	}
	if x.Code == 0 {
		x.Code = 200
	}
	if x.Latency == 0 {
		x.Latency = 1234567
	}
	if x.BytesIn == 0 {
		x.BytesIn = 4
	}
	if x.BytesOut == 0 {
		x.BytesOut = 9
	}
	return x
}

func sparse(r *kit.Rng, x vegeta.Result, p float64) vegeta.Result {
	if r.Chance(p) {
		x.Attack = ""
	}
	if r.Chance(p) {
		x.Seq = 0
	}
	if r.Chance(p) {
		x.Code = 0
	}
	if r.Chance(p) {
		x.Latency = 0
	}
	if r.Chance(p) {
		x.BytesOut = 0
	}
	if r.Chance(p) {
		x.BytesIn = 0
	}
	if r.Chance(p) {
		x.Error = ""
	}
	if r.Chance(p) {
		x.Body = nil
	}
	if r.Chance(p) {
		x.Method = ""
	}
	if r.Chance(p) {
		x.URL = ""
	}
	if r.Chance(p) {
		x.Headers = nil
	} else if r.Chance(p / 2) {
		x.Headers = http.Header{}
	}
	return x
}

var bigSizes = [][2]int{{700, 800}, {1000, 1100}, {3000, 3200}, {4000, 4200}, {5400, 5600}, {8100, 8300}, {16300, 16500}}
var hugeSizes = [][2]int{{49000, 49300}, {65400, 65700}, {70000, 90000}}

// genResults draws a stream; shape names the dimension it was built for (counted in the evidence).
func genResults(r *kit.Rng, codecName string) []vegeta.Result {
	rs, _ := genShaped(r, codecName)
	return rs
}

func genShaped(r *kit.Rng, cn string) (rs []vegeta.Result, shape string) {
	p := r.Float64()
	switch {
	case p < 0.05:
		return []vegeta.Result{}, "empty-stream"
	case p < 0.13:
		// state carried from one record to the next: a record with every field set, then records with zero /
		// empty / nil fields, then a full one again
		shape = "full-then-sparse"
		rs = append(rs, fullResult(r, cn))
		for k := 0; k <= r.Pick(3); k++ {
			rs = append(rs, sparse(r, fullResult(r, cn), 0.5))
		}
		rs = append(rs, sparse(r, fullResult(r, cn), 1.0)) // only the timestamp left
		rs = append(rs, fullResult(r, cn))
		if r.Chance(0.5) { // the same record twice in a row
			rs = append(rs, gen.CloneResult(&rs[len(rs)-1]))
		}
	case p < 0.19:
		// results of one burst: timestamps within the same second / millisecond / identical
		shape = "close-timestamps"
		n := 2 + r.Pick(5)
		base := gen.TimestampNs(r)
		for i := 0; i < n; i++ {
			x := gen.Result(r, domainOpts(cn, r))
			loc := x.Timestamp.Location()
			d := r.PickI64([]int64{0, 1, 999, 1000, 1001, 999999, 1000000, 123456789, 500000000, 999999999, 1000000000})
			ts := base + d
			if ts > gen.MaxTimestampNs {
				ts = base
			}
			x.Timestamp = time.Unix(0, ts).In(loc)
			rs = append(rs, x)
		}
	case p < 0.215:
		shape = "many-records"
		n := 30 + r.Pick(90)
		for i := 0; i < n; i++ {
			o := domainOpts(cn, r)
			o.MaxBody = 40
			o.Text.MaxLen = 20
			rs = append(rs, gen.Result(r, o))
		}
	case p < 0.25:
		// a record that is large through a text or the headers, around the sizes of the buffers involved
		// (base64 reader 1024, bufio 4096, 64 KiB)
		shape = "big-field"
		n := 1 + r.Pick(3)
		for i := 0; i < n; i++ {
			rs = append(rs, gen.Result(r, domainOpts(cn, r)))
		}
		band := bigSizes[r.Pick(len(bigSizes))]
		if r.Chance(0.12) {
			band = hugeSizes[r.Pick(len(hugeSizes))]
		}
		kind := gen.BigFieldKinds[1+r.Pick(len(gen.BigFieldKinds)-1)] // bodies are covered by MaxBody
		k := r.Pick(n)
		gen.Inflate(r, &rs[k], kind, band[0]+r.Pick(band[1]-band[0]), domainOpts(cn, r).Text)
		shape += ":" + kind
	default:
		shape = "plain"
		n := 1 + r.Pick(4)
		for i := 0; i < n; i++ {
			rs = append(rs, gen.Result(r, domainOpts(cn, r)))
		}
	}
	if cn != "csv" && r.Chance(0.06) && len(rs) > 0 {
		// a header key whose value slice is nil (JSON null, gob count 0); CSV would drop such a key
		k := r.Pick(len(rs))
		if rs[k].Headers == nil {
			rs[k].Headers = http.Header{}
		}
		rs[k].Headers["X-Nil"] = nil
		shape += "+nil-header-values"
	}
	return rs, shape
}

func nontrivial(rs []vegeta.Result) bool {
	for i := range rs {
		if len(rs[i].Attack)+len(rs[i].Error)+len(rs[i].URL) > 2 && (len(rs[i].Body) > 0 || len(rs[i].Headers) > 0) {
			return true
		}
	}
	return false
}

func countDist(s *kit.Summary, cn string, rs []vegeta.Result) {
	s.Count(fmt.Sprintf("%s:records=%d", cn, len(rs)))
	for i := range rs {
		x := &rs[i]
		switch {
		case x.Headers == nil:
			s.Count(cn + ":headers=nil")
		case len(x.Headers) == 0:
			s.Count(cn + ":headers=empty")
		case len(x.Headers) == 1:
			s.Count(cn + ":headers=1key")
		default:
			s.Count(cn + ":headers=multi")
		}
		switch {
		case x.Body == nil:
			s.Count(cn + ":body=nil")
		case len(x.Body) == 0:
			s.Count(cn + ":body=empty")
		case len(x.Body) > 4096:
			s.Count(cn + ":body=large")
		default:
			s.Count(fmt.Sprintf("%s:body=len%%3=%d", cn, len(x.Body)%3))
		}
		if n := len(x.Attack) + len(x.Error) + len(x.Method) + len(x.URL); n > 4096 {
			s.Count(cn + ":texts>4096B")
			if n > 65536 {
				s.Count(cn + ":texts>64KiB")
			}
		}
		if hb := len(headerBytesReal(x.Headers)); hb > 1024 {
			s.Count(cn + ":header-block>1024B")
			if hb > 4096 {
				s.Count(cn + ":header-block>4096B")
			}
			if hb > 65536 {
				s.Count(cn + ":header-block>64KiB")
			}
		}
		if len(x.Headers) > 20 {
			s.Count(cn + ":headers>20keys")
		}
		if i > 0 {
			y := &rs[i-1]
			if (y.Headers != nil && x.Headers == nil) || (len(y.Body) > 0 && len(x.Body) == 0) || (y.Error != "" && x.Error == "") {
				s.Count(cn + ":zero-field-after-set-field")
			}
			if y.Timestamp.Unix() == x.Timestamp.Unix() {
				s.Count(cn + ":same-second-as-previous")
			}
		}
		all := x.Attack + x.Error + x.Method + x.URL
		for _, f := range []struct{ n, sub string }{{"quote", "\""}, {"comma", ","}, {"newline", "\n"}, {"cr", "\r"}, {"backslash", "\\"}, {"html", "<"}, {"u2028", "\u2028"}} {
			if strings.Contains(all, f.sub) {
				s.Count(cn + ":text-has-" + f.n)
			}
		}
		if strings.HasPrefix(x.Attack, " ") || strings.HasSuffix(x.Attack, " ") || strings.HasPrefix(x.URL, " ") || strings.HasPrefix(x.Error, " ") {
			s.Count(cn + ":text-leading/trailing-blank")
		}
		if zoneMin(x) != 0 {
			s.Count(cn + ":timestamp-zone")
		}
		if x.Timestamp.Nanosecond()%1000 != 0 {
			s.Count(cn + ":timestamp-ns-precision")
		}
	}
}

func codecRun(c *run.Ctx, r *kit.Rng, s *kit.Summary, cn string, n int) {
	cd := codecs[cn]
	st := &kit.Stream{Name: cn + "-codec"}
	type pending struct {
		rs []vegeta.Result
		op []string
	}
	var multi []pending
	for i := 0; i < n; i++ {
		rs, shape := genShaped(r, cn)
		s.Count(cn + ":shape=" + shape)
		countDist(s, cn, rs)
		s.Case(fmt.Sprint(cn, ":", mkInput(cn, rs)), nontrivial(rs))
		enc, ok := oracle(s, cd, rs)
		switch {
		case len(enc) > 65536:
			s.Count(cn + ":stream>64KiB")
		case len(enc) > 4096:
			s.Count(cn + ":stream>4096B")
		}
		if i < 2 {
			s.Sample(map[string]interface{}{"codec": cn, "results": mkInput(cn, rs).Results, "encoded": string(enc)})
		}
		if cn == "gob" || !ok {
			continue
		}
		// byte-level facts other theorems rely on
		if cn == "json" && bytes.Count(enc, []byte("\n")) != len(rs) {
			// a fact the model and C09's line contract rely on; C07's text does not speak about it
			s.Diverge("json-codec", "one newline per JSON record", fmt.Sprintf("%d newlines for %d records", bytes.Count(enc, []byte("\n")), len(rs)), fmt.Sprint(len(rs)))
		}
		// model decoder and Lean spec reader on the real encoder's bytes
		real, term := decodeAll(cd, enc)
		st.Add("c07.dec"+cn+" "+kit.Hex(enc), gen.ResultsLine(real, term, false))
		st.Add("c07.spec"+cn+" "+kit.Hex(enc), gen.ResultsLine(rs, "eof", cn == "csv"))
		// model encoder, byte for byte
		for j := range rs {
			x := rs[j]
			one, _ := encodeAll(cd, []vegeta.Result{x})
			switch {
			case cn == "csv":
				st.Add("c07.enccsv "+gen.ResultLine(&x), "ok "+kit.Hex(one))
			case len(x.Headers) <= 1:
				st.Add(fmt.Sprintf("c07.encjson %d %s", zoneMin(&x), gen.ResultLine(&x)), "ok "+kit.Hex(one))
			default:
				// map iteration order is random: compare semantically (model bytes through the real decoder)
				multi = append(multi, pending{[]vegeta.Result{x}, []string{fmt.Sprintf("c07.encjson %d %s", zoneMin(&x), gen.ResultLine(&x))}})
			}
		}
	}
	st.Diff(c.Driver, s)
	var ops []string
	for _, p := range multi {
		ops = append(ops, p.op...)
	}
	outs, err := kit.RunDriver(c.Driver, ops)
	s.Streams[cn+"-model-encoder-to-real-decoder"] += len(ops)
	if err != nil {
		s.Diverge(cn+"-model-encoder", "(driver failure)", "", err.Error())
		return
	}
	for i, p := range multi {
		if !strings.HasPrefix(outs[i], "ok ") {
			s.Diverge(cn+"-model-encoder", ops[i], "ok", outs[i])
			continue
		}
		back, term := decodeAll(cd, kit.UnHex(outs[i][3:]))
		if eq, _ := equalAll(p.rs, back); !eq || term != "eof" {
			s.Diverge(cn+"-model-encoder", ops[i], "real decoder reads the original result back", "real decoder on the model's bytes: "+gen.ResultsLine(back, term, false))
		}
	}
}

// encodeCmdRun: the `vegeta encode` command (encode.go, in-process through the verif binary): for every
// from/to pair, what encode writes must decode to what was in the input file — on heterogeneous streams
// (a sparse record after a full one, bursts, big fields, many records).
func encodeCmdRun(c *run.Ctx, r *kit.Rng, s *kit.Summary, n int) {
	if _, err := os.Stat(c.Vegeta); err != nil {
		s.Skipped["encode-command: no vegeta binary"]++
		return
	}
	names := []string{"gob", "json", "csv"}
	type job struct {
		rs       []vegeta.Result
		from, to string
		in, out  string
		shape    string
	}
	var jobs []job
	var ops []string
	var opIdx []int // jobs[i] is ops[opIdx[i]]
	var extra []string
	for i := 0; i < n; i++ {
		// the CSV domain is the intersection of the three domains (UTC timestamps)
		rs, shape := genShaped(r, "csv")
		if len(rs) == 0 {
			continue
		}
		if i%3 == 0 && !strings.HasPrefix(shape, "full-then-sparse") { // mostly the shape the command's loop is sensitive to
			rs, shape = nil, "full-then-sparse"
			rs = append(rs, fullResult(r, "csv"))
			for k := 0; k <= r.Pick(3); k++ {
				rs = append(rs, sparse(r, fullResult(r, "csv"), 0.5))
			}
			rs = append(rs, sparse(r, fullResult(r, "csv"), 1.0), fullResult(r, "csv"))
		}
		for fi, from := range names {
			enc, st := encodeAll(codecs[from], rs)
			if st != "ok" {
				continue
			}
			in := filepath.Join(c.Work, fmt.Sprintf("enc-%d-%s.in", i, from))
			os.WriteFile(in, enc, 0o644)
			for ti, to := range names {
				if n >= 60 && (i/3+fi+ti)%3 != 0 && !strings.HasPrefix(shape, "full-then-sparse") {
					continue // all nine pairs on the sensitive shape, a third of them elsewhere
				}
				out := filepath.Join(c.Work, fmt.Sprintf("enc-%d-%s-%s.out", i, from, to))
				// the output path may exist already: junk, a longer valid stream (same or another encoding), or
				// the output of the same conversion run before on a longer input
				longer := append(append(append([]vegeta.Result{}, rs...), rs...), rs...)
				before := "nothing"
				switch len(jobs) % 5 {
				case 1:
					before = "junk"
					junk := make([]byte, 20000+len(enc)*2)
					for q := range junk {
						junk[q] = byte(q*7 + q/251)
					}
					os.WriteFile(out, junk, 0o644)
				case 2:
					before = "longer " + to + " stream"
					old, _ := encodeAll(codecs[to], longer)
					os.WriteFile(out, old, 0o644)
				case 3:
					other := names[(ti+1)%3]
					before = "longer " + other + " stream"
					old, _ := encodeAll(codecs[other], longer)
					os.WriteFile(out, old, 0o644)
				case 4:
					before = "same conversion run before on a longer input"
					old, _ := encodeAll(codecs[from], longer)
					in2 := filepath.Join(c.Work, fmt.Sprintf("enc-%d-%s-%s.in2", i, from, to))
					os.WriteFile(in2, old, 0o644)
					extra = append(extra, in2)
					ops = append(ops, "encode "+kit.HexS(to)+" "+kit.HexS(out)+" "+kit.HexS(in2))
				}
				s.Count("encode-command:output-path-held-before=" + before)
				opIdx = append(opIdx, len(ops))
				jobs = append(jobs, job{rs, from, to, in, out, shape + "; output path held before: " + before})
				ops = append(ops, "encode "+kit.HexS(to)+" "+kit.HexS(out)+" "+kit.HexS(in))
			}
		}
	}
	res, err := kit.RunVegeta(c.Vegeta, ops)
	s.Streams["encode-command"] += len(ops)
	if err != nil {
		s.Skipped["encode-command: driver failed"]++
		return
	}
	// the model of the command loop on a third of the conversions: same status, same number of bytes (the order
	// of header map entries is free), and its output read back by the real decoder gives the same records
	var mops []string
	var midx []int
	for i, j := range jobs {
		data, _ := os.ReadFile(j.in)
		if i%3 != 0 || len(data) > 30000 {
			continue
		}
		z := "u"
		if first, _ := decodeAll(codecs[j.from], data); len(first) > 0 {
			z = zoneTok(&first[0])
		}
		midx = append(midx, i)
		mops = append(mops, "c07.encodecmd "+j.from+" "+j.to+" "+z+" "+kit.Hex(data))
	}
	mouts, merr := kit.RunDriver(c.Driver, mops)
	s.Streams["encode-command-model"] += len(mops)
	if merr != nil {
		s.Diverge("encode-command-model", "(driver failure)", "", merr.Error())
	} else {
		for q, i := range midx {
			j := jobs[i]
			data, _ := os.ReadFile(j.out)
			f := strings.Fields(mouts[q])
			op := mops[q]
			if len(op) > 300 {
				op = op[:300] + "…"
			}
			if len(f) != 2 || f[0] != strings.Fields(res[opIdx[i]] + " x")[0] {
				s.Diverge("encode-command-model", op, res[opIdx[i]], mouts[q][:min(len(mouts[q]), 200)])
				continue
			}
			mb := kit.UnHex(f[1])
			mg, mt := decodeAll(codecs[j.to], mb)
			rg, rt := decodeAll(codecs[j.to], data)
			same := len(mb) == len(data) && len(mg) == len(rg) && mt == rt
			for k := 0; same && k < len(mg); k++ {
				same = gen.SameResult(&mg[k], &rg[k])
			}
			if !same {
				s.Diverge("encode-command-model", op, fmt.Sprintf("%d bytes, %d records then %s", len(data), len(rg), rt), fmt.Sprintf("%d bytes, %d records then %s", len(mb), len(mg), mt))
			}
		}
	}
	for i, j := range jobs {
		s.Count("encode-command:" + j.from + "->" + j.to)
		s.Count("encode-command:shape=" + strings.SplitN(j.shape, ";", 2)[0])
		s.Case(fmt.Sprint("encode-cmd:", j.from, j.to, mkInput(j.to, j.rs)), nontrivial(j.rs))
		in := map[string]interface{}{"command": "vegeta encode -to " + j.to + " -output OUT IN", "from": j.from, "to": j.to, "codec": j.from, "results": mkInput(j.from, j.rs).Results, "encode_command": true, "stream": j.shape}
		if res[opIdx[i]] != "ok" {
			s.Violate(kit.Violation{Kind: "encode_command", What: "`vegeta encode` failed on a stream written by the result encoders", Input: in, Observed: res[opIdx[i]], Key: map[string]interface{}{"from": j.from, "to": j.to}})
			continue
		}
		data, _ := os.ReadFile(j.out)
		got, term := decodeAll(codecs[j.to], data)
		bad := len(got) != len(j.rs) || term != "eof"
		at := -1
		for k := 0; !bad && k < len(got); k++ {
			if !gen.SameResult(&got[k], &j.rs[k]) {
				bad, at = true, k
			}
		}
		if bad {
			obs := fmt.Sprintf("%d of %d records then %s", len(got), len(j.rs), term)
			if at >= 0 {
				obs += fmt.Sprintf("; record %d read %s, written %s", at, gen.ResultLine(&got[at]), gen.ResultLine(&j.rs[at]))
			}
			s.Violate(kit.Violation{Kind: "encode_command", What: "what `vegeta encode` writes does not decode to what was in its input (" + j.from + " -> " + j.to + ")",
				Input: in, Expected: fmt.Sprintf("the %d input results then eof", len(j.rs)), Observed: obs, Key: map[string]interface{}{"from": j.from, "to": j.to}})
		}
		os.Remove(j.out)
	}
	for _, j := range jobs {
		os.Remove(j.in)
	}
	for _, f := range extra {
		os.Remove(f)
	}
}

// autoDetectRun: long streams and streams with a large first record, read back through the format
// detection every command uses (vegeta.DecoderFor) and through the `encode` command: total sizes around
// 4 KiB, 32 KiB, 64 KiB and 1 MiB, first records of 20..70 kB. Oracle: the round trip of the property.
func autoDetectRun(c *run.Ctx, r *kit.Rng, s *kit.Summary, n int) {
	names := []string{"gob", "json", "csv"}
	totals := []int{4096, 32768, 65536, 1 << 20}
	firsts := []int{20000, 26000, 33000, 50000, 70000, 1200000} // the last one: a first record beyond 1 MiB
	haveVegeta := false
	if _, err := os.Stat(c.Vegeta); err == nil {
		haveVegeta = true
	}
	type job struct {
		rs       []vegeta.Result
		from, to string
		in, out  string
		what     string
	}
	var jobs []job
	var ops []string
	for i := 0; i < n; i++ {
		cn := names[i%3]
		cd := codecs[cn]
		var rs []vegeta.Result
		what := ""
		mk := func(maxBody int) vegeta.Result {
			o := domainOpts("csv", r) // the intersection of the three domains
			o.MaxBody = maxBody
			return gen.Result(r, o)
		}
		if (i/3)%2 == 0 {
			T := totals[(i/6)%len(totals)]
			target := T*9/10 + r.Pick(T*4/10)
			what = fmt.Sprintf("total around %d bytes", T)
			maxBody := 60
			if T >= 1<<20 {
				maxBody = 6000
			}
			size := 0
			for size < target {
				x := mk(maxBody)
				one, _ := encodeAll(cd, []vegeta.Result{x})
				size += len(one)
				rs = append(rs, x)
			}
		} else {
			f := firsts[(i/6)%len(firsts)]
			what = fmt.Sprintf("first record of about %d bytes", f)
			x := mk(40)
			kind := gen.BigFieldKinds[(i/6)%len(gen.BigFieldKinds)]
			if f > 200000 {
				kind = "body"
			}
			gen.Inflate(r, &x, kind, f, gen.TextOpts{})
			what += " (" + kind + ")"
			rs = append(rs, x)
			for k := 0; k < 2+r.Pick(4); k++ {
				rs = append(rs, mk(40))
			}
		}
		enc, st := encodeAll(cd, rs)
		if st != "ok" {
			continue
		}
		s.Count("auto-detect:" + cn + " " + strings.SplitN(what, " (", 2)[0])
		s.Case(fmt.Sprint("auto:", i, cn, what, len(enc)), true)
		in := map[string]interface{}{"codec": cn, "read_through": "vegeta.DecoderFor", "stream": what, "stream_bytes": len(enc), "records": len(rs), "body_sizes_of_first_records": func() []int {
			var o []int
			for k := 0; k < len(rs) && k < 4; k++ {
				o = append(o, len(rs[k].Body))
			}
			return o
		}()}
		var got []vegeta.Result
		term := ""
		p, _ := kit.Recover(func() {
			dec := vegeta.DecoderFor(bytes.NewReader(enc))
			if dec == nil {
				term = "format not detected"
				return
			}
			for {
				var x vegeta.Result
				err := dec.Decode(&x)
				if err == io.EOF {
					term = "eof"
					return
				}
				if err != nil {
					term = "err: " + err.Error()
					return
				}
				got = append(got, x)
			}
		})
		if p {
			term = "panic"
		}
		if eq, at := equalAll(rs, got); !eq || term != "eof" {
			s.Violate(kit.Violation{Kind: "auto_roundtrip", What: "a stream written by the " + cn + " encoder and read back through the format detection (DecoderFor) is not an equal sequence followed by end-of-stream",
				Input: in, Expected: fmt.Sprintf("%d equal results then eof", len(rs)), Observed: fmt.Sprintf("%d results, first difference at %d, then %s", len(got), at, term), Key: map[string]interface{}{"codec": cn}})
			continue
		}
		if haveVegeta {
			to := names[(i/3)%3]
			inp := filepath.Join(c.Work, fmt.Sprintf("auto-%d.in", i))
			out := filepath.Join(c.Work, fmt.Sprintf("auto-%d.out", i))
			os.WriteFile(inp, enc, 0o644)
			jobs = append(jobs, job{rs, cn, to, inp, out, what})
			ops = append(ops, "encode "+kit.HexS(to)+" "+kit.HexS(out)+" "+kit.HexS(inp))
		}
	}
	if len(ops) == 0 {
		return
	}
	res, err := kit.RunVegeta(c.Vegeta, ops)
	if err != nil {
		s.Skipped["encode-command: driver failed"]++
		return
	}
	for i, j := range jobs {
		data, _ := os.ReadFile(j.out)
		got, term := decodeAll(codecs[j.to], data)
		s.Count("auto-detect:encode command " + j.from + "->" + j.to)
		if eq, at := equalAll(j.rs, got); !eq || term != "eof" || res[i] != "ok" {
			s.Violate(kit.Violation{Kind: "encode_command", What: "what `vegeta encode` writes does not decode to what was in its input (" + j.from + " -> " + j.to + ", long stream / large first record)",
				Input:    map[string]interface{}{"command": "vegeta encode -to " + j.to, "from": j.from, "to": j.to, "stream": j.what, "records": len(j.rs)},
				Expected: fmt.Sprintf("ok, %d equal results then eof", len(j.rs)), Observed: fmt.Sprintf("%s, %d results, first difference at %d, then %s", res[i], len(got), at, term), Key: map[string]interface{}{"from": j.from, "to": j.to}})
		}
		os.Remove(j.in)
		os.Remove(j.out)
	}
}

// equalRun: Result.Equal / headerEqual are "the notion of equality" of the property. A deep copy must be
// Equal, a copy that differs in exactly one field must not be; nil and empty bodies are equal, a nil and an
// empty header map are not. Every pair also goes to the model (`c07.equal`).
func equalRun(c *run.Ctx, r *kit.Rng, s *kit.Summary, n int) {
	st := &kit.Stream{Name: "equal"}
	for i := 0; i < n; i++ {
		a := fullResult(r, "json")
		if r.Chance(0.3) {
			a = sparse(r, a, 0.4)
		}
		b := gen.CloneResult(&a)
		what := "copy"
		want := true
		switch k := r.Pick(25); k {
		case 0:
			b.Attack += "x"
			what, want = "attack", false
		case 1:
			b.Seq++
			what, want = "seq", false
		case 2:
			b.Code ^= 1
			what, want = "code", false
		case 3:
			b.Timestamp = b.Timestamp.Add(time.Duration(r.PickI64([]int64{1, -1, 1000, 1000000000})))
			what, want = "timestamp", false
		case 4:
			b.Latency++
			what, want = "latency", false
		case 5:
			b.BytesOut++
			what, want = "bytes_out", false
		case 6:
			b.BytesIn++
			what, want = "bytes_in", false
		case 7:
			b.Error += "!"
			what, want = "error", false
		case 8:
			b.Body = append(append([]byte{}, b.Body...), 0)
			what, want = "body", false
		case 9:
			b.Method += "S"
			what, want = "method", false
		case 10:
			b.URL += "/"
			what, want = "url", false
		case 11: // BytesIn and BytesOut exchanged
			if b.BytesIn != b.BytesOut {
				b.BytesIn, b.BytesOut = b.BytesOut, b.BytesIn
				what, want = "bytes_in<->bytes_out", false
			}
		case 12:
			a.Body, b.Body = nil, []byte{}
			what = "body nil vs empty"
		case 13:
			// (the text does not say whether a nil and an empty header map are different: only the model is asked)
			a.Headers, b.Headers = nil, http.Header{}
			what, want = "headers nil vs empty", a.Equal(b)
		case 14, 15, 16, 17, 18:
			if len(b.Headers) == 0 {
				break
			}
			ks := make([]string, 0, len(b.Headers))
			for key := range b.Headers {
				ks = append(ks, key)
			}
			sort.Strings(ks)
			key := ks[r.Pick(len(ks))]
			vs := b.Headers[key]
			switch {
			case k == 14 && len(vs) > 0:
				j := r.Pick(len(vs))
				vs[j] += "z"
				what, want = "header value", false
			case k == 15:
				b.Headers[key] = append(vs, "extra")
				what, want = "header value added", false
			case k == 16 && len(vs) >= 2 && vs[0] != vs[len(vs)-1]:
				vs[0], vs[len(vs)-1] = vs[len(vs)-1], vs[0]
				what, want = "header values reordered", false
			case k == 17 && len(vs) > 0:
				delete(b.Headers, key)
				b.Headers["X-Renamed-"+key] = vs
				what, want = "header key renamed", false
			case k == 18:
				b.Headers["X-One-More"] = []string{"v"}
				what, want = "header key added", false
			}
		case 21, 22, 23:
			// value lists that look alike when glued together
			if b.Headers == nil {
				b.Headers = http.Header{}
				a.Headers = http.Header{}
			}
			switch k {
			case 21:
				a.Headers["X-Split"], b.Headers["X-Split"] = []string{"ab", "c"}, []string{"a", "bc"}
				what, want = "header values split differently", false
			case 22:
				a.Headers["X-Split"], b.Headers["X-Split"] = []string{"ab"}, []string{"ab", ""}
				what, want = "empty header value appended", false
			default:
				a.Headers["X-Split"], b.Headers["X-Split"] = []string{"a", "b"}, []string{"ab"}
				what, want = "two header values vs their concatenation", false
			}
		case 19:
			b.Timestamp = b.Timestamp.In(time.FixedZone("", 3600*int(r.Range(-11, 11))))
			what = "same instant, other zone"
		case 20:
			if len(b.Body) > 0 {
				b.Body[r.Pick(len(b.Body))] ^= 0x20
				what, want = "body byte", false
			}
		}
		var ab, ba bool
		p, _ := kit.Recover(func() { ab, ba = a.Equal(b), b.Equal(a) })
		s.Count("equal:" + what)
		s.Case(fmt.Sprint("equal:", i, what), true)
		if p || ab != want || ba != want {
			s.Violate(kit.Violation{Kind: "equal_semantics", What: "Result.Equal does not tell apart results that differ in one field / does not accept a copy (difference: " + what + ")",
				Input:    map[string]interface{}{"a": gen.ResultLine(&a), "b": gen.ResultLine(&b), "difference": what, "want_equal": want, "zone_sec_b": zoneMin(&b) * 60},
				Expected: fmt.Sprint(want), Observed: fmt.Sprintf("a.Equal(b)=%v b.Equal(a)=%v panic=%v", ab, ba, p)})
		}
		st.Add("c07.equal "+gen.ResultLine(&a)+" "+gen.ResultLine(&b), kit.B(ab))
	}
	st.Diff(c.Driver, s)
}

// recWriter records what every Encode call hands to the writer.
type recWriter struct{ buf bytes.Buffer }

func (w *recWriter) Write(p []byte) (int, error) { return w.buf.Write(p) }

func zoneTok(x *vegeta.Result) string {
	if x.Timestamp.Location() == time.UTC {
		return "u"
	}
	_, off := x.Timestamp.Zone()
	return strconv.Itoa(off)
}

// gobModelRun ties Model/GobValue.lean to encoding/gob: the type-definition preamble, the bytes of every
// Encode call, and the model decoder on real streams.
func gobModelRun(c *run.Ctx, r *kit.Rng, s *kit.Summary, n int) {
	cd := codecs["gob"]
	st := &kit.Stream{Name: "gob-model"}
	type pending struct {
		x  vegeta.Result
		op string
	}
	var multi []pending
	var preamble []byte
	for i := 0; i < n; i++ {
		rs := genResults(r, "gob")
		if len(rs) == 0 {
			continue
		}
		w := &recWriter{}
		enc := vegeta.NewEncoder(w)
		okAll := true
		for j := range rs {
			x := rs[j]
			before := w.buf.Len()
			if err := enc.Encode(&x); err != nil {
				okAll = false
				break
			}
			call := append([]byte{}, w.buf.Bytes()[before:]...)
			first := j == 0
			op := fmt.Sprintf("c07.encgob %s %s %s", zoneTok(&x), kit.B(first), gen.ResultLine(&x))
			if len(x.Headers) <= 1 {
				st.Add(op, "ok "+kit.Hex(call))
			} else {
				multi = append(multi, pending{x, fmt.Sprintf("c07.encgob %s 1 %s", zoneTok(&x), gen.ResultLine(&x))})
			}
			if first {
				// the preamble is what precedes the value message of the first call: constant across streams
				one, _ := encodeAll(cd, []vegeta.Result{{}})
				pre := one[:len(one)-4] // the zero Result's value message is 03 ff 80 00
				if preamble == nil {
					preamble = pre
					st.Add("c07.gobpre", "ok "+kit.Hex(pre))
				} else if !bytes.Equal(pre, preamble) {
					s.Diverge("gob-model", "c07.gobpre", "preamble changed between streams: "+kit.Hex(pre), kit.Hex(preamble))
				}
				if !bytes.HasPrefix(call, pre) {
					s.Diverge("gob-model", op, "first call does not start with the type-definition preamble", kit.Hex(call))
				}
			}
		}
		if !okAll {
			continue
		}
		real, term := decodeAll(cd, w.buf.Bytes())
		st.Add("c07.decgob "+kit.Hex(w.buf.Bytes()), gen.ResultsLine(real, term, false))
		s.Case(fmt.Sprint("gobmodel:", mkInput("gob", rs)), nontrivial(rs))
	}
	st.Diff(c.Driver, s)
	var ops []string
	for _, p := range multi {
		ops = append(ops, p.op)
	}
	outs, err := kit.RunDriver(c.Driver, ops)
	s.Streams["gob-model-encoder-to-real-decoder"] += len(ops)
	if err != nil {
		s.Diverge("gob-model-encoder", "(driver failure)", "", err.Error())
		return
	}
	for i, p := range multi {
		if !strings.HasPrefix(outs[i], "ok ") {
			s.Diverge("gob-model-encoder", ops[i], "ok", outs[i])
			continue
		}
		// map iteration order is random: the model's bytes (its own key order) through the real decoder
		back, term := decodeAll(cd, kit.UnHex(outs[i][3:]))
		if eq, _ := equalAll([]vegeta.Result{p.x}, back); !eq || term != "eof" {
			s.Diverge("gob-model-encoder", ops[i], "real decoder reads the original result back", "real decoder on the model's bytes: "+gen.ResultsLine(back, term, false))
		}
		// and the lengths agree (same bytes up to the order of the map entries)
		one, _ := encodeAll(cd, []vegeta.Result{p.x})
		if len(one) != len(kit.UnHex(outs[i][3:])) {
			s.Diverge("gob-model-encoder", ops[i], fmt.Sprintf("%d bytes", len(one)), fmt.Sprintf("%d bytes", len(kit.UnHex(outs[i][3:]))))
		}
	}
}

// mutated streams: only "both accept a record but with different values" is a divergence
func mutatedRun(c *run.Ctx, r *kit.Rng, s *kit.Summary, cn string, n int) {
	cd := codecs[cn]
	var ops, impl []string
	for i := 0; i < n; i++ {
		rs := genResults(r, cn)
		for j := range rs {
			if len(rs[j].Body) > 64 {
				rs[j].Body = rs[j].Body[:64]
			}
		}
		enc, _ := encodeAll(cd, rs)
		if len(enc) > 20000 {
			continue
		}
		t := gen.Mutate(r, string(enc))
		real, term := decodeAll(cd, []byte(t))
		if term == "panic" {
			s.Count(cn + "-mutated:real-panic")
			continue
		}
		ops = append(ops, "c07.dec"+cn+" "+kit.HexS(t))
		impl = append(impl, gen.ResultsLine(real, term, false))
	}
	outs, err := kit.RunDriver(c.Driver, ops)
	s.Streams[cn+"-mutated"] += len(ops)
	if err != nil {
		s.Diverge(cn+"-mutated", "(driver failure)", "", err.Error())
		return
	}
	for i := range outs {
		if outs[i] == impl[i] {
			s.Count(cn + "-mutated:agree")
			continue
		}
		a, b := strings.Split(impl[i], " | "), strings.Split(outs[i], " | ")
		k := len(a) - 2
		if len(b)-2 < k {
			k = len(b) - 2
		}
		bad := false
		for j := 1; j <= k; j++ {
			if a[j] != b[j] {
				bad = true
			}
		}
		if bad {
			s.Diverge(cn+"-mutated", ops[i], impl[i], outs[i])
		} else {
			s.Count(cn + "-mutated:accept/reject-differs")
			if os.Getenv("C07_DEBUG_MUTATED") != "" {
				fmt.Fprintf(os.Stderr, "MUT %s\n  op    %s\n  real  %s\n  model %s\n", cn, ops[i], impl[i], outs[i])
			}
		}
	}
}

func replay(c *run.Ctx, s *kit.Summary) {
	raw, err := os.ReadFile(c.Replay)
	if err != nil {
		panic(err)
	}
	var rec struct {
		Kind  string    `json:"kind"`
		Input caseInput `json:"input"`
	}
	if err := json.Unmarshal(raw, &rec); err != nil {
		panic(err)
	}
	if rec.Kind == "equal_semantics" {
		var e struct {
			Input struct {
				A, B       string
				Difference string
				WantEqual  bool `json:"want_equal"`
				ZoneSecB   int  `json:"zone_sec_b"`
			} `json:"input"`
		}
		if err := json.Unmarshal(raw, &e); err != nil {
			panic(err)
		}
		a, err1 := gen.ParseResultLine(e.Input.A)
		b, err2 := gen.ParseResultLine(e.Input.B)
		if err1 != nil || err2 != nil {
			panic(fmt.Sprint(err1, err2))
		}
		if e.Input.ZoneSecB != 0 {
			b.Timestamp = b.Timestamp.In(time.FixedZone("", e.Input.ZoneSecB))
		}
		s.Case("replay", true)
		if ab, ba := a.Equal(b), b.Equal(a); ab != e.Input.WantEqual || ba != e.Input.WantEqual {
			s.Violate(kit.Violation{Kind: "equal_semantics", What: "Result.Equal does not tell apart results that differ in one field / does not accept a copy (difference: " + e.Input.Difference + ")",
				Input: e.Input, Expected: fmt.Sprint(e.Input.WantEqual), Observed: fmt.Sprintf("a.Equal(b)=%v b.Equal(a)=%v", ab, ba)})
		}
		return
	}
	var rs []vegeta.Result
	for i, ln := range rec.Input.Results {
		x, err := gen.ParseResultLine(ln)
		if err != nil {
			panic(err)
		}
		if i < len(rec.Input.ZoneMin) && rec.Input.ZoneMin[i] != 0 {
			x.Timestamp = x.Timestamp.In(time.FixedZone("", rec.Input.ZoneMin[i]*60))
		}
		rs = append(rs, x)
	}
	cd, ok := codecs[rec.Input.Codec]
	if !ok {
		return
	}
	s.Case("replay", true)
	if rec.Kind == "encode_command" {
		var e struct {
			Input struct{ From, To string } `json:"input"`
		}
		json.Unmarshal(raw, &e)
		enc, _ := encodeAll(codecs[e.Input.From], rs)
		in, out := filepath.Join(c.Work, "replay.in"), filepath.Join(c.Work, "replay.out")
		os.WriteFile(in, enc, 0o644)
		res, err := kit.RunVegeta(c.Vegeta, []string{"encode " + kit.HexS(e.Input.To) + " " + kit.HexS(out) + " " + kit.HexS(in)})
		if err != nil {
			panic(err)
		}
		data, _ := os.ReadFile(out)
		got, term := decodeAll(codecs[e.Input.To], data)
		bad := res[0] != "ok" || len(got) != len(rs) || term != "eof"
		for k := 0; !bad && k < len(got); k++ {
			bad = !gen.SameResult(&got[k], &rs[k])
		}
		if bad {
			s.Violate(kit.Violation{Kind: "encode_command", What: "what `vegeta encode` writes does not decode to what was in its input (" + e.Input.From + " -> " + e.Input.To + ")",
				Input: rec.Input, Observed: res[0] + " " + gen.ResultsLine(got, term, false)})
		}
		return
	}
	oracle(s, cd, rs)
}

func runC07(c *run.Ctx, s *kit.Summary) {
	r := kit.NewRng(c.Seed)
	s.Rule = "results generated over the quantifier of C07: texts = valid UTF-8 built from quotes, commas, newlines, blanks (ASCII and Unicode), backslashes, HTML characters, control bytes, multi-byte runes (CSV: never \"\\r\\n\", a lone \\r sometimes; JSON/gob: also \\r\\n); seq/byte counts/code/latency boundary-biased over their full ranges; timestamps 1970..2200 with ns precision (JSON/gob also in fixed zones of whole minutes); bodies nil/empty/all lengths mod 3/up to 70 kB; headers nil/empty/1..4 canonical keys with 1..4 values; 0..4 results per stream. Non-trivial = distinct stream holding a result with >2 bytes of text and a body or headers. Layer streams: generated plus byte-mutated inputs of strconv, base64, csv, textproto/http header, easyjson string, time RFC 3339 functions"
	checkFields(s)
	if c.Replay != "" {
		replay(c, s)
		return
	}
	sort.Strings(nil)
	layerDecimal(c, r, s)
	layerBase64(c, r, s)
	layerCSVText(c, r, s)
	layerMIME(c, r, s)
	layerJSONString(c, r, s)
	layerTime(c, r, s)
	codecRun(c, r, s, "csv", c.N(4000, 50000))
	codecRun(c, r, s, "json", c.N(4000, 50000))
	codecRun(c, r, s, "gob", c.N(3000, 30000))
	gobModelRun(c, r, s, c.N(3000, 40000))
	equalRun(c, r, s, c.N(3000, 100000))
	encodeCmdRun(c, r, s, c.N(150, 4000))
	autoDetectRun(c, r, s, c.N(54, 900))
	mutatedRun(c, r, s, "csv", c.N(2000, 60000))
	mutatedRun(c, r, s, "json", c.N(2000, 60000))
}
