// Harness of property C17: the plot shows every result exactly once, whatever the arrival order.
//
// Streams (real code vs Lean model, compared by float bit patterns):
//
//	c17.downsample  lttb.Downsample directly: exhaustive (count, threshold) pairs + random pairs
//	c17.bucketsok   the bucket-arithmetic condition of theorems buckets_ok / downsample_exact_of_bucketsOK
//	c17.plot        plot.Plot: Add in generated arrival orders, Close, VerifData (rows + labels)
//	c17.adds        only the Adds (out-of-domain time stamps: wrap-around, errMonotonicTimestamp)
//	plotcmd         the `plot` command on encoded result files: data block of the HTML vs VerifData
//	c17.plotcmd     … and vs the model of the command (round-robin decoding, Add each, data)
//
// The oracle (written from the property text, independent of the model) is evaluated on every
// in-domain case of the real code.
package main

import (
	"bytes"
	"encoding/json"
	"fmt"
	"math"
	"os"
	"os/exec"
	"path/filepath"
	"regexp"
	"sort"
	"strconv"
	"strings"
	"time"

	vegeta "github.com/tsenart/vegeta/v12/lib"
	"github.com/tsenart/vegeta/v12/lib/lttb"
	"github.com/tsenart/vegeta/v12/lib/plot"
	"vharness/kit"
	"vharness/run"
)

func main() { run.Main("C17", runC17) }

// ---------------------------------------------------------------------------
// lttb.Downsample

type dsCase struct {
	Op        string      `json:"op"` // "downsample"
	Count     int         `json:"count"`
	Threshold int         `json:"threshold"`
	Points    [][2]uint64 `json:"points"` // bit patterns of X, Y
	Kind      string      `json:"values"`
}

func (d dsCase) points() []lttb.Point {
	ps := make([]lttb.Point, len(d.Points))
	for i, p := range d.Points {
		ps[i] = lttb.Point{X: math.Float64frombits(p[0]), Y: math.Float64frombits(p[1])}
	}
	return ps
}

// newIter iterates over data like timeSeries.iter does over its store: at most count points,
// fewer when the data run out; make panics on a negative count.
func newIter(data []lttb.Point) lttb.Iter {
	return func(count int) ([]lttb.Point, error) {
		ps := make([]lttb.Point, 0, count)
		for i := 0; i < count && len(data) > 0; i++ {
			ps = append(ps, data[0])
			data = data[1:]
		}
		return ps, nil
	}
}

func pointsLine(ps []lttb.Point) string {
	var sb strings.Builder
	sb.WriteString(strconv.Itoa(len(ps)))
	for _, p := range ps {
		sb.WriteByte(' ')
		sb.WriteString(strconv.FormatUint(math.Float64bits(p.X), 10))
		sb.WriteByte(' ')
		sb.WriteString(strconv.FormatUint(math.Float64bits(p.Y), 10))
	}
	return sb.String()
}

func implDownsample(d dsCase) (line string, out []lttb.Point, err error, panicked bool) {
	in := d.points()
	panicked, _ = kit.Recover(func() { out, err = lttb.Downsample(d.Count, d.Threshold, newIter(in)) })
	switch {
	case panicked:
		return "panic", nil, nil, true
	case err != nil:
		return "err", nil, err, false
	}
	return "ok " + pointsLine(out), out, nil, false
}

func samePoint(a, b lttb.Point) bool {
	return math.Float64bits(a.X) == math.Float64bits(b.X) && math.Float64bits(a.Y) == math.Float64bits(b.Y)
}

// oracleDownsample: the second sentence of the property, on the real output.
func oracleDownsample(s *kit.Summary, d dsCase, out []lttb.Point, err error, panicked bool) {
	in := d.points()
	if d.Count != len(in) || d.Threshold < 0 {
		return // outside the property's domain (correspondence only)
	}
	key := map[string]interface{}{"count": d.Count, "threshold": d.Threshold}
	viol := func(kind, what, exp, obs string) {
		s.Violate(kit.Violation{Kind: kind, What: what, Input: d, Expected: exp, Observed: obs, Key: key})
	}
	if panicked {
		viol("lttb_panic", "Downsample panicked", "no panic", "panic")
		return
	}
	switch {
	case d.Threshold >= d.Count || d.Threshold == 0:
		ok := err == nil && len(out) == len(in)
		for i := 0; ok && i < len(in); i++ {
			ok = samePoint(out[i], in[i])
		}
		if !ok {
			viol("lttb_identity", "series at or below the threshold (or threshold 0) was changed", pointsLine(in), fmt.Sprint(pointsLine(out), " err=", err))
		}
	case d.Threshold < 3:
		if err == nil {
			viol("lttb_accepts_1_2", "longer series with threshold 1 or 2 was not rejected", "error", pointsLine(out))
		}
	default:
		if err != nil {
			viol("lttb_error", "Downsample returned an error", "no error", err.Error())
			return
		}
		if len(out) != d.Threshold {
			viol("lttb_count", "output does not have exactly threshold points", strconv.Itoa(d.Threshold), strconv.Itoa(len(out)))
			return
		}
		if !samePoint(out[0], in[0]) || !samePoint(out[len(out)-1], in[len(in)-1]) {
			viol("lttb_first_last", "output does not start with the first and end with the last point", "", pointsLine(out))
		}
		j := 0
		for _, p := range in { // greedy subsequence match
			if j < len(out) && samePoint(out[j], p) {
				j++
			}
		}
		if j != len(out) {
			viol("lttb_subsequence", "output is not a subsequence of the input", "", pointsLine(out))
		}
	}
}

var valueKinds = []string{"latency", "equalX", "equalY", "huge", "bits", "smallint", "flat", "spikes"}

func genPoints(r *kit.Rng, n int, kind string) [][2]uint64 {
	ps := make([][2]uint64, n)
	x := 0.0
	for i := range ps {
		var px, py float64
		switch kind {
		case "latency":
			x += float64(r.Range(0, 3000)) / 1000
			px, py = x, float64(r.Range(0, 5000000))/1000
		case "equalX":
			px, py = 7.25, float64(r.Range(0, 100000))/8
		case "equalY":
			x += float64(r.Range(0, 10))
			px, py = x, 42.5
		case "huge":
			px = []float64{1e300, -1e300, math.MaxFloat64, 1e154, -1e154, 1e200, 3, 0}[r.Pick(8)]
			py = []float64{1e300, -1e300, math.MaxFloat64, -math.MaxFloat64, 1e154, 1e-300, 5e-324, 0}[r.Pick(8)]
		case "bits":
			px, py = math.Float64frombits(r.Uint64()), math.Float64frombits(r.Uint64())
			if r.Chance(0.05) {
				px = []float64{math.Inf(1), math.Inf(-1), math.NaN(), math.Copysign(0, -1)}[r.Pick(4)]
			}
		case "smallint":
			px, py = float64(r.Range(0, 3)), float64(r.Range(-2, 2))
		case "flat":
			px, py = float64(i), 1
		default: // spikes
			px, py = float64(i)/1000, 1
			if r.Chance(0.1) {
				py = float64(r.Range(100, 100000))
			}
		}
		ps[i] = [2]uint64{math.Float64bits(px), math.Float64bits(py)}
	}
	return ps
}

// goBucketsOK: the hypothesis BucketsOK of the Lean theorem, computed with native floats.
func goBucketsOK(count, threshold int) bool {
	size := float64(count-2) / float64(threshold-2)
	f0 := int(1 + size)
	if f0 < 2 {
		return false
	}
	rem := count - min(f0, count)
	for i := 0; i < threshold-2; i++ {
		lo := int(float64(i+1)*size) + 1
		hi := int(float64(i+2)*size) + 1
		d := hi - lo
		if d < 1 || rem < 1 {
			return false
		}
		rem -= min(d, rem)
	}
	return true
}

func runDownsampleCase(s *kit.Summary, st, bk *kit.Stream, d dsCase, sample bool) {
	runDownsampleCaseM(s, st, bk, d, sample, true)
}

// runDownsampleCaseM: real code + oracle always; the model is consulted when withModel is set.
func runDownsampleCaseM(s *kit.Summary, st, bk *kit.Stream, d dsCase, sample, withModel bool) {
	line, out, err, panicked := implDownsample(d)
	if withModel {
		st.Add(fmt.Sprintf("c17.downsample %d %d %s", d.Count, d.Threshold, bitsPairs(d.Points)), line)
	} else {
		s.Count("downsample:oracle-only")
	}
	oracleDownsample(s, d, out, err, panicked)
	branch := "sampled"
	switch {
	case d.Count != len(d.Points) || d.Threshold < 0:
		branch = "out-of-domain"
	case d.Threshold >= d.Count || d.Threshold == 0:
		branch = "identity"
	case d.Threshold < 3:
		branch = "rejected"
	}
	s.Count("downsample:" + branch)
	s.Count("downsample:values=" + d.Kind)
	s.Case(fmt.Sprintf("ds:%d:%d:%s:%x", d.Count, d.Threshold, d.Kind, hashPairs(d.Points)), branch == "sampled")
	if branch == "sampled" {
		ok := goBucketsOK(d.Count, d.Threshold)
		if withModel {
			bk.Add(fmt.Sprintf("c17.bucketsok %d %d", d.Count, d.Threshold), "ok "+kit.B(ok))
		}
		s.Count("bucketsok:" + kit.B(ok))
		if !ok {
			s.Extra["bucketsok_false"] = fmt.Sprintf("count=%d threshold=%d", d.Count, d.Threshold)
		}
	}
	if sample {
		s.Sample(map[string]interface{}{"op": "c17.downsample", "count": d.Count, "threshold": d.Threshold, "values": d.Kind, "impl": clip(line, 200)})
	}
}

func clip(s string, n int) string {
	if len(s) > n {
		return s[:n] + "…"
	}
	return s
}

func bitsPairs(ps [][2]uint64) string {
	var sb strings.Builder
	sb.WriteString(strconv.Itoa(len(ps)))
	for _, p := range ps {
		sb.WriteByte(' ')
		sb.WriteString(strconv.FormatUint(p[0], 10))
		sb.WriteByte(' ')
		sb.WriteString(strconv.FormatUint(p[1], 10))
	}
	return sb.String()
}

func hashPairs(ps [][2]uint64) uint64 {
	h := uint64(1469598103934665603)
	for _, p := range ps {
		h = (h ^ p[0]) * 1099511628211
		h = (h ^ p[1]) * 1099511628211
	}
	return h
}

// flush diffs a stream against the model once it holds enough text, to bound memory.
func flush(c *run.Ctx, s *kit.Summary, st *kit.Stream, force bool) {
	n := 0
	for _, o := range st.Ops {
		n += len(o)
	}
	if force || n > 48<<20 {
		st.Diff(c.Driver, s)
		st.Ops, st.Impl = nil, nil
	}
}

func downsampleStreams(c *run.Ctx, s *kit.Summary, r *kit.Rng) {
	st := &kit.Stream{Name: "c17.downsample"}
	bk := &kit.Stream{Name: "c17.bucketsok"}
	maxCount := 64
	if c.Tier == "thorough" {
		maxCount = 300
	}
	// exhaustive over all (count, threshold) pairs with count ≤ maxCount; thresholds 0..count+1
	for count := 0; count <= maxCount; count++ {
		for threshold := 0; threshold <= count+1; threshold++ {
			kind := valueKinds[r.Pick(len(valueKinds))]
			d := dsCase{"downsample", count, threshold, genPoints(r, count, kind), kind}
			// every pair goes through the real code and the oracle; beyond count 64 the model is
			// consulted for a sample of the pairs (the driver is the slow side)
			withModel := count <= 64 || r.Chance(0.15)
			runDownsampleCaseM(s, st, bk, d, count == 40 && threshold == 7, withModel)
			flush(c, s, st, false)
		}
	}
	s.Extra["downsample_exhaustive_max_count"] = maxCount
	// random pairs beyond
	maxBig := 2000
	if c.Tier == "thorough" {
		maxBig = 6000
	}
	for i := 0; i < c.N(250, 1500); i++ {
		count := int(r.Range(int64(maxCount)+1, int64(maxBig)))
		var threshold int
		switch r.Pick(8) {
		case 0:
			threshold = int(r.Range(0, 4))
		case 1:
			threshold = 3 + r.Pick(6)
		case 2:
			threshold = count - 1 - r.Pick(4)
		case 3:
			threshold = count + r.Pick(3)
		case 4:
			threshold = count/2 + r.Pick(3) - 1
		default:
			threshold = int(r.Range(3, int64(count)))
		}
		kind := valueKinds[r.Pick(len(valueKinds))]
		d := dsCase{"downsample", count, threshold, genPoints(r, count, kind), kind}
		runDownsampleCase(s, st, bk, d, i == 0)
		flush(c, s, st, false)
	}
	// outside the domain: count ≠ number of points, negative threshold (correspondence only)
	for i := 0; i < c.N(300, 5000); i++ {
		n := r.Pick(40)
		count := n + r.Pick(7) - 3
		if r.Chance(0.1) {
			count = -r.Pick(4)
		}
		threshold := r.Pick(n+4) - 1
		kind := valueKinds[r.Pick(len(valueKinds))]
		d := dsCase{"downsample", count, threshold, genPoints(r, n, kind), kind}
		runDownsampleCase(s, st, bk, d, false)
	}
	// the bucket hypothesis alone for many more large pairs (no points needed)
	for i := 0; i < c.N(400, 6000); i++ {
		count := int(r.Range(5, 1<<uint(3+r.Pick(28))))
		threshold := int(r.Range(3, int64(min(count-1, 1500))))
		if r.Chance(0.1) { // a few long loops, thresholds near count
			count = int(r.Range(5, 20000))
			threshold = count - 1 - r.Pick(min(count-4, 50))
		}
		if r.Chance(0.15) { // beyond the 2^50 bound of theorem buckets_ok
			count = int(r.Range(1<<50+1, 1<<uint(51+r.Pick(12))))
			threshold = int(r.Range(3, 1500))
		}
		if threshold < 3 || threshold >= count {
			continue
		}
		ok := goBucketsOK(count, threshold)
		bk.Add(fmt.Sprintf("c17.bucketsok %d %d", count, threshold), "ok "+kit.B(ok))
		if count > 1<<53 {
			s.Count("bucketsok_only:count>2^53:" + kit.B(ok))
		} else if count > 1<<50 {
			s.Count("bucketsok_only:2^50<count<=2^53:" + kit.B(ok))
		} else {
			s.Count("bucketsok_only:" + kit.B(ok))
		}
		if !ok && count <= 1<<50 {
			s.Extra["bucketsok_false"] = fmt.Sprintf("count=%d threshold=%d", count, threshold)
		} else if !ok {
			s.Extra["bucketsok_false_beyond_2^50"] = fmt.Sprintf("count=%d threshold=%d", count, threshold)
		}
	}
	flush(c, s, st, true)
	bk.Diff(c.Driver, s)
}

// ---------------------------------------------------------------------------
// plot.Plot

type res struct {
	Attack string `json:"attack"`
	Seq    uint64 `json:"seq"`
	TS     int64  `json:"ts"`  // Unix ns
	Lat    int64  `json:"lat"` // ns
	Err    bool   `json:"err"`
}

type plotCase struct {
	Op        string `json:"op"` // "plot" | "adds" | "plotcmd"
	Threshold int    `json:"threshold"`
	Results   []res  `json:"results"` // in arrival order
	Format    string `json:"format,omitempty"`
	Files     int    `json:"files,omitempty"`
	Title     string `json:"title,omitempty"`
	Probe     string `json:"probe,omitempty"`    // regression probe: part of the violation kind
	Labeler   string `json:"labeler,omitempty"`  // "" = ErrorLabeler (default / explicit), "code" = custom Labeler
	Interim   bool   `json:"interim,omitempty"`  // data() is also called half way through the Adds
	BigBody   int    `json:"big_body,omitempty"` // size of the one large response body in the input files
}

// code: the status code of a generated result.  It is deliberately not a function of the error
// flag: an error is set for transport failures (code 0), for failures while reading a 200 body,
// and for 4xx/5xx; and a result without error may carry any code (only `Error` decides the series).
func (x res) code() uint16 {
	h := (x.Seq*2654435761 + uint64(x.TS)/7 + uint64(x.Lat)) % 8
	if x.Err {
		return []uint16{0, 0, 500, 503, 404, 200, 200, 302}[h]
	}
	return []uint16{200, 200, 200, 201, 204, 302, 404, 500}[h]
}

func (x res) result() *vegeta.Result {
	r := &vegeta.Result{Attack: x.Attack, Seq: x.Seq, Code: x.code(), Timestamp: time.Unix(0, x.TS), Latency: time.Duration(x.Lat)}
	if x.Err {
		r.Error = []string{"boom", " ", "Get \"http://x\": EOF", "500 Internal Server Error"}[(x.Seq+uint64(x.Lat))%4]
	}
	if (x.Seq+uint64(x.TS))%3 == 0 { // fields the plot must ignore; non-empty only on some records
		r.Body = []byte("body")
		r.Method, r.URL = "GET", "http://x/"
		r.BytesIn, r.BytesOut = 4, 9
	}
	return r
}

// labelOf: the series label of a result under the case's labeler ("" = plot.ErrorLabeler,
// "code" = a custom Labeler: status class).
func labelOf(labeler string, x res) string {
	if labeler == "code" {
		return fmt.Sprintf("%dxx", x.code()/100)
	}
	if x.Err {
		return "ERROR"
	}
	return "OK"
}

func resultsTokens(rs []res) string {
	var sb strings.Builder
	sb.WriteString(strconv.Itoa(len(rs)))
	for _, x := range rs {
		fmt.Fprintf(&sb, " %s %d %d %d %s", kit.HexS(x.Attack), x.Seq, x.TS, x.Lat, kit.B(x.Err))
	}
	return sb.String()
}

// plotOp: the model operation of a library case
func plotOp(pc plotCase) string {
	if pc.Labeler == "" {
		return fmt.Sprintf("c17.plot %d %s", pc.Threshold, resultsTokens(pc.Results))
	}
	var sb strings.Builder
	fmt.Fprintf(&sb, "c17.plotl %d %d", pc.Threshold, len(pc.Results))
	for _, x := range pc.Results {
		fmt.Fprintf(&sb, " %s %d %d %d %s", kit.HexS(x.Attack), x.Seq, x.TS, x.Lat, kit.HexS(labelOf(pc.Labeler, x)))
	}
	return sb.String()
}

type plotOut struct {
	rows2    [][]float64 // second data() call on the same plot
	labels2  []string
	dataErr2 error
	line     string
	rows     [][]float64 // as returned (not canonicalised)
	labels   []string
	addErr   int // index of the failing Add, -1 if none
	dataErr  error
	panicked bool
}

func rowLess(a, b []float64) bool { // canonical order of rows with equal X
	for i := range a {
		x, y := math.Float64bits(a[i]), math.Float64bits(b[i])
		if x != y {
			return x < y
		}
	}
	return false
}

// canonRows sorts every run of rows with equal X by bit pattern (sort.Sort is not stable).
func canonRows(rows [][]float64) [][]float64 {
	out := make([][]float64, len(rows))
	copy(out, rows)
	for i := 0; i < len(out); {
		j := i + 1
		for j < len(out) && len(out[j]) > 0 && len(out[i]) > 0 && out[j][0] == out[i][0] {
			j++
		}
		g := out[i:j]
		sort.SliceStable(g, func(a, b int) bool { return rowLess(g[a], g[b]) })
		i = j
	}
	return out
}

func dataLine(rows [][]float64, labels []string) string {
	var sb strings.Builder
	fmt.Fprintf(&sb, "ok %d", len(labels))
	for _, l := range labels {
		sb.WriteByte(' ')
		sb.WriteString(kit.HexS(l))
	}
	fmt.Fprintf(&sb, " %d %d", len(rows), len(labels))
	for _, r := range canonRows(rows) {
		for _, f := range r {
			sb.WriteByte(' ')
			sb.WriteString(strconv.FormatUint(math.Float64bits(f), 10))
		}
	}
	return sb.String()
}

func implPlot(pc plotCase, wantData bool) plotOut {
	o := plotOut{addErr: -1}
	var p *plot.Plot
	switch {
	case pc.Labeler == "code":
		lab := plot.Label(func(r *vegeta.Result) string { return fmt.Sprintf("%dxx", r.Code/100) })
		if len(pc.Results)%2 == 0 { // the options in either order
			p = plot.New(lab, plot.Downsample(pc.Threshold), plot.Title("t"))
		} else {
			p = plot.New(plot.Title("t"), plot.Downsample(pc.Threshold), lab)
		}
	case len(pc.Results)%3 == 0: // ErrorLabeler given explicitly, as the command does
		p = plot.New(plot.Label(plot.ErrorLabeler), plot.Downsample(pc.Threshold))
	default:
		p = plot.New(plot.Downsample(pc.Threshold))
	}
	var addErr error
	idx := -1
	pa, _ := kit.Recover(func() {
		for i, x := range pc.Results {
			idx = i
			if pc.Interim && wantData && i == len(pc.Results)/2 {
				p.VerifData() // the data may be asked for while results are still coming in
			}
			if addErr = p.Add(x.result()); addErr != nil {
				return
			}
		}
	})
	if pa {
		o.panicked = true
		o.line = fmt.Sprintf("panic add %d", idx)
		return o
	}
	if addErr != nil {
		o.addErr = idx
		o.line = fmt.Sprintf("err add %d", idx)
		return o
	}
	if !wantData {
		o.line = "ok"
		return o
	}
	pd, _ := kit.Recover(func() {
		p.Close()
		o.rows, o.labels, o.dataErr = p.VerifData()
		// the data are rendered from the plot's state: asking again gives the same data
		o.rows2, o.labels2, o.dataErr2 = p.VerifData()
	})
	switch {
	case pd:
		o.panicked = true
		o.line = "panic data"
	case o.dataErr != nil:
		o.line = "err data"
	default:
		o.line = dataLine(o.rows, o.labels)
	}
	return o
}

// tszFirstLimit: github.com/tsenart/go-tsz stores the first time stamp of a series in 27 bits
// relative to the series' T0 (and reads 2^27-1 as the end marker).  Since timeSeries.add creates
// the store at the series' first point this no longer limits the plot; the value is kept for the
// two regression probes and for classifying their violations.
const tszFirstLimit = 1<<27 - 1 // ms

type expPoint struct {
	ms  int64
	lat int64
}

// inDomain: contiguous sequence numbers 0..n-1 per attack, each exactly once, time stamps
// non-decreasing in sequence order (C05).  Returns per attack the results in sequence order.
func inDomain(rs []res) (map[string][]res, bool) {
	by := map[string][]res{}
	for _, x := range rs {
		by[x.Attack] = append(by[x.Attack], x)
	}
	for a, xs := range by {
		sort.SliceStable(xs, func(i, j int) bool { return xs[i].Seq < xs[j].Seq })
		for i, x := range xs {
			if x.Seq != uint64(i) || (i > 0 && x.TS < xs[i-1].TS) {
				return nil, false
			}
		}
		by[a] = xs
	}
	return by, true
}

// oracleLib: the oracle on what the library shows for a case — on the first and on a second
// rendering of the same plot.
func oracleLib(s *kit.Summary, pc plotCase, o plotOut) {
	oraclePlot(s, pc, o, "VerifData")
	if o.panicked || o.addErr >= 0 || o.dataErr != nil || o.line == "ok" {
		return
	}
	o2 := o
	o2.rows, o2.labels, o2.dataErr = o.rows2, o.labels2, o.dataErr2
	oraclePlot(s, pc, o2, "VerifData (second call)")
}

// oraclePlot evaluates the first sentence of the property (and, per series, the second) on
// rows and labels produced by the real code for an in-domain result set.
func oraclePlot(s *kit.Summary, pc plotCase, o plotOut, where string) {
	by, ok := inDomain(pc.Results)
	if !ok {
		return
	}
	if pc.Labeler != "" || len(pc.Results) == 0 {
		// the property speaks of the OK/ERROR series of 1…5000 results: plots with a custom Labeler and
		// plots without any result are compared with the model only
		return
	}
	// expected series
	type serKey struct{ attack, label string }
	exp := map[serKey][]expPoint{}
	late := int64(0) // largest "first time stamp of a series" in ms
	for a, xs := range by {
		seen := map[string]bool{}
		for _, x := range xs {
			l := labelOf(pc.Labeler, x)
			ms := (x.TS - xs[0].TS) / 1e6
			if !seen[l] {
				seen[l] = true
				if ms > late {
					late = ms
				}
			}
			exp[serKey{a, l}] = append(exp[serKey{a, l}], expPoint{ms, x.Lat})
		}
	}
	key := map[string]interface{}{"where": where, "results": len(pc.Results), "threshold": pc.Threshold,
		"latest_series_start_ms": late, "beyond_tsz_27bit": late >= tszFirstLimit}
	pre := "plot_"
	if late >= tszFirstLimit {
		pre = "plot_late_series_" // a series begins ≥ 2^27-1 ms after the attack's first request
	} else if pc.Probe != "" {
		pre = "plot_" + pc.Probe + "_"
	}
	viol := func(kind, what, e, ob string) {
		s.Violate(kit.Violation{Kind: pre + kind, What: where + ": " + what, Input: pc, Expected: clip(e, 600), Observed: clip(ob, 600), Key: key})
	}
	if o.panicked {
		viol("panic", "plot panicked: "+o.line, "no panic", o.line)
		return
	}
	keys := make([]serKey, 0, len(exp))
	longest := 0
	for k, v := range exp {
		keys = append(keys, k)
		if len(v) > longest {
			longest = len(v)
		}
	}
	if o.addErr >= 0 {
		if (pc.Threshold == 1 || pc.Threshold == 2) && longest > pc.Threshold {
			return // a plot that must be rejected: where the rejection happens (Add or rendering) is free
		}
		viol("add_error", "Add returned an error for an in-domain result", "no error", o.line)
		return
	}
	if o.dataErr != nil {
		if (pc.Threshold == 1 || pc.Threshold == 2) && longest > pc.Threshold {
			return // rejected with an error rather than mis-sampled
		}
		viol("data_error", "data() returned an error", "no error", o.dataErr.Error())
		return
	}
	if (pc.Threshold == 1 || pc.Threshold == 2) && longest > pc.Threshold {
		viol("accepts_1_2", "a series longer than threshold 1 or 2 was not rejected", "error", "data")
		return
	}
	sort.Slice(keys, func(i, j int) bool { return keys[i].attack+keys[i].label < keys[j].attack+keys[j].label })

	// The columns of the data: the first label names the x axis (any text); every further label
	// names one series.  The property fixes neither the wording of a label nor the order of the
	// columns, only that the series are the per-attack OK/ERROR series: a column may stand for the
	// series (attack, label) if its label mentions both and its points are that series' points.
	ncols := len(o.labels) - 1
	for _, row := range o.rows {
		if len(row) != len(o.labels) {
			if strings.HasPrefix(where, "VerifData") {
				viol("row_width", "row width differs from the number of labels", strconv.Itoa(len(o.labels)), strconv.Itoa(len(row)))
			} else {
				s.Skipped["plot:unrecognised-row-layout"]++ // cannot tell which value belongs to which series
			}
			return
		}
	}
	if ncols < 0 {
		ncols = 0
	}
	// "sorted by x"; every non-NaN cell is a plotted point of its column (a row may carry the points
	// of several series that share an x)
	got := make([][][2]float64, ncols)
	for i, row := range o.rows {
		if i > 0 && !(o.rows[i-1][0] <= row[0]) {
			viol("unsorted", "rows are not sorted by x", "", fmt.Sprintf("row %d: %v after %v", i, row[0], o.rows[i-1][0]))
			return
		}
		for j := 1; j < len(row); j++ {
			if !math.IsNaN(row[j]) {
				got[j-1] = append(got[j-1], [2]float64{row[0], row[j]})
			}
		}
	}
	type verdict struct{ kind, what, e, ob string }
	check := func(k serKey, g [][2]float64) verdict {
		want := exp[k]
		name := k.attack + " / " + k.label
		sampled := pc.Threshold != 0 && pc.Threshold < len(want)
		wantN := len(want)
		if sampled {
			wantN = pc.Threshold
		}
		if len(g) != wantN {
			return verdict{"point_count", fmt.Sprintf("series %q has %d points", name, len(g)), strconv.Itoa(wantN), strconv.Itoa(len(g))}
		}
		// match as multisets on (ms, y): both sorted by (ms, y)
		type my struct {
			ms int64
			y  float64
		}
		gs := make([]my, len(g))
		for j, p := range g {
			ms := math.Round(p[0] * 1000)
			if math.Abs(p[0]*1000-ms) > 1e-6*math.Max(1, ms) {
				return verdict{"x_resolution", fmt.Sprintf("series %q: x is not a whole number of milliseconds", name), "", fmt.Sprint(p[0])}
			}
			gs[j] = my{int64(ms), p[1]}
		}
		ws := make([]my, len(want))
		for j, p := range want {
			ws[j] = my{p.ms, float64(p.lat) / 1e6}
		}
		less := func(a, b my) bool { return a.ms < b.ms || (a.ms == b.ms && a.y < b.y) }
		sort.Slice(gs, func(a, b int) bool { return less(gs[a], gs[b]) })
		first, last := ws[0], ws[len(ws)-1]
		sort.Slice(ws, func(a, b int) bool { return less(ws[a], ws[b]) })
		close := func(a, b my) bool {
			return a.ms == b.ms && math.Abs(a.y-b.y) <= 1e-9*math.Max(1, math.Abs(b.y))
		}
		if !sampled {
			for j := range ws {
				if !close(gs[j], ws[j]) {
					return verdict{"points", fmt.Sprintf("series %q: points differ from one point per result at (ms since first request, latency ms)", name),
						fmt.Sprint(ws[j]), fmt.Sprint(gs[j])}
				}
			}
			return verdict{}
		}
		// down-sampled: a sub-multiset of the series that contains its first and last point
		// (which interior points are kept is the algorithm's choice)
		j := 0
		hasFirst, hasLast := false, false
		for _, p := range gs {
			for j < len(ws) && !close(p, ws[j]) {
				j++
			}
			if j == len(ws) {
				return verdict{"sample_not_subset", fmt.Sprintf("series %q: down-sampled point is not a point of the series", name), "", fmt.Sprint(p)}
			}
			j++
			hasFirst = hasFirst || close(p, first)
			hasLast = hasLast || close(p, last)
		}
		if !hasFirst || !hasLast {
			return verdict{"sample_first_last", fmt.Sprintf("series %q: down-sampled series lacks the first or last point", name), fmt.Sprint(first, last), ""}
		}
		return verdict{}
	}
	names := func(label string, k serKey) bool {
		return strings.Contains(label, k.attack) && strings.Contains(label, k.label)
	}
	// find an assignment of the expected series to distinct columns
	assign := make([]int, len(keys))
	used := make([]bool, ncols)
	var match func(i int, content bool) bool
	match = func(i int, content bool) bool {
		if i == len(keys) {
			return true
		}
		for c := 0; c < ncols; c++ {
			if used[c] || !names(o.labels[c+1], keys[i]) || (content && check(keys[i], got[c]).kind != "") {
				continue
			}
			used[c], assign[i] = true, c
			if match(i+1, content) {
				return true
			}
			used[c] = false
		}
		return false
	}
	if !match(0, true) {
		for c := range used {
			used[c] = false
		}
		if match(0, false) { // the labels identify the series, the content of some column is wrong
			for i, k := range keys {
				if v := check(k, got[assign[i]]); v.kind != "" {
					viol(v.kind, v.what, v.e, v.ob)
					return
				}
			}
		}
		var want []string
		for _, k := range keys {
			want = append(want, k.attack+" / "+k.label)
		}
		viol("labels", "the series shown are not the per-attack OK/ERROR series (no column can be attributed to each of them)",
			fmt.Sprintf("%q", want), fmt.Sprintf("%q", o.labels))
		return
	}
	for c := 0; c < ncols; c++ { // what is left over must be empty
		if !used[c] && len(got[c]) > 0 {
			viol("extra_points", fmt.Sprintf("column %q holds %d points that belong to no result", o.labels[c+1], len(got[c])), "0", strconv.Itoa(len(got[c])))
			return
		}
	}
}

var attackPool = []string{"a", "aE", "aER", "aERR", "b", "", "attack-1", "attack-10", "50qps", "100qps", "ü", "a b", "A", "aO", "x,y",
	"a ", " ", "OK", "ERROR", "aERROR", "a: OK", "</script>", "a\"b", "a\\", "é"}

// names that a careless key (case folding, trimming, concatenation with the label) would merge
var confusable = [][2]string{{"a", "A"}, {"a", "a "}, {"", " "}, {"a", "aE"}, {"attack-1", "attack-10"}, {"a", "aERROR"},
	{"OK", "ERROR"}, {"a", "a: OK"}, {"é", "e\u0301"}, {"aOK", "a"}}

type genOpts struct {
	maxResults int
	spanCapMs  int64 // keep every attack shorter than this (0 = no cap)
}

// genResults: per attack contiguous seqs from 0, time stamps non-decreasing in seq with gaps
// from 0 to minutes, arbitrary OK/ERROR mix; returned in sequence order, attack after attack.
func genResults(r *kit.Rng, g genOpts) []res {
	var total int
	switch r.Pick(20) {
	case 0, 1, 2, 3, 4, 5, 6, 7, 8, 9, 10, 11:
		total = 1 + r.Pick(min(30, g.maxResults))
	case 12, 13, 14, 15, 16, 17, 18:
		total = 1 + r.Pick(min(300, g.maxResults))
	default: // log-uniform up to the maximum
		total = int(math.Exp(r.Float64() * math.Log(float64(g.maxResults))))
		if r.Chance(0.1) {
			total = g.maxResults
		}
		if total < 1 {
			total = 1
		}
	}
	na := 1 + r.Pick(4)
	if na > total {
		na = total
	}
	perm := r.Perm(len(attackPool))
	var names []string
	used := map[string]bool{}
	if na >= 2 && r.Chance(0.4) {
		pr := confusable[r.Pick(len(confusable))]
		names = append(names, pr[0], pr[1])
		used[pr[0]], used[pr[1]] = true, true
	}
	for _, k := range perm {
		if !used[attackPool[k]] {
			names = append(names, attackPool[k])
			used[attackPool[k]] = true
		}
	}
	var out []res
	left := total
	for ai := 0; ai < na; ai++ {
		n := left
		if ai < na-1 {
			n = 1 + r.Pick(left-(na-1-ai))
		}
		left -= n
		name := names[ai]
		ts := int64(946684800e9) + r.Range(0, 3e18) // 2000-01-01 … ≈2095
		if r.Chance(0.05) {
			ts = -r.Range(1, 3e17) // before 1970
		}
		if r.Chance(0.3) {
			ts = ts / 1e6 * 1e6 // on a millisecond boundary
		}
		gapProfile := r.Pick(7)
		errProfile := r.Pick(6)
		t0 := ts
		for i := 0; i < n; i++ {
			if i > 0 {
				var gap int64
				switch gapProfile {
				case 0:
					gap = 0
				case 1:
					gap = r.Range(0, 999999) // below the resolution
				case 2:
					gap = r.Range(0, 20) * 1e6 / 4
				case 3:
					gap = r.Range(0, 5e9)
				case 4:
					gap = r.Range(0, 600e9) // up to 10 minutes
				case 5:
					gap = []int64{0, 1, 999999, 1e6, 1000001, 1e9, 60e9, 1e6 - 1, 5e5}[r.Pick(9)]
				default:
					switch r.Pick(4) {
					case 0:
						gap = 0
					case 1:
						gap = r.Range(0, 2e6)
					case 2:
						gap = r.Range(0, 2e9)
					default:
						gap = r.Range(0, 300e9)
					}
				}
				if g.spanCapMs > 0 && (ts+gap-t0)/1e6 >= g.spanCapMs {
					gap = 0
				}
				ts += gap
			}
			var lat int64
			switch r.Pick(8) {
			case 0:
				lat = []int64{0, 1, 999999, 1e6, 1000001, 1e9, 999999999, 1e9 + 1, 3600e9}[r.Pick(9)]
			case 1:
				lat = r.Range(0, 1e6)
			case 2:
				lat = r.Range(0, 30e9)
			default:
				lat = r.Range(1e5, 2e9)
			}
			var e bool
			switch errProfile {
			case 0:
				e = false
			case 1:
				e = true
			case 2:
				e = r.Chance(0.5)
			case 3:
				e = r.Chance(0.03)
			case 4:
				e = i >= n/2 // errors begin late
			default:
				e = i%7 == 3
			}
			out = append(out, res{name, uint64(i), ts, lat, e})
		}
	}
	return out
}

// arrival orders
func shuffled(r *kit.Rng, rs []res, mode int) []res {
	out := make([]res, len(rs))
	copy(out, rs)
	switch mode {
	case 0: // sequence order, attacks interleaved at random
		fallthrough
	case 1: // completion order: local disorder within a window
		if mode == 1 {
			w := 2 + r.Pick(16)
			for i := range out {
				j := i + r.Pick(w)
				if j < len(out) {
					out[i], out[j] = out[j], out[i]
				}
			}
		}
		// interleave attacks: stable random merge
		by := map[string][]res{}
		var names []string
		for _, x := range out {
			if _, ok := by[x.Attack]; !ok {
				names = append(names, x.Attack)
			}
			by[x.Attack] = append(by[x.Attack], x)
		}
		out = out[:0]
		for len(names) > 0 {
			k := r.Pick(len(names))
			a := names[k]
			out = append(out, by[a][0])
			if by[a] = by[a][1:]; len(by[a]) == 0 {
				names = append(names[:k], names[k+1:]...)
			}
		}
	case 2: // uniformly random
		r.Shuffle(len(out), func(i, j int) { out[i], out[j] = out[j], out[i] })
	default: // reversed
		for i, j := 0, len(out)-1; i < j; i, j = i+1, j-1 {
			out[i], out[j] = out[j], out[i]
		}
	}
	return out
}

func permutations(n int, f func([]int)) {
	p := make([]int, n)
	for i := range p {
		p[i] = i
	}
	var rec func(k int)
	rec = func(k int) {
		if k == n {
			f(p)
			return
		}
		for i := k; i < n; i++ {
			p[k], p[i] = p[i], p[k]
			rec(k + 1)
			p[k], p[i] = p[i], p[k]
		}
	}
	rec(0)
}

func pickThreshold(r *kit.Rng, rs []res) int {
	longest := 0
	cnt := map[string]int{}
	for _, x := range rs {
		k := x.Attack + "\x00" + kit.B(x.Err)
		cnt[k]++
		if cnt[k] > longest {
			longest = cnt[k]
		}
	}
	switch r.Pick(10) {
	case 0, 1, 2:
		return 0
	case 3:
		return longest + r.Pick(3)
	case 4:
		return 4000
	case 5:
		return 1 + r.Pick(2)
	case 6:
		return 3
	default:
		if longest > 3 {
			return 3 + r.Pick(longest-3)
		}
		return 3
	}
}

func plotCaseKey(pc plotCase) string {
	h := uint64(1469598103934665603)
	for _, x := range pc.Results {
		for _, v := range []uint64{uint64(len(x.Attack)), x.Seq, uint64(x.TS), uint64(x.Lat)} {
			h = (h ^ v) * 1099511628211
		}
	}
	return fmt.Sprintf("%s:%d:%d:%x", pc.Op, pc.Threshold, len(pc.Results), h)
}

func nontrivialPlot(pc plotCase) bool {
	// at least two results arrive before a result with a smaller sequence number of the same attack
	maxSeq := map[string]uint64{}
	for _, x := range pc.Results {
		if m, ok := maxSeq[x.Attack]; ok && x.Seq < m {
			return true
		} else if !ok || x.Seq > m {
			maxSeq[x.Attack] = x.Seq
		}
	}
	return false
}

// maxFlush: the largest number of results a single Add releases from the re-order buffer
// (the arriving result included) for this arrival order, and whether some flush of more than
// 1024 results stopped at a missing sequence number while later results were already buffered.
func maxFlush(rs []res) (max int, stopsAtGap bool) {
	type st struct {
		next uint64
		buf  map[uint64]bool
	}
	by := map[string]*st{}
	for _, x := range rs {
		a := by[x.Attack]
		if a == nil {
			a = &st{buf: map[uint64]bool{}}
			by[x.Attack] = a
		}
		a.buf[x.Seq] = true
		if x.Seq != a.next {
			continue
		}
		n := 0
		for a.buf[a.next] {
			delete(a.buf, a.next)
			a.next++
			n++
		}
		if n > max {
			max = n
		}
		if n > 1024 && len(a.buf) > 0 {
			stopsAtGap = true // a large flush that ends at a still missing sequence number
		}
	}
	return
}

func recordFlush(s *kit.Summary, pc plotCase) {
	m, gap := maxFlush(pc.Results)
	switch {
	case m <= 1:
		s.Count("plot:max-flush<=1")
	case m <= 16:
		s.Count("plot:max-flush<=16")
	case m <= 128:
		s.Count("plot:max-flush<=128")
	case m <= 1024:
		s.Count("plot:max-flush<=1024")
	case m <= 4096:
		s.Count("plot:max-flush<=4096")
	default:
		s.Count("plot:max-flush>4096")
	}
	if m > 1024 && gap {
		s.Count("plot:max-flush>1024-stops-at-gap")
	}
	if old, ok := s.Extra["plot_max_flush"].(int); !ok || m > old {
		s.Extra["plot_max_flush"] = m
	}
}

func recordPlot(s *kit.Summary, pc plotCase, o plotOut) {
	s.Case(plotCaseKey(pc), nontrivialPlot(pc))
	recordFlush(s, pc)
	err2xx, okNon2xx, names := false, false, map[string]bool{}
	for _, x := range pc.Results {
		c := x.code()
		err2xx = err2xx || (x.Err && c >= 200 && c < 400)
		okNon2xx = okNon2xx || (!x.Err && c >= 400)
		names[x.Attack] = true
	}
	if err2xx {
		s.Count("plot:has-error-with-2xx/3xx-code")
	}
	if okNon2xx {
		s.Count("plot:has-no-error-with-4xx/5xx-code")
	}
	for _, pr := range confusable {
		if names[pr[0]] && names[pr[1]] {
			s.Count("plot:confusable-attack-names")
			break
		}
	}
	if pc.Labeler != "" {
		s.Count("plot:labeler=" + pc.Labeler)
	}
	if pc.Interim {
		s.Count("plot:interim-data-call")
	}
	n := len(pc.Results)
	switch {
	case n <= 10:
		s.Count("plot:results<=10")
	case n <= 100:
		s.Count("plot:results<=100")
	case n <= 1000:
		s.Count("plot:results<=1000")
	default:
		s.Count("plot:results>1000")
	}
	s.Count("plot:outcome=" + strings.Join(strings.Fields(clip(o.line, 12))[:1], ""))
	if pc.Threshold == 0 {
		s.Count("plot:threshold=0")
	} else {
		s.Count("plot:threshold>0")
	}
}

func plotStreams(c *run.Ctx, s *kit.Summary, r *kit.Rng) {
	st := &kit.Stream{Name: "c17.plot"}
	maxResults := 500
	if c.Tier == "thorough" {
		maxResults = 5000
	}
	g := genOpts{maxResults: maxResults, spanCapMs: tszFirstLimit - 1000}

	// (1) small sets: every permutation of the arrival order
	for i := 0; i < c.N(40, 400); i++ {
		base := genResults(r, genOpts{maxResults: 6, spanCapMs: g.spanCapMs})
		if len(base) > 6 {
			base = base[:6]
		}
		if _, ok := inDomain(base); !ok {
			continue
		}
		th := pickThreshold(r, base)
		ref := ""
		permutations(len(base), func(p []int) {
			pc := plotCase{Op: "plot", Threshold: th}
			for _, j := range p {
				pc.Results = append(pc.Results, base[j])
			}
			o := implPlot(pc, true)
			st.Add(fmt.Sprintf("c17.plot %d %s", th, resultsTokens(pc.Results)), o.line)
			oracleLib(s, pc, o)
			recordPlot(s, pc, o)
			s.Count("plot:all-permutations")
			if ref == "" {
				ref = o.line
			} else if ref != o.line {
				// every arrival order is held against the property (and the model) on its own; that two
				// orders give bit-identical output is more than the text says
				s.Count("plot:output-differs-between-arrival-orders")
			}
		})
	}
	flush(c, s, st, false)

	// (1b) a plot without any result
	for _, th := range []int{0, 1, 3, 4000} {
		pc := plotCase{Op: "plot", Threshold: th}
		o := implPlot(pc, true)
		st.Add(plotOp(pc), o.line)
		oracleLib(s, pc, o)
		s.Case(plotCaseKey(pc), false)
		s.Count("plot:no-results")
	}

	// (2) generated sets in several random arrival orders
	for i := 0; i < c.N(500, 2500); i++ {
		gi := g
		if i%3 == 0 {
			gi.spanCapMs = 0 // attacks may last longer than 2^27 ms (a series may begin that late)
		}
		base := genResults(r, gi)
		th := pickThreshold(r, base)
		ref := ""
		labeler := ""
		if i%5 == 3 {
			labeler = "code" // a custom Labeler (status class) instead of ErrorLabeler
		}
		for _, mode := range []int{0, 1, 2, 3}[:2+r.Pick(3)] {
			pc := plotCase{Op: "plot", Threshold: th, Results: shuffled(r, base, mode), Labeler: labeler, Interim: i%4 == 1}
			o := implPlot(pc, true)
			if len(base) <= 600 || mode != 3 || i%8 == 0 { // bound the model's quadratic buffer on big reversed sets
				st.Add(plotOp(pc), o.line)
			}
			oracleLib(s, pc, o)
			recordPlot(s, pc, o)
			s.Count(fmt.Sprintf("plot:order-mode=%d", mode))
			if i < 2 && mode == 1 {
				s.Sample(map[string]interface{}{"op": "c17.plot", "threshold": th, "results": len(pc.Results), "first": pc.Results[:min(4, len(pc.Results))], "impl": clip(o.line, 300)})
			}
			if ref == "" {
				ref = o.line
			} else if ref != o.line {
				// every arrival order is held against the property (and the model) on its own; that two
				// orders give bit-identical output is more than the text says
				s.Count("plot:output-differs-between-arrival-orders")
			}
		}
		flush(c, s, st, false)
	}

	// (3) outside the domain but inside the store's limits: duplicate and missing sequence
	// numbers, time stamps that jitter (never before the attack's first request)
	for i := 0; i < c.N(300, 5000); i++ {
		base := genResults(r, genOpts{maxResults: 60, spanCapMs: g.spanCapMs})
		t0 := map[string]int64{}
		for _, x := range base {
			if x.Seq == 0 {
				t0[x.Attack] = x.TS
			}
		}
		for j := range base {
			switch r.Pick(12) {
			case 0:
				base[j].Seq = uint64(r.Pick(len(base) + 2)) // duplicate or hole
			case 1, 2:
				if base[j].Seq != 0 {
					base[j].TS = t0[base[j].Attack] + r.Range(0, 2000e6) // jitter
				}
			}
		}
		if r.Chance(0.2) && len(base) > 1 { // drop one
			k := r.Pick(len(base))
			base = append(base[:k], base[k+1:]...)
		}
		ok := true // seq 0 must not have been re-stamped or duplicated with another time stamp
		seen0 := map[string]int64{}
		for _, x := range base {
			if x.Seq == 0 {
				if t, dup := seen0[x.Attack]; dup && t != x.TS {
					ok = false
				}
				seen0[x.Attack] = x.TS
			}
		}
		for _, x := range base {
			if t, has := seen0[x.Attack]; has && x.TS < t {
				ok = false
			}
		}
		if !ok {
			continue
		}
		pc := plotCase{Op: "plot", Threshold: pickThreshold(r, base), Results: shuffled(r, base, r.Pick(3))}
		o := implPlot(pc, true)
		st.Add(fmt.Sprintf("c17.plot %d %s", pc.Threshold, resultsTokens(pc.Results)), o.line)
		oracleLib(s, pc, o) // no-op unless the mutations left it in the domain
		s.Case(plotCaseKey(pc), nontrivialPlot(pc))
		s.Count("plot:mutated:outcome=" + strings.Fields(o.line)[0] + strings.Join(strings.Fields(clip(o.line, 12))[1:2], ""))
	}
	flush(c, s, st, true)

	// (4) only the Adds: arbitrary time stamps (earlier than the first request: the uint64
	// conversion wraps; decreasing within a series: errMonotonicTimestamp)
	ad := &kit.Stream{Name: "c17.adds"}
	for i := 0; i < c.N(600, 10000); i++ {
		base := genResults(r, genOpts{maxResults: 40, spanCapMs: g.spanCapMs})
		for j := range base {
			switch r.Pick(6) {
			case 0:
				base[j].TS += r.Range(-3e9, 3e9)
			case 1:
				base[j].TS -= r.Range(0, 5e6)
			case 2:
				base[j].Lat = -base[j].Lat
			}
		}
		pc := plotCase{Op: "adds", Results: shuffled(r, base, r.Pick(4))}
		o := implPlot(pc, false)
		ad.Add("c17.adds "+resultsTokens(pc.Results), o.line)
		s.Case(plotCaseKey(pc), nontrivialPlot(pc))
		s.Count("adds:outcome=" + strings.Fields(o.line)[0])
	}
	ad.Diff(c.Driver, s)

	// (5) regression probe: long attacks, gaps of minutes, total duration beyond 2^27 ms (≈37.3 h),
	// so that a series begins later than go-tsz's 27-bit first delta reaches from the attack's
	// start (misplaced before timeSeries.add created the store at the series' first point).
	lp := &kit.Stream{Name: "c17.plot"}
	for i := 0; i < c.N(6, 40); i++ {
		n := 2300 + r.Pick(2000)
		if n > 5000 {
			n = 5000
		}
		ts := int64(1700000000e9)
		firstErr := n/2 + r.Pick(n/2)
		var base []res
		for j := 0; j < n; j++ {
			if j > 0 {
				ts += r.Range(55e9, 120e9) // one to two minutes
			}
			base = append(base, res{"long", uint64(j), ts, r.Range(1e6, 1e9), j >= firstErr})
		}
		pc := plotCase{Op: "plot", Threshold: 0, Results: shuffled(r, base, 1)}
		o := implPlot(pc, true)
		oracleLib(s, pc, o)
		if i%3 == 0 { // the model's sort is quadratic: a sample of these goes through the driver
			lp.Add(fmt.Sprintf("c17.plot %d %s", pc.Threshold, resultsTokens(pc.Results)), o.line)
		}
		s.Case(plotCaseKey(pc), true)
		s.Count("plot:long-attack")
	}

	// (6) regression probe: the store's "no point yet" sentinel.  A series whose first point lies
	// at 0 ms (possibly several points at 0 ms) and whose next point comes ≥ 2^27-1 ms later was
	// written through go-tsz's first-point path twice before stored time stamps were shifted by one.
	for i := 0; i < c.N(12, 120); i++ {
		ts := int64(1600000000e9) + r.Range(0, 1e18)
		errFirst := r.Chance(0.5) // which series starts at 0 ms
		zeros := 1 + r.Pick(3)    // points at 0 ms
		jump := []int64{tszFirstLimit, tszFirstLimit - 1, tszFirstLimit + 1, 1 << 27, 1<<27 + r.Range(0, 1<<20), 1 << 28, 1<<30 + r.Range(0, 1<<30-2)}[r.Pick(7)]
		var base []res
		seq := uint64(0)
		add := func(e bool) {
			base = append(base, res{"sentinel", seq, ts, r.Range(1e5, 2e9), e})
			seq++
		}
		for j := 0; j < zeros; j++ {
			add(errFirst)
			ts += r.Range(0, 999999/int64(zeros)) // stay inside the first millisecond
		}
		if r.Chance(0.5) {
			ts += r.Range(0, 5e9)
			add(!errFirst) // the other series starts a little later
		}
		ts += jump * 1e6
		add(errFirst)
		for j := 0; j < r.Pick(6); j++ {
			ts += r.Range(0, 3e9)
			add(r.Chance(0.5))
		}
		pc := plotCase{Op: "plot", Threshold: []int{0, 0, 3, 4000}[r.Pick(4)], Results: shuffled(r, base, r.Pick(4)), Probe: "sentinel_gap"}
		o := implPlot(pc, true)
		oracleLib(s, pc, o)
		lp.Add(fmt.Sprintf("c17.plot %d %s", pc.Threshold, resultsTokens(pc.Results)), o.line)
		s.Case(plotCaseKey(pc), nontrivialPlot(pc))
		s.Count("plot:sentinel-gap")
	}
	// (7) few very slow early requests / swapped blocks: 2500…6000 results of one attack, in order
	// except that a few sequence numbers (sometimes 0) arrive after all the others or much later
	// (distance > 1024, 2048, 4096), so that a single Add flushes thousands of buffered results
	// and the flush stops at the next missing sequence number while later results are buffered.
	for i := 0; i < c.N(3, 60); i++ {
		n := int(r.Range(2500, 6000))
		name := attackPool[r.Pick(len(attackPool))]
		ts := int64(1500000000e9) + r.Range(0, 1e18)
		errRate := []float64{0, 0, 0.002, 0.02}[r.Pick(4)] // few errors: the model's row sort stays cheap
		base := make([]res, n)
		for j := range base {
			if j > 0 {
				ts += []int64{0, r.Range(0, 999999), r.Range(0, 3e6), r.Range(0, 40e6)}[r.Pick(4)]
			}
			base[j] = res{name, uint64(j), ts, r.Range(1e5, 2e9), r.Chance(errRate)}
		}
		var order []res
		family := "slow-early"
		if i%3 == 2 {
			family = "blocks-swapped"
			cut := n/2 + r.Pick(n/4) - n/8
			order = append(order, base[cut:]...)
			if r.Chance(0.5) { // three blocks: last, first, middle … or just second half first
				cut2 := r.Pick(cut-1) + 1
				order = append(order, base[cut2:cut]...)
				order = append(order, base[:cut2]...)
			} else {
				order = append(order, base[:cut]...)
			}
		} else {
			k := 2 + r.Pick(4)
			slow := map[int]bool{}
			canonical := i%3 == 0 // 1…q-1, q+1…n-1, 0, q: one flush of q > 1024 results ending at the gap q
			if canonical {
				k = 2
				slow[0] = true
				slow[1100+r.Pick(n-2200)] = true
			} else if r.Chance(0.6) {
				slow[0] = true
			}
			for len(slow) < k {
				slow[r.Pick(n)] = true
			}
			var late []res // arrive after all the others
			type ins struct {
				at int
				x  res
			}
			var mid []ins // arrive at a later position, > dist further on
			for q := range slow {
				dist := []int{1025, 2049, 4097}[r.Pick(3)] + r.Pick(500)
				if canonical || r.Chance(0.5) || q+dist >= n {
					late = append(late, base[q])
				} else {
					mid = append(mid, ins{q + dist + r.Pick(n-q-dist), base[q]})
				}
			}
			sort.Slice(late, func(a, b int) bool { return late[a].Seq < late[b].Seq })
			if !canonical && r.Chance(0.3) {
				r.Shuffle(len(late), func(a, b int) { late[a], late[b] = late[b], late[a] })
			}
			for j, x := range base {
				if !slow[j] {
					order = append(order, x)
				}
				for _, m := range mid {
					if m.at == j {
						order = append(order, m.x)
					}
				}
			}
			order = append(order, late...)
		}
		pc := plotCase{Op: "plot", Threshold: []int{0, 0, n + 1, 4000}[r.Pick(4)], Results: order, Probe: "large_flush"}
		o := implPlot(pc, true)
		oracleLib(s, pc, o)
		lp.Add(fmt.Sprintf("c17.plot %d %s", pc.Threshold, resultsTokens(pc.Results)), o.line)
		s.Case(plotCaseKey(pc), true)
		recordFlush(s, pc)
		s.Count("plot:order-family=" + family)
		if len(order) != n {
			panic("generator lost a result")
		}
	}
	lp.Diff(c.Driver, s)
}

// ---------------------------------------------------------------------------
// the plot command

// bigBodySize: the size of the one captured response body that makes a record exceed 64 KiB
// (`vegeta attack` keeps bodies by default); in the thorough tier a gob record may exceed 1 MiB.
func bigBodySize(c *run.Ctx, r *kit.Rng, format string) int {
	if c.Tier == "thorough" && format == "gob" && r.Chance(0.2) {
		return 1<<20 + r.Pick(300000)
	}
	return 70000 + r.Pick(80000)
}

// writeResults encodes rs into a result file.  With big > 0 the record in the middle of the file
// (never the first) carries a body of that many bytes.
func writeResults(path, format string, rs []res, big int) error {
	f, err := os.Create(path)
	if err != nil {
		return err
	}
	defer f.Close()
	var enc vegeta.Encoder
	switch format {
	case "csv":
		enc = vegeta.NewCSVEncoder(f)
	case "json":
		enc = vegeta.NewJSONEncoder(f)
	default:
		enc = vegeta.NewEncoder(f)
	}
	for i, x := range rs {
		r := x.result()
		r.Timestamp = r.Timestamp.UTC()
		if big > 0 && len(rs) >= 2 && i == max(1, len(rs)/2) {
			r.Body = bytes.Repeat([]byte("0123456789abcdef"), big/16+1)[:big]
		}
		if err := enc.Encode(r); err != nil {
			return err
		}
	}
	return nil
}

// parseHTML extracts labels (from the options object) and the data rows handed to `new Dygraph`.
func parseHTML(html string) (rows [][]float64, labels []string, err error) {
	// The page hands its data to `new Dygraph(<container>, <data>, <options>)`; data and options are
	// literals or variables assigned a literal earlier in the script.  Layout, white space, the
	// declaration keyword and the spelling of missing values (NaN / null) are not prescribed.
	call := strings.LastIndex(html, "new Dygraph(")
	if call < 0 {
		return nil, nil, fmt.Errorf("no Dygraph constructor call")
	}
	argText, ok := balanced(html, call+len("new Dygraph")) // "( … )"
	if !ok {
		return nil, nil, fmt.Errorf("unbalanced Dygraph constructor call")
	}
	args := splitTop(argText[1 : len(argText)-1])
	if len(args) < 2 {
		return nil, nil, fmt.Errorf("Dygraph constructor call with %d arguments", len(args))
	}
	resolve := func(arg string) (string, bool) {
		arg = strings.TrimSpace(arg)
		if strings.HasPrefix(arg, "[") || strings.HasPrefix(arg, "{") {
			return arg, true
		}
		if !identRE.MatchString(arg) {
			return "", false
		}
		re := regexp.MustCompile(`(?:var|let|const)\s+` + regexp.QuoteMeta(arg) + `\s*=\s*`)
		locs := re.FindAllStringIndex(html[:call], -1)
		if len(locs) == 0 {
			return "", false
		}
		return balanced(html, locs[len(locs)-1][1])
	}
	dataLit, ok := resolve(args[1])
	if !ok {
		return nil, nil, fmt.Errorf("cannot find the data handed to Dygraph")
	}
	if len(args) >= 3 {
		if optsLit, ok := resolve(args[2]); ok {
			var opts struct {
				Labels []string `json:"labels"`
			}
			if err := json.Unmarshal([]byte(optsLit), &opts); err != nil {
				return nil, nil, fmt.Errorf("options: %v", err)
			}
			labels = opts.Labels
		}
	}
	rows, err = parseDataLiteral(dataLit)
	return rows, labels, err
}

var identRE = regexp.MustCompile(`^[A-Za-z_$][A-Za-z0-9_$]*$`)

// balanced returns the bracketed expression that starts at s[start] (after optional white space),
// honouring string literals.
func balanced(s string, start int) (string, bool) {
	for start < len(s) && (s[start] == ' ' || s[start] == '\n' || s[start] == '\t' || s[start] == '\r') {
		start++
	}
	if start >= len(s) || !strings.ContainsRune("([{", rune(s[start])) {
		return "", false
	}
	depth := 0
	for i := start; i < len(s); i++ {
		switch c := s[i]; c {
		case '"', '\'':
			for i++; i < len(s) && s[i] != c; i++ {
				if s[i] == '\\' {
					i++
				}
			}
		case '(', '[', '{':
			depth++
		case ')', ']', '}':
			depth--
			if depth == 0 {
				return s[start : i+1], true
			}
		}
	}
	return "", false
}

// splitTop splits at the commas that are outside brackets and string literals.
func splitTop(s string) []string {
	var out []string
	depth, last := 0, 0
	for i := 0; i < len(s); i++ {
		switch c := s[i]; c {
		case '"', '\'':
			for i++; i < len(s) && s[i] != c; i++ {
				if s[i] == '\\' {
					i++
				}
			}
		case '(', '[', '{':
			depth++
		case ')', ']', '}':
			depth--
		case ',':
			if depth == 0 {
				out = append(out, s[last:i])
				last = i + 1
			}
		}
	}
	if strings.TrimSpace(s[last:]) != "" || len(out) > 0 {
		out = append(out, s[last:])
	}
	return out
}

// parseDataLiteral reads `[[x, y1, …], …]`; a missing value may be written NaN, null or left empty.
func parseDataLiteral(lit string) ([][]float64, error) {
	lit = strings.TrimSpace(lit)
	if !strings.HasPrefix(lit, "[") || !strings.HasSuffix(lit, "]") {
		return nil, fmt.Errorf("data is not an array")
	}
	var rows [][]float64
	for _, r := range splitTop(lit[1 : len(lit)-1]) {
		r = strings.TrimSpace(r)
		if r == "" {
			continue // trailing comma
		}
		if !strings.HasPrefix(r, "[") || !strings.HasSuffix(r, "]") {
			return nil, fmt.Errorf("bad row %q", clip(r, 60))
		}
		var row []float64
		for _, f := range strings.Split(r[1:len(r)-1], ",") {
			f = strings.TrimSpace(f)
			switch f {
			case "NaN", "null", "", "undefined":
				row = append(row, math.NaN())
				continue
			}
			v, err := strconv.ParseFloat(f, 64)
			if err != nil {
				return nil, fmt.Errorf("bad number %q", clip(f, 40))
			}
			row = append(row, v)
		}
		rows = append(rows, row)
	}
	return rows, nil
}

var titles = []string{"Vegeta Plot", "", "x\n  var data = [[1,2]];", "</script><b>", "ü \"q\" \\", "a;\n  var plot = new Dygraph(container, data, opts);"}

// tinyThresholdCases: thresholds 1, 2, 3, 4 over result sets of a few points.  "At or below the
// threshold … it is unchanged" holds for thresholds 1 and 2 as well: only a series LONGER than a
// threshold of 1 or 2 is rejected.  Shapes: one result; 1 OK + 1 ERROR; 2 OK + 2 ERROR; and one
// series exactly one point longer than the threshold (rejected for 1 and 2, sampled for 3 and 4).
func tinyThresholdCases(r *kit.Rng, op string) []plotCase {
	var out []plotCase
	for _, th := range []int{1, 2, 3, 4} {
		for shape := 0; shape < 4; shape++ {
			var errs []bool
			switch shape {
			case 0:
				errs = []bool{r.Chance(0.5)}
			case 1:
				errs = []bool{false, true}
			case 2:
				errs = []bool{false, true, true, false}
			default:
				errs = make([]bool, th+1) // one series just above the threshold
			}
			name := attackPool[r.Pick(len(attackPool))]
			ts := int64(1300000000e9) + r.Range(0, 1e18)
			var rs []res
			for i, e := range errs {
				ts += r.Range(0, 3e9)
				rs = append(rs, res{name, uint64(i), ts, r.Range(1e5, 2e9), e})
			}
			out = append(out, plotCase{Op: op, Threshold: th, Results: shuffled(r, rs, r.Pick(4)), Probe: "tiny_threshold"})
		}
	}
	return out
}

func plotCmdStream(c *run.Ctx, s *kit.Summary, r *kit.Rng) {
	fixed := tinyThresholdCases(r, "plotcmd")
	total := c.N(40, 400) + len(fixed)
	maxResults := 300
	if c.Tier == "thorough" {
		maxResults = 3000
	}
	type job struct {
		pc    plotCase
		out   string
		files []string
		parts [][]res // content of the files, in the order they are handed to the command
	}
	cm := &kit.Stream{Name: "c17.plotcmd"}
	for done := 0; done < total; {
		var jobs []job
		var ops []string
		for k := 0; k < 20 && done < total; k, done = k+1, done+1 {
			base := genResults(r, genOpts{maxResults: maxResults, spanCapMs: tszFirstLimit - 1000})
			pc := plotCase{Op: "plotcmd", Threshold: pickThreshold(r, base), Results: shuffled(r, base, r.Pick(3))}
			if len(fixed) > 0 {
				pc, fixed = fixed[0], fixed[1:]
				s.Count(fmt.Sprintf("plotcmd:tiny-set:threshold=%d", pc.Threshold))
			}
			pc.Format, pc.Files, pc.Title = []string{"gob", "csv", "json"}[r.Pick(3)], 1+r.Pick(3), titles[r.Pick(len(titles))]
			j := job{pc: pc, out: filepath.Join(c.Work, fmt.Sprintf("plot-%d.html", done))}
			// split the arrival sequence over the files
			parts := make([][]res, pc.Files)
			for _, x := range pc.Results {
				p := r.Pick(pc.Files)
				parts[p] = append(parts[p], x)
			}
			if n := len(pc.Results); done%3 == 0 && n >= 4 {
				// several files that run out in the same round while another one still has results:
				// 3 or 4 files, all but one of the same small length
				k := 3 + r.Pick(2)
				q := 1 + r.Pick(max(1, (n-1)/k))
				long := r.Pick(k)
				parts = make([][]res, k)
				rest := pc.Results
				for f := 0; f < k; f++ {
					if f != long {
						parts[f], rest = rest[:q], rest[q:]
					}
				}
				parts[long] = rest
				pc.Files = k
				s.Count("plotcmd:files-run-out-together")
			}
			okFiles := true
			bigPart, bigSize := -1, 0
			if done%2 == 0 { // one record over 64 KiB in the middle of the longest file
				for p, part := range parts {
					if len(part) >= 2 && (bigPart < 0 || len(part) > len(parts[bigPart])) {
						bigPart = p
					}
				}
				if bigPart >= 0 {
					bigSize = bigBodySize(c, r, pc.Format)
					pc.BigBody = bigSize
					j.pc = pc
					s.Count("plotcmd:record-over-64KiB:" + pc.Format)
				}
			}
			for p, part := range parts {
				if len(part) == 0 {
					continue
				}
				fn := filepath.Join(c.Work, fmt.Sprintf("res-%d-%d.%s", done, p, pc.Format))
				big := 0
				if p == bigPart {
					big = bigSize
				}
				if err := writeResults(fn, pc.Format, part, big); err != nil {
					okFiles = false
				}
				j.files = append(j.files, fn)
				j.parts = append(j.parts, part)
			}
			if !okFiles {
				s.Skipped["plotcmd:write-failed"]++
				continue
			}
			op := fmt.Sprintf("plot %d %s %s", pc.Threshold, kit.HexS(pc.Title), kit.HexS(j.out))
			for _, f := range j.files {
				op += " " + kit.HexS(f)
			}
			jobs = append(jobs, j)
			ops = append(ops, op)
		}
		outs, err := kit.RunVegeta(c.Vegeta, ops)
		if err != nil {
			s.Diverge("plotcmd", "(vegeta-verif failure)", "", err.Error())
			return
		}
		for i, j := range jobs {
			s.Streams["plotcmd"]++
			s.Case(plotCaseKey(j.pc), nontrivialPlot(j.pc))
			s.Count("plotcmd:format=" + j.pc.Format)
			// in-process reference: the same result set (arrival order is irrelevant by the property)
			ref := implPlot(j.pc, true)
			o := plotOut{addErr: -1}
			unreadable := false
			if strings.HasPrefix(outs[i], "err") {
				o.dataErr = fmt.Errorf("%s", outs[i])
				o.line = "err data"
				if ref.addErr >= 0 {
					o.line = ref.line
					o.addErr = ref.addErr
				}
			} else {
				html, err := os.ReadFile(j.out)
				if err != nil {
					s.Violate(kit.Violation{Kind: "plotcmd_no_output", What: "plot command wrote no output", Input: j.pc, Observed: outs[i]})
					continue
				}
				rows, labels, err := parseHTML(string(html))
				if err != nil {
					// the layout of the page is not prescribed: no verdict from this channel (the model
					// comparison below still sees that the page could not be read)
					s.Skipped["plotcmd:unrecognised-page"]++
					unreadable = true
					o.line = "unrecognised-page " + err.Error()
				} else {
					o.rows, o.labels = rows, labels
					o.line = dataLine(rows, labels)
				}
			}
			s.Count("plotcmd:outcome=" + strings.Fields(o.line)[0])
			// the model of the command: round-robin decoding of the files, Add each, data
			var sb strings.Builder
			fmt.Fprintf(&sb, "c17.plotcmd %d %d", j.pc.Threshold, len(j.parts))
			for _, part := range j.parts {
				sb.WriteByte(' ')
				sb.WriteString(resultsTokens(part))
			}
			cmLine := o.line
			if strings.HasPrefix(cmLine, "err") {
				cmLine = "err"
			}
			cm.Add(sb.String(), cmLine)
			if !unreadable {
				oraclePlot(s, j.pc, o, "HTML data block")
			}
			if o.line != ref.line { // not demanded by the property (both are held against it separately)
				s.Count("plotcmd:page-differs-from-library-data")
			}
			if i == 0 && done <= 20 {
				s.Sample(map[string]interface{}{"op": "plot (command)", "format": j.pc.Format, "files": len(j.files), "threshold": j.pc.Threshold, "results": len(j.pc.Results), "data": clip(o.line, 200)})
			}
			os.Remove(j.out)
			for _, f := range j.files {
				os.Remove(f)
			}
		}
	}
	cm.Diff(c.Driver, s)
}

// ---------------------------------------------------------------------------
// the real command line: `vegeta plot [-threshold N] [-title T] [-output F] [file…]`

// plotCLIStream runs the vegeta binary as a user would (flag parsing, default values, stdin and
// stdout defaults) and evaluates the oracle on the data block of the page it writes.
func plotCLIStream(c *run.Ctx, s *kit.Summary, r *kit.Rng) {
	maxResults := 300
	if c.Tier == "thorough" {
		maxResults = 2000
	}
	fixed := tinyThresholdCases(r, "plotcli")
	cl := &kit.Stream{Name: "c17.plotcli"}
	defer func() { cl.Diff(c.Driver, s) }()
	for i := 0; i < c.N(8, 48)+len(fixed); i++ {
		variant := i % 4
		base := genResults(r, genOpts{maxResults: maxResults, spanCapMs: tszFirstLimit - 1000})
		th := pickThreshold(r, base)
		format := []string{"gob", "csv", "json"}[r.Pick(3)]
		probe := ""
		if i >= c.N(8, 48) { // thresholds 1…4 over a handful of results, through the real flags
			f := fixed[i-c.N(8, 48)]
			base, th, probe = f.Results, f.Threshold, f.Probe
			if variant == 2 {
				variant = 0 // variant 2 omits -threshold
			}
			s.Count(fmt.Sprintf("plotcli:tiny-set:threshold=%d", th))
		}
		if variant == 2 { // no -threshold flag: the documented default of 4000 applies
			th = 4000
			if i%8 == 2 { // … and one series is longer than that
				n := 4001 + r.Pick(600)
				ts := int64(1400000000e9) + r.Range(0, 1e18)
				base = base[:0]
				for j := 0; j < n; j++ {
					ts += r.Range(0, 4e6)
					base = append(base, res{"default-threshold", uint64(j), ts, r.Range(1e5, 2e9), r.Chance(0.01)})
				}
			}
		}
		pc := plotCase{Op: "plotcli", Threshold: th, Results: shuffled(r, base, r.Pick(3)), Format: format, Probe: probe}
		args := []string{"plot"}
		outPath := filepath.Join(c.Work, fmt.Sprintf("cli-%d.html", i))
		title := titles[r.Pick(len(titles))]
		switch variant {
		case 0:
			args = append(args, "-threshold", strconv.Itoa(th), "-title", title, "-output", outPath)
		case 1:
			args = append(args, fmt.Sprintf("--threshold=%d", th)) // stdin → stdout
		case 2:
			args = append(args, "-output", outPath, "-title", title)
		default:
			args = append(args, "--output="+outPath, "--threshold", strconv.Itoa(th))
		}
		var files []string
		var stdin []byte
		var modelParts [][]res // what the command reads, file by file
		if variant == 1 {
			modelParts = [][]res{pc.Results}
			fn := filepath.Join(c.Work, fmt.Sprintf("cli-%d-in.%s", i, format))
			big := 0
			if len(pc.Results) >= 2 {
				big = bigBodySize(c, r, format)
				pc.BigBody = big
				s.Count("plotcli:record-over-64KiB:" + format)
			}
			if err := writeResults(fn, format, pc.Results, big); err != nil {
				s.Skipped["plotcli:write-failed"]++
				continue
			}
			stdin, _ = os.ReadFile(fn)
			os.Remove(fn)
		} else {
			k := 1 + r.Pick(3)
			parts := make([][]res, k)
			for _, x := range pc.Results {
				q := r.Pick(k)
				parts[q] = append(parts[q], x)
			}
			bigPart := -1
			if i%2 == 0 {
				for q, part := range parts {
					if len(part) >= 2 && (bigPart < 0 || len(part) > len(parts[bigPart])) {
						bigPart = q
					}
				}
			}
			for q, part := range parts {
				if len(part) == 0 {
					continue
				}
				fn := filepath.Join(c.Work, fmt.Sprintf("cli-%d-%d.%s", i, q, format))
				big := 0
				if q == bigPart {
					big = bigBodySize(c, r, format)
					pc.BigBody = big
					s.Count("plotcli:record-over-64KiB:" + format)
				}
				if err := writeResults(fn, format, part, big); err != nil {
					s.Skipped["plotcli:write-failed"]++
				}
				files = append(files, fn)
				modelParts = append(modelParts, part)
			}
			args = append(args, files...)
		}
		cmd := exec.Command(c.Vegeta, args...)
		cmd.Env = nil
		for _, e := range os.Environ() {
			if !strings.HasPrefix(e, "VEGETA_VERIF_DRIVER=") {
				cmd.Env = append(cmd.Env, e)
			}
		}
		cmd.Stdin = bytes.NewReader(stdin)
		var stdout, stderr bytes.Buffer
		cmd.Stdout, cmd.Stderr = &stdout, &stderr
		done := make(chan error, 1)
		if err := cmd.Start(); err != nil {
			s.Diverge("plotcli", strings.Join(args, " "), "", "cannot start vegeta: "+err.Error())
			return
		}
		go func() { done <- cmd.Wait() }()
		var runErr error
		select {
		case runErr = <-done:
		case <-time.After(120 * time.Second):
			cmd.Process.Kill()
			runErr = fmt.Errorf("timeout")
		}
		s.Streams["plotcli"]++
		s.Case(plotCaseKey(pc), nontrivialPlot(pc))
		s.Count(fmt.Sprintf("plotcli:variant=%d", variant))
		ref := implPlot(pc, true)
		o := plotOut{addErr: -1}
		unreadable := false
		if runErr != nil {
			o.dataErr = fmt.Errorf("%v: %s", runErr, clip(stderr.String(), 300))
			o.line = "err data"
		} else {
			html := stdout.Bytes()
			if variant != 1 {
				b, err := os.ReadFile(outPath)
				if err != nil {
					s.Violate(kit.Violation{Kind: "plotcli_no_output", What: "vegeta plot wrote no page to the file given with -output", Input: pc,
						Observed: strings.Join(args, " ")})
					continue
				}
				html = b
			}
			rows, labels, err := parseHTML(string(html))
			if err != nil {
				s.Skipped["plotcli:unrecognised-page"]++
				unreadable = true
				o.line = "unrecognised-page " + err.Error()
			} else {
				o.rows, o.labels = rows, labels
				o.line = dataLine(rows, labels)
			}
		}
		s.Count("plotcli:outcome=" + strings.Fields(o.line)[0])
		{ // the model of the command line: flag value or the default, round-robin decoding, Add each, data
			var sb strings.Builder
			fmt.Fprintf(&sb, "c17.plotcli %s %d %d", kit.B(variant != 2), th, len(modelParts))
			for _, part := range modelParts {
				sb.WriteByte(' ')
				sb.WriteString(resultsTokens(part))
			}
			ml := o.line
			if strings.HasPrefix(ml, "err") {
				ml = "err"
			}
			cl.Add(sb.String(), ml)
		}
		if !unreadable {
			oraclePlot(s, pc, o, "HTML data block (command line)")
		}
		if o.line != ref.line { // not demanded by the property (both are held against it separately)
			s.Count("plotcli:page-differs-from-library-data")
		}
		os.Remove(outPath)
		for _, f := range files {
			os.Remove(f)
		}
	}
}

// ---------------------------------------------------------------------------

func replay(c *run.Ctx, s *kit.Summary) {
	b, err := os.ReadFile(c.Replay)
	if err != nil {
		panic(err)
	}
	var rec struct {
		Kind  string          `json:"kind"`
		Input json.RawMessage `json:"input"`
	}
	if err := json.Unmarshal(b, &rec); err != nil {
		panic(err)
	}
	var op struct {
		Op string `json:"op"`
	}
	json.Unmarshal(rec.Input, &op)
	switch op.Op {
	case "downsample":
		var d dsCase
		if err := json.Unmarshal(rec.Input, &d); err != nil {
			panic(err)
		}
		st := &kit.Stream{Name: "c17.downsample"}
		bk := &kit.Stream{Name: "c17.bucketsok"}
		runDownsampleCase(s, st, bk, d, true)
		st.Diff(c.Driver, s)
		bk.Diff(c.Driver, s)
	case "plot", "adds", "plotcmd", "plotcli":
		var pc plotCase
		if err := json.Unmarshal(rec.Input, &pc); err != nil {
			panic(err)
		}
		o := implPlot(pc, pc.Op != "adds")
		oracleLib(s, pc, o)
		s.Case(plotCaseKey(pc), true)
		{
			st := &kit.Stream{Name: "c17." + map[string]string{"plot": "plot", "plotcmd": "plot", "plotcli": "plot", "adds": "adds"}[pc.Op]}
			if pc.Op == "adds" {
				st.Add("c17.adds "+resultsTokens(pc.Results), o.line)
			} else {
				st.Add(plotOp(pc), o.line)
			}
			st.Diff(c.Driver, s)
		}
		s.Sample(map[string]interface{}{"replay": rec.Kind, "impl": clip(o.line, 400)})
	default:
		panic("replay: unknown op " + op.Op)
	}
}

func runC17(c *run.Ctx, s *kit.Summary) {
	s.Rule = "Downsample: every (count, threshold) pair with count ≤ 64 (thorough: ≤ 300) and thresholds 0…count+1, random larger pairs, " +
		"point values from 8 families (latency-like, equal X, equal Y, huge, raw bit patterns incl. ±Inf/NaN, small integers, flat, spikes); " +
		"plot: 1…4 attacks (names incl. prefixes of one another), contiguous seqs, gaps 0…10 min, OK/ERROR mixes, every permutation of ≤ 6 results and " +
		"interleaved / window-shuffled / uniformly shuffled / reversed arrival orders of up to 500 (thorough: 5000) results; non-trivial = " +
		"a Downsample case with 3 ≤ threshold < count, or a plot case where some result arrives after a later one of the same attack"
	if c.Replay != "" {
		replay(c, s)
		return
	}
	r := kit.NewRng(c.Seed)
	t0 := time.Now()
	lap := func(name string) {
		s.Extra["wall_s:"+name] = math.Round(time.Since(t0).Seconds()*10) / 10
		t0 = time.Now()
	}
	downsampleStreams(c, s, r)
	lap("downsample")
	plotStreams(c, s, r)
	lap("plot")
	plotCmdStream(c, s, r)
	lap("plotcmd")
	plotCLIStream(c, s, r)
	lap("plotcli")
}
