package main

import (
	"bytes"
	"encoding/json"
	"fmt"
	"sync"
	"time"

	vegeta "github.com/tsenart/vegeta/v12/lib"
	"vharness/kit"
	"vharness/run"
)

func mkHist(r *kit.Rng) (*vegeta.Histogram, []uint64) {
	hc := genHistCase(r, true)
	h := &vegeta.Histogram{}
	for _, b := range hc.Buckets {
		h.Buckets = append(h.Buckets, time.Duration(b))
	}
	for _, l := range hc.Lats {
		h.Add(&vegeta.Result{Latency: time.Duration(l)})
	}
	counts := make([]uint64, len(hc.Buckets))
	for _, l := range hc.Lats {
		for b := range hc.Buckets {
			if l >= hc.Buckets[b] && (b == len(hc.Buckets)-1 || l < hc.Buckets[b+1]) {
				counts[b]++
			}
		}
	}
	return h, counts
}

func wantJSON(h *vegeta.Histogram, counts []uint64) string {
	var sb bytes.Buffer
	sb.WriteString("{")
	for i, b := range h.Buckets {
		if i > 0 {
			sb.WriteString(", ")
		}
		fmt.Fprintf(&sb, "\"%d\": %d", int64(b), counts[i])
	}
	sb.WriteString("}")
	return sb.String()
}

// renderings of SEVERAL histograms in one process: a rendering that was handed out must keep showing its own
// counts after another histogram was rendered, and histograms rendered at the same time (concurrent
// json.Marshal, as a metrics endpoint or parallel reporters do) must each show their own counts.
func renderMany(c *run.Ctx, s *kit.Summary, r *kit.Rng) {
	n := c.N(150, 3000)
	for i := 0; i < n; i++ {
		h1, c1 := mkHist(r)
		h2, c2 := mkHist(r)
		j1, err1 := h1.MarshalJSON()
		keep := string(j1) // what was handed out, at the time it was handed out
		j2, err2 := h2.MarshalJSON()
		s.Case(fmt.Sprint("render-retained:", i), true)
		s.Count("render:retained")
		if err1 != nil || err2 != nil {
			continue
		}
		// white space between the members is not the property's business: compare the compact forms
		w1, w2 := compactJSON(wantJSON(h1, c1)), compactJSON(wantJSON(h2, c2))
		if compactJSON(keep) != w1 || compactJSON(string(j1)) != w1 || compactJSON(string(j2)) != w2 {
			s.Violate(kit.Violation{Kind: "hist_json_changes_after_other_rendering", What: "the JSON rendering of a histogram does not (or no longer) show its own counts after another histogram was rendered",
				Input:    map[string]interface{}{"first": w1, "second": w2},
				Expected: w1, Observed: fmt.Sprintf("at once: %s | after the second rendering: %s", keep, string(j1))})
			break
		}
	}
	// concurrent rendering through encoding/json
	rounds := c.N(40, 600)
	for i := 0; i < rounds; i++ {
		const k = 8
		hs := make([]*vegeta.Histogram, k)
		ws := make([]string, k)
		for j := range hs {
			var cs []uint64
			hs[j], cs = mkHist(r)
			ws[j] = wantJSON(hs[j], cs)
		}
		outs := make([]string, k)
		errs := make([]error, k)
		var wg sync.WaitGroup
		for j := range hs {
			wg.Add(1)
			go func(j int) {
				defer wg.Done()
				for rep := 0; rep < 20; rep++ {
					b, err := json.Marshal(hs[j])
					if err != nil || string(b) != compactJSON(ws[j]) {
						outs[j], errs[j] = string(b), err
						return
					}
				}
			}(j)
		}
		wg.Wait()
		s.Case(fmt.Sprint("render-concurrent:", i), true)
		s.Count("render:concurrent_rounds")
		bad := -1
		for j := range hs {
			if outs[j] != "" || errs[j] != nil {
				bad = j
			}
		}
		if bad >= 0 {
			s.Violate(kit.Violation{Kind: "hist_json_concurrent", What: "histograms rendered as JSON at the same time do not each show their own counts", Input: map[string]interface{}{"histogram": ws[bad]},
				Expected: compactJSON(ws[bad]), Observed: fmt.Sprint(outs[bad], " err=", errs[bad])})
			break
		}
	}
}

func compactJSON(s string) string {
	var b bytes.Buffer
	if json.Compact(&b, []byte(s)) != nil {
		return s
	}
	return b.String()
}

// reporterReuse: ONE text reporter and ONE JSON rendering path used over the life of a histogram, as `report -every`
// does: rendered before any result was added ("also when no result has been added yet"), after some, after all. Each
// rendering must show the counts the histogram holds at that moment.
func reporterReuse(c *run.Ctx, s *kit.Summary, r *kit.Rng) {
	n := c.N(120, 2500)
	for i := 0; i < n; i++ {
		hc := genHistCase(r, true)
		if len(hc.Lats) == 0 {
			continue
		}
		h := &vegeta.Histogram{}
		for _, b := range hc.Buckets {
			h.Buckets = append(h.Buckets, time.Duration(b))
		}
		rep := vegeta.NewHistogramReporter(h)
		counts := make([]uint64, len(hc.Buckets))
		stops := map[int]bool{0: true, len(hc.Lats): true, 1 + r.Pick(len(hc.Lats)): true}
		s.Case(fmt.Sprint("reporter-reuse:", i), true)
		s.Count("render:one_reporter_over_the_life_of_a_histogram")
		bad := false
		for k := 0; k <= len(hc.Lats) && !bad; k++ {
			if stops[k] {
				var buf bytes.Buffer
				var err error
				p, _ := kit.Recover(func() { err = rep.Report(&buf) })
				if p || err != nil {
					s.Violate(kit.Violation{Kind: "hist_text_reused_reporter", What: "a histogram reporter used a second time failed or panicked",
						Input: map[string]interface{}{"buckets": hc.Buckets, "latencies": hc.Lats, "rendered_after": k}})
					bad = true
					break
				}
				_, rows := parseHistText(buf.Bytes())
				ok := len(rows) == len(counts)
				for q := 0; ok && q < len(rows); q++ {
					if rows[q][2] != fmt.Sprint(counts[q]) {
						ok = false
					}
				}
				if !ok {
					var got []string
					for _, row := range rows {
						got = append(got, row[2])
					}
					s.Violate(kit.Violation{Kind: "hist_text_reused_reporter", What: "the text rendering of a reporter that was already used once (before any / some results were added) does not show the histogram's counts",
						Input:    map[string]interface{}{"buckets": hc.Buckets, "latencies": hc.Lats, "rendered_after": k},
						Expected: fmt.Sprint(counts), Observed: fmt.Sprint(got)})
					bad = true
				}
			}
			if k < len(hc.Lats) {
				l := hc.Lats[k]
				h.Add(&vegeta.Result{Latency: time.Duration(l)})
				for b := range hc.Buckets {
					if l >= hc.Buckets[b] && (b == len(hc.Buckets)-1 || l < hc.Buckets[b+1]) {
						counts[b]++
					}
				}
			}
		}
	}
}
