package main

import (
	"bytes"
	"encoding/json"
	"fmt"
	"os"
	"sort"
	"strconv"
	"strings"
	"time"

	vegeta "github.com/tsenart/vegeta/v12/lib"
	"vharness/gen"
	"vharness/kit"
	"vharness/run"
)

func main() { run.Main("C12", runC12) }

func outcomeDur(s string) string {
	var d time.Duration
	var err error
	p, msg := kit.Recover(func() { d, err = time.ParseDuration(s) })
	_ = msg
	switch {
	case p:
		return "panic"
	case err != nil:
		return "err"
	}
	return "ok " + strconv.FormatInt(int64(d), 10)
}

var spaceChoices = []string{"", " ", "  ", "\t", " \t ", "\n", " ", " ", "\u0085", "　"}

func genBucketSpec(r *kit.Rng) (string, []string) {
	n := 1 + r.Pick(8)
	parts := make([]string, n)
	var sb strings.Builder
	sb.WriteString("[")
	cur := int64(0)
	for i := 0; i < n; i++ {
		var t string
		switch r.Pick(5) {
		case 0:
			t = gen.DurText(r)
		case 1:
			if i == 0 && r.Chance(0.5) {
				t = r.PickStr([]string{"0", "0s", "0ms", "-1ms"})
			} else {
				cur += r.Range(1, 1000)
				t = strconv.FormatInt(cur, 10) + r.PickStr([]string{"ms", "us", "s"})
			}
		default:
			cur += r.Range(1, 500)
			t = strconv.FormatInt(cur, 10) + "ms"
		}
		parts[i] = t
		if i > 0 {
			sb.WriteString(",")
		}
		sb.WriteString(r.PickStr(spaceChoices) + t + r.PickStr(spaceChoices))
	}
	sb.WriteString("]")
	return sb.String(), parts
}

func implUnmarshal(spec string) (string, vegeta.Buckets, bool) {
	var bs vegeta.Buckets
	var err error
	p, _ := kit.Recover(func() { err = bs.UnmarshalText([]byte(spec)) })
	if p {
		return "panic", nil, false
	}
	if err != nil {
		return "err", nil, false
	}
	xs := make([]int64, len(bs))
	for i, b := range bs {
		xs[i] = int64(b)
	}
	return "ok " + kit.Ints(xs), bs, true
}

// parseHistJSON parses `{"b": c, ...}` keeping order.
func parseHistJSON(b []byte) (string, bool) {
	dec := json.NewDecoder(bytes.NewReader(b))
	tok, err := dec.Token()
	if err != nil || tok != json.Delim('{') {
		return "", false
	}
	var out []string
	for dec.More() {
		k, err := dec.Token()
		if err != nil {
			return "", false
		}
		var v json.Number
		dec.UseNumber()
		if err := dec.Decode(&v); err != nil {
			return "", false
		}
		out = append(out, fmt.Sprintf("%s:%s", k.(string), v.String()))
	}
	return fmt.Sprintf("ok %d", len(out)) + join(out), true
}

func join(xs []string) string {
	if len(xs) == 0 {
		return ""
	}
	return " " + strings.Join(xs, " ")
}

// parseHistText extracts (lo, hi, count) from the text reporter's rows.
func parseHistText(b []byte) (string, [][3]string) {
	lines := strings.Split(strings.TrimRight(string(b), "\n"), "\n")
	var rows []string
	var raw [][3]string
	for _, ln := range lines[1:] {
		f := strings.Fields(ln)
		if len(f) < 4 {
			continue
		}
		// "[lo, hi]" — or any other bracket style: only the bounds and the count are what the property speaks of
		lo := strings.TrimSuffix(strings.TrimLeft(f[0], "[("), ",")
		hi := strings.TrimRight(f[1], "])")
		rows = append(rows, kit.HexS(lo)+","+kit.HexS(hi)+","+f[2])
		raw = append(raw, [3]string{lo, hi, f[2]})
	}
	return fmt.Sprintf("ok %d", len(rows)) + join(rows), raw
}

type histCase struct {
	Buckets []int64 `json:"buckets"`
	Lats    []int64 `json:"latencies"`
}

func implHist(hc histCase) (line string, counts []uint64, total uint64, jsonOut string, textRows [][3]string, textOut string, panicked bool) {
	h := &vegeta.Histogram{}
	for _, b := range hc.Buckets {
		h.Buckets = append(h.Buckets, time.Duration(b))
	}
	p, _ := kit.Recover(func() {
		for _, l := range hc.Lats {
			h.Add(&vegeta.Result{Latency: time.Duration(l)})
		}
	})
	if p {
		return "panic", nil, 0, "", nil, "", true
	}
	counts, total = h.Counts, h.Total
	var js []byte
	var err error
	pj, _ := kit.Recover(func() { js, err = h.MarshalJSON() })
	switch {
	case pj:
		jsonOut = "panic"
	case err != nil:
		jsonOut = "err"
	default:
		var ok bool
		if jsonOut, ok = parseHistJSON(js); !ok {
			jsonOut = "unparsable " + string(js)
		}
	}
	var buf bytes.Buffer
	pt, _ := kit.Recover(func() { err = vegeta.NewHistogramReporter(h).Report(&buf) })
	switch {
	case pt:
		textOut = "panic"
	case err != nil:
		textOut = "err"
	default:
		textOut, textRows = parseHistText(buf.Bytes())
	}
	line = "ok " + kit.Uints(counts) + " " + strconv.FormatUint(total, 10) + " | " + jsonOut + " | " + textOut
	return
}

func genHistCase(r *kit.Rng, inDomain bool) histCase {
	n := 1 + r.Pick(20)
	bs := make([]int64, n)
	cur := int64(0)
	if r.Chance(0.3) {
		cur = r.Range(-5, 1000)
	}
	for i := range bs {
		bs[i] = cur
		switch r.Pick(4) {
		case 0:
			cur += 1 // adjacent bounds
		case 1:
			cur += r.Range(1, 3)
		default:
			cur += r.Range(1, 1000000)
		}
	}
	if !inDomain && r.Chance(0.5) { // not increasing
		sort.Slice(bs, func(i, j int) bool { return r.Chance(0.5) })
	}
	m := r.Pick(60)
	if r.Chance(0.08) {
		m = 0
	}
	ls := make([]int64, m)
	for i := range ls {
		b := bs[r.Pick(n)]
		switch r.Pick(5) {
		case 0:
			ls[i] = b
		case 1:
			ls[i] = b - 1
		case 2:
			ls[i] = b + 1
		case 3:
			ls[i] = r.Range(bs[0], bs[n-1]+1000)
		default:
			ls[i] = bs[n-1] + r.Range(0, 1<<40)
		}
		if inDomain && ls[i] < bs[0] {
			ls[i] = bs[0]
		}
	}
	return histCase{bs, ls}
}

// oracleHist evaluates the statement of C12 directly on the implementation's outputs.
func oracleHist(s *kit.Summary, hc histCase, counts []uint64, total uint64, jsonOut string, rows [][3]string, textOut string) {
	n := len(hc.Buckets)
	ref := make([]uint64, n)
	for _, l := range hc.Lats {
		hits := 0
		for i := 0; i < n; i++ {
			lo := hc.Buckets[i]
			if l >= lo && (i == n-1 || l < hc.Buckets[i+1]) {
				ref[i]++
				hits++
			}
		}
		if hits != 1 {
			panic("generator left the property's domain")
		}
	}
	if len(hc.Lats) > 0 {
		bad := len(counts) != n || total != uint64(len(hc.Lats))
		var sum uint64
		for i := range counts {
			sum += counts[i]
			if i < n && counts[i] != ref[i] {
				bad = true
			}
		}
		if bad || sum != uint64(len(hc.Lats)) {
			s.Violate(kit.Violation{Kind: "hist_partition", What: "bucket counts differ from the partition definition",
				Input: hc, Expected: fmt.Sprint(ref), Observed: fmt.Sprint(counts, total)})
		}
	}
	// renderings show exactly these counts, also when no result was added
	var exp []string
	for i := 0; i < n; i++ {
		exp = append(exp, fmt.Sprintf("%d:%d", hc.Buckets[i], ref[i]))
	}
	expJSON := fmt.Sprintf("ok %d", n) + join(exp)
	if jsonOut != expJSON {
		kind := "hist_json_render"
		if len(hc.Lats) == 0 {
			kind = "hist_json_no_results"
		}
		s.Violate(kit.Violation{Kind: kind, What: "JSON rendering does not show the bucket counts", Input: hc,
			Expected: expJSON, Observed: jsonOut, Key: map[string]interface{}{"results": len(hc.Lats)}})
	}
	okText := len(rows) == n && textOut != "panic" && textOut != "err"
	if okText {
		for i := 0; i < n; i++ {
			lo := time.Duration(hc.Buckets[i]).String()
			hi := "+Inf"
			if i < n-1 {
				hi = time.Duration(hc.Buckets[i+1]).String()
			}
			if rows[i] != [3]string{lo, hi, strconv.FormatUint(ref[i], 10)} {
				okText = false
			}
		}
	}
	if !okText {
		kind := "hist_text_render"
		if len(hc.Lats) == 0 {
			kind = "hist_text_no_results"
		}
		s.Violate(kit.Violation{Kind: kind, What: "text rendering does not show one row per bucket with its count", Input: hc,
			Expected: fmt.Sprintf("%d rows", n), Observed: textOut, Key: map[string]interface{}{"results": len(hc.Lats)}})
	}
}

func runC12(c *run.Ctx, s *kit.Summary) {
	r := kit.NewRng(c.Seed)
	s.Rule = "durations/bucket specs: generated from the grammar plus byte-level mutations; histograms: 1..20 increasing bounds (adjacent bounds included), latencies on/just below/just above bounds; non-trivial = distinct case with ≥2 buckets and ≥1 latency, or a spec with ≥2 parts"
	dur := &kit.Stream{Name: "dur.parse"}
	for i := 0; i < c.N(20000, 400000); i++ {
		t := gen.DurText(r)
		if r.Chance(0.35) {
			t = gen.Mutate(r, t)
		}
		o := outcomeDur(t)
		s.Count("dur.parse:" + strings.Fields(o)[0])
		s.Case("d:"+t, len(t) > 2)
		dur.Add("dur.parse "+kit.HexS(t), o)
	}
	dur.Diff(c.Driver, s)
	ds := &kit.Stream{Name: "dur.string"}
	for i := 0; i < c.N(20000, 400000); i++ {
		d := r.Int64Edge()
		if r.Chance(0.3) {
			d = r.Range(0, 7200) * int64(r.PickI64([]int64{1, 1000, 1000000, 1000000000, 500000000}))
		}
		s.Case("s:"+strconv.FormatInt(d, 10), true)
		ds.Add("dur.string "+strconv.FormatInt(d, 10), "ok "+kit.HexS(time.Duration(d).String()))
	}
	ds.Diff(c.Driver, s)

	um := &kit.Stream{Name: "hist.unmarshal"}
	for i := 0; i < c.N(10000, 300000); i++ {
		spec, parts := genBucketSpec(r)
		mut := r.Chance(0.25)
		if mut {
			spec = gen.Mutate(r, spec)
		}
		o, bs, ok := implUnmarshal(spec)
		s.Count("unmarshal:" + strings.Fields(o)[0])
		s.Case("u:"+spec, len(parts) > 1)
		um.Add("hist.unmarshal "+kit.HexS(spec), o)
		if i < 2 {
			s.Sample(map[string]string{"op": "hist.unmarshal", "spec": spec, "impl": o})
		}
		if o == "panic" && mut {
			// a panic on a MUTATED (possibly malformed) specification is the business of C16, not of this property:
			// the model comparison below still shows it (a broken tie)
			s.Count("unmarshal:panic_on_mutated_spec(not judged here)")
		} else if o == "panic" {
			s.Violate(kit.Violation{Kind: "unmarshal_panic", What: "Buckets.UnmarshalText panicked on a well-formed bucket specification", Input: spec})
		}
		if !mut {
			// oracle: preserves the given bounds; implicit zero bound when the first is positive
			var exp []int64
			good := true
			for j, p := range parts {
				d, err := time.ParseDuration(p)
				if err != nil {
					good = false
					break
				}
				if j == 0 && d > 0 {
					exp = append(exp, 0)
				}
				exp = append(exp, int64(d))
			}
			if good {
				if !ok || len(bs) != len(exp) {
					s.Violate(kit.Violation{Kind: "unmarshal_preserve", What: "bucket spec not preserved", Input: spec, Expected: fmt.Sprint(exp), Observed: o})
				} else {
					for j := range exp {
						if int64(bs[j]) != exp[j] {
							s.Violate(kit.Violation{Kind: "unmarshal_preserve", What: "bucket spec not preserved", Input: spec, Expected: fmt.Sprint(exp), Observed: o})
							break
						}
					}
					if bs[0] > 0 {
						s.Violate(kit.Violation{Kind: "unmarshal_cover", What: "first bound positive: non-negative latencies uncovered", Input: spec, Observed: o})
					}
				}
			} else if ok {
				// the property speaks of what a GIVEN specification means, not of which malformed ones are refused:
				// acceptance of a specification with an unparsable part is left to the model comparison
				s.Count("unmarshal:malformed_spec_accepted(not judged here)")
			}
		}
	}
	um.Diff(c.Driver, s)

	ha := &kit.Stream{Name: "hist.add"}
	for i := 0; i < c.N(10000, 300000); i++ {
		inDomain := !r.Chance(0.15)
		hc := genHistCase(r, inDomain)
		line, counts, total, js, rows, tx, _ := implHist(hc)
		s.Case(fmt.Sprint("h:", hc), len(hc.Buckets) > 1 && len(hc.Lats) > 0)
		s.Count(fmt.Sprintf("hist.add:domain=%v", inDomain))
		if len(hc.Lats) == 0 {
			s.Count("hist.add:no_results")
		}
		ha.Add("hist.add "+kit.Ints(hc.Buckets)+" "+kit.Ints(hc.Lats), line)
		if i < 2 {
			s.Sample(map[string]interface{}{"op": "hist.add", "case": hc, "impl": line})
		}
		if inDomain {
			oracleHist(s, hc, counts, total, js, rows, tx)
		}
	}
	ha.Diff(c.Driver, s)
	renderMany(c, s, r)
	reporterReuse(c, s, r)
	reportPlumbing(c, s, r)
}

// reportPlumbing drives the report command in-process (vegeta built with -tags verif) with
// `-type=json -buckets=…` and `-type=hist[…]` over encoded result files whose results carry
// repeated and distinct errors, and checks that the rendered bucket counts are the partition.
func reportPlumbing(c *run.Ctx, s *kit.Summary, r *kit.Rng) {
	type job struct {
		spec  string
		lats  []int64
		bs    []int64
		file  string
		jsonO string
		histO string
		newO  string
		bothO string
		spec2 string
		bs2   []int64
		every int64
	}
	var jobs []job
	var ops []string
	n := c.N(60, 1500)
	for i := 0; i < n; i++ {
		hc := genHistCase(r, true)
		if hc.Buckets[0] < 0 {
			continue
		}
		// textual spec of the bounds (the implicit zero bound is added by the parser when the first is positive)
		var parts []string
		for _, b := range hc.Buckets {
			parts = append(parts, time.Duration(b).String())
		}
		spec := "[" + strings.Join(parts, r.PickStr([]string{",", ", ", " ,"})) + "]"
		bs := hc.Buckets
		if bs[0] > 0 {
			bs = append([]int64{0}, bs...)
		}
		j := job{spec: spec, bs: bs, file: fmt.Sprintf("%s/c12_%d.gob", c.Work, i)}
		f, err := os.Create(j.file)
		if err != nil {
			panic(err)
		}
		enc := vegeta.NewEncoder(f)
		t0 := time.Unix(1600000000, 0)
		errs := []string{"", "", "boom", "boom", "other failure", "timeout"}
		// a third of the jobs report periodically (-every): intermediate reports (Close, then further Add calls)
		// are appended to the output file; the LAST report must still be the partition of all results.
		// Those jobs get a few thousand results so that ticks do fire while decoding.
		lats := hc.Lats
		if len(lats) > 0 && r.Chance(0.34) {
			j.every = int64(1 + r.Pick(2000))
			for len(lats) < 4000 {
				lats = append(lats, hc.Lats...)
			}
		}
		var all []vegeta.Result
		for k, l := range lats {
			if l < 0 {
				l = 0
			}
			j.lats = append(j.lats, l)
			code := uint16(200)
			e := errs[r.Pick(len(errs))]
			if e != "" {
				code = 500
			}
			res := vegeta.Result{Attack: "a", Seq: uint64(k), Code: code, Timestamp: t0.Add(time.Duration(k) * time.Millisecond),
				Latency: time.Duration(l), Error: e, Method: "GET", URL: "http://x/"}
			enc.Encode(&res)
			all = append(all, res)
		}
		f.Close()
		// every third job without -every hands the SAME results to the command split over two to four files of unequal
		// lengths (`vegeta report results.*`): the rows must still be the partition of all results
		files := kit.HexS(j.file)
		if i%3 == 1 && j.every == 0 && len(all) >= 4 {
			cuts := [][]int{{2, len(all)}, {len(all) - 1, len(all)}, {1, 2, len(all)}, {1, len(all) - 2, len(all)}, {2, 3, 4, len(all)}}[r.Pick(5)]
			var parts []string
			from := 0
			for pi, to := range cuts {
				if to > len(all) {
					to = len(all)
				}
				pf := fmt.Sprintf("%s.p%d", j.file, pi)
				fh, err := os.Create(pf)
				if err != nil {
					panic(err)
				}
				pe := vegeta.NewEncoder(fh)
				for q := from; q < to; q++ {
					pe.Encode(&all[q])
				}
				fh.Close()
				from = to
				parts = append(parts, kit.HexS(pf))
			}
			if r.Chance(0.5) { // either order of the arguments
				for a, b := 0, len(parts)-1; a < b; a, b = a+1, b-1 {
					parts[a], parts[b] = parts[b], parts[a]
				}
			}
			files = strings.Join(parts, " ")
			s.Count(fmt.Sprintf("report:split_over_files=%d", len(parts)))
		}
		j.jsonO, j.histO, j.newO, j.bothO = j.file+".json", j.file+".hist", j.file+".hist2", j.file+".hist3"
		{ // a second, different list for the inline form
			n2 := 1 + r.Pick(4)
			cur := int64(r.Pick(3)) * 1000000
			var parts2 []string
			for q := 0; q < n2; q++ {
				j.bs2 = append(j.bs2, cur)
				parts2 = append(parts2, time.Duration(cur).String())
				cur += int64(1+r.Pick(9)) * 700000
			}
			if j.bs2[0] > 0 {
				j.bs2 = append([]int64{0}, j.bs2...)
			}
			j.spec2 = "[" + strings.Join(parts2, ",") + "]"
		}
		ops = append(ops,
			fmt.Sprintf("report %s %d %s %s %s", kit.HexS("json"), j.every, kit.HexS(spec), kit.HexS(j.jsonO), files),
			fmt.Sprintf("report %s %d - %s %s", kit.HexS("hist"+spec), j.every, kit.HexS(j.histO), files),
			fmt.Sprintf("report %s %d %s %s %s", kit.HexS("hist"), j.every, kit.HexS(spec), kit.HexS(j.newO), files),
			// both ways of giving buckets at once, with DIFFERENT lists: whichever the command honours, the rows must
			// be the partition for ONE of the two given lists
			fmt.Sprintf("report %s %d %s %s %s", kit.HexS("hist"+j.spec2), j.every, kit.HexS(spec), kit.HexS(j.bothO), files))
		jobs = append(jobs, j)
	}
	outs, err := kit.RunVegeta(c.Vegeta, ops)
	if err != nil {
		s.Diverge("c12.report", "(vegeta-verif failure)", err.Error(), "")
		return
	}
	for i, j := range jobs {
		s.Case("report:"+j.spec+fmt.Sprint(len(j.lats)), len(j.lats) > 0)
		s.Count("report:results=" + fmt.Sprint(min(len(j.lats)/10*10, 60)))
		ref := make([]uint64, len(j.bs))
		for _, l := range j.lats {
			for b := range j.bs {
				if l >= j.bs[b] && (b == len(j.bs)-1 || l < j.bs[b+1]) {
					ref[b]++
				}
			}
		}
		in := map[string]interface{}{"buckets_spec": j.spec, "latencies": j.lats, "every_ns": j.every}
		s.Count(fmt.Sprintf("report:every=%v", j.every > 0))
		if outs[4*i] != "ok" || outs[4*i+1] != "ok" || outs[4*i+2] != "ok" || outs[4*i+3] != "ok" {
			if len(j.lats) > 0 { // an empty result file has no detectable encoding: not in the quantifier
				s.Violate(kit.Violation{Kind: "report_buckets_failed", What: "report command failed on a valid bucket specification", Input: in, Observed: outs[4*i] + " / " + outs[4*i+1] + " / " + outs[4*i+2] + " / " + outs[4*i+3]})
			}
			continue
		}
		// JSON report: "buckets": {"<ns>": count, …}
		var m struct {
			Buckets  map[string]uint64 `json:"buckets"`
			Requests uint64            `json:"requests"`
		}
		b, _ := os.ReadFile(j.jsonO)
		if docs := strings.Split(strings.TrimSpace(string(b)), "\n"); len(docs) > 1 {
			s.Count("report:intermediate_json_reports>0")
			b = []byte(docs[len(docs)-1]) // one JSON document per report, one per line: the last one is the final report
		}
		if err := json.Unmarshal(b, &m); err != nil {
			s.Violate(kit.Violation{Kind: "report_json_unparsable", What: "JSON report is not valid JSON", Input: in, Observed: string(b)})
			continue
		}
		okJ := len(m.Buckets) == len(j.bs)
		var sum uint64
		for k, bnd := range j.bs {
			got, present := m.Buckets[strconv.FormatInt(bnd, 10)]
			sum += got
			if !present || got != ref[k] {
				okJ = false
			}
		}
		if !okJ || sum != uint64(len(j.lats)) {
			s.Violate(kit.Violation{Kind: "report_json_buckets", What: "bucket counts in the JSON report (-type=json -buckets) are not the partition of the results",
				Input: in, Expected: fmt.Sprint(ref), Observed: fmt.Sprint(m.Buckets)})
		}
		for which, fn := range []string{j.histO, j.newO} {
			hb, _ := os.ReadFile(fn)
			if k := strings.LastIndex(string(hb), "Bucket"); k > 0 {
				s.Count("report:intermediate_hist_reports>0")
				hb = hb[k:] // the last table is the final report
			}
			_, rows := parseHistText(hb)
			okT := len(rows) == len(j.bs)
			for k := 0; okT && k < len(rows); k++ {
				if rows[k][2] != strconv.FormatUint(ref[k], 10) || rows[k][0] != time.Duration(j.bs[k]).String() {
					okT = false
				}
			}
			if !okT {
				s.Violate(kit.Violation{Kind: "report_hist_buckets", What: "rows of the text histogram report (" + []string{"-type=hist[…]", "-type=hist -buckets=…"}[which] + ") are not the partition of the results",
					Input: in, Expected: fmt.Sprint(ref), Observed: string(hb)})
			}
		}
		{ // both forms given
			hb, _ := os.ReadFile(j.bothO)
			if k := strings.LastIndex(string(hb), "Bucket"); k > 0 {
				hb = hb[k:]
			}
			_, rows := parseHistText(hb)
			match := func(bs []int64) bool {
				refb := make([]uint64, len(bs))
				for _, l := range j.lats {
					for b := range bs {
						if l >= bs[b] && (b == len(bs)-1 || l < bs[b+1]) {
							refb[b]++
						}
					}
				}
				if len(rows) != len(bs) {
					return false
				}
				for k := range rows {
					if rows[k][2] != strconv.FormatUint(refb[k], 10) || rows[k][0] != time.Duration(bs[k]).String() {
						return false
					}
				}
				return true
			}
			s.Count("report:both_bucket_forms_given")
			if !match(j.bs) && !match(j.bs2) {
				s.Violate(kit.Violation{Kind: "report_hist_buckets", What: "-type=hist[A] together with -buckets=B: the rows are the partition neither for A nor for B (the given bounds are not preserved)",
					Input: map[string]interface{}{"type": "hist" + j.spec2, "buckets": j.spec, "latencies": j.lats}, Expected: fmt.Sprint("rows for ", j.bs, " or for ", j.bs2), Observed: string(hb)})
			}
			os.Remove(j.bothO)
		}
		os.Remove(j.newO)
		os.Remove(j.file)
		os.Remove(j.jsonO)
		os.Remove(j.histO)
	}
}
