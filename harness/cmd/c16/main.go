package main

// C16 — No input makes a parser crash or hang.
//
// 13 entry points: result decoders gob/CSV/JSON and DecoderFor, NewHTTPTargeter,
// NewJSONTargeter, Buckets.UnmarshalText (in process), and the flag parsers rate, header,
// max-body, connect-to, dns-ttl, resolvers (through the vegeta binary built with -tags verif).
// Inputs: random bytes, valid documents of each format, and structured mutations of them.
// Each in-process call runs under recover with a deadline and an allocation budget
// a*len(input)+b; where a Lean model of vegeta's own logic exists (bucket parser, CSV
// record conversion, the targeters' skip loops, report's type dispatch, the flag parsers)
// the outcome is also compared with the model.

import (
	"bufio"
	"bytes"
	"context"
	"encoding/base64"
	"encoding/csv"
	"encoding/hex"
	"encoding/json"
	"errors"
	"fmt"
	"hash/fnv"
	"io"
	"net/http"
	"net/textproto"
	"os"
	"os/exec"
	"path/filepath"
	"regexp"
	"sort"
	"strconv"
	"strings"
	"syscall"
	"time"

	vegeta "github.com/tsenart/vegeta/v12/lib"
	"vharness/gen"
	"vharness/kit"
	"vharness/run"
)

func main() {
	if os.Getenv("VH_C16_WORKER") == "1" {
		workerMain()
		return
	}
	run.Main("C16", runC16)
}

const (
	allocA   = 200              // bytes allocated per input byte
	allocB   = 24 << 20         // constant part: covers the fixed buffers of the library readers (bufio 4 KiB … gob's ≤10 MiB message chunk)
	deadline = 20 * time.Second // per call; a real parser call takes microseconds
	asLimit  = 4 << 30          // address-space limit of the child process that runs the real parsers
)

var reRequested = regexp.MustCompile(`cannot allocate (\d+)-byte block`)

type probe struct {
	Entry string `json:"entry"`
	Hex   string `json:"input_hex"`
	Text  string `json:"input_text"`
}

func mkProbe(entry string, in []byte) probe {
	t := string(in)
	if len(t) > 300 {
		t = t[:300] + "…"
	}
	return probe{entry, hex.EncodeToString(in), strconv.QuoteToASCII(t)}
}

type harness struct {
	s                *kit.Summary
	sandbox          string
	root             string               // directory the harness was started in (/verif): corpus/ lives there
	self             string               // path of this executable (re-executed as the worker)
	maxA             map[string][2]uint64 // entry -> (alloc, len) of the largest allocation seen
	timeouts, deaths map[string]int
}

// judge evaluates one answer of the worker process (see worker.go): panic, death of the
// process (fatal error, e.g. out of memory under the address-space limit), timeout, hang,
// allocation budget.
func (h *harness) judge(entry string, in []byte, r resp) string {
	switch r.status {
	case "skipped":
		h.s.Skipped["after repeated timeouts or crashes:"+entry]++
		return "skipped"
	case "timeout":
		h.s.Violate(kit.Violation{Kind: "timeout:" + entry, What: "parser call did not return within the deadline", Input: mkProbe(entry, in),
			Expected: "value or error in bounded time", Observed: "no return after " + deadline.String(), Key: map[string]interface{}{"entry": entry}})
		return "timeout"
	case "died":
		// reproduced with the input alone in a fresh process (see runBatch). The allocation oracle
		// judges the size of the failing request against the input, not the death as such.
		kind := "crash:" + entry
		key := map[string]interface{}{"entry": entry, "fatal": true, "cause": "unknown"}
		if strings.Contains(r.out, "out of memory") || strings.Contains(r.out, "cannot allocate memory") {
			key["cause"] = causeOf(r.extra)
			over := true
			if m := reRequested.FindStringSubmatch(r.out); m != nil {
				if n, err := strconv.ParseUint(m[1], 10, 64); err == nil {
					key["requested_bytes"] = n
					over = n > allocA*uint64(len(in))+allocB
				}
			}
			if over {
				kind = "alloc:" + entry
			}
		}
		h.s.Count("died:" + entry + ":cause=" + fmt.Sprint(key["cause"]))
		h.s.Violate(kit.Violation{Kind: kind, What: "the process running the parser died with this input alone in a fresh process (fatal error; address space limited to " + strconv.Itoa(asLimit>>30) + " GiB)",
			Input: mkProbe(entry, in), Expected: "value or error, memory proportional to the input", Observed: r.out, Key: key})
		return "died"
	}
	if r.note != "" {
		h.s.Skipped["worker "+strings.SplitN(r.note, " (", 2)[0]+" when the input ran alone:"+entry]++
	}
	if r.alloc > h.maxA[entry][0] {
		h.maxA[entry] = [2]uint64{r.alloc, uint64(len(in))}
	}
	if r.alloc > allocA*uint64(len(in))+allocB {
		// name the allocation site: the input once more in a profiling child
		site := h.diagnose(entry, in)
		cause := causeOf(site)
		h.s.Count("overbudget:" + entry + ":cause=" + cause)
		if len(site) > 600 {
			site = site[:600]
		}
		h.s.Violate(kit.Violation{Kind: "alloc:" + entry, What: "allocation volume out of proportion to the input", Input: mkProbe(entry, in),
			Expected: fmt.Sprintf("<= %d*%d+%d bytes", allocA, len(in), allocB), Observed: fmt.Sprintf("%d bytes; largest site %s", r.alloc, site),
			Key: map[string]interface{}{"entry": entry, "fatal": false, "cause": cause, "allocated_bytes": r.alloc}})
	}
	if r.status == "panic" {
		h.s.Violate(kit.Violation{Kind: "panic:" + entry, What: "parser panicked", Input: mkProbe(entry, in), Expected: "value or error", Observed: r.out,
			Key: map[string]interface{}{"entry": entry}})
		return "panic"
	}
	if r.out == "hang" {
		h.s.Violate(kit.Violation{Kind: "hang:" + entry, What: "parser keeps returning without consuming input", Input: mkProbe(entry, in),
			Expected: "at most len(input)+2 successful calls", Observed: "more", Key: map[string]interface{}{"entry": entry}})
	}
	return r.out
}

/* ---------- entry points ---------- */

// modeOf: how an input is fed to the entry point, derived from the input itself (so that a
// replay takes the same path): bit 0 = one Result / Target value reused for all calls (as
// `report`, `encode` and the attacker's workers do) instead of a fresh one per call,
// bit 1 = nil default body and header for the targeters.
func modeOf(in []byte) int {
	h := fnv.New32a()
	h.Write(in)
	return int(h.Sum32() >> 7 & 3)
}

// decodeAll calls Decode until the first error (at most n+3 times: more successes than bytes is
// a decoder that returns without consuming), then twice more: a decoder must also survive being
// used after it reported an error or the end of the stream.
func decodeAll(dec vegeta.Decoder, n int, keep *[]vegeta.Result, mode int) string {
	ok := 0
	var shared vegeta.Result
	for i := 0; i < n+3; i++ {
		r := &vegeta.Result{}
		if mode&1 == 1 {
			r = &shared
		}
		if err := dec.Decode(r); err != nil {
			for j := 0; j < 2; j++ {
				_ = dec.Decode(r)
			}
			if err == io.EOF {
				return fmt.Sprintf("eof %d", ok)
			}
			return fmt.Sprintf("err %d", ok)
		}
		ok++
		if keep != nil {
			*keep = append(*keep, *r)
		}
	}
	return "hang"
}

func entryGob(in []byte) string {
	return decodeAll(vegeta.NewDecoder(bytes.NewReader(in)), len(in), nil, modeOf(in))
}
func entryJSON(in []byte) string {
	return decodeAll(vegeta.NewJSONDecoder(bytes.NewReader(in)), len(in), nil, modeOf(in))
}
func entryAuto(in []byte) string {
	dec := vegeta.DecoderFor(bytes.NewReader(in))
	if dec == nil {
		return "nil"
	}
	return decodeAll(dec, len(in), nil, modeOf(in))
}

// targetAll calls the targeter until ErrNoTargets (errors in between do not stop it: the
// targeter is used again after an error), then twice more.
func targetAll(t vegeta.Targeter, n int, mode int) string {
	ok, bad, first := 0, 0, ""
	shared := vegeta.Target{Header: http.Header{"X-Kept": {"from an earlier call"}}}
	for i := 0; i < n+3; i++ {
		tgt := &vegeta.Target{}
		if mode&1 == 1 {
			tgt = &shared
		}
		err := t(tgt)
		if i == 0 {
			switch {
			case err == vegeta.ErrNoTargets:
				first = "none"
			case err != nil && strings.HasPrefix(err.Error(), "bad target: "):
				first = "some " + kit.HexS(strings.TrimPrefix(err.Error(), "bad target: "))
			default:
				first = "some"
			}
		}
		if err == vegeta.ErrNoTargets {
			for j := 0; j < 2; j++ {
				_ = t(tgt)
			}
			return fmt.Sprintf("%s ok=%d bad=%d", first, ok, bad)
		} else if err != nil {
			bad++
		} else {
			ok++
		}
	}
	return "hang"
}

func targeterDefaults(mode int) ([]byte, http.Header) {
	if mode&2 == 2 {
		return nil, nil
	}
	return []byte("default"), http.Header{"X-Default": {"1", "2"}, "x-lower": {"v"}}
}

func entryHTTPTargeter(in []byte) string {
	m := modeOf(in)
	b, h := targeterDefaults(m)
	return targetAll(vegeta.NewHTTPTargeter(bytes.NewReader(in), b, h), len(in), m)
}
func entryJSONTargeter(in []byte) string {
	m := modeOf(in)
	b, h := targeterDefaults(m)
	return targetAll(vegeta.NewJSONTargeter(bytes.NewReader(in), b, h), len(in), m)
}

func entryBuckets(in []byte) string {
	var bs vegeta.Buckets
	if err := bs.UnmarshalText(in); err != nil {
		return "err"
	}
	xs := make([]int64, len(bs))
	for i, b := range bs {
		xs[i] = int64(b)
	}
	return "ok " + kit.Ints(xs)
}

/* ---------- sandbox for body-file references ---------- */

// confine rewrites every line that (after trimming) starts with '@' so that the named file
// lies inside the sandbox directory (the process's working directory): the path is reduced
// to a flat file name.
func confine(in []byte) []byte {
	lines := bytes.Split(in, []byte("\n"))
	for i, l := range lines {
		t := strings.TrimSpace(string(l))
		if !strings.HasPrefix(t, "@") {
			continue
		}
		name := []byte(t[1:])
		for j, c := range name {
			switch {
			case c >= 'a' && c <= 'z', c >= 'A' && c <= 'Z', c >= '0' && c <= '9', c == '_', c == '-':
			case c == '.' && j > 0 && name[j-1] != '.' && name[j-1] != '_':
			default:
				name[j] = '_'
			}
		}
		if len(name) > 100 {
			name = name[:100]
		}
		lines[i] = append([]byte("@"), name...)
	}
	return bytes.Join(lines, []byte("\n"))
}

/* ---------- valid documents ---------- */

var attackNames = []string{"", "a", "load test", "ünï", "x,y", "q\"uote", "line\nbreak"}
var methods = []string{"GET", "POST", "PUT", "DELETE", "HEAD", "PATCH", "OPTIONS"}
var urls = []string{"http://localhost/", "http://127.0.0.1:8080/path?q=1", "https://example.com/a/b/c", "http://[::1]:80/x", "http://h/%20", "https://goku:9000/über"}

func genResult(r *kit.Rng) vegeta.Result {
	res := vegeta.Result{
		Attack:    r.PickStr(attackNames),
		Seq:       r.Uint64() >> uint(r.Pick(64)),
		Code:      uint16(r.Pick(600)),
		Timestamp: time.Unix(0, r.Range(0, 1<<61)),
		Latency:   time.Duration(r.Range(0, 1<<40)),
		BytesOut:  uint64(r.Range(0, 1<<30)),
		BytesIn:   uint64(r.Range(0, 1<<30)),
		Error:     r.PickStr([]string{"", "", "EOF", "dial tcp: connection refused", "500 Internal Server Error", "with,comma \"and\" quote"}),
		Method:    r.PickStr(methods),
		URL:       r.PickStr(urls),
	}
	if r.Chance(0.6) {
		res.Body = gen.RandomBytes(r, 40)
	}
	if r.Chance(0.6) {
		res.Headers = http.Header{}
		for i := 0; i <= r.Pick(3); i++ {
			res.Headers.Add(r.PickStr([]string{"Content-Type", "X-Id", "Set-Cookie", "Date"}), r.PickStr([]string{"text/plain", "1", "a=b; c=d", "x"}))
		}
	}
	return res
}

func genResults(r *kit.Rng, format string) []byte {
	var buf bytes.Buffer
	var enc vegeta.Encoder
	switch format {
	case "gob":
		enc = vegeta.NewEncoder(&buf)
	case "csv":
		enc = vegeta.NewCSVEncoder(&buf)
	default:
		enc = vegeta.NewJSONEncoder(&buf)
	}
	for i := 0; i <= r.Pick(4); i++ {
		res := genResult(r)
		if err := enc.Encode(&res); err != nil {
			panic(err)
		}
	}
	return buf.Bytes()
}

var hdrLines = []string{"Content-Type: text/plain", "X-Id:1", "  Accept :  */*  ", "Authorization: Bearer a:b", "x-lower: v"}

func genHTTPTargets(r *kit.Rng) []byte {
	var sb strings.Builder
	for i := 0; i <= r.Pick(4); i++ {
		if r.Chance(0.2) {
			sb.WriteString("# a comment\n")
		}
		if r.Chance(0.2) {
			sb.WriteString(r.PickStr([]string{"\n", "  \n", "\r\n"}))
		}
		sb.WriteString(r.PickStr(methods) + " " + r.PickStr(urls) + "\n")
		for j := 0; j < r.Pick(4); j++ {
			if r.Chance(0.15) {
				sb.WriteString("# between headers\n")
			}
			sb.WriteString(r.PickStr(hdrLines) + r.PickStr([]string{"\n", "\r\n"}))
		}
		if r.Chance(0.4) {
			sb.WriteString("@" + r.PickStr([]string{"body1.txt", "b.bin", "missing.txt"}) + "\n")
		}
		if r.Chance(0.8) {
			sb.WriteString("\n")
		}
	}
	return []byte(sb.String())
}

func genJSONTargets(r *kit.Rng) []byte {
	var buf bytes.Buffer
	for i := 0; i <= r.Pick(4); i++ {
		m := map[string]interface{}{"method": r.PickStr(methods), "url": r.PickStr(urls)}
		if r.Chance(0.5) {
			m["body"] = base64.StdEncoding.EncodeToString(gen.RandomBytes(r, 30))
		}
		if r.Chance(0.5) {
			m["header"] = map[string][]string{r.PickStr([]string{"Content-Type", "x-id"}): {r.PickStr([]string{"text/plain", "1"})}}
		}
		b, _ := json.Marshal(m)
		buf.Write(b)
		buf.WriteString(r.PickStr([]string{"\n", "\n", "\n\n", "\r\n", " \n"}))
	}
	return buf.Bytes()
}

func genBuckets(r *kit.Rng) []byte {
	n := 1 + r.Pick(6)
	parts := make([]string, n)
	cur := int64(0)
	for i := range parts {
		if i == 0 && r.Chance(0.4) {
			parts[i] = r.PickStr([]string{"0", "0s", "0ms"})
			continue
		}
		cur += r.Range(1, 500)
		parts[i] = r.PickStr([]string{"", " ", "\t"}) + strconv.FormatInt(cur, 10) + r.PickStr([]string{"ms", "us", "s", "µs", "ns", "m", "h"}) + r.PickStr([]string{"", " "})
		if r.Chance(0.1) {
			parts[i] = fmt.Sprintf("%dh%dm%d.%ds", i+1, r.Range(0, 59), r.Range(0, 59), r.Range(0, 999))
		}
	}
	return []byte("[" + strings.Join(parts, ",") + "]")
}

/* ---------- model comparison helpers ---------- */

// csvModelOps: run the library's csv reader (same configuration as NewCSVDecoder) over the
// input; for each record delivered, the model converts it (base64 / MIME results supplied).
// Returns the op lines and what the real decoder must have answered for each.
func csvCompare(st *kit.Stream, in []byte, out string, results []string) {
	rd := csv.NewReader(bytes.NewReader(in))
	rd.FieldsPerRecord = 12
	rd.TrimLeadingSpace = true
	f := strings.Fields(out)
	if len(f) != 2 {
		return
	}
	nOK, _ := strconv.Atoi(f[1])
	for j := 0; j <= nOK; j++ {
		rec, err := rd.Read()
		if err != nil {
			return // the library reader failed here: nothing of vegeta's own to compare
		}
		_, e64 := base64.StdEncoding.DecodeString(rec[6])
		mimeOK := true
		if rec[11] != "" {
			pr := textproto.NewReader(bufio.NewReader(base64.NewDecoder(base64.StdEncoding, strings.NewReader(rec[11]))))
			_, e := pr.ReadMIMEHeader()
			mimeOK = e == nil
		}
		op := "c16.csvrec " + kit.B(e64 == nil) + " " + kit.B(mimeOK) + " " + strconv.Itoa(len(rec))
		for _, x := range rec {
			op += " " + kit.HexS(x)
		}
		impl := "err"
		if j < nOK {
			if j >= len(results) {
				return
			}
			impl = results[j]
		} else if f[0] == "eof" {
			return
		}
		st.Add(op, impl)
	}
}

func keyOf(entry string, in []byte) string {
	h := fnv.New64a()
	h.Write(in)
	return entry + ":" + strconv.FormatUint(h.Sum64(), 36)
}

/* ---------- the vegeta binary with a deadline ---------- */

func runVegetaTimed(bin string, ops []string, d time.Duration) ([]string, int64, error) {
	ctx, cancel := context.WithTimeout(context.Background(), d)
	defer cancel()
	cmd := exec.CommandContext(ctx, bin)
	cmd.Env = append(os.Environ(), "VEGETA_VERIF_DRIVER=1")
	cmd.Stdin = strings.NewReader(strings.Join(ops, "\n") + "\n")
	var out bytes.Buffer
	cmd.Stdout = &out
	cmd.Stderr = os.Stderr
	err := cmd.Run()
	var rss int64
	if cmd.ProcessState != nil {
		if ru, ok := cmd.ProcessState.SysUsage().(*syscall.Rusage); ok {
			rss = int64(ru.Maxrss) // KiB on Linux
		}
	}
	if ctx.Err() != nil {
		return nil, rss, errors.New("deadline exceeded")
	}
	if err != nil {
		return nil, rss, err
	}
	lines := strings.Split(strings.TrimRight(out.String(), "\n"), "\n")
	if len(lines) != len(ops) {
		return lines, rss, fmt.Errorf("%d lines for %d ops", len(lines), len(ops))
	}
	return lines, rss, nil
}

type flagEntry struct {
	name, implOp, modelOp string
	valid                 func(r *kit.Rng) string
	fixed                 []string // every one of these is tried once
	multi                 bool     // the op takes several values set one after the other on the same flag value (separator 0x1f)
}

// flagArgs: the hex arguments of one op
func (fe flagEntry) flagArgs(v string) string {
	if !fe.multi {
		return kit.HexS(v)
	}
	parts := strings.Split(v, "\x1f")
	for i := range parts {
		parts[i] = kit.HexS(parts[i])
	}
	return strings.Join(parts, " ")
}

var flagEntries = []flagEntry{
	{"flag_rate", "flag.rate", "c19.rate", func(r *kit.Rng) string { return gen.Rate(r).Text }, append(append([]string{}, gen.RateMalformed...), gen.RateOdd...), false},
	{"flag_header", "flag.headers", "c19.headers", func(r *kit.Rng) string { return gen.Header(r).Text }, gen.HeaderMalformed, true},
	{"flag_max_body", "flag.maxbody", "c19.maxbody", func(r *kit.Rng) string { return gen.Size(r).Text }, gen.SizeMalformed, false},
	{"flag_connect_to", "flag.connectto", "c19.connectto", func(r *kit.Rng) string { return gen.ConnectTo(r).Text }, gen.ConnectToMalformed, true},
	{"flag_dns_ttl", "flag.dnsttl", "c19.dnsttl", func(r *kit.Rng) string { return gen.TTL(r).Text }, gen.TTLMalformed, false},
	{"flag_resolvers", "flag.resolvers", "c19.resolvers", func(r *kit.Rng) string {
		n := 1 + r.Pick(3)
		parts := make([]string, n)
		for i := range parts {
			parts[i] = gen.Resolver(r).Text
		}
		return strings.Join(parts, ",")
	}, gen.ResolverMalformed, false},
}

// flagBatch: the values through the real flag parser (one vegeta process, overall deadline)
// and the model. A batch that fails is re-run value by value to find the culprit.
func (h *harness) flagBatch(c *run.Ctx, fe flagEntry, vals []string) {
	s := h.s
	// The memory oracle below reads the resident size of the whole flag-parsing PROCESS. What the property bounds is
	// the memory ONE parse needs for its input; a process that has parsed tens of thousands of values has a heap
	// high-water mark that says nothing about any of them (the thorough tier's 20 000-value batches reached 1.3 GiB).
	// So a process is given at most a few thousand values.
	const maxPerProcess = 2500
	if len(vals) > maxPerProcess {
		for from := 0; from < len(vals); from += maxPerProcess {
			to := from + maxPerProcess
			if to > len(vals) {
				to = len(vals)
			}
			h.flagBatch(c, fe, vals[from:to])
		}
		return
	}
	ops := make([]string, len(vals))
	for i, v := range vals {
		ops[i] = fe.implOp + " " + fe.flagArgs(v)
	}
	if h.timeouts[fe.name] >= 3 {
		s.Skipped["after repeated failures of the flag-parsing process:"+fe.name] += len(vals)
		return
	}
	outs, rss, err := runVegetaTimed(c.Vegeta, ops, deadline+time.Duration(len(ops))*2*time.Millisecond)
	if rss > 0 {
		if cur, _ := s.Extra["max_rss_kib:"+fe.name].(int64); rss > cur {
			s.Extra["max_rss_kib:"+fe.name] = rss
		}
		total := 0
		for _, v := range vals {
			total += len(v)
		}
		if rss*1024 > int64(allocA*total)+(1<<30) {
			s.Violate(kit.Violation{Kind: "alloc:" + fe.name, What: "resident memory of the flag-parsing process out of proportion to its input",
				Input: probe{Entry: fe.name, Text: fmt.Sprintf("%d values, %d bytes", len(vals), total)}, Observed: fmt.Sprintf("%d KiB", rss)})
		}
	}
	if err != nil {
		if len(vals) == 1 {
			h.timeouts[fe.name]++
			s.Violate(kit.Violation{Kind: "timeout:" + fe.name, What: "flag parser did not answer: " + err.Error(), Input: mkProbe(fe.name, []byte(vals[0])),
				Key: map[string]interface{}{"entry": fe.name}})
			return
		}
		// bisect towards the value(s) that make the process hang or die
		h.flagBatch(c, fe, vals[:len(vals)/2])
		h.flagBatch(c, fe, vals[len(vals)/2:])
		return
	}
	st := &kit.Stream{Name: fe.name}
	for i, v := range vals {
		o := outs[i]
		if strings.HasPrefix(o, "panic") {
			msg := ""
			if f := strings.Fields(o); len(f) > 1 {
				msg = string(kit.UnHex(f[1]))
			}
			s.Violate(kit.Violation{Kind: "panic:" + fe.name, What: "flag parser panicked", Input: mkProbe(fe.name, []byte(v)), Expected: "value or error", Observed: msg})
			o = "panic"
		}
		s.Count(fe.name + ":" + strings.Fields(o + " _")[0])
		if fe.multi && strings.Contains(v, "\x1f") {
			s.Count(fe.name + ":several values on one flag")
		}
		st.Add(fe.modelOp+" "+fe.flagArgs(v), o)
	}
	st.Diff(c.Driver, s)
}

/* ---------- the run ---------- */

type inproc struct {
	name  string
	valid func(r *kit.Rng) []byte
	pre   func([]byte) []byte
}

// evalBatch: the inputs through the real entry point (worker process), the verdict on each
// answer, and the comparison with the model where one exists.
func (h *harness) evalBatch(c *run.Ctx, e inproc, ins [][]byte, kinds []string, sample bool) {
	s := h.s
	st := &kit.Stream{Name: e.name}
	resps := h.runBatch(e.name, ins)
	for i, in := range ins {
		out := h.judge(e.name, in, resps[i])
		s.Case(keyOf(e.name, in), len(in) > 0)
		s.Count(e.name + ":" + kinds[i] + ":" + strings.Fields(out + " _")[0])
		if e.name != "buckets" {
			s.Count(fmt.Sprintf("%s:mode reuse=%d nil-defaults=%d", e.name, modeOf(in)&1, modeOf(in)>>1&1))
		}
		if len(in) >= 4096 {
			s.Count(e.name + ":len>=4096")
		}
		if len(in) >= 65536 {
			s.Count(e.name + ":len>=65536")
		}
		if sample && i < 1 && e.name != "gob" {
			s.Sample(map[string]interface{}{"entry": e.name, "input": mkProbe(e.name, in).Text, "impl": out})
		}
		if kinds[i] == "valid" && (strings.HasPrefix(out, "err 0") || out == "nil" || out == "err") && e.name != "http_targeter" {
			// the generator of valid documents is wrong (would silently weaken the run)
			s.Diverge(e.name, "valid document rejected: "+mkProbe(e.name, in).Text, out, "accepted")
		}
		switch e.name {
		case "buckets":
			if out == "err" || strings.HasPrefix(out, "ok ") {
				st.Add("hist.unmarshal "+kit.Hex(in), out)
				st.Add("c16.unmarshalidx "+kit.Hex(in), out)
			}
		case "csv":
			if strings.HasPrefix(out, "err ") || strings.HasPrefix(out, "eof ") {
				var results []string
				if resps[i].extra != "" {
					results = strings.Split(resps[i].extra, "|")
				}
				csvCompare(st, in, out, results)
			}
		case "http_targeter":
			longLine := false // the model leaves out bufio.Scanner's 64 KiB token limit
			for _, l := range bytes.Split(in, []byte("\n")) {
				longLine = longLine || len(l) >= 60000
			}
			if f := strings.Fields(out); !longLine && len(f) > 0 && (f[0] == "none" || f[0] == "some") {
				st.Add("c16.httpskip "+kit.Hex(in), f[0])
				if len(f) == 4 { // "some <line> ok= bad=": the offending line is known from the error text
					st.Add("c16.httpskipline "+kit.Hex(in), f[0]+" "+f[1])
				}
			}
		case "json_targeter":
			if f := strings.Fields(out); len(f) > 0 && (f[0] == "none" || f[0] == "some") {
				st.Add("c16.jsonskip "+kit.Hex(in), f[0])
			}
		}
	}
	st.Diff(c.Driver, s)
}

// corpus: defect witnesses and minimised past failures under corpus/C16, run first.
func corpus(c *run.Ctx, h *harness, entries []inproc) {
	files, _ := filepath.Glob(filepath.Join(h.root, "corpus", "C16", "*.json"))
	sort.Strings(files)
	for _, f := range files {
		entry, in := loadProbe(f)
		h.s.Count("corpus")
		if entry == "cmd" {
			replayCmd(c, h, in)
			continue
		}
		for _, e := range entries {
			if e.name == entry {
				if e.pre != nil {
					in = e.pre(in)
				}
				h.evalBatch(c, e, [][]byte{in}, []string{"corpus"}, false)
			}
		}
		for _, fe := range flagEntries {
			if fe.name == entry {
				h.flagBatch(c, fe, []string{string(in)})
			}
		}
	}
}

func loadProbe(path string) (string, []byte) {
	b, err := os.ReadFile(path)
	if err != nil {
		panic(err)
	}
	var rec struct {
		Input probe `json:"input"`
	}
	if err := json.Unmarshal(b, &rec); err != nil {
		panic(err)
	}
	in, err := hex.DecodeString(rec.Input.Hex)
	if err != nil {
		panic(err)
	}
	return rec.Input.Entry, in
}

func runC16(c *run.Ctx, s *kit.Summary) {
	r := kit.NewRng(c.Seed)
	s.Rule = "per entry point: uniformly random bytes; valid documents of the format (results encoded by the repo's own encoders, target files, bucket specs, flag values); structured mutations of valid documents (bit flips, deletions, duplications, truncations, insertions, half swaps, splices of two documents); non-trivial = distinct non-empty input"
	h := &harness{s: s, maxA: map[string][2]uint64{}, timeouts: map[string]int{}, deaths: map[string]int{}}
	h.root, _ = os.Getwd()
	h.self, _ = os.Executable()

	// sandbox: body-file references are confined to this directory (also the working directory)
	h.sandbox = filepath.Join(c.Work, "sandbox")
	if err := os.MkdirAll(h.sandbox, 0o755); err != nil {
		panic(err)
	}
	os.WriteFile(filepath.Join(h.sandbox, "body1.txt"), []byte("hello body"), 0o644)
	os.WriteFile(filepath.Join(h.sandbox, "b.bin"), []byte{0, 1, 2, 255}, 0o644)

	entries := []inproc{
		{"gob", func(r *kit.Rng) []byte { return genResults(r, "gob") }, nil},
		{"csv", func(r *kit.Rng) []byte { return genResults(r, "csv") }, nil},
		{"json", func(r *kit.Rng) []byte { return genResults(r, "json") }, nil},
		{"auto", func(r *kit.Rng) []byte { return genResults(r, r.PickStr([]string{"gob", "csv", "json"})) }, nil},
		{"http_targeter", genHTTPTargets, confine},
		{"json_targeter", genJSONTargets, nil},
		{"buckets", genBuckets, nil},
	}

	if c.Replay != "" {
		replay(c, h, entries)
		return
	}

	corpus(c, h, entries)

	for _, e := range entries {
		// hand-made unusual documents of the format and documents whose sizes straddle the
		// buffer sizes of the readers involved (4096, 65536)
		ex, exKinds := exoticInputs(e.name, r)
		for i := range ex {
			if e.pre != nil {
				ex[i] = e.pre(ex[i])
			}
		}
		h.evalBatch(c, e, ex, exKinds, false)
		// the fixed edge list (nothing, white space in all mixtures, lone delimiters, one digit, one
		// unit, empty lists …): always run, so that such inputs do not depend on the random draw
		ed := edgeInputs(e.name)
		edKinds := make([]string, len(ed))
		for i := range ed {
			edKinds[i] = "edge"
			if e.pre != nil {
				ed[i] = e.pre(ed[i])
			}
		}
		h.evalBatch(c, e, ed, edKinds, false)
	}
	for _, e := range entries {
		n := c.N(8000, 400000)
		const chunk = 50000
		for done := 0; done < n; done += chunk {
			m := n - done
			if m > chunk {
				m = chunk
			}
			ins := make([][]byte, m)
			kinds := make([]string, m)
			for i := range ins {
				var in []byte
				switch k := r.Pick(11); {
				case k < 2:
					in, kinds[i] = gen.RandomBytes(r, 200), "random"
				case k < 4:
					in, kinds[i] = e.valid(r), "valid"
				case k == 10:
					in, kinds[i] = []byte(gen.NumericShapes(r, string(e.valid(r)))), "numeric"
				default:
					in, kinds[i] = gen.MutateDoc(r, e.valid(r), e.valid(r)), "mutated"
				}
				if e.pre != nil {
					in = e.pre(in)
				}
				ins[i] = in
			}
			h.evalBatch(c, e, ins, kinds, done == 0)
		}
	}
	for k, v := range h.maxA {
		s.Extra["max_alloc:"+k] = map[string]uint64{"bytes": v[0], "input_len": v[1]}
	}

	for _, fe := range flagEntries {
		n := c.N(6000, 300000)
		vals := append(edgeFlagValues(fe.name), fe.fixed...)
		h.s.CountN(fe.name+":fixed edge values", len(vals))
		one := func() string {
			switch k := r.Pick(12); {
			case k < 2:
				return string(gen.RandomBytes(r, 60))
			case k < 4:
				return fe.valid(r)
			case k < 7:
				// numbers in unusual shapes: long digit runs around a decimal point, leading zeros,
				// repeated digits, exponents
				v := gen.NumericShapes(r, fe.valid(r))
				if r.Chance(0.2) {
					v = gen.NumericShapes(r, v)
				}
				return v
			}
			return string(gen.MutateDoc(r, []byte(fe.valid(r)), []byte(fe.valid(r))))
		}
		for i := 0; i < n; i++ {
			v := one()
			if fe.multi && r.Chance(0.4) { // state of the flag value carried from one Set to the next
				for j := 0; j <= r.Pick(3); j++ {
					v += "\x1f" + one()
				}
			}
			s.Case(keyOf(fe.name, []byte(v)), len(v) > 0)
			vals = append(vals, v)
			if len(vals) == 20000 {
				h.flagBatch(c, fe, vals)
				vals = nil
			}
		}
		if len(vals) > 0 {
			h.flagBatch(c, fe, vals)
		}
	}

	reportTypes(c, h, r)
	commandRuns(c, h, kit.NewRng(c.Seed+16))
}

// reportTypes: the `--type` / `--buckets` handling of the report command (typ[4:] behind
// len(typ) < 4) through the in-process report command of the vegeta binary.
func reportTypes(c *run.Ctx, h *harness, r *kit.Rng) {
	s := h.s
	in := filepath.Join(c.Work, "results.json")
	rr := kit.NewRng(7)
	if err := os.WriteFile(in, genResults(rr, "json"), 0o644); err != nil {
		panic(err)
	}
	out := filepath.Join(c.Work, "report.out")
	types := []string{"", "t", "tex", "text", "json", "plot", "hdrplot", "hist", "his", "hist[", "hist[]", "hist[0,1ms]", "hist[1ms,2ms,3ms]", "hist[0,", "histogram", "text ", "TEXT", "hist[a]", "hist[1ms", "jsonx", "hist]", "hist[[]]"}
	var ops, mops []string
	for i := 0; i < c.N(300, 5000); i++ {
		t := r.PickStr(types)
		if r.Chance(0.3) {
			t = gen.Mutate(r, t)
		}
		if r.Chance(0.1) {
			t = "hist" + string(genBuckets(r))
		}
		b := ""
		if r.Chance(0.3) {
			b = string(genBuckets(r))
			if r.Chance(0.3) {
				b = gen.Mutate(r, b)
			}
		}
		if strings.ContainsAny(t+b, "\n\r") {
			continue
		}
		s.Case(keyOf("report_type", []byte(t+"\x00"+b)), len(t) > 0)
		ops = append(ops, fmt.Sprintf("report %s 0 %s %s %s", kit.HexS(t), kit.HexS(b), kit.HexS(out), kit.HexS(in)))
		mops = append(mops, "c16.reporttype "+kit.HexS(t)+" "+kit.HexS(b))
	}
	outs, _, err := runVegetaTimed(c.Vegeta, ops, deadline+time.Duration(len(ops))*20*time.Millisecond)
	if err != nil {
		s.Diverge("report_type", "(vegeta-verif failure)", err.Error(), "")
		return
	}
	st := &kit.Stream{Name: "report_type"}
	for i, o := range outs {
		f := strings.Fields(o)
		cls := o
		switch {
		case strings.HasPrefix(o, "panic"):
			cls = "panic"
			s.Violate(kit.Violation{Kind: "panic:report_type", What: "report panicked on its --type/--buckets value", Input: probe{Entry: "report_type", Text: ops[i]}, Observed: o})
		case len(f) == 2 && f[0] == "err":
			msg := string(kit.UnHex(f[1]))
			switch {
			case strings.HasPrefix(msg, "invalid report type"):
				cls = "err invalid"
			case strings.HasPrefix(msg, "The plot reporter"):
				cls = "err plot"
			case strings.HasPrefix(msg, "bad buckets"):
				cls = "err badbuckets"
			case strings.HasPrefix(msg, "unknown report type"):
				cls = "err unknown"
			case strings.HasPrefix(msg, "time: "):
				cls = "err duration"
			default:
				cls = "err other " + msg
			}
		}
		s.Count("report_type:" + strings.Join(strings.Fields(cls + " _")[:2], "_"))
		st.Add(mops[i], cls)
	}
	st.Diff(c.Driver, s)
}

func replay(c *run.Ctx, h *harness, entries []inproc) {
	entry, in := loadProbe(c.Replay)
	h.s.Case("replay", true)
	if entry == "cmd" {
		replayCmd(c, h, in)
		return
	}
	for _, e := range entries {
		if e.name == entry {
			if e.pre != nil {
				in = e.pre(in)
			}
			h.evalBatch(c, e, [][]byte{in}, []string{"replay"}, true)
			return
		}
	}
	for _, fe := range flagEntries {
		if fe.name == entry {
			h.flagBatch(c, fe, []string{string(in)})
			return
		}
	}
	panic("unknown entry in replay: " + entry)
}
