package main

// Hand-made unusual documents per entry point (what byte-level mutation of valid documents
// reaches only rarely: wrong field counts, wrong JSON types, null where a container is
// expected, lines without their separator, lone markers) and documents whose sizes straddle
// the buffer sizes of the readers involved: bufio's 4096 and bufio.Scanner's 64 KiB token limit.

import (
	"bytes"
	"encoding/base64"
	"fmt"
	"strings"

	vegeta "github.com/tsenart/vegeta/v12/lib"
	"vharness/kit"
)

var straddle = []int{4095, 4096, 4097, 65535, 65536, 65537}

func csvLine(fields []string) string {
	out := make([]string, len(fields))
	for i, f := range fields {
		if strings.ContainsAny(f, ",\"\n\r") || strings.HasPrefix(f, " ") {
			f = `"` + strings.ReplaceAll(f, `"`, `""`) + `"`
		}
		out[i] = f
	}
	return strings.Join(out, ",") + "\n"
}

func exoticCSV(r *kit.Rng) [][]byte {
	hdr := base64.StdEncoding.EncodeToString([]byte("Content-Type: text/plain\r\nX-Id: 1\r\n\r\n"))
	good := []string{"1700000000000000000", "200", "1500000", "10", "20", "", "aGVsbG8=", "atk", "7", "GET", "http://localhost/", hdr}
	var out [][]byte
	// every field count from 0 to 14, alone and after / before a good record
	for k := 0; k <= 14; k++ {
		f := append([]string{}, good...)
		for len(f) < k {
			f = append(f, "x")
		}
		line := csvLine(f[:k])
		out = append(out, []byte(line), []byte(csvLine(good)+line), []byte(line+csvLine(good)))
	}
	// each column replaced by something it cannot be
	junk := []string{"", "x", "-1", "1.5", "99999999999999999999", "+5", " 7", "0x10", "\xff", "!!!", "=", "AAA", hdr[:len(hdr)-3], base64.StdEncoding.EncodeToString([]byte("no blank line")),
		base64.StdEncoding.EncodeToString([]byte(": v\r\n\r\n")), base64.StdEncoding.EncodeToString([]byte("k\r\n\r\n")), base64.StdEncoding.EncodeToString([]byte(" lead: v\r\n\r\n"))}
	for i := range good {
		for _, j := range junk {
			f := append([]string{}, good...)
			f[i] = j
			out = append(out, []byte(csvLine(f)))
		}
	}
	// a record with headers followed by one without (state carried from one record to the next), and the reverse
	noh := append([]string{}, good...)
	noh[11], noh[6], noh[5] = "", "", ""
	out = append(out, []byte(csvLine(good)+csvLine(noh)+csvLine(good)), []byte(csvLine(noh)+csvLine(good)+csvLine(noh)))
	out = append(out, []byte("\"unterminated,1,2\n"), []byte("a\"b,c\n"), []byte("\n\n\n"), []byte(",,,,,,,,,,,\n"), []byte(strings.Repeat(",", 11)), []byte("\r\n"), []byte("\xef\xbb\xbf"+csvLine(good)))
	return out
}

var jsonResultLines = []string{
	`{}`, `null`, `[]`, `""`, `5`, `true`, `{`, `}`, `{"attack"`, `{"attack":}`, `{"attack":"a",}`, `{,}`, `{"a":1,"a":2}`,
	`{"headers":null}`, `{"headers":{}}`, `{"headers":[]}`, `{"headers":{"a":null}}`, `{"headers":{"a":[]}}`, `{"headers":{"a":[null]}}`, `{"headers":{"a":"b"}}`, `{"headers":{"a":[1]}}`,
	`{"headers":{"a":["b"],"a":["c"]}}`, `{"headers":{"":[""]}}`, `{"headers":5}`, `{"headers":"x"}`,
	`{"body":null}`, `{"body":5}`, `{"body":"!!"}`, `{"body":"aGVsbG8"}`, `{"body":""}`, `{"body":[]}`,
	`{"timestamp":null}`, `{"timestamp":5}`, `{"timestamp":"x"}`, `{"timestamp":""}`, `{"timestamp":"2024-01-01T00:00:00Z"}`, `{"timestamp":"9999-99-99T99:99:99Z"}`, `{"timestamp":{}}`,
	`{"code":-1}`, `{"code":70000}`, `{"code":"200"}`, `{"code":1.5}`, `{"code":1e2}`, `{"code":null}`,
	`{"seq":18446744073709551615}`, `{"seq":18446744073709551616}`, `{"seq":-0}`, `{"latency":-9223372036854775808}`, `{"latency":9223372036854775808}`,
	`{"bytes_in":"x","bytes_out":[]}`, `{"error":null,"method":null,"url":null,"attack":null}`, `{"error":5}`,
	`{"unknown":{"deep":[1,{"a":"}"},[[[]]]]},"seq":1}`, `{"unknown":` + strings.Repeat("[", 2000) + `}`, `{"unknown":` + strings.Repeat("[", 300) + strings.Repeat("]", 300) + `,"seq":2}`,
	`{"attack":"\u0000\ud800\udc00\ud800x\"\\\/\b\f\n\r\t"}`, `{"attack":"\u12"}`, `{"attack":"\x"}`, `{"attack":"` + "\xff\xfe" + `"}`, `{"attack":"unterminated`,
	` { "seq" : 1 } `, "{\"seq\":1}\r", `{"seq":1}{"seq":2}`, `{"seq":1} trailing`,
}

func exoticJSONResults(r *kit.Rng) [][]byte {
	var out [][]byte
	var buf bytes.Buffer
	enc := vegeta.NewJSONEncoder(&buf)
	res := genResult(r)
	res.Headers = map[string][]string{"A": {"1", "2"}, "b": {"x"}}
	enc.Encode(&res)
	good := buf.String()
	for _, l := range jsonResultLines {
		out = append(out, []byte(l+"\n"), []byte(l), []byte(good+l+"\n"+good), []byte(l+"\n"+good))
	}
	out = append(out, []byte("\n"), []byte("\n\n"+good), []byte(good+good+good))
	return out
}

var httpTargetDocs = []string{
	"GET", "GET\n", "GET \n", "GET  \n", "get http://x\n", "GET http://x", "GET http://x\n", "GET  http://x\n", "GET\thttp://x\n", "G3T http://x\n", "GET http://x\nnocolon\n",
	"GET http://x\n:v\n", "GET http://x\nk:\n", "GET http://x\nk: \t \n", "GET http://x\n : \n", "GET http://x\n@\n", "GET http://x\n@ \n", "@body1.txt\n", "@\n", "GET http://x\n@missing\n",
	"GET http://x\n@body1.txt\nPOST http://y\n", "GET http://x\n@body1.txt\nH: v\n", "GET http://x\nH: v\n@b.bin\n\nGET http://y\n",
	"GET http://x\n# c\n\nPOST http://y\n", "GET http://x\n# c\n# d\n", "GET http://x\n#c\nH: v\n#d\n@body1.txt\n", "# only comments\n#\n#", "#", "\n", " \n\t\n", "\r\n\r\n",
	"GET http://x\nH: v\nGET http://y\n", "GET http://x\nGET http://y\nGET http://z", "GET http://x\r\nH: v\r\n@b.bin\r\n\r\nPOST http://y\r\n", "GET http://x\n\n\n\nH: v\n",
	"\xff\xfe\n", "GET \xff\n", "GET http://x\n\xff: \xfe\n", "GET http://x\nH:v:w:\n", "GET http://x\nH: v\nH: w\nh: x\n", "GET http://x\nX-Default: mine\nx-lower: mine\n",
	"GET http://[::1\n", "GET :\n", "GET /relative\n", "GET http://x y\n", "POST http://x\n\n@body1.txt\n", "\u00a0GET http://x\u2003\n\u00a0H\u00a0:\u00a0v\u00a0\n", "GET http://x\n\u0085\nGET http://y\n",
}

func exoticHTTPTargets(r *kit.Rng) [][]byte {
	var out [][]byte
	for _, d := range httpTargetDocs {
		out = append(out, []byte(d), []byte(d+"\nGET http://after/\nA: b\n"), []byte("GET http://before/\nA: b\n\n"+d))
	}
	return out
}

var jsonTargetLines = []string{
	`{}`, `null`, `[]`, `"x"`, `5`, `{`, `}`, `{"method":"GET"}`, `{"url":"http://x"}`, `{"method":"","url":""}`, `{"method":"GET","url":""}`, `{"method":null,"url":null}`, `{"method":5,"url":[]}`,
	`{"method":"GET","url":"http://x"}`, `{"method":"GET","url":"http://x","header":null}`, `{"method":"GET","url":"http://x","header":{}}`, `{"method":"GET","url":"http://x","header":{"a":null}}`,
	`{"method":"GET","url":"http://x","header":{"a":[]}}`, `{"method":"GET","url":"http://x","header":{"a":[null]}}`, `{"method":"GET","url":"http://x","header":{"a":"b"}}`, `{"method":"GET","url":"http://x","header":[]}`,
	`{"method":"GET","url":"http://x","header":{"X-Default":["mine"],"x-lower":["mine"],"X-Kept":["mine"]}}`, `{"method":"GET","url":"http://x","header":{"a":["1"],"a":["2"]}}`,
	`{"method":"GET","url":"http://x","body":null}`, `{"method":"GET","url":"http://x","body":""}`, `{"method":"GET","url":"http://x","body":"!!"}`, `{"method":"GET","url":"http://x","body":5}`, `{"method":"GET","url":"http://x","body":"aGk="}`,
	`{"method":"GET","url":"http://x","unknown":{"a":[1,2,{"b":"}"}]}}`, `{"method":"GET","url":"http://x"} trailing`, `{"method":"GET","url":"http://x"}{"method":"PUT","url":"http://y"}`,
	`{"method":"G\u0000T","url":"\ud800"}`, `{"method":"GET","url":"http://x","header":` + strings.Repeat("{\"a\":", 500) + `}`, ` {"method" : "GET" , "url" : "http://x" } `,
}

func exoticJSONTargets(r *kit.Rng) [][]byte {
	var out [][]byte
	good := `{"method":"POST","url":"http://good/","header":{"A":["1"]},"body":"aGk="}` + "\n"
	for _, l := range jsonTargetLines {
		out = append(out, []byte(l+"\n"), []byte(l), []byte(good+l+"\n"+good), []byte(l+"\r\n"+good))
	}
	out = append(out, []byte("\n"), []byte(" \n\t\n\r\n"), []byte("\n\n"+good), []byte(good+"   "), []byte(good+"\n\n\n"))
	return out
}

var bucketDocs = []string{"", "[", "]", "[]", "[ ]", "[,]", "[0]", "[0,]", "[,0]", "[0,,1ms]", "[1ms,1ms]", "[2ms,1ms]", "[-1ms]", "[9999999999h]", "[0,1]", "[1ms", "1ms]", "[[1ms]]", "[1ms]]", "][",
	"[\u00a01ms\u2003,\u00852ms]", "[+1ms]", "[.5s]", "[1.s]", "[1e3ms]", "[0,1ms,10ms]x", " [0,1ms]", "[0;1ms]", "[\xff]"}

func exoticBuckets(r *kit.Rng) [][]byte {
	var out [][]byte
	for _, d := range bucketDocs {
		out = append(out, []byte(d))
	}
	return out
}

// large: a valid document padded so that its total size (or the size of one of its lines) is
// just below, at, or just above 4096 and 65536 bytes.
func largeDocs(entry string, r *kit.Rng) [][]byte {
	var out [][]byte
	for _, n := range straddle {
		pad := strings.Repeat("a", n)
		switch entry {
		case "gob", "csv", "json", "auto":
			format := entry
			if entry == "auto" {
				format = r.PickStr([]string{"gob", "csv", "json"})
			}
			var buf bytes.Buffer
			var enc vegeta.Encoder
			switch format {
			case "gob":
				enc = vegeta.NewEncoder(&buf)
			case "csv":
				enc = vegeta.NewCSVEncoder(&buf)
			default:
				enc = vegeta.NewJSONEncoder(&buf)
			}
			// every variable-length field large in turn, then all of them
			small := genResult(r)
			bigs := make([]vegeta.Result, 6)
			for i := range bigs {
				bigs[i] = genResult(r)
			}
			bigs[0].Body = []byte(pad)
			bigs[1].Error = pad
			bigs[2].Headers = map[string][]string{"X-Big": {pad}, "X-Small": {"v"}}
			bigs[3].URL = "http://x/" + pad
			bigs[4].Attack, bigs[4].Method = pad, pad[:n/8]
			bigs[5].Body, bigs[5].Error, bigs[5].URL = []byte(pad), pad[:n/2], "http://x/"+pad[:n/2]
			bigs[5].Headers = map[string][]string{"X-Big": {pad[:n/2], pad[:n/2]}}
			big := bigs[(n+len(out))%len(bigs)]
			if n == 65537 {
				big = bigs[2] // the headers column is the one decoded through nested readers
			}
			for _, x := range []*vegeta.Result{&small, &big, &small} {
				if err := enc.Encode(x); err != nil {
					panic(err)
				}
			}
			doc := buf.Bytes()
			out = append(out, doc, doc[:len(doc)-len(doc)/3], append(append([]byte{}, doc[:n]...), doc[n/2:]...))
		case "http_targeter":
			out = append(out,
				[]byte("GET http://x/"+pad+"\nH: v\n\nPOST http://y/\n"),
				[]byte("GET http://x/\nLong: "+pad+"\nShort: v\n\nPOST http://y/\n"),
				[]byte("# "+pad+"\nGET http://x/\n"+pad+"\n"),
				[]byte(strings.Repeat("GET http://x/\nH: v\n\n", n/20+1)))
		case "json_targeter":
			out = append(out,
				[]byte(fmt.Sprintf(`{"method":"GET","url":"http://x/%s"}`+"\n"+`{"method":"PUT","url":"http://y/"}`+"\n", pad)),
				[]byte(fmt.Sprintf(`{"method":"GET","url":"http://x/","body":"%s"}`+"\n", base64.StdEncoding.EncodeToString([]byte(pad)))),
				[]byte(strings.Repeat(" ", n)+"\n"+`{"method":"GET","url":"http://x/"}`+"\n"),
				[]byte(`{"method":"GET","url":"http://x/","header":{"A":["`+pad+`"]}}`))
		case "buckets":
			out = append(out, []byte("[0,"+strings.Repeat("1ms,", n/4)+"2ms]"), []byte("["+pad+"]"), []byte("[0"+strings.Repeat(" ", n)+",1ms]"))
		}
	}
	return out
}

func exoticInputs(entry string, r *kit.Rng) ([][]byte, []string) {
	var ex [][]byte
	switch entry {
	case "csv":
		ex = exoticCSV(r)
	case "json":
		ex = exoticJSONResults(r)
	case "auto":
		ex = append(exoticCSV(r), exoticJSONResults(r)...)
	case "http_targeter":
		ex = exoticHTTPTargets(r)
	case "json_targeter":
		ex = exoticJSONTargets(r)
	case "buckets":
		ex = exoticBuckets(r)
	}
	kinds := make([]string, len(ex))
	for i := range kinds {
		kinds[i] = "exotic"
	}
	lg := largeDocs(entry, r)
	for range lg {
		kinds = append(kinds, "large")
	}
	return append(ex, lg...), kinds
}
