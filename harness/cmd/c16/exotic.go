package main

// Hand-made unusual documents per entry point (what byte-level mutation of valid documents
// reaches only rarely: wrong field counts, wrong JSON types, null where a container is
// expected, lines without their separator, lone markers) and documents whose sizes straddle
// the buffer sizes of the readers involved: bufio's 4096 and bufio.Scanner's 64 KiB token limit.

import (
	"bytes"
	"encoding/base64"
	"fmt"
	"strings"

	vegeta "github.com/tsenart/vegeta/v12/lib"
	"vharness/kit"
)

var straddle = []int{4095, 4096, 4097, 65535, 65536, 65537}

func csvLine(fields []string) string {
	out := make([]string, len(fields))
	for i, f := range fields {
		if strings.ContainsAny(f, ",\"\n\r") || strings.HasPrefix(f, " ") {
			f = `"` + strings.ReplaceAll(f, `"`, `""`) + `"`
		}
		out[i] = f
	}
	return strings.Join(out, ",") + "\n"
}

func exoticCSV(r *kit.Rng) [][]byte {
	hdr := base64.StdEncoding.EncodeToString([]byte("Content-Type: text/plain\r\nX-Id: 1\r\n\r\n"))
	good := []string{"1700000000000000000", "200", "1500000", "10", "20", "", "aGVsbG8=", "atk", "7", "GET", "http://localhost/", hdr}
	var out [][]byte
	// every field count from 0 to 14, alone and after / before a good record
	for k := 0; k <= 14; k++ {
		f := append([]string{}, good...)
		for len(f) < k {
			f = append(f, "x")
		}
		line := csvLine(f[:k])
		out = append(out, []byte(line), []byte(csvLine(good)+line), []byte(line+csvLine(good)))
	}
	// each column replaced by something it cannot be
	junk := []string{"", "x", "-1", "1.5", "99999999999999999999", "+5", " 7", "0x10", "\xff", "!!!", "=", "AAA", hdr[:len(hdr)-3], base64.StdEncoding.EncodeToString([]byte("no blank line")),
		base64.StdEncoding.EncodeToString([]byte(": v\r\n\r\n")), base64.StdEncoding.EncodeToString([]byte("k\r\n\r\n")), base64.StdEncoding.EncodeToString([]byte(" lead: v\r\n\r\n"))}
	for i := range good {
		for _, j := range junk {
			f := append([]string{}, good...)
			f[i] = j
			out = append(out, []byte(csvLine(f)))
		}
	}
	// a record with headers followed by one without (state carried from one record to the next), and the reverse
	noh := append([]string{}, good...)
	noh[11], noh[6], noh[5] = "", "", ""
	out = append(out, []byte(csvLine(good)+csvLine(noh)+csvLine(good)), []byte(csvLine(noh)+csvLine(good)+csvLine(noh)))
	out = append(out, []byte("\"unterminated,1,2\n"), []byte("a\"b,c\n"), []byte("\n\n\n"), []byte(",,,,,,,,,,,\n"), []byte(strings.Repeat(",", 11)), []byte("\r\n"), []byte("\xef\xbb\xbf"+csvLine(good)))
	return out
}

var jsonResultLines = []string{
	`{}`, `null`, `[]`, `""`, `5`, `true`, `{`, `}`, `{"attack"`, `{"attack":}`, `{"attack":"a",}`, `{,}`, `{"a":1,"a":2}`,
	`{"headers":null}`, `{"headers":{}}`, `{"headers":[]}`, `{"headers":{"a":null}}`, `{"headers":{"a":[]}}`, `{"headers":{"a":[null]}}`, `{"headers":{"a":"b"}}`, `{"headers":{"a":[1]}}`,
	`{"headers":{"a":["b"],"a":["c"]}}`, `{"headers":{"":[""]}}`, `{"headers":5}`, `{"headers":"x"}`,
	`{"body":null}`, `{"body":5}`, `{"body":"!!"}`, `{"body":"aGVsbG8"}`, `{"body":""}`, `{"body":[]}`,
	`{"timestamp":null}`, `{"timestamp":5}`, `{"timestamp":"x"}`, `{"timestamp":""}`, `{"timestamp":"2024-01-01T00:00:00Z"}`, `{"timestamp":"9999-99-99T99:99:99Z"}`, `{"timestamp":{}}`,
	`{"code":-1}`, `{"code":70000}`, `{"code":"200"}`, `{"code":1.5}`, `{"code":1e2}`, `{"code":null}`,
	`{"seq":18446744073709551615}`, `{"seq":18446744073709551616}`, `{"seq":-0}`, `{"latency":-9223372036854775808}`, `{"latency":9223372036854775808}`,
	`{"bytes_in":"x","bytes_out":[]}`, `{"error":null,"method":null,"url":null,"attack":null}`, `{"error":5}`,
	`{"unknown":{"deep":[1,{"a":"}"},[[[]]]]},"seq":1}`, `{"unknown":` + strings.Repeat("[", 2000) + `}`, `{"unknown":` + strings.Repeat("[", 300) + strings.Repeat("]", 300) + `,"seq":2}`,
	`{"attack":"\u0000\ud800\udc00\ud800x\"\\\/\b\f\n\r\t"}`, `{"attack":"\u12"}`, `{"attack":"\x"}`, `{"attack":"` + "\xff\xfe" + `"}`, `{"attack":"unterminated`,
	` { "seq" : 1 } `, "{\"seq\":1}\r", `{"seq":1}{"seq":2}`, `{"seq":1} trailing`,
}

func exoticJSONResults(r *kit.Rng) [][]byte {
	var out [][]byte
	var buf bytes.Buffer
	enc := vegeta.NewJSONEncoder(&buf)
	res := genResult(r)
	res.Headers = map[string][]string{"A": {"1", "2"}, "b": {"x"}}
	enc.Encode(&res)
	good := buf.String()
	for _, l := range jsonResultLines {
		out = append(out, []byte(l+"\n"), []byte(l), []byte(good+l+"\n"+good), []byte(l+"\n"+good))
	}
	out = append(out, []byte("\n"), []byte("\n\n"+good), []byte(good+good+good))
	return out
}

var httpTargetDocs = []string{
	"GET", "GET\n", "GET \n", "GET  \n", "get http://x\n", "GET http://x", "GET http://x\n", "GET  http://x\n", "GET\thttp://x\n", "G3T http://x\n", "GET http://x\nnocolon\n",
	"GET http://x\n:v\n", "GET http://x\nk:\n", "GET http://x\nk: \t \n", "GET http://x\n : \n", "GET http://x\n@\n", "GET http://x\n@ \n", "@body1.txt\n", "@\n", "GET http://x\n@missing\n",
	"GET http://x\n@body1.txt\nPOST http://y\n", "GET http://x\n@body1.txt\nH: v\n", "GET http://x\nH: v\n@b.bin\n\nGET http://y\n",
	"GET http://x\n# c\n\nPOST http://y\n", "GET http://x\n# c\n# d\n", "GET http://x\n#c\nH: v\n#d\n@body1.txt\n", "# only comments\n#\n#", "#", "\n", " \n\t\n", "\r\n\r\n",
	"GET http://x\nH: v\nGET http://y\n", "GET http://x\nGET http://y\nGET http://z", "GET http://x\r\nH: v\r\n@b.bin\r\n\r\nPOST http://y\r\n", "GET http://x\n\n\n\nH: v\n",
	"\xff\xfe\n", "GET \xff\n", "GET http://x\n\xff: \xfe\n", "GET http://x\nH:v:w:\n", "GET http://x\nH: v\nH: w\nh: x\n", "GET http://x\nX-Default: mine\nx-lower: mine\n",
	"GET http://[::1\n", "GET :\n", "GET /relative\n", "GET http://x y\n", "POST http://x\n\n@body1.txt\n", "\u00a0GET http://x\u2003\n\u00a0H\u00a0:\u00a0v\u00a0\n", "GET http://x\n\u0085\nGET http://y\n",
}

func exoticHTTPTargets(r *kit.Rng) [][]byte {
	var out [][]byte
	for _, d := range httpTargetDocs {
		out = append(out, []byte(d), []byte(d+"\nGET http://after/\nA: b\n"), []byte("GET http://before/\nA: b\n\n"+d))
	}
	return out
}

var jsonTargetLines = []string{
	`{}`, `null`, `[]`, `"x"`, `5`, `{`, `}`, `{"method":"GET"}`, `{"url":"http://x"}`, `{"method":"","url":""}`, `{"method":"GET","url":""}`, `{"method":null,"url":null}`, `{"method":5,"url":[]}`,
	`{"method":"GET","url":"http://x"}`, `{"method":"GET","url":"http://x","header":null}`, `{"method":"GET","url":"http://x","header":{}}`, `{"method":"GET","url":"http://x","header":{"a":null}}`,
	`{"method":"GET","url":"http://x","header":{"a":[]}}`, `{"method":"GET","url":"http://x","header":{"a":[null]}}`, `{"method":"GET","url":"http://x","header":{"a":"b"}}`, `{"method":"GET","url":"http://x","header":[]}`,
	`{"method":"GET","url":"http://x","header":{"X-Default":["mine"],"x-lower":["mine"],"X-Kept":["mine"]}}`, `{"method":"GET","url":"http://x","header":{"a":["1"],"a":["2"]}}`,
	`{"method":"GET","url":"http://x","body":null}`, `{"method":"GET","url":"http://x","body":""}`, `{"method":"GET","url":"http://x","body":"!!"}`, `{"method":"GET","url":"http://x","body":5}`, `{"method":"GET","url":"http://x","body":"aGk="}`,
	`{"method":"GET","url":"http://x","unknown":{"a":[1,2,{"b":"}"}]}}`, `{"method":"GET","url":"http://x"} trailing`, `{"method":"GET","url":"http://x"}{"method":"PUT","url":"http://y"}`,
	`{"method":"G\u0000T","url":"\ud800"}`, `{"method":"GET","url":"http://x","header":` + strings.Repeat("{\"a\":", 500) + `}`, ` {"method" : "GET" , "url" : "http://x" } `,
}

func exoticJSONTargets(r *kit.Rng) [][]byte {
	var out [][]byte
	good := `{"method":"POST","url":"http://good/","header":{"A":["1"]},"body":"aGk="}` + "\n"
	for _, l := range jsonTargetLines {
		out = append(out, []byte(l+"\n"), []byte(l), []byte(good+l+"\n"+good), []byte(l+"\r\n"+good))
	}
	out = append(out, []byte("\n"), []byte(" \n\t\n\r\n"), []byte("\n\n"+good), []byte(good+"   "), []byte(good+"\n\n\n"))
	return out
}

var bucketDocs = []string{"", "[", "]", "[]", "[ ]", "[,]", "[0]", "[0,]", "[,0]", "[0,,1ms]", "[1ms,1ms]", "[2ms,1ms]", "[-1ms]", "[9999999999h]", "[0,1]", "[1ms", "1ms]", "[[1ms]]", "[1ms]]", "][",
	"[\u00a01ms\u2003,\u00852ms]", "[+1ms]", "[.5s]", "[1.s]", "[1e3ms]", "[0,1ms,10ms]x", " [0,1ms]", "[0;1ms]", "[\xff]"}

func exoticBuckets(r *kit.Rng) [][]byte {
	var out [][]byte
	for _, d := range bucketDocs {
		out = append(out, []byte(d))
	}
	return out
}

// large: a valid document padded so that its total size (or the size of one of its lines) is
// just below, at, or just above 4096 and 65536 bytes.
func largeDocs(entry string, r *kit.Rng) [][]byte {
	var out [][]byte
	for _, n := range straddle {
		pad := strings.Repeat("a", n)
		switch entry {
		case "gob", "csv", "json", "auto":
			format := entry
			if entry == "auto" {
				format = r.PickStr([]string{"gob", "csv", "json"})
			}
			var buf bytes.Buffer
			var enc vegeta.Encoder
			switch format {
			case "gob":
				enc = vegeta.NewEncoder(&buf)
			case "csv":
				enc = vegeta.NewCSVEncoder(&buf)
			default:
				enc = vegeta.NewJSONEncoder(&buf)
			}
			// every variable-length field large in turn, then all of them
			small := genResult(r)
			bigs := make([]vegeta.Result, 6)
			for i := range bigs {
				bigs[i] = genResult(r)
			}
			bigs[0].Body = []byte(pad)
			bigs[1].Error = pad
			bigs[2].Headers = map[string][]string{"X-Big": {pad}, "X-Small": {"v"}}
			bigs[3].URL = "http://x/" + pad
			bigs[4].Attack, bigs[4].Method = pad, pad[:n/8]
			bigs[5].Body, bigs[5].Error, bigs[5].URL = []byte(pad), pad[:n/2], "http://x/"+pad[:n/2]
			bigs[5].Headers = map[string][]string{"X-Big": {pad[:n/2], pad[:n/2]}}
			big := bigs[(n+len(out))%len(bigs)]
			if n == 65537 {
				big = bigs[2] // the headers column is the one decoded through nested readers
			}
			for _, x := range []*vegeta.Result{&small, &big, &small} {
				if err := enc.Encode(x); err != nil {
					panic(err)
				}
			}
			doc := buf.Bytes()
			out = append(out, doc, doc[:len(doc)-len(doc)/3], append(append([]byte{}, doc[:n]...), doc[n/2:]...))
		case "http_targeter":
			out = append(out,
				[]byte("GET http://x/"+pad+"\nH: v\n\nPOST http://y/\n"),
				[]byte("GET http://x/\nLong: "+pad+"\nShort: v\n\nPOST http://y/\n"),
				[]byte("# "+pad+"\nGET http://x/\n"+pad+"\n"),
				[]byte(strings.Repeat("GET http://x/\nH: v\n\n", n/20+1)))
		case "json_targeter":
			out = append(out,
				[]byte(fmt.Sprintf(`{"method":"GET","url":"http://x/%s"}`+"\n"+`{"method":"PUT","url":"http://y/"}`+"\n", pad)),
				[]byte(fmt.Sprintf(`{"method":"GET","url":"http://x/","body":"%s"}`+"\n", base64.StdEncoding.EncodeToString([]byte(pad)))),
				[]byte(strings.Repeat(" ", n)+"\n"+`{"method":"GET","url":"http://x/"}`+"\n"),
				[]byte(`{"method":"GET","url":"http://x/","header":{"A":["`+pad+`"]}}`))
		case "buckets":
			out = append(out, []byte("[0,"+strings.Repeat("1ms,", n/4)+"2ms]"), []byte("["+pad+"]"), []byte("[0"+strings.Repeat(" ", n)+",1ms]"))
		}
	}
	return out
}

func exoticInputs(entry string, r *kit.Rng) ([][]byte, []string) {
	var ex [][]byte
	switch entry {
	case "csv":
		ex = exoticCSV(r)
	case "json":
		ex = exoticJSONResults(r)
	case "auto":
		ex = append(exoticCSV(r), exoticJSONResults(r)...)
	case "http_targeter":
		ex = exoticHTTPTargets(r)
	case "json_targeter":
		ex = exoticJSONTargets(r)
	case "buckets":
		ex = exoticBuckets(r)
	}
	kinds := make([]string, len(ex))
	for i := range kinds {
		kinds[i] = "exotic"
	}
	lg := largeDocs(entry, r)
	for range lg {
		kinds = append(kinds, "large")
	}
	return append(ex, lg...), kinds
}

/* ---------- fixed edge inputs: run in front of the random part of EVERY stream, on every run ---------- */

// edgeAtoms: format-independent edge texts: nothing, white space in all mixtures, lone
// delimiters, brackets / quotes / commas / colons only, one digit, one unit, empty lists.
func edgeAtoms() []string {
	out := []string{""}
	ws := []string{" ", "\t", "\r", "\n"}
	// every mixture of the four ASCII blanks up to three bytes
	level := []string{""}
	for n := 1; n <= 3; n++ {
		var next []string
		for _, p := range level {
			for _, w := range ws {
				next = append(next, p+w)
			}
		}
		out = append(out, next...)
		level = next
	}
	// four to eight bytes: runs of one blank, alternations, the usual line ends, blanks Go's unicode.IsSpace knows beyond ASCII
	uni := []string{"\u00a0", "\u2028", "\u0085", "\v", "\f", "\u3000", "\ufeff"}
	for n := 4; n <= 8; n++ {
		for _, w := range ws {
			out = append(out, strings.Repeat(w, n))
		}
		out = append(out, strings.Repeat(" \t", n/2), strings.Repeat("\r\n", n/2), (" \r\n " + strings.Repeat(" ", 8))[:n], ("\t\n" + strings.Repeat("\t \n", 3))[:n])
	}
	for _, u := range uni {
		out = append(out, u, u+u, " "+u, u+" ", " "+u+" ", u+"\n", "\t"+u+"\r\n", strings.Repeat(u, 4))
	}
	// a lone delimiter of every kind, doubled, between blanks
	for _, d := range []string{",", ":", ";", "[", "]", "{", "}", "(", ")", "\"", "'", "`", "/", "\\", "@", "#", "=", "-", "+", ".", "*", "?", "&", "%", "|", "<", ">", "\x00", "\x1f", "\x7f", "\xff", "\xc2"} {
		out = append(out, d, d+d, " "+d, d+" ", " "+d+" ", d+"\n", "\n"+d)
	}
	out = append(out,
		"[]", "[ ]", "[\t]", "[\n]", "[  ]", " []", "[] ", " [] ", "[]\n", "[,]", "[,,]", "[ , ]", "[:]", "[]:", "[]:]", "[[", "]]", "][", "[[]]", "[]]", "[[]", "[ ", " ]",
		"{}", "{ }", "{}\n", "{{", "}}", "{,}", "{:}", "{\"\"}", "{\"\":}", "()", "\"\"", "\" \"", "''", "\"\"\"", "\",\"", "\":\"",
		"::", ":::", "::::", ":::::", ",,", ",,,", ",,,,,,,,,,,", ",,,,,,,,,,,,", ": :", ", ,", ":,", ",:", ";;", "//", "://", "@@", "##", "--", "-+", "..", "...", "=,", "=:",
		"0", "1", "9", "-0", "-1", "+1", "00", "0.", ".0", "0.0", "1e", "e1", "0x", "1_", "١", "１",
		"s", "ms", "ns", "us", "µs", "μs", "m", "h", "d", "B", "b", "K", "KB", "kb", "MB", "GB", "k", "M", "G", "T", "P", "E", "Z",
		"0s", "1s", "1ms", "0B", "1B", "1K", "1/", "/1", "1/s", "/s", "0/", "0/0", "1/0", "/", "1:", ":1", "1:1", "a:", ":a", "a", "A", "Z", "aa", "AB", "GET", "GET ", "GET\n",
		"[0]", "[ 0 ]", "[0,]", "[,0]", "[0,0]", "[1ms]", "[0,1ms]", "[s]", "[,1ms]", "[1ms,]", "[1ms,,2ms]", "[ 1ms , 2ms ]",
		"null", "true", "nil", "NaN", "inf", "infinity", "-inf", "\r", "\r\r", "\n\n\n\n", "\r\n\r\n", "\n \n", "\xef\xbb\xbf", "\xef\xbb\xbf\n", "\xff\xfe", "\x00\x00", "\x00\n")
	return out
}

// edgeInputs: the atoms as they are and — for the line and record formats — closed by a line end
// and put behind a valid first line, plus the delimiters the entry's own format knows.
func edgeInputs(entry string) [][]byte {
	atoms := edgeAtoms()
	var out [][]byte
	for _, a := range atoms {
		out = append(out, []byte(a))
	}
	var own, firstLine []string
	switch entry {
	case "http_targeter":
		firstLine = []string{"GET http://x/\n"}
		own = []string{"GET", "GET ", "GET  ", "GET\t", "GET\n", "G", "G ", "GE T", "get http://x/", "GET http://x/", "GET http://x/\n:", "GET http://x/\n: ", "GET http://x/\n:v", "GET http://x/\nK:", "GET http://x/\nK",
			"GET http://x/\n@", "GET http://x/\n@\n", "GET http://x/\n@ ", "@", "@\n", "@x", "#", "#\n", "# c", "# c\n", "//", "// c\n", "GET http://x/\n#", "GET http://x/\n# c", "GET http://x/\n\n#", "#\n#", "GET http://x/\n\n", "ABC", "ABC\n", "A", "A\n", "AZ "}
	case "json_targeter":
		firstLine = []string{`{"method":"GET","url":"http://x/"}` + "\n"}
		own = []string{"{}", "{}\n", "{}{}", "[]", "[]\n", "null", "null\n", "\"\"", "0", "{\"method\":\"\"}", "{\"method\":\"GET\"}", "{\"url\":\"\"}", "{\"method\":\"GET\",\"url\":\"\"}", "{\"method\":\"GET\",\"url\":\"http://x/\",\"header\":{}}",
			"{\"method\":\"GET\",\"url\":\"http://x/\",\"header\":{\"A\":[]}}", "{\"method\":\"GET\",\"url\":\"http://x/\",\"header\":{\"A\":[1]}}", "{\"method\":\"GET\",\"url\":\"http://x/\",\"header\":{\"A\":\"v\"}}",
			"{\"method\":\"GET\",\"url\":\"http://x/\",\"header\":{\"A\":[null]}}", "{\"method\":\"GET\",\"url\":\"http://x/\",\"header\":{\"A\":[\"v\",1]}}", "{\"method\":\"GET\",\"url\":\"http://x/\",\"header\":{\"A\":null}}", "{\"method\":\"GET\",\"url\":\"http://x/\",\"header\":null}",
			"{\"method\":\"GET\",\"url\":\"http://x/\",\"body\":\"\"}", "{\"method\":\"GET\",\"url\":\"http://x/\",\"body\":\"=\"}", "{\"method\":1}", "{\"method\":null,\"url\":null}"}
	case "csv", "auto":
		firstLine = []string{"1,200,1,0,0,,,a,0,GET,http://x/,\n"}
		own = []string{"1,200,1,0,0,,,a,0,GET,http://x/,", "1,200,1,0,0,,,a,0,GET,http://x/", "1,200,1,0,0,,,a,0,GET", "1,200,1,0,0,,,a", "1,200,1,0,0,,,a,0", "1,200,1,0,0,,GET,http://x/,a,0,", "1,200,1,0,0,,,a,0,GET,http://x/,,",
			",,,,,,,,,,,\n", "0,0,0,0,0,,,,,0,,\n", "1,200,1,0,0,,,a,0,GET,http://x/,Og==\n", "1,200,1,0,0,,,a,0,GET,http://x/,QTo=\n", "1,200,1,0,0,,,a,0,GET,http://x/,QQ==\n", "1,200,1,0,0,,,a,0,GET,http://x/,QTogdgo=\n",
			"1,200,1,0,0,,,a,0,GET,http://x/,QTogdgpCOg==\n", "1,200,1,0,0,,,a,0,GET,http://x/,Cg==\n", "1,200,1,0,0,,,a,0,GET,http://x/,DQo=\n", "1,200,1,0,0,,,a,0,GET,http://x/,QTogdg0KDQo=\n", "1,200,1,0,0,,=,a,0,GET,http://x/,=\n", "\"", "\"\n", "\"\"\"", "a\"b"}
		if entry == "csv" {
			break
		}
		fallthrough
	case "json":
		firstLine = append(firstLine, `{"attack":"a","seq":0,"code":200,"timestamp":"2020-01-01T00:00:00Z","latency":1,"bytes_out":0,"bytes_in":0,"error":"","body":null,"method":"GET","url":"http://x/","headers":null}`+"\n")
		own = append(own, "{}", "{}\n", "{}{}", "[]", "null", "{\"timestamp\":1}", "{\"timestamp\":\"\"}", "{\"timestamp\":\"\\\"\"}", "{\"timestamp\":null}", "{\"timestamp\":\"1\"}", "{\"timestamp\":\"2020-01-01T00:00:00Z\"}", "{\"timestamp\":0.5}", "{\"timestamp\":{}}",
			"{\"timestamp\":[]}", "{\"timestamp\":true}", "{\"timestamp\":\"T\"}", "{\"timestamp\":-}", "{\"latency\":\"\"}", "{\"code\":-1}", "{\"code\":65536}", "{\"body\":\"=\"}", "{\"headers\":{\"A\":[1]}}", "{\"headers\":{\"A\":\"v\"}}", "{\"headers\":[]}", "{\"seq\":-1}", "{\"seq\":18446744073709551616}")
	case "gob":
		own = []string{"\x00", "\x01\x00", "\x03\xff\x82\x00", "\x7f", "\xff\xff\xff\xff", "\x80", "\xf8\x00"}
	case "buckets":
		own = []string{"[0,1ms]", " [0,1ms]", "[0,1ms] ", " [0,1ms] ", "\t[0,1ms]\n", "[0,1ms]]", "[[0,1ms]", "[0;1ms]", "[0 1ms]", "[0,1ms,]", "[,]", "[ , ]", "[0,,1ms]", "[-1ms]", "[1ms,0]", "[1ms,1ms]", "[0,0]", "[1]", "[ms]", "[1 ms]", "0,1ms", "[0,1ms", "0,1ms]", "(0,1ms)", "{0,1ms}", "[\u00a00,1ms]", "[0,1ms\u2028]"}
	}
	for _, o := range own {
		out = append(out, []byte(o))
	}
	if len(firstLine) > 0 {
		for _, fl := range firstLine {
			for _, a := range atoms {
				if len(a) <= 4 { // the short atoms behind and in front of a valid first record, and closed by a line end
					out = append(out, []byte(fl+a), []byte(fl+a+"\n"), []byte(a+"\n"+fl))
				}
			}
		}
	}
	return out
}

// edgeFlagValues: the fixed list in front of every flag value stream.
func edgeFlagValues(name string) []string {
	out := edgeAtoms()
	switch name {
	case "flag_rate":
		out = append(out, "1/", "1/ ", "1/\t", "/1s", "1//", "1/1", "1/s/", "1/1s/1s", " 1/s", "1/s ", "1 /s", "1/ s", "0/s", "0/0s", "1/0s", "1/-1s", "-1/s", "+1/s", "1/+1s", "1/.s", "1/.5s", "1/1.s", "1/µ", "1/µs", "1/μs", "1/d", "1/ms1", "infinity/", "/infinity", "infinity/s", "Infinity", "INFINITY", "inf")
	case "flag_header":
		out = append(out, "K:v", "K: v", "K :v", " K:v", "K:v ", "K::", ":K", "K:\x00", "\x00:v", "K\n:v", "K:v\n", "K:v\r\nX:y")
	case "flag_max_body":
		out = append(out, "-1", "-1 ", " -1", "-01", "-1B", "-2", "0", "00", "0B", "0 B", "1 B", "1  B", "1\tB", "1B ", " 1B", "1.B", "1.0B", ".5B", "0.0", "0.00000000000000000000", "1.10000000000000000000MB", "18446744073709551615", "18446744073709551616", "9223372036854775807", "9223372036854775808", "16EB", "8EB", "1kB", "1Kb", "1KiB", "1 kilobyte", "1 kilo", "1 k")
	case "flag_connect_to":
		out = append(out, "a:1:b:2", "a:1:b:", "a::b:2", ":1:b:2", "a:1::2", "a:1:b:2:", ":a:1:b:2", "[::1]:1:b:2", "a:1:[::1]:2", "[]:1:b:2", "a:1:[]:2", "[:1:b:2", "]:1:b:2", "a:1:b:2\n", " a:1:b:2", "a:1:b:2 ", "a:1:b:-1", "a:1:b:65536", "a:1:b:99999999999999999999")
	case "flag_dns_ttl":
		out = append(out, "-1", "-1 ", "-01", "-1s", "-1ns", "0", "0s", "00", "1", "1s", "1 s", "1s ", " 1s", "1ss", "1s1", "1.s", ".s", ".1s", "1.1.1s", "9223372036854775807ns", "9223372036854775808ns", "2562047h47m16.854775807s", "2562047h47m16.854775808s", "1µs", "1μs", "1us",
			// more than 22 accepted fraction digits: Go's scale is the iterated float product 10·10·… (thorough soak 8, seed 501)
			"59m52.0000000"+strings.Repeat("9", 70)+"s", "0.00000000000000000000001s", "1.0000000"+strings.Repeat("9", 18)+"s",
			"0."+strings.Repeat("0", 30)+"9999999999999999h", "0."+strings.Repeat("0", 23)+"5h", "2.00000000000000000000000001m", "0.0000000000000000000000922337203685477580h")
	case "flag_resolvers":
		out = append(out, "1.1.1.1", "1.1.1.1:", "1.1.1.1:53", "1.1.1.1:053", "1.1.1.1:0", "1.1.1.1:65536", ":53", "[::1]", "[::1]:", "[::1]:53", "::1", "::1:53", "[::1]x", "[::1]:x", "[::1]53", "[]", "[]:53", "[:]:53", "[", "]", "[[::1]]:53", "[::1", "::1]", "[::1]]", "[::1]:53:", "1.1.1.1,", ",1.1.1.1", "1.1.1.1,,8.8.8.8", "1.1.1.1, 8.8.8.8", " 1.1.1.1", "1.1.1.1 ", "[::1%lo]:53", "[fe80::1%]:53", "::", "[::]", ":::", "::::53")
	}
	return out
}
