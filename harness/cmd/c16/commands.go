package main

// The result decoders as the commands assemble them (file.go `decoder(files)`: one
// auto-detected decoder per file argument, combined round-robin): the real `vegeta encode`,
// `vegeta report` and `vegeta plot` commands run on lists of input files — in particular
// inputs without a single byte: one, several, mixed with non-empty ones, as standard input.
//
// Oracle (the property text): whatever the bytes, the command comes back (a value or an error
// in bounded time: hard deadline), it does not loop without consuming input (the output is
// bounded by the input), it does not panic, and it does not die on memory. Whether a given
// list is accepted or refused is not judged.

import (
	"bytes"
	"context"
	"encoding/hex"
	"encoding/json"
	"fmt"
	"os"
	"os/exec"
	"path/filepath"
	"strconv"
	"strings"
	"sync"
	"syscall"
	"time"

	vegeta "github.com/tsenart/vegeta/v12/lib"

	"vharness/gen"
	"vharness/kit"
	"vharness/run"
)

const (
	cmdDeadline = 15 * time.Second
	cmdOutA     = 64      // output bytes per input byte
	cmdOutB     = 8 << 20 // constant part (the plot page carries its scripts)
)

type cmdInput struct {
	Stdin bool   `json:"stdin,omitempty"` // this argument is the word "stdin"
	Hex   string `json:"hex"`
	Kind  string `json:"kind"`
}

// cmdCase: one command line. No inputs at all = no file argument (the command reads standard
// input, which is then StdinHex).
type cmdCase struct {
	Cmd      string     `json:"cmd"`
	Flags    []string   `json:"flags"`
	Inputs   []cmdInput `json:"inputs"`
	StdinHex string     `json:"stdin_hex"` // content of standard input
}

func (k *cmdCase) describe() string {
	var parts []string
	for _, in := range k.Inputs {
		n := len(in.Hex) / 2
		name := "file"
		if in.Stdin {
			name = "stdin"
			n = len(k.StdinHex) / 2
		}
		parts = append(parts, fmt.Sprintf("%s(%d bytes, %s)", name, n, in.Kind))
	}
	if len(k.Inputs) == 0 {
		parts = append(parts, fmt.Sprintf("no file argument, standard input of %d bytes", len(k.StdinHex)/2))
	}
	return "vegeta " + k.Cmd + " " + strings.Join(k.Flags, " ") + " " + strings.Join(parts, " ")
}

func (k *cmdCase) probe() probe {
	b, _ := json.Marshal(k)
	return probe{Entry: "cmd", Hex: hex.EncodeToString(b), Text: k.describe()}
}

func (k *cmdCase) inputLen() int {
	n := len(k.StdinHex) / 2
	for _, in := range k.Inputs {
		if !in.Stdin {
			n += len(in.Hex) / 2
		}
	}
	return n
}

// capWriter counts what the command writes and stops the command beyond the cap.
type capWriter struct {
	mu     sync.Mutex
	n, cap int64
	over   bool
	cancel context.CancelFunc
}

func (w *capWriter) Write(p []byte) (int, error) {
	w.mu.Lock()
	defer w.mu.Unlock()
	w.n += int64(len(p))
	if w.n > w.cap && !w.over {
		w.over = true
		w.cancel()
	}
	return len(p), nil
}

type cmdResult struct {
	status string // ok | err | timeout | flood | panic | died
	out    int64
	stderr string
	wall   time.Duration
}

var cmdSeq struct {
	sync.Mutex
	n int
}

// runCmdCase runs the real command line in a scratch directory, address space limited like the
// parser worker.
func runCmdCase(c *run.Ctx, k *cmdCase) cmdResult {
	cmdSeq.Lock()
	cmdSeq.n++
	dir := filepath.Join(c.Work, "cmd", strconv.Itoa(cmdSeq.n))
	cmdSeq.Unlock()
	if err := os.MkdirAll(dir, 0o755); err != nil {
		panic(err)
	}
	defer os.RemoveAll(dir)
	args := []string{"-c", `ulimit -v ` + strconv.Itoa(asLimit>>10) + `; exec "$@"`, "sh", c.Vegeta, k.Cmd}
	args = append(args, k.Flags...)
	for i, in := range k.Inputs {
		if in.Stdin {
			args = append(args, "stdin")
			continue
		}
		name := fmt.Sprintf("in%d.bin", i)
		b, _ := hex.DecodeString(in.Hex)
		if err := os.WriteFile(filepath.Join(dir, name), b, 0o644); err != nil {
			panic(err)
		}
		args = append(args, name)
	}
	stdin, _ := hex.DecodeString(k.StdinHex)
	ctx, cancel := context.WithTimeout(context.Background(), cmdDeadline)
	defer cancel()
	cmd := exec.CommandContext(ctx, "sh", args...)
	cmd.Dir = dir
	cmd.Env = append(os.Environ(), "GOTRACEBACK=all")
	cmd.Stdin = bytes.NewReader(stdin)
	cw := &capWriter{cap: int64(cmdOutA*k.inputLen() + cmdOutB), cancel: cancel}
	cmd.Stdout = cw
	eb := &headBuf{}
	cmd.Stderr = eb
	cmd.SysProcAttr = &syscall.SysProcAttr{Setpgid: true}
	cmd.Cancel = func() error { return syscall.Kill(-cmd.Process.Pid, syscall.SIGKILL) }
	cmd.WaitDelay = 2 * time.Second
	t0 := time.Now()
	err := cmd.Run()
	res := cmdResult{out: cw.n, stderr: eb.all(), wall: time.Since(t0)}
	switch {
	case cw.over:
		res.status = "flood"
	case ctx.Err() != nil:
		res.status = "timeout"
	case strings.Contains(res.stderr, "panic: ") || strings.Contains(res.stderr, "[recovered]"):
		res.status = "panic"
	case strings.Contains(res.stderr, "fatal error: ") || strings.Contains(res.stderr, "goroutine 1 ["):
		res.status = "died"
	case err != nil:
		res.status = "err"
	default:
		res.status = "ok"
	}
	return res
}

func (h *harness) judgeCmd(k *cmdCase, r cmdResult) {
	s := h.s
	entry := "cmd_" + k.Cmd
	key := map[string]interface{}{"entry": entry}
	errText := r.stderr
	if len(errText) > 700 {
		errText = errText[:700]
	}
	switch r.status {
	case "timeout":
		s.Violate(kit.Violation{Kind: "timeout:" + entry, What: "the command did not come back on these input files (run alone, hard deadline)", Input: k.probe(),
			Expected: "value or error in bounded time", Observed: fmt.Sprintf("no exit after %s; %d bytes written so far", cmdDeadline, r.out), Key: key})
	case "flood":
		s.Violate(kit.Violation{Kind: "hang:" + entry, What: "the command keeps producing output without consuming input", Input: k.probe(),
			Expected: fmt.Sprintf("the command ends; at most %d*%d+%d bytes of output", cmdOutA, k.inputLen(), cmdOutB),
			Observed: fmt.Sprintf("more than %d bytes written for %d bytes of input (stopped after %s)", r.out, k.inputLen(), r.wall.Round(time.Millisecond)), Key: key})
	case "panic":
		s.Violate(kit.Violation{Kind: "panic:" + entry, What: "the command panicked", Input: k.probe(), Expected: "value or error", Observed: errText, Key: key})
	case "died":
		kind := "crash:" + entry
		key["fatal"] = true
		key["cause"] = "unknown"
		if strings.Contains(r.stderr, "out of memory") || strings.Contains(r.stderr, "cannot allocate memory") {
			key["cause"] = causeOf(r.stderr)
			over := true
			if m := reRequested.FindStringSubmatch(r.stderr); m != nil {
				if n, err := strconv.ParseUint(m[1], 10, 64); err == nil {
					key["requested_bytes"] = n
					over = n > allocA*uint64(k.inputLen())+allocB
				}
			}
			if over {
				kind = "alloc:" + entry
				if key["cause"] == "gob_map_size" {
					kind = "alloc:auto" // the same allocation as through DecoderFor in process (entry `auto`)
				}
			}
		}
		s.Violate(kit.Violation{Kind: kind, What: "the command died with a fatal error (address space limited to " + strconv.Itoa(asLimit>>30) + " GiB)", Input: k.probe(),
			Expected: "value or error, memory proportional to the input", Observed: errText, Key: key})
	}
}

/* ---------- generation ---------- */

func hx(b []byte) string { return hex.EncodeToString(b) }

// genCmdInput: one input. Documents are the repo's own encodings of random results, their
// truncations, tiny scraps, blanks, random bytes and mutations of the text encodings (gob
// mutations stay with the in-process entry, which classifies gob's own allocations).
func genCmdInput(r *kit.Rng) ([]byte, string) {
	switch k := r.Pick(20); {
	case k < 7:
		return nil, "empty"
	case k < 12:
		f := r.PickStr([]string{"gob", "csv", "json"})
		return genResults(r, f), "valid " + f
	case k < 14:
		return []byte(r.PickStr([]string{"\n", " ", "\n\n", "\r\n", "\t", "\x00", "{", "0", ","})), "scrap"
	case k < 16:
		f := r.PickStr([]string{"gob", "csv", "json"})
		d := genResults(r, f)
		return d[:r.Pick(len(d)+1)], "truncated " + f
	case k < 18:
		return gen.RandomBytes(r, 200), "random"
	default:
		f := r.PickStr([]string{"csv", "json"})
		return gen.MutateDoc(r, genResults(r, f), genResults(r, f)), "mutated " + f
	}
}

var cmdFlagSets = map[string][][]string{
	"encode": {{}, {"-to=json"}, {"-to=csv"}, {"-to=gob"}},
	"report": {{}, {"-type=json"}, {"-type=hist[0,1ms,1s]"}, {"-type=hdrplot"}, {"-every=1ms"}},
	"plot":   {{}, {"-threshold=10"}},
}

func genCmdCases(c *run.Ctx, r *kit.Rng) []*cmdCase {
	var out []*cmdCase
	valid := func(f string) cmdInput { return cmdInput{Hex: hx(genResults(r, f)), Kind: "valid " + f} }
	empty := cmdInput{Kind: "empty"}
	shapes := func() [][]cmdInput {
		return [][]cmdInput{
			{empty},
			{empty, empty},
			{empty, empty, empty},
			{empty, valid("gob")},
			{valid("json"), empty},
			{valid("csv"), empty, valid("gob")},
			{empty, empty, valid("json")},
			{valid("gob")},
			{valid("gob"), valid("csv"), valid("json")},
			{{Stdin: true, Kind: "empty"}},
			{{Stdin: true, Kind: "empty"}, valid("csv")},
			{empty, {Stdin: true, Kind: "empty"}},
			{}, // no file argument: standard input, empty
			{{Hex: hx([]byte("\n")), Kind: "scrap"}},
			{{Hex: hx([]byte(" ")), Kind: "scrap"}, empty},
		}
	}
	for _, cmd := range []string{"encode", "report", "plot"} {
		for i, sh := range shapes() {
			fl := cmdFlagSets[cmd][i%len(cmdFlagSets[cmd])]
			out = append(out, &cmdCase{Cmd: cmd, Flags: fl, Inputs: sh})
		}
		// every flag set on the all-empty lists
		for _, fl := range cmdFlagSets[cmd] {
			out = append(out, &cmdCase{Cmd: cmd, Flags: fl, Inputs: []cmdInput{empty}}, &cmdCase{Cmd: cmd, Flags: fl, Inputs: []cmdInput{empty, empty}}, &cmdCase{Cmd: cmd, Flags: fl})
		}
	}
	for i := 0; i < c.N(120, 6000); i++ {
		cmd := r.PickStr([]string{"encode", "report", "plot"})
		k := &cmdCase{Cmd: cmd, Flags: cmdFlagSets[cmd][r.Pick(len(cmdFlagSets[cmd]))]}
		n := r.Pick(5) // 0 = standard input only
		usedStdin := false
		allValid := r.Chance(0.35) // lists the command accepts as a whole
		for j := 0; j < n; j++ {
			b, kind := genCmdInput(r)
			if allValid {
				f := r.PickStr([]string{"gob", "csv", "json"})
				b, kind = genResults(r, f), "valid "+f
			}
			if !usedStdin && r.Chance(0.1) {
				usedStdin = true
				k.Inputs = append(k.Inputs, cmdInput{Stdin: true, Kind: kind})
				k.StdinHex = hx(b)
				continue
			}
			k.Inputs = append(k.Inputs, cmdInput{Hex: hx(b), Kind: kind})
		}
		if n == 0 {
			b, _ := genCmdInput(r)
			k.StdinHex = hx(b)
		}
		out = append(out, k)
	}
	return out
}

// commandRuns: the cases, a few at a time; a case that did not end well is run once more alone
// before anything is attributed to it.
func commandRuns(c *run.Ctx, h *harness, r *kit.Rng) {
	cases := genCmdCases(c, r)
	results := make([]cmdResult, len(cases))
	var wg sync.WaitGroup
	sem := make(chan struct{}, 6)
	for i := range cases {
		wg.Add(1)
		sem <- struct{}{}
		go func(i int) {
			defer wg.Done()
			defer func() { <-sem }()
			results[i] = runCmdCase(c, cases[i])
		}(i)
	}
	wg.Wait()
	bad := 0
	st := &kit.Stream{Name: "cmd"}
	for i, k := range cases {
		res := results[i]
		if res.status != "ok" && res.status != "err" {
			if bad >= 6 { // every one of them costs a deadline
				h.s.Skipped["command runs after six that did not end well"]++
				continue
			}
			bad++
			res = runCmdCase(c, k) // alone
		}
		h.countCmd(k, res)
		h.judgeCmd(k, res)
		// the assembly against the model (one decoder per file or the command fails as a whole): whether
		// a decoder is detected for an input is the library's answer, computed here for the kinds of
		// input that are safe to decode in this process
		if res.status == "ok" || res.status == "err" {
			flags, safe := []string{}, true
			ins := k.Inputs
			if len(ins) == 0 {
				ins = []cmdInput{{Stdin: true, Kind: "stdin"}}
			}
			for _, in := range ins {
				b, _ := hex.DecodeString(in.Hex)
				if in.Stdin {
					b, _ = hex.DecodeString(k.StdinHex)
				}
				if strings.HasPrefix(in.Kind, "random") || strings.HasPrefix(in.Kind, "mutated") {
					safe = false
					break
				}
				if vegeta.DecoderFor(bytes.NewReader(b)) != nil {
					flags = append(flags, "1")
				} else {
					flags = append(flags, "0")
				}
			}
			if safe {
				impl := fmt.Sprintf("decoders %d", len(ins))
				if strings.Contains(res.stderr, "can't detect encoding") {
					impl = "err"
				}
				st.Add(fmt.Sprintf("c16.assemble %d %s", len(flags), strings.Join(flags, " ")), impl)
				h.s.Count("cmd:assembly compared with the model:" + strings.Fields(impl)[0])
			}
		}
	}
	// the library's combiner over zero decoders (what the commands never build): compared with the model only
	for _, n := range []int{1, 2, 5} {
		st.Add(fmt.Sprintf("c16.rrzero %d", n), rrZero(n))
	}
	st.Diff(c.Driver, h.s)
}

// rrZero: n calls of NewRoundRobinDecoder() with no decoder at all.
func rrZero(n int) string {
	done := make(chan string, 1)
	go func() {
		defer func() {
			if recover() != nil {
				done <- "panic"
			}
		}()
		dec := vegeta.NewRoundRobinDecoder()
		var outs []string
		for i := 0; i < n; i++ {
			var r vegeta.Result
			err := dec.Decode(&r)
			switch {
			case err != nil:
				outs = append(outs, "err")
			case r.Equal(vegeta.Result{}):
				outs = append(outs, "nothing")
			default:
				outs = append(outs, "got")
			}
		}
		done <- strings.Join(outs, " ")
	}()
	select {
	case o := <-done:
		return o
	case <-time.After(5 * time.Second):
		return "timeout"
	}
}

func (h *harness) countCmd(k *cmdCase, res cmdResult) {
	s := h.s
	b, _ := json.Marshal(k)
	s.Case(keyOf("cmd", b), true)
	entry := "cmd_" + k.Cmd
	s.Count(entry + ":" + res.status)
	empties, stdin := 0, len(k.Inputs) == 0
	for _, in := range k.Inputs {
		n := len(in.Hex)
		if in.Stdin {
			stdin = true
			n = len(k.StdinHex)
		}
		if n == 0 {
			empties++
		}
	}
	if len(k.Inputs) == 0 && len(k.StdinHex) == 0 {
		empties++
	}
	switch {
	case empties == 0:
		s.Count("cmd:no empty input")
	case empties == len(k.Inputs) || len(k.Inputs) == 0:
		s.Count(fmt.Sprintf("cmd:all inputs empty (%d)", empties))
	default:
		s.Count("cmd:empty and non-empty inputs mixed")
	}
	if stdin {
		s.Count("cmd:standard input among the inputs")
	}
}

func replayCmd(c *run.Ctx, h *harness, in []byte) {
	var k cmdCase
	if err := json.Unmarshal(in, &k); err != nil {
		panic(err)
	}
	res := runCmdCase(c, &k)
	h.countCmd(&k, res)
	h.judgeCmd(&k, res)
	h.s.Sample(map[string]interface{}{"entry": "cmd", "input": k.describe(), "impl": res.status, "output_bytes": res.out})
}
