package main

// The real in-process entry points run in a child process (this executable re-executed with
// VH_C16_WORKER=1) whose address space is limited, so that an input that makes a parser
// allocate without bound kills the child, not the harness. Protocol, one line each way:
//
//	-> <entry> <hex input>
//	<- <status> \t <TotalAlloc delta> \t <out> \t <extra>      status = ok | panic

import (
	"bufio"
	"bytes"
	"context"
	"encoding/hex"
	"fmt"
	"io"
	"os"
	"os/exec"
	"runtime"
	"runtime/debug"
	"strconv"
	"strings"
	"sync"
	"syscall"
	"time"

	vegeta "github.com/tsenart/vegeta/v12/lib"
	"vharness/kit"
)

const (
	workerSoftLimit = 1 << 30 // GOMEMLIMIT of the worker
	workerMaxCalls  = 20000   // a worker is replaced after this many inputs
)

type resp struct {
	status string // ok | panic | died | timeout | skipped
	note   string // "death not reproduced" / "timeout not reproduced": the answer comes from a second run of the input alone
	alloc  uint64
	out    string
	extra  string
}

func csvResultLine(r *vegeta.Result) string {
	return fmt.Sprintf("ok %d %d %d %d %d %d %s %s %s %s", r.Timestamp.UnixNano(), r.Code, int64(r.Latency), r.BytesOut, r.BytesIn, r.Seq,
		kit.HexS(r.Error), kit.HexS(r.Attack), kit.HexS(r.Method), kit.HexS(r.URL))
}

func workerCall(entry string, in []byte) (out, extra string) {
	switch entry {
	case "gob":
		return entryGob(in), ""
	case "json":
		return entryJSON(in), ""
	case "auto":
		return entryAuto(in), ""
	case "csv":
		var keep []vegeta.Result
		out = decodeAll(vegeta.NewCSVDecoder(bytes.NewReader(in)), len(in), &keep, modeOf(in))
		lines := make([]string, len(keep))
		for i := range keep {
			lines[i] = csvResultLine(&keep[i])
		}
		return out, strings.Join(lines, "|")
	case "http_targeter":
		return entryHTTPTargeter(in), ""
	case "json_targeter":
		return entryJSONTargeter(in), ""
	case "buckets":
		return entryBuckets(in), ""
	}
	return "bad-entry", ""
}

func workerMain() {
	if v, err := strconv.ParseUint(os.Getenv("VH_C16_AS"), 10, 64); err == nil && v > 0 {
		if err := syscall.Setrlimit(syscall.RLIMIT_AS, &syscall.Rlimit{Cur: v, Max: v}); err != nil {
			fmt.Fprintln(os.Stderr, "worker: setrlimit:", err)
			os.Exit(3)
		}
	}
	if d := os.Getenv("VH_C16_SANDBOX"); d != "" {
		if err := os.Chdir(d); err != nil {
			fmt.Fprintln(os.Stderr, "worker: chdir:", err)
			os.Exit(3)
		}
	}
	diag := os.Getenv("VH_C16_DIAG") == "1"
	if diag {
		runtime.MemProfileRate = 1 // record every allocation: the answer's extra field names the largest one's stack
	}
	// keep the garbage of earlier inputs bounded, so that a later innocent allocation cannot hit the
	// address-space limit: soft memory limit for the collector, memory handed back to the OS after a
	// call that made the process grow, and a fresh process when that does not help or after many calls
	debug.SetMemoryLimit(workerSoftLimit)
	rd := bufio.NewReaderSize(os.Stdin, 1<<20)
	w := bufio.NewWriter(os.Stdout)
	var m0, m1 runtime.MemStats
	calls := 0
	for {
		line, err := rd.ReadString('\n')
		if line = strings.TrimRight(line, "\n"); line != "" {
			f := strings.SplitN(line, " ", 2)
			var in []byte
			if len(f) == 2 && f[1] != "-" {
				in, _ = hex.DecodeString(f[1])
			}
			var out, extra string
			runtime.ReadMemStats(&m0)
			p, msg := kit.Recover(func() { out, extra = workerCall(f[0], in) })
			runtime.ReadMemStats(&m1)
			status := "ok"
			if p {
				status, out = "panic", strings.NewReplacer("\t", " ", "\n", " ").Replace(msg)
			}
			if diag {
				extra = largestAllocStack()
			}
			fmt.Fprintf(w, "%s\t%d\t%s\t%s\n", status, m1.TotalAlloc-m0.TotalAlloc, out, extra)
			w.Flush()
			calls++
			recycle := calls >= workerMaxCalls
			if m1.Sys > workerSoftLimit/2 {
				debug.FreeOSMemory()
				runtime.ReadMemStats(&m1)
				recycle = recycle || m1.Sys-m1.HeapReleased > workerSoftLimit/2
			}
			if recycle && !diag {
				fmt.Fprintln(w, "recycle")
				w.Flush()
				return
			}
		}
		if err != nil {
			return
		}
	}
}

// largestAllocStack: function names (innermost first, '>'-separated) of the allocation site
// with the largest total bytes since the process started (MemProfileRate = 1).
func largestAllocStack() string {
	runtime.GC()
	runtime.GC() // the profile is published two GC cycles after the allocation
	n, _ := runtime.MemProfile(nil, true)
	recs := make([]runtime.MemProfileRecord, n+64)
	n, ok := runtime.MemProfile(recs, true)
	if !ok {
		return "profile-unavailable"
	}
	var best *runtime.MemProfileRecord
	for i := range recs[:n] {
		if best == nil || recs[i].AllocBytes > best.AllocBytes {
			best = &recs[i]
		}
	}
	if best == nil {
		return "no-allocation"
	}
	frames := runtime.CallersFrames(best.Stack())
	var names []string
	for {
		fr, more := frames.Next()
		names = append(names, fr.Function)
		if !more || len(names) > 40 {
			break
		}
	}
	return strconv.FormatInt(best.AllocBytes, 10) + ":" + strings.Join(names, ">")
}

// diagnose re-runs one input in a profiling worker and names the largest allocation site.
func (h *harness) diagnose(entry string, in []byte) string {
	cmd := exec.Command(h.self)
	cmd.Env = append(os.Environ(), "VH_C16_WORKER=1", "VH_C16_DIAG=1", "VH_C16_AS="+strconv.FormatUint(asLimit, 10), "VH_C16_SANDBOX="+h.sandbox)
	cmd.Stdin = strings.NewReader(entry + " " + kit.Hex(in) + "\n")
	out, err := cmd.Output()
	if err != nil {
		return "diagnosis failed: " + err.Error()
	}
	f := strings.SplitN(strings.TrimRight(string(out), "\n"), "\t", 4)
	if len(f) != 4 {
		return "diagnosis failed: malformed answer"
	}
	return f[3]
}

func causeOf(stack string) string {
	switch {
	case strings.Contains(stack, "reflect.MakeMapWithSize") && strings.Contains(stack, "encoding/gob.(*Decoder).decodeMap"):
		return "gob_map_size" // map element count read from the gob stream
	case strings.Contains(stack, "encoding/gob."):
		return "gob_other"
	}
	return "unknown"
}

/* ---------- parent side ---------- */

// headBuf keeps the beginning of the child's stderr: the first lines of a Go fatal error or
// panic say what happened.
type headBuf struct {
	mu sync.Mutex
	b  []byte
}

func (t *headBuf) Write(p []byte) (int, error) {
	t.mu.Lock()
	defer t.mu.Unlock()
	if room := 16384 - len(t.b); room > 0 {
		if len(p) < room {
			room = len(p)
		}
		t.b = append(t.b, p[:room]...)
	}
	return len(p), nil
}

// all returns everything kept (the start of the stack trace of a fatal error).
func (t *headBuf) all() string {
	t.mu.Lock()
	defer t.mu.Unlock()
	return string(t.b)
}

func (t *headBuf) head() string {
	t.mu.Lock()
	defer t.mu.Unlock()
	lines := strings.Split(string(t.b), "\n")
	if len(lines) > 3 {
		lines = lines[:3]
	}
	return strings.Join(lines, " | ")
}

// runAlone: one input in a fresh worker process of its own.
func (h *harness) runAlone(entry string, in []byte) resp {
	ctx, cancel := context.WithTimeout(context.Background(), deadline)
	defer cancel()
	cmd := exec.CommandContext(ctx, h.self)
	cmd.Env = append(os.Environ(), "VH_C16_WORKER=1", "VH_C16_AS="+strconv.FormatUint(asLimit, 10), "VH_C16_SANDBOX="+h.sandbox)
	cmd.Stdin = strings.NewReader(entry + " " + kit.Hex(in) + "\n")
	errBuf := &headBuf{}
	cmd.Stderr = errBuf
	outb, err := cmd.Output()
	if ctx.Err() != nil {
		return resp{status: "timeout"}
	}
	line := strings.SplitN(string(outb), "\n", 2)[0]
	f := strings.SplitN(line, "\t", 4)
	if len(f) != 4 {
		st := "exit"
		if cmd.ProcessState != nil {
			st = cmd.ProcessState.String()
		}
		_ = err
		return resp{status: "died", out: st + ": " + errBuf.head(), extra: errBuf.all()}
	}
	a, _ := strconv.ParseUint(f[1], 10, 64)
	return resp{status: f[0], alloc: a, out: f[2], extra: f[3]}
}

// runBatch sends the inputs to a worker process and collects one answer per input. A worker
// that dies or does not answer within the deadline is replaced; the input it was working on
// gets status "died" / "timeout".
func (h *harness) runBatch(entry string, ins [][]byte) []resp {
	out := make([]resp, len(ins))
	i := 0
	for i < len(ins) {
		// circuit breaker: a change that makes every call hang or kill the process must not make
		// the run take hours; the first few are reported, the rest of the entry point is skipped
		if h.timeouts[entry] >= 2 || h.deaths[entry] >= 25 {
			for ; i < len(ins); i++ {
				out[i] = resp{status: "skipped"}
			}
			break
		}
		cmd := exec.Command(h.self)
		cmd.Env = append(os.Environ(), "VH_C16_WORKER=1", "VH_C16_AS="+strconv.FormatUint(asLimit, 10), "VH_C16_SANDBOX="+h.sandbox)
		stdin, err := cmd.StdinPipe()
		if err != nil {
			panic(err)
		}
		stdout, err := cmd.StdoutPipe()
		if err != nil {
			panic(err)
		}
		errBuf := &headBuf{}
		cmd.Stderr = errBuf
		if err := cmd.Start(); err != nil {
			panic(err)
		}
		start := i
		go func() { // feeder
			w := bufio.NewWriterSize(stdin, 1<<16)
			for _, in := range ins[start:] {
				if _, err := w.WriteString(entry + " " + kit.Hex(in) + "\n"); err != nil {
					break
				}
			}
			w.Flush()
			stdin.Close()
		}()
		lines := make(chan string, 64)
		go func() { // reader
			rd := bufio.NewReaderSize(stdout, 1<<20)
			for {
				l, err := rd.ReadString('\n')
				if l != "" && strings.HasSuffix(l, "\n") {
					lines <- strings.TrimRight(l, "\n")
				}
				if err != nil {
					if err != io.EOF {
						_ = err
					}
					close(lines)
					return
				}
			}
		}()
		timer := time.NewTimer(deadline)
	recv:
		for i < len(ins) {
			if !timer.Stop() {
				select {
				case <-timer.C:
				default:
				}
			}
			timer.Reset(deadline)
			select {
			case l, ok := <-lines:
				if !ok {
					cmd.Wait()
					// the death is attributed to this input only if it happens again when the input runs
					// alone in a fresh process (else: memory pressure left behind by earlier inputs)
					first := cmd.ProcessState.String() + ": " + errBuf.head()
					out[i] = h.runAlone(entry, ins[i])
					if out[i].status == "died" {
						h.deaths[entry]++
					} else {
						out[i].note = "death not reproduced (" + first + ")"
					}
					i++
					break recv
				}
				if l == "recycle" { // the worker asks to be replaced: nothing was lost
					cmd.Wait()
					h.s.Count("worker:recycled")
					break recv
				}
				h.deaths[entry] = 0 // consecutive deaths only
				f := strings.SplitN(l, "\t", 4)
				if len(f) != 4 {
					out[i] = resp{status: "died", out: "malformed worker answer: " + l}
				} else {
					a, _ := strconv.ParseUint(f[1], 10, 64)
					out[i] = resp{status: f[0], alloc: a, out: f[2], extra: f[3]}
				}
				i++
			case <-timer.C:
				cmd.Process.Kill()
				cmd.Wait()
				out[i] = h.runAlone(entry, ins[i])
				if out[i].status == "timeout" {
					h.timeouts[entry]++
				} else {
					out[i].note = "timeout not reproduced"
				}
				i++
				break recv
			}
		}
		if i >= len(ins) {
			stdin.Close()
			cmd.Process.Kill()
			cmd.Wait()
		}
	}
	return out
}
