package main

// C13 — reports over several files equal the report over their union.
//
// Streams:
//   c13.rr (scripted)  NewRoundRobinDecoder over scripted decoders (records, failing calls, EOF),
//                      exact call-by-call comparison with the Lean model; n = 0…7 decoders
//   c13.rr (codecs)    NewRoundRobinDecoder over real gob/CSV/JSON decoders (DecoderFor or the
//                      specific constructor) on in-memory streams of unequal lengths; exact order
//   c13.drain (cli)    the in-process `encode` command over split files: the order of its output
//                      (by source file and sequence number) against the model's drain
// Oracles (independent of the model): every record exactly once, per-input order kept, error
// exactly when all inputs are exhausted and stable afterwards (library level); identical exact
// JSON-report metrics for every split/encoding mix, equal to the directly computed reference
// and to the report over the unsplit file, and the same multiset of records out of `encode`
// (command level).

import (
	"bytes"
	"encoding/json"
	"fmt"
	"io"
	"os"
	"path/filepath"
	"sort"
	"strconv"
	"strings"
	"syscall"
	"time"

	vegeta "github.com/tsenart/vegeta/v12/lib"
	"vharness/gen"
	"vharness/kit"
	"vharness/run"
)

func main() { run.Main("C13", runC13) }

var encodings = []string{"gob", "csv", "json"}

/* ---------- library level: scripted decoders ---------- */

type classErr int

func (e classErr) Error() string { return "class " + strconv.Itoa(int(e)) }

type libCase struct {
	Scripts [][]int64 `json:"scripts"` // item ≥ 0: record id; < 0: failing call with class -item
	Calls   int       `json:"calls"`
}

func scripted(items []int64, src int) vegeta.Decoder {
	i := 0
	return func(r *vegeta.Result) error {
		if i >= len(items) {
			return io.EOF
		}
		it := items[i]
		i++
		if it < 0 {
			return classErr(-it)
		}
		r.Seq = uint64(it)
		r.Attack = strconv.Itoa(src)
		return nil
	}
}

const unset = "\x00unset"

// callTokens calls dec `calls` times with a fresh Result each time (as report/encode do).
func callTokens(dec vegeta.Decoder, calls int, src func(*vegeta.Result) int) []string {
	toks := make([]string, 0, calls)
	for i := 0; i < calls; i++ {
		r := vegeta.Result{Attack: unset}
		var err error
		if p, msg := kit.Recover(func() { err = dec.Decode(&r) }); p {
			toks = append(toks, "panic:"+msg)
			break
		}
		switch e := err.(type) {
		case nil:
			if r.Attack == unset {
				toks = append(toks, "nil")
			} else {
				toks = append(toks, fmt.Sprintf("r%d:%d", src(&r), r.Seq))
			}
		case classErr:
			toks = append(toks, "e"+strconv.Itoa(int(e)))
		default:
			if err == io.EOF {
				toks = append(toks, "e0")
			} else {
				toks = append(toks, "e?"+err.Error())
			}
		}
	}
	return toks
}

func scriptsOp(op string, scripts [][]int64, calls int) string {
	var sb strings.Builder
	sb.WriteString(op + " " + strconv.Itoa(len(scripts)))
	for _, s := range scripts {
		sb.WriteString(" " + kit.Ints(s))
	}
	sb.WriteString(" " + strconv.Itoa(calls))
	return sb.String()
}

func tokensLine(toks []string) string {
	if len(toks) == 0 {
		return "ok 0"
	}
	return fmt.Sprintf("ok %d %s", len(toks), strings.Join(toks, " "))
}

// oracleRR: the statement of C13 on a call-by-call token list, for clean inputs (records only), n ≥ 1.
func oracleRR(s *kit.Summary, inputs [][]int64, toks []string, input interface{}) {
	n := len(inputs)
	total := 0
	for _, in := range inputs {
		total += len(in)
	}
	per := make([][]int64, n)
	ended := -1
	for i, t := range toks {
		if strings.HasPrefix(t, "r") {
			if ended >= 0 {
				s.Violate(kit.Violation{Kind: "rr_record_after_end", What: "a record was returned after the combined decoder had signalled the end", Input: input, Observed: strings.Join(toks, " ")})
				return
			}
			var src int
			var id int64
			fmt.Sscanf(t, "r%d:%d", &src, &id)
			if src < 0 || src >= n {
				s.Violate(kit.Violation{Kind: "rr_foreign_record", What: "record of an unknown input", Input: input, Observed: t})
				return
			}
			per[src] = append(per[src], id)
		} else if ended < 0 {
			// the first answer that is not a record is the end signal; what later calls answer (as long as
			// it is not a record) is not the property's subject
			ended = i
			if t != "e0" {
				s.Violate(kit.Violation{Kind: "rr_end_not_eof", What: "end signalled with something else than io.EOF on clean inputs", Input: input, Observed: t})
				return
			}
		}
	}
	if ended >= 0 && ended != total {
		s.Violate(kit.Violation{Kind: "rr_early_end", What: "end signalled although not all inputs were exhausted (or after too many records)", Input: input,
			Expected: fmt.Sprintf("end at call %d", total), Observed: fmt.Sprintf("end at call %d: %s", ended, strings.Join(toks, " "))})
		return
	}
	if len(toks) > total && ended < 0 {
		s.Violate(kit.Violation{Kind: "rr_no_end", What: "no end signalled after all records", Input: input, Observed: strings.Join(toks, " ")})
		return
	}
	if len(toks) > total {
		for i := range inputs {
			if fmt.Sprint(per[i]) != fmt.Sprint(append([]int64{}, inputs[i]...)) {
				s.Violate(kit.Violation{Kind: "rr_input_order_or_loss", What: "records of one input lost, duplicated or reordered", Input: input,
					Expected: fmt.Sprint(inputs[i]), Observed: fmt.Sprint(per[i])})
				return
			}
		}
	}
}

func genScripts(r *kit.Rng, clean bool) [][]int64 {
	n := r.Pick(8)
	if clean && n == 0 {
		n = 1 + r.Pick(6)
	}
	scripts := make([][]int64, n)
	id := int64(0)
	for i := range scripts {
		var l int
		switch r.Pick(5) {
		case 0:
			l = 0
		case 1:
			l = 1
		case 2:
			l = r.Pick(20)
		default:
			l = r.Pick(6)
		}
		scripts[i] = make([]int64, 0, l)
		for j := 0; j < l; j++ {
			if !clean && r.Chance(0.2) {
				scripts[i] = append(scripts[i], -int64(1+r.Pick(5)))
			} else {
				scripts[i] = append(scripts[i], id)
				if !r.Chance(0.1) { // duplicates across inputs now and then
					id++
				}
			}
		}
	}
	return scripts
}

func runLibScripted(lc libCase, st *kit.Stream, s *kit.Summary, clean bool) {
	decs := make([]vegeta.Decoder, len(lc.Scripts))
	for i, sc := range lc.Scripts {
		decs[i] = scripted(sc, i)
	}
	var dec vegeta.Decoder
	if p, msg := kit.Recover(func() { dec = vegeta.NewRoundRobinDecoder(decs...) }); p {
		st.Add(scriptsOp("c13.rr", lc.Scripts, lc.Calls), "panic:"+msg)
		return
	}
	toks := callTokens(dec, lc.Calls, func(r *vegeta.Result) int { i, _ := strconv.Atoi(r.Attack); return i })
	st.Add(scriptsOp("c13.rr", lc.Scripts, lc.Calls), tokensLine(toks))
	if clean && len(lc.Scripts) >= 1 {
		oracleRR(s, lc.Scripts, toks, lc)
	}
}

/* ---------- library level: real decoders ---------- */

type codecInput struct {
	Enc     string           `json:"enc"`
	Detect  bool             `json:"detect"` // through DecoderFor (needs ≥ 1 record) or the specific constructor
	Records []gen.ResultSpec `json:"records"`
}

type codecCase struct {
	Inputs []codecInput `json:"inputs"`
}

func encodeAll(enc string, rs []vegeta.Result) []byte {
	var buf bytes.Buffer
	var e vegeta.Encoder
	switch enc {
	case "gob":
		e = vegeta.NewEncoder(&buf)
	case "csv":
		e = vegeta.NewCSVEncoder(&buf)
	default:
		e = vegeta.NewJSONEncoder(&buf)
	}
	for i := range rs {
		r := rs[i]
		if err := e.Encode(&r); err != nil {
			panic("encode: " + err.Error())
		}
	}
	return buf.Bytes()
}

func decoderOf(enc string, rd io.Reader) vegeta.Decoder {
	switch enc {
	case "gob":
		return vegeta.NewDecoder(rd)
	case "csv":
		return vegeta.NewCSVDecoder(rd)
	}
	return vegeta.NewJSONDecoder(rd)
}

func genCodecCase(r *kit.Rng) codecCase {
	k := 1 + r.Pick(6)
	var cc codecCase
	seq := uint64(0)
	for i := 0; i < k; i++ {
		in := codecInput{Enc: encodings[r.Pick(3)], Detect: r.Chance(0.6)}
		var l int
		switch r.Pick(5) {
		case 0:
			l = 1
		case 1:
			l = 0
		case 2:
			l = 1 + r.Pick(15)
		default:
			l = 1 + r.Pick(5)
		}
		if l == 0 {
			in.Detect = false
		}
		for j := 0; j < l; j++ {
			in.Records = append(in.Records, gen.InterResult(r, seq, -1))
			seq++
		}
		cc.Inputs = append(cc.Inputs, in)
	}
	return cc
}

func runLibCodecs(cc codecCase, st *kit.Stream, s *kit.Summary) {
	srcOf := map[uint64]int{}
	orig := map[uint64]vegeta.Result{}
	scripts := make([][]int64, len(cc.Inputs))
	decs := make([]vegeta.Decoder, len(cc.Inputs))
	total := 0
	for i, in := range cc.Inputs {
		rs := make([]vegeta.Result, len(in.Records))
		scripts[i] = make([]int64, len(in.Records))
		for j, sp := range in.Records {
			rs[j] = sp.ToResult()
			srcOf[sp.Seq] = i
			orig[sp.Seq] = rs[j]
			scripts[i][j] = int64(sp.Seq)
		}
		total += len(rs)
		rd := bytes.NewReader(encodeAll(in.Enc, rs))
		if in.Detect {
			decs[i] = vegeta.DecoderFor(rd)
			if decs[i] == nil {
				s.Skipped["lib.codecs:DecoderFor returned nil for a well-formed stream (C08's subject)"]++
				return
			}
		} else {
			decs[i] = decoderOf(in.Enc, rd)
		}
	}
	dec := vegeta.NewRoundRobinDecoder(decs...)
	calls := total + 3
	toks := make([]string, 0, calls)
	for i := 0; i < calls; i++ {
		var r vegeta.Result
		var err error
		if p, msg := kit.Recover(func() { err = dec.Decode(&r) }); p {
			toks = append(toks, "panic:"+msg)
			break
		}
		switch {
		case err == nil:
			toks = append(toks, fmt.Sprintf("r%d:%d", srcOf[r.Seq], r.Seq))
			if o, ok := orig[r.Seq]; !ok || !o.Equal(r) {
				s.Violate(kit.Violation{Kind: "rr_record_altered", What: "a record came out of the combined decoder different from what was encoded", Input: cc,
					Expected: fmt.Sprintf("%+v", o), Observed: fmt.Sprintf("%+v", r)})
			}
		case err == io.EOF:
			toks = append(toks, "e0")
		default:
			toks = append(toks, "e?"+err.Error())
		}
	}
	st.Add(scriptsOp("c13.rr", scripts, calls), tokensLine(toks))
	oracleRR(s, scripts, toks, cc)
}

/* ---------- command level ---------- */

type cliCase struct {
	Results []gen.ResultSpec `json:"results"`
	Parts   [][]int          `json:"parts"` // indices into Results, per file, in file order
	Encs    []string         `json:"encodings"`
	To      string           `json:"to"`
	// inputs delivered through a named pipe instead of a regular file (same bytes): a pipe has size 0
	// and returns short reads
	Fifo []bool `json:"fifo,omitempty"`
}

// fifoFeeder writes `data` into the named pipe `path` once a reader has opened it; cancel releases it.
func fifoFeeder(path string, data []byte, cancel <-chan struct{}, done chan<- struct{}) {
	defer func() { done <- struct{}{} }()
	for {
		f, err := os.OpenFile(path, os.O_WRONLY|syscall.O_NONBLOCK, 0)
		if err == nil {
			f.Write(data)
			f.Close()
			return
		}
		select {
		case <-cancel:
			return
		case <-time.After(time.Millisecond):
		}
	}
}

// reference metrics, computed directly from the result set (order-free definitions)
type refMetrics struct {
	Requests                     uint64
	Codes                        map[string]int
	BytesIn, BytesOut            uint64
	LatTotal, LatMax, LatMin     int64
	Earliest, Latest, End        int64
	Duration, Wait               int64
	Errors                       []string
	Buckets                      map[string]uint64
	hasZeroLatency, hasPositives bool
}

var histBounds = []int64{0, 1000000, 50000000, 1000000000}

const histSpec = "[0,1ms,50ms,1s]"

// bucket lists the parser accepts although they are not ascending (overlapping, empty and repeated
// intervals): the first matching bucket wins, so the counts are still a function of the multiset of
// latencies — and must not depend on how the results are split over files. No reference semantics is
// used for them: the reports over the splits are compared with the report over the unsplit file.
var oddHistSpecs = []string{"[0,1s,500ms,2s]", "[0,800ms,200ms,1.5s,400ms]", "[0,500ms,500ms,1s,1s,2s]", "[1s,0,2s,100ms]", "[0,10ms,5ms,20ms]"}

func reference(rs []gen.ResultSpec) refMetrics {
	m := refMetrics{Codes: map[string]int{}, Buckets: map[string]uint64{}}
	errs := map[string]bool{}
	for _, b := range histBounds {
		m.Buckets[strconv.FormatInt(b, 10)] = 0
	}
	for i, r := range rs {
		m.Requests++
		m.Codes[strconv.Itoa(int(r.Code))]++
		m.BytesIn += r.BytesIn
		m.BytesOut += r.BytesOut
		m.LatTotal += r.Latency
		end := r.TsNano + r.Latency
		if i == 0 {
			m.LatMax, m.LatMin, m.Earliest, m.Latest, m.End = r.Latency, r.Latency, r.TsNano, r.TsNano, end
		}
		if r.Latency > m.LatMax {
			m.LatMax = r.Latency
		}
		if r.Latency < m.LatMin {
			m.LatMin = r.Latency
		}
		if r.TsNano < m.Earliest {
			m.Earliest = r.TsNano
		}
		if r.TsNano > m.Latest {
			m.Latest = r.TsNano
		}
		if end > m.End {
			m.End = end
		}
		if r.Error != "" {
			errs[r.Error] = true
		}
		if r.Latency == 0 {
			m.hasZeroLatency = true
		} else if r.Latency > 0 {
			m.hasPositives = true
		}
		b := 0
		for j, lo := range histBounds {
			if r.Latency >= lo {
				b = j
			}
		}
		m.Buckets[strconv.FormatInt(histBounds[b], 10)]++
	}
	m.Duration = m.Latest - m.Earliest
	m.Wait = m.End - m.Latest
	for e := range errs {
		m.Errors = append(m.Errors, e)
	}
	sort.Strings(m.Errors)
	return m
}

type jsonReport struct {
	Latencies struct {
		Total int64 `json:"total"`
		Max   int64 `json:"max"`
		Min   int64 `json:"min"`
	} `json:"latencies"`
	Buckets map[string]uint64 `json:"buckets"`
	BytesIn struct {
		Total uint64 `json:"total"`
	} `json:"bytes_in"`
	BytesOut struct {
		Total uint64 `json:"total"`
	} `json:"bytes_out"`
	Earliest    time.Time      `json:"earliest"`
	Latest      time.Time      `json:"latest"`
	End         time.Time      `json:"end"`
	Duration    int64          `json:"duration"`
	Wait        int64          `json:"wait"`
	Requests    uint64         `json:"requests"`
	StatusCodes map[string]int `json:"status_codes"`
	Errors      []string       `json:"errors"`
}

// diffMetrics lists the fields of a JSON report that differ from the reference.
// latMin is the expected latencies.min: the reference minimum, or — for result sets containing a
// zero latency, where the implementation's minimum depends on the order of arrival — the value
// reported for the unsplit file (C13 is about split independence, not about the minimum itself).
func diffMetrics(ref refMetrics, latMin int64, raw []byte, withBuckets bool) ([]string, string) {
	var jr jsonReport
	if err := json.Unmarshal(raw, &jr); err != nil {
		return []string{"unparsable"}, err.Error()
	}
	var bad []string
	chk := func(name string, ok bool) {
		if !ok {
			bad = append(bad, name)
		}
	}
	chk("requests", jr.Requests == ref.Requests)
	chk("status_codes", fmt.Sprint(jr.StatusCodes) == fmt.Sprint(ref.Codes))
	chk("bytes_in.total", jr.BytesIn.Total == ref.BytesIn)
	chk("bytes_out.total", jr.BytesOut.Total == ref.BytesOut)
	chk("latencies.total", jr.Latencies.Total == ref.LatTotal)
	chk("latencies.max", jr.Latencies.Max == ref.LatMax)
	chk("latencies.min", jr.Latencies.Min == latMin)
	chk("earliest", jr.Earliest.UnixNano() == ref.Earliest)
	chk("latest", jr.Latest.UnixNano() == ref.Latest)
	chk("end", jr.End.UnixNano() == ref.End)
	chk("duration", jr.Duration == ref.Duration)
	chk("wait", jr.Wait == ref.Wait)
	es := append([]string{}, jr.Errors...)
	sort.Strings(es)
	chk("errors", fmt.Sprint(es) == fmt.Sprint(ref.Errors) && len(es) == len(ref.Errors))
	if withBuckets {
		chk("buckets", fmt.Sprint(jr.Buckets) == fmt.Sprint(ref.Buckets))
	}
	obs := fmt.Sprintf("requests=%d codes=%v in=%d out=%d lat=%d/%d/%d earliest=%d latest=%d end=%d dur=%d wait=%d errors=%q buckets=%v",
		jr.Requests, jr.StatusCodes, jr.BytesIn.Total, jr.BytesOut.Total, jr.Latencies.Total, jr.Latencies.Max, jr.Latencies.Min,
		jr.Earliest.UnixNano(), jr.Latest.UnixNano(), jr.End.UnixNano(), jr.Duration, jr.Wait, es, jr.Buckets)
	return bad, obs
}

func mustJSON(jr *jsonReport) []byte {
	b, err := json.Marshal(jr)
	if err != nil {
		panic(err)
	}
	return b
}

// refFromReport: the exact metrics of a JSON report as the expected values of a comparison
func refFromReport(ref refMetrics, jr *jsonReport) refMetrics {
	es := append([]string{}, jr.Errors...)
	sort.Strings(es)
	ref.Requests, ref.Codes, ref.BytesIn, ref.BytesOut = jr.Requests, jr.StatusCodes, jr.BytesIn.Total, jr.BytesOut.Total
	ref.LatTotal, ref.LatMax, ref.LatMin = jr.Latencies.Total, jr.Latencies.Max, jr.Latencies.Min
	ref.Earliest, ref.Latest, ref.End = jr.Earliest.UnixNano(), jr.Latest.UnixNano(), jr.End.UnixNano()
	ref.Duration, ref.Wait, ref.Errors = jr.Duration, jr.Wait, es
	if ref.Codes == nil {
		ref.Codes = map[string]int{}
	}
	if jr.Buckets != nil {
		ref.Buckets = jr.Buckets
	}
	return ref
}

func (m refMetrics) String() string {
	return fmt.Sprintf("requests=%d codes=%v in=%d out=%d lat=%d/%d/%d earliest=%d latest=%d end=%d dur=%d wait=%d errors=%q buckets=%v",
		m.Requests, m.Codes, m.BytesIn, m.BytesOut, m.LatTotal, m.LatMax, m.LatMin, m.Earliest, m.Latest, m.End, m.Duration, m.Wait, m.Errors, m.Buckets)
}

// genSplit: 1…6 non-empty parts of 0…n-1, each part in increasing order; unequal lengths, one-record files.
func genSplit(r *kit.Rng, n int) [][]int {
	k := 1 + r.Pick(6)
	if k > n {
		k = n
	}
	parts := make([][]int, k)
	switch r.Pick(3) {
	case 0: // contiguous cuts
		cuts := map[int]bool{}
		for len(cuts) < k-1 {
			cuts[1+r.Pick(n-1)] = true
		}
		p := 0
		for i := 0; i < n; i++ {
			if cuts[i] {
				p++
			}
			parts[p] = append(parts[p], i)
		}
	case 1: // one-record files plus one big file
		perm := r.Perm(n)
		for p := 0; p < k-1; p++ {
			parts[p] = []int{perm[p]}
		}
		rest := append([]int{}, perm[k-1:]...)
		sort.Ints(rest)
		parts[k-1] = rest
		r.Shuffle(k, func(i, j int) { parts[i], parts[j] = parts[j], parts[i] })
	default: // arbitrary assignment, every part non-empty
		perm := r.Perm(n)
		for p := 0; p < k; p++ {
			parts[p] = []int{perm[p]}
		}
		for _, i := range perm[k:] {
			p := r.Pick(k)
			if r.Chance(0.5) {
				p = 0 // skew
			}
			parts[p] = append(parts[p], i)
		}
		for p := range parts {
			sort.Ints(parts[p])
		}
	}
	return parts
}

type cliRun struct {
	c     *run.Ctx
	s     *kit.Summary
	drain *kit.Stream
	dir   string
	nfile int
	to    string // forced output encoding (replay)
	fifo  []bool // forced named-pipe inputs (replay)
	slow  bool   // every encode op also with its output on a named pipe that is drained slowly
}

func (cr *cliRun) path(name string) string { return filepath.Join(cr.dir, name) }

func hexs(xs ...string) string {
	out := make([]string, len(xs))
	for i, x := range xs {
		out[i] = kit.HexS(x)
	}
	return strings.Join(out, " ")
}

func reportOp(typ, buckets, out string, files []string) string {
	return reportOpEvery(typ, 0, buckets, out, files)
}

// every > 0: the report command also writes intermediate reports (Close, then more Adds) at that interval
func reportOpEvery(typ string, everyNs int64, buckets, out string, files []string) string {
	return "report " + kit.HexS(typ) + " " + strconv.FormatInt(everyNs, 10) + " " + kit.HexS(buckets) + " " + kit.HexS(out) + " " + hexs(files...)
}

func encodeOp(to, out string, files []string) string {
	return "encode " + kit.HexS(to) + " " + kit.HexS(out) + " " + hexs(files...)
}

type pending struct {
	spec  string // bucket list of the kinds "histx" / "jsonbx" (non-ascending or repeated bounds)
	kind  string // "histx", "jsonbx" (compared between splits and the unsplit file only), "json", "jsonb" (with buckets), "jsonevery" (intermediate reports), "text", "hist", "histflag" (-buckets flag), "hdrplot", "encode"
	out   string
	cc    cliCase
	base  bool
	files []string
}

// runSet: one result set, several splits, many encoding assignments.
func (cr *cliRun) runSet(results []gen.ResultSpec, splits [][][]int, assignments func(k int) [][]string, allTypes bool) {
	s := cr.s
	ref := reference(results)
	rs := make([]vegeta.Result, len(results))
	bySeq := map[string]int{} // identity of a record inside a set: sequence number, attack name and URL
	for i, sp := range results {
		rs[i] = sp.ToResult()
		if _, dup := bySeq[recKey(&rs[i])]; dup {
			panic("generator: two records of a set with the same (seq, attack, url)")
		}
		bySeq[recKey(&rs[i])] = i
	}
	cr.dir = filepath.Join(cr.c.Work, fmt.Sprintf("set%d", cr.nfile))
	cr.nfile++
	if err := os.MkdirAll(cr.dir, 0o755); err != nil {
		panic(err)
	}
	defer os.RemoveAll(cr.dir)

	var ops []string
	var pend []pending
	nout := 0
	cancel := make(chan struct{})
	fed := make(chan struct{}, 1024)
	feeders := 0
	defer func() {
		close(cancel)
		for ; feeders > 0; feeders-- {
			<-fed
		}
	}()
	sinks := map[string]<-chan []byte{}
	sinkCancel := make(chan struct{})
	add := func(kind string, cc cliCase, files []string, base bool) {
		out := cr.path(fmt.Sprintf("out%d", nout))
		nout++
		if i := strings.Index(kind, "@"); i >= 0 {
			// a second run of the command onto an output path that already holds an output of the same kind
			// (longer resp. shorter than the new one): the path must hold the new output only
			var old []byte
			switch {
			case kind[:i] == "encode" && kind[i:] == "@long":
				old = encodeAll(cc.To, append(append(append([]vegeta.Result{}, rs...), rs...), rs...))
			case kind[:i] == "encode":
				old = encodeAll(cc.To, rs[:1])
			case kind[i:] == "@long":
				old = []byte(`{"requests":424242,"previous":"` + strings.Repeat("x", 40000) + `"}` + "\n")
			default:
				old = []byte(`{"requests":1}` + "\n")
			}
			if err := os.WriteFile(out, old, 0o644); err != nil {
				panic(err)
			}
			s.Count("cli:output_path_exists" + kind[i:])
			kind = kind[:i]
		}
		if kind == "encodeslow" {
			kind = "encode"
			if ch, err := gen.SlowSink(out, 4096, 300*time.Microsecond, sinkCancel); err == nil {
				sinks[out] = ch
				s.Count("cli:encode_to_slow_consumer")
			}
		}
		oddSpec := ""
		if i := strings.Index(kind, ":"); i >= 0 {
			k, _ := strconv.Atoi(kind[i+1:])
			kind, oddSpec = kind[:i], oddHistSpecs[k%len(oddHistSpecs)]
		}
		if len(cc.Fifo) == len(files) {
			files = append([]string{}, files...)
			for p := range files {
				if !cc.Fifo[p] {
					continue
				}
				data, err := os.ReadFile(files[p])
				if err != nil {
					panic(err)
				}
				fifo := cr.path(fmt.Sprintf("in%d_%d.fifo", nout, p))
				if err := syscall.Mkfifo(fifo, 0o600); err != nil {
					s.Skipped["cli:mkfifo_failed"]++
					continue
				}
				files[p] = fifo
				feeders++
				go fifoFeeder(fifo, data, cancel, fed)
				s.Count(fmt.Sprintf("cli:fifo_at_position=%d", p))
			}
			s.Count("cli:op_with_fifo_inputs")
		}
		switch kind {
		case "json":
			ops = append(ops, reportOp("json", "", out, files))
		case "jsonb":
			ops = append(ops, reportOp("json", histSpec, out, files))
		case "jsonevery":
			ops = append(ops, reportOpEvery("json", 1000, histSpec, out, files))
		case "text":
			ops = append(ops, reportOp("text", "", out, files))
		case "hist":
			ops = append(ops, reportOp("hist"+histSpec, "", out, files))
		case "histflag":
			ops = append(ops, reportOp("hist", histSpec, out, files))
		case "histx":
			ops = append(ops, reportOp("hist"+oddSpec, "", out, files))
		case "jsonbx":
			ops = append(ops, reportOp("json", oddSpec, out, files))
		case "hdrplot":
			ops = append(ops, reportOp("hdrplot", "", out, files))
		case "encode":
			ops = append(ops, encodeOp(cc.To, out, files))
		}
		pend = append(pend, pending{oddSpec, kind, out, cc, base, files})
	}
	// the unsplit file in each encoding
	all := make([]int, len(results))
	for i := range all {
		all[i] = i
	}
	for _, enc := range encodings {
		f := cr.path("all." + enc)
		if err := os.WriteFile(f, encodeAll(enc, rs), 0o644); err != nil {
			panic(err)
		}
		cc := cliCase{Results: results, Parts: [][]int{all}, Encs: []string{enc}, To: "json"}
		add("jsonb", cc, []string{f}, true)
		add("encode", cc, []string{f}, true)
		if len(results) <= 200 {
			add("jsonb@long", cc, []string{f}, false)
			add("encode@long", cc, []string{f}, false)
			add("encode@short", cc, []string{f}, false)
		}
		if cr.slow {
			add("encodeslow", cc, []string{f}, true)
		}
		if enc == "gob" && allTypes {
			add("text", cc, []string{f}, true) // yardsticks for the text / hist reports over the splits
			add("hist", cc, []string{f}, true)
			add("histflag", cc, []string{f}, true)
			for k := range oddHistSpecs {
				add(fmt.Sprintf("histx:%d", k), cc, []string{f}, true)
				add(fmt.Sprintf("jsonbx:%d", k), cc, []string{f}, true)
			}
		}
	}
	for si, parts := range splits {
		for p, idx := range parts {
			sub := make([]vegeta.Result, len(idx))
			for j, i := range idx {
				sub[j] = rs[i]
			}
			for _, enc := range encodings {
				if err := os.WriteFile(cr.path(fmt.Sprintf("s%dp%d.%s", si, p, enc)), encodeAll(enc, sub), 0o644); err != nil {
					panic(err)
				}
			}
		}
		for ai, encs := range assignments(len(parts)) {
			files := make([]string, len(parts))
			for p := range parts {
				files[p] = cr.path(fmt.Sprintf("s%dp%d.%s", si, p, encs[p]))
			}
			cc := cliCase{Results: results, Parts: parts, Encs: encs, To: encodings[(si+ai)%3]}
			if cr.to != "" {
				cc.To = cr.to
			}
			if len(cr.fifo) == len(parts) {
				cc.Fifo = cr.fifo
			}
			if ai%2 == 0 {
				add("json", cc, files, false)
			} else {
				add("jsonb", cc, files, false)
			}
			add("encode", cc, files, false)
			if ai < 3 && len(results) <= 200 {
				sfx := []string{"@long", "@short", "@long"}[ai]
				add("jsonb"+sfx, cc, files, false)
				add("encode"+sfx, cc, files, false)
			}
			if cr.slow {
				add("encodeslow", cc, files, false)
			}
			if ai == 0 && len(parts) >= 2 && len(results) <= 200 {
				// the same inputs under file names that contain glob metacharacters, each with a sibling that the
				// name would match if it were taken as a pattern (`p[1].bin` ~ `p1.bin`, `p?.bin`, `p*.bin`): a file
				// name is a file name. Two argument orders.
				names := []string{"p1.bin", "p[1].bin", "p?.bin", "p*.bin", "p[!x].bin", "p\\1.bin"}
				gfiles := make([]string, len(parts))
				for p := range parts {
					gfiles[p] = cr.path(fmt.Sprintf("g%d_%s", si, names[p%len(names)]))
					data, err := os.ReadFile(files[p])
					if err != nil {
						panic(err)
					}
					if err := os.WriteFile(gfiles[p], data, 0o644); err != nil {
						panic(err)
					}
				}
				add("jsonb", cc, gfiles, false)
				add("encode", cc, gfiles, false)
				rc := cliCase{Results: results, To: cc.To}
				var rfiles []string
				for p := len(parts) - 1; p >= 0; p-- {
					rc.Parts = append(rc.Parts, parts[p])
					rc.Encs = append(rc.Encs, encs[p])
					rfiles = append(rfiles, gfiles[p])
				}
				add("jsonb", rc, rfiles, false)
				add("encode", rc, rfiles, false)
				s.Count("cli:file_names_with_glob_metacharacters")
			}
			if ai < 2 || len(cc.Fifo) > 0 {
				// the same inputs, one or more of them through a named pipe (every position over the runs)
				fc := cc
				if len(fc.Fifo) == 0 {
					fc.Fifo = make([]bool, len(parts))
					fc.Fifo[(si+ai+cr.nfile)%len(parts)] = true
					if ai == 1 {
						for p := range fc.Fifo {
							fc.Fifo[p] = fc.Fifo[p] || (si+p+cr.nfile)%2 == 0
						}
					}
				}
				add("jsonb", fc, files, false)
				add("encode", fc, files, false)
			}
			if allTypes && ai == 0 {
				add("text", cc, files, false)
				add("hist", cc, files, false)
				add("histflag", cc, files, false)
				for k := range oddHistSpecs {
					add(fmt.Sprintf("histx:%d", k), cc, files, false)
					add(fmt.Sprintf("jsonbx:%d", k), cc, files, false)
				}
				add("hdrplot", cc, files, false)
				add("jsonevery", cc, files, false)
			}
		}
	}
	outs, hungAt, err := gen.RunVegetaGuarded(cr.c.Vegeta, ops, 90*time.Second)
	if err != nil {
		s.Diverge("cli", "(vegeta-verif failure)", "", err.Error())
		return
	}
	// outputs that went through a slowly drained pipe: store them where the evaluation expects them
	close(sinkCancel)
	for path, ch := range sinks {
		data := <-ch
		os.Remove(path)
		os.WriteFile(path, data, 0o644)
	}
	if hungAt >= 0 {
		// the command never returned: the combined decoder never signalled the end (or kept returning records)
		p := pend[hungAt]
		s.Violate(kit.Violation{Kind: "cli_command_hung", What: "in-process " + p.kind + " command did not return within 90 s on well-formed split files (end of input never signalled?)",
			Input: p.cc, Key: map[string]interface{}{"command": p.kind, "files": len(p.cc.Parts)}})
		for len(outs) < len(pend) {
			outs = append(outs, "not-run")
		}
	}
	// The yardstick of every comparison is the report over the UNSPLIT file ("the same exact metrics no
	// matter how it is split"); that this report shows the right values is C10's subject and only counted.
	latMin := ref.LatMin
	var baseJSON *jsonReport
	for i, p := range pend {
		if p.base && p.kind == "jsonb" && outs[i] == "ok" {
			if raw, err := os.ReadFile(p.out); err == nil {
				var jr jsonReport
				if json.Unmarshal(raw, &jr) == nil {
					baseJSON = &jr
				}
			}
			break
		}
	}
	if baseJSON == nil {
		s.Skipped["cli:JSON report over the unsplit file not recognisable, JSON comparisons skipped"]++
	} else {
		if bad, _ := diffMetrics(ref, latMin, mustJSON(baseJSON), true); len(bad) > 0 {
			s.Count("cli:unsplit_report_differs_from_reference(C10's subject):" + strings.Join(bad, ","))
		}
		ref = refFromReport(ref, baseJSON)
		latMin = baseJSON.Latencies.Min
	}
	var histBase, histFlagBase *string
	var textBase *textReport
	oddBase := map[string]string{}
	for i, p := range pend {
		sizes := make([]string, len(p.cc.Parts))
		for j := range p.cc.Parts {
			sizes[j] = strconv.Itoa(len(p.cc.Parts[j]))
		}
		key := fmt.Sprintf("cli:%d:%s:%v:%v:%s", results[0].Seq, p.kind, p.cc.Parts, p.cc.Encs, p.cc.To)
		s.Case(key, len(p.cc.Parts) >= 2)
		if outs[i] == "not-run" {
			continue
		}
		s.Count("cli:" + p.kind)
		s.Count(fmt.Sprintf("cli:files=%d", len(p.cc.Parts)))
		if outs[i] != "ok" && (p.kind == "histx" || p.kind == "jsonbx") {
			s.Skipped["cli:non-ascending bucket list refused by the command (not this property's subject)"]++
			continue
		}
		if outs[i] != "ok" {
			msg := outs[i]
			if f := strings.Fields(msg); len(f) == 2 {
				msg = f[0] + " " + string(kit.UnHex(f[1]))
			}
			s.Violate(kit.Violation{Kind: "cli_command_failed", What: "in-process " + p.kind + " command failed on well-formed split files", Input: p.cc, Observed: msg,
				Key: map[string]interface{}{"command": p.kind}})
			continue
		}
		raw, err := os.ReadFile(p.out)
		if err != nil {
			s.Violate(kit.Violation{Kind: "cli_no_output", What: "command wrote no output file", Input: p.cc, Observed: err.Error()})
			continue
		}
		if p.kind == "jsonevery" {
			// several reports were written one after the other; the last one is the final report
			docs := 0
			dec := json.NewDecoder(bytes.NewReader(raw))
			var last json.RawMessage
			for {
				var m json.RawMessage
				if err := dec.Decode(&m); err != nil {
					break
				}
				last = m
				docs++
			}
			if docs > 1 {
				s.Count("cli:jsonevery_with_intermediate_reports")
			}
			raw = last
		}
		switch p.kind {
		case "json", "jsonb", "jsonevery":
			if baseJSON == nil {
				break
			}
			bad, obs := diffMetrics(ref, latMin, raw, p.kind != "json")
			if len(bad) > 0 {
				kind := "report_split_metrics"
				if p.base {
					kind = "report_unsplit_metrics"
				}
				if len(bad) == 1 && bad[0] == "latencies.min" && ref.hasZeroLatency {
					kind = "report_min_after_zero_latency"
				}
				exp := ref
				exp.LatMin = latMin
				s.Violate(kit.Violation{Kind: kind, What: "exact metrics of the JSON report differ from those of the JSON report over the unsplit gob file: " + strings.Join(bad, ","),
					Input: p.cc, Expected: exp.String(), Observed: obs,
					Key: map[string]interface{}{"fields": strings.Join(bad, ","), "zero_latency": ref.hasZeroLatency, "files": len(p.cc.Parts)}})
			}
		case "encode":
			cr.checkEncoded(p, raw, rs, bySeq)
		case "text":
			tr := parseTextReport(raw)
			if p.base {
				textBase = &tr
			}
			if textBase == nil || !textBase.ok || !tr.ok {
				s.Skipped["cli:text report layout not recognised, comparison skipped"]++
				break
			}
			if bad := tr.diff(textBase); len(bad) > 0 {
				s.Violate(kit.Violation{Kind: "report_split_text", What: "exactly determined fields of the text report differ from the text report over the unsplit file: " + strings.Join(bad, ","),
					Input: p.cc, Expected: ref.String(), Observed: string(raw), Key: map[string]interface{}{"fields": strings.Join(bad, ",")}})
			}
		case "histx", "jsonbx":
			got := histCounts(raw)
			if p.kind == "jsonbx" {
				var doc struct {
					Buckets  json.RawMessage `json:"buckets"`
					Requests uint64          `json:"requests"`
				}
				if err := json.Unmarshal(raw, &doc); err != nil || doc.Requests != ref.Requests {
					s.Violate(kit.Violation{Kind: "report_split_metrics", What: "JSON report with a bucket list is unparsable or counts a different number of requests", Input: p.cc, Observed: string(raw)})
					break
				}
				got = string(doc.Buckets)
			}
			if p.base {
				oddBase[p.kind+p.spec] = got
				s.Count("cli:odd_bucket_list=" + p.spec)
			} else if want, ok := oddBase[p.kind+p.spec]; ok && got != want {
				s.Violate(kit.Violation{Kind: "report_split_hist_odd_buckets", What: "bucket counts of a report with the non-ascending bucket list " + p.spec + " differ between the split files and the unsplit file",
					Input: p.cc, Expected: want, Observed: got, Key: map[string]interface{}{"buckets": p.spec, "type": p.kind}})
			}
		case "hist", "histflag":
			rows := histCounts(raw)
			basep := &histBase
			if p.kind == "histflag" {
				basep = &histFlagBase
			}
			if p.base {
				if rows == "" {
					s.Skipped["cli:hist report layout not recognised, comparison skipped"]++
				} else {
					r0 := rows
					*basep = &r0
					exp := make([]string, len(histBounds))
					for j, b := range histBounds {
						exp[j] = strconv.FormatUint(ref.Buckets[strconv.FormatInt(b, 10)], 10)
					}
					if rows != strings.Join(exp, ",") {
						s.Count("cli:unsplit_hist_differs_from_reference(C12's subject)")
					}
				}
			} else if *basep != nil && rows != **basep {
				s.Violate(kit.Violation{Kind: "report_split_hist", What: "bucket counts of the hist report differ from those of the hist report over the unsplit file", Input: p.cc, Expected: **basep, Observed: rows})
			}
		default:
			if len(raw) == 0 {
				s.Violate(kit.Violation{Kind: "cli_empty_report", What: p.kind + " report is empty", Input: p.cc})
			}
		}
	}
}

// the order-free, exactly determined parts of a text report
type textReport struct {
	requests, bytesIn, bytesOut string
	durations                   string // total, attack, wait (Duration strings of exact integers)
	latMin, latMax              string
	codes                       string
	errors                      []string
	ok                          bool
}

func afterBracket(ln string) string {
	if i := strings.Index(ln, "]"); i >= 0 {
		return strings.TrimSpace(ln[i+1:])
	}
	return ""
}

func parseTextReport(raw []byte) textReport {
	var t textReport
	lines := strings.Split(string(raw), "\n")
	inErr := false
	seen := map[string]bool{}
	for _, ln := range lines {
		switch {
		case inErr:
			if e := strings.Join(strings.Fields(ln), " "); e != "" && !seen[e] {
				seen[e] = true
				t.errors = append(t.errors, e)
			}
		case strings.HasPrefix(ln, "Requests"):
			t.requests = strings.Split(afterBracket(ln), ",")[0]
			t.ok = true
		case strings.HasPrefix(ln, "Duration"):
			t.durations = afterBracket(ln)
		case strings.HasPrefix(ln, "Latencies"):
			f := strings.Split(afterBracket(ln), ", ")
			t.latMin, t.latMax = f[0], f[len(f)-1]
		case strings.HasPrefix(ln, "Bytes In"):
			t.bytesIn = strings.Split(afterBracket(ln), ",")[0]
		case strings.HasPrefix(ln, "Bytes Out"):
			t.bytesOut = strings.Split(afterBracket(ln), ",")[0]
		case strings.HasPrefix(ln, "Status Codes"):
			t.codes = strings.Join(strings.Fields(afterBracket(ln)), " ")
		case strings.HasPrefix(ln, "Error Set:"):
			inErr = true
		}
	}
	sort.Strings(t.errors)
	return t
}

// diff: the exactly determined fields against the text report over the unsplit file (status codes
// and errors as sets: their printing order is not the property's subject)
func (t textReport) diff(base *textReport) []string {
	var bad []string
	chk := func(name string, ok bool) {
		if !ok {
			bad = append(bad, name)
		}
	}
	set := func(x string) string {
		f := strings.Fields(x)
		sort.Strings(f)
		return strings.Join(f, " ")
	}
	chk("requests", t.requests == base.requests)
	chk("bytes_in.total", t.bytesIn == base.bytesIn)
	chk("bytes_out.total", t.bytesOut == base.bytesOut)
	chk("status_codes", set(t.codes) == set(base.codes))
	chk("durations", t.durations == base.durations)
	chk("latencies.max", t.latMax == base.latMax)
	chk("latencies.min", t.latMin == base.latMin)
	chk("errors", fmt.Sprint(t.errors) == fmt.Sprint(base.errors))
	return bad
}

func histCounts(raw []byte) string {
	var cs []string
	lines := strings.Split(strings.TrimRight(string(raw), "\n"), "\n")
	for _, ln := range lines[1:] {
		f := strings.Fields(ln)
		if len(f) >= 3 {
			cs = append(cs, f[2])
		}
	}
	return strings.Join(cs, ",")
}

// checkEncoded: the output of `encode` holds the same multiset of records, each file's records in
// file order; and its exact order is what the model's drain yields.
func recKey(r *vegeta.Result) string { return fmt.Sprintf("%d|%s|%s", r.Seq, r.Attack, r.URL) }

func (cr *cliRun) checkEncoded(p pending, raw []byte, rs []vegeta.Result, bySeq map[string]int) {
	s := cr.s
	dec := decoderOf(p.cc.To, bytes.NewReader(raw))
	var got []vegeta.Result
	for {
		var r vegeta.Result
		err := dec.Decode(&r)
		if err == io.EOF {
			break
		}
		if err != nil {
			s.Violate(kit.Violation{Kind: "encode_output_undecodable", What: "output of encode does not decode", Input: p.cc, Observed: err.Error()})
			return
		}
		got = append(got, r)
	}
	fileOf := map[int]int{}
	scripts := make([][]int64, len(p.cc.Parts))
	for f, idx := range p.cc.Parts {
		for _, i := range idx {
			fileOf[i] = f
			scripts[f] = append(scripts[f], int64(rs[i].Seq))
		}
	}
	seen := map[int]int{}
	per := make([][]int64, len(p.cc.Parts))
	toks := make([]string, 0, len(got))
	okAll := true
	for _, r := range got {
		i, ok := bySeq[recKey(&r)]
		if !ok || !rs[i].Equal(r) {
			okAll = false
			s.Violate(kit.Violation{Kind: "encode_record_altered", What: "encode produced a record that is not in the input set", Input: p.cc, Observed: fmt.Sprintf("%+v", r)})
			break
		}
		seen[i]++
		per[fileOf[i]] = append(per[fileOf[i]], int64(r.Seq))
		toks = append(toks, fmt.Sprintf("r%d:%d", fileOf[i], r.Seq))
	}
	if !okAll {
		return
	}
	for i := range rs {
		if seen[i] != 1 {
			s.Violate(kit.Violation{Kind: "encode_split_multiset", What: "encode over split files lost or duplicated a record", Input: p.cc,
				Expected: "every record exactly once", Observed: fmt.Sprintf("record seq=%d appears %d times; %d of %d records", rs[i].Seq, seen[i], len(got), len(rs))})
			return
		}
	}
	for f := range scripts {
		if fmt.Sprint(per[f]) != fmt.Sprint(scripts[f]) {
			// the commands are required to produce the same MULTISET; the order inside the output is compared with
			// the model (c13.drain) only
			s.Count("cli:encode_output_reorders_a_file(not a violation)")
			return
		}
	}
	line := "ok " + strconv.Itoa(len(toks))
	if len(toks) > 0 {
		line += " " + strings.Join(toks, " ")
	}
	cr.drain.Add(scriptsOp("c13.drain", scripts, len(rs)+5), line+" end=e0")
}

func allAssignments(k int) [][]string {
	out := [][]string{{}}
	for i := 0; i < k; i++ {
		var next [][]string
		for _, a := range out {
			for _, e := range encodings {
				next = append(next, append(append([]string{}, a...), e))
			}
		}
		out = next
	}
	return out
}

// completionOrder sorts the records by the instant they ended (timestamp + latency), the order in which
// an attack writes them: timestamps are then not monotone. Sequence numbers keep their positions.
func completionOrder(rs []gen.ResultSpec) {
	seqs := make([]uint64, len(rs))
	for i := range rs {
		seqs[i] = rs[i].Seq
	}
	sort.SliceStable(rs, func(i, j int) bool { return rs[i].TsNano+rs[i].Latency < rs[j].TsNano+rs[j].Latency })
	for i := range rs {
		rs[i].Seq = seqs[i]
	}
}

// plantSlowEarly makes record `at` the one that began first and ended last (smallest timestamp, largest end).
func plantSlowEarly(rs []gen.ResultSpec, at int) {
	minTs, maxEnd := rs[0].TsNano, rs[0].TsNano+rs[0].Latency
	for _, x := range rs {
		if x.TsNano < minTs {
			minTs = x.TsNano
		}
		if e := x.TsNano + x.Latency; e > maxEnd {
			maxEnd = e
		}
	}
	if minTs < 2000000000 {
		return
	}
	rs[at].TsNano = minTs - 1000000000
	rs[at].Latency = maxEnd - rs[at].TsNano + 1500000000
}

func genResultSet(r *kit.Rng, base uint64, zeroLat bool) []gen.ResultSpec {
	rs := genResultSetRaw(r, base, zeroLat)
	switch r.Pick(5) {
	case 0:
		completionOrder(rs)
	case 1: // began first, ended last, anywhere but in front
		if len(rs) > 1 {
			plantSlowEarly(rs, 1+r.Pick(len(rs)-1))
		}
	case 2:
		if len(rs) > 1 {
			plantSlowEarly(rs, r.Pick(len(rs)))
			completionOrder(rs)
		}
	}
	return rs
}

func genResultSetRaw(r *kit.Rng, base uint64, zeroLat bool) []gen.ResultSpec {
	var n int
	switch r.Pick(5) {
	case 0:
		n = 1 + r.Pick(3)
	case 1:
		n = 20 + r.Pick(40)
	default:
		n = 2 + r.Pick(14)
	}
	rs := make([]gen.ResultSpec, n)
	// now and then one record (not the first of the set) is large: its encoded line / message crosses
	// the usual buffer and token limits (4 KiB, 64 KiB, 128 KiB)
	big, bigSize := -1, 0
	if n > 1 && r.Chance(0.3) {
		big = 1 + r.Pick(n-1)
		bigSize = []int{3500, 50000, 52000, 70000, 100000, 140000}[r.Pick(6)] + r.Pick(3000)
	}
	for i := range rs {
		sz := -1
		if i == big {
			sz = bigSize
		}
		rs[i] = gen.InterResult(r, base+uint64(i), sz)
		if r.Chance(0.3) && i > 0 { // equal timestamps and latencies now and then
			rs[i].TsNano = rs[r.Pick(i)].TsNano
		}
		if zeroLat && r.Chance(0.3) {
			rs[i].Latency = 0
		}
	}
	return rs
}

func runC13(c *run.Ctx, s *kit.Summary) {
	r := kit.NewRng(c.Seed)
	s.Rule = "library: 0…7 scripted decoders of 0…20 items (records, failing calls), and 1…6 real gob/CSV/JSON decoders (DecoderFor or specific) over streams of 0…15 records; command: result sets of 1…60 records (arrival orders: generated, completion order with non-monotone timestamps, the record that began first ending last and heading the 2nd/3rd file, fully shuffled files) split into 1…6 non-empty files (contiguous cuts, one-record files plus one big file, arbitrary order-preserving assignment) × encoding assignments (all 3^k for small k, a sample otherwise) through the in-process report (json with/without buckets, json with intermediate reports every 1µs, text compared field-wise with the unsplit text report, hist by type and by -buckets flag, hdrplot) and encode (to gob/csv/json) commands, every command guarded against never returning; every run: rotations passing 2^8 and 2^16 attempts with 3/5/6/7 decoders, multi-file sets with a ≥ 64 KiB record and with a record of exactly 4096·k+1 / 65537 encoded bytes in a non-first position; non-trivial = distinct case with ≥ 2 inputs"
	if c.Replay != "" {
		replay(c, s)
		return
	}
	// library, scripted
	sc := &kit.Stream{Name: "c13.rr(scripted)"}
	for i := 0; i < c.N(4000, 150000); i++ {
		clean := r.Chance(0.6)
		scripts := genScripts(r, clean)
		total := 0
		for _, x := range scripts {
			total += len(x)
		}
		lc := libCase{Scripts: scripts, Calls: total + len(scripts) + 1 + r.Pick(4)}
		if r.Chance(0.1) && total > 0 {
			lc.Calls = r.Pick(total + 1)
		}
		runLibScripted(lc, sc, s, clean)
		s.Case(fmt.Sprint("lib:", lc), len(scripts) >= 2 && total >= 2)
		s.Count(fmt.Sprintf("lib.scripted:n=%d", len(scripts)))
		s.Count(fmt.Sprintf("lib.scripted:clean=%v", clean))
		if i < 2 {
			s.Sample(map[string]interface{}{"op": "c13.rr", "case": lc, "impl": sc.Impl[len(sc.Impl)-1]})
		}
	}
	// long rotations: one input far longer than the others (which run out early), so that every call makes
	// several attempts and the rotation counter passes 2^8 and 2^16 attempts with 3, 5, 6, 7 decoders
	// (a counter narrower than uint64, or any rotation rule that is not "all n residues in n attempts", ends early here)
	for _, shape := range []struct{ n, long int }{{3, 300}, {5, 400}, {7, 300}, {6, 300}, {3, 70000}, {7, 70000}, {5, 23000}} {
		scripts := make([][]int64, shape.n)
		longAt := r.Pick(shape.n)
		id := int64(0)
		for i := range scripts {
			l := r.Pick(4)
			if i == longAt {
				l = shape.long + r.Pick(7)
			}
			scripts[i] = make([]int64, l)
			for j := range scripts[i] {
				scripts[i][j] = id
				id++
			}
		}
		lc := libCase{Scripts: scripts, Calls: int(id) + shape.n + 2}
		runLibScripted(lc, sc, s, true)
		s.Case(fmt.Sprintf("lib-long:%d:%d:%d", shape.n, shape.long, longAt), true)
		s.Count(fmt.Sprintf("lib.scripted:long_rotation>%d", map[bool]int{true: 65536, false: 256}[shape.long > 20000]))
	}
	sc.Diff(c.Driver, s)
	// library, real decoders
	cd := &kit.Stream{Name: "c13.rr(codecs)"}
	for i := 0; i < c.N(1500, 40000); i++ {
		cc := genCodecCase(r)
		runLibCodecs(cc, cd, s)
		mix := map[string]bool{}
		for _, in := range cc.Inputs {
			mix[in.Enc] = true
		}
		s.Case(fmt.Sprintf("codec:%d:%d", i, len(cc.Inputs)), len(cc.Inputs) >= 2)
		s.Count(fmt.Sprintf("lib.codecs:n=%d", len(cc.Inputs)))
		s.Count(fmt.Sprintf("lib.codecs:encodings=%d", len(mix)))
		if i < 1 && len(cd.Ops) > 0 {
			s.Sample(map[string]interface{}{"op": cd.Ops[len(cd.Ops)-1], "impl": cd.Impl[len(cd.Impl)-1]})
		}
	}
	cd.Diff(c.Driver, s)
	// command level
	cr := &cliRun{c: c, s: s, drain: &kit.Stream{Name: "c13.drain(cli encode)"}}
	sets := c.N(12, 450)
	base := uint64(1000)
	// defect witness, replayed first in every run (corpus/C13/min_zero_latency.json): latencies [0, 5ms];
	// the unsplit file is read in the order 0, 5ms, the two one-record files in the order 5ms, 0
	w := genResultSet(kit.NewRng(1), 100, false)[:1]
	w = append(w, w[0])
	w[0].Seq, w[1].Seq, w[0].Latency, w[1].Latency = 100, 101, 0, 5000000
	cr.runSet(w, [][][]int{{{1}, {0}}}, func(k int) [][]string { return [][]string{{"gob", "gob"}, {"csv", "json"}} }, false)
	s.Count("cli:set_with_zero_latency")
	// dedicated sets, every run: a large record in a non-first position of its file, next to other files,
	// in every encoding (a decoder that fails on it must not be skipped silently with its remaining records)
	for _, sz := range []int{50000, 70000, 140000} {
		big := genResultSet(r, base, false)
		for len(big) < 6 {
			big = append(big, gen.InterResult(r, base+uint64(len(big)), -1))
		}
		big = big[:6]
		for k := range big {
			big[k].Seq = base + uint64(k)
			big[k].Body = big[k].Body[:min(len(big[k].Body), 100)]
		}
		bigOne := gen.InterResult(r, base+2, sz+r.Pick(2000))
		bigOne.Seq = base + 2
		big[2] = bigOne
		base += 13
		// files: {0,2,4} and {1,3,5}: the large record is the second of the first file
		cr.runSet(big, [][][]int{{{0, 2, 4}, {1, 3, 5}}, {{1, 3, 5}, {0, 2, 4}}}, func(k int) [][]string { return allAssignments(k) }, true)
		s.Count("cli:set_with_large_record")
	}
	// dedicated sets, every run: long inputs (several hundred to a few thousand small records per file — far
	// beyond any batch or buffer of 64/128 results), encode also with a consumer that falls behind
	for _, n := range []int{c.N(450, 900), c.N(1700, 4000)} {
		set := make([]gen.ResultSpec, n)
		for i := range set {
			set[i] = gen.InterResult(r, base+uint64(i), -1)
			if len(set[i].Body) > 40 {
				set[i].Body = set[i].Body[:40]
			}
		}
		base += uint64(n) + 7
		half := [][]int{{}, {}}
		third := [][]int{{}, {}, {}}
		for i := 0; i < n; i++ {
			half[map[bool]int{true: 0, false: 1}[i < n*2/3]] = append(half[map[bool]int{true: 0, false: 1}[i < n*2/3]], i)
			third[i%3] = append(third[i%3], i)
		}
		cr.slow = true
		cr.runSet(set, [][][]int{half, third}, func(k int) [][]string {
			return [][]string{allAssignments(k)[0], allAssignments(k)[5%len(allAssignments(k))], allAssignments(k)[len(allAssignments(k))-1]}
		}, false)
		cr.slow = false
		s.Count(fmt.Sprintf("cli:long_set_records>=%d", n/100*100))
	}
	// dedicated sets, every run: two or three runs of a same-named attack, the sequence numbers restarting at 0
	// in each — (attack name, seq) does not identify a record. Splits: one run per file (colliding pairs in
	// different files), all runs in one file next to a control file, and interleaved.
	for k := 0; k < 2; k++ {
		runs := 2 + k
		per := 4 + r.Pick(5)
		name := r.PickStr([]string{"load", "attack-1", "nightly run"})
		var set []gen.ResultSpec
		byRun := make([][]int, runs)
		for a := 0; a < runs; a++ {
			for q := 0; q < per+a; q++ {
				sp := gen.InterResult(r, uint64(q), -1)
				sp.Attack = name
				sp.URL = fmt.Sprintf("http://h/%d/%d", a, q) // what tells the records apart
				byRun[a] = append(byRun[a], len(set))
				set = append(set, sp)
			}
		}
		other := gen.InterResult(r, 0, -1)
		other.Attack, other.URL = "another attack", "http://h/other"
		set = append(set, other)
		ctl := []int{len(set) - 1}
		var all, inter0, inter1 []int
		for a := range byRun {
			all = append(all, byRun[a]...)
			for j, i := range byRun[a] {
				if (j+a)%2 == 0 {
					inter0 = append(inter0, i)
				} else {
					inter1 = append(inter1, i)
				}
			}
		}
		perFile := append(append([][]int{}, byRun...), ctl)
		cr.runSet(set, [][][]int{perFile, {all, ctl}, {inter0, append(inter1, ctl...)}}, func(k int) [][]string {
			all := allAssignments(k)
			r.Shuffle(len(all), func(x, y int) { all[x], all[y] = all[y], all[x] })
			return all[:min(len(all), 6)]
		}, true)
		s.Count(fmt.Sprintf("cli:set_with_%d_runs_of_a_same_named_attack(seq restarts)", runs))
	}
	// dedicated sets, every run: every result carries the same header keys with 2–3 values each; the first
	// values come from a tiny pool (neighbouring results often agree in all of them), the later values are
	// unique. Which results are neighbours differs between the union and the splits.
	for k := 0; k < 2; k++ {
		set := make([]gen.ResultSpec, 10+r.Pick(8))
		for i := range set {
			set[i] = gen.InterResult(r, base+uint64(i), -1)
			set[i].Headers = gen.ServerHeaders(r, base+uint64(i))
		}
		base += uint64(len(set)) + 7
		var even, odd []int
		for i := range set {
			if i%2 == 0 {
				even = append(even, i)
			} else {
				odd = append(odd, i)
			}
		}
		cr.runSet(set, [][][]int{{even, odd}, genSplit(r, len(set)), genSplit(r, len(set))}, func(k int) [][]string {
			all := allAssignments(k)
			r.Shuffle(len(all), func(x, y int) { all[x], all[y] = all[y], all[x] })
			return all[:min(len(all), 9)]
		}, false)
		s.Count("cli:set_with_repeating_first_header_values")
	}
	// dedicated sets, every run: records in completion order; the record that began first ends last and sits
	// at the head of the 2nd / 3rd file (it arrives as a new Earliest after other records and also holds End)
	for k := 0; k < 3; k++ {
		set := make([]gen.ResultSpec, 7+r.Pick(6))
		for i := range set {
			set[i] = gen.InterResult(r, base+uint64(i), -1)
			set[i].TsNano = 1700000000000000000 + r.Range(0, 10000000000)
			set[i].Latency = r.Range(1000000, 3000000000)
		}
		base += uint64(len(set)) + 7
		plantSlowEarly(set, r.Pick(len(set)))
		completionOrder(set)
		m := len(set) - 1 // began first, ended last
		var a, b, c3 []int
		for i := 0; i < m; i++ {
			switch i % 3 {
			case 0:
				a = append(a, i)
			case 1:
				b = append(b, i)
			default:
				c3 = append(c3, i)
			}
		}
		second := [][]int{append(append([]int{}, a...), c3...), append([]int{m}, b...)}
		third := [][]int{a, b, append([]int{m}, c3...)}
		// … and once the very first record read (in the union it is the last): the comparison between the
		// splits and the union is the yardstick, so the record has to arrive in different roles
		first := [][]int{append([]int{m}, a...), append(append([]int{}, b...), c3...)}
		shuffled := [][]int{r.Perm(len(set))[:len(set)/2], nil}
		used := map[int]bool{}
		for _, i := range shuffled[0] {
			used[i] = true
		}
		for _, i := range r.Perm(len(set)) {
			if !used[i] {
				shuffled[1] = append(shuffled[1], i)
			}
		}
		cr.runSet(set, [][][]int{second, third, first, shuffled}, func(k int) [][]string {
			all := allAssignments(k)
			r.Shuffle(len(all), func(x, y int) { all[x], all[y] = all[y], all[x] })
			return all[:min(len(all), 5)]
		}, true)
		s.Count("cli:set_in_completion_order_slow_early_record")
	}
	// dedicated sets, every run: a record in a non-first position whose own encoded length (JSON line, CSV
	// record, gob message) is exactly 4096·k+1 resp. 65536+1 bytes including its terminator — the edge at
	// which a buffered line reader hands back a full buffer followed by an empty remainder
	for _, fit := range []struct {
		enc    string
		target int
	}{{"json", 4097}, {"csv", 4097}, {"json", 8193}, {"gob", 4096}, {"csv", 65537}, {"json", 65537}} {
		set := make([]gen.ResultSpec, 6)
		for k := range set {
			set[k] = gen.InterResult(r, base+uint64(k), -1)
		}
		own := func() int {
			one := []vegeta.Result{set[2].ToResult()}
			if fit.enc == "gob" {
				return len(encodeAll("gob", append(one, one[0]))) - len(encodeAll("gob", one))
			}
			return len(encodeAll(fit.enc, one))
		}
		set[2].Attack = "a"
		hit := false
		for iter := 0; iter < 8 && !hit; iter++ {
			l := own()
			switch {
			case l == fit.target:
				hit = true
			case l < fit.target:
				set[2].Attack += strings.Repeat("a", fit.target-l)
			case l-fit.target < len(set[2].Attack):
				set[2].Attack = set[2].Attack[:len(set[2].Attack)-(l-fit.target)]
			default:
				iter = 8
			}
		}
		base += 13
		if !hit {
			s.Count("cli:set_with_boundary_record(no fit)")
			continue
		}
		cr.runSet(set, [][][]int{{{0, 2, 4}, {1, 3, 5}}, {{1, 3}, {5}, {0, 2, 4}}}, func(k int) [][]string {
			out := [][]string{}
			for _, a := range allAssignments(k) {
				if a[0] == fit.enc || a[k-1] == fit.enc {
					out = append(out, a)
				}
			}
			return out
		}, false)
		s.Count(fmt.Sprintf("cli:set_with_boundary_record:%s=%d", fit.enc, fit.target))
	}
	for i := 0; i < sets; i++ {
		zero := r.Chance(0.08)
		results := genResultSet(r, base, zero)
		base += uint64(len(results)) + 7
		if zero {
			s.Count("cli:set_with_zero_latency")
		}
		nsplits := 3 + r.Pick(3)
		splits := make([][][]int, nsplits)
		for j := range splits {
			splits[j] = genSplit(r, len(results))
		}
		assignments := func(k int) [][]string {
			all := allAssignments(k)
			limit := 9
			if c.Tier == "thorough" {
				limit = 27
			}
			if len(all) <= limit {
				return all
			}
			r.Shuffle(len(all), func(a, b int) { all[a], all[b] = all[b], all[a] })
			return all[:limit]
		}
		cr.runSet(results, splits, assignments, true)
	}
	cr.drain.Diff(c.Driver, s)
}

/* ---------- replay ---------- */

func replay(c *run.Ctx, s *kit.Summary) {
	raw, err := os.ReadFile(c.Replay)
	if err != nil {
		panic(err)
	}
	var rec struct {
		Kind  string          `json:"kind"`
		Input json.RawMessage `json:"input"`
	}
	if err := json.Unmarshal(raw, &rec); err != nil {
		panic(err)
	}
	var probe map[string]json.RawMessage
	_ = json.Unmarshal(rec.Input, &probe)
	switch {
	case probe["scripts"] != nil:
		var lc libCase
		if err := json.Unmarshal(rec.Input, &lc); err != nil {
			panic(err)
		}
		st := &kit.Stream{Name: "c13.rr(replay)"}
		clean := true
		for _, sc := range lc.Scripts {
			for _, it := range sc {
				if it < 0 {
					clean = false
				}
			}
		}
		runLibScripted(lc, st, s, clean)
		s.Case("replay", true)
		st.Diff(c.Driver, s)
	case probe["inputs"] != nil:
		var cc codecCase
		if err := json.Unmarshal(rec.Input, &cc); err != nil {
			panic(err)
		}
		st := &kit.Stream{Name: "c13.rr(replay)"}
		runLibCodecs(cc, st, s)
		s.Case("replay", true)
		st.Diff(c.Driver, s)
	case probe["results"] != nil:
		var cc cliCase
		if err := json.Unmarshal(rec.Input, &cc); err != nil {
			panic(err)
		}
		cr := &cliRun{c: c, s: s, drain: &kit.Stream{Name: "c13.drain(replay)"}, to: cc.To, fifo: cc.Fifo}
		encs := cc.Encs
		cr.runSet(cc.Results, [][][]int{cc.Parts}, func(k int) [][]string { return [][]string{encs} }, true)
		cr.drain.Diff(c.Driver, s)
	default:
		panic("replay: unknown input shape")
	}
}
