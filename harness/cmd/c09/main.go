// Harness of property C09: a truncated result stream decodes to a clean prefix.
package main

import (
	"bytes"
	"encoding/json"
	"fmt"
	"hash/fnv"
	"io"
	"net/http"
	"net/http/httptest"
	"os"
	"os/exec"
	"path/filepath"
	"strconv"
	"strings"
	"sync/atomic"
	"syscall"
	"time"

	vegeta "github.com/tsenart/vegeta/v12/lib"
	"vharness/gen"
	"vharness/kit"
	"vharness/run"
)

func main() { run.Main("C09", runC09) }

type codec struct {
	name string
	enc  func(io.Writer) vegeta.Encoder
	dec  func(io.Reader) vegeta.Decoder
}

var codecs = []codec{
	{"gob", vegeta.NewEncoder, vegeta.NewDecoder},
	{"json", vegeta.NewJSONEncoder, vegeta.NewJSONDecoder},
	{"csv", vegeta.NewCSVEncoder, vegeta.NewCSVDecoder},
}

// recWriter records every Write call the encoder issues.
type recWriter struct {
	buf    bytes.Buffer
	writes []int
}

func (w *recWriter) Write(p []byte) (int, error) {
	w.writes = append(w.writes, len(p))
	return w.buf.Write(p)
}

type stream struct {
	Codec   string   `json:"codec"`
	Results []string `json:"results"`
	rs      []vegeta.Result
	data    []byte
	bounds  []int // byte count handed to the writer after each Encode call
	writes  []int // sizes of the individual Write calls
	hash    uint64
}

func encodeStream(cd codec, rs []vegeta.Result) (*stream, string) {
	st := &stream{Codec: cd.name, rs: rs}
	for i := range rs {
		st.Results = append(st.Results, gen.ResultLine(&rs[i]))
	}
	w := &recWriter{}
	status := "ok"
	p, msg := kit.Recover(func() {
		enc := cd.enc(w)
		for i := range rs {
			x := rs[i]
			if err := enc.Encode(&x); err != nil {
				status = "err: " + err.Error()
				return
			}
			st.bounds = append(st.bounds, w.buf.Len())
		}
	})
	if p {
		status = "panic: " + msg
	}
	st.data = w.buf.Bytes()
	st.writes = w.writes
	h := fnv.New64a()
	h.Write(st.data)
	st.hash = h.Sum64()
	return st, status
}

func decodePrefix(cd codec, b []byte) (rs []vegeta.Result, term string) {
	p, _ := kit.Recover(func() {
		dec := cd.dec(bytes.NewReader(b))
		for {
			var x vegeta.Result
			err := dec.Decode(&x)
			if err == io.EOF {
				term = "eof"
				return
			}
			if err != nil {
				term = "err"
				return
			}
			rs = append(rs, x)
			if len(rs) > 1000 {
				term = "runaway"
				return
			}
		}
	})
	if p {
		term = "panic"
	}
	return
}

// checkCut is the property's predicate for one cut offset.
func checkCut(s *kit.Summary, cd codec, st *stream, k int) {
	want := 0
	for _, b := range st.bounds {
		if b <= k {
			want++
		}
	}
	got, term := decodePrefix(cd, st.data[:k])
	key := map[string]interface{}{"codec": cd.name}
	in := map[string]interface{}{"codec": cd.name, "results": st.Results, "cut": k, "stream_len": len(st.data), "record_ends": st.bounds}
	s.Case(fmt.Sprintf("%s:%x:%d", cd.name, st.hash, k), k > 0 && k < len(st.data))
	switch {
	case term == "panic" || term == "runaway":
		s.Violate(kit.Violation{Kind: "prefix_" + term, What: "decoder panicked / did not stop on a truncated stream", Input: in, Key: key})
		return
	case len(got) > want:
		s.Violate(kit.Violation{Kind: "prefix_extra_record", What: "decoder returned a record that was not completely written before the cut", Input: in,
			Expected: fmt.Sprintf("%d records then eof/error", want), Observed: gen.ResultsLine(got, term, false), Key: key})
		return
	case len(got) < want:
		s.Violate(kit.Violation{Kind: "prefix_missing_record", What: "decoder lost a record that was completely written before the cut", Input: in,
			Expected: fmt.Sprintf("%d records then eof/error", want), Observed: gen.ResultsLine(got, term, false), Key: key})
		return
	}
	for i := range got {
		if !got[i].Equal(st.rs[i]) || !gen.SameResult(&got[i], &st.rs[i]) {
			s.Violate(kit.Violation{Kind: "prefix_wrong_record", What: "a record decoded from the truncated stream differs from the one written", Input: in,
				Expected: st.Results[i], Observed: gen.ResultLine(&got[i]), Key: key})
			return
		}
	}
	if k == len(st.data) && term != "eof" {
		s.Count(cd.name + ":complete-stream-ends-with-error") // "end-of-stream or an error" (that a complete stream ends with EOF is C07's clause)
	}
	s.Count(cd.name + ":cut-end=" + term)
}

func genStream(r *kit.Rng, cd codec, large int) []vegeta.Result {
	n := 1 + r.Pick(5)
	if large < 0 { // many small records: the stream crosses the 4096-byte buffers of the readers several times
		n = 40 + r.Pick(50)
		large = 0
	}
	rs := make([]vegeta.Result, n)
	for i := range rs {
		o := gen.ResultOpts{MaxBody: 40, NoZoneMinus1: true, Zone: cd.name == "gob", ZoneOddSeconds: cd.name == "gob"}
		switch cd.name {
		case "csv":
			o.Text = gen.TextOpts{MaxLen: 30}
		default:
			o.Text = gen.TextOpts{CR: true, CRLF: true, MaxLen: 30}
		}
		if r.Chance(0.25) {
			o.MaxBody = 300
		}
		rs[i] = gen.Result(r, o)
		if large > 0 && i == n/2 {
			b := make([]byte, large/2+r.Pick(large/2+1))
			r.Read(b)
			rs[i].Body = b
		}
	}
	return rs
}

// runBoundaryStreams: streams with records whose encoded size sits around and between common buffer
// sizes (4 KiB bufio, 64 KiB, 128 KiB, 256 KiB); only the points between Encode calls are cut
// (each must be a record boundary) plus a few offsets around them, so large records stay cheap.
// decodeAuto reads a (cut) stream the way the commands do: through the format detection.
func decodeAuto(b []byte) (rs []vegeta.Result, term string) {
	p, _ := kit.Recover(func() {
		dec := vegeta.DecoderFor(bytes.NewReader(b))
		if dec == nil {
			term = "format not detected"
			return
		}
		for {
			var x vegeta.Result
			err := dec.Decode(&x)
			if err == io.EOF {
				term = "eof"
				return
			}
			if err != nil {
				term = "err"
				return
			}
			rs = append(rs, x)
			if len(rs) > 1000 {
				term = "runaway"
				return
			}
		}
	})
	if p {
		term = "panic"
	}
	return
}

func runBoundaryStreams(c *run.Ctx, r *kit.Rng, s *kit.Summary, cd codec, n int) {
	type cliJob struct {
		st   *stream
		want int
		out  string
		what string
	}
	var cli []cliJob
	var ops, files []string
	haveVegeta := false
	if _, err := os.Stat(c.Vegeta); err == nil {
		haveVegeta = true
	}
	bands := [][2]int{{2500, 5000}, {7000, 9000}, {30000, 34000}, {45000, 52000}, {60000, 70000}, {70000, 100000}, {100000, 140000}, {180000, 270000}}
	// very large FIRST records: encoded sizes straddling 1 MiB and beyond (2–2.5 MiB, around 4 MiB)
	huge := [][2]int{{950000, 1350000}, {2100000, 2600000}, {3900000, 4600000}}
	nHuge := c.N(2, 9)
	for i := 0; i < n+nHuge; i++ {
		rs := genStream(r, cd, 0)
		k := r.Pick(len(rs))
		if (i+i/len(gen.BigFieldKinds))%2 == 0 {
			k = 0 // the large record comes FIRST (what the format detection has to get through)
		}
		band := bands[(i/len(gen.BigFieldKinds))%len(bands)] // every (band, field) combination in turn
		kind := gen.BigFieldKinds[i%len(gen.BigFieldKinds)]
		if i >= n {
			band, k, kind = huge[(i-n)%len(huge)], 0, "body"
			if len(rs) > 3 {
				rs = rs[:3]
			}
			s.Count(cd.name + ":boundary-stream first record around " + []string{"1 MiB", "2 MiB", "4 MiB"}[(i-n)%len(huge)])
		}
		enc := band[0] + r.Pick(band[1]-band[0])
		// the record is made large through its body or through a text / the headers (fields that the
		// encoders write before and after the body)
		to := gen.TextOpts{CR: cd.name != "csv", CRLF: cd.name != "csv"}
		switch {
		case kind == "body" && cd.name != "gob":
			gen.Inflate(r, &rs[k], kind, enc*3/4, to) // base64 expands by 4/3 in json and csv
		case strings.HasPrefix(kind, "header") && cd.name == "csv":
			gen.Inflate(r, &rs[k], kind, enc*3/4, to)
		default:
			gen.Inflate(r, &rs[k], kind, enc, to)
		}
		s.Count(cd.name + ":boundary-stream-big-field=" + kind)
		st, status := encodeStream(cd, rs)
		if status != "ok" {
			s.Skipped["encoder failed on a generated result (C07's clause): "+cd.name]++
			continue
		}
		s.Count(fmt.Sprintf("%s:boundary-stream-band=%d", cd.name, band[0]))
		if k == 0 {
			s.Count(cd.name + ":boundary-stream large record first")
		}
		s.Case(fmt.Sprint(cd.name, ":boundary:", st.hash), true)
		// the same points read through the format detection (vegeta.DecoderFor), plus a cut inside the last record
		cutsAuto := append([]int{}, st.bounds...)
		if cd.name != "csv" && len(st.bounds) > 0 {
			last := len(st.bounds) - 1
			lo := 0
			if last > 0 {
				lo = st.bounds[last-1]
			}
			cutsAuto = append(cutsAuto, lo+1+r.Pick(st.bounds[last]-lo-1))
		}
		for _, cut := range cutsAuto {
			want := 0
			for _, b := range st.bounds {
				if b <= cut {
					want++
				}
			}
			got, term := decodeAuto(st.data[:cut])
			bad := len(got) != want || term == "panic" || term == "runaway"
			for q := 0; !bad && q < len(got); q++ {
				bad = !gen.SameResult(&got[q], &rs[q])
			}
			if bad {
				vkind := "prefix_missing_record"
				if len(got) > want {
					vkind = "prefix_extra_record"
				}
				s.Violate(kit.Violation{Kind: vkind, What: "a (cut) stream read through the format detection (DecoderFor) does not yield exactly the records completely written before the cut",
					Input:    map[string]interface{}{"codec": cd.name, "read_through": "vegeta.DecoderFor", "body_sizes": bodySizes(rs), "big_field": kind, "large_record_index": k, "cut": cut, "stream_len": len(st.data), "record_ends": st.bounds},
					Expected: fmt.Sprintf("%d records then eof/error", want), Observed: fmt.Sprintf("%d records then %s", len(got), term), Key: map[string]interface{}{"codec": cd.name, "decoder_for": true}})
				break
			}
		}
		// … and through the `encode` command: the complete stream and the stream cut after its first record
		if haveVegeta && (i%2 == 0 || i >= n) {
			for v, cut := range []int{len(st.data), st.bounds[0]} {
				want := len(rs)
				if v == 1 {
					want = 1
				}
				in := filepath.Join(c.Work, fmt.Sprintf("bnd-%s-%d-%d.in", cd.name, i, v))
				out := filepath.Join(c.Work, fmt.Sprintf("bnd-%s-%d-%d.out", cd.name, i, v))
				os.WriteFile(in, st.data[:cut], 0o644)
				os.Remove(out)
				files = append(files, in, out)
				cli = append(cli, cliJob{st, want, out, fmt.Sprintf("%s stream, large record (%s) at index %d, input cut at %d of %d bytes", cd.name, kind, k, cut, len(st.data))})
				ops = append(ops, "encode "+kit.HexS(cd.name)+" "+kit.HexS(out)+" "+kit.HexS(in))
			}
		}
		for j, bnd := range st.bounds {
			got, term := decodePrefix(cd, st.data[:bnd])
			if len(got) != j+1 || term == "panic" || term == "runaway" {
				s.Violate(kit.Violation{Kind: "encode_not_whole_record", What: "after an Encode call returned, the bytes handed to the writer do not decode to exactly the records encoded so far (a record is held back or torn)",
					Input:    map[string]interface{}{"codec": cd.name, "body_sizes": bodySizes(rs), "call": j + 1, "bytes_at_writer": bnd},
					Expected: fmt.Sprintf("%d records then eof/error", j+1), Observed: fmt.Sprintf("%d records then %s", len(got), term),
					Key: map[string]interface{}{"codec": cd.name}})
				break
			}
		}
	}
	if len(ops) > 0 {
		res, err := kit.RunVegeta(c.Vegeta, ops)
		if err != nil {
			s.Skipped["encode-command: driver failed"]++
		} else {
			for i, j := range cli {
				data, _ := os.ReadFile(j.out)
				got, term := decodePrefix(cd, data)
				s.Count(cd.name + ":boundary-stream through the encode command")
				bad := len(got) != j.want || term == "panic" || term == "runaway"
				for q := 0; !bad && q < len(got); q++ {
					bad = !gen.SameResult(&got[q], &j.st.rs[q])
				}
				if bad {
					s.Violate(kit.Violation{Kind: "prefix_missing_record", What: "`vegeta encode` on a stream with a large record: its output does not hold exactly the records completely written to its input",
						Input:    map[string]interface{}{"command": "vegeta encode -to " + cd.name, "input": j.what, "body_sizes": bodySizes(j.st.rs), "command_result": res[i]},
						Expected: fmt.Sprintf("%d records then eof/error", j.want), Observed: fmt.Sprintf("%d records then %s", len(got), term), Key: map[string]interface{}{"codec": cd.name, "encode_command": true}})
				}
			}
		}
		for _, f := range files {
			os.Remove(f)
		}
	}
}

func kindOf(i int) string { return gen.BigFieldKinds[i%len(gen.BigFieldKinds)] }

// runFailingEncode: a result that cannot be marshalled (a year outside 0..9999 makes Time.MarshalJSON
// fail) is handed to a JSON encoder between ordinary ones. Whatever the encoder does afterwards, the bytes
// at the writer after every call must decode to exactly the records of the calls that returned nil.
func runFailingEncode(r *kit.Rng, s *kit.Summary, n int) {
	for i := 0; i < n; i++ {
		var cd codec
		want := "json"
		if i%3 == 2 {
			want = "gob" // Time.MarshalBinary fails on a zone of -00:01 (and beyond ±32767 minutes)
		}
		for _, c := range codecs {
			if c.name == want {
				cd = c
			}
		}
		rs := genStream(r, cd, 0)
		for len(rs) < 4 {
			rs = append(rs, genStream(r, cd, 0)...)
		}
		bad := 1 + r.Pick(len(rs)-2)
		if r.Chance(0.25) {
			bad = 0 // the very first call fails (gob: the type definitions are already out)
		}
		switch {
		case cd.name == "gob":
			rs[bad].Timestamp = rs[bad].Timestamp.In(time.FixedZone("", -60-r.Pick(60)))
		case r.Chance(0.3):
			rs[bad].Timestamp = time.Date(-1-r.Pick(5), 1, 1, 0, 0, 0, 0, time.UTC)
		default:
			rs[bad].Timestamp = time.Date(10000+r.Pick(5), 1, 1, 0, 0, 0, 0, time.UTC)
		}
		if r.Chance(0.3) && bad+1 < len(rs) {
			// two failing calls in a row
			rs[bad+1].Timestamp = rs[bad].Timestamp
		}
		if r.Chance(0.5) {
			rs[bad].Body = make([]byte, 100+r.Pick(400)) // a longer half-written object
		}
		sawError := checkFailingEncode(s, cd, rs)
		s.Case(fmt.Sprint("failing-encode:", i), true)
		s.Count(fmt.Sprintf("%s:failing-encode saw_error=%v first_call=%v", cd.name, sawError, bad == 0))
	}
}

func zoneSecs(rs []vegeta.Result) []int {
	out := make([]int, len(rs))
	for i := range rs {
		_, out[i] = rs[i].Timestamp.Zone()
	}
	return out
}

// checkFailingEncode drives one encoder over rs (some of which cannot be encoded) and checks after every
// call that what reached the writer decodes to exactly the results of the calls that returned nil.
// encCallsModel collects `c09.enccalls` operations: the model of an encoder that is called repeatedly.
var encCallsModel = &kit.Stream{Name: "encoder-call-sequences"}

func zoneTok(x *vegeta.Result) string {
	if x.Timestamp.Location() == time.UTC {
		return "u"
	}
	_, off := x.Timestamp.Zone()
	return strconv.Itoa(off)
}

func checkFailingEncode(s *kit.Summary, cd codec, rs []vegeta.Result) (sawError bool) {
	w := &recWriter{}
	enc := cd.enc(w)
	var okRs []vegeta.Result
	var sizes []int
	status := ""
	wholeMinutes := true
	defer func() {
		if len(sizes) == len(rs) && wholeMinutes {
			op := "c09.enccalls " + cd.name + " " + strconv.Itoa(len(rs))
			for j := range rs {
				op += " " + zoneTok(&rs[j]) + " " + gen.ResultLine(&rs[j])
			}
			encCallsModel.Add(op, ints(sizes)+" |"+status)
		}
	}()
	lines := make([]string, len(rs))
	for j := range rs {
		lines[j] = gen.ResultLine(&rs[j])
	}
	for j := range rs {
		x := rs[j]
		var err error
		p, _ := kit.Recover(func() { err = enc.Encode(&x) })
		if err == nil && !p {
			okRs = append(okRs, rs[j])
			status += " 1"
		} else {
			sawError = true
			status += " 0"
		}
		sizes = append(sizes, w.buf.Len())
		if _, off := x.Timestamp.Zone(); off%60 != 0 && cd.name == "json" {
			wholeMinutes = false // the JSON model prints zones of whole minutes only
		}
		got, term := decodePrefix(cd, w.buf.Bytes())
		// (gob: after a failed call the stream may end with type definitions only, which reads as an unexpected EOF)
		bad := p || len(got) != len(okRs) || term == "panic" || term == "runaway"
		for i := 0; !bad && i < len(got); i++ {
			bad = !gen.SameResult(&got[i], &okRs[i])
		}
		if bad {
			s.Violate(kit.Violation{Kind: "encode_not_whole_record", What: "after an Encode call that failed on an unmarshalable result, a later successful call did not emit exactly one whole record (what reached the writer does not decode to the records of the successful calls)",
				Input:    map[string]interface{}{"codec": cd.name, "failing_encode": true, "results": lines, "zone_sec": zoneSecs(rs), "call": j + 1},
				Expected: fmt.Sprintf("%d records then eof", len(okRs)), Observed: gen.ResultsLine(got, term, false),
				Key: map[string]interface{}{"codec": cd.name, "after_failed_encode": true}})
			return
		}
	}
	return
}

// runAttackCommand: the attack command itself, end to end. `vegeta attack -output file` runs against a local
// server; while it is still running the file must already hold the results of exchanges that finished long
// ago (every result is encoded as it arrives, straight to the file), and after the process was killed the
// file must decode to a clean prefix. Only lower bounds are asserted: at least one complete record in the
// file three seconds after the 10th response went out.
// prefillOutput puts something at the -output path before a command runs: nothing, junk, or a valid and
// long result stream of an earlier run (attack name "previous-run").
func prefillOutput(path, prefill string) {
	os.Remove(path)
	switch prefill {
	case "junk":
		b := make([]byte, 300000)
		for i := range b {
			b[i] = byte(i*7 + i/251)
		}
		os.WriteFile(path, b, 0o644)
	case "old-results":
		var buf bytes.Buffer
		enc := vegeta.NewEncoder(&buf)
		t0 := time.Now().Add(-time.Hour)
		for i := 0; i < 4000; i++ {
			enc.Encode(&vegeta.Result{Attack: "previous-run", Seq: uint64(i), Code: 200, Timestamp: t0.Add(time.Duration(i) * 40 * time.Millisecond),
				Latency: time.Duration(300000 + i*37), BytesIn: 2, Body: []byte("ok"), Method: "GET", URL: "http://127.0.0.1:12345/",
				Headers: http.Header{"Content-Length": {"2"}, "Content-Type": {"text/plain; charset=utf-8"}, "Date": {"Mon, 02 Jan 2006 15:04:05 GMT"}, "X-Served": {"1"}}})
		}
		os.WriteFile(path, buf.Bytes(), 0o644)
	}
}

func gobCodec() codec {
	for _, cd := range codecs {
		if cd.name == "gob" {
			return cd
		}
	}
	panic("no gob codec")
}

// ownRecords: every record decoded from the output file must have been written by THIS run (attack name),
// with distinct sequence numbers.
func ownRecords(s *kit.Summary, in map[string]interface{}, got []vegeta.Result, name string) bool {
	seen := map[uint64]bool{}
	for i := range got {
		if got[i].Attack != name {
			s.Violate(kit.Violation{Kind: "output_foreign_record", What: "decoding the -output file returns a record that this run never wrote (left over from what the file held before)", Input: in,
				Expected: "only records of attack " + name, Observed: fmt.Sprintf("record %d of %d: %s", i, len(got), gen.ResultLine(&got[i])), Key: map[string]interface{}{"codec": "gob"}})
			return false
		}
		// results are written in completion order, so only distinctness of the sequence numbers is asserted
		if seen[got[i].Seq] {
			s.Violate(kit.Violation{Kind: "attack_output_not_clean_prefix", What: "the attack's output holds two records with the same sequence number", Input: in, Observed: gen.ResultLine(&got[i])})
			return false
		}
		seen[got[i].Seq] = true
	}
	return true
}

// runAttackCommand: the attack command itself, end to end. `vegeta attack -output file` runs against a local
// server; while it is still running the file must already hold the results of exchanges that finished long
// ago (every result is encoded as it arrives, straight to the file), and after the process was killed the
// file must decode to a clean prefix of what THIS run wrote — whatever the file held before (nothing, junk,
// or the longer result stream of an earlier run). Only lower bounds are asserted on timing.
func runAttackCommand(c *run.Ctx, s *kit.Summary, prefill string) {
	if _, err := os.Stat(c.Vegeta); err != nil {
		s.Skipped["attack-command: no vegeta binary"]++
		return
	}
	var served int64
	srv := httptest.NewServer(http.HandlerFunc(func(w http.ResponseWriter, _ *http.Request) {
		w.Header().Set("X-Served", "1")
		fmt.Fprint(w, "ok")
		atomic.AddInt64(&served, 1)
	}))
	defer srv.Close()
	out := filepath.Join(c.Work, "attack-e2e.bin")
	prefillOutput(out, prefill)
	name := "this-run-kill"
	cmd := exec.Command(c.Vegeta, "attack", "-name", name, "-rate=25/s", "-duration=20s", "-output", out)
	cmd.Env = append(os.Environ(), "VEGETA_VERIF_DRIVER=")
	cmd.Stdin = strings.NewReader("GET " + srv.URL + "/\n")
	if err := cmd.Start(); err != nil {
		s.Skipped["attack-command: cannot start"]++
		return
	}
	killed := false
	defer func() {
		if !killed {
			cmd.Process.Kill()
			cmd.Wait()
		}
	}()
	deadline := time.Now().Add(8 * time.Second)
	for atomic.LoadInt64(&served) < 10 && time.Now().Before(deadline) {
		time.Sleep(20 * time.Millisecond)
	}
	n0 := atomic.LoadInt64(&served)
	if n0 < 10 {
		s.Skipped["attack-command: local server not reached"]++
		return
	}
	time.Sleep(3 * time.Second) // generous: the attack process only has to be scheduled once in this time
	while, _ := os.ReadFile(out)
	cmd.Process.Kill() // the writer is killed
	cmd.Wait()
	killed = true
	after, _ := os.ReadFile(out)
	gobc := gobCodec()
	got, term := decodePrefix(gobc, while)
	s.Case("attack-command:kill:"+prefill, true)
	s.Count("attack-command:killed-run output-held-before=" + prefill)
	in := map[string]interface{}{"command": "vegeta attack -name " + name + " -rate=25/s -duration=20s -output FILE (killed after ≥10 responses + 3 s)", "output_file_held_before": prefill,
		"responses_served_three_seconds_before_reading": n0, "file_bytes_while_running": len(while), "file_bytes_after_kill": len(after)}
	own := 0
	for i := range got {
		if got[i].Attack == name {
			own++
		}
	}
	if own < 1 || term == "panic" {
		s.Violate(kit.Violation{Kind: "attack_output_held_back", What: "the attack command does not write each result as it arrives: three seconds after the 10th response the output file holds no complete record of this run",
			Input: in, Expected: "≥ 1 complete record in the file while the attack is running", Observed: fmt.Sprintf("%d records (%d of this run) then %s", len(got), own, term),
			Key: map[string]interface{}{"codec": "gob"}})
		return
	}
	got2, term2 := decodePrefix(gobc, after)
	if own2 := len(got2); own2 < own || term2 == "panic" || term2 == "runaway" {
		s.Violate(kit.Violation{Kind: "attack_output_not_clean_prefix", What: "the output file of a killed attack does not decode to a clean prefix", Input: in,
			Observed: fmt.Sprintf("%d records then %s (while running: %d)", len(got2), term2, len(got))})
	}
	ownRecords(s, in, got2, name)
}

// runEncodeTruncated: `vegeta encode` (in-process through the verif binary) on TRUNCATED input files. Whatever
// the command returns, what it wrote must decode to exactly the records that were completely written before
// the cut of its input (the same prefix the decoder itself yields on the cut input), in all three target
// encodings. Inputs are long (hundreds of records), cut inside the last / a middle record or at a boundary.
func runEncodeTruncated(c *run.Ctx, r *kit.Rng, s *kit.Summary, n int) {
	if _, err := os.Stat(c.Vegeta); err != nil {
		s.Skipped["encode-command: no vegeta binary"]++
		return
	}
	var csvc codec
	for _, cd := range codecs {
		if cd.name == "csv" {
			csvc = cd
		}
	}
	type job struct {
		from, to codec
		want     []vegeta.Result
		out      string
		where    string
		cut, len int
		nrec     int
		input    []byte
	}
	var jobs []job
	var ops []string
	var files []string
	for i := 0; i < n; i++ {
		from := codecs[0] // gob twice as often: the only input whose torn tail is an error rather than a plain EOF
		if i%4 == 2 {
			from = codecs[1]
		} else if i%4 == 3 {
			from = codecs[2]
		}
		var rs []vegeta.Result
		for len(rs) < 300+r.Pick(300) {
			rs = append(rs, genStream(r, csvc, -1)...) // the CSV domain is the intersection of the three
		}
		st, status := encodeStream(from, rs)
		if status != "ok" {
			continue
		}
		k, where := 0, ""
		last := len(st.bounds) - 1
		switch w := r.Pick(6); {
		case from.name == "csv" || w == 0:
			j := r.Pick(len(st.bounds))
			k, where = st.bounds[j], "at a record boundary"
		case w <= 2:
			k, where = st.bounds[last-1]+1+r.Pick(st.bounds[last]-st.bounds[last-1]-1), "inside the last record"
		case w == 3:
			k, where = st.bounds[last]-1, "one byte before the end"
		default:
			j := 1 + r.Pick(last)
			k, where = st.bounds[j-1]+1+r.Pick(st.bounds[j]-st.bounds[j-1]-1), "inside a middle record"
		}
		want, _ := decodePrefix(from, st.data[:k])
		in := filepath.Join(c.Work, fmt.Sprintf("trunc-%d.in", i))
		os.WriteFile(in, st.data[:k], 0o644)
		files = append(files, in)
		for _, to := range codecs {
			out := filepath.Join(c.Work, fmt.Sprintf("trunc-%d-%s.out", i, to.name))
			os.Remove(out)
			files = append(files, out)
			jobs = append(jobs, job{from, to, want, out, where, k, len(st.data), len(rs), st.data[:k]})
			ops = append(ops, "encode "+kit.HexS(to.name)+" "+kit.HexS(out)+" "+kit.HexS(in))
		}
	}
	res, err := kit.RunVegeta(c.Vegeta, ops)
	if err != nil {
		s.Skipped["encode-command: driver failed"]++
		return
	}
	// the model of the command loop (Model/EncodeCmd.lean) on the same cut inputs: same return status, same
	// number of output bytes (the order of header map entries is free), and its output read by the real decoder
	var mops []string
	var midx []int
	for i, j := range jobs {
		if (i/3+i)%3 != 0 { // every input once, with a rotating target
			continue
		}
		midx = append(midx, i)
		z := "u"
		if len(j.want) > 0 {
			z = zoneTok(&j.want[0])
		}
		mops = append(mops, "c09.encodecmd "+j.from.name+" "+j.to.name+" "+z+" "+kit.Hex(j.input))
	}
	mouts, merr := kit.RunDriver(c.Driver, mops)
	s.Streams["encode-command-model"] += len(mops)
	if merr != nil {
		s.Diverge("encode-command-model", "(driver failure)", "", merr.Error())
		mouts = nil
	}
	for i, j := range jobs {
		data, _ := os.ReadFile(j.out) // no file = nothing written
		got, term := decodePrefix(j.to, data)
		mi := -1
		for q, ix := range midx {
			if ix == i {
				mi = q
			}
		}
		if mouts != nil && mi >= 0 {
			f := strings.Fields(mouts[mi])
			realStatus := "ok"
			if strings.HasPrefix(res[i], "err") {
				realStatus = "err"
			}
			if len(f) != 2 || f[0] != realStatus {
				if !(len(j.want) == 0 && realStatus == "err") { // nothing decodable: format detection fails before the loop (C08)
					s.Diverge("encode-command-model", clipOp(mops[mi]), realStatus, clipOp(mouts[mi]))
				}
			} else {
				mb := kit.UnHex(f[1])
				mg, mt := decodePrefix(j.to, mb)
				same := len(mb) == len(data) && len(mg) == len(got) && mt == term
				for k := 0; same && k < len(mg); k++ {
					same = gen.SameResult(&mg[k], &got[k])
				}
				if !same {
					s.Diverge("encode-command-model", clipOp(mops[mi]), fmt.Sprintf("%s, %d bytes, %d records then %s", realStatus, len(data), len(got), term),
						fmt.Sprintf("%s, %d bytes, %d records then %s", f[0], len(mb), len(mg), mt))
				}
			}
		}
		s.Case(fmt.Sprint("encode-truncated:", i), true)
		s.Count("encode-command:truncated-input from=" + j.from.name + " cut " + j.where)
		if strings.HasPrefix(res[i], "err") {
			s.Count("encode-command:truncated-input command-returned-error from=" + j.from.name)
		}
		bad := len(got) != len(j.want) || term == "panic" || term == "runaway"
		for k := 0; !bad && k < len(got); k++ {
			bad = !gen.SameResult(&got[k], &j.want[k])
		}
		if bad {
			kind := "prefix_missing_record"
			if len(got) > len(j.want) {
				kind = "prefix_extra_record"
			}
			s.Violate(kit.Violation{Kind: kind, What: "`vegeta encode` on a truncated input: its output does not hold exactly the records completely written before the cut",
				Input:    map[string]interface{}{"command": "vegeta encode -to " + j.to.name + " -output OUT IN", "input_codec": j.from.name, "input_records": j.nrec, "input_bytes": j.len, "input_cut_at": j.cut, "cut": j.where, "command_result": res[i]},
				Expected: fmt.Sprintf("%d records then eof/error", len(j.want)), Observed: fmt.Sprintf("%d records then %s", len(got), term),
				Key: map[string]interface{}{"codec": j.from.name, "encode_command": true}})
		}
	}
	for _, f := range files {
		os.Remove(f)
	}
}

// runRoundRobinCut: several result streams read TOGETHER, as every command does when more than one file is
// named (vegeta.NewRoundRobinDecoder; `encode` over several files): a stream cut at a sampled offset next to
// intact and other cut streams, encodings mixed, records heterogeneous (a record with every field set next
// to one with all-zero fields). Every record handed out must be a record completely written to its own
// stream before that stream's cut (attack name = stream, compared field by field), each stream's order kept,
// nothing invented, nothing lost.
func runRoundRobinCut(c *run.Ctx, r *kit.Rng, s *kit.Summary, n int) {
	var csvc codec
	for _, cd := range codecs {
		if cd.name == "csv" {
			csvc = cd
		}
	}
	haveVegeta := false
	if _, err := os.Stat(c.Vegeta); err == nil {
		haveVegeta = true
	}
	type set struct {
		want   [][]vegeta.Result
		cds    []string
		cuts   []string
		out    string
		to     codec
		encode bool
	}
	var sets []set
	var ops []string
	var files []string
	check := func(st set, got []vegeta.Result, via string) {
		in := map[string]interface{}{"read_through": via, "stream_codecs": st.cds, "stream_cuts": st.cuts}
		next := make([]int, len(st.want))
		for i := range got {
			x := &got[i]
			k := -1
			fmt.Sscanf(x.Attack, "stream-%d", &k)
			if k < 0 || k >= len(st.want) || next[k] >= len(st.want[k]) || !gen.SameResult(x, &st.want[k][next[k]]) {
				exp := "no further record"
				if k >= 0 && k < len(st.want) && next[k] < len(st.want[k]) {
					exp = gen.ResultLine(&st.want[k][next[k]])
				}
				s.Violate(kit.Violation{Kind: "prefix_extra_record", What: "reading several (cut) streams together hands out a record that was never written to its stream", Input: in,
					Expected: exp, Observed: fmt.Sprintf("record %d of %d: %s", i, len(got), gen.ResultLine(x)), Key: map[string]interface{}{"round_robin": true}})
				return
			}
			next[k]++
		}
		for k := range st.want {
			if next[k] != len(st.want[k]) {
				s.Violate(kit.Violation{Kind: "prefix_missing_record", What: "reading several (cut) streams together loses records that were completely written before the cut", Input: in,
					Expected: fmt.Sprintf("%d records of stream %d", len(st.want[k]), k), Observed: fmt.Sprintf("%d", next[k]), Key: map[string]interface{}{"round_robin": true}})
				return
			}
		}
	}
	for i := 0; i < n; i++ {
		ns := 2 + r.Pick(2)
		st := set{to: codecs[i%len(codecs)]}
		var decs []vegeta.Decoder
		var paths []string
		detectable := true
		for k := 0; k < ns; k++ {
			cd := codecs[r.Pick(len(codecs))]
			if k == 0 || r.Chance(0.4) {
				cd = gobCodec() // gob omits zero fields: the decoder that exposes leftovers of an earlier record
			}
			rs := genStream(r, csvc, 0)
			for len(rs) < 4 {
				rs = append(rs, genStream(r, csvc, 0)...)
			}
			for j := range rs {
				if j%2 == 1 { // an all-zero-fields record right after a populated one
					rs[j] = vegeta.Result{Timestamp: rs[j].Timestamp}
				} else if len(rs[j].Headers) == 0 {
					rs[j].Headers = http.Header{"X-Stream": {strconv.Itoa(k)}, "X-J": {strconv.Itoa(j), "v"}}
				}
				if rs[j].Error == "" && j%2 == 0 {
					rs[j].Error = "error of stream " + strconv.Itoa(k)
				}
				rs[j].Attack = fmt.Sprintf("stream-%d", k)
				rs[j].Seq = uint64(j)
			}
			es, status := encodeStream(cd, rs)
			if status != "ok" {
				detectable = false
				break
			}
			cut, where := len(es.data), "intact"
			if k == 0 || r.Chance(0.5) {
				j := 1 + r.Pick(len(es.bounds)-1)
				switch {
				case cd.name == "csv" || r.Chance(0.25):
					cut, where = es.bounds[j], "cut at a record boundary"
				default:
					cut, where = es.bounds[j-1]+1+r.Pick(es.bounds[j]-es.bounds[j-1]-1), "cut inside a record"
				}
			}
			nw := 0
			for _, b := range es.bounds {
				if b <= cut {
					nw++
				}
			}
			st.want = append(st.want, rs[:nw])
			st.cds = append(st.cds, cd.name)
			st.cuts = append(st.cuts, fmt.Sprintf("%s (%d of %d bytes, %d of %d records)", where, cut, len(es.data), nw, len(rs)))
			decs = append(decs, cd.dec(bytes.NewReader(es.data[:cut])))
			p := filepath.Join(c.Work, fmt.Sprintf("rr-%d-%d.in", i, k))
			os.WriteFile(p, es.data[:cut], 0o644)
			paths = append(paths, p)
			files = append(files, p)
			if nw == 0 {
				detectable = false
			}
			s.Count("round-robin:stream " + cd.name + " " + where)
		}
		if len(decs) != ns {
			continue
		}
		// the library's round robin decoder, a fresh Result per call as the commands do
		var got []vegeta.Result
		p, _ := kit.Recover(func() {
			dec := vegeta.NewRoundRobinDecoder(decs...)
			for len(got) < 10000 {
				var x vegeta.Result
				if err := dec.Decode(&x); err != nil {
					return
				}
				got = append(got, x)
			}
		})
		s.Case(fmt.Sprint("round-robin:", i), true)
		if p {
			s.Violate(kit.Violation{Kind: "prefix_panic", What: "the round robin decoder panicked on cut streams", Input: map[string]interface{}{"stream_codecs": st.cds, "stream_cuts": st.cuts}})
			continue
		}
		check(st, got, "vegeta.NewRoundRobinDecoder")
		if haveVegeta && detectable {
			st.out = filepath.Join(c.Work, fmt.Sprintf("rr-%d.out", i))
			st.encode = true
			op := "encode " + kit.HexS(st.to.name) + " " + kit.HexS(st.out)
			for _, p := range paths {
				op += " " + kit.HexS(p)
			}
			ops = append(ops, op)
			sets = append(sets, st)
			files = append(files, st.out)
		}
	}
	if len(ops) > 0 {
		if _, err := kit.RunVegeta(c.Vegeta, ops); err != nil {
			s.Skipped["encode-command: driver failed"]++
		} else {
			for _, st := range sets {
				data, _ := os.ReadFile(st.out)
				got, _ := decodePrefix(st.to, data)
				s.Count("round-robin:encode over several files to=" + st.to.name)
				check(st, got, "vegeta encode -to "+st.to.name+" over the files")
			}
		}
	}
	for _, f := range files {
		os.Remove(f)
	}
}

// runGuarded runs the real vegeta binary with a deadline and a cap on the size of its -output file
// (a command that reads an endless supply of records would otherwise never end / fill the disk).
// Returns the exit error, and whether it had to be stopped ("deadline" / "output flood").
func runGuarded(c *run.Ctx, out string, cap int64, deadline time.Duration, args ...string) (exit error, stopped string) {
	cmd := exec.Command(c.Vegeta, args...)
	cmd.Env = append(os.Environ(), "VEGETA_VERIF_DRIVER=")
	var stderr bytes.Buffer
	cmd.Stderr = &stderr
	cmd.Stdout = io.Discard
	if err := cmd.Start(); err != nil {
		return err, "cannot start"
	}
	done := make(chan error, 1)
	go func() { done <- cmd.Wait() }()
	t0 := time.Now()
	for {
		select {
		case err := <-done:
			return err, ""
		case <-time.After(20 * time.Millisecond):
		}
		if fi, err := os.Stat(out); err == nil && fi.Size() > cap {
			cmd.Process.Kill()
			<-done
			return nil, "output flood"
		}
		if time.Since(t0) > deadline {
			cmd.Process.Kill()
			<-done
			return nil, "deadline"
		}
	}
}

// runEarlyCuts: the commands on inputs cut BEFORE the first record is complete (offset 0, inside the gob type
// definitions, inside the first record, one byte before its end) and just after it — a single file, two such
// files, and such a file next to an intact one. What `encode` writes (and what `report` counts) must be
// records completely written to the inputs — nothing invented, in particular no endless run of records —
// and, when the command reports success, all of them; then end-of-stream or an error.
func runEarlyCuts(c *run.Ctx, r *kit.Rng, s *kit.Summary) {
	if _, err := os.Stat(c.Vegeta); err != nil {
		s.Skipped["early-cuts: no vegeta binary"]++
		return
	}
	var csvc codec
	for _, cd := range codecs {
		if cd.name == "csv" {
			csvc = cd
		}
	}
	mkStream := func(cd codec, k int) *stream {
		rs := genStream(r, csvc, 0)
		for len(rs) < 3 {
			rs = append(rs, genStream(r, csvc, 0)...)
		}
		for j := range rs {
			rs[j].Attack = fmt.Sprintf("stream-%d", k)
			rs[j].Seq = uint64(j)
		}
		st, _ := encodeStream(cd, rs)
		return st
	}
	type input struct {
		st  *stream
		cut int
	}
	run1 := func(tag string, ins []input, to codec) {
		var paths []string
		var want [][]vegeta.Result
		var desc []string
		for k, in := range ins {
			p := filepath.Join(c.Work, fmt.Sprintf("early-%s-%d.in", tag, k))
			os.WriteFile(p, in.st.data[:in.cut], 0o644)
			paths = append(paths, p)
			n := 0
			for _, b := range in.st.bounds {
				if b <= in.cut {
					n++
				}
			}
			want = append(want, in.st.rs[:n])
			desc = append(desc, fmt.Sprintf("%s cut at %d of %d bytes (first record ends at %d): %d complete records", in.st.Codec, in.cut, len(in.st.data), in.st.bounds[0], n))
		}
		total := 0
		for _, w := range want {
			total += len(w)
		}
		out := filepath.Join(c.Work, "early-"+tag+".out")
		os.Remove(out)
		inputDesc := map[string]interface{}{"command": "vegeta encode -to " + to.name + " -output OUT " + fmt.Sprint(len(paths)) + " file(s)", "inputs": desc}
		exit, stopped := runGuarded(c, out, 4<<20, 10*time.Second, append([]string{"encode", "-to", to.name, "-output", out}, paths...)...)
		s.Case("early-cut:"+tag, true)
		s.Count(fmt.Sprintf("early-cuts:encode files=%d complete-records=%d", len(paths), total))
		data, _ := os.ReadFile(out)
		got, term := decodePrefix(to, data)
		key := map[string]interface{}{"codec": to.name, "encode_command": true}
		bad := ""
		next := make([]int, len(want))
		for i := range got {
			k := -1
			fmt.Sscanf(got[i].Attack, "stream-%d", &k)
			// want[k] is the k-th file of THIS invocation; the stream numbers were chosen to coincide
			if k < 0 || k >= len(want) || next[k] >= len(want[k]) || !gen.SameResult(&got[i], &want[k][next[k]]) {
				bad = fmt.Sprintf("record %d of %d was never written to the inputs: %s", i, len(got), gen.ResultLine(&got[i]))
				break
			}
			next[k]++
		}
		switch {
		case bad != "" || stopped == "output flood" || term == "runaway":
			if bad == "" {
				bad = "the command floods its output"
			}
			s.Violate(kit.Violation{Kind: "prefix_extra_record", What: "`vegeta encode` on inputs cut before/around the end of their first record writes records that were never written to them", Input: inputDesc,
				Expected: fmt.Sprintf("at most the %d complete records, then eof/error", total), Observed: fmt.Sprintf("%s; stopped=%q, %d records then %s", bad, stopped, len(got), term), Key: key})
		case stopped == "deadline":
			s.Violate(kit.Violation{Kind: "prefix_runaway", What: "`vegeta encode` on inputs cut before the end of their first record does not end", Input: inputDesc, Observed: "killed after 10 s", Key: key})
		case exit == nil && len(got) != total:
			s.Violate(kit.Violation{Kind: "prefix_missing_record", What: "`vegeta encode` reported success but its output lacks records completely written to the inputs", Input: inputDesc,
				Expected: fmt.Sprintf("%d records", total), Observed: fmt.Sprintf("%d records then %s", len(got), term), Key: key})
		}
		// `report` over the same inputs: the number of requests it counts
		rout := filepath.Join(c.Work, "early-"+tag+".report")
		os.Remove(rout)
		rexit, rstopped := runGuarded(c, rout, 4<<20, 10*time.Second, append([]string{"report", "-type", "json", "-output", rout}, paths...)...)
		s.Count(fmt.Sprintf("early-cuts:report files=%d", len(paths)))
		if rstopped == "deadline" || rstopped == "output flood" {
			s.Violate(kit.Violation{Kind: "prefix_runaway", What: "`vegeta report` on inputs cut before the end of their first record does not end (it is fed records without end)",
				Input: map[string]interface{}{"command": "vegeta report -type json -output OUT " + fmt.Sprint(len(paths)) + " file(s)", "inputs": desc}, Observed: "stopped: " + rstopped, Key: map[string]interface{}{"report_command": true}})
		} else if rexit == nil {
			var rep struct {
				Requests *int `json:"requests"`
			}
			rb, _ := os.ReadFile(rout)
			if json.Unmarshal(rb, &rep) != nil || rep.Requests == nil {
				s.Skipped["early-cuts: report output not recognised"]++
			} else if *rep.Requests != total {
				kind := "prefix_missing_record"
				if *rep.Requests > total {
					kind = "prefix_extra_record"
				}
				s.Violate(kit.Violation{Kind: kind, What: "`vegeta report` counts a number of results different from the records completely written to its inputs",
					Input: map[string]interface{}{"command": "vegeta report -type json", "inputs": desc}, Expected: fmt.Sprint(total), Observed: fmt.Sprint(*rep.Requests), Key: map[string]interface{}{"report_command": true}})
			}
		}
		for _, p := range paths {
			os.Remove(p)
		}
		os.Remove(out)
		os.Remove(rout)
	}
	for ci, cd := range codecs {
		st0 := mkStream(cd, 0)
		first := st0.bounds[0]
		cutsEarly := []int{0, 1, first / 2, first - 1}
		if cd.name == "gob" {
			cutsEarly = append(cutsEarly, 100, 206, 207) // inside / at the end of / just after the type definitions
		}
		if cd.name == "csv" {
			cutsEarly = []int{0} // CSV: cuts at record boundaries only
		}
		for qi, cut := range cutsEarly {
			if cut >= first {
				continue
			}
			s.Count("early-cuts:" + cd.name + " single file cut before the first record is complete")
			run1(fmt.Sprintf("%s-1-%d", cd.name, qi), []input{{st0, cut}}, codecs[(ci+qi)%len(codecs)])
		}
		// just after the first record, and the complete stream (sanity: the records must all come out)
		run1(cd.name+"-1-after", []input{{st0, first}}, codecs[(ci+1)%len(codecs)])
		run1(cd.name+"-1-full", []input{{st0, len(st0.data)}}, codecs[(ci+2)%len(codecs)])
		// two files: both cut early; an early-cut one next to an intact one (either order)
		st1 := mkStream(codecs[(ci+1)%len(codecs)], 1)
		early1 := 0
		if st1.Codec != "csv" {
			early1 = st1.bounds[0] / 2
		}
		early0 := cutsEarly[len(cutsEarly)/2]
		if early0 >= first {
			early0 = 0
		}
		run1(cd.name+"-2-both", []input{{st0, early0}, {st1, early1}}, cd)
		run1(cd.name+"-2-early+intact", []input{{st0, early0}, {st1, len(st1.data)}}, cd)
		run1(cd.name+"-2-intact+early", []input{{st0, len(st0.data)}, {st1, early1}}, cd)
	}
}

// runAttackFlakyPipe: `vegeta attack` writing its results to stdout, stdout being a pipe that is switched
// to O_NONBLOCK behind the process's back after it started (Go does not poll it then: a full pipe makes
// write(2) fail with EAGAIN, possibly after a partial write), with large records (45 kB bodies against a
// 64 KiB pipe) and a reader that is slower than the attack. Whatever the attack does about the failing
// write, every record a decoder hands out from what reached the reader must be one of the server's
// exchanges, whole; and if the attack exits with status 0 the stream must end on a record boundary.
func runAttackFlakyPipe(c *run.Ctx, s *kit.Summary) {
	if _, err := os.Stat(c.Vegeta); err != nil {
		s.Skipped["attack-command: no vegeta binary"]++
		return
	}
	body := make([]byte, 45000)
	for i := range body {
		body[i] = byte(i%251) + 1 // never zero, never looks like gob framing
	}
	var served int64
	srv := httptest.NewServer(http.HandlerFunc(func(w http.ResponseWriter, _ *http.Request) {
		w.Header().Set("X-Served", "1")
		w.Write(body)
		atomic.AddInt64(&served, 1)
	}))
	defer srv.Close()
	var fds [2]int
	if err := syscall.Pipe(fds[:]); err != nil { // a raw pipe: blocking when the child starts
		s.Skipped["attack-command: no pipe"]++
		return
	}
	rd := os.NewFile(uintptr(fds[0]), "results-reader")
	wr := os.NewFile(uintptr(fds[1]), "results-writer")
	defer rd.Close()
	name := "this-run-pipe"
	target := srv.URL + "/"
	cmd := exec.Command(c.Vegeta, "attack", "-name", name, "-rate=50/s", "-duration=3s", "-max-body=-1", "-output", "stdout")
	cmd.Env = append(os.Environ(), "VEGETA_VERIF_DRIVER=")
	cmd.Stdin = strings.NewReader("GET " + target + "\n")
	cmd.Stdout = wr
	var stderr bytes.Buffer
	cmd.Stderr = &stderr
	if err := cmd.Start(); err != nil {
		wr.Close()
		s.Skipped["attack-command: cannot start"]++
		return
	}
	deadline := time.Now().Add(8 * time.Second)
	for atomic.LoadInt64(&served) < 1 && time.Now().Before(deadline) {
		time.Sleep(5 * time.Millisecond)
	}
	// the same open file description as the child's stdout: its writes become non-blocking from now on
	nbErr := syscall.SetNonblock(fds[1], true)
	wr.Close()
	waited := make(chan error, 1)
	go func() { waited <- cmd.Wait() }()
	time.Sleep(400 * time.Millisecond) // the pipe fills up
	var stream bytes.Buffer
	buf := make([]byte, 64<<10)
	readDone := make(chan struct{})
	go func() {
		defer close(readDone)
		for {
			time.Sleep(50 * time.Millisecond) // slower than the attack writes
			n, err := rd.Read(buf)
			stream.Write(buf[:n])
			if err != nil {
				return
			}
		}
	}()
	var exitErr error
	select {
	case exitErr = <-waited:
	case <-time.After(40 * time.Second):
		cmd.Process.Kill()
		exitErr = <-waited
		<-readDone
		s.Skipped["attack-command: pipe run did not finish"]++
		return
	}
	<-readDone
	if nbErr != nil || atomic.LoadInt64(&served) < 1 {
		s.Skipped["attack-command: pipe run not set up"]++
		return
	}
	got, term := decodePrefix(gobCodec(), stream.Bytes())
	eagain := strings.Contains(stderr.String(), "temporarily unavailable")
	s.Case("attack-command:nonblocking-pipe", true)
	s.Count(fmt.Sprintf("attack-command:nonblocking-pipe exit0=%v eagain-reported=%v", exitErr == nil, eagain))
	in := map[string]interface{}{"command": "vegeta attack -name " + name + " -rate=50/s -duration=3s -output stdout; stdout = pipe switched to O_NONBLOCK after start, 45000-byte bodies, slow reader",
		"exchanges_served": atomic.LoadInt64(&served), "bytes_read": stream.Len(), "attack_exit": fmt.Sprint(exitErr), "attack_stderr": strings.TrimSpace(stderr.String())}
	key := map[string]interface{}{"codec": "gob"}
	seen := map[uint64]bool{}
	for i := range got {
		x := &got[i]
		genuine := x.Attack == name && x.Method == "GET" && x.URL == target && !seen[x.Seq] && x.Seq < uint64(atomic.LoadInt64(&served))+1000
		if genuine && x.Error == "" {
			genuine = x.Code == 200 && x.BytesIn == uint64(len(body)) && bytes.Equal(x.Body, body) && x.Headers.Get("X-Served") == "1"
		}
		if !genuine {
			y := *x
			if len(y.Body) > 64 {
				y.Body = y.Body[:64]
			}
			s.Violate(kit.Violation{Kind: "prefix_extra_record", What: "a decoder reading the attack's output hands out a record that was never written (torn or spliced message)", Input: in,
				Expected: "only whole records of this attack's exchanges", Observed: fmt.Sprintf("record %d of %d (body %d bytes, first 64 shown): %s", i, len(got), len(x.Body), gen.ResultLine(&y)), Key: key})
			return
		}
		seen[x.Seq] = true
	}
	if int64(len(got)) > atomic.LoadInt64(&served) {
		s.Violate(kit.Violation{Kind: "prefix_extra_record", What: "more records decode from the attack's output than exchanges took place", Input: in, Observed: fmt.Sprintf("%d records", len(got)), Key: key})
		return
	}
	// exit status 0 = every Encode call returned nil, so every exchange the server answered has its record in the
	// output (then end-of-stream or an error)
	if exitErr == nil && int64(len(got)) < atomic.LoadInt64(&served) {
		s.Violate(kit.Violation{Kind: "encode_not_whole_record", What: "the attack reported success, yet records of calls that succeeded do not decode from its output (a call did not leave exactly one whole record)", Input: in,
			Expected: fmt.Sprintf("≥ %d records", atomic.LoadInt64(&served)), Observed: fmt.Sprintf("%d records then %s", len(got), term), Key: key})
	}
}

// runAttackInterrupted: `vegeta attack` stopped by one SIGINT while requests are in flight (the attack then
// waits for them and exits), its results going to `-output <outArg>` where outArg names the process's own
// stdout in one of its spellings (stdout, /dev/stdout, /dev/fd/1) and fd 1 is a pipe the harness reads.
// The stream must decode to the records of the exchanges: nothing foreign, and — the attack having exited
// with status 0, i.e. every Encode call returned nil — nothing lost; then end-of-stream or an error.
func runAttackInterrupted(c *run.Ctx, s *kit.Summary, outArg string) {
	if _, err := os.Stat(c.Vegeta); err != nil {
		s.Skipped["attack-command: no vegeta binary"]++
		return
	}
	var served int64
	srv := httptest.NewServer(http.HandlerFunc(func(w http.ResponseWriter, _ *http.Request) {
		time.Sleep(300 * time.Millisecond) // so that requests are in flight when the signal arrives
		w.Header().Set("X-Served", "1")
		fmt.Fprint(w, "ok")
		atomic.AddInt64(&served, 1)
	}))
	defer srv.Close()
	rd, wr, err := os.Pipe()
	if err != nil {
		s.Skipped["attack-command: no pipe"]++
		return
	}
	defer rd.Close()
	name := "this-run-sigint"
	target := srv.URL + "/"
	cmd := exec.Command(c.Vegeta, "attack", "-name", name, "-rate=50/s", "-duration=30s", "-output", outArg)
	cmd.Env = append(os.Environ(), "VEGETA_VERIF_DRIVER=")
	cmd.Stdin = strings.NewReader("GET " + target + "\n")
	cmd.Stdout = wr
	var stderr bytes.Buffer
	cmd.Stderr = &stderr
	if err := cmd.Start(); err != nil {
		wr.Close()
		s.Skipped["attack-command: cannot start"]++
		return
	}
	wr.Close()
	var stream bytes.Buffer
	readDone := make(chan struct{})
	go func() { io.Copy(&stream, rd); close(readDone) }()
	waited := make(chan error, 1)
	go func() { waited <- cmd.Wait() }()
	deadline := time.Now().Add(8 * time.Second)
	for atomic.LoadInt64(&served) < 10 && time.Now().Before(deadline) {
		time.Sleep(10 * time.Millisecond)
	}
	reached := atomic.LoadInt64(&served) >= 10
	cmd.Process.Signal(os.Interrupt)
	var exitErr error
	select {
	case exitErr = <-waited:
	case <-time.After(40 * time.Second):
		cmd.Process.Kill()
		<-waited
		<-readDone
		s.Skipped["attack-command: interrupted run did not finish"]++
		return
	}
	<-readDone
	if !reached {
		s.Skipped["attack-command: interrupted run not set up ("+outArg+")"]++
		return
	}
	total := atomic.LoadInt64(&served)
	got, term := decodePrefix(gobCodec(), stream.Bytes())
	s.Case("attack-command:sigint:"+outArg, true)
	s.Count(fmt.Sprintf("attack-command:interrupted run -output %s exit0=%v", outArg, exitErr == nil))
	in := map[string]interface{}{"command": "vegeta attack -name " + name + " -rate=50/s -duration=30s -output " + outArg + " (fd 1 = pipe), one SIGINT after ≥ 10 exchanges, 300 ms per exchange",
		"exchanges_served": total, "bytes_read": stream.Len(), "attack_exit": fmt.Sprint(exitErr), "attack_stderr": strings.TrimSpace(stderr.String())}
	key := map[string]interface{}{"codec": "gob"}
	seen := map[uint64]bool{}
	for i := range got {
		x := &got[i]
		if x.Attack != name || x.Method != "GET" || x.URL != target || seen[x.Seq] || (x.Error == "" && (x.Code != 200 || string(x.Body) != "ok")) {
			s.Violate(kit.Violation{Kind: "prefix_extra_record", What: "a decoder reading the interrupted attack's output hands out a record that was never written", Input: in,
				Observed: fmt.Sprintf("record %d of %d: %s", i, len(got), gen.ResultLine(x)), Key: key})
			return
		}
		seen[x.Seq] = true
	}
	if term == "panic" || term == "runaway" {
		s.Violate(kit.Violation{Kind: "prefix_" + term, What: "decoding the interrupted attack's output", Input: in, Key: key})
		return
	}
	// exit status 0: every Encode call returned nil, so every exchange the server answered has its record
	if exitErr == nil && int64(len(got)) < total {
		s.Violate(kit.Violation{Kind: "prefix_missing_record", What: "the attack was interrupted once, waited for the requests in flight and reported success, yet records it wrote completely do not decode from its output", Input: in,
			Expected: fmt.Sprintf("≥ %d records then eof/error", total), Observed: fmt.Sprintf("%d records then %s", len(got), term), Key: key})
	}
}

// runAttackComplete: a short attack that runs to its end onto an -output path that already holds something.
// The file must then be exactly this run's stream: only its records, then end-of-stream.
func runAttackComplete(c *run.Ctx, s *kit.Summary, prefill string) {
	if _, err := os.Stat(c.Vegeta); err != nil {
		s.Skipped["attack-command: no vegeta binary"]++
		return
	}
	srv := httptest.NewServer(http.HandlerFunc(func(w http.ResponseWriter, _ *http.Request) {
		w.Header().Set("X-Served", "1")
		fmt.Fprint(w, "ok")
	}))
	defer srv.Close()
	out := filepath.Join(c.Work, "attack-e2e-complete.bin")
	prefillOutput(out, prefill)
	name := "this-run-complete"
	cmd := exec.Command(c.Vegeta, "attack", "-name", name, "-rate=40/s", "-duration=500ms", "-output", out)
	cmd.Env = append(os.Environ(), "VEGETA_VERIF_DRIVER=")
	cmd.Stdin = strings.NewReader("GET " + srv.URL + "/\n")
	done := make(chan error, 1)
	if err := cmd.Start(); err != nil {
		s.Skipped["attack-command: cannot start"]++
		return
	}
	go func() { done <- cmd.Wait() }()
	select {
	case err := <-done:
		if err != nil {
			s.Skipped["attack-command: short attack failed"]++
			return
		}
	case <-time.After(30 * time.Second):
		cmd.Process.Kill()
		<-done
		s.Skipped["attack-command: short attack did not finish"]++
		return
	}
	data, _ := os.ReadFile(out)
	got, term := decodePrefix(gobCodec(), data)
	s.Case("attack-command:complete:"+prefill, true)
	s.Count("attack-command:completed-run output-held-before=" + prefill)
	in := map[string]interface{}{"command": "vegeta attack -name " + name + " -rate=40/s -duration=500ms -output FILE (ran to its end)", "output_file_held_before": prefill, "file_bytes": len(data)}
	if !ownRecords(s, in, got, name) {
		return
	}
	if len(got) < 1 || term == "panic" || term == "runaway" {
		s.Violate(kit.Violation{Kind: "output_not_this_runs_stream", What: "after a completed run the -output file does not decode to this run's records (then end-of-stream or an error)",
			Input: in, Expected: "≥ 1 records of this run then eof/error", Observed: fmt.Sprintf("%d records then %s", len(got), term), Key: map[string]interface{}{"codec": "gob"}})
	}
}

// runEncodeOverwrite: `vegeta encode -output P` twice to the same path, the second input shorter than the
// first (and once onto junk): the file must decode to exactly the second run's records, then end-of-stream.
func runEncodeOverwrite(c *run.Ctx, r *kit.Rng, s *kit.Summary, n int) {
	if _, err := os.Stat(c.Vegeta); err != nil {
		s.Skipped["encode-command: no vegeta binary"]++
		return
	}
	var csvc codec
	for _, cd := range codecs {
		if cd.name == "csv" {
			csvc = cd
		}
	}
	hexs := func(x string) string { return kit.HexS(x) }
	for i := 0; i < n; i++ {
		to := codecs[i%len(codecs)]
		long := append(genStream(r, csvc, -1), genStream(r, csvc, 0)...)
		short := genStream(r, csvc, 0)
		if i%4 == 3 { // same record sizes, fewer records: the shorter stream ends on a record boundary of the longer one
			short = append([]vegeta.Result{}, long[:1+r.Pick(3)]...)
		}
		for j := range long {
			long[j].Attack = "first-run"
		}
		for j := range short {
			short[j].Attack = "second-run"
			if i%4 == 3 {
				short[j].Attack = "secnd-run" // same length as first-run
			}
		}
		fa, fb := filepath.Join(c.Work, fmt.Sprintf("ow-%d-a.bin", i)), filepath.Join(c.Work, fmt.Sprintf("ow-%d-b.bin", i))
		out := filepath.Join(c.Work, fmt.Sprintf("ow-%d-out", i))
		sa, _ := encodeStream(gobCodec(), long)
		sb, _ := encodeStream(gobCodec(), short)
		os.WriteFile(fa, sa.data, 0o644)
		os.WriteFile(fb, sb.data, 0o644)
		before := "first-run output"
		ops := []string{"encode " + hexs(to.name) + " " + hexs(out) + " " + hexs(fa), "encode " + hexs(to.name) + " " + hexs(out) + " " + hexs(fb)}
		if (i/3)%3 == 2 {
			before = "junk"
			prefillOutput(out, "junk")
			ops = ops[1:]
		}
		res, err := kit.RunVegeta(c.Vegeta, ops)
		if err != nil || res[len(res)-1] != "ok" {
			s.Skipped["encode-command: op failed"]++
			continue
		}
		data, _ := os.ReadFile(out)
		got, term := decodePrefix(to, data)
		s.Case(fmt.Sprint("encode-overwrite:", i), true)
		s.Count("encode-command:overwrite to=" + to.name + " output-held-before=" + before)
		bad := len(got) != len(short) || term == "panic" || term == "runaway" // then end-of-stream or an error
		for j := 0; !bad && j < len(got); j++ {
			bad = !gen.SameResult(&got[j], &short[j])
		}
		if bad {
			s.Violate(kit.Violation{Kind: "output_not_this_runs_stream", What: "`vegeta encode -output P` onto an existing, longer file: P does not decode to exactly the records of this run (a record that this run never wrote is handed out, or one is lost)",
				Input:    map[string]interface{}{"command": "encode -to " + to.name + " -output P", "output_file_held_before": before, "first_run_records": len(long), "this_run_records": len(short), "this_run_results": sb.Results},
				Expected: fmt.Sprintf("%d records then eof/error", len(short)), Observed: gen.ResultsLine(got, term, false), Key: map[string]interface{}{"codec": to.name}})
		}
		os.Remove(fa)
		os.Remove(fb)
		os.Remove(out)
	}
}

func clipOp(x string) string {
	if len(x) > 300 {
		return x[:300] + "…"
	}
	return x
}

func bodySizes(rs []vegeta.Result) []int {
	out := make([]int, len(rs))
	for i := range rs {
		out[i] = len(rs[i].Body)
	}
	return out
}

func ints(xs []int) string {
	var sb strings.Builder
	sb.WriteString(strconv.Itoa(len(xs)))
	for _, x := range xs {
		sb.WriteString(" " + strconv.Itoa(x))
	}
	return sb.String()
}

func cum(xs []int) []int {
	out := make([]int, len(xs))
	t := 0
	for i, x := range xs {
		t += x
		out[i] = t
	}
	return out
}

func runStreams(c *run.Ctx, r *kit.Rng, s *kit.Summary, cd codec, nStreams int, large int, nLarge int) {
	model := &kit.Stream{Name: cd.name + "-framing"}
	cuts := &kit.Stream{Name: cd.name + "-cut-decode"}
	for i := 0; i < nStreams+nLarge; i++ {
		lg := 0
		if i >= nStreams {
			lg = large
		}
		if i%50 == 25 {
			lg = -1
		}
		rs := genStream(r, cd, lg)
		if lg < 0 {
			lg = 0
			s.Count(cd.name + ":stream-with-many-records")
		}
		st, status := encodeStream(cd, rs)
		if status != "ok" {
			s.Skipped["encoder failed on a generated result (C07's clause): "+cd.name]++
			continue
		}
		s.Count(fmt.Sprintf("%s:records=%d", cd.name, len(rs)))
		if lg > 0 {
			s.Count(cd.name + ":stream-with-large-body")
		}
		if i < 1 {
			s.Sample(map[string]interface{}{"codec": cd.name, "results": st.Results, "stream_len": len(st.data), "record_ends": st.bounds, "write_sizes": st.writes})
		}
		// every point between Encode calls is a record boundary: the prefix up to it decodes to exactly the records so far, then EOF
		for j, b := range st.bounds {
			got, term := decodePrefix(cd, st.data[:b])
			if len(got) != j+1 || term == "panic" || term == "runaway" {
				s.Violate(kit.Violation{Kind: "encode_not_whole_record", What: "bytes handed to the writer after an Encode call are not a whole number of records",
					Input:    map[string]interface{}{"codec": cd.name, "results": st.Results, "call": j + 1, "bytes": b},
					Expected: fmt.Sprintf("%d records then eof/error", j+1), Observed: gen.ResultsLine(got, term, false), Key: map[string]interface{}{"codec": cd.name}})
			}
		}
		switch cd.name {
		case "csv":
			// CSV: cuts at record boundaries only (and the empty prefix)
			checkCut(s, cd, st, 0)
			for _, b := range st.bounds {
				checkCut(s, cd, st, b)
			}
			model.Add("c09.csvcalls "+strconv.Itoa(len(rs))+" "+strings.Join(st.Results, " "), ints(st.bounds)+" | 0")
			model.Add("c09.csvbounds "+kit.Hex(st.data), ints(st.bounds)+" | eof")
		default:
			// gob and JSON: every byte offset
			for k := 0; k <= len(st.data); k++ {
				checkCut(s, cd, st, k)
			}
			if cd.name == "json" {
				allUTC := true
				for i := range rs {
					if _, off := rs[i].Timestamp.Zone(); off != 0 {
						allUTC = false
					}
				}
				if allUTC {
					model.Add("c09.jsoncalls "+strconv.Itoa(len(rs))+" "+strings.Join(st.Results, " "), ints(st.bounds)+" | 0")
				}
				model.Add("c09.jsonbounds "+kit.Hex(st.data), ints(st.bounds)+" | eof")
			} else {
				// gob issues one Write per message: the model's frame parser must find exactly these messages
				model.Add("c09.framebounds "+kit.Hex(st.data), ints(cum(st.writes))+" | eof")
				// record level: the model decoder completes a result exactly at every Encode boundary
				model.Add("c09.gobbounds "+kit.Hex(st.data), ints(st.bounds)+" | eof")
			}
		}
		// the model decoders on a sample of cut streams (strict comparison with the real decoder)
		if cd.name != "gob" && lg == 0 {
			for t := 0; t < 6; t++ {
				k := r.Pick(len(st.data) + 1)
				if cd.name == "csv" || t == 0 {
					k = append([]int{0}, st.bounds...)[r.Pick(len(st.bounds)+1)]
				}
				got, term := decodePrefix(cd, st.data[:k])
				cuts.Add("c07.dec"+cd.name+" "+kit.Hex(st.data[:k]), gen.ResultsLine(got, term, false))
			}
		}
		if cd.name == "gob" && lg == 0 {
			k := r.Pick(len(st.data) + 1)
			want := []int{}
			for _, b := range cum(st.writes) {
				if b <= k {
					want = append(want, b)
				}
			}
			end := "incomplete"
			if len(want) > 0 && want[len(want)-1] == k || k == 0 {
				end = "eof"
			}
			cuts.Add("c09.framebounds "+kit.Hex(st.data[:k]), ints(want)+" | "+end)
			recs := []int{}
			for _, b := range st.bounds {
				if b <= k {
					recs = append(recs, b)
				}
			}
			// io.EOF only between records: after type definitions a value message must follow
			rend := "err"
			if k == 0 || (len(recs) > 0 && recs[len(recs)-1] == k) {
				rend = "eof"
			}
			cuts.Add("c09.gobbounds "+kit.Hex(st.data[:k]), ints(recs)+" | "+rend)
			got, term := decodePrefix(cd, st.data[:k])
			cuts.Add("c07.decgob "+kit.Hex(st.data[:k]), gen.ResultsLine(got, term, false))
		}
	}
	model.Diff(c.Driver, s)
	cuts.Diff(c.Driver, s)
}

func replay(c *run.Ctx, s *kit.Summary) {
	raw, err := os.ReadFile(c.Replay)
	if err != nil {
		panic(err)
	}
	var rec struct {
		Input struct {
			Codec         string   `json:"codec"`
			Results       []string `json:"results"`
			Cut           *int     `json:"cut"`
			ZoneSec       []int    `json:"zone_sec"`
			FailingEncode bool     `json:"failing_encode"`
		} `json:"input"`
	}
	if err := json.Unmarshal(raw, &rec); err != nil {
		panic(err)
	}
	for _, cd := range codecs {
		if cd.name != rec.Input.Codec {
			continue
		}
		var rs []vegeta.Result
		for i, ln := range rec.Input.Results {
			x, err := gen.ParseResultLine(ln)
			if err != nil {
				panic(err)
			}
			if i < len(rec.Input.ZoneSec) && (rec.Input.ZoneSec[i] != 0 || rec.Input.FailingEncode && cd.name == "gob") {
				x.Timestamp = x.Timestamp.In(time.FixedZone("", rec.Input.ZoneSec[i]))
			}
			rs = append(rs, x)
		}
		if rec.Input.FailingEncode {
			s.Case("replay", true)
			checkFailingEncode(s, cd, rs)
			return
		}
		st, status := encodeStream(cd, rs)
		if status != "ok" {
			s.Skipped["encoder failed on the replayed results"]++
			return
		}
		if rec.Input.Cut != nil && *rec.Input.Cut <= len(st.data) {
			checkCut(s, cd, st, *rec.Input.Cut)
			return
		}
		for k := 0; k <= len(st.data); k++ {
			checkCut(s, cd, st, k)
		}
	}
}

func runC09(c *run.Ctx, s *kit.Summary) {
	r := kit.NewRng(c.Seed)
	s.Rule = "streams of 1..5 heterogeneous results (texts with quotes/commas/newlines, nil/empty/small/large bodies, nil/empty/multi-valued headers, full numeric ranges) encoded by the real gob, JSON and CSV encoders through a recording io.Writer; gob and JSON: the real decoder on EVERY byte offset of every stream, CSV: on every record boundary; oracle = exactly the records whose last byte precedes the cut, equal to the written ones, then eof/error. One case = one (stream, cut) pair; non-trivial = cut strictly inside the stream"
	if c.Replay != "" {
		replay(c, s)
		return
	}
	for _, cd := range codecs {
		switch cd.name {
		case "csv":
			runStreams(c, r, s, cd, c.N(1500, 60000), 20000, c.N(20, 300))
			runBoundaryStreams(c, r, s, cd, c.N(56, 840))
		default:
			// ~600 bytes per stream on average
			runStreams(c, r, s, cd, c.N(50, 3500), c.N(6000, 30000), c.N(2, 12))
			runBoundaryStreams(c, r, s, cd, c.N(56, 840))
		}
	}
	runFailingEncode(r, s, c.N(40, 600))
	encCallsModel.Diff(c.Driver, s)
	for i := 0; i < c.N(1, 3); i++ {
		runAttackCommand(c, s, []string{"old-results", "none", "junk"}[(i+int(c.Seed))%3])
	}
	runAttackFlakyPipe(c, s)
	for _, o := range []string{"/dev/stdout", "/dev/fd/1", "stdout"} {
		runAttackInterrupted(c, s, o)
	}
	runAttackComplete(c, s, "old-results")
	runAttackComplete(c, s, "junk")
	runEncodeOverwrite(c, r, s, c.N(24, 300))
	runEncodeTruncated(c, r, s, c.N(24, 240))
	runRoundRobinCut(c, r, s, c.N(120, 3000))
	runEarlyCuts(c, r, s)
}
