package main

// Correspondence of the compression pass (Model/TDigestMerge.lean): the full state of a real
// t-digest is read by reflection before and after an Add / a process, the two parameters of the model
// — the permutation sort.Sort produces and the sin/asin limit values — are recomputed here with the
// same standard-library functions on a copy of the buffer, and the Lean model run with them must
// reproduce the real post-state bit for bit.

import (
	"fmt"
	"math"
	"reflect"
	"sort"
	"strconv"
	"strings"

	"github.com/influxdata/tdigest"
	"vharness/kit"
)

type full struct {
	pm, pw, um, uw []float64 // processed means/weights, unprocessed means/weights (buffer order)
	w, uwt         float64   // processedWeight, unprocessedWeight
	min, max       float64
	maxP, maxU     int
}

type tdReader struct {
	tv     reflect.Value
	un, pr reflect.Value // the slice fields themselves (they alias the live struct: Len() is current)
}

func newReader(td *tdigest.TDigest) tdReader {
	if td == nil {
		return tdReader{} // no estimator: reads as "no centroids"
	}
	tv := reflect.ValueOf(td).Elem()
	return tdReader{tv, tv.FieldByName("unprocessed"), tv.FieldByName("processed")}
}

func (r tdReader) unprocessedLen() int {
	if !r.tv.IsValid() {
		return 0
	}
	return r.un.Len()
}
func (r tdReader) processedLen() int {
	if !r.tv.IsValid() {
		return 0
	}
	return r.pr.Len()
}

func (r tdReader) read() full {
	var f full
	if !r.tv.IsValid() {
		return f
	}
	pr := r.tv.FieldByName("processed")
	for i := 0; i < pr.Len(); i++ {
		f.pm = append(f.pm, pr.Index(i).Field(0).Float())
		f.pw = append(f.pw, pr.Index(i).Field(1).Float())
	}
	un := r.tv.FieldByName("unprocessed")
	for i := 0; i < un.Len(); i++ {
		f.um = append(f.um, un.Index(i).Field(0).Float())
		f.uw = append(f.uw, un.Index(i).Field(1).Float())
	}
	f.w = r.tv.FieldByName("processedWeight").Float()
	f.uwt = r.tv.FieldByName("unprocessedWeight").Float()
	f.min = r.tv.FieldByName("min").Float()
	f.max = r.tv.FieldByName("max").Float()
	f.maxP = int(r.tv.FieldByName("maxProcessed").Int())
	f.maxU = int(r.tv.FieldByName("maxUnprocessed").Int())
	return f
}

func pairs(m, w []float64) string {
	var sb strings.Builder
	sb.WriteString(strconv.Itoa(len(m)))
	for i := range m {
		sb.WriteByte(' ')
		sb.WriteString(fbits(m[i]))
		sb.WriteByte(' ')
		sb.WriteString(fbits(w[i]))
	}
	return sb.String()
}

func (f full) stateLine() string {
	return fmt.Sprintf("%d %d %s %s %s %s %s %s", f.maxP, f.maxU, pairs(f.pm, f.pw), pairs(f.um, f.uw), fbits(f.w), fbits(f.uwt), fbits(f.min), fbits(f.max))
}

func (f full) resultLine() string {
	return fmt.Sprintf("ok %s %s %s %s %s %s", pairs(f.pm, f.pw), pairs(f.um, f.uw), fbits(f.w), fbits(f.uwt), fbits(f.min), fbits(f.max))
}

// idxList sorts (centroid, original index) pairs with tdigest's comparison: the same sequence of
// Less/Swap calls as sort.Sort(&t.unprocessed), hence the same permutation.
type idxList struct {
	c   tdigest.CentroidList
	idx []int
}

func (l *idxList) Len() int           { return l.c.Len() }
func (l *idxList) Less(i, j int) bool { return l.c.Less(i, j) }
func (l *idxList) Swap(i, j int)      { l.c.Swap(i, j); l.idx[i], l.idx[j] = l.idx[j], l.idx[i] }

// oracleFor recomputes, for the buffer `unprocessed ++ processed` of state f (after the new sample was
// appended), the permutation of sort.Sort and the limits of the merge loop (same expressions as
// tdigest.go's integratedQ / integratedLocation).
func oracleFor(f full, compression float64) string {
	n := len(f.um) + len(f.pm)
	l := &idxList{c: make(tdigest.CentroidList, 0, n), idx: make([]int, n)}
	for i := range f.um {
		l.c = append(l.c, tdigest.Centroid{Mean: f.um[i], Weight: f.uw[i]})
	}
	for i := range f.pm {
		l.c = append(l.c, tdigest.Centroid{Mean: f.pm[i], Weight: f.pw[i]})
	}
	for i := range l.idx {
		l.idx[i] = i
	}
	sort.Sort(l)
	integratedQ := func(k float64) float64 {
		return (math.Sin(math.Min(k, compression)*math.Pi/compression-math.Pi/2.0) + 1.0) / 2.0
	}
	integratedLocation := func(q float64) float64 {
		return compression * (math.Asin(2.0*q-1.0) + math.Pi/2.0) / math.Pi
	}
	var sb strings.Builder
	sb.WriteString(strconv.Itoa(n))
	for _, i := range l.idx {
		sb.WriteByte(' ')
		sb.WriteString(strconv.Itoa(i))
	}
	if n == 0 {
		return sb.String() + " " + fbits(0) + " 0"
	}
	W := f.w + f.uwt
	soFar := l.c[0].Weight
	limit := W * integratedQ(1.0)
	sb.WriteString(" " + fbits(limit))
	var tab []string
	for _, c := range l.c[1:] {
		projected := soFar + c.Weight
		if projected <= limit {
			soFar = projected
		} else {
			k1 := integratedLocation(soFar / W)
			limit = W * integratedQ(k1+1.0)
			tab = append(tab, fbits(soFar)+" "+fbits(limit))
			soFar += c.Weight
		}
	}
	sb.WriteString(" " + strconv.Itoa(len(tab)))
	for _, t := range tab {
		sb.WriteString(" " + t)
	}
	return sb.String()
}

// withSample is state f after `unprocessed = append(unprocessed, {x, w}); unprocessedWeight += w`.
func (f full) withSample(x, w float64) full {
	g := f
	g.um = append(append([]float64(nil), f.um...), x)
	g.uw = append(append([]float64(nil), f.uw...), w)
	g.uwt = f.uwt + w
	return g
}

// sortedMeans reports whether the processed means of f are in non-decreasing order.
func (f full) sortedMeans() bool {
	for i := 1; i < len(f.pm); i++ {
		if !(f.pm[i-1] <= f.pm[i]) {
			return false
		}
	}
	return true
}

// mergeChecker collects the ops of the compression-pass correspondence.
type mergeChecker struct {
	add, proc *kit.Stream
}

func newMergeChecker() *mergeChecker {
	return &mergeChecker{add: &kit.Stream{Name: "c11.add"}, proc: &kit.Stream{Name: "c11.process"}}
}

// addOp records one observed Add: pre-state, sample, real post-state.
func (mc *mergeChecker) addOp(s *kit.Summary, pre full, x, w float64, post full, compression float64, what string) {
	or := oracleFor(pre.withSample(x, w), compression)
	mc.add.Add("c11.add "+pre.stateLine()+" "+fbits(x)+" "+fbits(w)+" "+or, post.resultLine())
	triggered := len(post.um) == 0
	if triggered {
		s.Count("merge:add that triggers process")
		if len(pre.pm) > pre.maxP {
			s.Count("merge:triggered by len(processed) > maxProcessed")
		}
	} else {
		s.Count("merge:add without process")
	}
	if !post.sortedMeans() {
		s.Count("merge:REAL centroid means not sorted after process (float rounding)")
		s.Diverge("c11.valid", what, "processed means not sorted after process", "sorted means (exact arithmetic)")
	}
}

// procOp records one observed process() (the call Quantile starts with).
func (mc *mergeChecker) procOp(s *kit.Summary, pre full, post full, compression float64, what string) {
	mc.proc.Add("c11.process "+pre.stateLine()+" "+oracleFor(pre, compression), post.resultLine())
	if len(pre.um) > 0 || len(pre.pm) > pre.maxP {
		s.Count("merge:process at Quantile (did work)")
	} else {
		s.Count("merge:process at Quantile (nothing to do)")
	}
	if !post.sortedMeans() {
		s.Count("merge:REAL centroid means not sorted after process (float rounding)")
		s.Diverge("c11.valid", what, "processed means not sorted after process", "sorted means (exact arithmetic)")
	}
}

func (mc *mergeChecker) flush(driver string, s *kit.Summary, force bool) {
	if !force && len(mc.add.Ops)+len(mc.proc.Ops) < 150 {
		return
	}
	mc.add.Diff(driver, s)
	mc.proc.Diff(driver, s)
	mc.add, mc.proc = &kit.Stream{Name: "c11.add"}, &kit.Stream{Name: "c11.process"}
}

// directDigest drives a stand-alone tdigest with a small compression (small buffers, hence many
// process calls, including the `len(processed) > maxProcessed` trigger) and checks EVERY Add and the
// final process against the model.
func directDigest(r *kit.Rng, s *kit.Summary, mc *mergeChecker, tag string) {
	comp := []float64{1, 2, 3, 5, 10, 20, 2.5}[r.Pick(7)]
	td := tdigest.NewWithCompression(comp)
	rd := newReader(td)
	n := 1 + r.Pick(300)
	kind := r.Pick(5)
	for i := 0; i < n; i++ {
		var x float64
		switch kind {
		case 0:
			x = float64(1 + r.Pick(5)) // heavy ties
		case 1:
			x = float64(r.Range(1, 1000000))
		case 2:
			x = float64(n - i) // reverse sorted
		case 3:
			x = float64(i) // sorted
		default:
			x = math.Exp(r.Float64() * 30)
		}
		w := 1.0
		if r.Chance(0.1) {
			w = float64(1 + r.Pick(4)) // Add with other weights is allowed by the API (vegeta uses 1)
		}
		if r.Chance(0.01) {
			x = math.NaN() // ignored by Add
		}
		pre := rd.read()
		td.Add(x, w)
		post := rd.read()
		mc.addOp(s, pre, x, w, post, comp, tag)
	}
	pre := rd.read()
	td.Quantile(0.5)
	post := rd.read()
	mc.procOp(s, pre, post, comp, tag)
	if len(post.pm) > post.maxP {
		s.Count("merge:stand-alone digest left with more than maxProcessed centroids")
	}
	s.Case(fmt.Sprintf("%s:direct:%v:%d:%d", tag, comp, n, kind), n >= 2)
	s.Count("merge:stand-alone digest, compression " + strconv.FormatFloat(comp, 'g', -1, 64))
}
