package main

// Correspondence of the call-sequence model (Model/LatencySeq.lean): a random history of Metrics.Add /
// Close / Latencies.Quantile / HDR-report calls is executed on a real vegeta.Metrics; what every call
// shows (and the latency fields after it) is compared with the model run on the same history.  The
// model's two parameters are supplied per compaction: before every query the estimator's state is read
// and, if samples are pending, the permutation of sort.Sort and the limit values are recomputed
// (oracleFor) and keyed by the total weight at that moment.

import (
	"bytes"
	"fmt"
	"math"
	"strconv"
	"strings"
	"time"

	vegeta "github.com/tsenart/vegeta/v12/lib"
	"vharness/kit"
	"vharness/run"
)

type seqOp struct {
	Kind string  `json:"op"` // add close quantile hdr
	Lat  int64   `json:"latency,omitempty"`
	TS   int64   `json:"ts,omitempty"`
	Q    float64 `json:"q,omitempty"`
}

func genHistory(r *kit.Rng) []seqOp {
	n := 1 + r.Pick(40)
	var ops []seqOp
	tsMode := r.Pick(4) // 0 increasing, 1 all equal (duration 0), 2 decreasing, 3 random
	latMode := r.Pick(5)
	base := int64(1700000000) * int64(time.Second)
	constLat := r.Range(0, 5000)
	adds := 0
	for i := 0; i < n; i++ {
		switch k := r.Pick(10); {
		case k < 6 || (i == 0 && r.Chance(0.7)):
			var l int64
			switch latMode {
			case 0:
				l = r.Range(0, 20) // ties, zeros
			case 1:
				l = r.Range(1, int64(time.Second))
			case 2:
				l = constLat // all equal
			case 3:
				l = int64(math.Exp(r.Float64() * 30))
			default:
				l = []int64{0, 1, 2, 1 << 40, 1<<52 - 1, 5}[r.Pick(6)]
			}
			if r.Chance(0.01) {
				l = -r.Range(1, 1000) // not a valid latency, but Add accepts it: Max starts at zero
			}
			var ts int64
			switch tsMode {
			case 0:
				ts = base + int64(adds)*int64(time.Millisecond)
			case 1:
				ts = base
			case 2:
				ts = base - int64(adds)*int64(time.Millisecond)
			default:
				ts = base + r.Range(-1000000, 1000000)
			}
			adds++
			ops = append(ops, seqOp{Kind: "add", Lat: l, TS: ts})
		case k == 6:
			ops = append(ops, seqOp{Kind: "close"})
		case k == 7:
			q := r.Float64()
			if r.Chance(0.2) {
				q = []float64{0, 1, 0.5, 0.99}[r.Pick(4)]
			}
			ops = append(ops, seqOp{Kind: "quantile", Q: q})
		case k == 8:
			ops = append(ops, seqOp{Kind: "hdr"})
		default:
			ops = append(ops, seqOp{Kind: "close"}, seqOp{Kind: "close"}) // Close twice in a row
		}
	}
	return ops
}

// runHistory executes the history on the real code and returns the op line for the driver and what
// the implementation showed, in the driver's format.
// codePanic, when non-empty, is the message of a panic raised INSIDE a call into vegeta.
func runHistory(ops []seqOp) (opLine string, impl string, hdrCells [][]hdrRow, codePanic string) {
	call := func(what string, f func()) bool {
		if p, msg := kit.Recover(f); p {
			codePanic = what + " panicked: " + msg
			return false
		}
		return true
	}
	var m vegeta.Metrics
	var rd tdReader
	have := false
	var sb, out strings.Builder
	var oracles []string
	noteOracle := func() {
		if !have {
			if td := digestOf(&m); td != nil {
				rd = newReader(td)
				have = true
			}
		}
		if !have {
			return
		}
		pre := rd.read()
		if len(pre.um) > 0 || len(pre.pm) > pre.maxP {
			oracles = append(oracles, fbits(pre.w+pre.uwt)+" "+oracleFor(pre, 100))
		}
	}
	out.WriteString("ok")
	sb.WriteString(strconv.Itoa(len(ops)))
	for _, op := range ops {
		switch op.Kind {
		case "add":
			sb.WriteString(fmt.Sprintf(" 0 %d %d", op.Lat, op.TS))
			if !call("Metrics.Add", func() {
				m.Add(&vegeta.Result{Code: 200, Timestamp: time.Unix(0, op.TS), Latency: time.Duration(op.Lat)})
			}) {
				return
			}
			L := m.Latencies
			out.WriteString(fmt.Sprintf(" | a %d %d %d %d", m.Requests, int64(L.Total), int64(L.Min), int64(L.Max)))
		case "close":
			sb.WriteString(" 1")
			noteOracle()
			if !call("Metrics.Close", func() { m.Close() }) {
				return
			}
			L := m.Latencies
			out.WriteString(fmt.Sprintf(" | c %d %d %d %d %d %d %d %d", int64(L.Min), int64(L.P50), int64(L.P90), int64(L.P95), int64(L.P99), int64(L.Max), m.Requests, int64(m.Duration)))
		case "quantile":
			sb.WriteString(" 2 " + fbits(op.Q))
			noteOracle()
			var d time.Duration
			if !call("Latencies.Quantile", func() { d = m.Latencies.Quantile(op.Q) }) {
				return
			}
			out.WriteString(fmt.Sprintf(" | q %d", int64(d)))
		default:
			sb.WriteString(" 3")
			noteOracle()
			var hb bytes.Buffer
			var err error
			if !call("HDR report", func() { err = vegeta.NewHDRHistogramPlotReporter(&m).Report(&hb) }) {
				return
			}
			rows, ok := parseHDR(hb.Bytes())
			if err != nil || !ok {
				out.WriteString(" | h unparsable")
			} else {
				out.WriteString(fmt.Sprintf(" | h #%d", len(hdrCells)))
				hdrCells = append(hdrCells, rows)
			}
		}
	}
	sb.WriteString(" " + strconv.Itoa(len(oracles)))
	for _, o := range oracles {
		sb.WriteString(" " + o)
	}
	return "c11.seq 200 800 " + fbits(math.MaxFloat64) + " " + fbits(-math.MaxFloat64) + " " + sb.String(), out.String(), hdrCells, ""
}

// diffSeq compares the model's line with the implementation's; HDR rows are rendered from the model's
// bit patterns with the reporter's verbs.
func diffSeq(model, impl string, cells [][]hdrRow) string {
	mp := strings.Split(model, " | ")
	ip := strings.Split(impl, " | ")
	if len(mp) != len(ip) {
		return fmt.Sprintf("model has %d parts, implementation %d", len(mp), len(ip))
	}
	for i := range mp {
		if strings.HasPrefix(ip[i], "h #") {
			idx, _ := strconv.Atoi(strings.TrimPrefix(ip[i], "h #"))
			f := strings.Fields(mp[i])
			if len(f) < 2 || f[0] != "h" {
				return fmt.Sprintf("op %d: model `%s`, implementation an HDR report", i, clip(mp[i]))
			}
			// drop the trailing dur of every model cell, then reuse the table comparison
			var sb strings.Builder
			sb.WriteString("ok " + f[1])
			for _, cell := range f[2:] {
				p := strings.Split(cell, ",")
				if len(p) != 5 {
					return "bad model row " + cell
				}
				sb.WriteString(" " + strings.Join(p[:4], ","))
			}
			if d := diffHDR(sb.String(), cells[idx]); d != "" {
				return fmt.Sprintf("op %d: %s", i, d)
			}
			continue
		}
		if mp[i] != ip[i] {
			return fmt.Sprintf("op %d: model `%s` implementation `%s`", i, clip(mp[i]), clip(ip[i]))
		}
	}
	return ""
}

// seqStream runs `count` histories through implementation and model.
func seqStream(c *run.Ctx, r *kit.Rng, s *kit.Summary, count int) {
	var ops, impls []string
	var cells [][][]hdrRow
	var hist [][]seqOp
	for i := 0; i < count; i++ {
		h := genHistory(r)
		var o, im string
		var cl [][]hdrRow
		var cp string
		if p, msg := kit.Recover(func() { o, im, cl, cp = runHistory(h) }); p {
			// not raised inside a call into vegeta: the harness's own reading failed — no verdict, a divergence
			s.Count("harness:call-sequence bookkeeping failed")
			s.Diverge("c11.seq", fmt.Sprint(h), "harness: "+msg, "")
			continue
		}
		if cp != "" {
			// inside the property's domain (non-negative latencies, nothing asked of an empty Metrics) a panic
			// means nothing is reported at all; outside of it the model merely says "no panic"
			inDomain, seenAdd := true, false
			for _, x := range h {
				if x.Kind == "add" {
					seenAdd = true
					if x.Lat < 0 {
						inDomain = false
					}
				} else if !seenAdd {
					inDomain = false
				}
			}
			if inDomain {
				s.Violate(kit.Violation{Kind: "metrics_panic", What: "a call sequence: " + cp, Input: map[string]interface{}{"history": h}})
			} else {
				s.Diverge("c11.seq", fmt.Sprint(h), cp, "the model runs every call sequence to completion")
			}
			continue
		}
		ops, impls, cells, hist = append(ops, o), append(impls, im), append(cells, cl), append(hist, h)
		nq, nc, nh := 0, 0, 0
		for _, x := range h {
			switch x.Kind {
			case "close":
				nc++
			case "quantile":
				nq++
			case "hdr":
				nh++
			}
		}
		if nc > 0 {
			s.Count("seq:history with Close")
		}
		if nq+nh > 0 {
			s.Count("seq:history with Quantile / HDR report between Adds")
		}
		if len(h) > 0 && h[0].Kind != "add" {
			s.Count("seq:query before the first Add (nil estimator)")
		}
		s.Case(fmt.Sprint("seq:", h), len(h) >= 3)
	}
	s.Streams["c11.seq"] += len(ops)
	outs, err := kit.RunDriver(c.Driver, ops)
	if err != nil {
		s.Diverge("c11.seq", "(driver failure)", "", err.Error())
		return
	}
	for i := range ops {
		if d := diffSeq(outs[i], impls[i], cells[i]); d != "" {
			s.Diverge("c11.seq", fmt.Sprint(hist[i]), clip(impls[i]), d+" | "+clip(outs[i]))
		}
	}
}
