package main

// The property's own predicate, evaluated on every place the implementation REPORTS latency
// percentiles: the Metrics fields after Close (also after intermediate Close calls on a prefix of the
// data), the JSON and text reporters, the HDR plot reporter, and the same three reports produced by the
// `vegeta report` command.

import (
	"bytes"
	"encoding/json"
	"fmt"
	"math"
	"os"
	"path/filepath"
	"sort"
	"strconv"
	"strings"
	"time"

	vegeta "github.com/tsenart/vegeta/v12/lib"
	"vharness/kit"
)

var chainNames = []string{"min", "p50", "p90", "p95", "p99", "max"}
var chainQ = []float64{0.50, 0.90, 0.95, 0.99}

// structured reports whether the sample has the shape on which the third-party estimator is known
// to exceed the rank tolerance (finding F15): heavy ties (a value repeated at least n/200 times, i.e.
// comparable to a centroid's weight) or a gap of more than a factor ten between neighbouring order
// statistics.  On a smooth sample a rank violation is NOT that finding and gets its own kind.
func structured(sorted []int64) bool {
	n := len(sorted)
	run := 1
	for i := 1; i < n; i++ {
		if sorted[i] == sorted[i-1] {
			run++
			if run >= 3 && run*200 >= n {
				return true
			}
		} else {
			run = 1
			if a, b := float64(sorted[i-1]), float64(sorted[i]); b > 10*a+1000 {
				return true
			}
		}
	}
	return false
}

// rankKind: on a structured sample a rank error below 3% of n is the recorded weakness of the
// estimator; a larger one, or any on a smooth sample, is something else and gets a kind of its own
// (also so that the per-kind cap on kept records cannot hide it behind known ones).
func rankKind(structuredSample bool, off float64, n int) string {
	switch {
	case !structuredSample:
		return "percentile_rank_error"
	case 100*off/float64(n) >= 3:
		return "tdigest_rank_error_large"
	}
	return "tdigest_rank_error"
}

// rankWindowRange is rankWindow for a value only known to lie in [a, b].
func rankWindowRange(sorted []int64, a, b int64, q float64) (bool, float64) {
	okA, offA := rankWindow(sorted, a, q)
	if a == b || okA {
		return okA, offA
	}
	n := len(sorted)
	tol := 1 + 0.01*float64(n)
	ideal := q * float64(n)
	lo := int(math.Ceil(ideal - tol - 1))
	hi := int(math.Floor(ideal + tol))
	if lo < 0 {
		lo = 0
	}
	if hi > n-1 {
		hi = n - 1
	}
	if sorted[lo] <= b && sorted[hi] >= a {
		return true, 0
	}
	okB, offB := rankWindow(sorted, b, q)
	if okB {
		return true, 0
	}
	return false, math.Min(offA, offB)
}

type view struct {
	source string  // "fields", "fields@prefix", "json", "text", "cli:json", …
	chain  []int64 // min p50 p90 p95 p99 max
	exact  bool    // values are exact nanoseconds (false for the text report, which rounds)
}

// oracleChain: ordering, all-equal and rank clauses on one reported chain.
func (k *checker) oracleChain(v view, sorted []int64, repl spec, hasZero bool) {
	s := k.s
	n := len(sorted)
	smin, smax := sorted[0], sorted[n-1]
	key := func(extra map[string]interface{}) map[string]interface{} {
		m := map[string]interface{}{"distribution": repl.Dist, "order": repl.Order, "n": n, "has_zero_latency": hasZero, "source": v.source}
		for a, b := range extra {
			m[a] = b
		}
		return m
	}
	s.Count("oracle:chain:" + v.source)
	for i := 0; i+1 < len(v.chain); i++ {
		if v.chain[i] > v.chain[i+1] {
			s.Violate(kit.Violation{Kind: "percentile_order", What: fmt.Sprintf("%s: %s > %s", v.source, chainNames[i], chainNames[i+1]), Input: repl,
				Expected: "min <= p50 <= p90 <= p95 <= p99 <= max", Observed: fmt.Sprint(v.chain), Key: key(map[string]interface{}{"pair": chainNames[i] + ">" + chainNames[i+1]})})
		}
	}
	if smin == smax {
		// "every percentile equals that value": P50..P99 (Min and Max belong to the sibling property)
		want := smin
		if !v.exact {
			// the text report rounds for display: the four columns must show one and the same value,
			// and one close to the common latency (5% covers any sensible display rounding)
			want = v.chain[1]
			if d := float64(want - smin); math.Abs(d) > 0.05*float64(smin)+1 {
				s.Violate(kit.Violation{Kind: "all_equal", What: v.source + ": all latencies equal but the report shows another value", Input: repl,
					Expected: fmt.Sprint(smin), Observed: fmt.Sprint(v.chain), Key: key(nil)})
			}
		}
		for i := 1; i <= 4; i++ {
			if v.chain[i] != want {
				s.Violate(kit.Violation{Kind: "all_equal", What: fmt.Sprintf("%s: all latencies equal but %s differs from the value", v.source, chainNames[i]), Input: repl,
					Expected: fmt.Sprint(want), Observed: fmt.Sprint(v.chain), Key: key(nil)})
				break
			}
		}
	}
	if !v.exact {
		return
	}
	st := structured(sorted)
	for i, q := range chainQ {
		x := v.chain[i+1]
		ok, off := rankWindow(sorted, x, q)
		if v.source == "fields" {
			if rel := off / float64(n); rel > k.worst[repl.Dist] {
				k.worst[repl.Dist] = rel
			}
		}
		if ok {
			continue
		}
		kind := rankKind(st, off, n)
		if st && v.source == "fields" {
			s.Count("rank_error:" + repl.Dist)
		}
		sig := fmt.Sprint(repl.Seed, repl.N, q, x, len(sorted))
		if k.seenRank[sig] {
			continue // the same value reported through another channel: already recorded
		}
		k.seenRank[sig] = true
		s.Violate(kit.Violation{Kind: kind,
			What: fmt.Sprintf("%s: P%v=%d is %.0f ranks (%.2f%% of n) away from the ideal rank q*n; allowed 1+n/100=%.2f", v.source, q*100, x, off, 100*off/float64(n), 1+0.01*float64(n)),
			Input: repl, Expected: fmt.Sprintf("two observed latencies around %d with ranks within %.2f of %.2f", x, 1+0.01*float64(n), q*float64(n)),
			Observed: fmt.Sprintf("closest bracketing observation is %.0f ranks away", off),
			Key:      key(map[string]interface{}{"q": q, "frac": repl.Frac, "rank_off": off, "rank_off_pct_of_n": 100 * off / float64(n), "structured_sample": st})})
	}
}

// oracleHDR: rows never decrease as the percentile grows; every row is a reported percentile, so the
// rank clause applies to it; all latencies equal ⇒ every row shows that value.
func (k *checker) oracleHDR(source string, rows []hdrRow, ok bool, sorted []int64, repl spec, hasZero bool) {
	s := k.s
	n := len(sorted)
	key := func(extra map[string]interface{}) map[string]interface{} {
		m := map[string]interface{}{"distribution": repl.Dist, "order": repl.Order, "n": n, "has_zero_latency": hasZero, "source": source}
		for a, b := range extra {
			m[a] = b
		}
		return m
	}
	s.Count("oracle:hdr:" + source)
	if !ok || len(rows) == 0 {
		s.Violate(kit.Violation{Kind: "hdr_report_failed", What: source + ": HDR plot reporter panicked, failed or printed no parsable table", Input: repl, Key: key(nil)})
		return
	}
	st := structured(sorted)
	// the property speaks of the values as the percentile grows: judge the rows in percentile order
	// (the listing order itself is not prescribed), percentiles given as fractions or as per cent
	type prow struct {
		v, q  float64
		slack int64 // half a unit of the last printed decimal of the value, in ns
		row   hdrRow
	}
	var ps []prow
	qmax := 0.0
	for _, row := range rows {
		v, e1 := strconv.ParseFloat(row.value, 64)
		q, e2 := strconv.ParseFloat(row.q, 64)
		if e1 != nil || e2 != nil {
			continue
		}
		dec := 0
		if i := strings.IndexByte(row.value, '.'); i >= 0 {
			dec = len(row.value) - i - 1
		}
		slack := int64(0)
		if dec < 6 {
			slack = int64(math.Ceil(0.5 * math.Pow(10, float64(6-dec))))
		}
		if q > qmax {
			qmax = q
		}
		ps = append(ps, prow{v, q, slack, row})
	}
	if len(ps) == 0 {
		s.Violate(kit.Violation{Kind: "hdr_report_failed", What: source + ": HDR plot listing without a numeric row", Input: repl, Key: key(nil)})
		return
	}
	if qmax > 1 && qmax <= 100 {
		for i := range ps {
			ps[i].q /= 100
		}
	}
	if !sort.SliceIsSorted(ps, func(i, j int) bool { return ps[i].q < ps[j].q }) {
		s.Count("stat:hdr rows not listed in percentile order")
		sort.SliceStable(ps, func(i, j int) bool { return ps[i].q < ps[j].q })
	}
	prevV := math.Inf(-1)
	rankReported := false
	for i, pr := range ps {
		v, q, row := pr.v, pr.q, pr.row
		if v < prevV {
			s.Violate(kit.Violation{Kind: "hdr_rows_decrease", What: fmt.Sprintf("%s: HDR row %d: value decreases while the percentile grows", source, i), Input: repl,
				Expected: fmt.Sprintf(">= %f", prevV), Observed: fmt.Sprint(row), Key: key(map[string]interface{}{"row": i})})
			return
		}
		prevV = v
		// the value column is milliseconds; with six decimals that is nanoseconds (exact below 2^43 ns; two
		// nanoseconds of slack are granted for the float rendering above that, half a unit of the last
		// decimal when fewer decimals are printed)
		ns := int64(math.Round(v * 1e6))
		slack := pr.slack
		if ns >= 1<<43 && slack < 2 {
			slack = 2
		}
		if sorted[0] == sorted[n-1] {
			if d := ns - sorted[0]; d > slack || d < -slack {
				s.Violate(kit.Violation{Kind: "all_equal", What: fmt.Sprintf("%s: all latencies equal but HDR row %d shows another value", source, i), Input: repl,
					Expected: fmt.Sprintf("%f", float64(sorted[0])/1e6), Observed: fmt.Sprint(row), Key: key(map[string]interface{}{"row": i})})
				return
			}
		}
		if q < 0 || q > 1 || rankReported {
			continue
		}
		okR, off := rankWindowRange(sorted, ns-slack, ns+slack, q)
		if okR {
			continue
		}
		kind := rankKind(st, off, n)
		rankReported = true
		sig := fmt.Sprint(repl.Seed, repl.N, q, ns, len(sorted))
		if k.seenRank[sig] {
			continue
		}
		k.seenRank[sig] = true
		s.Violate(kit.Violation{Kind: kind,
			What:  fmt.Sprintf("%s: HDR row %d (percentile %s) shows %s ms, %.0f ranks (%.2f%% of n) away from the ideal rank q*n; allowed 1+n/100=%.2f", source, i, row.q, row.value, off, 100*off/float64(n), 1+0.01*float64(n)),
			Input: repl, Observed: fmt.Sprint(row),
			Key:   key(map[string]interface{}{"q": q, "row": i, "rank_off": off, "rank_off_pct_of_n": 100 * off / float64(n), "structured_sample": st})})
	}
}

// ---- reports as text

// The parsers below take from a report only what the property speaks about — the six latency
// values, or (value, percentile) pairs — and tolerate everything the property does not fix: column
// alignment, extra columns, fields, lines, comment lines, header wording, number of decimals.

var jsonNames = [][]string{{"min"}, {"50th", "p50", "50"}, {"90th", "p90", "90"}, {"95th", "p95", "95"}, {"99th", "p99", "99"}, {"max"}}

func jsonNs(v interface{}) (int64, bool) {
	switch x := v.(type) {
	case json.Number:
		if i, err := x.Int64(); err == nil {
			return i, true
		}
		if f, err := x.Float64(); err == nil {
			return int64(f), true
		}
	case string:
		if d, err := time.ParseDuration(x); err == nil {
			return int64(d), true
		}
	}
	return 0, false
}

// parseJSONReports decodes every JSON value in b (one per periodic report) and returns the latency chains.
func parseJSONReports(b []byte) ([][]int64, bool) {
	dec := json.NewDecoder(bytes.NewReader(b))
	dec.UseNumber()
	var out [][]int64
	for {
		var rep map[string]interface{}
		if err := dec.Decode(&rep); err != nil {
			break
		}
		lat, ok := rep["latencies"].(map[string]interface{})
		if !ok {
			return nil, false
		}
		var ch []int64
		for _, names := range jsonNames {
			found := false
			for _, nm := range names {
				if v, ok := lat[nm]; ok {
					if ns, ok := jsonNs(v); ok {
						ch = append(ch, ns)
						found = true
						break
					}
				}
			}
			if !found {
				return nil, false
			}
		}
		out = append(out, ch)
	}
	return out, len(out) > 0
}

func parseJSONLatencies(b []byte) ([]int64, bool) {
	all, ok := parseJSONReports(b)
	if !ok {
		return nil, false
	}
	return all[len(all)-1], true
}

// parseTextLatencies finds the LAST line mentioning latencies with a bracketed label list and as many
// duration values after it (`Latencies [min, mean, 50, 90, 95, 99, max] a, b, …`, any alignment) and
// picks min, 50, 90, 95, 99, max by label.
func parseTextLatencies(b []byte) ([]int64, bool) {
	var res []int64
	for _, ln := range strings.Split(string(b), "\n") {
		if !strings.Contains(strings.ToLower(ln), "latenc") {
			continue
		}
		i, j := strings.Index(ln, "["), strings.Index(ln, "]")
		if i < 0 || j < i {
			continue
		}
		labels := strings.FieldsFunc(ln[i+1:j], func(r rune) bool { return r == ',' || r == ' ' || r == '\t' })
		vals := strings.FieldsFunc(ln[j+1:], func(r rune) bool { return r == ',' || r == ' ' || r == '\t' })
		if len(labels) == 0 || len(vals) < len(labels) {
			continue
		}
		byLabel := map[string]int64{}
		good := true
		for k, lb := range labels {
			d, err := time.ParseDuration(vals[k])
			if err != nil {
				good = false
				break
			}
			byLabel[strings.ToLower(strings.TrimSuffix(strings.TrimPrefix(strings.ToLower(lb), "p"), "th"))] = int64(d)
		}
		if !good {
			continue
		}
		var ch []int64
		for _, want := range []string{"min", "50", "90", "95", "99", "max"} {
			v, ok := byLabel[want]
			if !ok {
				good = false
				break
			}
			ch = append(ch, v)
		}
		if good {
			res = ch
		}
	}
	return res, res != nil
}

// cliReports runs `vegeta report` (-type json / text / hdrplot, optionally -every) on a results file
// holding the data set and applies the oracles to what the command wrote.
func (k *checker) cliReports(lats []int64, sorted []int64, repl spec, hasZero bool, fields []int64) {
	s := k.s
	g := kit.NewRng(repl.Seed ^ 0x5eed)
	dir := k.c.Work
	k.cliSeq++
	// one results file, or consecutive chunks of the data set in several files
	bounds := []int{0}
	for _, l := range repl.Split {
		if nb := bounds[len(bounds)-1] + l; l > 0 && nb < len(lats) {
			bounds = append(bounds, nb)
		}
	}
	bounds = append(bounds, len(lats))
	encName := []string{"gob", "json", "csv"}[g.Pick(3)]
	cut := sorted[(len(sorted)*9)/10]
	var ins []string
	for fi := 0; fi+1 < len(bounds); fi++ {
		in := filepath.Join(dir, fmt.Sprintf("c11-%d-%d.bin", k.cliSeq, fi))
		f, err := os.Create(in)
		if err != nil {
			panic(err)
		}
		var enc vegeta.Encoder
		switch encName {
		case "json":
			enc = vegeta.NewJSONEncoder(f)
		case "csv":
			enc = vegeta.NewCSVEncoder(f)
		default:
			enc = vegeta.NewEncoder(f)
		}
		for i := bounds[fi]; i < bounds[fi+1]; i++ {
			if err := enc.Encode(repl.resultFor(i, lats[i], cut)); err != nil {
				panic(err)
			}
		}
		f.Close()
		defer os.Remove(in)
		ins = append(ins, in)
	}
	if repl.SplitRev {
		for a, b := 0, len(ins)-1; a < b; a, b = a+1, b-1 {
			ins[a], ins[b] = ins[b], ins[a]
		}
	}
	inArgs := ""
	for _, in := range ins {
		inArgs += " " + kit.HexS(in)
	}
	if len(ins) > 1 {
		s.Count(fmt.Sprintf("cli:%d result files of very different lengths (reversed args=%v)", len(ins), repl.SplitRev))
	}
	every := int64(0)
	if g.Chance(0.3) {
		every = int64(200 * time.Microsecond) // periodic reports: Close, more Adds, Close again
	}
	types := []string{"json", "text", "hdrplot"}
	var ops, outs []string
	for _, t := range types {
		out := filepath.Join(dir, fmt.Sprintf("c11-%d.%s", k.cliSeq, t))
		outs = append(outs, out)
		ops = append(ops, fmt.Sprintf("report %s %d - %s%s", kit.HexS(t), every, kit.HexS(out), inArgs))
	}
	res, err := kit.RunVegeta(k.c.Vegeta, ops)
	if err != nil {
		s.Diverge("c11.cli", strings.Join(ops, " ; "), "", err.Error())
		return
	}
	s.Count("cli:encoding=" + encName)
	if repl.BigBodies {
		s.Count("cli:results file with 40..200 KiB bodies in the middle, encoding=" + encName)
	}
	if every > 0 {
		s.Count("cli:with -every (periodic Close)")
	}
	key := map[string]interface{}{"distribution": repl.Dist, "n": len(lats), "source": "cli"}
	for i, t := range types {
		data, _ := os.ReadFile(outs[i])
		os.Remove(outs[i])
		if res[i] != "ok" {
			// whether the command succeeds is the report command's property, not this one's: no verdict from this channel
			s.Count("oracle:skipped cli:" + t + " (the command returned an error)")
			continue
		}
		switch t {
		case "json":
			chains, ok := parseJSONReports(data)
			if !ok {
				s.Count("oracle:skipped cli:json (latency fields not recognised)")
				continue
			}
			if len(chains) > 1 {
				s.Count("cli:json output with intermediate reports")
			}
			for j, ch := range chains {
				if j < len(chains)-1 { // a report on an unknown prefix: only the ordering can be judged
					for a := 0; a+1 < len(ch); a++ {
						if ch[a] > ch[a+1] {
							s.Violate(kit.Violation{Kind: "percentile_order", What: fmt.Sprintf("cli:json intermediate report: %s > %s", chainNames[a], chainNames[a+1]), Input: repl, Observed: fmt.Sprint(ch), Key: key})
						}
					}
					continue
				}
				k.oracleChain(view{"cli:json", ch, true}, sorted, repl, hasZero)
				if every == 0 && fields != nil && fmt.Sprint(ch) != fmt.Sprint(fields) {
					// same data, same order, no intermediate Close: the command must report what the library computed
					s.Diverge("c11.cli", ops[i], fmt.Sprint(ch), "library: "+fmt.Sprint(fields))
				}
			}
		case "text":
			// with -every the file holds several reports; the last latency line is judged
			ch, ok := parseTextLatencies(data)
			if !ok {
				s.Count("oracle:skipped cli:text (latency line not recognised)")
				continue
			}
			k.oracleChain(view{"cli:text", ch, false}, sorted, repl, hasZero)
		case "hdrplot":
			rows, ok := parseHDR(data)
			k.oracleHDR("cli:hdrplot", rows, ok, sorted, repl, hasZero)
		}
	}
}

func clip(s string) string {
	if len(s) > 300 {
		return s[:300] + "…"
	}
	return s
}

// prefixSorted returns the sorted first m latencies.
func prefixSorted(lats []int64, m int) []int64 {
	p := append([]int64(nil), lats[:m]...)
	sort.Slice(p, func(i, j int) bool { return p[i] < p[j] })
	return p
}
