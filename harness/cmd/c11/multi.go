package main

// Several Metrics values alive at once in one process (one per endpoint / phase): their histories are
// interleaved and every instance is judged — by the same ordering / rank / all-equal / HDR oracles —
// against ITS OWN samples.  State shared between instances (package-level estimators, aliased buffers)
// shows only here.

import (
	"bytes"
	"fmt"
	"math"
	"math/rand"
	"sort"
	"time"

	vegeta "github.com/tsenart/vegeta/v12/lib"
	"vharness/kit"
)

func (k *checker) multiCheck(sp spec) {
	s := k.s
	g := rand.New(rand.NewSource(sp.Seed))
	K := 2 + g.Intn(3)
	ms := make([]*vegeta.Metrics, K)
	own := make([][]int64, K)
	type genf func() int64
	gens := make([]genf, K)
	for j := range ms {
		ms[j] = &vegeta.Metrics{}
		switch g.Intn(4) {
		case 0: // constant, a different value per instance
			v := int64(time.Millisecond) * int64(1+j*7+g.Intn(5))
			gens[j] = func() int64 { return v }
		case 1:
			lo, w := int64(1+g.Intn(1000))*int64(math.Pow(10, float64(g.Intn(7)))), int64(1+g.Intn(100000))
			gens[j] = func() int64 { return lo + g.Int63n(w) }
		case 2:
			mu, sg := math.Log(float64(time.Microsecond))+g.Float64()*math.Log(1e6), 0.2+g.Float64()*1.5
			gens[j] = func() int64 { return clampLat(int64(math.Exp(mu + sg*g.NormFloat64()))) }
		default:
			vals := []int64{int64(1 + g.Intn(50)), int64(time.Millisecond) * int64(1+g.Intn(9)), int64(time.Second) * int64(1+g.Intn(9))}
			gens[j] = func() int64 { return vals[g.Intn(3)] }
		}
	}
	s.Case(fmt.Sprintf("multi:%d:%d:%d", K, sp.N, sp.Seed), true)
	s.Count(fmt.Sprintf("multi:%d Metrics values interleaved", K))
	codePanic := ""
	call := func(what string, f func()) bool {
		if p, msg := kit.Recover(f); p {
			codePanic = what + " panicked: " + msg
			return false
		}
		return true
	}
	sortedOwn := func(j int) []int64 {
		p := append([]int64(nil), own[j]...)
		sort.Slice(p, func(a, b int) bool { return p[a] < p[b] })
		return p
	}
	judgeFields := func(j int, src string) {
		L := ms[j].Latencies
		so := sortedOwn(j)
		k.oracleChain(view{src, []int64{int64(L.Min), int64(L.P50), int64(L.P90), int64(L.P95), int64(L.P99), int64(L.Max)}, true}, so, sp, so[0] == 0)
	}
	judgeHDR := func(j int, src string) bool {
		var hb bytes.Buffer
		var herr error
		if !call("HDR report", func() { herr = vegeta.NewHDRHistogramPlotReporter(ms[j]).Report(&hb) }) {
			return false
		}
		rows, ok := parseHDR(hb.Bytes())
		so := sortedOwn(j)
		k.oracleHDR(src, rows, ok && herr == nil, so, sp, so[0] == 0)
		return true
	}
	t0 := time.Unix(1700000000, 0)
	for i := 0; i < sp.N && codePanic == ""; i++ {
		j := g.Intn(K)
		switch a := g.Intn(100); {
		case a < 88 || len(own[j]) == 0:
			l := gens[j]()
			own[j] = append(own[j], l)
			call("Metrics.Add", func() {
				ms[j].Add(&vegeta.Result{Code: 200, Timestamp: t0.Add(time.Duration(i) * time.Millisecond), Latency: time.Duration(l)})
			})
		case a < 93:
			if call("Metrics.Close", func() { ms[j].Close() }) {
				s.Count("multi:Close of one instance while others are being filled")
				judgeFields(j, "fields (one of several Metrics, interleaved)")
			}
		case a < 97:
			s.Count("multi:HDR report of one instance while others are being filled")
			judgeHDR(j, "hdr (one of several Metrics, interleaved)")
		default:
			var d time.Duration
			q := g.Float64()
			if call("Latencies.Quantile", func() { d = ms[j].Latencies.Quantile(q) }) && len(own[j]) > 0 {
				so := sortedOwn(j)
				if so[0] == so[len(so)-1] && int64(d) != so[0] {
					s.Violate(kit.Violation{Kind: "all_equal", What: fmt.Sprintf("one of several Metrics: all its latencies equal but Quantile(%v) differs from the value", q), Input: sp,
						Expected: fmt.Sprint(so[0]), Observed: fmt.Sprint(int64(d)), Key: map[string]interface{}{"distribution": "multi", "n": len(so), "source": "Quantile"}})
				}
			}
		}
	}
	// everything filled: close each, then come back to each after the others were closed and queried
	for j := 0; j < K && codePanic == ""; j++ {
		if len(own[j]) == 0 {
			continue
		}
		if call("Metrics.Close", func() { ms[j].Close() }) {
			judgeFields(j, "fields (one of several Metrics, final Close)")
		}
	}
	for j := 0; j < K && codePanic == ""; j++ {
		if len(own[j]) == 0 {
			continue
		}
		s.Count("multi:instance queried again after the others were closed")
		if !judgeHDR(j, "hdr (one of several Metrics, revisited)") {
			break
		}
		if call("Metrics.Close", func() { ms[j].Close() }) {
			judgeFields(j, "fields (one of several Metrics, second Close after the others)")
		}
	}
	if codePanic != "" {
		s.Violate(kit.Violation{Kind: "metrics_panic", What: "several Metrics values interleaved: " + codePanic, Input: sp})
	}
}
