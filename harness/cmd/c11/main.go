package main

// C11 — latency percentiles are ordered and within a bounded rank error.
//
// Real code: vegeta.Metrics (Add, Close, Latencies.P50..P99/Min/Max, Latencies.Quantile),
// NewHDRHistogramPlotReporter.  The t-digest that vegeta's LatencyMetrics owns is reached
// through reflection (read-only) so that the processed centroid list, processedWeight, min
// and max — the *input* of the Lean model of TDigest.Quantile — are those of the very
// estimator the reported percentiles come from.

import (
	"bytes"
	"encoding/json"
	"fmt"
	"math"
	"math/rand"
	"os"
	"path/filepath"
	"reflect"
	"sort"
	"strconv"
	"strings"
	"time"
	"unsafe"

	"github.com/influxdata/tdigest"
	vegeta "github.com/tsenart/vegeta/v12/lib"
	"vharness/kit"
	"vharness/run"
)

func main() { run.Main("C11", runC11) }

// ---------------------------------------------------------------- data sets

// spec describes one data set; it is regenerated deterministically from these fields
// (Lats, when present, is the explicit list and wins).
type spec struct {
	Dist  string  `json:"distribution"` // uniform lognormal constant fewvalued bimodal
	N     int     `json:"n"`
	Order string  `json:"order"` // random sorted reverse
	Seed  int64   `json:"gen_seed"`
	Frac  float64 `json:"frac,omitempty"` // bimodal: share of the low mode
	Zeros bool    `json:"zeros,omitempty"`
	Lats  []int64 `json:"latencies,omitempty"`
	// history: after this many Adds an intermediate Close (and report) happens, as `vegeta report -every` does
	Closes []int `json:"closes_after,omitempty"`
	// also run the `vegeta report` command on a results file holding the data set
	CLI bool `json:"cli,omitempty"`
	// the results are handed to `vegeta report` in several files: consecutive chunks of these lengths, the rest
	// in a last file; SplitRev passes the files in the opposite argument order
	Split    []int `json:"split_files,omitempty"`
	SplitRev bool  `json:"split_args_reversed,omitempty"`
	// periodic: the latency's mode depends on the position modulo Period (endpoints attacked round robin)
	Period int `json:"period,omitempty"`
	// a few records in the middle of the results file carry large bodies (40..200 KiB): their JSON lines
	// exceed 64 KiB, their gob/CSV records are large too
	BigBodies bool `json:"big_bodies,omitempty"`
	// the slowest tenth of the requests failed (code 0 + error text, as timeouts do); otherwise all 200
	ErrTail bool `json:"errors_on_slowest,omitempty"`
}

// resultFor builds the Result carrying latency l (the i-th of the data set).
func (sp spec) resultFor(i int, l int64, cut int64) *vegeta.Result {
	r := &vegeta.Result{Attack: "a", Seq: uint64(i), Code: 200, Timestamp: time.Unix(1700000000, 0).Add(time.Duration(i) * time.Millisecond), Latency: time.Duration(l)}
	if sp.BigBodies && sp.N >= 4 && (i == sp.N/4 || i == sp.N/2 || i == sp.N/2+1) {
		size := 40*1024 + int((uint64(sp.Seed)>>3+uint64(i)*7919)%(160*1024))
		r.Body = bytes.Repeat([]byte{byte('a' + i%26)}, size)
	}
	if sp.ErrTail {
		switch {
		case l >= cut:
			r.Code, r.Error = 0, "Get \"http://x/\": context deadline exceeded"
		case i%7 == 3:
			r.Code = 503
			r.Error = "503 Service Unavailable"
		case i%5 == 1:
			r.Code = 302
		}
	}
	return r
}

const maxLat = int64(1) << 52 // float64(latency) is exact below 2^53

func clampLat(x int64) int64 {
	if x < 1 {
		return 1
	}
	if x > maxLat {
		return maxLat
	}
	return x
}

func (sp spec) generate() []int64 {
	if sp.Lats != nil {
		return append([]int64(nil), sp.Lats...)
	}
	g := rand.New(rand.NewSource(sp.Seed))
	xs := make([]int64, sp.N)
	switch sp.Dist {
	case "constant":
		var v int64
		switch g.Intn(4) {
		case 0:
			v = 1 + g.Int63n(10)
		case 1:
			v = 1 + g.Int63n(int64(time.Hour))
		case 2:
			v = maxLat - g.Int63n(1000)
		default:
			v = int64(time.Millisecond) * (1 + g.Int63n(5000))
		}
		for i := range xs {
			xs[i] = v
		}
	case "fewvalued":
		k := 2 + g.Intn(4)
		vals := make([]int64, k)
		cum := make([]float64, k)
		tot := 0.0
		for i := range vals {
			vals[i] = clampLat(int64(math.Exp(g.Float64()*30)) + g.Int63n(1000))
			tot += 0.05 + g.Float64()
			cum[i] = tot
		}
		for i := range xs {
			u := g.Float64() * tot
			j := sort.SearchFloat64s(cum, u)
			if j >= k {
				j = k - 1
			}
			xs[i] = vals[j]
		}
	case "bimodal":
		lo := int64(math.Exp(g.Float64()*14)) + 1         // 1ns .. ~1.2ms
		hi := int64(float64(time.Second) * math.Exp(g.Float64()*8)) // 1s .. ~50min
		wlo := 1 + g.Int63n(lo)
		whi := 1 + g.Int63n(1+hi/1000)
		for i := range xs {
			if g.Float64() < sp.Frac {
				xs[i] = clampLat(lo + g.Int63n(wlo))
			} else {
				xs[i] = clampLat(hi + g.Int63n(whi))
			}
		}
	case "periodic":
		// Period well-separated modes (1–2 ms, 10–20 ms, 100–200 ms, 1–2 s …), the i-th arrival from mode i mod Period
		p := sp.Period
		if p < 2 {
			p = 2
		}
		for i := range xs {
			j := i % p
			base := int64(time.Millisecond)
			if p == 2 {
				if j == 1 {
					base = int64(time.Second)
				}
			} else {
				for t := 0; t < j; t++ {
					base *= 10
				}
			}
			xs[i] = base + g.Int63n(base)
		}
	case "zeromix":
		// many exact zeros among a few non-zero values: interleaved at random, or in runs after a large value
		vals := []int64{int64(time.Millisecond) * (1 + g.Int63n(20)), int64(time.Millisecond) * (1 + g.Int63n(20)), 1 + g.Int63n(1000)}
		if g.Intn(2) == 0 {
			p0 := 0.5 + 0.45*g.Float64()
			for i := range xs {
				if g.Float64() >= p0 {
					xs[i] = vals[g.Intn(len(vals))]
				}
			}
		} else {
			run := 2 + g.Intn(40)
			big := int64(time.Second) * (1 + g.Int63n(30))
			for i := range xs {
				if i%run == 0 {
					xs[i] = big + g.Int63n(3)
				}
			}
		}
	case "lognormal":
		mu := math.Log(float64(time.Microsecond)) + g.Float64()*math.Log(1e6)
		sigma := 0.1 + g.Float64()*2.4
		for i := range xs {
			xs[i] = clampLat(int64(math.Exp(mu + sigma*g.NormFloat64())))
		}
	default: // uniform
		lo := int64(1)
		if g.Intn(2) == 0 {
			lo = 1 + g.Int63n(int64(10*time.Second))
		}
		var width int64
		switch g.Intn(4) {
		case 0:
			width = 1 + g.Int63n(8) // many ties
		case 1:
			width = 1 + g.Int63n(int64(sp.N)+1)
		case 2:
			width = 1 + g.Int63n(int64(time.Second))
		default:
			width = 1 + g.Int63n(int64(time.Hour))
		}
		for i := range xs {
			xs[i] = clampLat(lo + g.Int63n(width))
		}
	}
	if sp.Zeros {
		for i := range xs {
			if g.Intn(10) == 0 {
				xs[i] = 0
			}
		}
		xs[g.Intn(len(xs))] = 0
	}
	switch sp.Order {
	case "shuffled":
		g.Shuffle(len(xs), func(i, j int) { xs[i], xs[j] = xs[j], xs[i] })
	case "sorted":
		sort.Slice(xs, func(i, j int) bool { return xs[i] < xs[j] })
	case "reverse":
		sort.Slice(xs, func(i, j int) bool { return xs[i] > xs[j] })
	}
	return xs
}

var dists = []string{"uniform", "lognormal", "constant", "fewvalued", "bimodal", "zeromix"}
var orders = []string{"random", "sorted", "reverse"}

func genSize(r *kit.Rng, maxN int) int {
	switch r.Pick(20) {
	case 0, 1, 2:
		return 1 + r.Pick(5)
	case 3, 4, 5, 6:
		return 6 + r.Pick(95)
	case 7, 8, 9:
		return 101 + r.Pick(900)
	case 10:
		return []int{799, 800, 801, 802, 1000, 1600, 1601, 1602}[r.Pick(8)] // around the first compression passes
	case 11, 12, 13, 14, 15:
		return 1001 + r.Pick(maxN/5)
	case 16:
		return maxN
	default:
		return 1001 + r.Pick(maxN-1000)
	}
}

func genSpec(r *kit.Rng, maxN int) spec {
	sp := spec{Dist: dists[r.Pick(len(dists))], N: genSize(r, maxN), Order: orders[r.Pick(len(orders))], Seed: r.Int63()}
	if sp.Dist == "bimodal" {
		if r.Chance(0.5) {
			q := []float64{0.5, 0.9, 0.95, 0.99}[r.Pick(4)]
			sp.Frac = q + (r.Float64()-0.5)*0.06
		} else {
			sp.Frac = 0.05 + 0.9*r.Float64()
		}
		if sp.Frac > 0.999 {
			sp.Frac = 0.999
		}
	}
	if sp.Dist != "constant" && r.Chance(0.03) {
		sp.Zeros = true
	}
	if sp.N >= 2 && r.Chance(0.3) {
		for i := 0; i <= r.Pick(3); i++ {
			sp.Closes = append(sp.Closes, 1+r.Pick(sp.N-1))
		}
		sort.Ints(sp.Closes)
	}
	if sp.N <= 20000 && (r.Chance(0.08) || (sp.Dist == "zeromix" && r.Chance(0.6))) {
		sp.CLI = true
	}
	if sp.CLI && sp.N >= 4 && r.Chance(0.5) {
		sp.BigBodies = true
		if r.Chance(0.6) {
			sp.Order = "sorted" // ascending latencies: a cut-short file shifts every percentile
		}
	}
	if sp.CLI && sp.N >= 60 && r.Chance(0.4) {
		// two to four result files of very different lengths
		switch r.Pick(4) {
		case 0:
			sp.Split = []int{sp.N / 100 + 1}
		case 1:
			sp.Split = []int{3, 3}
		case 2:
			sp.Split = []int{sp.N - sp.N/100 - 1} // the long file first, a short tail file
		default:
			sp.Split = []int{2, sp.N / 50 + 1, 5}
		}
		sp.SplitRev = r.Chance(0.5)
		if r.Chance(0.6) {
			sp.Order = "sorted"
		}
	}
	if sp.Dist == "zeromix" && !sp.BigBodies && len(sp.Split) == 0 && r.Chance(0.7) {
		sp.Order = "random" // keep the zeros interleaved with / following the non-zero values
	}
	if r.Chance(0.3) {
		sp.ErrTail = true
	}
	return sp
}

// ---------------------------------------------------------------- the implementation's state

func fbits(f float64) string { return strconv.FormatUint(math.Float64bits(f), 10) }

// estimatorUnreadable counts how often the estimator could not be read (nil is not counted): another
// type than lib/metrics.go's tdigestEstimator{*tdigest.TDigest}, an interface value, …
var estimatorUnreadable int

// digestOf is the ONE place where the harness reflects into LatencyMetrics: it returns the t-digest
// owned by the estimator, or nil when there is none (before the first Add) or when the estimator is not
// readable as a tdigestEstimator{*tdigest.TDigest} — never panics.
func digestOf(m *vegeta.Metrics) (td *tdigest.TDigest) {
	defer func() {
		if r := recover(); r != nil {
			estimatorUnreadable++
			td = nil
		}
	}()
	v := reflect.ValueOf(&m.Latencies).Elem().FieldByName("estimator")
	if !v.IsValid() || v.Kind() != reflect.Interface || v.IsNil() {
		return nil
	}
	pv := v.Elem() // *tdigestEstimator
	if pv.Kind() != reflect.Ptr || pv.IsNil() || pv.Elem().Kind() != reflect.Struct || pv.Elem().NumField() < 1 {
		estimatorUnreadable++
		return nil
	}
	p := pv.Elem().Field(0)
	if p.Kind() != reflect.Ptr || p.IsNil() || p.Type() != reflect.TypeOf((*tdigest.TDigest)(nil)) || pv.Elem().NumField() != 1 {
		estimatorUnreadable++
		return nil
	}
	return (*tdigest.TDigest)(unsafe.Pointer(p.Pointer()))
}

type state struct {
	means, weights, cum []float64
	w, min, max         float64
	maxProcessed        int
	unprocessed         int
}

func readState(td *tdigest.TDigest) state {
	tv := reflect.ValueOf(td).Elem()
	var st state
	pr := tv.FieldByName("processed")
	for i := 0; i < pr.Len(); i++ {
		st.means = append(st.means, pr.Index(i).Field(0).Float())
		st.weights = append(st.weights, pr.Index(i).Field(1).Float())
	}
	cu := tv.FieldByName("cumulative")
	for i := 0; i < cu.Len(); i++ {
		st.cum = append(st.cum, cu.Index(i).Float())
	}
	st.w = tv.FieldByName("processedWeight").Float()
	st.min = tv.FieldByName("min").Float()
	st.max = tv.FieldByName("max").Float()
	st.maxProcessed = int(tv.FieldByName("maxProcessed").Int())
	st.unprocessed = tv.FieldByName("unprocessed").Len()
	return st
}

func (st state) line() string {
	var sb strings.Builder
	sb.WriteString(strconv.Itoa(len(st.means)))
	for i := range st.means {
		sb.WriteByte(' ')
		sb.WriteString(fbits(st.means[i]))
		sb.WriteByte(' ')
		sb.WriteString(fbits(st.weights[i]))
	}
	sb.WriteString(" " + fbits(st.w) + " " + fbits(st.min) + " " + fbits(st.max))
	return sb.String()
}

func (st state) equal(o state) bool { return st.line() == o.line() }

// validate checks the constraints under which the Lean theorems speak about the (unmodelled)
// compression pass; a failure is a broken assumption of the model, reported as a divergence.
func (st state) validate(n int, smin, smax int64) string {
	if len(st.means) == 0 {
		return "no centroid"
	}
	if st.unprocessed != 0 {
		return "unprocessed centroids left after Quantile"
	}
	if len(st.means) > st.maxProcessed {
		return fmt.Sprintf("%d centroids > maxProcessed %d: every Quantile call would re-run the compression", len(st.means), st.maxProcessed)
	}
	sum := 0.0
	for i := range st.means {
		if !(st.weights[i] > 0) {
			return fmt.Sprintf("weight[%d]=%v not positive", i, st.weights[i])
		}
		if i > 0 && !(st.means[i-1] <= st.means[i]) {
			return fmt.Sprintf("means not sorted at %d", i)
		}
		if !(st.min <= st.means[i] && st.means[i] <= st.max) {
			return fmt.Sprintf("mean[%d]=%v outside [min,max]=[%v,%v]", i, st.means[i], st.min, st.max)
		}
		sum += st.weights[i]
	}
	if sum != float64(n) || st.w != float64(n) {
		return fmt.Sprintf("weights sum to %v, processedWeight %v, n=%d", sum, st.w, n)
	}
	if len(st.cum) != len(st.means)+1 || st.cum[len(st.cum)-1] != st.w {
		return "cumulative table: wrong length or last entry ≠ processedWeight"
	}
	if !(float64(smin) <= st.min && st.max <= float64(smax)) {
		return fmt.Sprintf("digest [min,max]=[%v,%v] not within the sample range [%d,%d]", st.min, st.max, smin, smax)
	}
	return ""
}

// ---------------------------------------------------------------- oracle (from the property text)

// rankWindow decides the rank-error clause for one reported percentile v = P(q) in the reading most
// favourable to the code: the observation at position i (0-based) of the sorted sample has rank i
// when ranks are counted from 0 and i+1 when counted from 1, and a tied value may take the position
// of any of its copies; it is "within 1 + n/100 of the ideal rank q·n" when the interval [i, i+1] comes
// that close to q·n.  The clause holds when such an observation exists at or below v and one at or
// above v.  Returns ok and, when not, the distance in ranks from q·n to the closest observation on
// the failing side (measured to the nearer end of its interval).
func rankWindow(sorted []int64, v int64, q float64) (bool, float64) {
	n := len(sorted)
	tol := 1 + 0.01*float64(n)
	ideal := q * float64(n)
	lo := int(math.Ceil(ideal - tol - 1)) // 0-based positions lo..hi are within tolerance
	hi := int(math.Floor(ideal + tol))
	if lo < 0 {
		lo = 0
	}
	if hi > n-1 {
		hi = n - 1
	}
	if sorted[lo] > v { // every observation within tolerance is above v: v sits too low
		p := sort.Search(n, func(i int) bool { return sorted[i] > v }) // observations ≤ v occupy positions < p
		return false, ideal - float64(p)
	}
	if sorted[hi] < v { // v sits too high
		p := sort.Search(n, func(i int) bool { return sorted[i] >= v }) // first position with an observation ≥ v
		return false, float64(p) - ideal
	}
	return true, 0
}

type hdrRow struct{ value, q, count, oneBy string }

// parseHDR takes from an HDR plot listing what the property speaks about: per row the value and the
// percentile — the first two numeric columns.  Blank lines, comment lines (`#…`), the header and any
// other non-numeric line are skipped; alignment and extra columns do not matter (third and fourth
// column, when present, are kept for the correspondence).  A file holding several reports (periodic
// reporting) yields the LAST one: a new report starts where the percentile falls back to the first
// row's percentile.  ok = at least one numeric row was found.
func parseHDR(b []byte) ([]hdrRow, bool) {
	var rows []hdrRow
	first := math.NaN()
	for _, ln := range strings.Split(string(b), "\n") {
		t := strings.TrimSpace(ln)
		if t == "" || strings.HasPrefix(t, "#") {
			continue
		}
		f := strings.Fields(t)
		if len(f) < 2 {
			continue
		}
		_, e1 := strconv.ParseFloat(f[0], 64)
		q, e2 := strconv.ParseFloat(f[1], 64)
		if e1 != nil || e2 != nil {
			continue
		}
		if len(rows) > 0 && q <= first {
			rows = rows[:0] // the next report of a periodic listing
		}
		if len(rows) == 0 {
			first = q
		}
		r := hdrRow{value: f[0], q: f[1]}
		if len(f) > 2 {
			r.count = f[2]
		}
		if len(f) > 3 {
			r.oneBy = f[3]
		}
		rows = append(rows, r)
	}
	return rows, len(rows) > 0
}

// sameDecimals renders x with as many decimals as the report's cell shows.
func sameDecimals(x float64, cell string) string {
	dec := 0
	if i := strings.IndexByte(cell, '.'); i >= 0 {
		dec = len(cell) - i - 1
	}
	return strconv.FormatFloat(x, 'f', dec, 64)
}

// ---------------------------------------------------------------- one data set

type checker struct {
	c      *run.Ctx
	s      *kit.Summary
	r      *kit.Rng
	qst    *kit.Stream // c11.quantile
	cst    *kit.Stream // c11.cum
	clst   *kit.Stream // c11.close
	hdrOps []string    // c11.hdr ops, compared after rendering
	hdrImp [][]hdrRow
	worst  map[string]float64 // max rank distance / n per distribution
	mc     *mergeChecker      // c11.add / c11.process (compression pass)
	maxCen int                // largest centroid count seen on vegeta's estimator (maxProcessed is 200)
	cliSeq int
	seenRank map[string]bool
}

func (k *checker) flush(force bool) {
	if !force && len(k.qst.Ops) < 200 {
		return
	}
	k.mc.flush(k.c.Driver, k.s, true)
	k.qst.Diff(k.c.Driver, k.s)
	k.cst.Diff(k.c.Driver, k.s)
	k.clst.Diff(k.c.Driver, k.s)
	k.qst, k.cst, k.clst = &kit.Stream{Name: "c11.quantile"}, &kit.Stream{Name: "c11.cum"}, &kit.Stream{Name: "c11.close"}
	// HDR rows: the model prints bit patterns; render them with the reporter's verbs and compare texts
	k.s.Streams["c11.hdr"] += len(k.hdrOps)
	outs, err := kit.RunDriver(k.c.Driver, k.hdrOps)
	if err != nil {
		k.s.Diverge("c11.hdr", "(driver failure)", "", err.Error())
	} else {
		for i, o := range outs {
			if d := diffHDR(o, k.hdrImp[i]); d != "" {
				k.s.Diverge("c11.hdr", k.hdrOps[i], fmt.Sprint(k.hdrImp[i]), d+" | "+o)
			}
		}
	}
	k.hdrOps, k.hdrImp = nil, nil
}

func diffHDR(model string, impl []hdrRow) string {
	f := strings.Fields(model)
	if len(f) < 2 || f[0] != "ok" {
		return "model: " + model
	}
	if n, _ := strconv.Atoi(f[1]); n != len(impl) || len(f) != n+2 {
		return fmt.Sprintf("model has %s rows, report %d", f[1], len(impl))
	}
	for i, cell := range f[2:] {
		p := strings.Split(cell, ",")
		if len(p) != 4 {
			return "bad model row " + cell
		}
		bitsOf := func(s string) float64 { u, _ := strconv.ParseUint(s, 10, 64); return math.Float64frombits(u) }
		// value and percentile always; count and 1/(1-percentile) when the report shows them; the number of
		// decimals is the report's choice
		if w := sameDecimals(bitsOf(p[0]), impl[i].value); w != impl[i].value {
			return fmt.Sprintf("row %d: model value %s report %v", i, w, impl[i])
		}
		if w := sameDecimals(bitsOf(p[1]), impl[i].q); w != impl[i].q {
			return fmt.Sprintf("row %d: model percentile %s report %v", i, w, impl[i])
		}
		if impl[i].count != "" && impl[i].count != p[2] {
			if _, err := strconv.ParseInt(impl[i].count, 10, 64); err == nil {
				return fmt.Sprintf("row %d: model count %s report %v", i, p[2], impl[i])
			}
		}
		if impl[i].oneBy != "" {
			if _, err := strconv.ParseFloat(impl[i].oneBy, 64); err == nil {
				if w := sameDecimals(bitsOf(p[3]), impl[i].oneBy); w != impl[i].oneBy {
					return fmt.Sprintf("row %d: model 1/(1-p) %s report %v", i, w, impl[i])
				}
			}
		}
	}
	return ""
}

func (k *checker) check(sp spec, tag string) {
	s := k.s
	if sp.Dist == "multi" { // several Metrics values interleaved (multi.go)
		k.multiCheck(sp)
		return
	}
	lats := sp.generate()
	n := len(lats)
	if n == 0 {
		return
	}
	sorted := append([]int64(nil), lats...)
	sort.Slice(sorted, func(i, j int) bool { return sorted[i] < sorted[j] })
	smin, smax := sorted[0], sorted[n-1]
	distinct := smin != smax
	hasZero := smin == 0
	repl := sp
	if n <= 64 {
		repl.Lats = lats
	}

	errCut := sorted[(n*9)/10]
	if sp.ErrTail {
		s.Count("results:slowest tenth failed (code 0 + error), other codes mixed")
	}
	var m vegeta.Metrics
	codePanic := ""
	var call func(what string, f func()) bool
	if p, msg := kit.Recover(func() {
		// compression pass: watch the estimator vegeta owns; check the Adds that trigger process
		// (all of them for small sets, the first two, some random ones and the last otherwise),
		// one Add that does not, and the process() that the first Quantile of Close starts with
		var rd tdReader
		have := false
		// calls into the code under test run under their own recover, so that a panic of the harness's
		// own reflection is never mistaken for one of theirs
		call = func(what string, f func()) bool {
			if p, msg := kit.Recover(f); p {
				codePanic = what + " panicked: " + msg
				return false
			}
			return true
		}
		// the model replays ~1000 centroids per such op in software floats: in the thorough tier the
		// compression pass is watched on a third of the data sets (the Quantile-level checks run on all)
		mergeWatch := k.c.Tier != "thorough" || k.r.Chance(0.33)
		maxU, triggers := 0, 0
		plain := -1
		if n > 1 {
			plain = 1 + k.r.Pick(n-1)
		}
		for i, l := range lats {
			var pre full
			watch := false
			if have && mergeWatch {
				if rd.unprocessedLen() >= maxU { // this Add runs process
					triggers++
					watch = triggers <= 2 || n <= 2500 || k.r.Chance(0.02) || n-i <= maxU+1
				} else if i == plain {
					watch = true
				}
				if watch {
					pre = rd.read()
				}
			}
			if !call("Metrics.Add", func() { m.Add(sp.resultFor(i, l, errCut)) }) {
				return
			}
			if !have {
				// the estimator exists once a sample reached it (nil until then)
				if td := digestOf(&m); td != nil {
					rd = newReader(td)
					maxU = rd.read().maxU
					have = true
				}
				watch = false
			}
			if watch {
				k.mc.addOp(s, pre, float64(l), 1, rd.read(), 100, fmt.Sprint(repl))
			}
			for ci, c := range sp.Closes {
				if c == i+1 && c < n {
					if ci%2 == 1 {
						// an HDR report asked for WITHOUT a Close since the last Adds (the library allows it)
						var hb bytes.Buffer
						var herr error
						if !call("HDR report", func() { herr = vegeta.NewHDRHistogramPlotReporter(&m).Report(&hb) }) {
							return
						}
						rows, ok := parseHDR(hb.Bytes())
						ps := prefixSorted(lats, c)
						s.Count("history:HDR report without Close after more Adds")
						k.oracleHDR("hdr@prefix-noclose", rows, ok && herr == nil, ps, repl, ps[0] == 0)
						break
					}
					// intermediate report on the prefix (Close, then more Adds, then Close again)
					if !call("Metrics.Close", func() { m.Close() }) {
						return
					}
					ps := prefixSorted(lats, c)
					L := m.Latencies
					s.Count("history:intermediate Close")
					k.oracleChain(view{"fields@prefix", []int64{int64(L.Min), int64(L.P50), int64(L.P90), int64(L.P95), int64(L.P99), int64(L.Max)}, true}, ps, repl, ps[0] == 0)
					if c%2 == 0 {
						var hb bytes.Buffer
						var herr error
						if !call("HDR report", func() { herr = vegeta.NewHDRHistogramPlotReporter(&m).Report(&hb) }) {
							return
						}
						rows, ok := parseHDR(hb.Bytes())
						k.oracleHDR("hdr@prefix", rows, ok && herr == nil, ps, repl, ps[0] == 0)
					}
					break
				}
			}
		}
		var preClose full
		if have {
			preClose = rd.read()
		}
		if !call("Metrics.Close", func() { m.Close() }) {
			return
		}
		// Close calls Quantile four times; the state after the first leading process() is the final one
		if mergeWatch && have {
			k.mc.procOp(s, preClose, rd.read(), 100, fmt.Sprint(repl))
		}
	}); p && codePanic == "" {
		// not a panic of the code under test: the harness's own reading of the estimator failed
		s.Count("harness:reflective read of the estimator failed")
		s.Diverge("c11.valid", fmt.Sprint(repl), "harness could not read the estimator: "+msg, "an estimator as in lib/metrics.go")
		return
	}
	if codePanic != "" {
		s.Violate(kit.Violation{Kind: "metrics_panic", What: codePanic, Input: repl})
		return
	}
	L := m.Latencies
	td := digestOf(&m)
	if td == nil {
		// no sample ever reached an estimator: nothing for the model to be compared with — the property's own
		// predicate is still evaluated on everything that was reported
		s.Count("estimator nil after the Adds (no centroids)")
		s.Diverge("c11.valid", fmt.Sprint(repl), "no estimator after Metrics.Add calls", "the estimator is created by the first Latencies.Add")
		k.oracleOnly(&m, sp, repl, lats, sorted, hasZero)
		return
	}
	st := readState(td)
	s.Case(tag+fmt.Sprintf(":%s:%d:%s:%d", sp.Dist, n, sp.Order, sp.Seed), n >= 2 && distinct)
	s.Count("dist:" + sp.Dist)
	s.Count("order:" + sp.Order)
	switch {
	case n <= 5:
		s.Count("n:1..5")
	case n <= 100:
		s.Count("n:6..100")
	case n <= 800:
		s.Count("n:101..800 (never compressed)")
	case n <= 20000:
		s.Count("n:801..20000")
	default:
		s.Count("n:>20000")
	}
	switch {
	case len(st.means) == 1:
		s.Count("centroids:1")
	case len(st.means) <= 50:
		s.Count("centroids:2..50")
	case len(st.means) <= 100:
		s.Count("centroids:51..100")
	default:
		s.Count("centroids:>100")
	}
	if len(st.means) > k.maxCen {
		k.maxCen = len(st.means)
	}
	if hasZero {
		s.Count("has_zero_latency")
	}
	if float64(smin) < st.min || st.max < float64(smax) {
		s.Count("digest min/max strictly inside the sample range")
	}

	// --- assumptions of the model's parameter (the compression pass) on the real state
	if why := st.validate(n, smin, smax); why != "" {
		s.Diverge("c11.valid", fmt.Sprint(repl), why, "constraints assumed of the compression pass")
	}

	// --- quantile arguments: Close's four, the ladder (from the report), edges, segment borders, random
	var buf bytes.Buffer
	var rows []hdrRow
	var rerr error
	pr, _ := kit.Recover(func() { rerr = vegeta.NewHDRHistogramPlotReporter(&m).Report(&buf) })
	okRows := false
	if !pr && rerr == nil {
		rows, okRows = parseHDR(buf.Bytes())
	}
	qs := []float64{0.50, 0.90, 0.95, 0.99, 0, 1}
	for _, row := range rows {
		if q, err := strconv.ParseFloat(row.q, 64); err == nil {
			qs = append(qs, q)
		}
	}
	for i := 0; i < 12; i++ {
		switch k.r.Pick(6) {
		case 0: // border of a segment: cumulative[i]/W, and its float neighbours
			if len(st.cum) == 0 { // (only under a change that breaks the digest's state)
				continue
			}
			q := st.cum[k.r.Pick(len(st.cum))] / st.w
			qs = append(qs, q, math.Nextafter(q, 0), math.Nextafter(q, 2))
		case 1:
			qs = append(qs, 1-k.r.Float64()/float64(n), k.r.Float64()/float64(n))
		case 2:
			qs = append(qs, []float64{-0.25, 1.5, math.Inf(1), math.Inf(-1), math.Copysign(0, -1), math.Nextafter(1, 2), math.Nextafter(1, 0), math.SmallestNonzeroFloat64}[k.r.Pick(8)])
		default:
			qs = append(qs, k.r.Float64())
		}
	}
	if k.r.Chance(0.1) {
		qs = append(qs, math.NaN()) // the real code indexes out of range here when there are ≥ 2 centroids
	}
	var op, impl strings.Builder
	op.WriteString("c11.quantile " + st.line() + " " + strconv.Itoa(len(qs)))
	impl.WriteString("ok")
	type qv struct {
		q float64
		v int64
	}
	var finite []qv
	for _, q := range qs {
		op.WriteString(" " + fbits(q))
		var f float64
		var d time.Duration
		if p, _ := kit.Recover(func() { f = td.Quantile(q); d = L.Quantile(q) }); p {
			impl.WriteString(" panic")
			s.Count("quantile:panic (q NaN)")
			continue
		}
		impl.WriteString(" " + fbits(f) + ":" + strconv.FormatInt(int64(d), 10))
		if q >= 0 && q <= 1 {
			finite = append(finite, qv{q, int64(d)})
		}
	}
	k.qst.Add(op.String(), impl.String())
	// the digest must not change under Quantile calls (model: a pure function of the state)
	if st2 := readState(td); !st.equal(st2) {
		s.Diverge("c11.valid", fmt.Sprint(repl), "state changed by Quantile calls", "Quantile is a pure function of the processed state")
	}
	{
		var sb strings.Builder
		sb.WriteString("ok " + strconv.Itoa(len(st.cum)))
		for _, c := range st.cum {
			sb.WriteString(" " + fbits(c))
		}
		k.cst.Add("c11.cum "+st.line(), sb.String())
	}
	k.clst.Add("c11.close "+st.line(), fmt.Sprintf("ok %d %d %d %d", int64(L.P50), int64(L.P90), int64(L.P95), int64(L.P99)))
	if okRows {
		k.hdrOps = append(k.hdrOps, "c11.hdr "+st.line()+" "+strconv.FormatUint(m.Requests, 10))
		k.hdrImp = append(k.hdrImp, rows)
	}
	if len(s.Samples) < 3 && n <= 6 {
		s.Sample(map[string]interface{}{"spec": repl, "p50": int64(L.P50), "p99": int64(L.P99), "min": int64(L.Min), "max": int64(L.Max), "centroids": len(st.means)})
	}

	// --- the property's own predicate, on everything the implementation reports
	chain := []int64{int64(L.Min), int64(L.P50), int64(L.P90), int64(L.P95), int64(L.P99), int64(L.Max)}
	k.oracleChain(view{"fields", chain, true}, sorted, repl, hasZero)
	if !distinct {
		s.Count("all_equal")
		for _, x := range finite {
			if x.v != smin {
				s.Violate(kit.Violation{Kind: "all_equal", What: fmt.Sprintf("all latencies equal but Quantile(%v) differs from the value", x.q), Input: repl,
					Expected: fmt.Sprint(smin), Observed: fmt.Sprint(x.v), Key: map[string]interface{}{"distribution": sp.Dist, "n": n, "source": "Quantile"}})
				break
			}
		}
	}
	k.oracleHDR("hdr", rows, !pr && rerr == nil && okRows, sorted, repl, hasZero)
	{ // the JSON and text reporters show the same six values
		var jb, tb bytes.Buffer
		if p, _ := kit.Recover(func() { rerr = vegeta.NewJSONReporter(&m).Report(&jb) }); p || rerr != nil {
			s.Count("oracle:skipped json (the reporter failed)") // the JSON reporter's own property
		} else if ch, ok := parseJSONLatencies(jb.Bytes()); !ok {
			s.Count("oracle:skipped json (latency fields not recognised)")
		} else {
			k.oracleChain(view{"json", ch, true}, sorted, repl, hasZero)
		}
		if p, _ := kit.Recover(func() { rerr = vegeta.NewTextReporter(&m).Report(&tb) }); p || rerr != nil {
			s.Count("oracle:skipped text (the reporter failed)")
		} else if ch, ok := parseTextLatencies(tb.Bytes()); !ok {
			s.Count("oracle:skipped text (latency line not recognised)")
		} else {
			k.oracleChain(view{"text", ch, false}, sorted, repl, hasZero)
		}
	}
	// Close again (a second report of the same data) must not disturb what is reported
	if k.r.Chance(0.2) {
		m.Close()
		L2 := m.Latencies
		s.Count("history:Close twice")
		k.oracleChain(view{"fields after a second Close", []int64{int64(L2.Min), int64(L2.P50), int64(L2.P90), int64(L2.P95), int64(L2.P99), int64(L2.Max)}, true}, sorted, repl, hasZero)
	}
	if sp.CLI {
		var fields []int64
		if len(sp.Closes) == 0 && len(sp.Split) == 0 {
			// (with several files the command merges them in its own arrival order: the estimate may differ)
			fields = chain
		}
		k.cliReports(lats, sorted, repl, hasZero, fields)
	}
	// statistic only (not part of the property): monotonicity over arbitrary q as computed in floats
	sort.Slice(finite, func(i, j int) bool { return finite[i].q < finite[j].q })
	for i := 0; i+1 < len(finite); i++ {
		if finite[i].v > finite[i+1].v {
			s.Count("stat:float quantile not monotone in q (ns)")
			if _, seen := s.Extra["float_nonmonotone_example"]; !seen {
				s.Extra["float_nonmonotone_example"] = map[string]interface{}{"spec": repl, "q1_bits": fbits(finite[i].q), "q2_bits": fbits(finite[i+1].q),
					"q1": finite[i].q, "q2": finite[i+1].q, "v1_ns": finite[i].v, "v2_ns": finite[i+1].v, "digest": st.line()}
			}
		}
	}
	k.mc.flush(k.c.Driver, k.s, false)
	k.flush(false)
}

// ---------------------------------------------------------------- main

func corpus() []spec {
	var out []spec
	files, _ := filepath.Glob("/verif/corpus/C11/*.json")
	sort.Strings(files)
	for _, f := range files {
		if sp, ok := loadSpec(f); ok {
			out = append(out, sp)
		}
	}
	return out
}

func loadSpec(path string) (spec, bool) {
	data, err := os.ReadFile(path)
	if err != nil {
		return spec{}, false
	}
	var rec struct {
		Input json.RawMessage `json:"input"`
	}
	var sp spec
	if err := json.Unmarshal(data, &rec); err != nil || rec.Input == nil {
		return sp, false
	}
	if err := json.Unmarshal(rec.Input, &sp); err != nil || (sp.N == 0 && sp.Lats == nil) {
		return sp, false
	}
	return sp, true
}

func runC11(c *run.Ctx, s *kit.Summary) {
	r := kit.NewRng(c.Seed)
	s.Rule = "latency multisets of 1..20000 (quick) / 1..100000 (thorough) samples, sizes biased to 1..5, ≤100, around the first compression passes (800/801, 1600/1601) and the maximum; " +
		"uniform (incl. narrow ranges with many ties), log-normal, constant, few-valued (2..5 values), zero-mix (50..95% exact zeros interleaved with 1..3 non-zero values, or runs of zeros after a large value; 60% of them also through `vegeta report`), bimodal with gaps of 3..12 orders of magnitude (half of them with the mode boundary within ±3% of a reported percentile), " +
		"3% with zero latencies; arrival orders random / sorted / reverse-sorted; per set ~130 quantile arguments (Close's four, the HDR ladder, 0, 1, segment borders ± 1 ulp, tails, out of range, NaN); " +
		"compression pass: on vegeta's own estimator the Adds that trigger process (all for n ≤ 2500, else the first two, 2% and the last), one plain Add and the process() at Close; plus stand-alone digests with compression 1..20 (tiny buffers, incl. the len(processed) > maxProcessed trigger, weights 1..4, NaN samples) with EVERY Add checked; " +
		"histories: 30% with 1..3 intermediate Close calls / HDR reports without Close, 20% with a second Close; 30% with failed requests (slowest tenth code 0 + error, other codes mixed); 8% also through `vegeta report` (json, text, hdrplot; gob/JSON/CSV input; a third with -every); oracle on fields, JSON, text, HDR rows and the command's outputs; " +
		"3 (quick) / 15 (thorough) data sets of 70 000 / 100 000 samples whose mode depends on the arrival position modulo 2 or 4 (round-robin endpoints) with a shuffled control, one through `vegeta report`; " +
		"several Metrics at once: 80 / 800 runs of 2..4 Metrics values with interleaved Add / Close / Quantile / HDR-report calls, every instance judged against its own samples (also when revisited after the others were closed); " +
		"call sequences: 300 / 5000 random histories of ≤ 40 Add / Close / Quantile / HDR-report calls (queries before the first Add, double Close, timestamps increasing / all equal / decreasing / random) compared call by call with Model/LatencySeq; " +
		"non-trivial = distinct data set with ≥2 samples and ≥2 distinct values"
	k := &checker{c: c, s: s, r: r, worst: map[string]float64{}, mc: newMergeChecker(), seenRank: map[string]bool{},
		qst: &kit.Stream{Name: "c11.quantile"}, cst: &kit.Stream{Name: "c11.cum"}, clst: &kit.Stream{Name: "c11.close"}}
	if c.Replay != "" {
		sp, ok := loadSpec(c.Replay)
		if !ok {
			panic("replay: input is not a C11 data-set spec")
		}
		k.check(sp, "replay")
		k.flush(true)
		return
	}
	for i, sp := range corpus() {
		k.check(sp, fmt.Sprintf("corpus%d", i))
	}
	// more than 2^16 samples in ONE Metrics, arriving in a pattern of even period (two / four endpoints attacked
	// round robin), plus the same multiset shuffled as a control; one of them also through the report command
	periodic := []spec{
		{Dist: "periodic", N: 100000, Order: "random", Seed: 11, Period: 2},
		{Dist: "periodic", N: 100000, Order: "random", Seed: 12, Period: 4, CLI: true},
		{Dist: "periodic", N: 70000, Order: "shuffled", Seed: 13, Period: 2},
	}
	if c.Tier == "thorough" {
		for i := 0; i < 12; i++ {
			periodic = append(periodic, spec{Dist: "periodic", N: []int{70000, 100000}[r.Pick(2)], Order: []string{"random", "random", "shuffled"}[r.Pick(3)],
				Seed: r.Int63(), Period: []int{2, 4}[r.Pick(2)], CLI: r.Chance(0.3), Closes: []int{1 + r.Pick(60000)}})
		}
	}
	// the report command over a short and a long results file, both argument orders
	for _, sp := range []spec{
		{Dist: "lognormal", N: 5050, Order: "sorted", Seed: 21, CLI: true, Split: []int{50}},
		{Dist: "uniform", N: 4006, Order: "sorted", Seed: 22, CLI: true, Split: []int{3, 3}, SplitRev: true},
		{Dist: "bimodal", N: 3000, Order: "sorted", Seed: 23, Frac: 0.7, CLI: true, Split: []int{2950}},
	} {
		k.check(sp, "f")
	}
	for _, sp := range periodic {
		s.Count(fmt.Sprintf("periodic:n=%d period=%d order=%s cli=%v", sp.N, sp.Period, sp.Order, sp.CLI))
		k.check(sp, "p")
	}
	// fixed small cases: the tiny sizes the statement's quantifier starts at
	for _, ls := range [][]int64{{7}, {1, 2}, {5, 5}, {1, 1000000000000}, {3, 2, 1}, {1, 2, 3, 4, 5}, {10, 10, 10, 20}, {0, 5}, {0, 0}} {
		k.check(spec{Dist: "fixed", N: len(ls), Order: "random", Lats: ls}, "fixed")
	}
	maxN := 20000
	if c.Tier == "thorough" {
		maxN = 100000
	}
	for i := 0; i < c.N(500, 10000); i++ {
		k.check(genSpec(r, maxN), "g")
	}
	// stand-alone digests with tiny buffers: every Add and the final process against the model
	for i := 0; i < c.N(150, 1500); i++ {
		directDigest(r, s, k.mc, "d")
		k.mc.flush(c.Driver, s, false)
	}
	// two to four Metrics values alive at once, histories interleaved, each judged against its own samples
	for i := 0; i < c.N(80, 800); i++ {
		n := 20 + r.Pick(400)
		if r.Chance(0.3) {
			n = 1500 + r.Pick(3000) // past the first compaction of every instance
		}
		k.check(spec{Dist: "multi", N: n, Order: "random", Seed: r.Int63()}, "m")
	}
	// call sequences (Add / Close / Quantile / HDR report in any order) against Model/LatencySeq.lean
	seqStream(c, r, s, c.N(300, 5000))
	k.flush(true)
	worst := map[string]interface{}{}
	for d, w := range k.worst {
		worst[d] = fmt.Sprintf("%.3f%% of n", 100*w)
	}
	s.Extra["worst_rank_distance_beyond_window_by_distribution"] = worst
	if estimatorUnreadable > 0 {
		s.CountN("estimator:not_readable (other type; model comparison and centroid checks skipped)", estimatorUnreadable)
	}
	s.Extra["max_centroids_after_process (maxProcessed = 200)"] = k.maxCen
}


// oracleOnly evaluates the property's predicate on what a Metrics reports, without any model
// correspondence (used when the harness finds no estimator to read).
func (k *checker) oracleOnly(m *vegeta.Metrics, sp, repl spec, lats, sorted []int64, hasZero bool) {
	s := k.s
	L := m.Latencies
	chain := []int64{int64(L.Min), int64(L.P50), int64(L.P90), int64(L.P95), int64(L.P99), int64(L.Max)}
	k.oracleChain(view{"fields", chain, true}, sorted, repl, hasZero)
	var buf bytes.Buffer
	var rerr error
	if p, msg := kit.Recover(func() { rerr = vegeta.NewHDRHistogramPlotReporter(m).Report(&buf) }); p {
		s.Violate(kit.Violation{Kind: "metrics_panic", What: "HDR report panicked: " + msg, Input: repl})
		return
	}
	rows, ok := parseHDR(buf.Bytes())
	k.oracleHDR("hdr", rows, ok && rerr == nil, sorted, repl, hasZero)
	if sp.CLI {
		k.cliReports(lats, sorted, repl, hasZero, nil)
	}
}
