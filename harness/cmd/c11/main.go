package main

// C11 — latency percentiles are ordered and within a bounded rank error.
//
// Real code: vegeta.Metrics (Add, Close, Latencies.P50..P99/Min/Max, Latencies.Quantile),
// NewHDRHistogramPlotReporter.  The t-digest that vegeta's LatencyMetrics owns is reached
// through reflection (read-only) so that the processed centroid list, processedWeight, min
// and max — the *input* of the Lean model of TDigest.Quantile — are those of the very
// estimator the reported percentiles come from.

import (
	"bytes"
	"encoding/json"
	"fmt"
	"math"
	"math/rand"
	"os"
	"path/filepath"
	"reflect"
	"sort"
	"strconv"
	"strings"
	"time"
	"unsafe"

	"github.com/influxdata/tdigest"
	vegeta "github.com/tsenart/vegeta/v12/lib"
	"vharness/kit"
	"vharness/run"
)

func main() { run.Main("C11", runC11) }

// ---------------------------------------------------------------- data sets

// spec describes one data set; it is regenerated deterministically from these fields
// (Lats, when present, is the explicit list and wins).
type spec struct {
	Dist  string  `json:"distribution"` // uniform lognormal constant fewvalued bimodal
	N     int     `json:"n"`
	Order string  `json:"order"` // random sorted reverse
	Seed  int64   `json:"gen_seed"`
	Frac  float64 `json:"frac,omitempty"` // bimodal: share of the low mode
	Zeros bool    `json:"zeros,omitempty"`
	Lats  []int64 `json:"latencies,omitempty"`
}

const maxLat = int64(1) << 52 // float64(latency) is exact below 2^53

func clampLat(x int64) int64 {
	if x < 1 {
		return 1
	}
	if x > maxLat {
		return maxLat
	}
	return x
}

func (sp spec) generate() []int64 {
	if sp.Lats != nil {
		return append([]int64(nil), sp.Lats...)
	}
	g := rand.New(rand.NewSource(sp.Seed))
	xs := make([]int64, sp.N)
	switch sp.Dist {
	case "constant":
		var v int64
		switch g.Intn(4) {
		case 0:
			v = 1 + g.Int63n(10)
		case 1:
			v = 1 + g.Int63n(int64(time.Hour))
		case 2:
			v = maxLat - g.Int63n(1000)
		default:
			v = int64(time.Millisecond) * (1 + g.Int63n(5000))
		}
		for i := range xs {
			xs[i] = v
		}
	case "fewvalued":
		k := 2 + g.Intn(4)
		vals := make([]int64, k)
		cum := make([]float64, k)
		tot := 0.0
		for i := range vals {
			vals[i] = clampLat(int64(math.Exp(g.Float64()*30)) + g.Int63n(1000))
			tot += 0.05 + g.Float64()
			cum[i] = tot
		}
		for i := range xs {
			u := g.Float64() * tot
			j := sort.SearchFloat64s(cum, u)
			if j >= k {
				j = k - 1
			}
			xs[i] = vals[j]
		}
	case "bimodal":
		lo := int64(math.Exp(g.Float64()*14)) + 1         // 1ns .. ~1.2ms
		hi := int64(float64(time.Second) * math.Exp(g.Float64()*8)) // 1s .. ~50min
		wlo := 1 + g.Int63n(lo)
		whi := 1 + g.Int63n(1+hi/1000)
		for i := range xs {
			if g.Float64() < sp.Frac {
				xs[i] = clampLat(lo + g.Int63n(wlo))
			} else {
				xs[i] = clampLat(hi + g.Int63n(whi))
			}
		}
	case "lognormal":
		mu := math.Log(float64(time.Microsecond)) + g.Float64()*math.Log(1e6)
		sigma := 0.1 + g.Float64()*2.4
		for i := range xs {
			xs[i] = clampLat(int64(math.Exp(mu + sigma*g.NormFloat64())))
		}
	default: // uniform
		lo := int64(1)
		if g.Intn(2) == 0 {
			lo = 1 + g.Int63n(int64(10*time.Second))
		}
		var width int64
		switch g.Intn(4) {
		case 0:
			width = 1 + g.Int63n(8) // many ties
		case 1:
			width = 1 + g.Int63n(int64(sp.N)+1)
		case 2:
			width = 1 + g.Int63n(int64(time.Second))
		default:
			width = 1 + g.Int63n(int64(time.Hour))
		}
		for i := range xs {
			xs[i] = clampLat(lo + g.Int63n(width))
		}
	}
	if sp.Zeros {
		for i := range xs {
			if g.Intn(10) == 0 {
				xs[i] = 0
			}
		}
		xs[g.Intn(len(xs))] = 0
	}
	switch sp.Order {
	case "sorted":
		sort.Slice(xs, func(i, j int) bool { return xs[i] < xs[j] })
	case "reverse":
		sort.Slice(xs, func(i, j int) bool { return xs[i] > xs[j] })
	}
	return xs
}

var dists = []string{"uniform", "lognormal", "constant", "fewvalued", "bimodal"}
var orders = []string{"random", "sorted", "reverse"}

func genSize(r *kit.Rng, maxN int) int {
	switch r.Pick(20) {
	case 0, 1, 2:
		return 1 + r.Pick(5)
	case 3, 4, 5, 6:
		return 6 + r.Pick(95)
	case 7, 8, 9:
		return 101 + r.Pick(900)
	case 10:
		return []int{799, 800, 801, 802, 1000, 1600, 1601, 1602}[r.Pick(8)] // around the first compression passes
	case 11, 12, 13, 14, 15:
		return 1001 + r.Pick(maxN/5)
	case 16:
		return maxN
	default:
		return 1001 + r.Pick(maxN-1000)
	}
}

func genSpec(r *kit.Rng, maxN int) spec {
	sp := spec{Dist: dists[r.Pick(len(dists))], N: genSize(r, maxN), Order: orders[r.Pick(len(orders))], Seed: r.Int63()}
	if sp.Dist == "bimodal" {
		if r.Chance(0.5) {
			q := []float64{0.5, 0.9, 0.95, 0.99}[r.Pick(4)]
			sp.Frac = q + (r.Float64()-0.5)*0.06
		} else {
			sp.Frac = 0.05 + 0.9*r.Float64()
		}
		if sp.Frac > 0.999 {
			sp.Frac = 0.999
		}
	}
	if sp.Dist != "constant" && r.Chance(0.03) {
		sp.Zeros = true
	}
	return sp
}

// ---------------------------------------------------------------- the implementation's state

func fbits(f float64) string { return strconv.FormatUint(math.Float64bits(f), 10) }

// digestOf returns the t-digest owned by the LatencyMetrics (nil before the first Add).
func digestOf(m *vegeta.Metrics) *tdigest.TDigest {
	v := reflect.ValueOf(&m.Latencies).Elem().FieldByName("estimator")
	if !v.IsValid() || v.IsNil() {
		return nil
	}
	p := v.Elem().Elem().Field(0) // tdigestEstimator{*tdigest.TDigest}
	return (*tdigest.TDigest)(unsafe.Pointer(p.Pointer()))
}

type state struct {
	means, weights, cum []float64
	w, min, max         float64
	maxProcessed        int
	unprocessed         int
}

func readState(td *tdigest.TDigest) state {
	tv := reflect.ValueOf(td).Elem()
	var st state
	pr := tv.FieldByName("processed")
	for i := 0; i < pr.Len(); i++ {
		st.means = append(st.means, pr.Index(i).Field(0).Float())
		st.weights = append(st.weights, pr.Index(i).Field(1).Float())
	}
	cu := tv.FieldByName("cumulative")
	for i := 0; i < cu.Len(); i++ {
		st.cum = append(st.cum, cu.Index(i).Float())
	}
	st.w = tv.FieldByName("processedWeight").Float()
	st.min = tv.FieldByName("min").Float()
	st.max = tv.FieldByName("max").Float()
	st.maxProcessed = int(tv.FieldByName("maxProcessed").Int())
	st.unprocessed = tv.FieldByName("unprocessed").Len()
	return st
}

func (st state) line() string {
	var sb strings.Builder
	sb.WriteString(strconv.Itoa(len(st.means)))
	for i := range st.means {
		sb.WriteByte(' ')
		sb.WriteString(fbits(st.means[i]))
		sb.WriteByte(' ')
		sb.WriteString(fbits(st.weights[i]))
	}
	sb.WriteString(" " + fbits(st.w) + " " + fbits(st.min) + " " + fbits(st.max))
	return sb.String()
}

func (st state) equal(o state) bool { return st.line() == o.line() }

// validate checks the constraints under which the Lean theorems speak about the (unmodelled)
// compression pass; a failure is a broken assumption of the model, reported as a divergence.
func (st state) validate(n int, smin, smax int64) string {
	if len(st.means) == 0 {
		return "no centroid"
	}
	if st.unprocessed != 0 {
		return "unprocessed centroids left after Quantile"
	}
	if len(st.means) > st.maxProcessed {
		return fmt.Sprintf("%d centroids > maxProcessed %d: every Quantile call would re-run the compression", len(st.means), st.maxProcessed)
	}
	sum := 0.0
	for i := range st.means {
		if !(st.weights[i] > 0) {
			return fmt.Sprintf("weight[%d]=%v not positive", i, st.weights[i])
		}
		if i > 0 && !(st.means[i-1] <= st.means[i]) {
			return fmt.Sprintf("means not sorted at %d", i)
		}
		if !(st.min <= st.means[i] && st.means[i] <= st.max) {
			return fmt.Sprintf("mean[%d]=%v outside [min,max]=[%v,%v]", i, st.means[i], st.min, st.max)
		}
		sum += st.weights[i]
	}
	if sum != float64(n) || st.w != float64(n) {
		return fmt.Sprintf("weights sum to %v, processedWeight %v, n=%d", sum, st.w, n)
	}
	if len(st.cum) != len(st.means)+1 || st.cum[len(st.cum)-1] != st.w {
		return "cumulative table: wrong length or last entry ≠ processedWeight"
	}
	if !(float64(smin) <= st.min && st.max <= float64(smax)) {
		return fmt.Sprintf("digest [min,max]=[%v,%v] not within the sample range [%d,%d]", st.min, st.max, smin, smax)
	}
	return ""
}

// ---------------------------------------------------------------- oracle (from the property text)

// rankWindow decides the rank-error clause for one reported percentile v = P(q) in the reading most
// favourable to the code: the observation at position i (0-based) of the sorted sample has rank i
// when ranks are counted from 0 and i+1 when counted from 1, and a tied value may take the position
// of any of its copies; it is "within 1 + n/100 of the ideal rank q·n" when the interval [i, i+1] comes
// that close to q·n.  The clause holds when such an observation exists at or below v and one at or
// above v.  Returns ok and, when not, the distance in ranks from q·n to the closest observation on
// the failing side (measured to the nearer end of its interval).
func rankWindow(sorted []int64, v int64, q float64) (bool, float64) {
	n := len(sorted)
	tol := 1 + 0.01*float64(n)
	ideal := q * float64(n)
	lo := int(math.Ceil(ideal - tol - 1)) // 0-based positions lo..hi are within tolerance
	hi := int(math.Floor(ideal + tol))
	if lo < 0 {
		lo = 0
	}
	if hi > n-1 {
		hi = n - 1
	}
	if sorted[lo] > v { // every observation within tolerance is above v: v sits too low
		p := sort.Search(n, func(i int) bool { return sorted[i] > v }) // observations ≤ v occupy positions < p
		return false, ideal - float64(p)
	}
	if sorted[hi] < v { // v sits too high
		p := sort.Search(n, func(i int) bool { return sorted[i] >= v }) // first position with an observation ≥ v
		return false, float64(p) - ideal
	}
	return true, 0
}

type hdrRow struct{ value, q, count, oneBy string }

func parseHDR(b []byte) ([]hdrRow, bool) {
	lines := strings.Split(strings.TrimRight(string(b), "\n"), "\n")
	if len(lines) < 1 || !strings.HasPrefix(lines[0], "Value(ms)") {
		return nil, false
	}
	var rows []hdrRow
	for _, ln := range lines[1:] {
		f := strings.Fields(ln)
		if len(f) != 4 {
			return nil, false
		}
		rows = append(rows, hdrRow{f[0], f[1], f[2], f[3]})
	}
	return rows, true
}

// ---------------------------------------------------------------- one data set

type checker struct {
	c      *run.Ctx
	s      *kit.Summary
	r      *kit.Rng
	qst    *kit.Stream // c11.quantile
	cst    *kit.Stream // c11.cum
	clst   *kit.Stream // c11.close
	hdrOps []string    // c11.hdr ops, compared after rendering
	hdrImp [][]hdrRow
	worst  map[string]float64 // max rank distance / n per distribution
	mc     *mergeChecker      // c11.add / c11.process (compression pass)
	maxCen int                // largest centroid count seen on vegeta's estimator (maxProcessed is 200)
}

func (k *checker) flush(force bool) {
	if !force && len(k.qst.Ops) < 200 {
		return
	}
	k.mc.flush(k.c.Driver, k.s, true)
	k.qst.Diff(k.c.Driver, k.s)
	k.cst.Diff(k.c.Driver, k.s)
	k.clst.Diff(k.c.Driver, k.s)
	k.qst, k.cst, k.clst = &kit.Stream{Name: "c11.quantile"}, &kit.Stream{Name: "c11.cum"}, &kit.Stream{Name: "c11.close"}
	// HDR rows: the model prints bit patterns; render them with the reporter's verbs and compare texts
	k.s.Streams["c11.hdr"] += len(k.hdrOps)
	outs, err := kit.RunDriver(k.c.Driver, k.hdrOps)
	if err != nil {
		k.s.Diverge("c11.hdr", "(driver failure)", "", err.Error())
	} else {
		for i, o := range outs {
			if d := diffHDR(o, k.hdrImp[i]); d != "" {
				k.s.Diverge("c11.hdr", k.hdrOps[i], fmt.Sprint(k.hdrImp[i]), d+" | "+o)
			}
		}
	}
	k.hdrOps, k.hdrImp = nil, nil
}

func diffHDR(model string, impl []hdrRow) string {
	f := strings.Fields(model)
	if len(f) < 2 || f[0] != "ok" {
		return "model: " + model
	}
	if n, _ := strconv.Atoi(f[1]); n != len(impl) || len(f) != n+2 {
		return fmt.Sprintf("model has %s rows, report %d", f[1], len(impl))
	}
	for i, cell := range f[2:] {
		p := strings.Split(cell, ",")
		if len(p) != 4 {
			return "bad model row " + cell
		}
		bitsOf := func(s string) float64 { u, _ := strconv.ParseUint(s, 10, 64); return math.Float64frombits(u) }
		want := hdrRow{fmt.Sprintf("%f", bitsOf(p[0])), fmt.Sprintf("%f", bitsOf(p[1])), p[2], fmt.Sprintf("%f", bitsOf(p[3]))}
		if want != impl[i] {
			return fmt.Sprintf("row %d: model %v report %v", i, want, impl[i])
		}
	}
	return ""
}

func (k *checker) check(sp spec, tag string) {
	s := k.s
	lats := sp.generate()
	n := len(lats)
	if n == 0 {
		return
	}
	sorted := append([]int64(nil), lats...)
	sort.Slice(sorted, func(i, j int) bool { return sorted[i] < sorted[j] })
	smin, smax := sorted[0], sorted[n-1]
	distinct := smin != smax
	hasZero := smin == 0
	repl := sp
	if n <= 64 {
		repl.Lats = lats
	}

	var m vegeta.Metrics
	if p, msg := kit.Recover(func() {
		// compression pass: watch the estimator vegeta owns; check the Adds that trigger process
		// (all of them for small sets, the first two, some random ones and the last otherwise),
		// one Add that does not, and the process() that the first Quantile of Close starts with
		var rd tdReader
		have := false
		// the model replays ~1000 centroids per such op in software floats: in the thorough tier the
		// compression pass is watched on a third of the data sets (the Quantile-level checks run on all)
		mergeWatch := k.c.Tier != "thorough" || k.r.Chance(0.33)
		maxU, triggers := 0, 0
		plain := -1
		if n > 1 {
			plain = 1 + k.r.Pick(n-1)
		}
		for i, l := range lats {
			var pre full
			watch := false
			if have && mergeWatch {
				if rd.unprocessedLen() >= maxU { // this Add runs process
					triggers++
					watch = triggers <= 2 || n <= 2500 || k.r.Chance(0.02) || n-i <= maxU+1
				} else if i == plain {
					watch = true
				}
				if watch {
					pre = rd.read()
				}
			}
			m.Add(&vegeta.Result{Code: 200, Latency: time.Duration(l)})
			if !have {
				rd = newReader(digestOf(&m))
				maxU = rd.read().maxU
				have = true
			}
			if watch {
				k.mc.addOp(s, pre, float64(l), 1, rd.read(), 100, fmt.Sprint(repl))
			}
		}
		preClose := rd.read()
		m.Close()
		// Close calls Quantile four times; the state after the first leading process() is the final one
		if mergeWatch {
			k.mc.procOp(s, preClose, rd.read(), 100, fmt.Sprint(repl))
		}
	}); p {
		s.Violate(kit.Violation{Kind: "metrics_panic", What: "Metrics.Add/Close panicked: " + msg, Input: repl})
		return
	}
	L := m.Latencies
	td := digestOf(&m)
	st := readState(td)
	s.Case(tag+fmt.Sprintf(":%s:%d:%s:%d", sp.Dist, n, sp.Order, sp.Seed), n >= 2 && distinct)
	s.Count("dist:" + sp.Dist)
	s.Count("order:" + sp.Order)
	switch {
	case n <= 5:
		s.Count("n:1..5")
	case n <= 100:
		s.Count("n:6..100")
	case n <= 800:
		s.Count("n:101..800 (never compressed)")
	case n <= 20000:
		s.Count("n:801..20000")
	default:
		s.Count("n:>20000")
	}
	switch {
	case len(st.means) == 1:
		s.Count("centroids:1")
	case len(st.means) <= 50:
		s.Count("centroids:2..50")
	case len(st.means) <= 100:
		s.Count("centroids:51..100")
	default:
		s.Count("centroids:>100")
	}
	if len(st.means) > k.maxCen {
		k.maxCen = len(st.means)
	}
	if hasZero {
		s.Count("has_zero_latency")
	}
	if float64(smin) < st.min || st.max < float64(smax) {
		s.Count("digest min/max strictly inside the sample range")
	}

	// --- assumptions of the model's parameter (the compression pass) on the real state
	if why := st.validate(n, smin, smax); why != "" {
		s.Diverge("c11.valid", fmt.Sprint(repl), why, "constraints assumed of the compression pass")
	}

	// --- quantile arguments: Close's four, the ladder (from the report), edges, segment borders, random
	var buf bytes.Buffer
	var rows []hdrRow
	var rerr error
	pr, _ := kit.Recover(func() { rerr = vegeta.NewHDRHistogramPlotReporter(&m).Report(&buf) })
	okRows := false
	if !pr && rerr == nil {
		rows, okRows = parseHDR(buf.Bytes())
	}
	qs := []float64{0.50, 0.90, 0.95, 0.99, 0, 1}
	for _, row := range rows {
		if q, err := strconv.ParseFloat(row.q, 64); err == nil {
			qs = append(qs, q)
		}
	}
	for i := 0; i < 12; i++ {
		switch k.r.Pick(6) {
		case 0: // border of a segment: cumulative[i]/W, and its float neighbours
			q := st.cum[k.r.Pick(len(st.cum))] / st.w
			qs = append(qs, q, math.Nextafter(q, 0), math.Nextafter(q, 2))
		case 1:
			qs = append(qs, 1-k.r.Float64()/float64(n), k.r.Float64()/float64(n))
		case 2:
			qs = append(qs, []float64{-0.25, 1.5, math.Inf(1), math.Inf(-1), math.Copysign(0, -1), math.Nextafter(1, 2), math.Nextafter(1, 0), math.SmallestNonzeroFloat64}[k.r.Pick(8)])
		default:
			qs = append(qs, k.r.Float64())
		}
	}
	if k.r.Chance(0.1) {
		qs = append(qs, math.NaN()) // the real code indexes out of range here when there are ≥ 2 centroids
	}
	var op, impl strings.Builder
	op.WriteString("c11.quantile " + st.line() + " " + strconv.Itoa(len(qs)))
	impl.WriteString("ok")
	type qv struct {
		q float64
		v int64
	}
	var finite []qv
	for _, q := range qs {
		op.WriteString(" " + fbits(q))
		var f float64
		var d time.Duration
		if p, _ := kit.Recover(func() { f = td.Quantile(q); d = L.Quantile(q) }); p {
			impl.WriteString(" panic")
			s.Count("quantile:panic (q NaN)")
			continue
		}
		impl.WriteString(" " + fbits(f) + ":" + strconv.FormatInt(int64(d), 10))
		if q >= 0 && q <= 1 {
			finite = append(finite, qv{q, int64(d)})
		}
	}
	k.qst.Add(op.String(), impl.String())
	// the digest must not change under Quantile calls (model: a pure function of the state)
	if st2 := readState(td); !st.equal(st2) {
		s.Diverge("c11.valid", fmt.Sprint(repl), "state changed by Quantile calls", "Quantile is a pure function of the processed state")
	}
	{
		var sb strings.Builder
		sb.WriteString("ok " + strconv.Itoa(len(st.cum)))
		for _, c := range st.cum {
			sb.WriteString(" " + fbits(c))
		}
		k.cst.Add("c11.cum "+st.line(), sb.String())
	}
	k.clst.Add("c11.close "+st.line(), fmt.Sprintf("ok %d %d %d %d", int64(L.P50), int64(L.P90), int64(L.P95), int64(L.P99)))
	if okRows {
		k.hdrOps = append(k.hdrOps, "c11.hdr "+st.line()+" "+strconv.FormatUint(m.Requests, 10))
		k.hdrImp = append(k.hdrImp, rows)
	}
	if len(s.Samples) < 3 && n <= 6 {
		s.Sample(map[string]interface{}{"spec": repl, "p50": int64(L.P50), "p99": int64(L.P99), "min": int64(L.Min), "max": int64(L.Max), "centroids": len(st.means)})
	}

	// --- the property's own predicate, on the implementation's outputs
	key := func(extra map[string]interface{}) map[string]interface{} {
		m := map[string]interface{}{"distribution": sp.Dist, "order": sp.Order, "n": n, "has_zero_latency": hasZero}
		for a, b := range extra {
			m[a] = b
		}
		return m
	}
	chain := []int64{int64(L.Min), int64(L.P50), int64(L.P90), int64(L.P95), int64(L.P99), int64(L.Max)}
	names := []string{"min", "p50", "p90", "p95", "p99", "max"}
	for i := 0; i+1 < len(chain); i++ {
		if chain[i] > chain[i+1] {
			kind := "percentile_order"
			if i == 0 && hasZero && smin <= chain[1] {
				// Latencies.Min is wrong once a zero latency was seen (defect of LatencyMetrics.Add, property C10);
				// against the true minimum the order holds
				kind = "percentile_order_min_after_zero"
			}
			s.Violate(kit.Violation{Kind: kind, What: fmt.Sprintf("%s > %s", names[i], names[i+1]), Input: repl,
				Expected: "min <= p50 <= p90 <= p95 <= p99 <= max", Observed: fmt.Sprint(chain), Key: key(map[string]interface{}{"pair": names[i] + ">" + names[i+1]})})
		}
	}
	if !distinct {
		s.Count("all_equal")
		bad := ""
		for i, v := range chain {
			if v != smin {
				bad = names[i]
			}
		}
		for _, x := range finite {
			if x.v != smin {
				bad = fmt.Sprintf("Quantile(%v)", x.q)
			}
		}
		if bad != "" {
			s.Violate(kit.Violation{Kind: "all_equal", What: "all latencies equal but " + bad + " differs from the value", Input: repl,
				Expected: fmt.Sprint(smin), Observed: fmt.Sprint(chain), Key: key(nil)})
		}
	}
	switch {
	case pr || rerr != nil || !okRows:
		s.Violate(kit.Violation{Kind: "hdr_report_failed", What: "HDR plot reporter panicked, failed or printed an unparsable table", Input: repl, Key: key(nil)})
	default:
		prevV, prevQ := math.Inf(-1), math.Inf(-1)
		for i, row := range rows {
			v, e1 := strconv.ParseFloat(row.value, 64)
			q, e2 := strconv.ParseFloat(row.q, 64)
			if e1 != nil || e2 != nil {
				s.Violate(kit.Violation{Kind: "hdr_report_failed", What: "unparsable HDR row", Input: repl, Observed: fmt.Sprint(row), Key: key(nil)})
				break
			}
			if q >= prevQ && v < prevV {
				s.Violate(kit.Violation{Kind: "hdr_rows_decrease", What: fmt.Sprintf("HDR row %d: value decreases while the percentile grows", i), Input: repl,
					Expected: fmt.Sprintf(">= %f", prevV), Observed: fmt.Sprint(row), Key: key(map[string]interface{}{"row": i})})
				break
			}
			if q < prevQ {
				s.Violate(kit.Violation{Kind: "hdr_ladder_unsorted", What: fmt.Sprintf("HDR row %d: percentile column decreases", i), Input: repl, Observed: fmt.Sprint(row), Key: key(nil)})
				break
			}
			prevV, prevQ = v, q
		}
	}
	// rank error of the four reported percentiles (a numerical property of the third-party estimator: measured, not proved)
	for i, q := range []float64{0.50, 0.90, 0.95, 0.99} {
		v := chain[i+1]
		ok, off := rankWindow(sorted, v, q)
		if rel := off / float64(n); rel > k.worst[sp.Dist] {
			k.worst[sp.Dist] = rel
		}
		if !ok {
			s.Count("rank_error:" + sp.Dist)
			s.Violate(kit.Violation{Kind: "tdigest_rank_error",
				What: fmt.Sprintf("P%v=%d is %.0f ranks (%.2f%% of n) away from the ideal rank q*n; allowed 1+n/100=%.2f", q*100, v, off, 100*off/float64(n), 1+0.01*float64(n)),
				Input: repl, Expected: fmt.Sprintf("two observed latencies around %d with ranks within %.2f of %.2f", v, 1+0.01*float64(n), q*float64(n)),
				Observed: fmt.Sprintf("closest bracketing observation is %.0f ranks away", off),
				Key:      key(map[string]interface{}{"q": q, "frac": sp.Frac, "rank_off": off, "rank_off_pct_of_n": 100 * off / float64(n)})})
		}
	}
	// statistic only (not part of the property): monotonicity over arbitrary q as computed in floats
	sort.Slice(finite, func(i, j int) bool { return finite[i].q < finite[j].q })
	for i := 0; i+1 < len(finite); i++ {
		if finite[i].v > finite[i+1].v {
			s.Count("stat:float quantile not monotone in q (ns)")
			if _, seen := s.Extra["float_nonmonotone_example"]; !seen {
				s.Extra["float_nonmonotone_example"] = map[string]interface{}{"spec": repl, "q1_bits": fbits(finite[i].q), "q2_bits": fbits(finite[i+1].q),
					"q1": finite[i].q, "q2": finite[i+1].q, "v1_ns": finite[i].v, "v2_ns": finite[i+1].v, "digest": st.line()}
			}
		}
	}
	k.mc.flush(k.c.Driver, k.s, false)
	k.flush(false)
}

// ---------------------------------------------------------------- main

func corpus() []spec {
	var out []spec
	files, _ := filepath.Glob("/verif/corpus/C11/*.json")
	sort.Strings(files)
	for _, f := range files {
		if sp, ok := loadSpec(f); ok {
			out = append(out, sp)
		}
	}
	return out
}

func loadSpec(path string) (spec, bool) {
	data, err := os.ReadFile(path)
	if err != nil {
		return spec{}, false
	}
	var rec struct {
		Input json.RawMessage `json:"input"`
	}
	var sp spec
	if err := json.Unmarshal(data, &rec); err != nil || rec.Input == nil {
		return sp, false
	}
	if err := json.Unmarshal(rec.Input, &sp); err != nil || (sp.N == 0 && sp.Lats == nil) {
		return sp, false
	}
	return sp, true
}

func runC11(c *run.Ctx, s *kit.Summary) {
	r := kit.NewRng(c.Seed)
	s.Rule = "latency multisets of 1..20000 (quick) / 1..100000 (thorough) samples, sizes biased to 1..5, ≤100, around the first compression passes (800/801, 1600/1601) and the maximum; " +
		"uniform (incl. narrow ranges with many ties), log-normal, constant, few-valued (2..5 values), bimodal with gaps of 3..12 orders of magnitude (half of them with the mode boundary within ±3% of a reported percentile), " +
		"3% with zero latencies; arrival orders random / sorted / reverse-sorted; per set ~130 quantile arguments (Close's four, the HDR ladder, 0, 1, segment borders ± 1 ulp, tails, out of range, NaN); " +
		"compression pass: on vegeta's own estimator the Adds that trigger process (all for n ≤ 2500, else the first two, 2% and the last), one plain Add and the process() at Close; plus stand-alone digests with compression 1..20 (tiny buffers, incl. the len(processed) > maxProcessed trigger, weights 1..4, NaN samples) with EVERY Add checked; " +
		"non-trivial = distinct data set with ≥2 samples and ≥2 distinct values"
	k := &checker{c: c, s: s, r: r, worst: map[string]float64{}, mc: newMergeChecker(),
		qst: &kit.Stream{Name: "c11.quantile"}, cst: &kit.Stream{Name: "c11.cum"}, clst: &kit.Stream{Name: "c11.close"}}
	if c.Replay != "" {
		sp, ok := loadSpec(c.Replay)
		if !ok {
			panic("replay: input is not a C11 data-set spec")
		}
		k.check(sp, "replay")
		k.flush(true)
		return
	}
	for i, sp := range corpus() {
		k.check(sp, fmt.Sprintf("corpus%d", i))
	}
	// fixed small cases: the tiny sizes the statement's quantifier starts at
	for _, ls := range [][]int64{{7}, {1, 2}, {5, 5}, {1, 1000000000000}, {3, 2, 1}, {1, 2, 3, 4, 5}, {10, 10, 10, 20}, {0, 5}, {0, 0}} {
		k.check(spec{Dist: "fixed", N: len(ls), Order: "random", Lats: ls}, "fixed")
	}
	maxN := 20000
	if c.Tier == "thorough" {
		maxN = 100000
	}
	for i := 0; i < c.N(500, 10000); i++ {
		k.check(genSpec(r, maxN), "g")
	}
	// stand-alone digests with tiny buffers: every Add and the final process against the model
	for i := 0; i < c.N(150, 1500); i++ {
		directDigest(r, s, k.mc, "d")
		k.mc.flush(c.Driver, s, false)
	}
	k.flush(true)
	worst := map[string]interface{}{}
	for d, w := range k.worst {
		worst[d] = fmt.Sprintf("%.3f%% of n", 100*w)
	}
	s.Extra["worst_rank_distance_beyond_window_by_distribution"] = worst
	s.Extra["max_centroids_after_process (maxProcessed = 200)"] = k.maxCen
}
