package main

// `vegeta report f1 f2 … fn` over several files of different lengths (equally short files next to each
// other, in several argument orders): the report must be the reference over ALL results of all files.

import (
	"bytes"
	"fmt"
	"os"
	"os/exec"
	"path/filepath"
	"strings"

	"vharness/kit"
	"vharness/run"
)

var filePatterns = [][]int{{2, 2, 5, 5}, {1, 1, 1, 6, 6}, {3, 3, 3, 3, 9, 9}, {5, 5, 2, 2}, {2, 5, 2, 5}, {1, 1, 1, 1, 1, 1, 7}, {6, 1, 1, 6, 1}, {4, 4, 4, 4}}

func multiFileReports(c *run.Ctx, r *kit.Rng, s *kit.Summary) {
	type job struct {
		all  []res
		out  string
		lens []int
		op   int // index into ops, -1: run through the command line
		args []string
	}
	var jobs []job
	var ops []string
	n := c.N(24, 400)
	for i := 0; i < n; i++ {
		var lens []int
		if i < 2*len(filePatterns) {
			lens = append([]int{}, filePatterns[i%len(filePatterns)]...)
		} else {
			k := 4 + r.Pick(4)
			short := 1 + r.Pick(3)
			for j := 0; j < k; j++ {
				if r.Chance(0.6) {
					lens = append(lens, short)
				} else {
					lens = append(lens, short+int(r.Range(1, 8)))
				}
			}
		}
		if i >= len(filePatterns) {
			r.Shuffle(len(lens), func(a, b int) { lens[a], lens[b] = lens[b], lens[a] }) // another argument order
		}
		total := 0
		for _, l := range lens {
			total += l
		}
		all := genResults(r, total, true, s)
		var files []string
		off := 0
		for j, l := range lens {
			f := filepath.Join(c.Work, fmt.Sprintf("mf%d_%d.bin", i, j))
			if err := writeResults(f, r.Pick(3), all[off:off+l]); err != nil {
				s.Skipped["multifile:write_failed"]++
				files = nil
				break
			}
			files = append(files, f)
			off += l
		}
		if files == nil {
			continue
		}
		out := filepath.Join(c.Work, fmt.Sprintf("mf%d.json", i))
		jb := job{all: all, out: out, lens: lens, op: -1}
		if i%6 == 5 { // the real command line
			jb.args = append([]string{"report", "-type=json", "-output=" + out}, files...)
		} else {
			hexFiles := make([]string, len(files))
			for j, f := range files {
				hexFiles[j] = kit.HexS(f)
			}
			ops = append(ops, fmt.Sprintf("report %s 0 - %s %s", kit.HexS("json"), kit.HexS(out), strings.Join(hexFiles, " ")))
			jb.op = len(ops) - 1
		}
		jobs = append(jobs, jb)
	}
	outs, err := kit.RunVegeta(c.Vegeta, ops)
	if err != nil {
		s.Skipped["multifile:vegeta_verif_failed"]++
		return
	}
	for i, j := range jobs {
		h := history{Results: j.all}
		s.Case(fmt.Sprintf("multifile:%d:%v", i, j.lens), true)
		if j.op >= 0 {
			s.Count("multifile:in_process")
			if outs[j.op] != "ok" {
				s.Violate(kit.Violation{Kind: "report_failed", What: "report over several result files failed: " + outs[j.op], Input: map[string]interface{}{"file_lengths": j.lens, "results": j.all}})
				continue
			}
		} else {
			s.Count("multifile:command_line")
			cmd := exec.Command(c.Vegeta, j.args...)
			var stderr bytes.Buffer
			cmd.Stderr = &stderr
			if err := cmd.Run(); err != nil {
				s.Violate(kit.Violation{Kind: "report_failed", What: "vegeta report over several result files failed: " + err.Error() + " " + stderr.String(),
					Input: map[string]interface{}{"file_lengths": j.lens, "results": j.all}})
				continue
			}
		}
		data, err := os.ReadFile(j.out)
		if err != nil {
			s.Skipped["multifile:no_output"]++
			continue
		}
		lines := bytes.Split(bytes.TrimSpace(data), []byte("\n"))
		m, err := parseJSONReport(lines[len(lines)-1])
		if err != nil {
			s.Count("report:json_unrecognised")
			continue
		}
		s.Count(fmt.Sprintf("multifile:files=%d", len(j.lens)))
		if inDomain(j.all) {
			oracle(s, h, m) // the report equals the reference over all results of all files
		}
	}
}
