package main

// Text reporter (lib/reporters.go NewTextReporter / round) and the report command's loop
// (report.go): correspondence streams c10.fix2, c10.durround, c10.text, c10.loop.

import (
	"bytes"
	"fmt"
	"math"
	"math/big"
	"regexp"
	"sort"
	"strconv"
	"strings"
	"time"

	vegeta "github.com/tsenart/vegeta/v12/lib"
	"vharness/kit"
	"vharness/run"
)

var rowRe = regexp.MustCompile(`^(.+?)[ \t]{2,}(\[.*?\])[ \t]{2,}(.*)$`)

// parseText splits the text report into the cells the reporter handed to the tabwriter
// (the tabwriter only pads cells with ≥2 spaces): seven rows of (label, header, values), then
// "Error Set:" and one line per error.
func parseText(b []byte) (rows [][3]string, errs []string, ok bool) {
	lines := strings.Split(string(b), "\n")
	if len(lines) < 9 || lines[len(lines)-1] != "" {
		return nil, nil, false
	}
	lines = lines[:len(lines)-1]
	for _, ln := range lines[:7] {
		m := rowRe.FindStringSubmatch(ln)
		if m == nil {
			return nil, nil, false
		}
		rows = append(rows, [3]string{m[1], m[2], m[3]})
	}
	if lines[7] != "Error Set:" {
		return nil, nil, false
	}
	return rows, append([]string{}, lines[8:]...), true
}

// sameTextModuloErrorOrder: two text reports are the same document up to the order of the error lines.
func sameTextModuloErrorOrder(a, b []byte) bool {
	if bytes.Equal(a, b) {
		return true
	}
	ra, ea, oka := parseText(a)
	rb, eb, okb := parseText(b)
	if !oka || !okb || len(ra) != len(rb) || len(ea) != len(eb) {
		return false
	}
	for i := range ra {
		if ra[i] != rb[i] {
			return false
		}
	}
	sort.Strings(ea)
	sort.Strings(eb)
	for i := range ea {
		if ea[i] != eb[i] {
			return false
		}
	}
	return true
}

func textLine(rows [][3]string, errs []string) string {
	var sb strings.Builder
	fmt.Fprintf(&sb, "ok rows=%d", len(rows))
	for _, r := range rows {
		sb.WriteString(" " + kit.HexS(r[0]) + "|" + kit.HexS(r[1]) + "|" + kit.HexS(r[2]))
	}
	fmt.Fprintf(&sb, " errs=%d", len(errs))
	for _, e := range errs {
		sb.WriteString(" " + kit.HexS(e))
	}
	return sb.String()
}

// implText runs the history on the real Metrics and renders the real text report.
func implText(h history) (*vegeta.Metrics, []byte, string) {
	m, line := runImpl(h)
	if m == nil {
		return nil, nil, line
	}
	var buf bytes.Buffer
	var err error
	p, msg := kit.Recover(func() { err = vegeta.NewTextReporter(m).Report(&buf) })
	if p {
		return m, nil, "panic " + msg
	}
	if err != nil {
		return m, nil, "err"
	}
	return m, buf.Bytes(), ""
}

func textOp(h history, m *vegeta.Metrics) string {
	return fmt.Sprintf("c10.text %d %d %d %d %s", int64(m.Latencies.P50), int64(m.Latencies.P90), int64(m.Latencies.P95), int64(m.Latencies.P99),
		strings.TrimPrefix(opLine(h), "c10.run "))
}

// textOracle: the statement's view of the text report — request count, status codes in string order with
// their counts, the error set in insertion order.
func textOracle(s *kit.Summary, h history, m *vegeta.Metrics, rows [][3]string, errs []string) {
	bad := func(kind, what, exp, obs string) {
		s.Violate(kit.Violation{Kind: kind, What: what, Input: h, Expected: exp, Observed: obs})
	}
	if f := strings.Split(rows[0][2], ", "); len(f) >= 1 && f[0] != strconv.Itoa(len(h.Results)) {
		bad("text_requests", "text report: request count cell", strconv.Itoa(len(h.Results)), rows[0][2])
	}
	// durations are shown rounded to the next finer unit (at most 1% off), floats with two decimals
	t := reference(h.Results)
	durOK := func(cell string, want int64) bool {
		d, err := time.ParseDuration(cell)
		if err != nil {
			return false
		}
		diff := int64(d) - want
		if diff < 0 {
			diff = -diff
		}
		return diff <= want/100+1
	}
	fltOK := func(cell string, want float64) bool {
		f, err := strconv.ParseFloat(strings.TrimSuffix(cell, "%"), 64)
		return err == nil && math.Abs(f-want) <= 0.0051+1e-9*math.Abs(want)
	}
	if t.n > 0 {
		dur, wait := t.latest-t.earliest, t.end-t.latest
		if f := strings.Split(rows[1][2], ", "); len(f) != 3 {
			s.Count("text:unrecognised_layout")
		} else if !durOK(f[0], dur+wait) || !durOK(f[1], dur) || !durOK(f[2], wait) {
			bad("text_durations", "text report: [total, attack, wait] cells differ from duration+wait, duration, wait", fmt.Sprint(time.Duration(dur+wait), time.Duration(dur), time.Duration(wait)), rows[1][2])
		}
		mean := new(big.Int).Quo(t.sumLat, big.NewInt(t.n)).Int64()
		if f := strings.Split(rows[2][2], ", "); len(f) != 7 {
			s.Count("text:unrecognised_layout")
		} else if !durOK(f[0], t.minLat) || !durOK(f[1], mean) || !durOK(f[6], t.maxLat) {
			bad("text_latencies", "text report: [min, mean, …, max] cells differ from the latency minimum, mean, maximum", fmt.Sprint(time.Duration(t.minLat), time.Duration(mean), time.Duration(t.maxLat)), rows[2][2])
		}
		fin, _ := new(big.Float).SetInt(t.sumIn).Float64()
		fout, _ := new(big.Float).SetInt(t.sumOut).Float64()
		if f := strings.Split(rows[3][2], ", "); len(f) != 2 {
			s.Count("text:unrecognised_layout")
		} else if f[0] != t.sumIn.String() || !fltOK(f[1], fin/float64(t.n)) {
			bad("text_bytes", "text report: bytes-in cells differ from total and mean", fmt.Sprint(t.sumIn, fin/float64(t.n)), rows[3][2])
		}
		if f := strings.Split(rows[4][2], ", "); len(f) != 2 {
			s.Count("text:unrecognised_layout")
		} else if f[0] != t.sumOut.String() || !fltOK(f[1], fout/float64(t.n)) {
			bad("text_bytes", "text report: bytes-out cells differ from total and mean", fmt.Sprint(t.sumOut, fout/float64(t.n)), rows[4][2])
		}
		// shown as a percentage (with or without the sign) or as a ratio
		if ratio := float64(t.succ) / float64(t.n); !fltOK(rows[5][2], 100*ratio) && !(!strings.HasSuffix(rows[5][2], "%") && fltOK(rows[5][2], ratio)) {
			bad("text_success", "text report: success cell differs from the percentage of successful results", fmt.Sprint(100*float64(t.succ)/float64(t.n)), rows[5][2])
		}
		if f := strings.Split(rows[0][2], ", "); dur > 0 && len(f) == 3 {
			secs, tot := float64(dur)/1e9, float64(dur+wait)/1e9
			if !fltOK(f[1], float64(t.n)/secs) || !fltOK(f[2], float64(t.succ)/tot) {
				bad("text_rates", "text report: rate / throughput cells differ from requests/duration, successes/(duration+wait)", fmt.Sprint(float64(t.n)/secs, float64(t.succ)/tot), rows[0][2])
			}
		}
	}
	counts := map[string]int{}
	for _, x := range h.Results {
		counts[strconv.Itoa(int(x.Code))]++
	}
	// the status-code histogram is a map: each code once with its count; no print order is demanded
	got := map[string]int{}
	okCodes := true
	for _, tok := range strings.Fields(rows[6][2]) {
		kv := strings.SplitN(tok, ":", 2)
		n, err := strconv.Atoi(kv[len(kv)-1])
		if len(kv) != 2 || err != nil {
			s.Count("text:unrecognised_status_code_cell")
			got = nil
			break
		}
		if _, dup := got[kv[0]]; dup {
			okCodes = false
		}
		got[kv[0]] = n
	}
	if got != nil {
		for k, v := range counts {
			if got[k] != v {
				okCodes = false
			}
		}
		for k, v := range got {
			if counts[k] != v && v != 0 {
				okCodes = false
			}
		}
		if !okCodes {
			bad("text_status_codes", "text report: status codes differ from the per-code counts (each code once, any order)", fmt.Sprint(counts), rows[6][2])
		}
	}
	var want []string
	seen := map[string]bool{}
	for _, x := range h.Results {
		if x.Err != "" && !seen[x.Err] {
			seen[x.Err] = true
			want = append(want, x.Err)
		}
	}
	// the error texts are a SET: exactly the distinct non-empty texts, each once, in any order
	gotSorted, wantSorted := append([]string{}, errs...), append([]string{}, want...)
	sort.Strings(gotSorted)
	sort.Strings(wantSorted)
	if strings.Join(gotSorted, "\n") != strings.Join(wantSorted, "\n") {
		bad("text_errors", "text report: error lines differ from the error set", fmt.Sprint(want), fmt.Sprint(errs))
	}
}

func checkText(s *kit.Summary, st *kit.Stream, h history, dom bool) {
	m, text, fail := implText(h)
	if m == nil {
		return
	}
	if text == nil {
		st.Add(textOp(h, m), fail)
		s.Violate(kit.Violation{Kind: "text_report_failed", What: "text reporter panicked or failed", Input: h, Observed: fail})
		return
	}
	rows, errs, ok := parseText(text)
	if !ok {
		st.Add(textOp(h, m), "unparsable "+kit.Hex(text))
		return
	}
	st.Add(textOp(h, m), textLine(rows, errs))
	if dom {
		textOracle(s, h, m, rows, errs)
	}
}

var roundEdges = []int64{0, 1, 999, 1000, 1001, 1499, 1500, 1501, 999499, 999500, 999999, 1000000, 1000001, 1500000, 999499999, 999500000, 999999999, 1000000000,
	1000499999, 1000500000, 59999499999, 59999500000, 59999999999, 60000000000, 60499999999, 60500000000, 3599499999999, 3599500000000, 3599999999999,
	3600000000000, 7200000000000, 3629999999999, 3630000000000, 86399999999999}

func textStreams(c *run.Ctx, r *kit.Rng, s *kit.Summary) {
	fx := &kit.Stream{Name: "c10.fix2"}
	for i := 0; i < c.N(20000, 300000); i++ {
		var f float64
		switch r.Pick(8) {
		case 0:
			f = math.Float64frombits(r.Uint64())
		case 1: // exact ties of the second decimal in binary: k/8, k/200 is not exact but close to a tie
			f = float64(r.Range(-100000, 100000)) / 8
		case 2:
			f = float64(r.Range(-1000000, 1000000))/200 + float64(r.Range(-2, 2))*1e-12
		case 3:
			f = []float64{0, math.Copysign(0, -1), math.Inf(1), math.Inf(-1), math.NaN(), 0.005, 0.015, 0.025, 0.125, 0.375, 2.675, 1e21, 1e22, 1e23, 5e-324, 0.994999999999, 0.995, 99.995, 1e15 + 0.5}[r.Pick(19)]
		case 4:
			f = float64(r.Range(0, 1<<53)) / float64(r.Range(1, 1<<40))
		case 5:
			f = float64(r.Range(0, 10000)) / float64(r.Range(1, 10000)) * 100
		case 6:
			f = math.Ldexp(float64(r.Range(1, 1<<53)), int(r.Range(-1100, 1000)))
		default:
			f = float64(r.Range(0, 100000000)) / 100
		}
		fx.Add("c10.fix2 "+strconv.FormatUint(math.Float64bits(f), 10), "ok "+kit.HexS(fmt.Sprintf("%.2f", f)))
	}
	diff(fx, c, s)

	dr := &kit.Stream{Name: "c10.durround"}
	units := []int64{1, 1000, 1000000, 1000000000, 60000000000, 3600000000000, 0, -1, 7, 1 << 62, math.MaxInt64, 3}
	for i := 0; i < c.N(20000, 300000); i++ {
		d := r.Int64Edge()
		if r.Chance(0.4) {
			d = roundEdges[r.Pick(len(roundEdges))] + r.Range(-1, 1)
		}
		if r.Chance(0.1) {
			d = -d
		}
		m := units[r.Pick(len(units))]
		dr.Add(fmt.Sprintf("c10.durround %d %d", d, m), "ok "+strconv.FormatInt(int64(time.Duration(d).Round(time.Duration(m))), 10))
	}
	diff(dr, c, s)

	st := &kit.Stream{Name: "c10.text"}
	n := c.N(1500, 20000)
	for i := 0; i < n; i++ {
		var h history
		dom := true
		if i%3 == 0 {
			// one or two results whose latency sits on a unit boundary of `round`
			k := 1 + r.Pick(2)
			for j := 0; j < k; j++ {
				h.Results = append(h.Results, res{Code: uint16(r.PickI64([]int64{200, 1000, 99, 500})), TS: r.Range(0, year2200),
					Lat: roundEdges[r.Pick(len(roundEdges))] + r.Range(-1, 1)*int64(r.Pick(2)), BIn: uint64(r.Range(0, 1000)), BOut: uint64(r.Range(0, 1000))})
				if h.Results[j].Lat < 0 {
					h.Results[j].Lat = 0
				}
			}
			s.Count("text:unit_boundary")
		} else {
			dom = !r.Chance(0.1)
			size := genSize(r, 300)
			h = history{Results: genResults(r, size, dom, s), Closes: genCloses(r, size)}
			dom = inDomain(h.Results)
		}
		s.Case(fmt.Sprintf("text:%d:%d", i, len(h.Results)), len(h.Results) > 0)
		checkText(s, st, h, dom)
		if i == 0 {
			_, text, _ := implText(h)
			s.Sample(map[string]interface{}{"op": "c10.text", "history": h, "impl": string(text)})
		}
	}
	diff(st, c, s)
}

// loopOp: the op line of the report command's loop on `rs` with the periodic reports observed after
// `ks[j]` results (the last entry is the final report at EOF).
func loopOp(rs []res, ks []int) string {
	var sb strings.Builder
	fmt.Fprintf(&sb, "c10.loop %d", len(rs))
	for _, x := range rs {
		fmt.Fprintf(&sb, " %d %d %d %d %d %s", x.Code, x.TS, x.Lat, x.BOut, x.BIn, kit.HexS(x.Err))
	}
	var evs []string
	prev := 0
	for j, k := range ks {
		for ; prev < k; prev++ {
			evs = append(evs, "d")
		}
		if j < len(ks)-1 {
			evs = append(evs, "t")
		} else {
			evs = append(evs, "d") // the Decode that returns io.EOF
		}
	}
	fmt.Fprintf(&sb, " %d %s", len(evs), strings.Join(evs, " "))
	return sb.String()
}

// checkLoop: `lines` are the JSON reports the command wrote (periodic ones, then the final one).
func checkLoop(s *kit.Summary, st *kit.Stream, h history, lines [][]byte) {
	if len(lines) > 40 || len(h.Results) > 25000 {
		s.Count("loop:skipped_long")
		return
	}
	var ks []int
	var reps []string
	for _, ln := range lines {
		m, err := parseJSONReport(ln)
		if err != nil {
			s.Count("report:json_unrecognised")
			return
		}
		k := int(m.Requests)
		if k > len(h.Results) || (len(ks) > 0 && k < ks[len(ks)-1]) {
			s.Violate(kit.Violation{Kind: "periodic_report_not_prefix", What: "request counts of the periodic reports are not a non-decreasing chain up to the total",
				Input: h, Observed: fmt.Sprint(ks, k)})
			return
		}
		ks = append(ks, k)
		l := lineOf(m)
		reps = append(reps, l)
		// the property's clause: a periodic report equals the report over the prefix read so far
		if _, lib := runImpl(history{Results: h.Results[:k]}); canonSet(lib) != canonSet(l) {
			s.Violate(kit.Violation{Kind: "periodic_report_not_prefix", What: "a periodic report differs from the report over the results read so far",
				Input: history{Results: h.Results[:k]}, Expected: lib, Observed: l})
		}
	}
	if ks[len(ks)-1] != len(h.Results) {
		s.Violate(kit.Violation{Kind: "final_report_incomplete", What: "the final report does not cover all results", Input: h, Observed: fmt.Sprint(ks)})
		return
	}
	s.Count(fmt.Sprintf("loop:reports=%d", minInt(len(lines), 5)))
	st.Add(loopOp(h.Results, ks), fmt.Sprintf("ok done=1 reports=%d | %s", len(reps), strings.Join(reps, " | ")))
}

func minInt(a, b int) int {
	if a < b {
		return a
	}
	return b
}
