package main

// The JSON report is parsed with the key names the README documents ("report -type=json"), not with the
// struct tags of vegeta.Metrics: a renamed, swapped or missing key must show.

import (
	"bytes"
	"encoding/json"
	"fmt"
	"sort"
	"strings"
	"time"

	vegeta "github.com/tsenart/vegeta/v12/lib"
)

type jsonLatencies struct {
	Total *int64 `json:"total"`
	Mean  *int64 `json:"mean"`
	P50   *int64 `json:"50th"`
	P90   *int64 `json:"90th"`
	P95   *int64 `json:"95th"`
	P99   *int64 `json:"99th"`
	Max   *int64 `json:"max"`
	Min   *int64 `json:"min"`
}

type jsonBytes struct {
	Total *uint64  `json:"total"`
	Mean  *float64 `json:"mean"`
}

type jsonReport struct {
	Latencies   *jsonLatencies  `json:"latencies"`
	Buckets     json.RawMessage `json:"buckets"`
	BytesIn     *jsonBytes      `json:"bytes_in"`
	BytesOut    *jsonBytes      `json:"bytes_out"`
	Earliest    *time.Time      `json:"earliest"`
	Latest      *time.Time      `json:"latest"`
	End         *time.Time      `json:"end"`
	Duration    *int64          `json:"duration"`
	Wait        *int64          `json:"wait"`
	Requests    *uint64         `json:"requests"`
	Rate        *float64        `json:"rate"`
	Throughput  *float64        `json:"throughput"`
	Success     *float64        `json:"success"`
	StatusCodes map[string]int  `json:"status_codes"`
	Errors      json.RawMessage `json:"errors"`
}

// parseJSONReport decodes one JSON report by its documented layout. Every documented key must be
// present (buckets only when requested); further members are ignored; "errors" is an array (null reads
// as the empty set).
func parseJSONReport(line []byte) (*vegeta.Metrics, error) {
	dec := json.NewDecoder(bytes.NewReader(line))
	var j jsonReport
	if err := dec.Decode(&j); err != nil {
		return nil, err
	}
	var missing []string
	need := func(name string, ok bool) {
		if !ok {
			missing = append(missing, name)
		}
	}
	need("latencies", j.Latencies != nil)
	need("bytes_in", j.BytesIn != nil)
	need("bytes_out", j.BytesOut != nil)
	if len(missing) == 0 {
		l := j.Latencies
		need("latencies.total", l.Total != nil)
		need("latencies.mean", l.Mean != nil)
		need("latencies.50th", l.P50 != nil)
		need("latencies.90th", l.P90 != nil)
		need("latencies.95th", l.P95 != nil)
		need("latencies.99th", l.P99 != nil)
		need("latencies.max", l.Max != nil)
		need("latencies.min", l.Min != nil)
		need("bytes_in.total", j.BytesIn.Total != nil)
		need("bytes_in.mean", j.BytesIn.Mean != nil)
		need("bytes_out.total", j.BytesOut.Total != nil)
		need("bytes_out.mean", j.BytesOut.Mean != nil)
	}
	need("earliest", j.Earliest != nil)
	need("latest", j.Latest != nil)
	need("end", j.End != nil)
	need("duration", j.Duration != nil)
	need("wait", j.Wait != nil)
	need("requests", j.Requests != nil)
	need("rate", j.Rate != nil)
	need("throughput", j.Throughput != nil)
	need("success", j.Success != nil)
	need("status_codes", j.StatusCodes != nil)
	need("errors", j.Errors != nil)
	if len(missing) > 0 {
		sort.Strings(missing)
		return nil, fmt.Errorf("documented keys missing: %s", strings.Join(missing, ", "))
	}
	var errs []string
	if t := bytes.TrimSpace(j.Errors); len(t) == 0 || (t[0] != '[' && string(t) != "null") {
		return nil, fmt.Errorf("\"errors\" is not an array: %s", t)
	}
	if err := json.Unmarshal(j.Errors, &errs); err != nil {
		return nil, err
	}
	m := &vegeta.Metrics{}
	m.Latencies.Total, m.Latencies.Mean = time.Duration(*j.Latencies.Total), time.Duration(*j.Latencies.Mean)
	m.Latencies.P50, m.Latencies.P90 = time.Duration(*j.Latencies.P50), time.Duration(*j.Latencies.P90)
	m.Latencies.P95, m.Latencies.P99 = time.Duration(*j.Latencies.P95), time.Duration(*j.Latencies.P99)
	m.Latencies.Max, m.Latencies.Min = time.Duration(*j.Latencies.Max), time.Duration(*j.Latencies.Min)
	m.BytesIn.Total, m.BytesIn.Mean = *j.BytesIn.Total, *j.BytesIn.Mean
	m.BytesOut.Total, m.BytesOut.Mean = *j.BytesOut.Total, *j.BytesOut.Mean
	m.Earliest, m.Latest, m.End = *j.Earliest, *j.Latest, *j.End
	m.Duration, m.Wait = time.Duration(*j.Duration), time.Duration(*j.Wait)
	m.Requests, m.Rate, m.Throughput, m.Success = *j.Requests, *j.Rate, *j.Throughput, *j.Success
	m.StatusCodes, m.Errors = j.StatusCodes, errs
	return m, nil
}

// flattenJSON lists the members of a JSON report in DOCUMENT order as `path=value` (nested objects as
// dotted paths, the status-code map and the error array with their elements in order; an optional
// "buckets" member is skipped). Floats as bit patterns, instants as ns since the epoch.
func flattenJSON(line []byte) (string, error) {
	dec := json.NewDecoder(bytes.NewReader(line))
	dec.UseNumber()
	var out []string
	floats := map[string]bool{"bytes_in.mean": true, "bytes_out.mean": true, "rate": true, "throughput": true, "success": true}
	times := map[string]bool{"earliest": true, "latest": true, "end": true}
	if t, err := dec.Token(); err != nil || t != json.Delim('{') {
		return "", fmt.Errorf("not an object")
	}
	var walk func(prefix string) error
	walk = func(prefix string) error {
		for dec.More() {
			kt, err := dec.Token()
			if err != nil {
				return err
			}
			key, ok := kt.(string)
			if !ok {
				return fmt.Errorf("member name expected")
			}
			path := prefix + key
			switch path {
			case "buckets":
				var skip json.RawMessage
				if err := dec.Decode(&skip); err != nil {
					return err
				}
			case "latencies", "bytes_in", "bytes_out":
				if t, err := dec.Token(); err != nil || t != json.Delim('{') {
					return fmt.Errorf("%s is not an object", path)
				}
				if err := walk(path + "."); err != nil {
					return err
				}
				if _, err := dec.Token(); err != nil {
					return err
				}
			case "status_codes":
				if t, err := dec.Token(); err != nil || t != json.Delim('{') {
					return fmt.Errorf("status_codes is not an object")
				}
				var parts []string
				for dec.More() {
					k, err := dec.Token()
					if err != nil {
						return err
					}
					var v json.Number
					if err := dec.Decode(&v); err != nil {
						return err
					}
					parts = append(parts, fmt.Sprintf("%v:%s", k, v))
				}
				dec.Token()
				out = append(out, fmt.Sprintf("status_codes=%d%s", len(parts), prefixed(parts)))
			case "errors":
				var es []string
				if err := dec.Decode(&es); err != nil {
					return err
				}
				parts := make([]string, len(es))
				for i, e := range es {
					parts[i] = hexOf(e)
				}
				out = append(out, fmt.Sprintf("errors=%d%s", len(parts), prefixed(parts)))
			default:
				switch {
				case times[path]:
					var t time.Time
					if err := dec.Decode(&t); err != nil {
						return err
					}
					out = append(out, path+"="+tns(t))
				case floats[path]:
					var n json.Number
					if err := dec.Decode(&n); err != nil {
						return err
					}
					f, err := n.Float64()
					if err != nil {
						return err
					}
					out = append(out, path+"="+fbits(f))
				default:
					var n json.Number
					if err := dec.Decode(&n); err != nil {
						return err
					}
					out = append(out, path+"="+n.String())
				}
			}
		}
		return nil
	}
	if err := walk(""); err != nil {
		return "", err
	}
	return "ok " + strings.Join(out, " "), nil
}

func prefixed(parts []string) string {
	if len(parts) == 0 {
		return ""
	}
	return "," + strings.Join(parts, ",")
}

func hexOf(s string) string {
	if s == "" {
		return "-"
	}
	return fmt.Sprintf("%x", s)
}
