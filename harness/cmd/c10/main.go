package main

import (
	"bytes"
	"encoding/json"
	"fmt"
	"io"
	"math"
	"math/big"
	"os"
	"path/filepath"
	"sort"
	"strconv"
	"strings"
	"syscall"
	"time"

	vegeta "github.com/tsenart/vegeta/v12/lib"
	"vharness/kit"
	"vharness/run"
)

func main() { run.Main("C10", runC10) }

// res is one result as far as Metrics looks at it.
type res struct {
	Code uint16 `json:"code"`
	TS   int64  `json:"ts"`  // ns since the Unix epoch
	Lat  int64  `json:"lat"` // ns
	BOut uint64 `json:"bytes_out"`
	Body int    `json:"body_len,omitempty"` // length of the response body carried by the record (ignored by Metrics)
	BIn  uint64 `json:"bytes_in"`
	Err  string `json:"error"`
}

// history: the results in the order of addition; Closes[i] = number of Close calls issued
// before the i-th Add (len = len(Results)+1; the last entry counts extra Close calls at the end,
// one more Close always follows).
type history struct {
	Results []res `json:"results"`
	Closes  []int `json:"closes,omitempty"`
}

func (x res) result() *vegeta.Result {
	v := &vegeta.Result{Code: x.Code, Timestamp: time.Unix(x.TS/1e9, x.TS%1e9), Latency: time.Duration(x.Lat),
		BytesOut: x.BOut, BytesIn: x.BIn, Error: x.Err}
	if x.Body > 0 {
		v.Body = bytes.Repeat([]byte("body "), x.Body/5+1)[:x.Body]
	}
	return v
}

// ---------------------------------------------------------------- canonical rendering

func tns(t time.Time) string {
	if t.IsZero() {
		return "none"
	}
	b := new(big.Int).Mul(big.NewInt(t.Unix()), big.NewInt(1000000000))
	b.Add(b, big.NewInt(int64(t.Nanosecond())))
	return b.String()
}

// fbits: the bit pattern of a float; every NaN prints as "nan" (the payload of a NaN produced by the
// hardware, 0xFFF8… for 0/0 on amd64, is not part of the value and differs from math.NaN()).
func fbits(f float64) string {
	if math.IsNaN(f) {
		return "nan"
	}
	return strconv.FormatUint(math.Float64bits(f), 10)
}

// lineOf renders every exported field of a closed Metrics (without percentiles).
func lineOf(m *vegeta.Metrics) string {
	type kv struct {
		k int
		v int
	}
	var codes []kv
	for k, v := range m.StatusCodes {
		n, err := strconv.Atoi(k)
		if err != nil {
			return "bad-status-key " + k
		}
		codes = append(codes, kv{n, v})
	}
	sort.Slice(codes, func(i, j int) bool { return codes[i].k < codes[j].k })
	var sb strings.Builder
	fmt.Fprintf(&sb, "ok req=%d codes=%d", m.Requests, len(codes))
	for _, c := range codes {
		fmt.Fprintf(&sb, " %d:%d", c.k, c.v)
	}
	fmt.Fprintf(&sb, " bin=%d,%s bout=%d,%s", m.BytesIn.Total, fbits(m.BytesIn.Mean), m.BytesOut.Total, fbits(m.BytesOut.Mean))
	fmt.Fprintf(&sb, " lat=%d,%d,%d,%d", int64(m.Latencies.Total), int64(m.Latencies.Mean), int64(m.Latencies.Max), int64(m.Latencies.Min))
	fmt.Fprintf(&sb, " t=%s,%s,%s dur=%d wait=%d", tns(m.Earliest), tns(m.Latest), tns(m.End), int64(m.Duration), int64(m.Wait))
	fmt.Fprintf(&sb, " rate=%s thr=%s succ=%s errs=%d", fbits(m.Rate), fbits(m.Throughput), fbits(m.Success), len(m.Errors))
	for _, e := range m.Errors {
		sb.WriteString(" " + kit.HexS(e))
	}
	return sb.String()
}

func opLine(h history) string {
	var sb strings.Builder
	n := len(h.Results)
	for _, c := range h.Closes {
		n += c
	}
	sb.WriteString("c10.run " + strconv.Itoa(n))
	for i := 0; i <= len(h.Results); i++ {
		if i < len(h.Closes) {
			for k := 0; k < h.Closes[i]; k++ {
				sb.WriteString(" c")
			}
		}
		if i < len(h.Results) {
			x := h.Results[i]
			fmt.Fprintf(&sb, " a %d %d %d %d %d %s", x.Code, x.TS, x.Lat, x.BOut, x.BIn, kit.HexS(x.Err))
		}
	}
	return sb.String()
}

// runImpl performs the history on the real Metrics and closes it.
func runImpl(h history) (*vegeta.Metrics, string) {
	var m vegeta.Metrics
	p, msg := kit.Recover(func() {
		for i := 0; i <= len(h.Results); i++ {
			if i < len(h.Closes) {
				for k := 0; k < h.Closes[i]; k++ {
					m.Close()
				}
			}
			if i < len(h.Results) {
				m.Add(h.Results[i].result())
			}
		}
		m.Close()
	})
	if p {
		return nil, "panic " + msg
	}
	return &m, lineOf(&m)
}

// ---------------------------------------------------------------- generators

var errPool = []string{"connection refused", "EOF", "eof", "EOF ", " EOF", "EOF: unexpected", "Connection Refused", "Get \"http://x\": dial tcp: lookup x: no such host", "timeout, retry",
	"500 Internal Server Error", "x", "unexpected \"quote\"", "ünïcödé ✓", "a,b;c", "context deadline exceeded (Client.Timeout exceeded while awaiting headers)"}

const year2200 = int64(7258118400) * 1000000000 // 2200-01-01T00:00:00Z in ns

func genSize(r *kit.Rng, max int) int {
	switch r.Pick(20) {
	case 0:
		return 0
	case 1:
		return 1
	case 2, 3:
		return 2
	case 4, 5, 6, 7, 8, 9, 10, 11:
		return int(r.Range(3, 20))
	case 12, 13, 14, 15, 16, 17:
		return int(r.Range(20, 200))
	case 18:
		return int(r.Range(200, 600))
	default:
		return int(r.Range(600, int64(max)))
	}
}

// genResults: inDomain keeps the case inside the property's quantifier (timestamps 1970..2200,
// latencies ≥ 0 with sums and ends inside int64, byte totals inside uint64).
func genResults(r *kit.Rng, n int, inDomain bool, s *kit.Summary) []res {
	out := make([]res, n)
	// timestamps
	base := r.Range(0, year2200)
	switch r.Pick(6) {
	case 0:
		base = r.Range(0, 1000)
	case 1:
		base = year2200 - r.Range(0, 1<<40)
	}
	tsMode := r.Pick(6)
	s.Count("ts_mode:" + []string{"equal", "increasing", "reversed", "shuffled", "anywhere", "few_values"}[tsMode])
	step := r.PickI64([]int64{1, 1000, 1000000, 20000000, 1000000000, 3600000000000})
	for i := range out {
		var ts int64
		switch tsMode {
		case 0:
			ts = base
		case 1, 2, 3:
			ts = base + int64(i)*step + r.Range(0, step-1)
		case 4:
			ts = r.Range(0, year2200)
		default:
			ts = base + r.Range(0, 3)*step
		}
		if ts > year2200 || ts < 0 {
			ts = year2200 - int64(n-i)
		}
		out[i].TS = ts
	}
	switch tsMode {
	case 2:
		for i, j := 0, n-1; i < j; i, j = i+1, j-1 {
			out[i].TS, out[j].TS = out[j].TS, out[i].TS
		}
	case 3:
		r.Shuffle(n, func(i, j int) { out[i].TS, out[j].TS = out[j].TS, out[i].TS })
	}
	latMode := r.Pick(7)
	s.Count("lat_mode:" + []string{"mixed", "mixed", "mixed", "all_zero", "zero_first", "huge", "ms"}[latMode])
	codeMode := r.Pick(4)
	errMode := r.Pick(5)
	manyDistinct := 0 // errMode 4: a distinct text per failed request (ephemeral port / request id in the message)
	for i := range out {
		var lat int64
		switch latMode {
		case 3:
			lat = 0
		case 5:
			lat = r.Range(0, 1<<50)
		case 6:
			lat = r.Range(1, 2000) * 1000000
		default:
			switch r.Pick(8) {
			case 0:
				lat = 0
			case 1:
				lat = r.Range(1, 3)
			case 2:
				lat = r.Range(0, 1<<50)
			case 3:
				lat = r.PickI64([]int64{999999999, 1000000000, 1000000001, 4999999, 5000000, 5000001})
			default:
				lat = r.Range(1, 30000) * 100000
			}
		}
		if latMode == 4 && i == 0 {
			lat = 0
		}
		if !inDomain {
			switch r.Pick(6) {
			case 0:
				lat = r.Int64Edge()
			case 1:
				lat = -r.Range(0, 1<<40)
			}
		}
		out[i].Lat = lat
		switch codeMode {
		case 0:
			out[i].Code = 200
		case 1:
			out[i].Code = uint16(r.PickI64([]int64{0, 100, 199, 200, 201, 204, 301, 302, 399, 400, 404, 429, 500, 502, 503, 599, 600, 65535}))
		case 2:
			if n > 5000 { // keep the model's sorted association list short on very long histories
				out[i].Code = uint16(r.Range(0, 999))
			} else {
				out[i].Code = uint16(r.Range(0, 65535))
			}
		default:
			out[i].Code = uint16(r.PickI64([]int64{200, 200, 200, 200, 0, 500, 503, 302}))
		}
		switch r.Pick(6) {
		case 0:
			out[i].BIn, out[i].BOut = 0, 0
		case 1:
			out[i].BIn, out[i].BOut = uint64(r.Range(0, 1<<52)), uint64(r.Range(0, 1<<52))
		default:
			out[i].BIn, out[i].BOut = uint64(r.Range(0, 100000)), uint64(r.Range(0, 4096))
		}
		if !inDomain && r.Chance(0.1) {
			out[i].BIn, out[i].BOut = r.Uint64(), r.Uint64()
		}
		switch errMode {
		case 0:
		case 1:
			if out[i].Code == 0 || out[i].Code >= 400 {
				out[i].Err = errPool[r.Pick(len(errPool))]
			}
		case 2:
			if r.Chance(0.5) {
				out[i].Err = errPool[r.Pick(3)]
			}
		case 4:
			if r.Chance(0.6) {
				out[i].Err = fmt.Sprintf("dial tcp 10.0.0.1:%d->10.0.0.2:80: connect: connection refused", 30000+r.Pick(400))
				manyDistinct++
			}
		default:
			if r.Chance(0.3) {
				out[i].Err = errPool[r.Pick(len(errPool))]
			}
		}
	}
	if manyDistinct > 64 {
		s.Count("errors:more_than_64_distinct_candidates")
	}
	return out
}

func genCloses(r *kit.Rng, n int) []int {
	cl := make([]int, n+1)
	switch r.Pick(4) {
	case 0: // none
	case 1: // periodic
		k := 1 + r.Pick(7)
		for i := range cl {
			if i%k == 0 {
				cl[i] = 1
			}
		}
	case 2: // a few, possibly repeated, possibly before the first Add
		for k := 0; k < 1+r.Pick(5); k++ {
			cl[r.Pick(n+1)] += 1 + r.Pick(2)
		}
	default:
		for i := range cl {
			if r.Chance(0.3) {
				cl[i] = 1
			}
		}
	}
	return cl
}

func permuted(r *kit.Rng, xs []res) []res {
	out := append([]res{}, xs...)
	switch r.Pick(3) {
	case 0:
		for i, j := 0, len(out)-1; i < j; i, j = i+1, j-1 {
			out[i], out[j] = out[j], out[i]
		}
	case 1:
		sort.SliceStable(out, func(i, j int) bool { return out[i].Lat > out[j].Lat })
	default:
		r.Shuffle(len(out), func(i, j int) { out[i], out[j] = out[j], out[i] })
	}
	return out
}

// ---------------------------------------------------------------- oracle (from the documented definitions)

func inDomain(rs []res) bool {
	sumLat, sumIn, sumOut := new(big.Int), new(big.Int), new(big.Int)
	for _, x := range rs {
		if x.TS < 0 || x.TS > year2200 || x.Lat < 0 || x.Lat > math.MaxInt64-x.TS {
			return false
		}
		sumLat.Add(sumLat, big.NewInt(x.Lat))
		sumIn.Add(sumIn, new(big.Int).SetUint64(x.BIn))
		sumOut.Add(sumOut, new(big.Int).SetUint64(x.BOut))
	}
	max64 := new(big.Int).SetUint64(math.MaxUint64)
	return sumLat.IsInt64() && sumIn.Cmp(max64) <= 0 && sumOut.Cmp(max64) <= 0
}

func relClose(got float64, num, den *big.Int) bool {
	if den.Sign() == 0 {
		return true
	}
	exact := new(big.Rat).SetFrac(num, den)
	g := new(big.Rat)
	if math.IsNaN(got) || math.IsInf(got, 0) {
		return false
	}
	g.SetFloat64(got)
	diff := new(big.Rat).Sub(g, exact)
	diff.Abs(diff)
	tol := new(big.Rat).Mul(new(big.Rat).Abs(exact), big.NewRat(1, 1000000000000))
	return diff.Cmp(tol) <= 0
}

type refT struct {
	n, succ               int64
	codes                 map[int]int
	sumIn, sumOut, sumLat *big.Int
	minLat, maxLat        int64
	earliest, latest, end int64
	errs                  map[string]bool
	hasZeroLat            bool
}

func reference(rs []res) refT {
	t := refT{codes: map[int]int{}, sumIn: new(big.Int), sumOut: new(big.Int), sumLat: new(big.Int), errs: map[string]bool{}}
	for i, x := range rs {
		t.n++
		t.codes[int(x.Code)]++
		t.sumIn.Add(t.sumIn, new(big.Int).SetUint64(x.BIn))
		t.sumOut.Add(t.sumOut, new(big.Int).SetUint64(x.BOut))
		t.sumLat.Add(t.sumLat, big.NewInt(x.Lat))
		if i == 0 || x.Lat < t.minLat {
			t.minLat = x.Lat
		}
		if i == 0 || x.Lat > t.maxLat {
			t.maxLat = x.Lat
		}
		if i == 0 || x.TS < t.earliest {
			t.earliest = x.TS
		}
		if i == 0 || x.TS > t.latest {
			t.latest = x.TS
		}
		if i == 0 || x.TS+x.Lat > t.end {
			t.end = x.TS + x.Lat
		}
		if x.Code >= 200 && x.Code < 400 {
			t.succ++
		}
		if x.Err != "" {
			t.errs[x.Err] = true
		}
		if x.Lat == 0 {
			t.hasZeroLat = true
		}
	}
	return t
}

func unixNs(t time.Time) (int64, bool) {
	if t.IsZero() {
		return 0, false
	}
	return t.UnixNano(), true
}

// oracle checks the closed metrics against a direct computation (inputs are in the domain).
func oracle(s *kit.Summary, h history, m *vegeta.Metrics) {
	rs := h.Results
	t := reference(rs)
	bad := func(kind, what, exp, obs string, key map[string]interface{}) {
		s.Violate(kit.Violation{Kind: kind, What: what, Input: h, Expected: exp, Observed: obs, Key: key})
	}
	if int64(m.Requests) != t.n {
		bad("metrics_requests", "request count differs from the number of results", fmt.Sprint(t.n), fmt.Sprint(m.Requests), nil)
	}
	okCodes := true
	for k, v := range t.codes {
		if m.StatusCodes[strconv.Itoa(k)] != v {
			okCodes = false
		}
	}
	for k, v := range m.StatusCodes { // entries for codes that did not occur may only carry a zero
		if n, err := strconv.Atoi(k); v != 0 && (err != nil || t.codes[n] != v) {
			okCodes = false
		}
	}
	if !okCodes {
		bad("metrics_status_codes", "status-code histogram differs from the per-code counts", fmt.Sprint(t.codes), fmt.Sprint(m.StatusCodes), nil)
	}
	if new(big.Int).SetUint64(m.BytesIn.Total).Cmp(t.sumIn) != 0 || new(big.Int).SetUint64(m.BytesOut.Total).Cmp(t.sumOut) != 0 {
		bad("metrics_bytes_total", "byte totals differ from the sums", fmt.Sprint(t.sumIn, t.sumOut), fmt.Sprint(m.BytesIn.Total, m.BytesOut.Total), nil)
	}
	if big.NewInt(int64(m.Latencies.Total)).Cmp(t.sumLat) != 0 {
		bad("metrics_latency_total", "latency total differs from the sum", t.sumLat.String(), fmt.Sprint(int64(m.Latencies.Total)), nil)
	}
	if int64(m.Latencies.Max) != t.maxLat {
		bad("metrics_latency_max", "latency max differs from the maximum", fmt.Sprint(t.maxLat), fmt.Sprint(int64(m.Latencies.Max)), nil)
	}
	if int64(m.Latencies.Min) != t.minLat {
		kind := "latency_min"
		if t.hasZeroLat {
			kind = "latency_min_after_zero"
		}
		bad(kind, "latency min differs from the minimum", fmt.Sprint(t.minLat), fmt.Sprint(int64(m.Latencies.Min)),
			map[string]interface{}{"has_zero_latency": t.hasZeroLat, "clause": "reference"})
	}
	if t.n == 0 {
		// an empty set has a count of zero, zero totals, no codes and no errors; instants, means and rates of
		// an empty set are not defined by the text
		if len(m.Errors) != 0 {
			bad("metrics_empty", "report over no results shows error texts", "none", fmt.Sprint(m.Errors), nil)
		}
		return
	}
	e, ok1 := unixNs(m.Earliest)
	l, ok2 := unixNs(m.Latest)
	n, ok3 := unixNs(m.End)
	if !ok1 || !ok2 || !ok3 || e != t.earliest || l != t.latest || n != t.end {
		bad("metrics_instants", "earliest/latest/end differ from min/max timestamp and max end", fmt.Sprint(t.earliest, t.latest, t.end), fmt.Sprint(tns(m.Earliest), tns(m.Latest), tns(m.End)), nil)
	}
	dur, wait := t.latest-t.earliest, t.end-t.latest
	if int64(m.Duration) != dur || int64(m.Wait) != wait {
		bad("metrics_duration_wait", "duration/wait differ from latest-earliest / end-latest", fmt.Sprint(dur, wait), fmt.Sprint(int64(m.Duration), int64(m.Wait)), nil)
	}
	bn := big.NewInt(t.n)
	if !relClose(m.BytesIn.Mean, t.sumIn, bn) || !relClose(m.BytesOut.Mean, t.sumOut, bn) {
		bad("metrics_bytes_mean", "byte means differ from total/requests", "", fmt.Sprint(m.BytesIn.Mean, m.BytesOut.Mean), nil)
	}
	if !relClose(m.Success, big.NewInt(t.succ), bn) {
		bad("metrics_success", "success ratio differs from successes/requests", fmt.Sprint(t.succ, "/", t.n), fmt.Sprint(m.Success), nil)
	}
	// mean latency: total/requests truncated, through a float64 (relative error 2^-52 on the quotient)
	exactMean := new(big.Int).Quo(t.sumLat, bn)
	diff := new(big.Int).Sub(big.NewInt(int64(m.Latencies.Mean)), exactMean)
	diff.Abs(diff)
	tol := new(big.Int).Quo(exactMean, big.NewInt(1000000000000))
	tol.Add(tol, big.NewInt(1))
	if diff.Cmp(tol) > 0 {
		bad("metrics_latency_mean", "latency mean differs from total/requests", exactMean.String(), fmt.Sprint(int64(m.Latencies.Mean)), nil)
	}
	if dur == 0 && (math.IsNaN(m.Rate) || math.IsInf(m.Rate, 0) || math.IsNaN(m.Throughput) || math.IsInf(m.Throughput, 0)) {
		s.Count("oracle:rate_not_finite_for_single_instant") // no "per second" is defined for a single instant
	}
	if dur > 0 {
		// rate = requests per second of duration; throughput = successes per second of duration+wait
		e9 := big.NewInt(1000000000)
		if !relClose(m.Rate, new(big.Int).Mul(bn, e9), big.NewInt(dur)) {
			bad("metrics_rate", "rate differs from requests/duration", "", fmt.Sprint(m.Rate), nil)
		}
		tot := new(big.Int).Add(big.NewInt(dur), big.NewInt(wait))
		if !relClose(m.Throughput, new(big.Int).Mul(big.NewInt(t.succ), e9), tot) {
			bad("metrics_throughput", "throughput differs from successes/(duration+wait)", "", fmt.Sprint(m.Throughput), nil)
		}
	}
	okErr := len(m.Errors) == len(t.errs)
	seen := map[string]bool{}
	for _, x := range m.Errors {
		if !t.errs[x] || seen[x] {
			okErr = false
		}
		seen[x] = true
	}
	if !okErr {
		bad("metrics_errors", "error set differs from the set of distinct non-empty error texts", fmt.Sprint(len(t.errs)), fmt.Sprint(m.Errors), nil)
	}
}

// sameUpToErrorOrder: every exported field equal, errors as sets.
func canonSet(line string) string {
	i := strings.Index(line, " errs=")
	if i < 0 {
		return line
	}
	f := strings.Fields(line[i+6:])
	if len(f) > 1 {
		sort.Strings(f[1:])
	}
	return line[:i] + " errs=" + strings.Join(f, " ")
}

func dropMin(line string) string {
	// lat=total,mean,max,min
	i := strings.Index(line, " lat=")
	if i < 0 {
		return line
	}
	j := strings.Index(line[i+1:], " ")
	if j < 0 {
		j = len(line)
	} else {
		j += i + 1
	}
	parts := strings.Split(line[i+5:j], ",")
	if len(parts) < 3 {
		return line
	}
	return line[:i] + " lat=" + strings.Join(parts[:3], ",") + ",*" + line[j:]
}

func hasZero(rs []res) bool {
	for _, x := range rs {
		if x.Lat == 0 {
			return true
		}
	}
	return false
}

// checkHistory runs one history: real code vs model (stream), oracle, plus the order / Close clauses.
func checkHistory(r *kit.Rng, s *kit.Summary, st *kit.Stream, h history, dom bool) {
	m, line := runImpl(h)
	st.Add(opLine(h), line)
	if m == nil {
		s.Violate(kit.Violation{Kind: "metrics_panic", What: "Metrics.Add/Close panicked", Input: h, Observed: line})
		return
	}
	if dom {
		oracle(s, h, m)
	}
	// closing repeatedly / in between does not change the final values
	plain := history{Results: h.Results}
	_, linePlain := runImpl(plain)
	if canonSet(line) != canonSet(linePlain) { // the error texts are a set: their order is not compared
		s.Violate(kit.Violation{Kind: "close_changes_values", What: "intermediate Close calls change the final values", Input: h, Expected: linePlain, Observed: line})
	}
	// any order of addition gives the same report (errors as a set)
	if len(h.Results) > 1 {
		h2 := history{Results: permuted(r, h.Results), Closes: genCloses(r, len(h.Results))}
		_, line2 := runImpl(h2)
		st.Add(opLine(h2), line2)
		a, b := canonSet(line), canonSet(line2)
		if a != b {
			if hasZero(h.Results) && dropMin(a) == dropMin(b) {
				s.Violate(kit.Violation{Kind: "latency_min_after_zero", What: "latency min depends on the order of addition", Input: []history{h, h2}, Expected: a, Observed: b,
					Key: map[string]interface{}{"has_zero_latency": true, "clause": "order"}})
			} else if dom {
				s.Violate(kit.Violation{Kind: "order_dependent", What: "report depends on the order of addition", Input: []history{h, h2}, Expected: a, Observed: b})
			} else {
				s.Count("out_of_domain:order_dependent")
			}
		}
	}
}

// ---------------------------------------------------------------- the report command

// slowFeed makes `path` a FIFO and feeds the encoded results through it in three parts with pauses of
// `pause` in between, so that ticks of `report -every` (shorter than the pause) fall between records:
// the command then writes periodic reports deterministically.
func slowFeed(path string, format int, rs []res, pause time.Duration) error {
	var buf bytes.Buffer
	cuts := []int{}
	k1, k2 := len(rs)/3, 2*len(rs)/3
	if err := encodeResults(&buf, format, rs, func(i int) {
		if i == k1 || i == k2 {
			cuts = append(cuts, buf.Len())
		}
	}); err != nil {
		return err
	}
	if err := syscall.Mkfifo(path, 0o600); err != nil {
		return err
	}
	data := buf.Bytes()
	go func() {
		f, err := os.OpenFile(path, os.O_WRONLY, 0) // blocks until the command opens the file
		if err != nil {
			return
		}
		defer f.Close()
		prev := 0
		for _, c := range append(cuts, len(data)) {
			if c > prev {
				f.Write(data[prev:c])
				prev = c
				time.Sleep(pause)
			}
		}
	}()
	return nil
}

func writeResults(path string, format int, rs []res) error {
	f, err := os.Create(path)
	if err != nil {
		return err
	}
	defer f.Close()
	return encodeResults(f, format, rs, nil)
}

// encodeResults writes the results in the given encoding; `before(i)` runs before record i is encoded.
func encodeResults(f io.Writer, format int, rs []res, before func(int)) error {
	var enc vegeta.Encoder
	switch format {
	case 0:
		enc = vegeta.NewEncoder(f)
	case 1:
		enc = vegeta.NewJSONEncoder(f)
	default:
		enc = vegeta.NewCSVEncoder(f)
	}
	for i, x := range rs {
		if before != nil {
			before(i)
		}
		v := x.result()
		v.Attack, v.Seq, v.Method, v.URL = "c10", uint64(i), "GET", "http://localhost/"
		if err := enc.Encode(v); err != nil {
			return err
		}
	}
	return nil
}

// carryOverResults alternates records with all-non-zero fields and records whose Code, Error, byte
// counts and latency are zero/empty.
func carryOverResults(r *kit.Rng, n int) []res {
	out := make([]res, n)
	ts := r.Range(0, year2200-int64(n)*1000)
	for i := range out {
		out[i].TS = ts + int64(i)*1000
		if (i+r.Pick(2))%2 == 0 {
			out[i].Code, out[i].Err = uint16(r.PickI64([]int64{500, 503, 200, 404})), errPool[r.Pick(len(errPool))]
			out[i].BIn, out[i].BOut, out[i].Lat = uint64(r.Range(1, 5000)), uint64(r.Range(1, 500)), r.Range(1, 50)*1000000
		}
	}
	return out
}

// zeroAfterNonzero: some record has a zero/empty field right after a record where it is set.
func zeroAfterNonzero(rs []res) bool {
	for i := 1; i < len(rs); i++ {
		a, b := rs[i-1], rs[i]
		if (a.Err != "" && b.Err == "") || (a.Code != 0 && b.Code == 0) || (a.BIn != 0 && b.BIn == 0) || (a.BOut != 0 && b.BOut == 0) || (a.Lat != 0 && b.Lat == 0) {
			return true
		}
	}
	return false
}

// shapeCounters records which of the order-sensitive situations of Add a history contains.
func shapeCounters(s *kit.Summary, rs []res) {
	if len(rs) < 2 {
		return
	}
	iE, iL, iN := 0, 0, 0
	for i, x := range rs {
		if x.TS < rs[iE].TS {
			iE = i
		}
		if x.TS > rs[iL].TS {
			iL = i
		}
		if x.TS+x.Lat > rs[iN].TS+rs[iN].Lat {
			iN = i
		}
	}
	if rs[iN].TS < rs[iL].TS {
		s.Count("shape:end_from_result_before_latest")
	}
	if iE != 0 {
		s.Count("shape:earliest_not_first")
	}
	if iL != len(rs)-1 {
		s.Count("shape:latest_not_last")
	}
	if rs[iL].TS-rs[iE].TS < 1000000000 && rs[iL].TS != rs[iE].TS {
		s.Count("shape:duration_below_one_second")
	}
	seen := map[string]bool{}
	for _, x := range rs {
		if x.Err != "" {
			l := strings.ToLower(strings.TrimSpace(x.Err))
			if seen[l] && !seen["="+x.Err] {
				s.Count("shape:errors_equal_up_to_case_or_space")
				break
			}
			seen[l], seen["="+x.Err] = true, true
		}
	}
}

func reportCommand(c *run.Ctx, r *kit.Rng, s *kit.Summary) {
	type job struct {
		h         history
		out, outT string
		opJ, opT  int
		every     int64
	}
	var jobs []job
	var ops []string
	n := c.N(120, 2500)
	for i := 0; i < n; i++ {
		size := genSize(r, 2000)
		if size == 0 {
			size = 1 // the command cannot detect the encoding of an empty file
		}
		if i%40 == 39 {
			size = 20000
		}
		rs := genResults(r, size, true, s)
		format := r.Pick(3)
		if i%10 == 0 {
			// gob omits zero-valued fields: records whose fields are zero/empty right after records where they
			// are not (a decoder target reused across records would carry the old values over)
			format = 0
			rs = carryOverResults(r, 2+r.Pick(40))
			s.Count("report:crafted_zero_after_nonzero")
		}
		if i%6 == 1 {
			// records far larger than a 64 KiB line/token buffer, never the first one, sometimes the very last:
			// everything behind such a record must still be counted (all three encodings)
			size = int(r.Range(3, 120))
			rs = genResults(r, size, true, s)
			format = (i / 6) % 3
			pos := []int{int(r.Range(1, int64(size-1)))}
			if r.Chance(0.5) {
				pos = append(pos, int(r.Range(1, int64(size-1))))
			}
			if r.Chance(0.4) {
				pos = append(pos, size-1)
				s.Count("report:huge_record_last")
			}
			for _, p := range pos {
				rs[p].Body = int(r.Range(50000, 150000))
			}
			s.Count("report:huge_record_" + []string{"gob", "json", "csv"}[format])
		}
		if format == 0 && zeroAfterNonzero(rs) {
			s.Count("report:gob_zero_field_after_nonzero")
		}
		in := filepath.Join(c.Work, fmt.Sprintf("res%d.bin", i))
		out := filepath.Join(c.Work, fmt.Sprintf("rep%d.json", i))
		outT := filepath.Join(c.Work, fmt.Sprintf("rep%d.txt", i))
		fifo := i%10 == 5 && size >= 3
		var err error
		if fifo {
			err = slowFeed(in, format, rs, 12*time.Millisecond)
		} else {
			err = writeResults(in, format, rs)
		}
		if err != nil {
			s.Diverge("c10.report", "write "+in, err.Error(), "")
			continue
		}
		// periodic reporting (Close between additions). A tick that takes longer to serve than the
		// interval starves decoding (select prefers the ready ticker over default), so long inputs get 20ms.
		every := int64(0)
		if fifo {
			every = 2000000
			s.Count("report:slow_input_every=2ms")
		} else if size >= 5000 {
			every = 20000000
			s.Count("report:every=20ms")
		} else if r.Chance(0.2) || (size >= 100 && r.Chance(0.5)) {
			every = 1000000
			s.Count("report:every=1ms")
		}
		s.Count("report:format=" + []string{"gob", "json", "csv"}[format])
		buckets := "-"
		if i%7 == 3 { // the JSON report with the optional histogram: the other fields must not change
			buckets = kit.HexS("[0,1ms,10ms,1s]")
			s.Count("report:with_buckets")
		}
		ops = append(ops, fmt.Sprintf("report %s %d %s %s %s", kit.HexS("json"), every, buckets, kit.HexS(out), kit.HexS(in)))
		if fifo { // the FIFO can be read once
			jobs = append(jobs, job{history{Results: rs}, out, outT, len(ops) - 1, -1, every})
			continue
		}
		ops = append(ops, fmt.Sprintf("report %s 0 - %s %s", kit.HexS("text"), kit.HexS(outT), kit.HexS(in)))
		jobs = append(jobs, job{history{Results: rs}, out, outT, len(ops) - 2, len(ops) - 1, every})
	}
	outs, err := kit.RunVegeta(c.Vegeta, ops)
	if err != nil {
		s.Diverge("c10.report", "(vegeta-verif failure)", err.Error(), "")
		return
	}
	st := &kit.Stream{Name: "c10.report"}
	stT := &kit.Stream{Name: "c10.report_text"}
	stL := &kit.Stream{Name: "c10.loop"}
	stJ := &kit.Stream{Name: "c10.report_json_layout"}
	for i, j := range jobs {
		s.Case(fmt.Sprintf("report:%d:%d", i, len(j.h.Results)), len(j.h.Results) > 1)
		if outs[j.opJ] != "ok" {
			s.Diverge("c10.report", ops[j.opJ], outs[j.opJ], "ok")
			continue
		}
		data, err := os.ReadFile(j.out)
		if err != nil {
			s.Diverge("c10.report", ops[j.opJ], err.Error(), "")
			continue
		}
		lines := bytes.Split(bytes.TrimSpace(data), []byte("\n"))
		if len(lines) > 1 {
			s.Count("report:several_reports_written")
		}
		m, err := parseJSONReport(lines[len(lines)-1])
		if err != nil {
			// the document cannot be read by its documented member names: no verdict from this channel
			s.Count("report:json_unrecognised")
			s.Skipped["report_json_unrecognised"]++
			continue
		}
		jl := lineOf(m)
		// the statement's own predicate on what the command printed
		if inDomain(j.h.Results) {
			oracle(s, j.h, m)
		}
		// the library-level values for the same results, added in file order and closed once
		_, lib := runImpl(j.h)
		if canonSet(jl) != canonSet(lib) {
			s.Count("report:json_differs_from_library_values") // the statement's oracle above and the model stream decide
		}
		st.Add(opLine(j.h), jl)
		// member names and their order in the document
		if flat, err := flattenJSON(lines[len(lines)-1]); err == nil {
			stJ.Add(fmt.Sprintf("c10.json %d %d %d %d %s", int64(m.Latencies.P50), int64(m.Latencies.P90), int64(m.Latencies.P95), int64(m.Latencies.P99),
				strings.TrimPrefix(opLine(j.h), "c10.run ")), flat)
		} else {
			stJ.Add("c10.json 0 0 0 0 0", "unparsable "+err.Error())
		}
		// the loop of the command: every report it wrote, periodic ones included
		checkLoop(s, stL, j.h, lines)
		os.Remove(j.out)
		// the text report of the command
		if j.opT < 0 {
			continue
		}
		if outs[j.opT] != "ok" {
			s.Diverge("c10.report_text", ops[j.opT], outs[j.opT], "ok")
			continue
		}
		text, err := os.ReadFile(j.outT)
		if err != nil {
			s.Diverge("c10.report_text", ops[j.opT], err.Error(), "")
			continue
		}
		lm, libText, _ := implText(j.h)
		if lm == nil || libText == nil {
			continue
		}
		if !sameTextModuloErrorOrder(text, libText) {
			s.Count("report:text_differs_from_library_text") // the text oracle below and the model stream decide
		}
		if rows, errs, ok := parseText(text); ok {
			stT.Add(textOp(j.h, lm), textLine(rows, errs))
			if inDomain(j.h.Results) {
				textOracle(s, j.h, lm, rows, errs)
			}
		} else {
			stT.Add(textOp(j.h, lm), "unparsable "+kit.Hex(text))
		}
		os.Remove(j.outT)
	}
	diff(st, c, s)
	diff(stT, c, s)
	diff(stL, c, s)
	diff(stJ, c, s)
}

// ---------------------------------------------------------------- main

// diff pipes a stream through the Lean driver; VERIF_DUMP_OPS=<file> also appends the op lines there (debugging aid).
func diff(st *kit.Stream, c *run.Ctx, s *kit.Summary) {
	if p := os.Getenv("VERIF_DUMP_OPS"); p != "" {
		if f, err := os.OpenFile(p, os.O_APPEND|os.O_CREATE|os.O_WRONLY, 0o644); err == nil {
			for _, o := range st.Ops {
				f.WriteString(o + "\n")
			}
			f.Close()
		}
	}
	st.Diff(c.Driver, s)
}

func runC10(c *run.Ctx, s *kit.Summary) {
	r := kit.NewRng(c.Seed)
	s.Rule = "result multisets of 0..2000 (quick) / 0..100000 (thorough) results: timestamps equal/increasing/reversed/shuffled/anywhere in 1970..2200, " +
		"latencies zero/tiny/ms/huge, status codes over the whole uint16 range, duplicate error texts; each history = an order of addition plus random Close placements, " +
		"re-run without Close and in a permuted order with other Close placements; a tenth of the histories leaves the domain (negative/overflowing values) for the correspondence only; " +
		"text reporter: %.2f on random/tie/special floats, Duration.Round on unit boundaries, library text reports of histories (a third with latencies on the unit boundaries of round), " +
		"the in-process report command with -type json (with and without -every; every report written is replayed through the loop model) and -type text; " +
		"non-trivial = distinct history with ≥2 results (text: ≥1)"
	if c.Replay != "" {
		replay(c, r, s)
		return
	}
	st := &kit.Stream{Name: "c10.run"}
	// defect witnesses first
	for _, h := range []history{
		{Results: []res{{Code: 200, TS: 1000, Lat: 0}, {Code: 200, TS: 2000, Lat: 5}}},
		{Results: []res{{Code: 200, TS: 1000, Lat: 5}, {Code: 200, TS: 2000, Lat: 0}}},
		{Results: nil, Closes: []int{2}},
	} {
		s.Case(fmt.Sprint("fixed:", h), true)
		_, l := runImpl(h)
		s.Sample(map[string]interface{}{"op": "c10.run", "history": h, "impl": l})
		checkHistory(r, s, st, h, true)
	}
	sec := &kit.Stream{Name: "c10.seconds"}
	for i := 0; i < c.N(20000, 300000); i++ {
		d := r.Int64Edge()
		if r.Chance(0.4) {
			d = r.Range(0, 1<<uint(10+r.Pick(53)))
		}
		sec.Add("c10.seconds "+strconv.FormatInt(d, 10), "ok "+fbits(time.Duration(d).Seconds()))
	}
	diff(sec, c, s)

	maxSize := 2000
	nh := c.N(3000, 30000)
	for i := 0; i < nh; i++ {
		dom := !r.Chance(0.1)
		size := genSize(r, maxSize)
		if c.Tier == "thorough" && i%1000 == 999 {
			size = 100000
		}
		rs := genResults(r, size, dom, s)
		dom = inDomain(rs)
		h := history{Results: rs, Closes: genCloses(r, size)}
		s.Case(fmt.Sprintf("h:%d:%d:%d", i, size, c.Seed), size > 1)
		s.Count(fmt.Sprintf("domain=%v", dom))
		switch {
		case size == 0:
			s.Count("size:0")
		case size <= 20:
			s.Count("size:1..20")
		case size <= 200:
			s.Count("size:21..200")
		default:
			s.Count("size:>200")
		}
		if hasZero(rs) {
			s.Count("has_zero_latency")
		}
		if dom {
			shapeCounters(s, rs)
		}
		if i < 2 && size < 10 {
			s.Sample(map[string]interface{}{"op": "c10.run", "history": h})
		}
		checkHistory(r, s, st, h, dom)
		if len(st.Ops) > 400 {
			diff(st, c, s)
			st = &kit.Stream{Name: "c10.run"}
		}
	}
	diff(st, c, s)
	textStreams(c, r, s)
	reportCommand(c, r, s)
	multiFileReports(c, r, s)
}

func replay(c *run.Ctx, r *kit.Rng, s *kit.Summary) {
	data, err := os.ReadFile(c.Replay)
	if err != nil {
		panic(err)
	}
	var rec struct {
		Kind  string          `json:"kind"`
		Input json.RawMessage `json:"input"`
	}
	if err := json.Unmarshal(data, &rec); err != nil {
		panic(err)
	}
	var hs []history
	var one history
	if err := json.Unmarshal(rec.Input, &one); err == nil && (one.Results != nil || one.Closes != nil) {
		hs = []history{one}
	} else if err := json.Unmarshal(rec.Input, &hs); err != nil {
		panic("replay: input is neither a history nor a list of histories")
	}
	st := &kit.Stream{Name: "c10.run"}
	for _, h := range hs {
		s.Case(fmt.Sprint("replay:", len(h.Results)), true)
		checkHistory(r, s, st, h, inDomain(h.Results))
	}
	// an order-clause witness is a pair: compare the two reports
	if len(hs) == 2 {
		_, a := runImpl(hs[0])
		_, b := runImpl(hs[1])
		if canonSet(a) != canonSet(b) {
			kind := "order_dependent"
			if hasZero(hs[0].Results) && dropMin(canonSet(a)) == dropMin(canonSet(b)) {
				kind = "latency_min_after_zero"
			}
			s.Violate(kit.Violation{Kind: kind, What: "report depends on the order of addition", Input: hs, Expected: canonSet(a), Observed: canonSet(b),
				Key: map[string]interface{}{"has_zero_latency": hasZero(hs[0].Results), "clause": "order"}})
		}
	}
	diff(st, c, s)
}
