// vh: correspondence harness. `vh <property> -seed N -tier quick|thorough -driver <lean driver> -out <summary.json>`
package main

import (
	"flag"
	"fmt"
	"os"

	"vharness/kit"
)

type ctx struct {
	seed   int64
	tier   string
	driver string
	vegeta string // path of the vegeta binary built with -tags verif (package-main driver)
	replay string
	scale  float64
	work   string
}

func (c *ctx) n(quick, thorough int) int {
	n := quick
	if c.tier == "thorough" {
		n = thorough
	}
	n = int(float64(n) * c.scale)
	if n < 1 {
		n = 1
	}
	return n
}

var props = map[string]func(*ctx, *kit.Summary){}

func main() {
	if len(os.Args) < 2 {
		fmt.Fprintln(os.Stderr, "usage: vh <property> [flags]")
		os.Exit(2)
	}
	prop := os.Args[1]
	fs := flag.NewFlagSet("vh", flag.ExitOnError)
	c := &ctx{}
	fs.Int64Var(&c.seed, "seed", 1, "PRNG seed")
	fs.StringVar(&c.tier, "tier", "quick", "quick|thorough")
	fs.StringVar(&c.driver, "driver", "/verif/lean/.lake/build/bin/driver", "Lean driver binary")
	fs.StringVar(&c.vegeta, "vegeta", "/verif/.build/vegeta-verif", "vegeta binary built with -tags verif")
	fs.StringVar(&c.replay, "replay", "", "replay file")
	fs.Float64Var(&c.scale, "scale", 1, "volume multiplier")
	fs.StringVar(&c.work, "work", "", "scratch directory")
	out := fs.String("out", "-", "summary output")
	fs.Parse(os.Args[2:])
	f, ok := props[prop]
	if !ok {
		fmt.Fprintln(os.Stderr, "unknown property", prop)
		os.Exit(2)
	}
	s := kit.NewSummary(prop, c.seed, c.tier)
	f(c, s)
	s.Write(*out)
}
