package main

// One long-lived exporter handler (prom.NewHandler) scraped after every few observed results: every
// scrape must show the sums over the results observed so far.

import (
	"bytes"
	"fmt"
	"net/http"
	"net/http/httptest"
	"time"

	"github.com/prometheus/client_golang/prometheus"
	dto "github.com/prometheus/client_model/go"
	"github.com/prometheus/common/expfmt"
	"github.com/tsenart/vegeta/v12/lib/prom"
	"vharness/kit"
)

func handlerScenario(r *kit.Rng, s *kit.Summary, st *kit.Stream, idx int) {
	rs := genSequence(r, int(r.Range(2, 80)), s)
	type snap struct {
		n    int
		body []byte
	}
	var snaps []snap
	failed := ""
	p, msg := kit.Recover(func() {
		pm := prom.NewMetrics()
		reg := prometheus.NewRegistry()
		if err := pm.Register(reg); err != nil {
			failed = err.Error()
			return
		}
		h := prom.NewHandler(reg, time.Now().UTC())
		scrape := func(n int) {
			rec := httptest.NewRecorder()
			h.ServeHTTP(rec, httptest.NewRequest(http.MethodGet, "/metrics", nil))
			if rec.Code != http.StatusOK {
				failed = fmt.Sprintf("exporter answered %d", rec.Code)
				return
			}
			snaps = append(snaps, snap{n, append([]byte{}, rec.Body.Bytes()...)})
		}
		scrape(0)
		every := 1 + r.Pick(4)
		for i, x := range rs {
			pm.Observe(x.result())
			if (i+1)%every == 0 || i == len(rs)-1 {
				scrape(i + 1)
			}
		}
		scrape(len(rs)) // twice in a row without anything in between
	})
	if p {
		failed = "panic " + msg
	}
	if failed != "" {
		s.Violate(kit.Violation{Kind: "prom_exporter_failed", What: "the exporter handler failed: " + failed, Input: sequence{Results: rs}})
		return
	}
	for _, sn := range snaps {
		var parser expfmt.TextParser
		fams, err := parser.TextToMetricFamilies(bytes.NewReader(sn.body))
		if err != nil {
			s.Count("handler:exposition_unrecognised")
			continue
		}
		var list []*dto.MetricFamily
		for _, f := range fams {
			list = append(list, f)
		}
		sc := scrapeOf(list)
		sq := sequence{Results: rs[:sn.n]}
		s.Case(fmt.Sprintf("handler:%d:%d", idx, sn.n), sn.n > 0)
		s.Count("handler:scrapes_of_one_handler")
		st.Add(opLine(sq), sc.line(true))
		oracle(s, sq, sc)
	}
}
