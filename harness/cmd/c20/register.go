package main

// Several Metrics instances and registries: a rejected registration (a second instance, or the same
// instance again, on a registry that already holds identically described collectors) must not disturb what
// the registry already exports; an instance on its own registry is independent.

import (
	"fmt"

	"github.com/prometheus/client_golang/prometheus"
	"github.com/tsenart/vegeta/v12/lib/prom"
	"vharness/kit"
)

func registerScenario(r *kit.Rng, s *kit.Summary, st *kit.Stream, idx int) {
	sqA := sequence{Results: genSequence(r, int(r.Range(1, 120)), s)}
	sqB := sequence{Results: genSequence(r, int(r.Range(1, 60)), s)}
	more := genSequence(r, int(r.Range(1, 30)), s)
	type stage struct {
		name string
		sq   sequence
		sc   *scrape
	}
	var stages []stage
	failed := ""
	p, msg := kit.Recover(func() {
		regA, regB := prometheus.NewRegistry(), prometheus.NewRegistry()
		a, b := prom.NewMetrics(), prom.NewMetrics()
		snap := func(name string, reg *prometheus.Registry, sq sequence) {
			sc, err := gather(reg)
			if err != nil {
				failed = name + ": " + err.Error()
				return
			}
			stages = append(stages, stage{name, sq, sc})
		}
		if err := a.Register(regA); err != nil {
			failed = "first registration failed: " + err.Error()
			return
		}
		for _, x := range sqA.Results {
			a.Observe(x.result())
		}
		snap("A_registered", regA, sqA)
		// a second instance on the same registry: identically described collectors
		if err := b.Register(regA); err != nil {
			s.Count("register:second_instance_rejected")
		} else {
			s.Count("register:second_instance_accepted")
		}
		snap("after_B_on_A's_registry", regA, sqA)
		// the same instance again
		if err := a.Register(regA); err != nil {
			s.Count("register:same_instance_rejected")
		}
		snap("after_A_again", regA, sqA)
		// B observes: it is not exported by A's registry
		for _, x := range sqB.Results {
			b.Observe(x.result())
		}
		snap("after_B_observed", regA, sqA)
		if idx%2 == 0 {
			if err := b.Register(regA); err != nil {
				s.Count("register:second_instance_rejected_after_observing")
			}
			snap("after_B_on_A's_registry_again", regA, sqA)
		}
		// B on its own registry: independent of A
		if err := b.Register(regB); err != nil {
			failed = "registration on a fresh registry failed: " + err.Error()
			return
		}
		snap("B_own_registry", regB, sqB)
		// A keeps working
		for _, x := range more {
			a.Observe(x.result())
		}
		sqA2 := sequence{Results: append(append([]res{}, sqA.Results...), more...)}
		snap("A_after_more", regA, sqA2)
		snap("B_unchanged", regB, sqB)
	})
	if p {
		failed = "panic " + msg
	}
	if failed != "" {
		s.Violate(kit.Violation{Kind: "prom_register_failed", What: "registering / gathering with several instances failed: " + failed, Input: []sequence{sqA, sqB}})
		return
	}
	for _, g := range stages {
		s.Case(fmt.Sprintf("register:%d:%s", idx, g.name), true)
		s.Count("register_stage:" + g.name)
		st.Add(opLine(g.sq), g.sc.line(true))
		oracle(s, g.sq, g.sc)
	}
}
