package main

// End-to-end run of the attack command's glue (attack.go: -prometheus-addr, registry, exporter,
// processAttack observing every result): the real CLI attacks a local server with one worker, the
// server answers a fixed number of requests and then holds the next one, the exporter is scraped
// while the attack is held, and the scrape is compared with the results the attack has written.

import (
	"bytes"
	"fmt"
	"io"
	"net"
	"net/http"
	"net/http/httptest"
	"os"
	"os/exec"
	"path/filepath"
	"strings"
	"sync"
	"syscall"
	"time"

	dto "github.com/prometheus/client_model/go"
	"github.com/prometheus/common/expfmt"
	vegeta "github.com/tsenart/vegeta/v12/lib"
	"vharness/kit"
	"vharness/run"
)

func freePort() (int, error) {
	l, err := net.Listen("tcp", "127.0.0.1:0")
	if err != nil {
		return 0, err
	}
	defer l.Close()
	return l.Addr().(*net.TCPAddr).Port, nil
}

func decodeAll(path string) []vegeta.Result {
	data, err := os.ReadFile(path)
	if err != nil {
		return nil
	}
	dec := vegeta.NewDecoder(bytes.NewReader(data))
	var out []vegeta.Result
	for {
		var r vegeta.Result
		if err := dec.Decode(&r); err != nil {
			return out
		}
		out = append(out, r)
	}
}

func attackRuns(c *run.Ctx, r *kit.Rng, s *kit.Summary) {
	st := &kit.Stream{Name: "c20.attack"}
	for i := 0; i < c.N(2, 12); i++ {
		attackRun(c, r, s, st, i)
	}
	st.Diff(c.Driver, s)
}

func attackRun(c *run.Ctx, r *kit.Rng, s *kit.Summary, st *kit.Stream, idx int) {
	skip := func(why string) { s.Skipped["attack:"+why]++ }
	served := int(r.Range(5, 40)) // requests the server answers before it holds one
	statuses := []int{200, 200, 201, 404, 500, 503, 200, 429}
	var mu sync.Mutex
	seen := 0
	release := make(chan struct{})
	var once sync.Once
	unblock := func() { once.Do(func() { close(release) }) }
	srv := httptest.NewServer(http.HandlerFunc(func(w http.ResponseWriter, req *http.Request) {
		io.Copy(io.Discard, req.Body)
		mu.Lock()
		seen++
		n := seen
		mu.Unlock()
		if n > served {
			<-release
			return
		}
		w.WriteHeader(statuses[(n*7+idx)%len(statuses)])
		w.Write(bytes.Repeat([]byte("x"), (n*37)%1500))
	}))
	defer srv.Close()
	defer unblock()
	dead, err := freePort()
	if err != nil {
		skip("no_port")
		return
	}
	promPort, err := freePort()
	if err != nil {
		skip("no_port")
		return
	}
	// targets: three on the server (two methods, two paths) and, every other run, one on a closed port
	lines := []string{"GET " + srv.URL + "/a", "POST " + srv.URL + "/b", "GET " + srv.URL + "/a?x=1"}
	if idx%2 == 0 {
		lines = append(lines[:2], append([]string{fmt.Sprintf("GET http://127.0.0.1:%d/", dead)}, lines[2:]...)...)
		s.Count("attack:with_refused_target")
	}
	// number of results complete when the (served+1)-th server-bound hit is being held
	want, bound := 0, 0
	for j := 0; ; j++ {
		if !strings.Contains(lines[j%len(lines)], fmt.Sprintf(":%d/", dead)) {
			bound++
			if bound > served {
				break
			}
		}
		want++
	}
	dir := filepath.Join(c.Work, fmt.Sprintf("attack%d", idx))
	os.MkdirAll(dir, 0o755)
	targets, output := filepath.Join(dir, "targets.txt"), filepath.Join(dir, "results.gob")
	os.WriteFile(targets, []byte(strings.Join(lines, "\n")+"\n"), 0o644)
	cmd := exec.Command(c.Vegeta, "attack", "-targets="+targets, "-rate=0", "-max-workers=1", "-workers=1", "-duration=0",
		"-timeout=60s", fmt.Sprintf("-prometheus-addr=127.0.0.1:%d", promPort), "-output="+output)
	cmd.Env = append([]string{}, os.Environ()...) // without VEGETA_VERIF_DRIVER: the ordinary command line
	var stderr bytes.Buffer
	cmd.Stderr = &stderr
	if err := cmd.Start(); err != nil {
		skip("start_failed")
		return
	}
	done := make(chan struct{})
	go func() { cmd.Wait(); close(done) }()
	defer func() {
		cmd.Process.Signal(syscall.SIGINT)
		unblock()
		select {
		case <-done:
		case <-time.After(3 * time.Second):
			cmd.Process.Kill()
			<-done
		}
	}()
	// wait (lower bound only) until the attack has written the results that precede the held request
	var results []vegeta.Result
	deadline := time.Now().Add(15 * time.Second)
	for time.Now().Before(deadline) {
		if results = decodeAll(output); len(results) >= want {
			break
		}
		select {
		case <-done:
			skip("attack_exited:" + strings.TrimSpace(stderr.String()))
			return
		case <-time.After(10 * time.Millisecond):
		}
	}
	if len(results) < want {
		skip("results_not_written_in_time")
		return
	}
	// Observe(r) precedes Encode(r) in processAttack: every written result has been observed. Scrape.
	resp, err := http.Get(fmt.Sprintf("http://127.0.0.1:%d/metrics", promPort))
	if err != nil {
		s.Violate(kit.Violation{Kind: "prom_exporter_unreachable", What: "the Prometheus exporter does not answer during the attack", Input: lines, Observed: err.Error()})
		return
	}
	body, _ := io.ReadAll(resp.Body)
	resp.Body.Close()
	// results written after the scrape started do not matter: the attack is held, none can complete
	if again := decodeAll(output); len(again) != len(results) {
		skip("attack_not_quiescent")
		return
	}
	var parser expfmt.TextParser
	fams, err := parser.TextToMetricFamilies(bytes.NewReader(body))
	if err != nil {
		s.Violate(kit.Violation{Kind: "prom_exporter_unparsable", What: "exporter output is not valid exposition text", Input: lines, Observed: err.Error()})
		return
	}
	sq := sequence{}
	for _, x := range results {
		sq.Results = append(sq.Results, res{Method: x.Method, URL: x.URL, Code: x.Code, BIn: x.BytesIn, BOut: x.BytesOut, Lat: int64(x.Latency), Err: x.Error})
	}
	var list []*dto.MetricFamily
	for _, f := range fams {
		list = append(list, f)
	}
	sc := scrapeOf(list)
	s.Case(fmt.Sprintf("attack:%d:%d", idx, len(results)), true)
	s.Count("attack:runs")
	nerr := 0
	for _, x := range sq.Results {
		if x.Err != "" {
			nerr++
		}
	}
	if nerr > 0 {
		s.Count("attack:with_failed_results")
	}
	st.Add(opLine(sq), sc.line(true))
	oracle(s, sq, sc)
}
