package main

// End-to-end run of the attack command's glue (attack.go: -prometheus-addr, registry, exporter,
// processAttack observing every result): the real CLI attacks a local server with one worker, the
// server answers a fixed number of requests and then holds the next one, the exporter is scraped
// while the attack is held, and the scrape is compared with the results the attack has written.

import (
	"bytes"
	"fmt"
	"io"
	"net"
	"net/http"
	"net/http/httptest"
	"os"
	"os/exec"
	"path/filepath"
	"strings"
	"sync"
	"syscall"
	"time"

	dto "github.com/prometheus/client_model/go"
	"github.com/prometheus/common/expfmt"
	vegeta "github.com/tsenart/vegeta/v12/lib"
	"vharness/kit"
	"vharness/run"
)

func freePort() (int, error) {
	l, err := net.Listen("tcp", "127.0.0.1:0")
	if err != nil {
		return 0, err
	}
	defer l.Close()
	return l.Addr().(*net.TCPAddr).Port, nil
}

func decodeAll(path string) []vegeta.Result {
	data, err := os.ReadFile(path)
	if err != nil {
		return nil
	}
	dec := vegeta.NewDecoder(bytes.NewReader(data))
	var out []vegeta.Result
	for {
		var r vegeta.Result
		if err := dec.Decode(&r); err != nil {
			return out
		}
		out = append(out, r)
	}
}

func attackRuns(c *run.Ctx, r *kit.Rng, s *kit.Summary) {
	st := &kit.Stream{Name: "c20.attack"}
	for i := 0; i < c.N(2, 12); i++ {
		attackRun(c, r, s, st, i)
	}
	for i := 0; i < c.N(2, 8); i++ {
		attackInterrupted(c, r, s, st, i)
	}
	st.Diff(c.Driver, s)
}

// attackInterrupted: the attack is interrupted ONCE while requests are in flight; the results that arrive
// after the signal are written to the output like the others, so they must be observed like the others.
// Several workers; the server answers `served` requests and then holds every further one on its own gate.
// After the signal all but one of the held requests are released one by one; the last one stays held, so
// the command cannot return (and close its exporter) and no further result can complete: once the output
// holds served+k-1 results (each was observed before it was written) the scrape must account for all of them.
func attackInterrupted(c *run.Ctx, r *kit.Rng, s *kit.Summary, st *kit.Stream, idx int) {
	skip := func(why string) { s.Skipped["attack_interrupted:"+why]++ }
	k := int(r.Range(2, 5))
	served := int(r.Range(4, 30))
	statuses := []int{200, 503, 200, 404, 201, 500}
	var mu sync.Mutex
	seen, open := 0, false
	var gates []chan struct{}
	heldCount := func() int { mu.Lock(); defer mu.Unlock(); return len(gates) }
	releaseOne := func() bool {
		mu.Lock()
		defer mu.Unlock()
		for i, g := range gates {
			if g != nil {
				close(g)
				gates[i] = nil
				return true
			}
		}
		return false
	}
	releaseAll := func() {
		mu.Lock()
		open = true
		for i, g := range gates {
			if g != nil {
				close(g)
				gates[i] = nil
			}
		}
		mu.Unlock()
	}
	srv := httptest.NewServer(http.HandlerFunc(func(w http.ResponseWriter, req *http.Request) {
		io.Copy(io.Discard, req.Body)
		mu.Lock()
		seen++
		n := seen
		var gate chan struct{}
		if n > served && !open {
			gate = make(chan struct{})
			gates = append(gates, gate)
		}
		mu.Unlock()
		if gate != nil {
			<-gate
		}
		w.WriteHeader(statuses[(n*5+idx)%len(statuses)])
		w.Write(bytes.Repeat([]byte("y"), (n*53)%900))
	}))
	defer srv.Close()
	defer releaseAll()
	promPort, err := freePort()
	if err != nil {
		skip("no_port")
		return
	}
	dir := filepath.Join(c.Work, fmt.Sprintf("attacki%d", idx))
	os.MkdirAll(dir, 0o755)
	targets, output := filepath.Join(dir, "targets.txt"), filepath.Join(dir, "results.gob")
	os.WriteFile(targets, []byte("GET "+srv.URL+"/a\nPOST "+srv.URL+"/b\nGET "+srv.URL+"/c\n"), 0o644)
	cmd := exec.Command(c.Vegeta, "attack", "-targets="+targets, "-rate=0", fmt.Sprintf("-max-workers=%d", k), fmt.Sprintf("-workers=%d", k),
		"-duration=0", "-timeout=60s", fmt.Sprintf("-prometheus-addr=127.0.0.1:%d", promPort), "-output="+output)
	cmd.Env = append([]string{}, os.Environ()...)
	var stderr bytes.Buffer
	cmd.Stderr = &stderr
	if err := cmd.Start(); err != nil {
		skip("start_failed")
		return
	}
	done := make(chan struct{})
	go func() { cmd.Wait(); close(done) }()
	defer func() {
		releaseAll()
		cmd.Process.Signal(syscall.SIGINT)
		select {
		case <-done:
		case <-time.After(3 * time.Second):
			cmd.Process.Kill()
			<-done
		}
	}()
	waitFor := func(cond func() bool) bool {
		deadline := time.Now().Add(15 * time.Second)
		for time.Now().Before(deadline) {
			if cond() {
				return true
			}
			select {
			case <-done:
				return false
			case <-time.After(5 * time.Millisecond):
			}
		}
		return false
	}
	// scrapeCheck: the exporter is scraped while nothing can complete (every in-flight request is held) and
	// held against the results written so far; the same endpoint is scraped again and again, a fraction of
	// a second apart, with results observed in between.
	scrapes := 0
	scrapeCheck := func(stage string) bool {
		results := decodeAll(output)
		resp, err := http.Get(fmt.Sprintf("http://127.0.0.1:%d/metrics", promPort))
		if err != nil {
			s.Violate(kit.Violation{Kind: "prom_exporter_unreachable", What: "the Prometheus exporter does not answer while requests are in flight (" + stage + ")", Observed: err.Error()})
			return false
		}
		body, _ := io.ReadAll(resp.Body)
		resp.Body.Close()
		if again := decodeAll(output); len(again) != len(results) {
			skip("not_quiescent")
			return false
		}
		var parser expfmt.TextParser
		fams, err := parser.TextToMetricFamilies(bytes.NewReader(body))
		if err != nil {
			s.Count("attack:exposition_unrecognised")
			return false
		}
		sq := sequence{}
		for _, x := range results {
			sq.Results = append(sq.Results, res{Method: x.Method, URL: x.URL, Code: x.Code, BIn: x.BytesIn, BOut: x.BytesOut, Lat: int64(x.Latency), Err: x.Error})
		}
		var list []*dto.MetricFamily
		for _, f := range fams {
			list = append(list, f)
		}
		sc := scrapeOf(list)
		scrapes++
		s.Count("attack:scrapes_of_one_endpoint")
		s.Count("attack:scrape_" + stage)
		st.Add(opLine(sq), sc.line(true))
		oracle(s, sq, sc)
		return true
	}
	// all workers are held and everything answered so far has been written
	if !waitFor(func() bool { return heldCount() >= k && len(decodeAll(output)) >= served }) {
		skip("not_held_in_time")
		return
	}
	if !scrapeCheck("all_held") {
		return
	}
	// the one interrupt: the attack stops issuing hits, the held requests stay in flight
	cmd.Process.Signal(syscall.SIGINT)
	time.Sleep(200 * time.Millisecond) // lower bound only: gives the command time to handle the signal
	want := served
	for j := 0; j < k-1; j++ {
		if !releaseOne() {
			break
		}
		want++
		w := want
		if !waitFor(func() bool { return len(decodeAll(output)) >= w }) {
			skip("drained_result_not_written_in_time")
			return
		}
		if j < k-2 && !scrapeCheck("between_releases") {
			return
		}
	}
	// at least one request is still held: the command is alive, nothing more can complete
	if !scrapeCheck("after_drain") {
		return
	}
	s.Case(fmt.Sprintf("attack_interrupted:%d", idx), true)
	s.Count("attack:interrupted_runs")
}

func attackRun(c *run.Ctx, r *kit.Rng, s *kit.Summary, st *kit.Stream, idx int) {
	skip := func(why string) { s.Skipped["attack:"+why]++ }
	served := int(r.Range(5, 40)) // requests the server answers before it holds one
	statuses := []int{200, 200, 201, 404, 500, 503, 200, 429}
	var mu sync.Mutex
	seen := 0
	release := make(chan struct{})
	var once sync.Once
	unblock := func() { once.Do(func() { close(release) }) }
	srv := httptest.NewServer(http.HandlerFunc(func(w http.ResponseWriter, req *http.Request) {
		io.Copy(io.Discard, req.Body)
		mu.Lock()
		seen++
		n := seen
		mu.Unlock()
		if n > served {
			<-release
			return
		}
		w.WriteHeader(statuses[(n*7+idx)%len(statuses)])
		w.Write(bytes.Repeat([]byte("x"), (n*37)%1500))
	}))
	defer srv.Close()
	defer unblock()
	dead, err := freePort()
	if err != nil {
		skip("no_port")
		return
	}
	promPort, err := freePort()
	if err != nil {
		skip("no_port")
		return
	}
	// targets: three on the server (two methods, two paths) and, every other run, one on a closed port
	lines := []string{"GET " + srv.URL + "/a", "POST " + srv.URL + "/b", "GET " + srv.URL + "/a?x=1"}
	if idx%2 == 0 {
		lines = append(lines[:2], append([]string{fmt.Sprintf("GET http://127.0.0.1:%d/", dead)}, lines[2:]...)...)
		s.Count("attack:with_refused_target")
	}
	// number of results complete when the (served+1)-th server-bound hit is being held
	want, bound := 0, 0
	for j := 0; ; j++ {
		if !strings.Contains(lines[j%len(lines)], fmt.Sprintf(":%d/", dead)) {
			bound++
			if bound > served {
				break
			}
		}
		want++
	}
	dir := filepath.Join(c.Work, fmt.Sprintf("attack%d", idx))
	os.MkdirAll(dir, 0o755)
	targets, output := filepath.Join(dir, "targets.txt"), filepath.Join(dir, "results.gob")
	os.WriteFile(targets, []byte(strings.Join(lines, "\n")+"\n"), 0o644)
	name := ""
	if idx%2 == 1 {
		name = strings.Repeat([]string{"n", "ü"}[(idx/2)%2], 118+idx%9) // a long -name travels with every result
		s.Count("attack:long_name")
	}
	cmd := exec.Command(c.Vegeta, "attack", "-targets="+targets, "-rate=0", "-max-workers=1", "-workers=1", "-duration=0", "-name="+name,
		"-timeout=60s", fmt.Sprintf("-prometheus-addr=127.0.0.1:%d", promPort), "-output="+output)
	cmd.Env = append([]string{}, os.Environ()...) // without VEGETA_VERIF_DRIVER: the ordinary command line
	var stderr bytes.Buffer
	cmd.Stderr = &stderr
	if err := cmd.Start(); err != nil {
		skip("start_failed")
		return
	}
	done := make(chan struct{})
	go func() { cmd.Wait(); close(done) }()
	defer func() {
		cmd.Process.Signal(syscall.SIGINT)
		unblock()
		select {
		case <-done:
		case <-time.After(3 * time.Second):
			cmd.Process.Kill()
			<-done
		}
	}()
	// wait (lower bound only) until the attack has written the results that precede the held request
	var results []vegeta.Result
	deadline := time.Now().Add(15 * time.Second)
	for time.Now().Before(deadline) {
		if results = decodeAll(output); len(results) >= want {
			break
		}
		select {
		case <-done:
			skip("attack_exited:" + strings.TrimSpace(stderr.String()))
			return
		case <-time.After(10 * time.Millisecond):
		}
	}
	if len(results) < want {
		skip("results_not_written_in_time")
		return
	}
	// Observe(r) precedes Encode(r) in processAttack: every written result has been observed. Scrape.
	resp, err := http.Get(fmt.Sprintf("http://127.0.0.1:%d/metrics", promPort))
	if err != nil {
		s.Violate(kit.Violation{Kind: "prom_exporter_unreachable", What: "the Prometheus exporter does not answer during the attack", Input: lines, Observed: err.Error()})
		return
	}
	body, _ := io.ReadAll(resp.Body)
	resp.Body.Close()
	// results written after the scrape started do not matter: the attack is held, none can complete
	if again := decodeAll(output); len(again) != len(results) {
		skip("attack_not_quiescent")
		return
	}
	var parser expfmt.TextParser
	fams, err := parser.TextToMetricFamilies(bytes.NewReader(body))
	if err != nil {
		s.Count("attack:exposition_unrecognised")
		return
	}
	sq := sequence{}
	for _, x := range results {
		sq.Results = append(sq.Results, res{Method: x.Method, URL: x.URL, Code: x.Code, BIn: x.BytesIn, BOut: x.BytesOut, Lat: int64(x.Latency), Err: x.Error})
	}
	var list []*dto.MetricFamily
	for _, f := range fams {
		list = append(list, f)
	}
	sc := scrapeOf(list)
	s.Case(fmt.Sprintf("attack:%d:%d", idx, len(results)), true)
	s.Count("attack:runs")
	nerr := 0
	for _, x := range sq.Results {
		if x.Err != "" {
			nerr++
		}
	}
	if nerr > 0 {
		s.Count("attack:with_failed_results")
	}
	st.Add(opLine(sq), sc.line(true))
	oracle(s, sq, sc)
}
