package main

import (
	"encoding/json"
	"fmt"
	"math"
	"math/big"
	"os"
	"sort"
	"strconv"
	"strings"
	"sync"
	"time"

	"github.com/prometheus/client_golang/prometheus"
	dto "github.com/prometheus/client_model/go"
	vegeta "github.com/tsenart/vegeta/v12/lib"
	"github.com/tsenart/vegeta/v12/lib/prom"
	"vharness/kit"
	"vharness/run"
)

func main() { run.Main("C20", runC20) }

type res struct {
	Method string `json:"method"`
	URL    string `json:"url"`
	Code   uint16 `json:"code"`
	BIn    uint64 `json:"bytes_in"`
	BOut   uint64 `json:"bytes_out"`
	Lat    int64  `json:"lat"`
	Err    string `json:"error"`
	// Attack name (hex, it may be invalid UTF-8) and sequence number of the result: not part of any label
	AttackHex string `json:"attack_hex,omitempty"`
	Seq       uint64 `json:"seq,omitempty"`
}

// sequence of observed results; Workers = 0: sequential, otherwise the number of goroutines
// observing concurrently (result i is observed by goroutine i % Workers).
type sequence struct {
	Results []res `json:"results"`
	Workers int   `json:"workers"`
}

func (x res) result() *vegeta.Result {
	return &vegeta.Result{Method: x.Method, URL: x.URL, Code: x.Code, BytesIn: x.BIn, BytesOut: x.BOut,
		Latency: time.Duration(x.Lat), Error: x.Err, Attack: string(kit.UnHex(orDash(x.AttackHex))), Seq: x.Seq}
}

func orDash(h string) string {
	if h == "" {
		return "-"
	}
	return h
}

// attackNames: empty, one rune, ~60, 110–130 and 300 runes, ASCII and multi-byte, and invalid UTF-8
func genAttackName(r *kit.Rng) (string, string) {
	unit := []string{"a", "ü", "✓", "名"}[r.Pick(4)]
	switch r.Pick(8) {
	case 0:
		return "", "empty"
	case 1:
		return unit, "1_rune"
	case 2:
		return strings.Repeat(unit, int(r.Range(55, 65))), "about_60_runes"
	case 3, 4, 5:
		return strings.Repeat(unit, int(r.Range(110, 130))), "110_to_130_runes"
	case 6:
		return strings.Repeat(unit, 300), "300_runes"
	default:
		return []string{"\xff\xfe attack", "caf\xe9", strings.Repeat("x", 40) + "\xc3"}[r.Pick(3)], "invalid_utf8"
	}
}

func baseKey(method, url, code string) string {
	return kit.HexS(method) + "." + kit.HexS(url) + "." + code
}

// ---------------------------------------------------------------- scrape

type histVal struct {
	count uint64
	sum   float64
	cum   []uint64 // cumulative counts of the finite buckets
	les   []float64
	inf   uint64
}

type scrape struct {
	in, out, fail map[string]float64
	hist          map[string]histVal
	other         []string
	extraFamilies int
}

func labelKey(m *dto.Metric, withMsg bool) (string, bool) {
	lv := map[string]string{}
	for _, lp := range m.GetLabel() {
		lv[lp.GetName()] = lp.GetValue()
	}
	want := 3
	if withMsg {
		want = 4
	}
	if len(lv) != want {
		return "", false
	}
	k := baseKey(lv["method"], lv["url"], lv["status"])
	if withMsg {
		k += "." + kit.HexS(lv["message"])
	}
	return k, true
}

func gather(reg *prometheus.Registry) (*scrape, error) {
	fams, err := reg.Gather()
	if err != nil {
		return nil, err
	}
	return scrapeOf(fams), nil
}

func scrapeOf(fams []*dto.MetricFamily) *scrape {
	sc := &scrape{in: map[string]float64{}, out: map[string]float64{}, fail: map[string]float64{}, hist: map[string]histVal{}}
	for _, f := range fams {
		for _, m := range f.GetMetric() {
			switch f.GetName() {
			case "request_bytes_in", "request_bytes_out", "request_fail_count":
				k, ok := labelKey(m, f.GetName() == "request_fail_count")
				if !ok || m.GetCounter() == nil {
					sc.other = append(sc.other, f.GetName()+": unexpected labels or type")
					continue
				}
				dst := map[string]map[string]float64{"request_bytes_in": sc.in, "request_bytes_out": sc.out, "request_fail_count": sc.fail}[f.GetName()]
				if _, dup := dst[k]; dup {
					sc.other = append(sc.other, f.GetName()+": duplicate child "+k)
				}
				dst[k] = m.GetCounter().GetValue()
			case "request_seconds":
				k, ok := labelKey(m, false)
				h := m.GetHistogram()
				if !ok || h == nil {
					sc.other = append(sc.other, "request_seconds: unexpected labels or type")
					continue
				}
				v := histVal{count: h.GetSampleCount(), sum: h.GetSampleSum(), inf: h.GetSampleCount()}
				for _, b := range h.GetBucket() {
					if math.IsInf(b.GetUpperBound(), 1) {
						v.inf = b.GetCumulativeCount()
						continue
					}
					v.cum = append(v.cum, b.GetCumulativeCount())
					v.les = append(v.les, b.GetUpperBound())
				}
				sc.hist[k] = v
			default:
				if strings.HasPrefix(f.GetName(), "promhttp_") {
					continue // the exporter's own handler instrumentation (NewHandler registers it in the same registry)
				}
				sc.extraFamilies++ // further metric families are not the property's business
			}
		}
	}
	return sc
}

func intStr(f float64) string {
	if f >= 0 && f < 1<<63 && float64(uint64(f)) == f {
		return strconv.FormatUint(uint64(f), 10)
	}
	return "nonint:" + strconv.FormatUint(math.Float64bits(f), 10)
}

func family(name string, m map[string]string) string {
	keys := make([]string, 0, len(m))
	for k := range m {
		keys = append(keys, k)
	}
	sort.Strings(keys)
	var sb strings.Builder
	sb.WriteString(name + "=" + strconv.Itoa(len(keys)))
	for _, k := range keys {
		sb.WriteString(" " + k + ":" + m[k])
	}
	return sb.String()
}

func (sc *scrape) line(withSum bool) string {
	if len(sc.other) > 0 {
		return "unexpected " + strings.Join(sc.other, "; ")
	}
	conv := func(m map[string]float64) map[string]string {
		o := map[string]string{}
		for k, v := range m {
			o[k] = intStr(v)
		}
		return o
	}
	hs := map[string]string{}
	for k, v := range sc.hist {
		sum := "*"
		if withSum {
			sum = strconv.FormatUint(math.Float64bits(v.sum), 10)
		}
		parts := make([]string, len(v.cum))
		for i, c := range v.cum {
			parts[i] = strconv.FormatUint(c, 10)
		}
		hs[k] = strconv.FormatUint(v.count, 10) + ":" + sum + ":" + strings.Join(parts, ",")
	}
	return "ok " + family("in", conv(sc.in)) + " " + family("out", conv(sc.out)) + " " + family("hist", hs) + " " + family("fail", conv(sc.fail))
}

// observeAll runs the real code: fresh Metrics, fresh registry, Observe (sequentially or concurrently), Gather.
func observeAll(sq sequence) (*scrape, string) {
	var sc *scrape
	var gerr error
	p, msg := kit.Recover(func() {
		pm := prom.NewMetrics()
		reg := prometheus.NewRegistry()
		if err := pm.Register(reg); err != nil {
			gerr = err
			return
		}
		if sq.Workers <= 0 {
			for _, x := range sq.Results {
				pm.Observe(x.result())
			}
		} else {
			var wg sync.WaitGroup
			start := make(chan struct{})
			for w := 0; w < sq.Workers; w++ {
				wg.Add(1)
				go func(w int) {
					defer wg.Done()
					<-start
					for i := w; i < len(sq.Results); i += sq.Workers {
						pm.Observe(sq.Results[i].result())
					}
				}(w)
			}
			close(start)
			wg.Wait()
		}
		sc, gerr = gather(reg)
	})
	if p {
		return nil, "panic " + msg
	}
	if gerr != nil {
		return nil, "err " + gerr.Error()
	}
	return sc, sc.line(sq.Workers <= 0)
}

func opLine(sq sequence) string {
	var sb strings.Builder
	if sq.Workers <= 0 {
		sb.WriteString("c20.observe ")
	} else {
		sb.WriteString("c20.observe_nosum ")
	}
	sb.WriteString(strconv.Itoa(len(sq.Results)))
	for _, x := range sq.Results {
		fmt.Fprintf(&sb, " %s %s %d %d %d %d %s", kit.HexS(x.Method), kit.HexS(x.URL), x.Code, x.BIn, x.BOut, x.Lat, kit.HexS(x.Err))
	}
	return sb.String()
}

// ---------------------------------------------------------------- generator

var methods = []string{"GET", "POST", "PUT", "DELETE", "", "PÄTCH"}
var urls = []string{"http://localhost:8080/", "http://localhost:8080/a?b=c&d=e", "https://example.com/x y", "", "http://[::1]/ü", "http://h/\"q\"\\"}
var codes = []uint16{200, 200, 200, 0, 201, 302, 404, 500, 503, 65535}
var messages = []string{"connection refused", "EOF", "Get \"http://127.0.0.1:1/some/long/path?with=query&and=more\": dial tcp 127.0.0.1:1: connect: connection refused (Client.Timeout exceeded while awaiting headers) — " + strings.Repeat("retry ", 30), "Get \"http://x\": context deadline exceeded", "500 Internal Server Error", "ü ✓", "x"}
var boundsNs = []int64{5000000, 10000000, 25000000, 50000000, 100000000, 250000000, 500000000, 1000000000, 2500000000, 5000000000, 10000000000}

func genSize(r *kit.Rng, max int) int {
	switch r.Pick(20) {
	case 0:
		return 0
	case 1:
		return 1
	case 2, 3, 4, 5, 6, 7, 8:
		return int(r.Range(2, 30))
	case 9, 10, 11, 12, 13, 14:
		return int(r.Range(30, 300))
	case 15, 16, 17, 18:
		return int(r.Range(300, 2000))
	default:
		return int(r.Range(2000, int64(max)))
	}
}

// manyMessages gives most results an error text of its own kind: 150–400 distinct messages per sequence.
func manyMessages(r *kit.Rng, rs []res, s *kit.Summary) []res {
	ports := int(r.Range(150, 400))
	distinct := map[string]bool{}
	for i := range rs {
		if !r.Chance(0.8) {
			continue
		}
		p := 40000 + r.Pick(ports)
		switch r.Pick(6) {
		case 0:
			rs[i].Err = fmt.Sprintf("Get \"%s\": read tcp [::1]:%d->[::1]:8080: read: connection reset by peer", rs[i].URL, p)
		case 1:
			rs[i].Err = fmt.Sprintf("dial tcp 127.0.0.1:%d: connect: connection refused — ünïcödé ✓ %d", p, p)
		case 2:
			rs[i].Err = fmt.Sprintf("request %d: %s", p, strings.Repeat("very long explanation ", 12))
		default:
			rs[i].Err = fmt.Sprintf("read tcp [::1]:%d->[::1]:8080: i/o timeout", p)
		}
		distinct[rs[i].Err] = true
	}
	s.Count("errors:many_distinct_messages")
	if len(distinct) > 100 {
		s.Count("errors:more_than_100_distinct_messages")
	}
	return rs
}

func genSequence(r *kit.Rng, n int, s *kit.Summary) []res {
	nm, nu, nc, ne := 1+r.Pick(len(methods)), 1+r.Pick(len(urls)), 1+r.Pick(len(codes)), 1+r.Pick(len(messages))
	errMode := r.Pick(4)
	latMode := r.Pick(4)
	// label sets whose method+url+status texts coincide when written back to back (a cache keyed on
	// the concatenation, or on a hash of it without separators, would merge them)
	collide := r.Chance(0.4)
	type lab struct {
		m, u string
		c    uint16
	}
	var family []lab
	if collide {
		base := r.PickStr([]string{"http://api.test/items/", "http://h/", "http://localhost:8080/v"})
		family = []lab{{"GET", base, 200}, {"GET", base + "20", 0}, {"GET", base + "2", 0}, {"GET", base + "5", 3}, {"GET", base, 53},
			{"GE", "T" + base, 200}, {"GETh", base[1:], 200}, {"GET", base + "40", 4}, {"GET", base + "4", 404}, {"GET", base, 4044}, {"GET", base, 404}, {"GET", base + "4", 4}}
		s.Count("labels:colliding_family")
	}
	// byte counts: mixed / all zero (a counter that is only created by a non-zero Add stays absent) /
	// zero for some label sets only
	bytesMode := r.Pick(5)
	s.Count("bytes_mode:" + []string{"mixed", "mixed", "mixed", "all_zero", "zero_for_status_0_and_404"}[bytesMode])
	longURL := ""
	if r.Chance(0.05) {
		longURL = "http://long.test/" + strings.Repeat("segment/", 150) // ≈ 1.2 KiB label value
		s.Count("labels:long_url")
	}
	out := make([]res, n)
	nErrOK, nNoErrBad, nErrZero := 0, 0, 0
	for i := range out {
		x := res{Method: methods[r.Pick(nm)], URL: urls[r.Pick(nu)], Code: codes[r.Pick(nc)]}
		if longURL != "" && r.Chance(0.2) {
			x.URL = longURL
		}
		if collide && r.Chance(0.7) {
			l := family[r.Pick(len(family))]
			x.Method, x.URL, x.Code = l.m, l.u, l.c
		}
		switch r.Pick(5) {
		case 0:
		case 1:
			x.BIn, x.BOut = uint64(r.Range(0, 1<<38)), uint64(r.Range(0, 1<<38))
		default:
			x.BIn, x.BOut = uint64(r.Range(0, 100000)), uint64(r.Range(0, 4096))
		}
		if bytesMode == 3 || (bytesMode == 4 && (x.Code == 0 || x.Code == 404)) {
			x.BIn, x.BOut = 0, 0
		}
		switch latMode {
		case 0: // around the bucket bounds
			x.Lat = boundsNs[r.Pick(len(boundsNs))] + r.Range(-1, 1)
		case 1:
			x.Lat = r.Range(0, 12000) * 1000000
		case 2:
			switch r.Pick(6) {
			case 0:
				x.Lat = 0
			case 1:
				x.Lat = r.Range(0, 1<<45)
			case 2:
				x.Lat = boundsNs[r.Pick(len(boundsNs))]
			case 3:
				x.Lat = -r.Range(0, 2000000000)
			default:
				x.Lat = r.Range(0, 3000000000)
			}
		default:
			x.Lat = r.Range(1, 500) * 1000000
		}
		switch errMode {
		case 0:
		case 1:
			if x.Code == 0 || x.Code >= 400 {
				x.Err = messages[r.Pick(ne)]
			}
		case 2:
			if r.Chance(0.5) {
				x.Err = messages[r.Pick(ne)]
			}
		default:
			x.Err = messages[r.Pick(ne)]
		}
		out[i] = x
		switch {
		case x.Err != "" && x.Code >= 200 && x.Code < 400:
			nErrOK++
		case x.Err == "" && (x.Code == 0 || x.Code >= 400):
			nNoErrBad++
		case x.Err != "" && x.Code == 0:
			nErrZero++
		}
	}
	if nErrOK > 0 {
		s.Count("errors:with_success_status")
	}
	if nNoErrBad > 0 {
		s.Count("errors:none_with_failure_status")
	}
	if nErrZero > 0 {
		s.Count("errors:with_status_0")
	}
	s.Count("err_mode:" + []string{"none", "by_code", "half", "all"}[errMode])
	s.Count("lat_mode:" + []string{"bucket_bounds", "ms_grid", "mixed", "small"}[latMode])
	return out
}

// ---------------------------------------------------------------- oracle (from the statement)

func oracle(s *kit.Summary, sq sequence, sc *scrape) {
	type agg struct {
		in, out uint64
		n       uint64
		ns      *big.Int
		lats    []int64
	}
	base := map[string]*agg{}
	fails := map[string]uint64{}
	for _, x := range sq.Results {
		k := baseKey(x.Method, x.URL, strconv.FormatUint(uint64(x.Code), 10))
		a := base[k]
		if a == nil {
			a = &agg{ns: new(big.Int)}
			base[k] = a
		}
		a.in += x.BIn
		a.out += x.BOut
		a.n++
		a.ns.Add(a.ns, big.NewInt(x.Lat))
		a.lats = append(a.lats, x.Lat)
		if x.Err != "" {
			fails[k+"."+kit.HexS(x.Err)]++
		}
	}
	bad := func(kind, what, exp, obs string, key map[string]interface{}) {
		s.Violate(kit.Violation{Kind: kind, What: what, Input: sq, Expected: exp, Observed: obs, Key: key})
	}
	if len(sc.other) > 0 {
		bad("prom_unexpected_family", "scrape holds unexpected families or children", "", strings.Join(sc.other, "; "), nil)
	}
	if sc.extraFamilies > 0 {
		s.Count("scrape:further_families_ignored")
	}
	// label sets that were never observed may only show zeros
	for k, v := range sc.in {
		if _, ok := base[k]; !ok && v != 0 {
			bad("prom_label_sets", "bytes-in counter with a value for a label set that was never observed: "+k, "absent or 0", fmt.Sprint(v), nil)
		}
	}
	for k, v := range sc.out {
		if _, ok := base[k]; !ok && v != 0 {
			bad("prom_label_sets", "bytes-out counter with a value for a label set that was never observed: "+k, "absent or 0", fmt.Sprint(v), nil)
		}
	}
	for k, h := range sc.hist {
		if _, ok := base[k]; !ok && (h.count != 0 || h.sum != 0) {
			bad("prom_label_sets", "histogram with samples for a label set that was never observed: "+k, "absent or empty", fmt.Sprint(h.count, h.sum), nil)
		}
	}
	for k, a := range base {
		if v, ok := sc.in[k]; !ok || v != float64(a.in) {
			bad("prom_bytes_in", "bytes-in counter differs from the sum for "+k, fmt.Sprint(a.in), fmt.Sprint(v, ok), nil)
		}
		if v, ok := sc.out[k]; !ok || v != float64(a.out) {
			bad("prom_bytes_out", "bytes-out counter differs from the sum for "+k, fmt.Sprint(a.out), fmt.Sprint(v, ok), nil)
		}
		h, ok := sc.hist[k]
		if !ok {
			bad("prom_hist_missing", "no latency histogram for "+k, "", "", nil)
			continue
		}
		if h.count != a.n || h.inf != a.n {
			bad("prom_hist_count", "histogram sample count differs from the number of results for "+k, fmt.Sprint(a.n), fmt.Sprint(h.count, h.inf), nil)
		}
		// total seconds, 1e-9 relative (plus one ulp-ish absolute floor for sums that cancel)
		exact := new(big.Rat).SetFrac(a.ns, big.NewInt(1000000000))
		got := new(big.Rat)
		okSum := !math.IsNaN(h.sum) && !math.IsInf(h.sum, 0)
		if okSum {
			got.SetFloat64(h.sum)
			d := new(big.Rat).Sub(got, exact)
			d.Abs(d)
			absTot := new(big.Int)
			for _, l := range a.lats {
				if l < 0 {
					l = -l
				}
				absTot.Add(absTot, big.NewInt(l))
			}
			tol := new(big.Rat).SetFrac(absTot, big.NewInt(1000000000))
			tol.Mul(tol, big.NewRat(1, 1000000000))
			okSum = d.Cmp(tol) <= 0
		}
		if !okSum {
			bad("prom_hist_sum", "histogram sum differs from the total seconds for "+k, exact.FloatString(12), fmt.Sprint(h.sum), nil)
		}
		// the property fixes the meaning of a bucket (count of latencies ≤ its bound in seconds), not the set of bounds
		if len(h.les) != len(prometheus.DefBuckets) {
			s.Count("scrape:buckets_other_than_default")
		}
		for j, le := range h.les {
			var want uint64
			for _, l := range a.lats {
				if time.Duration(l).Seconds() <= le {
					want++
				}
			}
			if h.cum[j] != want {
				bad("prom_hist_buckets", fmt.Sprintf("cumulative count of bucket le=%v inconsistent with the latencies for %s", le, k), fmt.Sprint(want), fmt.Sprint(h.cum[j]), nil)
				break
			}
			if j > 0 && h.cum[j] < h.cum[j-1] || h.cum[j] > h.count {
				bad("prom_hist_buckets", "cumulative counts not monotone for "+k, "", fmt.Sprint(h.cum), nil)
				break
			}
		}
	}
	// failure counter = number of results with a non-empty error per (labels, message)
	for k, want := range fails {
		v, ok := sc.fail[k]
		if !ok {
			bad("prom_fail_counter_missing", "no failure counter for "+k, fmt.Sprint(want), "absent", nil)
		} else if v != float64(want) {
			kind := "prom_fail_counter"
			if v == 0 {
				kind = "prom_fail_counter_not_incremented"
			}
			bad(kind, "failure counter differs from the number of failed results for "+k, fmt.Sprint(want), fmt.Sprint(v), map[string]interface{}{"observed": v})
		}
	}
	for k := range sc.fail {
		if _, ok := fails[k]; !ok && sc.fail[k] != 0 {
			bad("prom_fail_counter_extra", "failure counter for a label set without failed results: "+k, "absent", fmt.Sprint(sc.fail[k]), nil)
		}
	}
}

func check(s *kit.Summary, st *kit.Stream, sq sequence) {
	sc, line := observeAll(sq)
	st.Add(opLine(sq), line)
	if sc == nil {
		s.Violate(kit.Violation{Kind: "prom_observe_failed", What: "Observe/Gather panicked or failed", Input: sq, Observed: line})
		return
	}
	oracle(s, sq, sc)
}

func runC20(c *run.Ctx, s *kit.Summary) {
	r := kit.NewRng(c.Seed)
	s.Rule = "sequences of 0..10^4 results over ≤6 methods, ≤6 URLs, ≤10 status codes, ≤6 error messages (valid UTF-8), latencies on/around the bucket bounds, " +
		"on a ms grid, zero, negative and huge; each sequence observed sequentially (sum compared bit for bit) or from 2..16 goroutines (sum within 1e-9); " +
		"non-trivial = distinct sequence with ≥2 results"
	st := &kit.Stream{Name: "c20.observe"}
	flush := func(force bool) {
		if force || len(st.Ops) >= 50 {
			if p := os.Getenv("VERIF_DUMP_OPS"); p != "" { // debugging aid: append the op lines to a file
				if f, err := os.OpenFile(p, os.O_APPEND|os.O_CREATE|os.O_WRONLY, 0o644); err == nil {
					for _, o := range st.Ops {
						f.WriteString(o + "\n")
					}
					f.Close()
				}
			}
			st.Diff(c.Driver, s)
			st = &kit.Stream{Name: "c20.observe"}
		}
	}
	if c.Replay != "" {
		data, err := os.ReadFile(c.Replay)
		if err != nil {
			panic(err)
		}
		var rec struct {
			Input sequence `json:"input"`
		}
		if err := json.Unmarshal(data, &rec); err != nil {
			panic(err)
		}
		s.Case("replay", true)
		check(s, st, rec.Input)
		flush(true)
		return
	}
	wideDone := wideSeriesStart(r, s) // runs in the background (sleeps 1.2s), evaluated at the end
	// defect witness first
	fixed := []sequence{
		{Results: []res{{Method: "GET", URL: "http://localhost/", Code: 500, BIn: 3, BOut: 4, Lat: 1000000, Err: "x"}}},
		{Results: []res{{Method: "GET", URL: "http://localhost/", Code: 200, BIn: 3, BOut: 4, Lat: 5000000}, {Method: "GET", URL: "http://localhost/", Code: 200, BIn: 5, BOut: 6, Lat: 5000001}}},
		{},
	}
	for _, sq := range fixed {
		s.Case(fmt.Sprint("fixed:", sq), true)
		_, l := observeAll(sq)
		s.Sample(map[string]interface{}{"op": "c20.observe", "sequence": sq, "impl": l})
		check(s, st, sq)
	}
	n := c.N(500, 16000)
	for i := 0; i < n; i++ {
		size := genSize(r, 10000)
		sq := sequence{Results: genSequence(r, size, s)}
		if i%20 == 7 {
			// hundreds of distinct error messages on one Metrics instance (transport errors carry an ephemeral port)
			size = int(r.Range(300, 800))
			sq.Results = manyMessages(r, genSequence(r, size, s), s)
		}
		if r.Chance(0.6) {
			// attack name and sequence numbers travel with every result (they are no labels)
			name, kind := genAttackName(r)
			s.Count("attack_name:" + kind)
			seq := uint64(0)
			if r.Chance(0.3) {
				seq = uint64(r.PickI64([]int64{9, 99, 999999, 1 << 40, math.MaxInt64 - 5000}))
				s.Count("attack_name:large_seq")
			}
			for j := range sq.Results {
				sq.Results[j].AttackHex = kit.HexS(name)
				if name == "" {
					sq.Results[j].AttackHex = ""
				}
				sq.Results[j].Seq = seq + uint64(j)
			}
		}
		if r.Chance(0.5) {
			sq.Workers = int(r.Range(2, 16))
			s.Count("concurrent")
		} else {
			s.Count("sequential")
		}
		switch {
		case size == 0:
			s.Count("size:0")
		case size <= 30:
			s.Count("size:1..30")
		case size <= 300:
			s.Count("size:31..300")
		default:
			s.Count("size:>300")
		}
		s.Case(fmt.Sprintf("q:%d:%d:%d", i, size, c.Seed), size > 1)
		if i < 2 && size < 6 {
			s.Sample(map[string]interface{}{"op": "c20.observe", "sequence": sq})
		}
		check(s, st, sq)
		flush(false)
	}
	flush(true)
	rst := &kit.Stream{Name: "c20.register"}
	for i := 0; i < c.N(20, 400); i++ {
		registerScenario(r, s, rst, i)
	}
	rst.Diff(c.Driver, s)
	hst := &kit.Stream{Name: "c20.handler"}
	for i := 0; i < c.N(15, 300); i++ {
		handlerScenario(r, s, hst, i)
	}
	hst.Diff(c.Driver, s)
	wst := &kit.Stream{Name: "c20.wide_series"}
	wideDone(wst)
	wst.Diff(c.Driver, s)
	attackRuns(c, r, s)
}
