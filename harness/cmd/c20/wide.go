package main

// Long-lived, wide-range series: one label set observes latencies spread over ~20 doublings
// (50µs … 60s) and stays alive for more than a second of wall-clock time; the scrape must keep
// showing the sums over everything observed — at once, after the pause, and after one more result.
// (Every assertion is on counts and sums that cannot decrease on a correct exporter.)

import (
	"math"
	"time"

	"github.com/prometheus/client_golang/prometheus"
	"github.com/tsenart/vegeta/v12/lib/prom"
	"vharness/kit"
)

type wideStage struct {
	name string
	sq   sequence
	sc   *scrape
	line string
}

// wideSeriesStart draws the inputs, runs the scenario in the background (it sleeps 1.2s) and returns a
// function that waits for it and evaluates oracle and model on the three scrapes.
func wideSeriesStart(r *kit.Rng, s *kit.Summary) func(st *kit.Stream) {
	var rs []res
	n := 150 + r.Pick(100)
	for i := 0; i < n; i++ {
		// log-uniform over 50µs … 60s
		lat := int64(50000 * math.Exp(r.Float64()*math.Log(60e9/50000)))
		x := res{Method: "GET", URL: "http://wide.test/", Code: 200, BIn: uint64(r.Range(0, 5000)), BOut: uint64(r.Range(0, 300)), Lat: lat}
		if r.Chance(0.2) {
			x.Code, x.Err = 503, "503 Service Unavailable"
		}
		rs = append(rs, x)
		if i%4 == 0 { // control: a narrow series
			rs = append(rs, res{Method: "GET", URL: "http://narrow.test/", Code: 200, BIn: 10, BOut: 1, Lat: r.Range(1000000, 5000000)})
		}
	}
	last := res{Method: "GET", URL: "http://wide.test/", Code: 200, BIn: 7, BOut: 3, Lat: r.Range(100000, 30000000000)}
	stages := make([]wideStage, 0, 3)
	failed := ""
	done := make(chan struct{})
	go func() {
		defer close(done)
		p, msg := kit.Recover(func() {
			pm := prom.NewMetrics()
			reg := prometheus.NewRegistry()
			if err := pm.Register(reg); err != nil {
				failed = err.Error()
				return
			}
			snap := func(name string, sq sequence) {
				sc, err := gather(reg)
				if err != nil {
					failed = err.Error()
					return
				}
				stages = append(stages, wideStage{name, sq, sc, sc.line(true)})
			}
			for _, x := range rs {
				pm.Observe(x.result())
			}
			snap("at_once", sequence{Results: rs})
			time.Sleep(1200 * time.Millisecond)
			snap("after_1.2s", sequence{Results: rs})
			pm.Observe(last.result())
			snap("one_more_result", sequence{Results: append(append([]res{}, rs...), last)})
		})
		if p {
			failed = "panic " + msg
		}
	}()
	return func(st *kit.Stream) {
		<-done
		if failed != "" {
			s.Violate(kit.Violation{Kind: "prom_observe_failed", What: "Observe/Gather panicked or failed on a long-lived wide-range series", Input: sequence{Results: rs}, Observed: failed})
			return
		}
		for _, g := range stages {
			s.Case("wide:"+g.name, true)
			s.Count("wide_series:" + g.name)
			st.Add(opLine(g.sq), g.line)
			oracle(s, g.sq, g.sc)
		}
	}
}
