package main

// -connect-to with several different sources on one command line, end to end: the real
// `vegeta attack` against raw TCP listeners, the targets file naming the mapped hosts in turn.
//
// Oracle (the manual): "-connect-to value: src:port:dst:port … Identical src:port with
// different dst:port will round-robin over the different dst:port pairs": a hit for a source
// arrives at a destination given for that source, and every destination of a repeated source
// receives connections — with one connection per hit and one hit at a time, evenly (±1).

import (
	"bytes"
	"context"
	"encoding/json"
	"fmt"
	"os"
	"os/exec"
	"path/filepath"
	"strings"
	"sync"
	"time"

	vegeta "github.com/tsenart/vegeta/v12/lib"

	"vharness/kit"
	"vharness/run"
)

// e2eMulti: Dsts[i] = number of destinations given for source i (host src<i>.invalid:8080);
// Pattern = the targets file as source numbers, one line each (the attack walks it round robin);
// FlagOrder = the -connect-to flags as (source, destination) pairs in command-line order.
type e2eMulti struct {
	Op         string   `json:"op"` // "e2e-multi"
	Dsts       []int    `json:"destinations_per_source"`
	Pattern    []int    `json:"targets_pattern"`
	FlagOrder  [][2]int `json:"connect_to_flags"`
	Sequential bool     `json:"sequential"` // -workers 1 -max-workers 1: one hit at a time
	Extra      []string `json:"extra_args"`
	Text       string   `json:"args_text"`
}

func multiHost(i int) string { return fmt.Sprintf("src%d.invalid:8080", i) }

func genE2EMulti(r *kit.Rng) *e2eMulti {
	m := &e2eMulti{Op: "e2e-multi", Sequential: r.Chance(0.7)}
	n := 2 + r.Pick(2)
	rep := r.Pick(n) // this source is repeated
	for i := 0; i < n; i++ {
		d := 1 + r.Pick(3)
		if i == rep && d == 1 {
			d = 2 + r.Pick(2)
		}
		m.Dsts = append(m.Dsts, d)
	}
	// targets: the sources in turn (the shape every targets file of several hosts has), sometimes
	// with a source twice in a row
	for i := 0; i < n; i++ {
		m.Pattern = append(m.Pattern, i)
		if r.Chance(0.15) {
			m.Pattern = append(m.Pattern, i)
		}
	}
	// flags: per source in destination order; the sources interleaved at random
	next := make([]int, n)
	left := 0
	for _, d := range m.Dsts {
		left += d
	}
	for left > 0 {
		i := r.Pick(n)
		if next[i] < m.Dsts[i] {
			m.FlagOrder = append(m.FlagOrder, [2]int{i, next[i]})
			next[i]++
			left--
		}
	}
	for _, pf := range [][]string{{"-http2=false", "-http2=true", ""}, {"-max-connections=1", "-max-connections=0", ""}, {"-connections=1", ""}, {"-dns-ttl=-1", "-dns-ttl=1s", ""}} {
		if f := r.PickStr(pf); f != "" {
			m.Extra = append(m.Extra, f)
		}
	}
	return m
}

// fixed shapes: two sources one of them twice, both twice, three sources
func e2eMultiFixed() []*e2eMulti {
	mk := func(seq bool, dsts []int, pattern []int, order [][2]int) *e2eMulti {
		return &e2eMulti{Op: "e2e-multi", Dsts: dsts, Pattern: pattern, FlagOrder: order, Sequential: seq}
	}
	var out []*e2eMulti
	for _, seq := range []bool{true, false} {
		out = append(out,
			mk(seq, []int{2, 1}, []int{0, 1}, [][2]int{{0, 0}, {0, 1}, {1, 0}}),
			mk(seq, []int{1, 2}, []int{0, 1}, [][2]int{{1, 0}, {0, 0}, {1, 1}}),
			mk(seq, []int{2, 2}, []int{0, 1}, [][2]int{{0, 0}, {1, 0}, {0, 1}, {1, 1}}),
			mk(seq, []int{3, 1}, []int{0, 1}, [][2]int{{0, 0}, {0, 1}, {0, 2}, {1, 0}}),
			mk(seq, []int{2, 1, 3}, []int{0, 1, 2}, [][2]int{{2, 0}, {0, 0}, {1, 0}, {2, 1}, {0, 1}, {2, 2}}),
			mk(seq, []int{2, 1}, []int{0, 1, 1}, [][2]int{{1, 0}, {0, 0}, {0, 1}}),
		)
	}
	return out
}

func runE2EMultiCase(c *run.Ctx, s *kit.Summary, m *e2eMulti, id int) {
	total := 0
	first := make([]int, len(m.Dsts)) // listener number of destination 0 of each source
	for i, d := range m.Dsts {
		first[i] = total
		total += d
	}
	owner := make([]int, total)
	for i, d := range m.Dsts {
		for j := 0; j < d; j++ {
			owner[first[i]+j] = i
		}
	}
	rs, err := newRawServer(total)
	if err != nil {
		s.Skipped["e2e: cannot listen"]++
		return
	}
	defer rs.close()
	dir := filepath.Join(c.Work, fmt.Sprintf("e2em-%d", id))
	os.MkdirAll(dir, 0o755)
	var tb strings.Builder
	for _, i := range m.Pattern {
		fmt.Fprintf(&tb, "GET http://%s/e2e\n", multiHost(i))
	}
	tf, out := filepath.Join(dir, "targets.txt"), filepath.Join(dir, "results.gob")
	os.WriteFile(tf, []byte(tb.String()), 0o644)
	args := []string{"attack", "-targets", tf, "-output", out, "-duration", "600ms", "-rate", "50/1s", "-timeout", "2s", "-keepalive=false"}
	if m.Sequential {
		args = append(args, "-workers", "1", "-max-workers", "1")
	}
	var text []string
	for _, sd := range m.FlagOrder {
		args = append(args, fmt.Sprintf("-connect-to=%s:%s", multiHost(sd[0]), rs.addr(first[sd[0]]+sd[1])))
		text = append(text, fmt.Sprintf("-connect-to=%s:{L%d}", multiHost(sd[0]), first[sd[0]]+sd[1]))
	}
	args = append(args, m.Extra...)
	m.Text = strings.Join(append(append([]string{"-keepalive=false"}, text...), m.Extra...), " ")
	ctx, cancel := context.WithTimeout(context.Background(), 30*time.Second)
	defer cancel()
	cmd := exec.CommandContext(ctx, c.Vegeta, args...)
	cmd.Env = []string{"PATH=" + os.Getenv("PATH"), "HOME=" + dir}
	var stderr bytes.Buffer
	cmd.Stderr = &stderr
	if err := cmd.Run(); err != nil {
		if ctx.Err() == nil && strings.Contains(stderr.String(), "invalid value") {
			s.Violate(kit.Violation{Kind: "cmdline_rejected", What: "vegeta attack refused documented flag values", Input: m,
				Expected: "exit 0", Observed: err.Error() + ": " + strings.TrimSpace(stderr.String())})
			return
		}
		s.Skipped["e2e: attack command failed for another reason than a flag value"]++
		return
	}
	rs.mu.Lock()
	reqs := append([]wireReq{}, rs.reqs...)
	rs.mu.Unlock()
	nRes, nOK := 0, 0
	if f, err := os.Open(out); err == nil {
		dec := vegeta.NewDecoder(f)
		for {
			var r vegeta.Result
			if dec.Decode(&r) != nil {
				break
			}
			nRes++
			if r.Error == "" && r.Code == 200 {
				nOK++
			}
		}
		f.Close()
	}
	if nRes == 0 {
		s.Skipped["e2e: no request reached the listener"]++
		return
	}
	mode := "concurrent"
	if m.Sequential {
		mode = "one hit at a time"
	}
	s.Count("e2e-multi:runs " + mode)
	s.Count(fmt.Sprintf("e2e-multi:sources=%d destinations=%v", len(m.Dsts), m.Dsts))
	s.CountN("e2e-multi:requests_seen", len(reqs))
	key := map[string]interface{}{"e2e": true, "combo": "connect-to several sources"}
	per := make([]int, total)
	perSrc := make([]int, len(m.Dsts))
	for _, rq := range reqs {
		host := ""
		for _, kv := range rq.headers {
			if strings.EqualFold(kv[0], "Host") {
				host = kv[1]
			}
		}
		if want := multiHost(owner[rq.listener]); host != want {
			s.Violate(kit.Violation{Kind: "connect_to_mapping", What: "a hit arrived at a destination that was not given for its source", Input: m,
				Expected: "destination {L" + fmt.Sprint(rq.listener) + "} receives hits for " + want + " only", Observed: "a hit for " + host, Key: key})
			return
		}
		per[rq.listener]++
		perSrc[owner[rq.listener]]++
	}
	if len(reqs) == 0 {
		s.Violate(kit.Violation{Kind: "connect_to_mapping", What: "no hit reaches a destination of the -connect-to mapping (the attack dials something else)", Input: m,
			Expected: "the hits arrive at the harness's listeners", Observed: fmt.Sprintf("%d results (%d answered), 0 requests received", nRes, nOK), Key: key})
		return
	}
	for i, d := range m.Dsts {
		if d < 2 || perSrc[i] < 3*d {
			continue
		}
		s.Count("e2e-multi:repeated sources judged")
		lo, hi := per[first[i]], per[first[i]]
		for j := 0; j < d; j++ {
			n := per[first[i]+j]
			if n < lo {
				lo = n
			}
			if n > hi {
				hi = n
			}
		}
		got := fmt.Sprintf("source %s: connections per destination %v (all listeners: %v)", multiHost(i), per[first[i]:first[i]+d], per)
		if lo == 0 {
			s.Violate(kit.Violation{Kind: "connect_to_mapping", What: "a destination of a repeated -connect-to source never received a connection", Input: m,
				Expected: "every destination given for the source is used in turn", Observed: got, Key: key})
			return
		}
		// one connection per hit (-keepalive=false), one hit at a time, every hit answered: the turn-taking is visible exactly
		if m.Sequential && nOK == nRes && len(reqs) == nRes && hi-lo > 1 {
			s.Violate(kit.Violation{Kind: "connect_to_mapping", What: "the destinations of a repeated -connect-to source are not used in turn", Input: m,
				Expected: "connection counts of the source's destinations differ by at most one", Observed: got, Key: key})
			return
		}
	}
}

func runE2EMulti(c *run.Ctx, s *kit.Summary, r *kit.Rng) {
	cases := e2eMultiFixed()
	for i := 0; i < c.N(8, 80); i++ {
		cases = append(cases, genE2EMulti(r))
	}
	var mu sync.Mutex // kit.Summary is not concurrency-safe
	sem := make(chan struct{}, 5)
	var wg sync.WaitGroup
	for i, m := range cases {
		b, _ := json.Marshal(m)
		s.Case("e2e-multi:"+string(b), true)
		wg.Add(1)
		sem <- struct{}{}
		go func(i int, m *e2eMulti) {
			defer wg.Done()
			defer func() { <-sem }()
			local := kit.NewSummary("C19", 0, "")
			runE2EMultiCase(c, local, m, i)
			mu.Lock()
			for k, v := range local.Dist {
				s.CountN(k, v)
			}
			for k, v := range local.Skipped {
				s.Skipped[k] += v
			}
			for _, v := range local.Violations {
				s.Violate(v)
			}
			mu.Unlock()
		}(i, m)
	}
	wg.Wait()
}

func replayE2EMulti(c *run.Ctx, s *kit.Summary, raw []byte) {
	var rec struct {
		Input e2eMulti `json:"input"`
	}
	if err := json.Unmarshal(raw, &rec); err != nil {
		panic(err)
	}
	s.Case("replay", true)
	runE2EMultiCase(c, s, &rec.Input, 0)
}
