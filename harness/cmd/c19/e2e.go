package main

// End-to-end observation for C19: the real `vegeta attack` command (the binary the check builds,
// run as the CLI, not through the line-protocol hook) is started with -header / -connect-to /
// -max-body flags against RAW TCP listeners of the harness. A raw listener sees the literal
// header lines (a net/http server would canonicalise the keys and hide a change of case), so
// what the flags said can be compared with what reaches the wire, downstream of everything
// attack() does with the parsed values.

import (
	"bufio"
	"bytes"
	"context"
	"encoding/json"
	"fmt"
	"io"
	"net"
	"os"
	"os/exec"
	"path/filepath"
	"sort"
	"strconv"
	"strings"
	"sync"
	"time"

	vegeta "github.com/tsenart/vegeta/v12/lib"
	"vharness/kit"
	"vharness/run"
)

const e2eBodyLen = 64

type wireReq struct {
	listener int
	line     string      // request line
	headers  [][2]string // literal (key, value) of every header line, in wire order
}

type rawServer struct {
	ln   []net.Listener
	mu   sync.Mutex
	reqs []wireReq
	wg   sync.WaitGroup
}

func newRawServer(n int) (*rawServer, error) {
	rs := &rawServer{}
	for i := 0; i < n; i++ {
		l, err := net.Listen("tcp", "127.0.0.1:0")
		if err != nil {
			rs.close()
			return nil, err
		}
		rs.ln = append(rs.ln, l)
		rs.wg.Add(1)
		go rs.serve(i, l)
	}
	return rs, nil
}

func (rs *rawServer) addr(i int) string { return rs.ln[i].Addr().String() }

func (rs *rawServer) close() {
	for _, l := range rs.ln {
		l.Close()
	}
	rs.wg.Wait()
}

func (rs *rawServer) serve(i int, l net.Listener) {
	defer rs.wg.Done()
	for {
		c, err := l.Accept()
		if err != nil {
			return
		}
		go func(c net.Conn) {
			defer c.Close()
			c.SetDeadline(time.Now().Add(5 * time.Second))
			br := bufio.NewReader(c)
			var lines []string
			for {
				ln, err := br.ReadString('\n')
				if err != nil {
					return
				}
				ln = strings.TrimRight(ln, "\r\n")
				if ln == "" {
					break
				}
				lines = append(lines, ln)
			}
			if len(lines) == 0 {
				return
			}
			wr := wireReq{listener: i, line: lines[0]}
			for _, h := range lines[1:] {
				k, v, _ := strings.Cut(h, ":")
				wr.headers = append(wr.headers, [2]string{k, strings.TrimPrefix(v, " ")})
			}
			rs.mu.Lock()
			rs.reqs = append(rs.reqs, wr)
			rs.mu.Unlock()
			if strings.HasPrefix(lines[0], "CONNECT ") {
				io.WriteString(c, "HTTP/1.1 502 Bad Gateway\r\nContent-Length: 0\r\nConnection: close\r\n\r\n")
				return
			}
			io.WriteString(c, "HTTP/1.1 200 OK\r\nContent-Type: text/plain\r\nContent-Length: "+strconv.Itoa(e2eBodyLen)+"\r\nConnection: close\r\n\r\n"+strings.Repeat("b", e2eBodyLen))
		}(c)
	}
}

// dnsStub: a UDP DNS server that answers every A question with 127.0.0.1 (and every other question
// with an empty answer).
type dnsStub struct {
	pc      net.PacketConn
	mu      sync.Mutex
	n       int            // questions of any type
	nA      int            // A questions
	byLabel map[string]int // A questions by the first label of the name asked
}

func newDNSStub() (*dnsStub, error) {
	pc, err := net.ListenPacket("udp", "127.0.0.1:0")
	if err != nil {
		return nil, err
	}
	d := &dnsStub{pc: pc, byLabel: map[string]int{}}
	go func() {
		buf := make([]byte, 1500)
		for {
			n, from, err := pc.ReadFrom(buf)
			if err != nil {
				return
			}
			q := buf[:n]
			if n < 12 {
				continue
			}
			// end of the first question: name labels, zero byte, type, class
			i := 12
			for i < n && q[i] != 0 {
				i += int(q[i]) + 1
			}
			if i+5 > n {
				continue
			}
			qtype := int(q[i+1])<<8 | int(q[i+2])
			question := q[12 : i+5]
			resp := []byte{q[0], q[1], 0x81, 0x80, 0, 1, 0, 0, 0, 0, 0, 0}
			if qtype == 1 {
				resp[7] = 1
			}
			resp = append(resp, question...)
			if qtype == 1 {
				resp = append(resp, 0xC0, 0x0C, 0, 1, 0, 1, 0, 0, 0, 1, 0, 4, 127, 0, 0, 1)
			}
			d.mu.Lock()
			d.n++
			if qtype == 1 {
				d.nA++
				if l := int(q[12]); 13+l <= n {
					d.byLabel[strings.ToLower(string(q[13:13+l]))]++
				}
			}
			d.mu.Unlock()
			pc.WriteTo(resp, from)
		}
	}()
	return d, nil
}

func (d *dnsStub) addr() string { return d.pc.LocalAddr().String() }
func (d *dnsStub) close()       { d.pc.Close() }
func (d *dnsStub) aQueries(label string) int {
	if d == nil {
		return 0
	}
	d.mu.Lock()
	defer d.mu.Unlock()
	if label == "" {
		return d.nA
	}
	return d.byLabel[label]
}
func (d *dnsStub) queries() int {
	if d == nil {
		return 0
	}
	d.mu.Lock()
	defer d.mu.Unlock()
	return d.n
}

// e2eCase: the flags of one run. Listener addresses are written {L0}, {L1} and substituted at run
// time (so that a replay works with fresh ports).
type e2eCase struct {
	Op      string   `json:"op"` // "e2e"
	Args    []string `json:"args_text"`
	Proxy   bool     `json:"proxy"` // https target through HTTPS_PROXY={L0}: the CONNECT request carries the -proxy-header values
	headers [][2]string
	proxyH  [][2]string
	maxBody int64 // -2 = flag not given
	nDst    int
	// Resolvers: the target names a host only the harness's DNS stub knows ({DNS} = its address); the hits
	// reach the listener only if the -resolvers servers are the ones asked
	Resolvers bool   `json:"resolvers"`
	dnsTTL    string // "" = flag not given
}

var e2eKeys = []string{"x-trace-id", "X-API-KEY", "x-api-key", "X-Api-Key", "content-md5", "X_Odd.Key", "ETag", "x-UPPER-lower", "X-Request-Id", "x-request-id", "Authorization", "accept",
	// names net/http knows but writes like any other header, and names with digits / underscores / dots
	// (Host, User-Agent, Content-Length, Transfer-Encoding, Trailer, Connection, Accept-Encoding, Expect, TE, Upgrade and
	// X-Vegeta-* are written or interpreted by the client itself: those are judged at the flag value only)
	"content-type", "CONTENT-TYPE", "Content-type", "authorization", "AUTHORIZATION", "cookie", "Cookie", "COOKIE", "date", "DATE",
	"x-b3-traceid", "X-B3-TraceId", "x_under_score", "X_UNDER_SCORE", "x.dotted.name", "X.Dotted.Name", "x-1", "X-amz-meta-1a", "x-AMZ-meta-1A"}
var e2eVals = []string{"1", "abc", "Bearer a:b", "v=1;w=2", "text/plain", "a b  c", "ünï"}

func genE2E(r *kit.Rng) *e2eCase {
	ec := &e2eCase{Op: "e2e", maxBody: -2, nDst: 1 + r.Pick(2)}
	ec.Proxy = r.Chance(0.25)
	flag := "-header"
	if ec.Proxy {
		flag = "-proxy-header"
	}
	n := 2 + r.Pick(5)
	var groups [][]string // one flag each ("-header=v" or "-header", "v")
	for i := 0; i < n; i++ {
		k, v := r.PickStr(e2eKeys), r.PickStr(e2eVals)
		if i == 1 && r.Chance(0.6) { // a key that differs from the first one only by case
			k0 := ec.lastKey()
			if k0 == strings.ToLower(k0) {
				k = strings.ToUpper(k0)
			} else {
				k = strings.ToLower(k0)
			}
		}
		text := k + r.PickStr([]string{":", ": ", " :  "}) + v
		if r.Chance(0.5) {
			groups = append(groups, []string{flag + "=" + text})
		} else {
			groups = append(groups, []string{flag, text})
		}
		if ec.Proxy {
			ec.proxyH = append(ec.proxyH, [2]string{k, v})
		} else {
			ec.headers = append(ec.headers, [2]string{k, v})
		}
	}
	if !ec.Proxy {
		// how the hits find the listener: -connect-to (one or two destinations), the harness's DNS stub through
		// -resolvers, or the target URL itself
		switch k := r.Pick(10); {
		case k < 5:
			for i := 0; i < ec.nDst; i++ {
				groups = append(groups, []string{fmt.Sprintf("-connect-to=e2e-host.invalid:8080:{L%d}", i)})
			}
		case k < 7:
			ec.nDst = 0
			ec.Resolvers = true
			groups = append(groups, []string{"-resolvers={DNS}"})
		default:
			ec.nDst = 0 // the target names the listener directly
		}
		if r.Chance(0.5) {
			ec.dnsTTL = r.PickStr([]string{"-1", "0", "1s", "50ms", "-1s", "-30s", "-5m", "10s"})
			groups = append(groups, []string{"-dns-ttl=" + ec.dnsTTL})
		}
		// … combined with the flags that configure the connection pool and the protocol, in both values: none
		// of them changes where the manual says the hits go (-h2c=true is left out: over cleartext HTTP/2 the
		// raw listener cannot answer, and the unchanged code drops the dial flags for it)
		for _, pf := range [][]string{{"-keepalive=false", "-keepalive=true", ""}, {"-http2=false", "-http2=true", ""}, {"-h2c=false", ""},
			{"-max-connections=1", "-max-connections=2", "-max-connections=0", ""}, {"-connections=1", "-connections=10000", ""},
			{"-insecure", "-insecure=false", ""}, {"-proxy-header=X-Via: e2e", ""}, {"-laddr=127.0.0.1", ""}, {"-session-tickets", ""}, {"-chunked", ""}} {
			if f := r.PickStr(pf); f != "" {
				groups = append(groups, []string{f})
			}
		}
		if r.Chance(0.6) {
			ec.maxBody = r.PickI64([]int64{-1, 0, 1, 10, 63, 64, 65, 1024})
			groups = append(groups, []string{"-max-body=" + strconv.FormatInt(ec.maxBody, 10)})
		}
	}
	// interleave: the order of flags of different kinds must not matter. Flags of the same kind keep
	// their relative order (values accumulate in command-line order).
	for pass := 0; pass < 3*len(groups); pass++ {
		i := r.Pick(len(groups))
		if i+1 < len(groups) && !sameFlag(groups[i][0], groups[i+1][0]) {
			groups[i], groups[i+1] = groups[i+1], groups[i]
		}
	}
	for _, g := range groups {
		ec.Args = append(ec.Args, g...)
	}
	return ec
}

func sameFlag(a, b string) bool {
	na, _, _ := strings.Cut(a, "=")
	nb, _, _ := strings.Cut(b, "=")
	return na == nb
}

func (ec *e2eCase) lastKey() string {
	if ec.Proxy {
		return ec.proxyH[len(ec.proxyH)-1][0]
	}
	return ec.headers[len(ec.headers)-1][0]
}

// rebuild the documented meaning from the arguments (replay)
func e2eFromArgs(args []string, proxy bool) *e2eCase {
	ec := &e2eCase{Op: "e2e", Args: args, Proxy: proxy, maxBody: -2}
	for i := 0; i < len(args); i++ {
		name, val, has := strings.Cut(args[i], "=")
		if !has && (name == "-header" || name == "-proxy-header") && i+1 < len(args) { // boolean flags take no value
			i++
			val = args[i]
		}
		switch name {
		case "-header", "-proxy-header":
			k, v, _ := strings.Cut(val, ":")
			kv := [2]string{strings.TrimSpace(k), strings.TrimSpace(v)}
			if name == "-header" {
				ec.headers = append(ec.headers, kv)
			} else {
				ec.proxyH = append(ec.proxyH, kv)
			}
		case "-connect-to":
			ec.nDst++
		case "-resolvers":
			ec.Resolvers = true
		case "-dns-ttl":
			ec.dnsTTL = val
		case "-max-body":
			ec.maxBody, _ = strconv.ParseInt(val, 10, 64)
		}
	}
	return ec
}

func multiset(kvs [][2]string) string {
	m := map[string][]string{}
	for _, kv := range kvs {
		m[kv[0]] = append(m[kv[0]], kv[1])
	}
	var keys []string
	for k := range m {
		keys = append(keys, k)
	}
	sort.Strings(keys)
	var sb strings.Builder
	for _, k := range keys {
		vs := m[k]
		sort.Strings(vs)
		fmt.Fprintf(&sb, "%q=%q ", k, vs)
	}
	return sb.String()
}

// headers the client adds by itself (Go's transport and the attacker), not given by flags
func ownHeader(k string) bool {
	switch strings.ToLower(k) {
	case "host", "user-agent", "accept-encoding", "content-length", "connection", "transfer-encoding", "proxy-connection":
		return true
	}
	return strings.HasPrefix(strings.ToLower(k), "x-vegeta-")
}

func runE2ECase(c *run.Ctx, s *kit.Summary, ec *e2eCase, id int) {
	n := ec.nDst
	if n == 0 {
		n = 1
	}
	rs, err := newRawServer(n)
	if err != nil {
		s.Skipped["e2e: cannot listen"]++
		return
	}
	defer rs.close()
	dir := filepath.Join(c.Work, fmt.Sprintf("e2e-%d", id))
	os.MkdirAll(dir, 0o755)
	target := "http://e2e-host.invalid:8080/e2e"
	if ec.nDst == 0 {
		target = "http://" + rs.addr(0) + "/e2e"
	}
	var dns *dnsStub
	if ec.Resolvers {
		if dns, err = newDNSStub(); err != nil {
			s.Skipped["e2e: cannot listen (dns)"]++
			return
		}
		defer dns.close()
		_, port, _ := net.SplitHostPort(rs.addr(0))
		target = "http://e2e-host.test:" + port + "/e2e"
	}
	if ec.Proxy {
		target = "https://e2e-host.invalid/e2e"
	}
	tf, out := filepath.Join(dir, "targets.txt"), filepath.Join(dir, "results.gob")
	os.WriteFile(tf, []byte("GET "+target+"\n"), 0o644)
	dur := "200ms"
	if ec.Resolvers {
		dur = "300ms" // a dozen hits: the lookups are counted against them
	}
	args := []string{"attack", "-targets", tf, "-output", out, "-duration", dur, "-rate", "40/1s", "-timeout", "2s"}
	for _, a := range ec.Args {
		for i := range rs.ln {
			a = strings.ReplaceAll(a, fmt.Sprintf("{L%d}", i), rs.addr(i))
		}
		if dns != nil {
			a = strings.ReplaceAll(a, "{DNS}", dns.addr())
		}
		args = append(args, a)
	}
	ctx, cancel := context.WithTimeout(context.Background(), 30*time.Second)
	defer cancel()
	cmd := exec.CommandContext(ctx, c.Vegeta, args...)
	cmd.Env = []string{"PATH=" + os.Getenv("PATH"), "HOME=" + dir}
	if ec.Proxy {
		cmd.Env = append(cmd.Env, "HTTPS_PROXY=http://"+rs.addr(0), "https_proxy=http://"+rs.addr(0))
	}
	var stderr bytes.Buffer
	cmd.Stderr = &stderr
	if err := cmd.Run(); err != nil {
		if ctx.Err() != nil {
			s.Skipped["e2e: attack command did not finish"]++
			return
		}
		// a command line of documented values that the flag package refuses is a violation by itself; any other
		// failure of the run (environment) gives no verdict
		if strings.Contains(stderr.String(), "invalid value") {
			s.Violate(kit.Violation{Kind: "cmdline_rejected", What: "vegeta attack refused documented flag values", Input: ec,
				Expected: "exit 0", Observed: err.Error() + ": " + strings.TrimSpace(stderr.String())})
		} else {
			s.Skipped["e2e: attack command failed for another reason than a flag value"]++
		}
		return
	}
	rs.mu.Lock()
	reqs := append([]wireReq{}, rs.reqs...)
	rs.mu.Unlock()
	combo := "direct"
	switch {
	case ec.Proxy:
		combo = "proxy"
	case ec.Resolvers:
		combo = "resolvers"
	case ec.nDst >= 1:
		combo = fmt.Sprintf("connect-to x%d", ec.nDst)
	}
	for _, a := range ec.Args {
		for _, pf := range []string{"-keepalive=false", "-http2=false", "-max-connections=1", "-connections=1", "-laddr"} {
			if strings.HasPrefix(a, pf) {
				s.Count("e2e:combo " + combo + " + " + pf)
			}
		}
	}
	if ec.dnsTTL != "" {
		s.Count("e2e:combo " + combo + " + -dns-ttl=" + ec.dnsTTL)
	}
	if len(reqs) == 0 {
		// the attack ran (it wrote results) but not one hit arrived where the flags say the hits go
		nRes, nOK := 0, 0
		if f, err := os.Open(out); err == nil {
			dec := vegeta.NewDecoder(f)
			for {
				var r vegeta.Result
				if dec.Decode(&r) != nil {
					break
				}
				nRes++
				if r.Error == "" {
					nOK++
				}
			}
			f.Close()
		}
		if nRes == 0 || ec.Proxy {
			s.Skipped["e2e: no request reached the listener"]++
			return
		}
		kind, what := "dns_ttl_meaning", "no hit reaches the target the URL names"
		switch {
		case ec.Resolvers:
			kind, what = "resolver_meaning", "no hit reaches the host the -resolvers servers answer for (the listed resolvers are not the ones asked)"
		case ec.nDst >= 1:
			kind, what = "connect_to_mapping", "no hit reaches a destination of the -connect-to mapping (the attack dials something else)"
		case ec.dnsTTL == "":
			s.Skipped["e2e: no request reached the listener"]++
			return
		}
		s.Violate(kit.Violation{Kind: kind, What: what, Input: ec, Expected: "the hits arrive at the harness's listener",
			Observed: fmt.Sprintf("%d results (%d without error), 0 requests received; dns queries: %d", nRes, nOK, dns.queries()),
			Key:      map[string]interface{}{"e2e": true, "combo": combo}})
		return
	}
	s.Count("e2e:runs")
	s.CountN("e2e:requests_seen", len(reqs))
	if ec.Resolvers {
		// "use these resolvers instead of the ones configured by the operating system"
		s.Count("e2e:resolver runs judged")
		if dns.queries() == 0 {
			s.Violate(kit.Violation{Kind: "resolver_meaning", What: "the servers given to -resolvers received no query although hits for a host name were sent", Input: ec,
				Expected: "the name is looked up at the listed servers", Observed: fmt.Sprintf("%d requests received, dns queries at the listed server: 0", len(reqs)),
				Key: map[string]interface{}{"e2e": true, "combo": combo}})
			return
		}
		// -dns-ttl: "Specifies the duration to cache DNS lookups for. A zero value caches forever. A negative
		// value disables caching altogether." Every hit opens a connection of its own (the listener closes after
		// each answer), so without caching the address lookups keep coming with the hits, and with a cache that
		// outlives the run they stop after the first hit.
		ttlText := ec.dnsTTL
		if ttlText == "" {
			ttlText = "0" // the flag's default
		}
		ttl, perr := time.ParseDuration(ttlText)
		if ttlText == "-1" {
			ttl, perr = -1, nil
		} else if ttlText == "0" {
			ttl, perr = 0, nil
		}
		if hits, a := len(reqs), dns.aQueries(""); perr == nil && hits >= 6 {
			got := fmt.Sprintf("%d hits arrived, %d address lookups at the listed server", hits, a)
			key := map[string]interface{}{"e2e": true, "combo": combo, "dns_ttl": ttlText}
			switch {
			case ttl < 0:
				s.Count("e2e:dns lookups judged, negative ttl")
				if a < hits/2 {
					s.Violate(kit.Violation{Kind: "dns_ttl_meaning", What: "a negative -dns-ttl did not disable caching: the lookups stop although the hits go on", Input: ec,
						Expected: "no caching: about one address lookup per hit (at least half as many)", Observed: got, Key: key})
					return
				}
			case ttl == 0 || ttl >= 5*time.Second:
				s.Count("e2e:dns lookups judged, cached for the whole run")
				if a > 4 {
					s.Violate(kit.Violation{Kind: "dns_ttl_meaning", What: "lookups are not cached for the -dns-ttl given (0 = forever)", Input: ec,
						Expected: "lookups for the first hit only (at most 4)", Observed: got, Key: key})
					return
				}
			default:
				s.Count("e2e:dns lookups counted, ttl shorter than the run (not judged)")
			}
		}
	}
	want := multiset(ec.headers)
	what := "-header"
	if ec.Proxy {
		want, what = multiset(ec.proxyH), "-proxy-header"
		s.Count("e2e:proxy_connect_runs")
	}
	perListener := make([]int, n)
	for _, rq := range reqs {
		perListener[rq.listener]++
		if ec.Proxy != strings.HasPrefix(rq.line, "CONNECT ") {
			continue
		}
		var got [][2]string
		for _, kv := range rq.headers {
			if !ownHeader(kv[0]) {
				got = append(got, kv)
			}
		}
		if g := multiset(got); g != want {
			kind := "header_case_on_wire"
			if ec.Proxy {
				// -proxy-header is not named by the property: observed and counted, not judged
				s.Count("e2e:proxy_header_lines_differ")
				return
			}
			s.Violate(kit.Violation{Kind: kind, What: "the header lines sent differ from the repeated " + what + " flags (keys byte for byte, values accumulated per key)",
				Input: ec, Expected: want, Observed: g, Key: map[string]interface{}{"flag": what}})
			return
		}
	}
	for _, kv := range append(append([][2]string{}, ec.headers...), ec.proxyH...) {
		if kv[0] != textprotoCanonical(kv[0]) {
			s.Count("e2e:non_canonical_key")
			break
		}
	}
	lower := map[string]int{}
	for _, kv := range append(append([][2]string{}, ec.headers...), ec.proxyH...) {
		lower[strings.ToLower(kv[0])+"\x00"+kv[0]] = 1
	}
	seen := map[string]int{}
	for k := range lower {
		seen[strings.SplitN(k, "\x00", 2)[0]]++
	}
	for _, cnt := range seen {
		if cnt > 1 {
			s.Count("e2e:keys_differing_only_by_case")
			break
		}
	}
	if ec.Proxy {
		return
	}
	// -connect-to: identical sources round-robin over all their destinations
	if ec.nDst >= 2 && len(reqs) >= 2*ec.nDst {
		s.Count("e2e:connect_to_round_robin_runs")
		for i, cnt := range perListener {
			if cnt == 0 {
				s.Violate(kit.Violation{Kind: "connect_to_mapping", What: "a destination of a repeated -connect-to source never received a connection",
					Input: ec, Expected: "every mapped destination is used", Observed: fmt.Sprintf("listener %d of %v got none", i, perListener)})
				return
			}
		}
	}
	// -max-body: the captured body is cut at the given number of bytes (-1 = no limit)
	if ec.maxBody != -2 {
		f, err := os.Open(out)
		if err != nil {
			return
		}
		defer f.Close()
		dec := vegeta.NewDecoder(f)
		wantLen := int64(e2eBodyLen)
		if ec.maxBody >= 0 && ec.maxBody < wantLen {
			wantLen = ec.maxBody
		}
		for {
			var r vegeta.Result
			if err := dec.Decode(&r); err != nil {
				break
			}
			if r.Code != 200 {
				continue
			}
			s.Count("e2e:max_body_results")
			if int64(len(r.Body)) != wantLen {
				s.Violate(kit.Violation{Kind: "max_body_meaning", What: "the captured response body is not cut at -max-body",
					Input: ec, Expected: fmt.Sprint(wantLen), Observed: fmt.Sprint(len(r.Body)), Key: map[string]interface{}{"e2e": true}})
				return
			}
		}
	}
}

// textprotoCanonical: what net/http would turn the key into (for counting non-canonical keys only)
func textprotoCanonical(k string) string {
	b := []byte(k)
	upper := true
	for i, c := range b {
		if upper && 'a' <= c && c <= 'z' {
			b[i] = c - 32
		} else if !upper && 'A' <= c && c <= 'Z' {
			b[i] = c + 32
		}
		upper = c == '-'
	}
	return string(b)
}

// e2eMatrix: every way the flags direct the hits (one / two -connect-to destinations, -resolvers, the URL
// itself with a -dns-ttl) combined with every pool / protocol flag value, one at a time.
func e2eMatrix() []*e2eCase {
	dial := [][]string{
		{"-connect-to=e2e-host.invalid:8080:{L0}"},
		{"-connect-to=e2e-host.invalid:8080:{L0}", "-connect-to=e2e-host.invalid:8080:{L1}"},
		{"-resolvers={DNS}"},
		{"-dns-ttl=1s"},
		{"-dns-ttl=-1", "-connect-to=e2e-host.invalid:8080:{L0}"},
	}
	partner := []string{"-keepalive=false", "-keepalive=true", "-http2=false", "-http2=true", "-h2c=false", "-max-connections=1", "-max-connections=2",
		"-connections=1", "-connections=10000", "-insecure", "-proxy-header=X-Via: e2e", "-laddr=127.0.0.1", "-session-tickets"}
	var out []*e2eCase
	for _, d := range dial {
		for _, p := range partner {
			args := append([]string{"-header=x-e2e: 1"}, d...)
			// the partner flag before and after the dial flags in turn: the order on the command line must not matter
			if len(out)%2 == 0 {
				args = append(args, p)
			} else {
				args = append([]string{p}, args...)
			}
			out = append(out, e2eFromArgs(args, false))
		}
	}
	// -resolvers with every kind of -dns-ttl (negative = no caching, zero = for ever, positive) and the
	// connection-reuse / protocol values: the listed servers are the ones asked in every one of them
	for _, ttl := range []string{"-1", "-1ns", "-1s", "-5s", "-30s", "-1h", "0", "50ms", "1s", "1h"} {
		for _, p := range []string{"", "-keepalive=false", "-keepalive=true", "-http2=false", "-http2=true"} {
			args := []string{"-header=x-e2e: 1", "-resolvers={DNS}", "-dns-ttl=" + ttl}
			if len(out)%2 == 0 {
				args = []string{"-dns-ttl=" + ttl, "-header=x-e2e: 1", "-resolvers={DNS}"}
			}
			if p != "" {
				args = append(args, p)
			}
			out = append(out, e2eFromArgs(args, false))
		}
	}
	return out
}

func runE2E(c *run.Ctx, s *kit.Summary, r *kit.Rng) {
	n := c.N(16, 120)
	cases := make([]*e2eCase, n)
	for i := range cases {
		cases[i] = genE2E(r)
		s.Case("e2e:"+strings.Join(cases[i].Args, "\x00"), true)
	}
	for _, ec := range e2eMatrix() {
		cases = append(cases, ec)
		s.Case("e2e:"+strings.Join(ec.Args, "\x00"), true)
	}
	var mu sync.Mutex // kit.Summary is not concurrency-safe
	sem := make(chan struct{}, 6)
	var wg sync.WaitGroup
	for i, ec := range cases {
		wg.Add(1)
		sem <- struct{}{}
		go func(i int, ec *e2eCase) {
			defer wg.Done()
			defer func() { <-sem }()
			local := kit.NewSummary("C19", 0, "")
			runE2ECase(c, local, ec, i)
			mu.Lock()
			for k, v := range local.Dist {
				s.CountN(k, v)
			}
			for k, v := range local.Skipped {
				s.Skipped[k] += v
			}
			for _, v := range local.Violations {
				s.Violate(v)
			}
			mu.Unlock()
		}(i, ec)
	}
	wg.Wait()
}

// newGuardConfirm: see guardConfirm in main.go.
func newGuardConfirm(c *run.Ctx, s *kit.Summary) func(string) bool {
	cache := map[string]bool{}
	return func(word string) bool {
		if v, ok := cache[word]; ok {
			return v
		}
		rs, err := newRawServer(1)
		if err != nil {
			return true // no verdict possible: leave the hook's answer as it is
		}
		defer rs.close()
		dir := filepath.Join(c.Work, "guard-"+strconv.Itoa(len(cache)))
		os.MkdirAll(dir, 0o755)
		tf := filepath.Join(dir, "targets.txt")
		os.WriteFile(tf, []byte("GET http://"+rs.addr(0)+"/guard\n"), 0o644)
		ctx, cancel := context.WithTimeout(context.Background(), 20*time.Second)
		defer cancel()
		cmd := exec.CommandContext(ctx, c.Vegeta, "attack", "-targets", tf, "-output", filepath.Join(dir, "out.gob"), "-duration", "150ms", "-timeout", "1s", "-workers", "2", "-rate="+word)
		cmd.Env = []string{"PATH=" + os.Getenv("PATH"), "HOME=" + dir}
		runErr := cmd.Run()
		rs.mu.Lock()
		n := len(rs.reqs)
		rs.mu.Unlock()
		ran := n > 0 || runErr == nil
		cache[word] = ran
		s.Count(fmt.Sprintf("e2e:guard_confirmation_runs ran=%v", ran))
		return ran
	}
}

func replayE2E(c *run.Ctx, s *kit.Summary, raw []byte) {
	var rec struct {
		Input e2eCase `json:"input"`
	}
	if err := json.Unmarshal(raw, &rec); err != nil {
		panic(err)
	}
	ec := e2eFromArgs(rec.Input.Args, rec.Input.Proxy)
	s.Case("replay", true)
	runE2ECase(c, s, ec, 0)
}
